import SeqVerif.Model.AggLemmas
import SeqVerif.Model.AggWalk
import SeqVerif.Model.AggRun4
import SeqVerif.Model.AggOut
import SeqVerif.Model.AggE2E
import SeqVerif.Model.AggLimits
import SeqVerif.Model.AggCodec
import SeqVerif.Model.AggNum
import SeqVerif.Model.AggShard
import SeqVerif.Model.Nodes
import SeqVerif.Extracted.C06
set_option linter.unusedVariables false
/-!
# C06 - aggregations and histograms equal values computed from the matching documents

Model: `SV.Agg` (Model/AggSamples.lean, Model/Agg.lean): `seq.SamplesContainer` and `seq.AggregatableSamples`
with `Merge` / `Aggregate` / `Quantile`, the sourced OR tree and `ConsumeTokenSource`, the four aggregators, the
histogram rule - in exact integer arithmetic (float64 rounding is outside the model; the correspondence runs on
integer-valued data where float arithmetic is exact).

`Rep vals ne collect c` ("container `c` summarises exactly the value list `vals` and `ne` documents without the
field") is the link between containers and documents; `SC.Eqv` is equality of everything `Aggregate` can observe.

Only property theorems, extracted-fact obligations and non-vacuity examples live in this file.
-/
namespace SV.Props.C06
open SV.Agg

/-! ## merge order freedom -/

/-- `samples_merge_comm`: `a.Merge(b)` and `b.Merge(a)` are observationally equal (below the reservoir limit) -/
theorem c06_merge_comm (lim : Nat) (pick : List Int → Nat) (a b : SC) (ha : a.WF) (hb : b.WF)
    (hl : a.samples.length + b.samples.length ≤ lim) :
    SC.Eqv (SC.merge lim pick a b) (SC.merge lim pick b a) := SC.merge_comm lim pick ha hb hl

/-- `samples_merge_assoc` -/
theorem c06_merge_assoc (lim : Nat) (pick : List Int → Nat) (a b c : SC) (hb : b.WF)
    (hl : a.samples.length + b.samples.length + c.samples.length ≤ lim) :
    SC.Eqv (SC.merge lim pick (SC.merge lim pick a b) c) (SC.merge lim pick a (SC.merge lim pick b c)) :=
  SC.merge_assoc lim pick hb hl

/-- the counters merge unconditionally (no limit, no well-formedness): count / unique / not-exists -/
theorem c06_merge_counters (lim : Nat) (pick : List Int → Nat) (a b : SC) :
    (SC.merge lim pick a b).total = a.total + b.total ∧
    (SC.merge lim pick a b).notExists = a.notExists + b.notExists := ⟨by simp, by simp⟩

/-- **every bracketing**: whatever tree of `Merge` calls combines the per-fraction containers of one bin, the
result summarises exactly the concatenation of the fractions' values: count, sum, min, max, not-exists - and, when
samples are collected and at most `lim` values exist, the values themselves. -/
theorem c06_merge_tree (lim : Nat) (pick : List Int → Nat) (collect : Bool) (t : MTree SLeaf)
    (hleaf : ∀ l, l ∈ t.leaves → Rep l.vals l.ne collect l.c)
    (hl : collect = true → (allVals t.leaves).length ≤ lim) :
    Rep (allVals t.leaves) (allNe t.leaves) collect ((t.eval fun x y => ⟨SC.merge lim pick x.c y.c, [], 0⟩).c) :=
  MTree.rep lim pick collect t hleaf hl

/-- **`c06_merge_order_free`**: two merge trees (any bracketing) over any two orderings of the same per-fraction
partial results give observationally equal containers: same count, not-exists, sum, min, max and the same
multiset of samples (hence the same quantiles). -/
theorem c06_merge_order_free (lim : Nat) (pick : List Int → Nat) (collect : Bool) (t₁ t₂ : MTree SLeaf)
    (hperm : t₁.leaves.Perm t₂.leaves)
    (hleaf : ∀ l, l ∈ t₁.leaves → Rep l.vals l.ne collect l.c)
    (hl : collect = true → (allVals t₁.leaves).length ≤ lim) :
    SC.Eqv ((t₁.eval fun x y => ⟨SC.merge lim pick x.c y.c, [], 0⟩).c)
           ((t₂.eval fun x y => ⟨SC.merge lim pick x.c y.c, [], 0⟩).c) := by
  have h1 := MTree.rep lim pick collect t₁ hleaf hl
  have h2 := MTree.rep lim pick collect t₂ (fun l hl' => hleaf l (hperm.mem_iff.mpr hl'))
    (fun hc => by rw [← (allVals_perm hperm).length_eq]; exact hl hc)
  have h1' := (h1.perm (allVals_perm hperm))
  rw [allNe_perm hperm] at h1'
  exact h1'.eqv h2

/-! ## merge order freedom of whole results (the Go map level) -/

/-- `AggregatableSamples.Merge` bin by bin: a bin of the argument is merged into the (possibly fresh) bin of the
receiver, other bins stay -/
theorem c06_merge_bin (lim : Nat) (pick : List Int → Nat) (a b : AS) (hb : KeysNodup b.bins) (k : Bin) :
    (AS.merge lim pick a b).get k = omerge lim pick (a.get k) (b.get k) ∧
    (AS.merge lim pick a b).notExists = a.notExists + b.notExists :=
  ⟨AS.merge_get lim pick a b hb k, rfl⟩

/-- **every bracketing, whole results**: any tree of `Merge` calls over the per-fraction / per-shard results
gives, bin by bin, a container that exists exactly when some partial result has the bin and summarises the
concatenation of the partial results' values (per group, per time bin, with the not-exists counts) -/
theorem c06_merge_tree_results (lim : Nat) (pick : List Int → Nat) (collect : Bool) (t : MTree ALeaf)
    (hleaf : ∀ l, l ∈ t.leaves → KeysNodup l.a.bins ∧ ∀ k, ORep (l.pres k) (l.vals k) (l.ne k) collect (l.a.get k))
    (hl : collect = true → ∀ k, (binVals t.leaves k).length ≤ lim) :
    (t.eval (mergeLeaf lim pick)).a.notExists = (t.leaves.map (·.a.notExists)).sum ∧
    ∀ k, ORep (binPres t.leaves k) (binVals t.leaves k) (binNe t.leaves k) collect ((t.eval (mergeLeaf lim pick)).a.get k) :=
  let r := ATree.rep lim pick collect t hleaf hl
  ⟨r.2.1, fun k => (r.2.2 k).1⟩

/-- **`c06_merge_order_free` for whole results**: two merge trees (any bracketing) over any two orderings of the
same partial results agree on `NotExists`, on which bins exist and - for every aggregation function, quantile list
and either `Quantile` - on the bucket `Aggregate` builds for each bin. -/
theorem c06_merge_order_free_results (lim : Nat) (pick : List Int → Nat) (collect : Bool) (t₁ t₂ : MTree ALeaf)
    (hperm : t₁.leaves.Perm t₂.leaves)
    (hleaf : ∀ l, l ∈ t₁.leaves → KeysNodup l.a.bins ∧ ∀ k, ORep (l.pres k) (l.vals k) (l.ne k) collect (l.a.get k))
    (hl : collect = true → ∀ k, (binVals t₁.leaves k).length ≤ lim) :
    (t₁.eval (mergeLeaf lim pick)).a.notExists = (t₂.eval (mergeLeaf lim pick)).a.notExists ∧
    ∀ k, ((t₁.eval (mergeLeaf lim pick)).a.get k = none ∧ (t₂.eval (mergeLeaf lim pick)).a.get k = none) ∨
      ∃ c₁ c₂, (t₁.eval (mergeLeaf lim pick)).a.get k = some c₁ ∧ (t₂.eval (mergeLeaf lim pick)).a.get k = some c₂ ∧
        SC.Eqv c₁ c₂ ∧
        ∀ fixed fn qs, getAggBucket fixed fn qs k c₁ = getAggBucket fixed fn qs k c₂ :=
  ATree.order_free lim pick collect t₁ t₂ hperm hleaf hl

/-! ## the aggregators: per-fraction results equal values computed from the matching documents

`Ev` = one matching document as the aggregators see it (time bin, group source, field source); `events` produces
them by the lock-step walk (`c06_walk`).  `gval` / `fval` = token value of a source / parsed field value. -/

/-- **positional labels**: the aggregation labels the i-th leaf of its OR tree with `tids[i]` (`WrapWithSource`,
`ValueBySource`).  In the model the i-th posting list - empty or not, for every window `[minLID, maxLID]` the lists
were cut to - carries source `i`: an entry `(lid, i)` is in the merged stream exactly when `lid` is in `postings[i]`.
Hence the token index must hand over exactly one leaf per tid, in order (`c06_x_positional_labels`); dropping the
empty leaves shifts the labels of all later tokens (second part: same documents, token 2 answered as token 1). -/
theorem c06_positional_labels (rev : Bool) (postings : List (List Nat)) (p : Nat × Nat)
    (hp : ∀ l, l ∈ postings → l.Pairwise (· < ·)) :
    (p ∈ buildStream rev postings ↔ ∃ l, postings[p.2]? = some l ∧ p.1 ∈ l) ∧
    ((7, 2) ∈ buildStream rev [[5], [], [7]] ∧ (7, 1) ∈ buildStream rev ([[5], [], [7]].filter (· ≠ []))) := by
  refine ⟨mem_buildStream rev postings p hp, ?_, ?_⟩
  · exact (mem_buildStream rev _ (7, 2) (by intro l hl; simp at hl; rcases hl with rfl | rfl | rfl <;> simp)).mpr
      ⟨[7], by simp, by simp⟩
  · exact (mem_buildStream rev _ (7, 1) (by intro l hl; simp at hl; rcases hl with rfl | rfl <;> simp)).mpr
      ⟨[7], by simp, by simp⟩

/-- **aggregation limits below their thresholds change nothing** (the seq-db binary runs with limits 2000 /
1000000 / 100000; they switch on the source counting of `ConsumeTokenSource`): when the field has at most `limit`
distinct tokens in the window, the limited iterator never returns the limit error and answers every LID exactly as
the unlimited one - so every theorem about `walk` / `events` holds with limits configured. -/
theorem c06_limits_transparent (rev : Bool) (limit : Nat) (s : Stream) (lids : List Nat) (hw : SourcesWithin limit s) :
    walkLim rev limit s [] lids = some (walk rev s lids) :=
  walkLim_eq rev limit s s [] lids hw (fun _ h => h) List.nodup_nil (fun _ h => by cases h)

/-- **the token cache of `ValueBySource` is an optimisation**: looked up and stored under the source, a coherent
cache answers the token text `GetValByTID(tids[source])` itself and stays coherent, whatever the counting state -/
theorem c06_token_cache (count : Nat → Nat) (val : Nat → String) (cache : List (Nat × String)) (source : Nat)
    (h : CacheOk val cache) :
    (valueBySource count val cache source).1 = val source ∧ CacheOk val (valueBySource count val cache source).2 :=
  valueBySource_eq count val cache source h

/-- **lock-step walk** (`SourcedNodeIterator.ConsumeTokenSource` over `BuildORTreeAgg`): for result LIDs in strict
iteration order, the successive calls return for every LID a token of the field whose posting list holds the LID,
and "not exists" exactly when no token's posting list holds it - in both search orders. -/
theorem c06_walk (rev : Bool) (postings : List (List Nat)) (lids : List Nat)
    (hp : ∀ l, l ∈ postings → l.Pairwise (· < ·)) (hl : LidsSorted rev lids) :
    walk rev (buildStream rev postings) lids = lids.map (sourceOf (buildStream rev postings)) ∧
    ∀ lid, (∀ i, sourceOf (buildStream rev postings) lid = some i → ∃ l, postings[i]? = some l ∧ lid ∈ l) ∧
           (sourceOf (buildStream rev postings) lid = none → ∀ (i : Nat) (l : List Nat), postings[i]? = some l → lid ∉ l) :=
  ⟨walk_eq rev _ lids (buildStream_sorted rev postings hp) hl, fun lid => buildStream_sourceOf rev postings lid hp⟩

/-- **`c06_count`** (count per group and time bin, not-exists; legacy `_not_exists` bucket) -/
theorem c06_count (gval : Nat → String) (evs : List Ev) (hinj : ∀ a b, gval a = gval b → a = b) :
    (countRun gval evs).notExists = (evs.filter fun ev => ev.g.isNone).length ∧
    ((countRun gval evs).notExists > 0 →
      (countRun gval evs).get legacyNotExists = some ⟨0, 0, 0, (countRun gval evs).notExists, 0, []⟩) ∧
    ∀ m s, (⟨m, gval s⟩ : Bin) ≠ legacyNotExists ∨ (evs.filter fun ev => ev.g.isNone).length = 0 →
      let n := (evs.filter fun ev => ev.bin = m ∧ ev.g = some s).length
      (n = 0 → (countRun gval evs).get ⟨m, gval s⟩ = none) ∧
      (n ≠ 0 → ∃ c, (countRun gval evs).get ⟨m, gval s⟩ = some c ∧ c.total = n) :=
  countRun_spec gval evs hinj

/-- **`c06_unique`**: the buckets of a unique aggregation are exactly the group tokens of the matching documents -/
theorem c06_unique (gval : Nat → String) (evs : List Ev) (hinj : ∀ a b, gval a = gval b → a = b) :
    (uniqRun gval evs).notExists = (evs.filter fun ev => ev.g.isNone).length ∧
    ∀ s, ((uniqRun gval evs).get ⟨0, gval s⟩).isSome = true ↔ ∃ ev, ev ∈ evs ∧ ev.g = some s :=
  uniqRun_spec gval evs hinj

/-- **`c06_min/max/sum/total/notExists` per time bin** (sum / min / max / avg / quantile of a field without
group-by): a bin exists exactly when a matching document falls into it and its container summarises (`Rep`:
count, sum, min, max, not-exists, samples) exactly those documents' field values -/
theorem c06_field_stats (lim : Nat) (pick : List Int → Nat) (collect : Bool) (fval : Nat → Option Int) (evs : List Ev)
    (hp : ParseOk fval evs)
    (hl : collect = true → ∀ b, (evVals (fun s => (fval s).getD 0) (evs.filter fun ev => ev.bin = b)).length ≤ lim) :
    ∃ a, histAggRun lim pick collect fval evs = some a ∧ a.notExists = 0 ∧
      (∀ k, k.token ≠ "" → a.get k = none) ∧
      ∀ b, (evs.filter (fun ev => ev.bin = b) = [] → a.get ⟨b, ""⟩ = none) ∧
           (evs.filter (fun ev => ev.bin = b) ≠ [] → ∃ c, a.get ⟨b, ""⟩ = some c ∧
              Rep (evVals (fun s => (fval s).getD 0) (evs.filter fun ev => ev.bin = b))
                  (evNe (evs.filter fun ev => ev.bin = b)) collect c) :=
  histAggRun_spec lim pick collect fval evs hp hl

/-- **`c06_min/max/sum/total/notExists` per group and time bin** (group-by + field).  `pb` = where documents of a
group that lack the field are tallied (`missingBin`): in the bin without time (code as found) or in their own time
bin (repaired); `twoMissing pb m g` counts those tallied under bin `m`. -/
theorem c06_group_stats (pb : Bool) (lim : Nat) (pick : List Int → Nat) (collect : Bool) (gval : Nat → String)
    (fval : Nat → Option Int) (evs : List Ev)
    (hinj : ∀ a b, gval a = gval b → a = b) (hp : ParseOk fval evs)
    (hl : collect = true → ∀ m g, (twoDocs m g evs).length ≤ lim) :
    ∃ a, twoRun pb lim pick collect gval fval evs = some a ∧
      a.notExists = (evs.filter fun ev => ev.g.isNone && ev.f.isSome).length ∧
      ∀ m g,
        (a.get ⟨m, gval g⟩ = none ∧ twoDocs m g evs = [] ∧ twoMissing pb m g evs = 0) ∨
        (∃ c, a.get ⟨m, gval g⟩ = some c ∧ (twoDocs m g evs ≠ [] ∨ twoMissing pb m g evs ≠ 0) ∧
           Rep (evVals (fun s => (fval s).getD 0) (twoDocs m g evs)) (twoMissing pb m g evs) collect c) :=
  twoRun_spec pb lim pick collect gval fval evs hinj hp hl

/-- **multi-valued fields** (outside the property's quantifier; stated for completeness): a document that carries
several tokens of the aggregated / group field is seen exactly once by the aggregators, under exactly one of its
tokens - the one with the largest index in the field's token order (`nodeOrAgg` lets the right stream go first on
equal LIDs and the iterator does not advance past a LID it has answered); its other values are not aggregated. -/
theorem c06_multi_valued (rev : Bool) (postings : List (List Nat)) (lids : List Nat)
    (hp : ∀ l, l ∈ postings → l.Pairwise (· < ·)) (hl : LidsSorted rev lids) :
    walk rev (buildStream rev postings) lids = lids.map (sourceOf (buildStream rev postings)) ∧
    ∀ lid i, sourceOf (buildStream rev postings) lid = some i →
      (∃ l, postings[i]? = some l ∧ lid ∈ l) ∧ ∀ j l, i < j → postings[j]? = some l → lid ∉ l :=
  ⟨walk_eq rev _ lids (buildStream_sorted rev postings hp) hl, fun lid i h => buildStream_last rev postings lid i hp h⟩

/-- time bins of the aggregations follow the histogram rule: `extractBin interval mid = mid - mid % interval`
for a positive interval, the dummy bin 0 otherwise -/
theorem c06_time_bin (interval : Int) (mid : Nat) :
    (interval ≤ 0 → extractBin interval mid = 0) ∧
    (0 < interval → extractBin interval mid = histBucket interval.toNat mid) := by
  unfold extractBin histBucket
  constructor
  · intro h; simp [h]
  · intro h; have : ¬ interval ≤ 0 := by omega
    simp [this]

/-! ## end to end in the model: per-fraction aggregators + any merge tree = values of all matching documents

`Frac` = one fraction (its own token tables `gval` / `fval` - sources are fraction-local - and its matching
documents `evs`); `TDoc` = a matching document at token level.  These are the statements of C06 for the model. -/

/-- **group-by + field (sum / min / max / avg / quantile per group and time bin)**: whatever tree of `Merge` calls
combines the per-fraction (per-shard) results, the final bin `(time bin, group token)` exists exactly when some
matching document belongs to it, and its container summarises (`Rep`: count, sum, min, max, samples) exactly the
field values of all those documents of all fractions, with the not-exists count `groupMissing pb` (documents of
the group without the field tallied under that bin: all under the bin without time for the code as found, under their
own time bin for the repaired code); `NotExists` of the result
counts the matching documents that carry the field but no group. -/
theorem c06_group_stats_merged (pb : Bool) (lim : Nat) (pick : List Int → Nat) (collect : Bool) (t : MTree Frac)
    (hok : ∀ f, f ∈ t.leaves → (∀ a b, f.gval a = f.gval b → a = b) ∧ ParseOk f.fval f.evs)
    (hl : collect = true → ∀ k, (groupVals k (t.leaves.flatMap Frac.tdocs)).length ≤ lim) :
    (((t.map (Frac.groupLeaf pb lim pick collect)).eval (mergeLeaf lim pick)).a.notExists =
        ((t.leaves.flatMap Frac.tdocs).filter fun d => d.g.isNone && d.v.isSome).length) ∧
    ∀ k, ORep (groupPres pb k (t.leaves.flatMap Frac.tdocs)) (groupVals k (t.leaves.flatMap Frac.tdocs))
      (groupMissing pb k (t.leaves.flatMap Frac.tdocs)) collect
      (((t.map (Frac.groupLeaf pb lim pick collect)).eval (mergeLeaf lim pick)).a.get k) :=
  group_stats_merged pb lim pick collect t hok hl

/-- **field without group-by, per time bin** (with the per-bin not-exists counts) -/
theorem c06_field_stats_merged (lim : Nat) (pick : List Int → Nat) (collect : Bool) (t : MTree Frac)
    (hok : ∀ f, f ∈ t.leaves → ParseOk f.fval f.evs)
    (hl : collect = true → ∀ k, (t.leaves.flatMap fun f => fieldVals (fun s => (f.fval s).getD 0) k f.evs).length ≤ lim) :
    ((t.map (Frac.fieldLeaf lim pick collect)).eval (mergeLeaf lim pick)).a.notExists = 0 ∧
    ∀ k, ORep (t.leaves.any fun f => fieldPres k f.evs)
      (t.leaves.flatMap fun f => fieldVals (fun s => (f.fval s).getD 0) k f.evs)
      ((t.leaves.map fun f => fieldMissing k f.evs).sum) collect
      (((t.map (Frac.fieldLeaf lim pick collect)).eval (mergeLeaf lim pick)).a.get k) :=
  field_stats_merged lim pick collect t hok hl

/-- **count / unique across any merge tree** (no limit, no well-formedness): the count of a bin is the sum of the
partial counts, a bin exists exactly when some partial result has it, `NotExists` adds up -/
theorem c06_counters_merged (lim : Nat) (pick : List Int → Nat) (t : MTree AS)
    (hleaf : ∀ l, l ∈ t.leaves → KeysNodup l.bins) :
    (evalAS lim pick t).notExists = (t.leaves.map (·.notExists)).sum ∧
    ∀ k, ototal ((evalAS lim pick t).get k) = (t.leaves.map fun l => ototal (l.get k)).sum ∧
         ((evalAS lim pick t).get k).isSome = t.leaves.any fun l => (l.get k).isSome :=
  (evalAS_counters lim pick t hleaf).2

/-! ## the empty container's sentinels (`Min: math.MaxInt64`, `Max: math.MinInt64`) are never consulted

Field values are float64 parsed from tokens and may lie beyond the int64 range (`1e19`, `-3e19`).  The sentinels
are +-2^63, not +-Inf, so they are *not* neutral for min / max; `Merge` and `InsertNTimes` therefore test
`Total == 0` (`c06_x_container` re-checks that on every run) and the theorems hold for ANY integer values. -/

/-- min / max after any tree of `Merge` calls are the least / greatest of all the fractions' values - no bound on
the magnitude of the values (in particular beyond the int64 sentinels) -/
theorem c06_minmax_any_magnitude (lim : Nat) (pick : List Int → Nat) (collect : Bool) (t : MTree SLeaf)
    (hleaf : ∀ l, l ∈ t.leaves → Rep l.vals l.ne collect l.c)
    (hl : collect = true → (allVals t.leaves).length ≤ lim) (hne : allVals t.leaves ≠ []) :
    IsMin ((t.eval fun x y => ⟨SC.merge lim pick x.c y.c, [], 0⟩).c).min (allVals t.leaves) ∧
    IsMax ((t.eval fun x y => ⟨SC.merge lim pick x.c y.c, [], 0⟩).c).max (allVals t.leaves) :=
  let r := MTree.rep lim pick collect t hleaf hl
  ⟨r.min hne, r.max hne⟩

/-- merging into the fresh accumulator that `AggregatableSamples.Merge` creates takes the incoming Min / Max
as they are, whatever their magnitude -/
theorem c06_fresh_accumulator (lim : Nat) (pick : List Int → Nat) (c : SC) (h : c.total ≠ 0) :
    (SC.merge lim pick SC.new c).min = c.min ∧ (SC.merge lim pick SC.new c).max = c.max := by
  simp [SC.merge, h, SC.new]

/-- the sentinels are not neutral: folding them in with min / max (instead of testing `Total == 0`) is wrong for
values beyond the int64 range - witness 10^19 resp. -10^19 -/
theorem c06_sentinel_not_neutral :
    Min.min SC.new.min (10000000000000000000 : Int) ≠ 10000000000000000000 ∧
    Max.max SC.new.max (-10000000000000000000 : Int) ≠ -10000000000000000000 ∧
    (SC.merge 8096 (fun _ => 0) SC.new ⟨10000000000000000000, 10000000000000000000, 10000000000000000000, 1, 0, []⟩).min
      = 10000000000000000000 := by decide

/-! ## the conversions between processes (store -> proxy -> client, JSON persistence) -/

/-- **bin timestamps survive the protobuf `Timestamp`**: `seq.MID(timestamppb.New(m.Time()).AsTime().UnixMilli()) = m`
for *every* MID of the uint64 range - sub-second MIDs (nanos = (m % 1000) * 10^6), MID 0 (the epoch), and MIDs
>= 2^63, which `int64(m)` turns negative: they travel as pre-1970 timestamps and come back.  Second part: the
explicit (Seconds, Nanos) below 2^63. -/
theorem c06_ts_roundtrip (m : Nat) (hm : m < 18446744073709551616) :
    tsToMid (midToTs m) = m ∧
    (m < 9223372036854775808 → midToTs m = (((m / 1000 : Nat) : Int), (((m % 1000) * 1000000 : Nat) : Int))) :=
  ⟨ts_roundtrip m hm, midToTs_small m⟩

/-- **`responseToQPR (buildSearchResponse q) = q`** (aggregations): a partial result whose bins have distinct keys
and MIDs below 2^64 leaves the store -> proxy hop exactly as it entered it -/
theorem c06_hop_identity (a : AS) (hn : KeysNodup a.bins) (hm : ∀ kh, kh ∈ a.bins → kh.1.mid < 18446744073709551616) :
    hop a = a := hop_id a hn hm

/-- **merge and Aggregate commute with the hop**: merging (any tree) the converted partial results equals merging
the originals, and `Aggregate` of a converted result equals `Aggregate` of the original - so the merge-order
theorems hold across processes (fractions merged in the store, shards merged in the proxy) -/
theorem c06_merge_across_hop (lim : Nat) (pick : List Int → Nat) (t : MTree AS)
    (hleaf : ∀ l, l ∈ t.leaves → KeysNodup l.bins ∧ ∀ kh, kh ∈ l.bins → kh.1.mid < 18446744073709551616) :
    evalAS lim pick (t.map hop) = evalAS lim pick t ∧
    ∀ fixed fn qs skip, ∀ l, l ∈ t.leaves → aggregate fixed fn qs skip (hop l) = aggregate fixed fn qs skip l := by
  constructor
  · have : t.map hop = t := by
      induction t with
      | leaf a => simp [MTree.map, hop_id a (hleaf a (by simp [MTree.leaves])).1 (hleaf a (by simp [MTree.leaves])).2]
      | node l r ihl ihr =>
        simp only [MTree.map]
        rw [ihl (fun x hx => hleaf x (by simp [MTree.leaves]; exact Or.inl hx)),
          ihr (fun x hx => hleaf x (by simp [MTree.leaves]; exact Or.inr hx))]
    rw [this]
  · intro fixed fn qs skip l hl
    rw [hop_id l (hleaf l hl).1 (hleaf l hl).2]

/-- **proxy -> client** (`makeProtoAggregation`): buckets are converted one by one in `Aggregate`'s order, and the
public bucket (key, value incl. NaN, quantiles, not-exists, optional timestamp) determines the internal one -
nothing is lost; `Ts` is absent exactly for the bin without time -/
theorem c06_api_bucket_faithful (r : AggResult) :
    makeProtoAggregation r = (r.buckets.map toApiBucket, r.notExists) ∧
    (∀ b, (toApiBucket b).ts = none ↔ b.mid = 0) ∧
    ∀ a b : Bucket, a.mid < 18446744073709551616 → b.mid < 18446744073709551616 → toApiBucket a = toApiBucket b → a = b :=
  ⟨rfl, fun b => by unfold toApiBucket; by_cases h : b.mid = 0 <;> simp [h], fun _ _ ha hb h => toApiBucket_injective ha hb h⟩

/-- `makeProtoHistogram`: `seq.MIDToTime` multiplies by 10^6 in an int64 `Duration`; the bucket timestamp is the
bucket's MID for every MID up to 9223372036854 ms (year 2262).  Beyond that the Duration wraps - outside what
ingestion can store (documents that far ahead are re-timed). -/
theorem c06_hist_ts (m : Nat) (h : m ≤ 9223372036854) : histTs m = midToTs m := histTs_eq m h

/-- **JSON persistence** of a partial result (`AggBin.toKey` / `fromKey`, the codec proved in C19's
`c19_aggbin_key_roundtrip`): unmarshalling what was marshalled gives the same result, for tokens containing `|`
and MIDs above 2^63 too - given `strconv.Atoi (strconv.Itoa i) = i` and no `|` in `Itoa`'s output (trusted) -/
theorem c06_json_roundtrip (render : Int → List Nat) (parse : List Nat → Option Int) (a : AS) (hn : KeysNodup a.bins)
    (hk : ∀ kh, kh ∈ a.bins → kh.1.mid < 18446744073709551616 ∧
      parse (render (SV.Async.toI64 kh.1.mid)) = some (SV.Async.toI64 kh.1.mid) ∧ 124 ∉ render (SV.Async.toI64 kh.1.mid)) :
    asFromJSON parse (asToJSON render a) = a := json_roundtrip render parse a hn hk

/-! ## which tokens are numbers, and a refusing store -/

/-- **the numeric value of a field token** is the one `strconv.ParseFloat` assigns (`parseNumSpec`, the grammar
written out): decimal digits are decimal whatever their padding - `0100` is one hundred, not sixty-four; `0x..`
needs a `p` exponent, `0b` / `0o` / spaces / `inf` / `nan` in any spelling are not numbers; `1_000` is 1000. -/
theorem c06_token_values :
    tokenInt "0100" = some 100 ∧ tokenInt "010" = some 10 ∧ tokenInt "-0020" = some (-20) ∧ tokenInt "007" = some 7 ∧
    tokenInt "+5" = some 5 ∧ tokenInt "1e2" = some 100 ∧ tokenInt "2.50e1" = some 25 ∧ tokenInt "5." = some 5 ∧
    tokenInt "0x10p0" = some 16 ∧ tokenInt "0X1.8p1" = some 3 ∧ tokenInt "1_000" = some 1000 ∧
    tokenInt "0x10" = none ∧ tokenInt "0b101" = none ∧ tokenInt "0o17" = none ∧ tokenInt "1__0" = none ∧
    tokenInt " 5" = none ∧ tokenInt "5 " = none ∧ tokenInt "Inf" = none ∧ tokenInt "-inf" = none ∧
    tokenInt "infinity" = none ∧ tokenInt "NaN" = none ∧ tokenInt "" = none ∧ tokenInt "1e" = none := by decide

/-- **aggregated values are the tokens' values**: with `fval s = tokenInt (tok s)` (the token text of field source
`s`), every time bin's container summarises exactly `tokenInt` of the matching documents' field tokens - the
instance of `c06_field_stats` at the specification of `parseNum` (likewise for `c06_group_stats`,
`c06_group_stats_merged`, `c06_field_stats_merged`, which are parametric in `fval`) -/
theorem c06_values_are_token_values (lim : Nat) (pick : List Int → Nat) (collect : Bool) (tok : Nat → String) (evs : List Ev)
    (hp : ParseOk (fun s => tokenInt (tok s)) evs)
    (hl : collect = true → ∀ b, (evVals (fun s => (tokenInt (tok s)).getD 0) (evs.filter fun ev => ev.bin = b)).length ≤ lim) :
    ∃ a, histAggRun lim pick collect (fun s => tokenInt (tok s)) evs = some a ∧
      ∀ b, evs.filter (fun ev => ev.bin = b) ≠ [] → ∃ c, a.get ⟨b, ""⟩ = some c ∧
        Rep (evVals (fun s => (tokenInt (tok s)).getD 0) (evs.filter fun ev => ev.bin = b))
            (evNe (evs.filter fun ev => ev.bin = b)) collect c := by
  obtain ⟨a, ha, _, _, hb⟩ := histAggRun_spec lim pick collect (fun s => tokenInt (tok s)) evs hp hl
  exact ⟨a, ha, fun b hne => (hb b).2 hne⟩

/-- **a refusing store is never merged as an empty shard**: `searchShard` has an error arm for every
`SearchErrorCode` but `NO_ERROR` (`c06_x_shard_codes`: the extracted arms), so when the proxy reports plain success
every shard answered `NO_ERROR` and all of them are merged; otherwise the answer is an error or flagged partial. -/
theorem c06_no_silent_short (codes : List Code) (n : Nat)
    (hok : searchOutcome (codes.map (shardOutcome SV.Extracted.C06.shardCodeArms)) = .ok n) :
    n = codes.length ∧ ∀ c, c ∈ codes → c = .noError :=
  searchOutcome_ok _ (by decide) codes n hok

/-- the mapping code -> outcome is total: every declared code other than `NO_ERROR` is refused -/
theorem c06_shard_code_total (c : Code) (hc : c ≠ .noError) :
    shardOutcome SV.Extracted.C06.shardCodeArms c = .refused c :=
  shardOutcome_total _ (by decide) c hc

/-! ## aggregations are evaluated over the SET of matching LIDs -/

/-- **the OR node hands the aggregators a duplicate-free stream** (composition with C02's model of `nodeOr`,
`SV.orMerge`, read-only): for strictly ordered operands - which may overlap - the merged stream is strictly ordered
in the search direction, in BOTH orders, i.e. it satisfies the hypothesis `LidsSorted` of `c06_walk`, and it holds
exactly the union.  This is the lemma the aggregation theorems need from the eval tree: a LID present in both
operands reaches `Next` / the histogram / `total` once. -/
theorem c06_or_stream_duplicate_free (rev : Bool) (xs ys : List Nat) (hx : SV.SortedBy rev xs) (hy : SV.SortedBy rev ys) :
    LidsSorted rev (SV.orMerge rev xs ys) ∧ (SV.orMerge rev xs ys).Nodup ∧
    ∀ v, v ∈ SV.orMerge rev xs ys ↔ v ∈ xs ∨ v ∈ ys := by
  have hs := SV.orMerge_sorted rev xs ys hx hy
  refine ⟨hs, ?_, fun v => SV.mem_orMerge rev xs ys v⟩
  exact hs.imp (fun {a b} h e => by subst e; rw [SV.lessFn_irrefl] at h; cases h)

/-- ... and duplicates would be counted: the histogram (like every aggregator: `c06_hist`, `c06_count`, ...) counts
the entries of the stream it is given, so its value is the number of matching documents exactly when the stream is
duplicate-free.  Witness: document 5 delivered twice is counted twice. -/
theorem c06_duplicates_are_counted (interval : Nat) (lids : List Nat) (mid : Nat → Nat) (b : Nat) :
    histGet (histRun interval (lids.map mid)) b = (lids.filter fun l => histBucket interval (mid l) = b).length ∧
    histRun 10 ([5, 5].map id) = [(0, 2)] ∧ histRun 10 ([5].map id) = [(0, 1)] := by
  refine ⟨?_, by decide, by decide⟩
  rw [histRun_get]
  induction lids with
  | nil => rfl
  | cons l ls ih => by_cases h : histBucket interval (mid l) = b <;> simp [List.filter_cons, h, ih]

/-! ## JSON rendering for HTTP clients -/

/-- rounding a natural number to a `p`-bit mantissa, ties to even (what rendering a value with `bitSize = p` bits
of precision does to an integer) -/
def roundBits (p n : Nat) : Nat :=
  if n < 2 ^ p then n else
    let e := Nat.log2 n + 1 - p
    let q := n / 2 ^ e
    let r := n % 2 ^ e
    let up := decide (r > 2 ^ (e - 1)) || (decide (r = 2 ^ (e - 1)) && decide (q % 2 = 1))
    (if up then q + 1 else q) * 2 ^ e

/-- **the JSON rendering must use the full float64 precision**: with 53 bits every count / integral sum below 2^53
is rendered as itself (so distinct values stay distinct: the rendering is injective there; for all other float64
values this is strconv's shortest-round-trip contract, trusted); with float32's 24 bits it is not - 2^24 + 1
documents would be reported as 2^24, 2140234007 as 2140233984 (printed 2140234000).  `c06_x_json_precision` pins `bitSize = 64`. -/
theorem c06_json_precision :
    (∀ n, n < 2 ^ 53 → roundBits 53 n = n) ∧
    roundBits 24 16777217 = 16777216 ∧ roundBits 24 16777216 = 16777216 ∧ roundBits 24 2140234007 = 2140233984 := by
  refine ⟨fun n h => by simp [roundBits, h], by decide, by decide, by decide⟩

/-! ## values -/

/-- **count / sum / min / max / not-exists of a bin** are those of the documents' values: this is the content of
`Rep` - restated for the container obtained from any merge tree -/
theorem c06_stats (vals : List Int) (ne : Nat) (collect : Bool) (c : SC) (h : Rep vals ne collect c) :
    c.total = vals.length ∧ c.notExists = ne ∧ c.sum = vals.sum ∧
    (vals ≠ [] → IsMin c.min vals ∧ IsMax c.max vals) :=
  ⟨h.total, h.notExists, h.sum, fun hne => ⟨h.min hne, h.max hne⟩⟩

/-- **`c06_quantile_exact`**: while a bin holds at most `maxHistogramSamples` values (so that the merged container
still holds all of them, `Rep .. true`), every quantile `q = qn/qd` in [0,1] is the element of the sorted value list
at index `floor((n-1) q + 1/2)` - for the `Quantile` as found and for the repaired one. -/
theorem c06_quantile_exact (fixed : Bool) (vals : List Int) (ne : Nat) (c : SC) (h : Rep vals ne true c) (hne : vals ≠ [])
    (qn qd : Nat) (hq : qn ≤ qd) (hd : 0 < qd) :
    c.quantile fixed qn qd = .int ((isort vals).getD (quantileIndex vals.length qn qd) 0) ∧
    quantileIndex vals.length qn qd < vals.length ∧ (isort vals).Pairwise (· ≤ ·) ∧ (isort vals).Perm vals :=
  ⟨h.quantile hne fixed hq hd, quantileIndex_lt (List.length_pos_iff.mpr hne) hq hd, isort_sorted vals, isort_perm vals⟩

/-- the same at the source's limit: merging per-fraction results that together hold at most 8096 values -/
theorem c06_quantile_exact_merged (fixed : Bool) (pick : List Int → Nat) (t : MTree SLeaf)
    (hleaf : ∀ l, l ∈ t.leaves → Rep l.vals l.ne true l.c)
    (hl : (allVals t.leaves).length ≤ SV.Extracted.C06.maxHistogramSamples) (hne : allVals t.leaves ≠ [])
    (qn qd : Nat) (hq : qn ≤ qd) (hd : 0 < qd) :
    ((t.eval fun x y => ⟨SC.merge SV.Extracted.C06.maxHistogramSamples pick x.c y.c, [], 0⟩).c).quantile fixed qn qd =
      .int ((isort (allVals t.leaves)).getD (quantileIndex (allVals t.leaves).length qn qd) 0) :=
  (MTree.rep _ pick true t hleaf (fun _ => hl)).quantile hne fixed hq hd

/-- **full statement** (for the repaired `Quantile`, /repo commit 4dd0369 = fixes/C06-quantile-min-max-only.patch;
`c06_x_quantile` checks on every run which `Quantile` the source has): with the sample
collection rule of `evalAgg` (`collect = haveNotMinMaxQuantiles qs`), *every* requested quantile of *every*
quantile list is the element of the sorted value list at the index formula. -/
theorem c06_quantile_all (vals : List Int) (ne : Nat) (c : SC) (qs : List (Nat × Nat))
    (h : Rep vals ne (haveNotMinMaxQuantiles qs) c) (hne : vals ≠ [])
    (q : Nat × Nat) (hmem : q ∈ qs) (hq : q.1 ≤ q.2) (hd : 0 < q.2) :
    c.quantile true q.1 q.2 = .int ((isort vals).getD (quantileIndex vals.length q.1 q.2) 0) := by
  by_cases hin : 0 < q.1 ∧ q.1 < q.2
  · have hc : haveNotMinMaxQuantiles qs = true := by
      unfold haveNotMinMaxQuantiles
      exact List.any_eq_true.mpr ⟨q, hmem, by simp [hin.1, hin.2]⟩
    rw [hc] at h
    exact h.quantile hne true hq hd
  · exact h.quantile_fixed_minmax hne (by omega) hd

/-- for the `Quantile` as originally found the statement holds only when the list contains an inner quantile
(`_partial`: the missing case is refuted by `c06_quantile_minmax_only_defect` below; kept as the record of the defect) -/
theorem c06_quantile_all_old_partial (vals : List Int) (ne : Nat) (c : SC) (qs : List (Nat × Nat))
    (h : Rep vals ne (haveNotMinMaxQuantiles qs) c) (hne : vals ≠ [])
    (hinner : ∃ q, q ∈ qs ∧ 0 < q.1 ∧ q.1 < q.2)
    (q : Nat × Nat) (hmem : q ∈ qs) (hq : q.1 ≤ q.2) (hd : 0 < q.2) :
    c.quantile false q.1 q.2 = .int ((isort vals).getD (quantileIndex vals.length q.1 q.2) 0) := by
  have hc : haveNotMinMaxQuantiles qs = true := by
    obtain ⟨q', hq', h1, h2⟩ := hinner
    unfold haveNotMinMaxQuantiles
    exact List.any_eq_true.mpr ⟨q', hq', by simp [h1, h2]⟩
  rw [hc] at h
  exact h.quantile hne false hq hd

/-! ## histogram -/

/-- **`c06_hist`**: every histogram bucket of a fraction holds the number of matching documents whose MID falls
into `[b, b + interval)`, i.e. whose `mid - mid % interval` is `b` -/
theorem c06_hist (interval : Nat) (mids : List Nat) (b : Nat) :
    histGet (histRun interval mids) b = (mids.filter fun m => histBucket interval m = b).length :=
  histRun_get interval mids b

/-- the bucket of a MID is the start of the interval that contains it -/
theorem c06_hist_bucket (interval mid : Nat) (hi : 0 < interval) :
    histBucket interval mid ≤ mid ∧ mid < histBucket interval mid + interval ∧ histBucket interval mid % interval = 0 := by
  unfold histBucket
  have h1 := Nat.mod_lt mid hi
  have h2 := Nat.mod_le mid interval
  have h3 : mid = interval * (mid / interval) + mid % interval := (Nat.div_add_mod mid interval).symm
  refine ⟨by omega, by omega, ?_⟩
  have : mid - mid % interval = interval * (mid / interval) := by omega
  rw [this]; exact Nat.mul_mod_right _ _

/-- merging partial histograms adds the buckets -/
theorem c06_hist_merge (dst src : Hist) (hs : KeysNodup src) (k : Nat) :
    histGet (histMerge dst src) k = histGet dst k + histGet src k := histMerge_get dst src hs k

/-! ## the code as originally found violated the property: quantiles 0 and 1 alone (repaired in 4dd0369)

`evalAgg` collects samples only when some requested quantile lies strictly inside (0,1)
(`haveNotMinMaxQuantiles`), relying on `Quantile` answering 0 and 1 from Min / Max; but `Quantile` returns NaN
first when there are no samples.  Witness: one fraction, three documents with field values 1, 2, 3, quantile 1. -/

def witnessEvs : List Ev := [⟨0, none, some 0⟩, ⟨0, none, some 1⟩, ⟨0, none, some 2⟩]
def witnessFval : Nat → Option Int := fun i => some (i + 1)

/-- the model (= the code) answers NaN for the maximum of {1,2,3} ... -/
theorem c06_quantile_minmax_only_defect :
    ((evalAgg false 8096 (fun _ => 0) .quantile [(1, 1)] false (fun _ => "") witnessFval witnessEvs).bind
      (fun a => (aggregate false .quantile [(1, 1)] false a).map (fun r => r.buckets.map (·.quantiles)))) = some [[Val.nan]] := by
  decide

/-- ... although the container holds the right maximum, and with an inner quantile in the list the answer is 3 -/
theorem c06_quantile_minmax_only_defect_contrast :
    ((evalAgg false 8096 (fun _ => 0) .quantile [(1, 1), (1, 2)] false (fun _ => "") witnessFval witnessEvs).bind
      (fun a => (aggregate false .quantile [(1, 1), (1, 2)] false a).map (fun r => r.buckets.map (·.quantiles))))
      = some [[Val.int 3, Val.int 2]] := by
  decide

/-- the repaired `Quantile` answers the witness correctly -/
theorem c06_quantile_minmax_only_fixed :
    ((evalAgg false 8096 (fun _ => 0) .quantile [(1, 1)] false (fun _ => "") witnessFval witnessEvs).bind
      (fun a => (aggregate true .quantile [(1, 1)] false a).map (fun r => r.buckets.map (·.quantiles)))) = some [[Val.int 3]] := by
  decide

/-! ## the code as originally found dropped documents from time-series results: group without field (repaired in 51e68c6)

With group-by + field + a time interval, a matching document that has the group but not the field is tallied in the
bin *without time* (`groupByNotExists[groupBySource]++`), and `Aggregate` skips that bin for time series
(`SkipWithoutTimestamp`): the document is reported nowhere - neither in a bucket's `NotExists` nor in the result's.
(Without a group, the same query reports it in its time bin: `c06_field_stats`.)  Witness: one document, time bin
10, group "a", no field.  fixes/C06-group-not-exists-per-time-bin.patch tallies it under its own time bin. -/

def witnessGone : List Ev := [⟨10, some 1, none⟩]
def witnessGval : Nat → String := fun i => String.ofList (List.replicate i 'a')

/-- as found: the time-series answer is empty - the document is gone -/
theorem c06_group_not_exists_dropped_defect :
    ((evalAgg false 8096 (fun _ => 0) .sum [] true witnessGval (fun _ => none) witnessGone).bind
      (fun a => (aggregate true .sum [] true a).map (fun r => (r.buckets.map (fun b => (b.mid, b.name, b.notExists)), r.notExists))))
      = some ([], 0) := by decide

/-- repaired: the bucket of its time bin reports it -/
theorem c06_group_not_exists_dropped_fixed :
    ((evalAgg true 8096 (fun _ => 0) .sum [] true witnessGval (fun _ => none) witnessGone).bind
      (fun a => (aggregate true .sum [] true a).map (fun r => (r.buckets.map (fun b => (b.mid, b.name, b.notExists)), r.notExists))))
      = some ([(10, "a", 1)], 0) := by decide

/-- **full statement for the repaired tally** (`pb = true`): every bin `(time bin, group token)` of the merged result
carries the number of matching documents of that group *and that time bin* that lack the field; for the code as
found (`pb = false`) `c06_group_stats_merged` only gives them lumped into the bin without time, i.e. it is the
`_partial` form of this statement. -/
theorem c06_group_not_exists_per_bin (lim : Nat) (pick : List Int → Nat) (collect : Bool) (t : MTree Frac)
    (hok : ∀ f, f ∈ t.leaves → (∀ a b, f.gval a = f.gval b → a = b) ∧ ParseOk f.fval f.evs)
    (hl : collect = true → ∀ k, (groupVals k (t.leaves.flatMap Frac.tdocs)).length ≤ lim) (k : Bin) :
    groupMissing true k (t.leaves.flatMap Frac.tdocs) =
      ((t.leaves.flatMap Frac.tdocs).filter fun d => d.bin = k.mid ∧ d.g = some k.token ∧ d.v.isNone).length ∧
    ORep (groupPres true k (t.leaves.flatMap Frac.tdocs)) (groupVals k (t.leaves.flatMap Frac.tdocs))
      (groupMissing true k (t.leaves.flatMap Frac.tdocs)) collect
      (((t.map (Frac.groupLeaf true lim pick collect)).eval (mergeLeaf lim pick)).a.get k) :=
  ⟨by simp [groupMissing, missingBin], (group_stats_merged true lim pick collect t hok hl).2 k⟩

/-! ## Obligations on facts re-extracted from /repo on every run -/

open SV.Extracted.C06

/-- the reservoir limit the model and the driver use is the source's -/
theorem c06_x_limit : SV.Extracted.C06.maxHistogramSamples = SV.Agg.maxHistogramSamples ∧ dummyMID = 0 := by decide

/-- `Quantile` has the repaired order of early returns (commit 4dd0369: NaN on `Total == 0`, then the 0 / 1
shortcuts, then NaN on no samples) - `fixed = true` is THE model; the `fixed = false` definitions are kept only for
the historical witnesses - and the index formula -/
theorem c06_x_quantile :
    (quantileConds = ["quantile < 0 || quantile > 1", "h.Total == 0", "quantile == 1", "quantile == 0",
        "len(h.Samples) == 0"] ∧ quantileFixed = true) ∧
    SV.Extracted.C06.quantileIndex = [":= int(float64(len(h.Samples)-1)*quantile + 0.5)"] := by decide

/-- `SamplesContainer.Merge` / `InsertNTimes` / `InsertSample` / `NewSamplesContainers` have the modelled shape -/
theorem c06_x_container :
    mergeConds = ["hist.Total == 0", "h.Total == 0"] ∧
    mergeAssigns = ["h.NotExists += hist.NotExists", "h.Min = hist.Min", "h.Min = min(h.Min, hist.Min)",
      "h.Max = hist.Max", "h.Max = max(h.Max, hist.Max)", "h.Sum += hist.Sum", "h.Total += hist.Total"] ∧
    insertNTimesAssigns = ["h.Min = num", "h.Min = min(h.Min, num)", "h.Max = num", "h.Max = max(h.Max, num)",
      "h.Sum += num * float64(cnt)", "h.Total += cnt"] ∧
    insertSampleConds = ["len(h.Samples) < maxHistogramSamples"] ∧
    newContainerInit = ["Min: math.MaxInt64", "Max: math.MinInt64"] := by decide

/-- `getAggBucket` NaN rule, `Aggregate` skip rule, sample collection rule of `evalAgg` -/
theorem c06_x_aggregate :
    nanConds = ["hist.Total == 0 && args.Func != AggFuncCount && args.Func != AggFuncUnique"] ∧
    skipConds = ["args.SkipWithoutTimestamp && bin.MID == consts.DummyMID"] ∧
    collectSamplesExpr = [":= query.Func == seq.AggFuncQuantile && haveNotMinMaxQuantiles(query.Quantiles)"] ∧
    innerQuantileConds = ["quantile > minQuantile && quantile < maxQuantile"] := by decide

/-- `TwoSourceAggregator.Next` tallies a document of a group without the field under its own time bin (commit
51e68c6) - `perBin = true` is THE model; `perBin = false` is kept only for the historical witness -/
theorem c06_x_group_not_exists :
    groupNotExistsIncr = ["n.groupByNotExists[AggBin[uint32]{MID: n.extractMID(seq.LID(lid)), Source: groupBySource}]++"] ∧
      groupNotExistsPerBin = true := by decide

/-- both token indexes hand `BuildORTreeAgg` exactly one leaf per tid, unconditionally and in order, and
`WrapWithSource` labels a leaf with its position - the hypothesis under which `c06_positional_labels` / `c06_walk`
speak about the code -/
theorem c06_x_positional_labels :
    activeLeafPerTid = true ∧ sealedLeafPerTid = true ∧ wrapWithSource = ["= NewSourcedNodeWrapper(n, i)"] := by decide

/-- `ValueBySource` looks the cache up and stores into it under the same key, the source (the model's
`valueBySource`; source indexes and TIDs share the key type, so a different store key would alias) -/
theorem c06_x_token_cache : tokenCacheKeys = ["source", "source"] := by decide

/-- the unit conversions of the hops are the modelled ones: `MID.Time() = time.UnixMilli(int64(m))`, bin `Ts` via
`timestamppb.New(bin.MID.Time())`, back via `Ts.AsTime().UnixMilli()`, public buckets `Ts` only for a non-dummy MID,
histogram buckets via `seq.MIDToTime` (`time.Duration(t) * time.Millisecond`) -/
theorem c06_x_conversions :
    midTimeExpr = ["time.UnixMilli(int64(m))"] ∧
    storeBinTs = ["timestamppb.New(bin.MID.Time())"] ∧
    proxyBinMid = ["seq.MID(bin.Ts.AsTime().UnixMilli())"] ∧
    apiBucketTs = ["item.MID != consts.DummyMID", "timestamppb.New(item.MID.Time())"] ∧
    apiHistTs = ["timestamppb.New(seq.MIDToTime(ts))"] ∧
    midToTimeExpr = ["time.Unix(0, 0).Add(MIDToDuration(t))", "time.Duration(t) * time.Millisecond"] := by decide

/-- `searchShard` switches over `resp.Code` with an error-returning arm for every declared `SearchErrorCode` other
than `NO_ERROR` (no default arm), and the model's `Code` lists exactly the declared values -/
theorem c06_x_shard_codes :
    shardCodeArmsReturnErr = true ∧
    searchErrorCodes = Code.all.map Code.name ∧
    ∀ c, c ∈ Code.all → c ≠ .noError → ("storeapi." ++ c.name) ∈ shardCodeArms := by decide

/-- `parseNum` is exactly `strconv.ParseFloat(str, 64)` with errors, NaN and Inf rejected - no other strconv call
(no integer fast path, no base-0 reading) -/
theorem c06_x_parse_num :
    parseNumCalls = ["strconv.ParseFloat(str, 64)"] ∧
    parseNumErrConds = ["err != nil || math.IsNaN(num) || math.IsInf(num, 0)"] := by decide

/-- `aggregationArgsFromProto` decides `SkipWithoutTimestamp` per aggregation, from that aggregation's own interval
(`aggregate`'s `skipWithoutTimestamp` argument is per aggregation in the model; the handlers are exercised by agg.e2e) -/
theorem c06_x_skip_per_aggregation : skipPerAggregation = ["agg.Interval != nil"] := by decide

/-- the marshaler of the public API renders every float with `strconv.FormatFloat(v, 'f', -1, 64)`: shortest form
that parses back to the same float64 -/
theorem c06_x_json_precision : jsonFormatFloatArgs ≠ [] ∧ ∀ a, a ∈ jsonFormatFloatArgs → a = "'f',-1,64" := by decide

/-- histogram bucket rule of `iterateEvalTree`, accumulation in `MergeQPRs`, time bins of `provideExtractTimeFunc` -/
theorem c06_x_hist :
    histBucketAssigns = [":= mid", "-= bucket % seq.MID(params.HistInterval)"] ∧
    histCountAssigns = ["histogram[bucket]++"] ∧ histMergeAssigns = ["+= count"] ∧
    extractTimeRule = ["if interval <= 0", "return seq.MID(consts.DummyMID)", "return mid - (mid % seq.MID(interval))"] := by
  decide

/-! ## Non-vacuity -/

/-- a container built by the code's own operations summarises its values (hypothesis of the theorems above) -/
example : Rep [5, 5, -3] 0 true
    (((SC.new.insertNTimes 5 2).insertSampleNTimes 8096 (fun _ => 0) 5 2).insertNTimes (-3) 1 |>.insertSample 8096 (fun _ => 0) (-3)) := by
  refine ⟨by decide, by decide, by decide, fun _ => ⟨by decide, by decide⟩, fun _ => ⟨by decide, by decide⟩, ?_⟩
  decide

/-- two different trees over three fractions: same observable result, median of all five values -/
example :
    let a : SC := (SC.new.insertNTimes 5 2).insertSampleNTimes 8096 (fun _ => 0) 5 2
    let b : SC := (SC.new.insertNTimes (-3) 1).insertSample 8096 (fun _ => 0) (-3)
    let c : SC := (SC.new.insertNTimes 9 2).insertSampleNTimes 8096 (fun _ => 0) 9 2
    let m := SC.merge 8096 (fun _ => 0)
    (m (m a b) c).quantile false 1 2 = .int 5 ∧ (m c (m b a)).quantile true 1 2 = .int 5 ∧
    (m (m a b) c).sum = 25 ∧ (m c (m b a)).min = -3 := by decide

example : histRun 10 [5, 15, 17, 30] = [(0, 1), (10, 2), (30, 1)] := by decide

/-- hypotheses of `c06_walk` / `c06_group_stats` on a concrete fraction: 5 documents, two group tokens (sources
0, 1), three field tokens; document 4 lacks the field, document 5 lacks the group -/
example :
    walk false [(1, 0), (2, 0), (3, 1), (4, 1)] [1, 2, 3, 4, 5] = [some 0, some 0, some 1, some 1, none] ∧
    walk true [(4, 1), (3, 1), (2, 0), (1, 0)] [5, 3, 1] = [none, some 1, some 0] := by decide

example : LidsSorted false [1, 2, 3, 4, 5] ∧ LidsSorted true [5, 3, 1] := by
  unfold LidsSorted; decide

example :
    twoDocs 0 0 [⟨0, some 0, some 0⟩, ⟨0, some 0, some 1⟩, ⟨0, some 1, some 0⟩, ⟨0, some 1, none⟩, ⟨0, none, some 2⟩] ≠ [] ∧
    twoMissing false 0 1 [⟨0, some 0, some 0⟩, ⟨0, some 0, some 1⟩, ⟨0, some 1, some 0⟩, ⟨0, some 1, none⟩, ⟨0, none, some 2⟩] = 1 ∧
    ParseOk (fun i => some (i + 10)) [⟨0, some 0, some 0⟩, ⟨0, some 1, none⟩] := by
  refine ⟨by decide, by decide, ?_⟩
  intro ev _ s _; rfl

/-- hypotheses of `c06_group_stats_merged` on concrete fractions: an injective token table, parsable field values -/
example :
    let f : Frac := ⟨fun i => String.ofList (List.replicate i 'a'), fun i => some (i + 10),
      [⟨0, some 0, some 0⟩, ⟨0, some 1, none⟩, ⟨0, none, some 2⟩]⟩
    ((∀ a b, f.gval a = f.gval b → a = b) ∧ ParseOk f.fval f.evs) ∧
    groupVals ⟨0, ""⟩ (Frac.tdocs f) = [10] ∧ groupMissing true ⟨0, "a"⟩ (Frac.tdocs f) = 1 := by
  refine ⟨⟨?_, ?_⟩, by decide, by decide⟩
  · intro a b h
    have := congrArg String.toList h
    simpa using this
  · intro ev _ s _; rfl

/-- hypotheses of `c06_limits_transparent` / `c06_token_cache`: two distinct sources within a limit of 2000; the
empty cache is coherent; and a limit of 1 makes the same walk fail -/
example : walkLim false 2000 [(1, 0), (2, 0), (3, 1)] [] [1, 2, 3, 4] = some [some 0, some 0, some 1, none] ∧
    walkLim false 1 [(1, 0), (2, 0), (3, 1)] [] [1, 2, 3, 4] = none ∧ CacheOk (fun i => toString i) [] := by
  refine ⟨by decide, by decide, fun _ h => by cases h⟩

/-- the timestamp conversion on the interesting MIDs: sub-second, 0, 2^63 - 1, 2^63, 2^64 - 1 -/
example : midToTs 1758800000123 = (1758800000, 123000000) ∧ midToTs 0 = (0, 0) ∧
    midToTs 9223372036854775807 = (9223372036854775, 807000000) ∧
    midToTs 9223372036854775808 = (-9223372036854776, 192000000) ∧
    midToTs 18446744073709551615 = (-1, 999000000) ∧ tsToMid (-1, 999000000) = 18446744073709551615 := by decide

/-- `c06_no_silent_short`: two shards answering NO_ERROR are merged; one refusing shard makes the answer partial,
both refusing an error -/
example : searchOutcome ([Code.noError, .noError].map (shardOutcome SV.Extracted.C06.shardCodeArms)) = .ok 2 ∧
    searchOutcome ([Code.noError, .tooManyUniq].map (shardOutcome SV.Extracted.C06.shardCodeArms)) = .partialResponse 1 ∧
    searchOutcome ([Code.tooManyUniq, .tooManyUniq].map (shardOutcome SV.Extracted.C06.shardCodeArms)) = .error := by decide

end SV.Props.C06
