import SeqVerif.Model.SearchDocs
import SeqVerif.Extracted.C05T
/-!
# C05 - hand model = mechanical translation of the Go source (regenerated on every run)

`SV.Extracted.C05.T` is produced by `extract/cmd/c05t` (translator `extract/xlate`, prelude `Base/GoInt.lean`)
from `proxy/search/ingestor.go`.
-/
namespace SV.Props.C05
open SV.Merge SV.Go
open SV.Extracted.C05

/-- `Ingestor.paginateIDs`: for every ID list and every non-negative offset and size the translated function
does not panic and returns exactly the model's page and size.  (A negative offset makes `ids[offset:]` panic;
the proxy validates `offset ≥ 0`, `size ≥ 0` before the search.) -/
theorem c05_t_paginateIDs (ids : List Nat) (offset size : Nat) :
    T.Ingestor_paginateIDs ids offset size
      = some ((paginate ids offset size).1, ((paginate ids offset size).2 : Int)) := by
  unfold T.Ingestor_paginateIDs paginate
  have hl : ∀ xs : List Nat, len xs = (xs.length : Int) := fun _ => rfl
  by_cases h : ids.length > offset
  · have h' : (ids.length : Int) > (offset : Int) := by omega
    have s1 : slice ids (offset : Int) (ids.length : Int) = ids.drop offset := slice_from ids offset
    simp only [hl, if_pos h, if_pos h', s1]
    split
    · omega
    · by_cases h2 : (ids.drop offset).length > size
      · have h2' : ((ids.drop offset).length : Int) > (size : Int) := by omega
        simp only [if_pos h2, if_pos h2', slice_to]
        split
        · omega
        · rfl
      · have h2' : ¬ ((ids.drop offset).length : Int) > (size : Int) := by omega
        simp only [if_neg h2, if_neg h2']
  · have h' : ¬ (ids.length : Int) > (offset : Int) := by omega
    have s1 : slice ids 0 0 = [] := by simp [slice]
    simp only [hl, if_neg h, if_neg h', s1]
    split
    · omega
    · simp
      intro hc
      omega

/-- a negative offset panics (`ids[offset:]`) -/
theorem c05_t_paginateIDs_negative (ids : List Nat) (offset size : Int) (h : offset < 0) :
    T.Ingestor_paginateIDs ids offset size = none := by
  unfold T.Ingestor_paginateIDs
  have h' : len ids > offset := by unfold len; omega
  have g : ¬ (0 ≤ offset ∧ offset ≤ len ids ∧ len ids ≤ len ids) := by omega
  simp only [if_pos h', if_pos g]

end SV.Props.C05
