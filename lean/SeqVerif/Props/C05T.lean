import SeqVerif.Model.SearchDocs
import SeqVerif.Extracted.C05T
/-!
# C05 - hand model = mechanical translation of the Go source (regenerated on every run)

`SV.Extracted.C05.T` is produced by `extract/cmd/c05t` (translator `extract/xlate`, prelude `Base/GoInt.lean`)
from `proxy/search/ingestor.go`.
-/
namespace SV.Props.C05
open SV.Merge SV.Go
open SV.Extracted.C05

/-- `Ingestor.paginateIDs`: for every ID list and every non-negative offset and size the translated function
does not panic and returns exactly the model's page and size.  (A negative offset makes `ids[offset:]` panic;
the proxy validates `offset ≥ 0`, `size ≥ 0` before the search.) -/
theorem c05_t_paginateIDs (ids : List Nat) (offset size : Nat) :
    T.Ingestor_paginateIDs ids offset size
      = some ((paginate ids offset size).1, ((paginate ids offset size).2 : Int)) := by
  unfold T.Ingestor_paginateIDs paginate
  have hl : ∀ xs : List Nat, len xs = (xs.length : Int) := fun _ => rfl
  by_cases h : ids.length > offset
  · have h' : (ids.length : Int) > (offset : Int) := by omega
    have s1 : slice ids (offset : Int) (ids.length : Int) = ids.drop offset := slice_from ids offset
    simp only [hl, if_pos h, if_pos h', s1]
    split
    · omega
    · by_cases h2 : (ids.drop offset).length > size
      · have h2' : ((ids.drop offset).length : Int) > (size : Int) := by omega
        simp only [if_pos h2, if_pos h2', slice_to]
        split
        · omega
        · rfl
      · have h2' : ¬ ((ids.drop offset).length : Int) > (size : Int) := by omega
        simp only [if_neg h2, if_neg h2']
  · have h' : ¬ (ids.length : Int) > (offset : Int) := by omega
    have s1 : slice ids 0 0 = [] := by simp [slice]
    simp only [hl, if_neg h, if_neg h', s1]
    split
    · omega
    · simp
      intro hc
      omega

/-- `calcEnsuredIDsCount(ids, remainingFracs, order)` = `Merge.calcEnsured`: the IDs are the model's keys (their MID is
`midOf`), a fraction's `Info()` gives its `from_` / `to_`, `order.IsReverse()` is the translated `DocsOrder.IsReverse`
(`order = 1`); the function never panics, whatever the lists -/
theorem c05_t_calcEnsuredIDsCount (ids : List Nat) (rest : List Frac) (order : Int) :
    T.calcEnsuredIDsCount ids rest order (fun f => f) (fun k => (midOf k : Int)) (fun f => (f.from_ : Int)) (fun f => (f.to_ : Int))
      = some (calcEnsured (decide (order ≠ 1)) ids rest : Int) := by
  unfold T.calcEnsuredIDsCount calcEnsured T.DocsOrder_IsReverse
  cases rest with
  | nil => simp [len]
  | cons f fs =>
    have hl : ¬ (len (f :: fs) = 0) := by simp [len]; omega
    have hi : idx (f :: fs) 0 = some f := by simp [idx]
    simp only [if_neg hl, hi, Option.bind_some]
    have hlen : len ids = (ids.length : Int) := rfl
    by_cases ho : order = 1
    · have s := sortSearch_eq
        (fun i => (idx ids i).bind fun v1 => some (decide ((midOf v1 : Int) ≥ (f.from_ : Int))))
        (fun i => decide (midOf (ids.getD i 0) ≥ f.from_)) ids.length (by
          intro i hi
          simp only [idx_natCast, List.getElem?_eq_getElem hi, Option.bind_some, getD_of_lt _ _ _ hi, Option.some.injEq]
          by_cases hc : midOf ids[i] ≥ f.from_
          · have : (midOf ids[i] : Int) ≥ (f.from_ : Int) := by omega
            simp [hc, this]
          · have : ¬ (midOf ids[i] : Int) ≥ (f.from_ : Int) := by omega
            simp [hc, this])
      subst ho
      have c1 : (decide ((1 : Int) = 1)) = true := by decide
      have c2 : decide ((1 : Int) ≠ 1) = false := by decide
      rw [if_pos c1, hlen, s, c2]
      simp only [Option.bind_some, Bool.false_eq_true, if_false]
    · have s := sortSearch_eq
        (fun i => (idx ids i).bind fun v3 => some (decide ((midOf v3 : Int) ≤ (f.to_ : Int))))
        (fun i => decide (midOf (ids.getD i 0) ≤ f.to_)) ids.length (by
          intro i hi
          simp only [idx_natCast, List.getElem?_eq_getElem hi, Option.bind_some, getD_of_lt _ _ _ hi, Option.some.injEq]
          by_cases hc : midOf ids[i] ≤ f.to_
          · have : (midOf ids[i] : Int) ≤ (f.to_ : Int) := by omega
            simp [hc, this]
          · have : ¬ (midOf ids[i] : Int) ≤ (f.to_ : Int) := by omega
            simp [hc, this])
      have c1 : ¬ ((decide (order = 1)) = true) := by simpa using ho
      have c2 : decide (order ≠ 1) = true := by simpa using ho
      rw [if_neg c1, hlen, s, c2]
      simp only [Option.bind_some, if_true]

/-- the loop of `Searcher.SearchDocs`: it goes on exactly when `Merge.searchLoop` does (`rest ≠ [] ∧ (scanAll ∨ limit > 0)`) -/
theorem c05_t_searchLoopCond (scanAll : Bool) (limit : Nat) (rest : List Frac) :
    T.searchLoopCond scanAll limit rest = !decide (rest = [] ∨ ¬ (scanAll = true ∨ limit > 0)) := by
  unfold T.searchLoopCond len
  cases rest with
  | nil => simp
  | cons f fs =>
    have h1 : (((f :: fs).length : Nat) : Int) > 0 := by simp only [List.length_cons]; omega
    have h2 : ((limit : Int) > 0) ↔ limit > 0 := by omega
    have h3 : ¬ (f :: fs = []) := by simp
    simp only [h1, true_and, h2, h3, false_or]
    by_cases hA : scanAll = true ∨ limit > 0 <;> simp [hA]

/-- ... and the limit of the next round is `orig - calcEnsured ..` (the ensured IDs are among the merged ones, at most
`orig` of them: the model's truncated subtraction is the code's `int` subtraction) -/
theorem c05_t_nextLimit (orig : Nat) (ids : List Nat) (rest : List Frac) (order old : Int)
    (ho : orig < 4611686018427387904) (hle : calcEnsured (decide (order ≠ 1)) ids rest ≤ orig) :
    T.nextLimit orig ids rest order (fun f => f) (fun k => (midOf k : Int)) (fun f => (f.from_ : Int)) (fun f => (f.to_ : Int)) old
      = some ((orig - calcEnsured (decide (order ≠ 1)) ids rest : Nat) : Int) := by
  unfold T.nextLimit
  rw [c05_t_calcEnsuredIDsCount]
  simp only [Option.bind_some, Option.some.injEq]
  unfold wrapI64; omega

/-- a negative offset panics (`ids[offset:]`) -/
theorem c05_t_paginateIDs_negative (ids : List Nat) (offset size : Int) (h : offset < 0) :
    T.Ingestor_paginateIDs ids offset size = none := by
  unfold T.Ingestor_paginateIDs
  have h' : len ids > offset := by unfold len; omega
  have g : ¬ (0 ≤ offset ∧ offset ≤ len ids ∧ len ids ≤ len ids) := by omega
  simp only [if_pos h', if_pos g]

end SV.Props.C05
