import SeqVerif.Model.CacheRefine
import SeqVerif.Model.CacheUniq
import SeqVerif.Model.CacheOld
import SeqVerif.Model.Budget
import SeqVerif.Extracted.C18
/-!
# C18 - the block cache is coherent, accounted and bounded

Model: `SV.Cache` (Model/Cache.lean) - a small-step system with one label per critical section of
`cache/cache.go` and `cache/cleaner.go`: `get` (getOrCreate: hit / wait / create), `wake` (a waiter resumes: value or
re-attempt), `finish` (loader returned: `save`, or `recover` after an error or a panic), `release`, `rotate`,
`cleanupBegin` (size check + `markStale`), `cleanupBucket` (one `Cache.Cleanup`), `cleanEmpty`, `releaseBuckets`,
`newCache` (`AddBucket`); any number of caches sharing the cleaner, any number of caller threads.  The loader is an
oracle (value, size, error, panic are label arguments).  `Reach cfg s`: `s` is reachable from `NewCleaner` by ANY
sequence of labels, i.e. in any interleaving; `SeqReach`: every public call runs to completion before the next.

Only property theorems, extracted-fact obligations and non-vacuity examples live here.
-/
namespace SV.Props.C18
open SV.Cache

/-! ## coherence (all interleavings) -/

/-- **value of key.**  Whatever the interleaving: a value handed to a caller (cache hit, waiter woken up, or own
load) was returned by a loader run for exactly the (cache, key) the caller asked for - never another key's value,
never the placeholder of an entry that is still being built. -/
theorem c18_value_of_key (cfg : Cfg) {s s' : St} {l : Label} {v : Nat} (hr : Reach cfg s)
    (hs : step cfg s l = some (s', .value v)) :
    ∃ c k, requested s l = some (c, k) ∧ (c, k, v) ∈ s'.produced :=
  value_of_key cfg (reach_vinv cfg hr) hs

/-- `produced` is a faithful log: it grows only when a thread that runs the loader for `(c, k)` returns value `v`. -/
theorem c18_produced_only_by_loader (cfg : Cfg) {s s' : St} {l : Label} {o : Out} (hr : Reach cfg s)
    (hs : step cfg s l = some (s', o)) :
    s'.produced = s.produced ∨
      ∃ t c k eid v sz, l = .finish t (.ok v sz) ∧ s.pc t = .loading c k eid ∧ s'.produced = (c, k, v) :: s.produced := by
  have hv := reach_vinv cfg hr
  cases l with
  | finish t oc =>
    simp only [step] at hs
    split at hs
    · rename_i c k eid hpc
      obtain ⟨e, he, -⟩ := hv.loading_own t c k eid hpc
      split at hs
      · rename_i v sz
        right
        simp only [Option.some.injEq] at hs
        refine ⟨t, c, k, eid, v, sz, rfl, hpc, ?_⟩
        rw [← fst_of_eq hs]; unfold save; rw [he]; simp only; split <;> rfl
      all_goals
        left
        simp only [Option.some.injEq, Prod.mk.injEq] at hs
        obtain ⟨rfl, -⟩ := hs
        unfold recover; split <;> rfl
    · exact absurd hs (by simp)
  | get t c k =>
    left
    simp only [step] at hs
    split at hs
    · simp only [Option.some.injEq] at hs; rw [← fst_of_eq hs]; exact acquire_produced _ _ _ _
    · exact absurd hs (by simp)
  | wake t =>
    left
    simp only [step] at hs
    split at hs
    · split at hs
      · split at hs
        · simp only [Option.some.injEq, Prod.mk.injEq] at hs; obtain ⟨rfl, -⟩ := hs; rfl
        · split at hs
          · simp only [Option.some.injEq] at hs; rw [← fst_of_eq hs]; exact acquire_produced _ _ _ _
          · exact absurd hs (by simp)
        · exact absurd hs (by simp)
      · exact absurd hs (by simp)
    · exact absurd hs (by simp)
  | newCache => left; simp only [step, Option.some.injEq, Prod.mk.injEq] at hs; obtain ⟨rfl, -⟩ := hs; rfl
  | release c =>
    left; simp only [step] at hs
    split at hs
    · simp only [Option.some.injEq, Prod.mk.injEq] at hs; obtain ⟨rfl, -⟩ := hs; rfl
    · exact absurd hs (by simp)
  | rotate =>
    left; simp only [step] at hs
    split at hs
    · simp only [Option.some.injEq] at hs
      unfold rotate at hs
      split at hs <;> (simp only [Prod.mk.injEq] at hs; obtain ⟨rfl, -⟩ := hs; rfl)
    · exact absurd hs (by simp)
  | cleanupBegin =>
    left; simp only [step] at hs
    split at hs
    · simp only [Option.some.injEq] at hs
      unfold cleanupBegin at hs
      split at hs
      · simp only [Prod.mk.injEq] at hs; obtain ⟨rfl, -⟩ := hs; rfl
      · simp only [Prod.mk.injEq] at hs; obtain ⟨rfl, -⟩ := hs
        exact (markStale_heap s _).2.2
    · exact absurd hs (by simp)
  | cleanupBucket =>
    left; simp only [step] at hs
    split at hs
    · simp only [Option.some.injEq, Prod.mk.injEq] at hs; obtain ⟨rfl, -⟩ := hs; rfl
    · exact absurd hs (by simp)
  | cleanEmpty =>
    left; simp only [step] at hs
    split at hs
    · unfold cleanEmpty at hs
      split at hs
      · exact absurd hs (by simp)
      · simp only [Option.some.injEq, Prod.mk.injEq] at hs; obtain ⟨rfl, -⟩ := hs; rfl
    · exact absurd hs (by simp)
  | releaseBuckets =>
    left; simp only [step] at hs
    split at hs
    · simp only [Option.some.injEq, Prod.mk.injEq] at hs; obtain ⟨rfl, -⟩ := hs; rfl
    · exact absurd hs (by simp)

/-- **every concurrent caller gets the loader's value.**  When the thread that runs the loader for an entry saves
value `v`, then after any further steps of any threads (other lookups, rotations, a cleanup that evicts the entry, a
release of the cache ...) every thread that is still blocked on that entry returns exactly `v` when it resumes. -/
theorem c18_waiters_get_loader_value (cfg : Cfg) {s s1 s2 : St} {t0 c k eid v sz : Nat} {o : Out}
    (hr : Reach cfg s) (hload : s.pc t0 = .loading c k eid)
    (hsave : step cfg s (.finish t0 (.ok v sz)) = some (s1, o)) (hlater : Steps cfg s1 s2)
    {t c' k' : Nat} (hwait : s2.pc t = .waiting c' k' eid) :
    step cfg s2 (.wake t) = some (setPc s2 t .idle, .value v) := by
  have hv := reach_vinv cfg hr
  obtain ⟨e, he, -⟩ := hv.loading_own t0 c k eid hload
  -- after the save the entry is valid with value v
  have h1 : ∃ e1, s1.heap[eid]? = some e1 ∧ e1.st = .valid ∧ e1.val = v := by
    simp only [step, hload, Option.some.injEq] at hsave
    rw [← fst_of_eq hsave]
    unfold save; rw [he]
    simp only
    split <;> exact ⟨_, List.getElem?_set_self (List.getElem?_eq_some_iff.mp he).1, rfl, rfl⟩
  obtain ⟨e1, he1, hst1, hval1⟩ := h1
  obtain ⟨e2, he2, -, -, hst2⟩ := hlater.stable (Reach.step hr hsave) eid e1 he1
  simp only [step, hwait, he2, (hst2 hst1).1, (hst2 hst1).2, hval1]

/-! ## failed loads (all interleavings) -/

/-- **no poison.**  A loader error or panic is reported to the thread that ran the loader (and to nobody else: the
program counters of the other threads do not change), nothing is logged as produced, the failed entry is marked
abandoned and is in no map.  If it was the key's map entry, the key is left without entry and the next lookup runs
its loader again; if another caller has re-created the key in the meantime (the failed entry had been evicted), that
caller's entry stays untouched - and is sane by `c18_map_entries_sane`. -/
theorem c18_no_poison (cfg : Cfg) {s s' : St} {t c k eid : Nat} {oc : Outcome} {o : Out} (hr : Reach cfg s)
    (hload : s.pc t = .loading c k eid) (hfail : oc = .err ∨ oc = .panic)
    (hs : step cfg s (.finish t oc) = some (s', o)) :
    (o = if oc = .err then .err else .panic) ∧ s'.produced = s.produced ∧
      (∀ t', t' ≠ t → s'.pc t' = s.pc t') ∧
      (∃ e, s'.heap[eid]? = some e ∧ e.st = .abandoned ∧ e.inMap = false) ∧
      (∀ i, i ≠ eid → s'.heap[i]? = s.heap[i]?) ∧
      (lookup s.heap c k = some eid → lookup s'.heap c k = none ∧
        ∀ t', s'.pc t' = .idle → s'.released c = false → c < s'.ncaches →
          ∃ s'', step cfg s' (.get t' c k) = some (s'', .loading)) := by
  have hv := reach_vinv cfg hr
  have hrec : s' = recover s t c k eid ∧ (o = if oc = .err then .err else .panic) := by
    rcases hfail with rfl | rfl <;> simp only [step, hload, Option.some.injEq, Prod.mk.injEq] at hs <;>
      exact ⟨hs.1.symm, by simp [hs.2]⟩
  obtain ⟨rfl, ho⟩ := hrec
  obtain ⟨e, he, hc, hk, hheap⟩ := recover_heap hv hload
  have hlen : eid < s.heap.length := (List.getElem?_eq_some_iff.mp he).1
  have hpc : ∀ t', t' ≠ t → (recover s t c k eid).pc t' = s.pc t' := by
    intro t' hne
    unfold recover; rw [he]; simp only
    rw [setPc_pc, if_neg hne]; rfl
  refine ⟨ho, by unfold recover; rw [he]; rfl, hpc, ⟨_, by rw [hheap]; exact List.getElem?_set_self hlen, rfl, rfl⟩, ?_, ?_⟩
  · intro i hi; rw [hheap]; exact List.getElem?_set_ne (Ne.symm hi)
  · intro hl
    have hlk : lookup (recover s t c k eid).heap c k = none := by
      rw [hheap]; exact lookup_set_none (reach_uniq cfg hr) he hl rfl
    refine ⟨hlk, ?_⟩
    intro t' hidle hrel hlt
    refine ⟨(acquire (recover s t c k eid) t' c k).1, ?_⟩
    have h2 : (acquire (recover s t c k eid) t' c k).2 = .loading := by unfold acquire; rw [hlk]
    simp only [step, hidle, hrel, hlt, and_self, if_true, ← h2]

/-- no lookup ever finds the entry of a failed load, and an entry that is still loading always has a thread that is
running its loader (so waiters are never blocked on an orphan). -/
theorem c18_map_entries_sane (cfg : Cfg) {s : St} (hr : Reach cfg s) {c k eid : Nat} (hl : lookup s.heap c k = some eid) :
    ∃ e, s.heap[eid]? = some e ∧ e.cache = c ∧ e.key = k ∧ e.st ≠ .abandoned ∧
      (e.st = .loading → ∃ t c' k', s.pc t = .loading c' k' eid) := by
  have hv := reach_vinv cfg hr
  obtain ⟨e, he, hc, hk, hin⟩ := lookup_sound hl
  exact ⟨e, he, hc, hk, hv.no_abandoned eid e he hin, hv.loading_owner eid e he⟩

/-- the entries `inMap` form a map: at most one per (cache, key) - so the model's `lookup` (first match) is Go's
`c.payload[key]`, and "the caller's own entry leaves the map if it is in it" is `if c.payload[key] == e { delete }`. -/
theorem c18_payload_is_a_map (cfg : Cfg) {s : St} (hr : Reach cfg s) {i j : Nat} {a b : Entry} (hij : i ≠ j)
    (ha : s.heap[i]? = some a) (hb : s.heap[j]? = some b) (hai : a.inMap = true) (hbi : b.inMap = true) :
    ¬(a.cache = b.cache ∧ a.key = b.key) := by
  have u := reach_uniq cfg hr
  rcases Nat.lt_or_gt_of_ne hij with h | h
  · exact u i j a b h ha hb hai hbi
  · intro hk; exact u j i b a h hb ha hbi hai ⟨hk.1.symm, hk.2.symm⟩

/-- **the map rebuild loses nothing.**  `recreatePayload` (run by `Cache.Cleanup` when the map once held at least
`recreateThreshold` entries and now holds at most a tenth of that) copies EVERY entry into the new map - valid ones
and ones that are still loading alike (`SV.Cache.copied`, tied to the source by `c18_x_recreate_copies_all`): the set
of map entries, hence every theorem of this file, is the same with and without a rebuild. -/
theorem c18_rebuild_keeps_every_entry (s : St) (c : Nat) :
    (cacheCleanup s c).1.heap = evicted s c ∧ recreate (evicted s c) c = evicted s c ∧
      (∀ e ∈ evicted s c, e.inMap = true → e.cache = c → copied e = true) :=
  ⟨cacheCleanup_heap s c, recreate_eq _ _, fun _ _ _ _ => rfl⟩

/-- **a failed load leaves nothing behind, at the loader boundary.**  A loader that cannot produce its block (read
error, empty block: `c18_x_index_loaders_fail_inside_the_cache_call`) ends with a panic inside the cache call, i.e. the
label `finish t .panic`: nothing is logged as produced, the entry is abandoned and in no map, and if it was the key's
entry the next lookup of that key loads again - restated from `c18_no_poison` for the sequential case the harness
oracle `cache.indexloaders.property` exercises (fault, then the same lookup on the complete file). -/
theorem c18_failed_load_is_retried (cfg : Cfg) {s s1 s2 : St} {c k : Nat} {o1 o2 : Out} (hr : Reach cfg s)
    (hidle : s.pc 0 = .idle) (hc : c < s.ncaches) (hrel : s.released c = false) (hnone : lookup s.heap c k = none)
    (h1 : step cfg s (.get 0 c k) = some (s1, o1)) (h2 : step cfg s1 (.finish 0 .panic) = some (s2, o2)) :
    o1 = .loading ∧ o2 = .panic ∧ s2.produced = s.produced ∧ lookup s2.heap c k = none ∧
      ∃ s3, step cfg s2 (.get 0 c k) = some (s3, .loading) := by
  have hacq : acquire s 0 c k =
      (setPc { s with heap := s.heap ++ [⟨c, k, .loading, 0, s.cur c, 0, false, true⟩] } 0 (.loading c k s.heap.length),
       .loading) := by
    unfold acquire; rw [hnone]
  simp only [step, hidle, hc, hrel, and_self, if_true, hacq, Option.some.injEq, Prod.mk.injEq] at h1
  obtain ⟨hs1, ho1⟩ := h1
  have hr1 : Reach cfg s1 := Reach.step hr (l := .get 0 c k) (o := o1) (by
    simp only [step, hidle, hc, hrel, and_self, if_true, hacq, ← hs1, ← ho1])
  have hpc1 : s1.pc 0 = .loading c k s.heap.length := by rw [← hs1, setPc_pc]; simp
  have hl1 : lookup s1.heap c k = some s.heap.length := by
    have hv1 := reach_vinv cfg hr1
    obtain ⟨e, he, hce, hke, -⟩ := hv1.loading_own 0 c k _ hpc1
    have hin : e.inMap = true := by
      rw [← hs1] at he
      have : (s.heap ++ [(⟨c, k, .loading, 0, s.cur c, 0, false, true⟩ : Entry)])[s.heap.length]? = some e := he
      rw [List.getElem?_append_right (Nat.le_refl _)] at this
      simp at this; rw [← this]
    exact lookup_eq_of_uniq (reach_uniq cfg hr1) he hin hce hke
  have hnp := c18_no_poison cfg hr1 hpc1 (Or.inr rfl) h2
  obtain ⟨ho2, hprod, hpcs, -, -, hlk⟩ := hnp
  have hlk2 := hlk hl1
  refine ⟨ho1.symm, by simpa using ho2, by rw [hprod, ← hs1]; rfl, hlk2.1, ?_⟩
  have hidle2 : s2.pc 0 = .idle := by
    simp only [step, hpc1, Option.some.injEq, Prod.mk.injEq] at h2
    rw [← h2.1]
    have hv1 := reach_vinv cfg hr1
    obtain ⟨e, he, -⟩ := hv1.loading_own 0 c k _ hpc1
    unfold recover; rw [he]; simp only; rw [setPc_pc]; simp
  have hmv : s2.mview = s.mview := by
    simp only [step, hpc1, Option.some.injEq, Prod.mk.injEq] at h2
    rw [← h2.1, recover_mview, ← hs1]; rfl
  have hn2 : s2.ncaches = s.ncaches := congrArg MView.ncaches hmv
  have hr2 : s2.released c = false := by
    have : s2.relL = s.relL := congrArg MView.relL hmv
    simp only [St.released, this]; exact hrel
  exact hlk2.2 0 hidle2 hr2 (by rw [hn2]; exact hc)

/-! ## management (all interleavings) -/

/-- **managed.**  In every reachable state every cache that was not released is in the cleaner's bucket list and
allocates into the cleaner's newest generation - whatever subsets of caches were released and in whatever order
`ReleaseBuckets` ran. -/
theorem c18_managed (cfg : Cfg) {s : St} (hr : Reach cfg s) :
    ∀ c, c < s.ncaches → s.released c = false → c ∈ s.buckets ∧ s.cur c = s.lastGen :=
  reach_managed cfg hr

/-- **a registered bucket always allocates into a live generation.**  In every reachable state - any interleaving of
`AddBucket` (one critical section, as in the source: `c18_x_rotate_addbucket`), `Rotate`, the steps of `Cleanup`,
lookups, saves, failed loads, `Release`, `CleanEmptyGenerations`, `ReleaseBuckets` - the current generation of every
unreleased cache is the cleaner's last generation, which is in the cleaner's generation list, allocated and not
stale. -/
theorem c18_bucket_generation_listed (cfg : Cfg) (hes : 0 < cfg.entrySize) {s : St} (hr : Reach cfg s) :
    ∀ c, c < s.ncaches → s.released c = false →
      s.cur c = s.lastGen ∧ s.cur c ∈ s.glist ∧ s.cur c < s.ngens ∧ s.stale (s.cur c) = false := by
  intro c hc hrel
  have a := reach_ainv cfg hes hr
  have h := (reach_managed cfg hr c hc hrel).2
  rw [h]
  exact ⟨rfl, a.lastGen_mem, (a.gl.2.1 _ a.lastGen_mem).1, (a.gl.2.1 _ a.lastGen_mem).2⟩

/-- why `AddBucket` has to be one critical section: if `SetGeneration` ran after the unlock, a rotation in between
would leave the new, unreleased bucket on the previous generation (here: not the last one; after a cleaning pass a
stale one) - `c18_bucket_generation_listed` and with it the accounting would fail. -/
theorem c18_addbucket_must_be_atomic :
    let s1 := addBucketAppend init
    let s3 := addBucketSetGen (doRotate s1.1) 0 s1.2
    s3.released 0 = false ∧ s3.cur 0 ≠ s3.lastGen ∧
      (markStale (addBucketSetGen (doRotate s1.1) 0 s1.2) 1).1.stale (s3.cur 0) = true := by decide

/-- `ReleaseBuckets` (repaired form) keeps exactly the unreleased buckets, in order. -/
theorem c18_release_buckets_exact (rel : Nat → Bool) (bs : List Nat) :
    (∀ b, b ∈ releaseBuckets rel bs ↔ b ∈ bs ∧ rel b = false) ∧ (releaseBuckets rel bs).Sublist bs := by
  refine ⟨fun b => by simp [releaseBuckets], List.filter_sublist⟩

/-- Historical witness (defect fixed by /repo commit "fix: ReleaseBuckets"): the swap-with-last loop the package had
before turned buckets `[released, live, released]` into `[released]` - the live cache left the cleaner's management. -/
theorem c18_release_buckets_old_counterexample :
    releaseBucketsOld (fun b => b = 0 ∨ b = 2) [0, 1, 2] = [2] ∧
      releaseBuckets (fun b => b = 0 ∨ b = 2) [0, 1, 2] = [1] := by decide

/-! ## accounting and the bound (all interleavings) -/

/-- **accounting.**  In every reachable state in which no `Cleanup` pass is in progress - whatever lookups are in
flight (loading, blocked, about to fail), whatever was released, rotated, cleaned in whatever order - the size the
cleaner reports (`getSize`, the sum over its generation list) equals the sum of the sizes of the entries held in the
maps of the caches.  (During a pass the entries of generations already marked stale are by design neither listed
nor yet deleted; `c18_accounting_per_generation` says what holds then.) -/
theorem c18_accounting (cfg : Cfg) (hes : 0 < cfg.entrySize) {s : St} (hr : Reach cfg s) (ht : s.todo = none) :
    getSize s = liveSum s.heap :=
  (reach_ainv cfg hes hr).accounting ht

/-- in every reachable state, also in the middle of a `Cleanup` pass: every listed generation counts exactly the map
entries assigned to it; a map entry belongs to an unreleased cache; it is loading (size 0), or valid with a positive
size and either a listed generation or a stale one whose cache the running pass has not visited yet. -/
theorem c18_accounting_per_generation (cfg : Cfg) (hes : 0 < cfg.entrySize) {s : St} (hr : Reach cfg s) :
    (∀ g ∈ s.glist, s.gsize g = genLive s.heap g) ∧
    (∀ e ∈ s.heap, e.inMap = true → s.released e.cache = false ∧ e.st ≠ .abandoned ∧ (e.st = .loading → e.size = 0) ∧
      (e.st = .valid → 0 < e.size ∧ (e.gen ∈ s.glist ∨ (s.stale e.gen = true ∧ e.cache ∈ s.pending)))) := by
  have a := reach_ainv cfg hes hr
  exact ⟨a.acc, fun e he hin => ⟨(a.inmap e he hin).2.1, (a.inmap e he hin).2.2.2.2, a.loading0 e he, a.valid e he hin⟩⟩

/-- **bounded.**  A whole `Cleanup` call (size check, `markStale`, one visit per bucket) that starts when no other
pass is in progress and runs without other steps in between - loads may be in flight, they stay parked - leaves the
accounted size, and therefore the memory actually held by the maps, at or below the configured limit (a limit of 0
disables cleaning). -/
theorem c18_bounded (cfg : Cfg) (hes : 0 < cfg.entrySize) (hlim : 0 < cfg.sizeLimit) {s s' : St} {outs : List Out}
    (hr : Reach cfg s) (ht : s.todo = none) (hs : run cfg s (cleanupLabels cfg s) = some (s', outs)) :
    getSize s' ≤ cfg.sizeLimit ∧ liveSum s'.heap ≤ cfg.sizeLimit := by
  have h := run_cleanup_size (reach_ainv cfg hes hr) ht hlim hs
  have hacc := (reach_ainv cfg hes (run_reach hr hs)).accounting h.2
  exact ⟨h.1, hacc ▸ h.1⟩

/-- the sequential semantics is not a second model: a completed call is exactly the run of its critical sections
in the small-step system (thread 0, nothing else in between), so every sequentially reachable state is reachable
and all the theorems above apply to it; between two sequential calls nothing is in flight. -/
theorem c18_seq_is_interleaving (cfg : Cfg) {s s' : St} {op : Op} {outs : List Out}
    (hr : SeqReach cfg s) (hs : seqOp cfg s op = some (s', outs)) :
    run cfg s (opLabels cfg s op) = some (s', outs) ∧ Reach cfg s ∧ Reach cfg s' ∧
      (∀ t, s'.pc t = .idle) ∧ s'.todo = none := by
  have q := seqReach_sinv hr
  have h := seqOp_eq_run cfg (q.idle 0) q.todo hs
  have q' := seqOp_sinv q hs
  exact ⟨h, seqReach_reach hr, run_reach (seqReach_reach hr) h, q'.idle, q'.todo⟩

/-- `c18_accounting` and `c18_bounded` for sequential histories (what the harness channel `cache.seq` exercises) -/
theorem c18_accounting_bounded_seq (cfg : Cfg) (hes : 0 < cfg.entrySize) {s : St} (hr : SeqReach cfg s) :
    getSize s = liveSum s.heap ∧
      (0 < cfg.sizeLimit → ∀ s' outs, seqOp cfg s .cleanup = some (s', outs) → liveSum s'.heap ≤ cfg.sizeLimit) := by
  have q := seqReach_sinv hr
  refine ⟨c18_accounting cfg hes (seqReach_reach hr) q.todo, fun hlim s' outs hs => ?_⟩
  have h := seqOp_eq_run cfg (q.idle 0) q.todo hs
  exact (c18_bounded cfg hes hlim (seqReach_reach hr) q.todo h).2

/-! ## one layer up: the maintenance tick and sets of caches released together -/

/-- **bounded, at the tick level.**  One tick of `CacheMaintainer.RunCleanLoop` - `rotate()`, then unconditionally
`cleanup()`, and on a gc tick `CleanEmptyGenerations` + `ReleaseBuckets` (`tickOps`, order and unconditional call
tied to the source by `c18_x_tick`) - that runs without concurrent lookups leaves the accounted size and the bytes held
by the maps at or below the limit, whether or not the tick opened a new generation: the total may exceed the limit
while the last generation is still below the 5% that `Rotate` waits for. -/
theorem c18_tick_bounded (cfg : Cfg) (hes : 0 < cfg.entrySize) (hlim : 0 < cfg.sizeLimit) {s s' : St} {gc : Bool}
    {outs : List (List Out)} (hr : SeqReach cfg s) (h : runSeq cfg s (tickOps gc) = some (s', outs)) :
    getSize s' ≤ cfg.sizeLimit ∧ liveSum s'.heap ≤ cfg.sizeLimit := by
  have hb := tick_bounded hes hlim hr h
  have hr' := seqReach_runSeq hr h
  have hacc := c18_accounting cfg hes (seqReach_reach hr') (seqReach_sinv hr').todo
  exact ⟨hacc ▸ hb, hb⟩

/-- non-vacuity and the point of the statement: 98.7% of the limit in an old generation, 2.6% in the fresh one -
the tick does NOT rotate (260 < 500) and still cleans: 10130 -> 260 -/
example :
    ((runSeq ⟨10000, 52⟩ init ([.newCache, .get 0 1 (.ok 1 9818)] ++ tickOps false ++ [.get 0 2 (.ok 2 208)])).bind fun r =>
      (runSeq ⟨10000, 52⟩ r.1 (tickOps true)).map fun r' => (getSize r.1, r'.2.head?, getSize r'.1)) =
      some (10130, some [.rotated false 260], 260) := by decide

/-- **a set of caches released together leaves the cleaner.**  `frac.IndexCache.Release` releases every cache of
the set (`c18_x_index_cache_release_all`); after that, in any interleaving, none of them holds a map entry, the next
`ReleaseBuckets` drops every one of them from the bucket list, and the accounted size equals the bytes held by the
caches that are still alive. -/
theorem c18_released_set_leaves (cfg : Cfg) (hes : 0 < cfg.entrySize) {s s1 s2 : St} {cs : List Nat} {o1 : List Out}
    {o2 : Out} (hr : Reach cfg s) (h1 : run cfg s (releaseAllLabels cs) = some (s1, o1))
    (h2 : step cfg s1 .releaseBuckets = some (s2, o2)) :
    (∀ c ∈ cs, s2.released c = true ∧ c ∉ s2.buckets ∧ ∀ e ∈ s2.heap, e.cache = c → e.inMap = false) ∧
      getSize s2 = liveSum s2.heap := by
  have hrel := (run_releaseAll h1).1
  have hr1 := run_reach hr h1
  have hr2 := Reach.step hr1 h2
  simp only [step] at h2
  split at h2
  · rename_i ht
    simp only [Option.some.injEq, Prod.mk.injEq] at h2
    have a2 := reach_ainv cfg hes hr2
    have hs2 : s2.todo = none := by rw [← h2.1]; exact ht
    refine ⟨fun c hc => ?_, c18_accounting cfg hes hr2 hs2⟩
    have hrc : s2.released c = true := by rw [← h2.1]; exact hrel c hc
    refine ⟨hrc, ?_, ?_⟩
    · rw [← h2.1]
      simp [releaseBuckets, hrel c hc]
    · intro e he hec
      cases hin : e.inMap
      · rfl
      · have := (a2.inmap e he hin).2.1
        rw [hec, hrc] at this; cases this
  · exact absurd h2 (by simp)

/-! ## support code: the cache budget (`FillConfigWithDefault` + `createCleaners`), arithmetic on naturals -/

/-- Full statement wanted: for EVERY configuration `FillConfigWithDefault` accepts, the seven limits are positive and
sum to at most `CacheSize`.  It is false for the code as it is (`c18_budget_split_counterexample`); proved is the part
with the extra hypothesis that the sort cache leaves the 10% reserve alone (`10 * sort ≤ 9 * C`). -/
theorem c18_budget_split_partial (C F S : Nat) (_hacc : SV.Budget.accepted C S)
    (hres : 10 * SV.Budget.sortSize C F S ≤ 9 * C) :
    (SV.Budget.limits C (SV.Budget.sortSize C F S)).sum + SV.Budget.sortSize C F S ≤ C ∧
      (10 * SV.Budget.sortSize C F S + 334 ≤ 9 * C →
        ∀ w ∈ SV.Budget.weights, 0 < SV.Budget.limitOf C (SV.Budget.sortSize C F S) w) := by
  refine ⟨SV.Budget.sum_limits_le _ _ hres, fun h w hw => SV.Budget.limit_pos _ _ w ?_ h⟩
  simp only [SV.Budget.weights, List.mem_cons, List.not_mem_nil, or_false] at hw
  omega

/-- accepted configurations whose remainder `0.9*CacheSize - SortCacheSize` is negative (the six weighted cleaners then
get `uint64(negative float)`): the default path with 8 fraction sizes between 90% and 100% of the cache (here the
default 128 MiB fractions and `--cache-size=1100MiB`), and an explicit sort-cache size in that range. -/
theorem c18_budget_split_counterexample :
    SV.Budget.accepted (1100 * 2^20) 0 ∧ SV.Budget.sortSize (1100 * 2^20) (128 * 2^20) 0 = 1024 * 2^20 ∧
      SV.Budget.negative (1100 * 2^20) (SV.Budget.sortSize (1100 * 2^20) (128 * 2^20) 0) = true ∧
    SV.Budget.accepted 1000 950 ∧ SV.Budget.negative 1000 (SV.Budget.sortSize 1000 0 950) = true := by decide

/-- with the repair proposed in /verif/fixes/C18-cache-budget.patch (default and explicit value capped at 80% of the
cache) the full statement holds for every accepted configuration -/
theorem c18_budget_split_capped (C F S : Nat) (hacc : SV.Budget.acceptedCapped C S) :
    (SV.Budget.limits C (SV.Budget.sortSizeCapped C F S)).sum + SV.Budget.sortSizeCapped C F S ≤ C ∧
      (334 ≤ C → ∀ w ∈ SV.Budget.weights, 0 < SV.Budget.limitOf C (SV.Budget.sortSizeCapped C F S) w) := by
  have hs : SV.Budget.sortSizeCapped C F S ≤ C * 8 / 10 := by
    unfold SV.Budget.sortSizeCapped SV.Budget.acceptedCapped at *
    split
    · exact Nat.min_le_right _ _
    · exact hacc
  refine ⟨SV.Budget.sum_limits_le _ _ (by omega), fun hC w hw => SV.Budget.limit_pos _ _ w ?_ (by omega)⟩
  simp only [SV.Budget.weights, List.mem_cons, List.not_mem_nil, or_false] at hw
  omega

/-! ### historical witnesses: the accounting clause before /repo commit b331fc5

With the three critical sections as they were (`SV.Cache.stepOld`, Model/CacheOld.lean) the clause failed at fully
quiescent points (all threads idle, no pass in progress).  Each interleaving was reproduced on the real package
(harness channel `cache.trace`, replays `sched 1000 ...` in the report) before the repair. -/

/-- (a) `Release` while a load is in flight: the loader's `save` accounted the entry although the map was gone. -/
theorem c18_old_accounting_counterexample_release :
    ((runOld ⟨1000, 52⟩ init [.newCache, .get 0 0 1, .release 0, .finish 0 (.ok 5 100)]).map
      fun s => (getSize s, liveSum s.heap, [s.pc 0], s.todo)) = some (152, 0, [.idle], none) := by decide

/-- (b) a load fails after its entry was evicted and the key re-created by another caller: `recover` deleted the
other caller's entry, which was then accounted when that caller saved it (and its value was lost). -/
theorem c18_old_accounting_counterexample_recover :
    ((runOld ⟨1000, 52⟩ init [.newCache, .get 0 0 1, .get 1 0 2, .finish 1 (.ok 9 2000), .rotate, .cleanupBegin,
        .cleanupBucket, .get 2 0 1, .finish 0 .err, .finish 2 (.ok 7 100)]).map
      fun s => (getSize s, liveSum s.heap, [s.pc 0, s.pc 1, s.pc 2], s.todo)) =
      some (152, 0, [.idle, .idle, .idle], none) := by decide

/-- (c) a load spans `Rotate` + `CleanEmptyGenerations`: its generation became empty and was dropped; the entry was
saved into a generation the cleaner neither lists nor ever marks stale - held, unaccounted, never evicted. -/
theorem c18_old_accounting_counterexample_delisted :
    ((runOld ⟨1000, 52⟩ init [.newCache, .get 0 0 1, .get 1 0 2, .finish 1 (.ok 9 100), .rotate, .get 1 0 2, .cleanEmpty,
        .finish 0 (.ok 5 100)]).map
      fun s => (getSize s, liveSum s.heap, [s.pc 0, s.pc 1], s.todo)) = some (152, 304, [.idle, .idle], none) := by
  decide

/-- the same three interleavings on the repaired code: accounted = held -/
theorem c18_repaired_on_old_witnesses :
    ((run ⟨1000, 52⟩ init [.newCache, .get 0 0 1, .release 0, .finish 0 (.ok 5 100)]).map
      fun r => (getSize r.1, liveSum r.1.heap)) = some (0, 0) ∧
    ((run ⟨1000, 52⟩ init [.newCache, .get 0 0 1, .get 1 0 2, .finish 1 (.ok 9 2000), .rotate, .cleanupBegin,
        .cleanupBucket, .get 2 0 1, .finish 0 .err, .finish 2 (.ok 7 100)]).map
      fun r => (getSize r.1, liveSum r.1.heap)) = some (152, 152) ∧
    ((run ⟨1000, 52⟩ init [.newCache, .get 0 0 1, .get 1 0 2, .finish 1 (.ok 9 100), .rotate, .get 1 0 2, .cleanEmpty,
        .finish 0 (.ok 5 100)]).map
      fun r => (getSize r.1, liveSum r.1.heap)) = some (304, 304) := by decide

/-! ## non-vacuity -/

/-- a concrete sequential history: two caches, three loads (352 bytes each with entrySize 52), limit 1000 -/
def exHistory : List Op :=
  [.newCache, .newCache, .get 0 1 (.ok 11 300), .get 0 2 (.ok 12 300), .rotate, .get 1 1 (.ok 13 300), .get 0 1 .err]

/-- before the cleanup the accounted size is 1056 > 1000, the pass evicts the oldest generation (352 bytes: the entry that was not touched after the rotation), the hit
on (0,1) returned the cached 11 -/
example :
    ((runSeq ⟨1000, 52⟩ init exHistory).map fun r => (getSize r.1, liveSum r.1.heap, r.2.getLast?)) =
      some (1056, 1056, some [.value 11]) := by decide

example :
    ((runSeq ⟨1000, 52⟩ init (exHistory ++ [.cleanup])).map fun r => (getSize r.1, liveSum r.1.heap)) =
      some (704, 704) := by decide

/-- hypotheses of `c18_accounting` / `c18_bounded` with loads in flight: thread 0 is still loading key 9 and thread 1
is blocked on it while three entries (1056 bytes > limit 1000) are cleaned down to 352 -/
example :
    ((run ⟨1000, 52⟩ init [.newCache, .newCache, .get 2 0 1, .finish 2 (.ok 11 300), .get 2 0 2, .finish 2 (.ok 12 300),
        .rotate, .get 0 1 9, .get 1 1 9, .get 2 1 1, .finish 2 (.ok 13 300)]).bind fun r =>
      (run ⟨1000, 52⟩ r.1 (cleanupLabels ⟨1000, 52⟩ r.1)).map fun r' =>
        ([getSize r.1, getSize r'.1, liveSum r'.1.heap], [r.1.todo, r'.1.todo], [r.1.pc 0, r.1.pc 1])) =
      some ([1056, 352, 352], [none, none], [.loading 1 9 2, .waiting 1 9 2]) := by decide

/-- an interleaving: thread 0 loads key 7, thread 1 blocks on it, thread 0 saves 99, thread 1 wakes up with 99 -/
example :
    ((run ⟨1000, 52⟩ init [.newCache, .get 0 0 7, .get 1 0 7, .finish 0 (.ok 99 10), .wake 1]).map (·.2)) =
      some [.none, .loading, .waiting, .value 99, .value 99] := by decide

/-- a failed load: the waiter re-attempts and becomes the loader -/
example :
    ((run ⟨1000, 52⟩ init [.newCache, .get 0 0 7, .get 1 0 7, .finish 0 .panic, .wake 1, .finish 1 (.ok 5 1)]).map (·.2)) =
      some [.none, .loading, .waiting, .panic, .loading, .value 5] := by decide

/-! ## obligations on facts re-extracted from /repo on every run -/

open SV.Extracted.C18

/-- both ratios are 0.05: the model's `x / 20` for `maxGenSize` and `minSize` -/
theorem c18_x_ratios :
    maxGenerationRatio = "0.05" ∧ minSizeToCleanRatio = "0.05" ∧
      newCleanerMaxGenSize = "uint64(maxGenerationRatio * float64(sizeLimit))" := by decide

/-- guards of Rotate / Cleanup / markStale / CleanEmptyGenerations as modelled -/
theorem c18_x_cleaner_guards :
    rotateConds = ["if c.maxGenSize == 0 || lastGenSize < c.maxGenSize"] ∧
    cleanupConds = ["if c.sizeLimit == 0", "if totalSize <= c.sizeLimit"] ∧
    markStaleConds = ["for bytes < sizeToClean && len(c.generations) > 1", "if bytes < sizeToClean"] ∧
    cleanEmptyConds = ["for i < last", "if c.generations[i].size.Load() > 0"] := by decide

/-- order of the steps of `Cleaner.Cleanup` and `markStale` (bucket snapshot before `markStale`, visits after) -/
theorem c18_x_cleanup_order :
    cleanupEvents = ["totalSize := c.getSize()", "minSize := uint64(float64(totalSize) * minSizeToCleanRatio)",
      "sizeToClean := max(minSize, totalSize-c.sizeLimit)", "buckets := c.getBuckets()", "call c.markStale",
      "call b.Cleanup"] ∧
    markStaleEvents = ["g, c.generations = c.generations[0], c.generations[1:]", "g.stale = true",
      "bytes += g.size.Load()", "call c.rotate", "g, c.generations = c.generations[0], c.generations[1:]",
      "g.stale = true"] := by decide

/-- `rotate` and `AddBucket` hand the newest generation to the buckets under the cleaner's lock -/
theorem c18_x_rotate_addbucket :
    rotateEvents = ["call c.mu.Lock", "c.lastGen = g", "call b.SetGeneration",
      "c.generations = append(c.generations, c.lastGen)", "call append", "call c.mu.Unlock"] ∧
    addBucketEvents = ["call c.mu.Lock", "call b.SetGeneration", "c.buckets = append(c.buckets, b)", "call append",
      "call c.mu.Unlock"] ∧ addBucketAtomic = true := by decide

/-- `ReleaseBuckets` is the stable compaction, not the swap-with-last loop -/
theorem c18_x_release_buckets_shape :
    releaseBucketsSwapsWithLast = false ∧ releaseBucketsCompacts = true ∧
      releaseBucketsConds = ["if b.Released()", "if released > 0"] := by decide

/-- the critical sections of cache.go as modelled: `save` (assigns the current generation and accounts inside the
lock, only when not deleted), `recover` (removes only the caller's own entry), `Release` (marks entries deleted),
`updateGeneration`, `Cleanup` -/
theorem c18_x_cache_sections :
    saveEvents = ["size := c.entrySize + uint64(refMemSize)", "call c.mu.Lock", "size = 0", "e.value = value",
      "e.size = size", "e.gen = c.currentGeneration", "call e.gen.size.Add", "e.wg = nil", "call c.mu.Unlock",
      "call wg.Done"] ∧
    saveConds = ["if e.deleted", "if !e.deleted"] ∧
    recoverEvents = ["call c.mu.Lock", "call delete", "call c.mu.Unlock", "call wg.Done"] ∧
    recoverConds = ["if c.payload[key] == e"] ∧
    releaseEvents = ["call c.mu.Lock", "defer", "call c.mu.Unlock", "totalFreed += e.size", "call e.gen.size.Sub",
      "e.deleted = true", "c.payload = nil", "c.released = true"] ∧
    updateGenerationEvents = ["if ng != e.gen", "call e.gen.size.Sub", "call ng.size.Add", "e.gen = ng"] ∧
    cacheCleanupConds = ["if e.gen == nil || !e.gen.stale"] ∧
    cacheCleanupEvents = ["call delete", "e.deleted = true", "totalFreed += e.size"] := by decide

/-- `recreatePayload`: thresholds, its only two conditions are the early returns, and the copy loop ranges over the
whole map with the single unconditional statement `newPayload[k] = v` (nothing is skipped) -/
theorem c18_x_recreate_copies_all :
    SV.Extracted.C18.recreateThreshold = SV.Cache.recreateThreshold ∧
    SV.Extracted.C18.excessiveSizeFactor = SV.Cache.excessiveSizeFactor ∧
    recreateConds = ["if c.maxPayloadSize < recreateThreshold",
      "if len(c.payload)*excessiveSizeFactor > c.maxPayloadSize"] ∧
    recreateCopyLoop = ["range c.payload", "newPayload[k] = v"] ∧
    recreateEvents = ["newPayload := make(map[uint32]*entry[V], len(c.payload)*2)", "newPayload[k] = v",
      "c.payload = newPayload", "c.maxPayloadSize = len(c.payload)"] ∧
    cacheCleanupMaxEvents = ["if len(c.payload) > c.maxPayloadSize", "c.maxPayloadSize = len(c.payload)", "call delete",
      "call c.recreatePayload"] := by decide

/-- the maintenance tick: `rotate()` and `cleanup()` are consecutive unconditional statements of the tick body,
`garbageCollection()` is the only conditional one; `rotate` / `cleanup` / `garbageCollection` call `Rotate` / `Cleanup` /
`CleanEmptyGenerations`, `ReleaseBuckets` on every cleaner -/
theorem c18_x_tick :
    tickStatements = ["runs++", "cm.rotate()", "cm.cleanup()", "if runs >= gcRunsCount"] ∧
    tickGcCalls = ["cm.garbageCollection"] ∧
    maintainerRotateCalls = ["range cm.cleaners", "cleaner.Rotate"] ∧
    maintainerCleanupCalls = ["range cm.cleaners", "cleaner.Cleanup"] ∧
    maintainerGcCalls = ["range cm.cleaners", "cleaner.CleanEmptyGenerations", "cleaner.ReleaseBuckets"] := by decide

/-- `IndexCache.Release` releases every `*cache.Cache` field of `IndexCache` (fields are enumerated from the struct,
so a field added later must be released too), and nothing else -/
theorem c18_x_index_cache_release_all :
    indexCacheFields ≠ [] ∧ indexCacheFields.all (· ∈ indexCacheReleased) = true ∧
      indexCacheReleased.all (· ∈ indexCacheFields) = true ∧ indexCacheReleaseConds = [] := by decide

/-- the loader of the doc-block cache hands out its own buffer: the only non-nil result of `ReadDocBlockPayload` is
`dst`, which comes from `DecompressTo(make([]byte, RawLen))`; the pooled read buffer's `Payload()` is never returned;
`DecompressTo` copies in the uncompressed case.  (`c18_value_of_key` treats a produced value as immutable.) -/
theorem c18_x_loader_fresh_buffer :
    loaderReturns = ["return nil, 0, err", "return nil, uint64(n), err", "return dst, uint64(n), err"] ∧
    loaderDst = ["dst, err := docBlock.DecompressTo(make([]byte, docBlock.RawLen()))"] ∧ loaderPayloadCalls = 0 ∧
    decompressToNoCodec = ["if b.Codec() == CodecNo", "dst = util.EnsureSliceSize(dst, len(payload))",
      "copy(dst, payload)", "return dst, nil"] := by decide

/-- at the boundary between the sealed-index loaders and the cache an empty / unreadable block is a FAILED load
(label `finish t .panic` of the model, after which `c18_no_poison` applies): the loaders run inside the cache call
(`idsLoaderCalls`) and panic there.  Two known shapes: all three loaders do (after /verif/fixes/
C18-index-loaders-failed-load.patch), or only `loadMIDBlock` does (before it: failed RIDs / params loads are cached as
empty entries - harness class `failed-load-poisons-cache`). -/
theorem c18_x_index_loaders_fail_inside_the_cache_call :
    idsLoaderCalls = ["GetMIDsBlock: il.cache.MIDs.Get", "GetMIDsBlock: il.loadMIDBlock", "GetRIDsBlock: il.cache.RIDs.Get",
      "GetRIDsBlock: il.loadRIDBlock", "GetParamsBlock: il.cache.Params.Get", "GetParamsBlock: il.loadParamsBlock"] ∧
    (idsLoadersFailOnEmpty = ["loadMIDBlock: if err != nil || len(data) == 0",
        "loadParamsBlock: if err != nil || len(data) == 0", "loadRIDBlock: if err != nil || len(data) == 0"] ∨
      idsLoadersFailOnEmpty = ["loadMIDBlock: if len(data) == 0"]) := by decide

/-- the token table stored in the cache owns its strings: field names, `MinVal`, `MaxVal` are `string(...)` copies of
the read buffer, which `readBlock` reuses for the next block of the table -/
theorem c18_x_token_table_owns_its_strings :
    tableLoaderStrings = ["fieldName := string(unpacker.GetBinary())", "minVal := unpacker.GetBinary()",
      "field.MinVal = string(minVal)", "e.MaxVal = string(unpacker.GetBinary())"] ∧
    tableLoaderReadBlock = ["block, _, err := l.reader.ReadIndexBlock(l.i, l.buf)", "call l.reader.ReadIndexBlock",
      "l.buf = block"] := by decide

/-- the cache budget as modelled by `SV.Budget`: weights and order of the layers, the 0.9 / 8 / 0.8 constants, and the
sort-cache rule of `FillConfigWithDefault` in one of its two known shapes - `sortCacheCapped` says which one the
source has, the driver's `split` command uses that rule (`SV.Budget.sortSizeOf`); the full theorem
`c18_budget_split_capped` applies when it is `true`, only `c18_budget_split_partial` when it is `false` -/
theorem c18_x_budget :
    layerWeights = ["weight=3", "weight=8", "weight=8", "weight=36", "weight=37", "weight=8", "sizeLimit=sortCacheSize"] ∧
    createCleanersArith = ["s := float64(totalSize) * 0.9", "s -= float64(cfg[i].sizeLimit)",
      "totalWeights += int(cfg[i].weight)", "sizeLimit = uint64(s * float64(cfgItem.weight) / float64(totalWeights))"] ∧
    ((sortCacheCapped = false ∧
        sortCacheDefault = ["if config.SortCacheSize == 0", "const SdocsCacheSizeMultiplier = 8",
          "const SdocsCacheSizeMaxRatio = 0.8", "config.SortCacheSize = config.FracSize * SdocsCacheSizeMultiplier",
          "if config.SortCacheSize > config.CacheSize", "config.SortCacheSize = uint64(float64(config.CacheSize) * 0.8)",
          "if config.SortCacheSize > config.CacheSize", "Fatal"]) ∨
      (sortCacheCapped = true ∧
        sortCacheDefault = ["const SdocsCacheSizeMultiplier = 8", "const SdocsCacheSizeMaxRatio = 0.8",
          "maxSortCacheSize := uint64(float64(config.CacheSize) * SdocsCacheSizeMaxRatio)",
          "if config.SortCacheSize == 0",
          "config.SortCacheSize = min(config.FracSize*SdocsCacheSizeMultiplier, maxSortCacheSize)",
          "if config.SortCacheSize > maxSortCacheSize", "Fatal"])) ∧
    SV.Budget.weights.sum = SV.Budget.totalWeights := by decide

/-- `getOrCreate`, `Get`, `GetWithError` as modelled -/
theorem c18_x_lookup_sections :
    getOrCreateEvents = ["call c.mu.Lock", "e, ok := c.payload[key]", "wg := e.wg", "call e.updateGeneration",
      "call c.mu.Unlock", "call wg.Wait", "call c.mu.Lock", "e, ok = c.payload[key]",
      "e = &entry[V]{gen: c.currentGeneration}", "wg := &sync.WaitGroup{}", "call wg.Add", "e.wg = wg",
      "c.payload[key] = e", "call c.mu.Unlock"] ∧
    getOrCreateConds = ["if !c.mu.TryLock()", "for ok", "if wg != nil", "if e.wg == nil"] ∧
    eventsGet = ["e, wg, success := c.getOrCreate(key)", "call c.getOrCreate", "defer", "call c.handlePanic",
      "value, refMemSize := fn()", "call fn", "call c.save"] ∧
    eventsGetWithError = ["e, wg, success := c.getOrCreate(key)", "call c.getOrCreate", "defer", "call c.handlePanic",
      "value, refMemSize, err := fn()", "call fn", "call c.recover", "call c.save"] := by decide

end SV.Props.C18
