import SeqVerif.Model.KmpProof
import SeqVerif.Model.Pattern
import SeqVerif.Extracted.C13T
/-!
# C13 - the KMP model = mechanical translation of `pattern/substring.go`

`SV.Extracted.C13.T` is produced by `extract/cmd/c13t` (translator `extract/xlate`, prelude `Base/GoInt.lean`).
The `for cond {}` fall-back loop is bounded by the explicit `gas` parameter (`none` when it runs out, like a panic);
it is nested in the range loop over the text, so it is a closed function returning the new `curPrefFunc`.
The theorems say: whenever `gas` exceeds the fragment's length (and the fragment is shorter than 2^31, `int32`), the
translated `findSubstring` neither panics nor runs out of gas and returns the model's answer (`-1` for `none`).
-/
namespace SV.Props.C13
open SV.Kmp SV.Go
open SV.Extracted.C13

/-- the fall-back loop ends because its condition fails (not because the model's fuel ran out) -/
def stepDone (val pf : List Nat) (b cur : Nat) : Bool :=
  decide (fallback val pf b cur cur = 0 ∨ b = val.getD (fallback val pf b cur cur) 0)

def findLoopDone (val pf : List Nat) : List Nat → Nat → Bool
  | [], _ => true
  | b :: rest, cur =>
    stepDone val pf b cur &&
      (if kmpStep val pf b cur = val.length then true else findLoopDone val pf rest (kmpStep val pf b cur))

/-- the translated fall-back loop = `Kmp.fallback`, given the model's bounds instrumentation and enough gas -/
theorem c13_t_fallback (val pf : List Nat) (b : Nat) (S : List Int) (I : Int) (hl : val.length < 2147483648) :
    ∀ (fuel cur gas : Nat), fuel < gas → fallbackOK val pf b fuel cur = true →
      fallback val pf b fuel cur < val.length →
      (fallback val pf b fuel cur = 0 ∨ b = val.getD (fallback val pf b fuel cur) 0) →
      T.findSubstring_loop1 S (ints val) (ints pf) I b gas cur = some ((fallback val pf b fuel cur : Nat) : Int) := by
  intro fuel
  induction fuel with
  | zero =>
    intro cur gas hg _ hfin hdone
    obtain ⟨g, rfl⟩ : ∃ g, gas = g + 1 := ⟨gas - 1, by omega⟩
    simp only [fallback] at hfin hdone ⊢
    rw [T.findSubstring_loop1]
    by_cases hc : cur = 0
    · subst hc; simp
    · have hc' : (cur : Int) > 0 := by omega
      have hb : b = val[cur] := by
        rcases hdone with h | h
        · omega
        · rw [getD_of_lt _ _ _ hfin] at h; exact h
      have : ¬ ((b : Int) ≠ (val[cur] : Int)) := by omega
      simp only [if_pos hc', idx_ints _ _ hfin, Option.bind_some, if_neg this]
  | succ fuel ih =>
    intro cur gas hg hok hfin hdone
    obtain ⟨g, rfl⟩ : ∃ g, gas = g + 1 := ⟨gas - 1, by omega⟩
    rw [T.findSubstring_loop1]
    simp only [fallback, fallbackOK] at hok hfin hdone ⊢
    by_cases hc : 0 < cur
    · have hc' : (cur : Int) > 0 := by omega
      simp only [hc, if_true, Bool.and_eq_true, decide_eq_true_eq, true_and] at hok hfin hdone ⊢
      have hlt := hok.1
      rw [getD_of_lt _ _ _ hlt] at hok hfin hdone ⊢
      simp only [if_pos hc', idx_ints _ _ hlt, Option.bind_some]
      by_cases hb : b ≠ val[cur]
      · have hb' : (b : Int) ≠ (val[cur] : Int) := by omega
        simp only [hb, if_true, ne_eq, not_false_eq_true, Bool.and_eq_true, decide_eq_true_eq] at hok hfin hdone ⊢
        have hw : wrapI32 ((cur : Int) - 1) = ((cur - 1 : Nat) : Int) := by unfold wrapI32; omega
        have hp := hok.2.1
        rw [getD_of_lt _ _ _ hp] at hok hfin hdone ⊢
        simp only [if_pos hb', hw, idx_ints _ _ hp, Option.bind_some]
        exact ih _ g (by omega) hok.2.2 hfin hdone
      · have hb' : ¬ ((b : Int) ≠ (val[cur] : Int)) := by omega
        simp only [hb, if_false, if_neg hb']
    · have hc0 : cur = 0 := by omega
      subst hc0
      simp

private theorem wrapI32_succ (c n : Nat) (h : c < n) (hn : n < 2147483648) : wrapI32 ((c : Int) + 1) = ((c + 1 : Nat) : Int) := by
  unfold wrapI32; omega
private theorem wrapI32_nat (n : Nat) (hn : n < 2147483648) : wrapI32 (n : Int) = (n : Int) := by unfold wrapI32; omega
private theorem wrapI64_succ (i k : Nat) (h : i + 1 + k < 4611686018427387904) : wrapI64 ((i : Int) + 1) = ((i + 1 : Nat) : Int) := by
  unfold wrapI64; omega
private theorem len_step (i k : Nat) (h : i + (k + 1) < 4611686018427387904) : i + 1 + k < 4611686018427387904 := by omega

/-- the translated text loop = `Kmp.findLoop` -/
theorem c13_t_findLoop (val pf : List Nat) (S : List Int) (hl : val.length < 2147483648) (gas : Nat) (hg : val.length < gas) :
    ∀ (rest : List Nat) (i cur : Nat), cur < val.length → i + rest.length < 4611686018427387904 →
      findLoopOK val pf rest cur = true → findLoopDone val pf rest cur = true →
      T.findSubstring_loop0 gas S (ints val) (ints pf) (ints rest) cur i
        = some (match findLoop val pf rest i cur with | none => -1 | some e => (e : Int)) := by
  intro rest
  induction rest with
  | nil => intro i cur _ _ _ _; simp [T.findSubstring_loop0, findLoop, ints]
  | cons b rest ih =>
    intro i cur hcur hi hok hdone
    have hi' : i + 1 + rest.length < 4611686018427387904 := len_step i rest.length (by simpa using hi)
    have hwi : wrapI64 ((i : Int) + 1) = ((i + 1 : Nat) : Int) := wrapI64_succ i rest.length hi'
    have hcons : ints (b :: rest) = (b : Int) :: ints rest := by simp [ints]
    rw [hcons, T.findSubstring_loop0]
    simp only [findLoopOK, findLoopDone, kmpStepOK, stepDone, Bool.and_eq_true, decide_eq_true_eq] at hok hdone
    obtain ⟨⟨hfok, hfin⟩, hrest⟩ := hok
    obtain ⟨hd, hdrest⟩ := hdone
    rw [c13_t_fallback val pf b S i hl cur cur gas (by omega) hfok hfin hd]
    simp only [Option.bind_some, idx_ints _ _ hfin, findLoop, kmpStep] at hrest hdrest ⊢
    simp only [getD_of_lt _ _ _ hfin] at hrest hdrest ⊢
    generalize hc : fallback val pf b cur cur = c at *
    have hlen : len (ints val) = (val.length : Int) := len_ints val
    have hwl : wrapI32 (val.length : Int) = (val.length : Int) := wrapI32_nat _ hl
    have hw1 : wrapI32 ((c : Int) + 1) = ((c + 1 : Nat) : Int) := wrapI32_succ c val.length hfin hl
    by_cases hb : b = val[c]
    · have hb' : (b : Int) = (val[c] : Int) := Int.natCast_inj.mpr hb
      simp only [if_pos hb, if_pos hb', hw1, hlen, hwl, hwi] at hrest hdrest ⊢
      by_cases he : c + 1 = val.length
      · have he' : ((c + 1 : Nat) : Int) = (val.length : Int) := Int.natCast_inj.mpr he
        simp only [if_pos he, if_pos he']
      · have he' : ¬ (((c + 1 : Nat) : Int) = (val.length : Int)) := fun h => he (Int.natCast_inj.mp h)
        simp only [if_neg he, if_neg he'] at hrest hdrest ⊢
        have := ih (i + 1) (c + 1) (Nat.lt_of_le_of_ne (Nat.succ_le_of_lt hfin) he) hi' hrest hdrest
        simp only [Int.natCast_add, Int.natCast_one] at this ⊢
        exact this
    · have hb' : ¬ ((b : Int) = (val[c] : Int)) := fun h => hb (Int.natCast_inj.mp h)
      simp only [if_neg hb, if_neg hb', hlen, hwl, hwi] at hrest hdrest ⊢
      have he : ¬ (c = val.length) := Nat.ne_of_lt hfin
      have he' : ¬ ((c : Int) = (val.length : Int)) := fun h => he (Int.natCast_inj.mp h)
      simp only [if_neg he, if_neg he'] at hrest hdrest ⊢
      have := ih (i + 1) c hfin hi' hrest hdrest
      simp only [Int.natCast_add, Int.natCast_one] at this ⊢
      exact this

/-- the fall-back loops of a search with a proper prefix-function table end by their condition -/
theorem c13_t_findLoop_done (p pf : List Nat) (hpf : PfOK p pf p.length) (hpl : p.length ≤ pf.length) :
    ∀ (rest done : List Nat) (cur : Nat), IsMax p done cur → cur < p.length → findLoopDone p pf rest cur = true := by
  intro rest
  induction rest with
  | nil => intro _ _ _ _; rfl
  | cons b rest ih =>
    intro done cur hmax hcl
    obtain ⟨_, _, r3, _, _⟩ := fallback_spec p pf done b p.length hpf hpl cur cur (Nat.le_refl _) hmax.1 hcl (by omega)
      (fun k hk hck _ => by have := hmax.2 k hk; omega)
    have hs := (kmpStep_spec p pf done b p.length cur hpf hpl hmax hcl (by omega)).1
    simp only [findLoopDone, stepDone, Bool.and_eq_true, decide_eq_true_eq]
    refine ⟨?_, ?_⟩
    · rcases r3 with h | h
      · exact Or.inl h
      · exact Or.inr h.symm
    · split
      · rfl
      · rename_i hne
        have hle : kmpStep p pf b cur ≤ p.length := hs.1.1.1
        exact ih (done ++ [b]) _ hs.1 (by omega)

/-- **`findSubstring`** for every non-empty fragment `p` shorter than 2^31 with its prefix function, every text
`s` (shorter than 2^62) and any `gas > len(p)`: no panic, no exhaustion, the model's result (`-1` = not found) -/
theorem c13_t_findSubstring (p s : List Nat) (hp : p ≠ []) (hl : p.length < 2147483648)
    (hs : s.length < 4611686018427387904) (gas : Nat) (hg : p.length < gas) :
    T.findSubstring gas (ints s) (ints p) (ints (calcPrefFunc p))
      = some (match Kmp.findSubstring s ⟨p, calcPrefFunc p⟩ with | none => -1 | some e => (e : Int)) := by
  have hall := calcPrefFunc_all p hp
  have hpos : 0 < p.length := List.length_pos_iff.mpr hp
  have hok := (kmp_in_range p hp).2 s
  have hdone := c13_t_findLoop_done p (calcPrefFunc p) hall.1 (by rw [hall.2.1]; exact Nat.le_refl _) s [] 0 (IsMax_nil p) hpos
  have := c13_t_findLoop p (calcPrefFunc p) (ints s) hl gas hg s 0 0 hpos (by omega) hok hdone
  unfold T.findSubstring Kmp.findSubstring
  simpa using this

/-- a fragment as `newSubstringPattern` builds it: non-empty, shorter than 2^31, with its prefix function -/
def PatOK (t : SubPat) : Prop := t.val ≠ [] ∧ t.val.length < 2147483648 ∧ t.pf = calcPrefFunc t.val

private theorem find_le (s : List Nat) (t : SubPat) (ht : PatOK t) (e : Nat) (h : Kmp.findSubstring s t = some e) :
    e ≤ s.length := by
  obtain ⟨hne, _, hpf⟩ := ht
  have ht' : t = ⟨t.val, calcPrefFunc t.val⟩ := by cases t; simp_all
  rw [ht', kmp_first_occurrence _ s hne] at h
  obtain ⟨⟨x, hx, he⟩, _⟩ := Greedy.findEnd_some t.val s e h
  have := congrArg List.length hx
  simp only [List.length_append] at this
  omega

private theorem wrapI64_succ' (c n : Nat) (h : c < n) (hn : n < 4611686018427387904) : wrapI64 ((c : Int) + 1) = ((c + 1 : Nat) : Int) := by
  unfold wrapI64; omega

/-- the loop of `findSequence` = `Kmp.findSequence` on the remaining fragments -/
theorem c13_t_findSequence_loop (pats : List SubPat) (hp : ∀ t, t ∈ pats → PatOK t) (gas : Nat)
    (hg : ∀ t, t ∈ pats → t.val.length < gas) (hn : pats.length < 4611686018427387904) :
    ∀ (fuel cur : Nat) (s : List Nat), cur + fuel = pats.length → s.length < 4611686018427387904 →
      T.findSequence_loop0 gas pats (fun t => ints t.pf) (fun t => ints t.val) fuel (ints s) cur
        = some ((cur + Kmp.findSequence s (pats.drop cur) : Nat) : Int) := by
  intro fuel
  induction fuel with
  | zero =>
    intro cur s hc _
    have : pats.drop cur = [] := List.drop_of_length_le (by omega)
    rw [T.findSequence_loop0, this]
    have hz : Kmp.findSequence s [] = 0 := by cases s <;> rfl
    simp only [len, hz]
    congr 1; omega
  | succ fuel ih =>
    intro cur s hc hs
    have hlt : cur < pats.length := by omega
    have hlt' : (cur : Int) < len pats := by unfold len; omega
    have hd : pats.drop cur = pats[cur] :: pats.drop (cur + 1) := (List.drop_eq_getElem_cons hlt)
    have hok := hp _ (List.getElem_mem hlt)
    have hgas := hg _ (List.getElem_mem hlt)
    obtain ⟨hne, hl31, hpf⟩ := hok
    rw [T.findSequence_loop0, hd]
    simp only [if_pos hlt', idx_natCast, List.getElem?_eq_getElem hlt, Option.bind_some, hpf]
    rw [c13_t_findSubstring _ s hne hl31 hs gas hgas]
    have ht' : pats[cur] = ⟨pats[cur].val, calcPrefFunc pats[cur].val⟩ := by
      cases h : pats[cur]; rw [h] at hpf; simp_all
    simp only [Option.bind_some]
    cases hf : Kmp.findSubstring s ⟨pats[cur].val, calcPrefFunc pats[cur].val⟩ with
    | none =>
      have hm : Kmp.findSequence s (pats[cur] :: pats.drop (cur + 1)) = 0 := by
        rw [ht']; cases s <;> simp [Kmp.findSequence, hf]
      simp only [hm, if_true, Nat.add_zero]
    | some e =>
      have hle : e ≤ s.length := find_le s ⟨pats[cur].val, calcPrefFunc pats[cur].val⟩ ⟨hne, hl31, rfl⟩ e hf
      have hne1 : ¬ ((e : Int) = -1) := by omega
      have hls : len (ints s) = (s.length : Int) := len_ints s
      have g : ¬ ¬ ((0 : Int) ≤ (e : Int) ∧ (e : Int) ≤ len (ints s) ∧ len (ints s) ≤ len (ints s)) := by
        rw [hls]; omega
      have hsl : slice (ints s) (e : Int) (len (ints s)) = ints (s.drop e) := by
        rw [hls, slice_ints]; simp
      have hw := wrapI64_succ' cur pats.length hlt hn
      have hm : Kmp.findSequence s (pats[cur] :: pats.drop (cur + 1)) = 1 + Kmp.findSequence (s.drop e) (pats.drop (cur + 1)) := by
        rw [ht']; cases s <;> simp [Kmp.findSequence, hf]
      simp only [if_neg hne1, if_neg g, hsl, hw, hm]
      rw [ih (cur + 1) (s.drop e) (by omega) (by simp; omega), Nat.add_assoc]

/-- **`findSequence`**: for fragments built by `newSubstringPattern`, any text below 2^62 bytes and `gas` above every
fragment's length: no panic, and the number of fragments found is the model's -/
theorem c13_t_findSequence (pats : List SubPat) (s : List Nat) (hp : ∀ t, t ∈ pats → PatOK t) (gas : Nat)
    (hg : ∀ t, t ∈ pats → t.val.length < gas) (hn : pats.length < 4611686018427387904)
    (hs : s.length < 4611686018427387904) :
    T.findSequence gas (ints s) pats (fun t => ints t.pf) (fun t => ints t.val) = some (Kmp.findSequence s pats : Int) := by
  unfold T.findSequence
  have := c13_t_findSequence_loop pats hp gas hg hn pats.length 0 s (by omega) hs
  simpa [len] using this

/-! ## value tests of the searchers (`pattern/pattern.go`) -/

private theorem dec_beq {α : Type} [DecidableEq α] [BEq α] [LawfulBEq α] (a b : α) : decide (a = b) = (a == b) := by
  by_cases h : a = b
  · subst h; simp
  · simp [h]

/-- `cut(b, l)` = `Pattern.cut` (no panic for `l ≥ 0`) -/
theorem c13_t_cut (b : List Nat) (l : Nat) : T.cut (ints b) l = some (ints (SV.Pattern.cut b l)) := by
  unfold T.cut SV.Pattern.cut
  rw [len_ints]
  have hm : min (b.length : Int) (l : Int) = ((min b.length l : Nat) : Int) := by omega
  have g : ¬ ¬ ((0 : Int) ≤ 0 ∧ (0 : Int) ≤ ((min b.length l : Nat) : Int) ∧ ((min b.length l : Nat) : Int) ≤ (b.length : Int)) := by omega
  have hs : slice (ints b) 0 ((min b.length l : Nat) : Int) = ints (b.take (min b.length l)) := by
    have := slice_ints b 0 (min b.length l); simpa using this
  rw [hm, if_neg g, hs]
  congr 2
  rw [Nat.min_comm, ← List.take_take]; simp

/-- `literalSearch.check` = `Lit.check` -/
theorem c13_t_literal_check (s : SV.Pattern.Lit) (val : List Nat) :
    T.literalSearch_check (ints s.value) s.narrowed (ints val) = s.check val := by
  unfold T.literalSearch_check SV.Pattern.Lit.check
  rw [len_ints, len_ints, bytesEqual_ints]
  cases s.narrowed
  · simp only [Bool.false_eq_true, if_false]; exact dec_beq _ _
  · have : ((s.value.length : Int) = (val.length : Int)) ↔ s.value.length = val.length := by omega
    simp only [if_true, this]; exact dec_beq _ _

/-- `wildcardSearch.checkPrefix` = `Wild.checkPrefix` (never panics) -/
theorem c13_t_checkPrefix (s : SV.Pattern.Wild) (val : List Nat) :
    T.wildcardSearch_checkPrefix (ints s.pre) s.narrowed (ints val) = some (s.checkPrefix val) := by
  unfold T.wildcardSearch_checkPrefix SV.Pattern.Wild.checkPrefix
  rw [len_ints, len_ints]
  by_cases h1 : s.narrowed = true ∨ s.pre.length = 0
  · have h1' : s.narrowed = true ∨ (s.pre.length : Int) = 0 := by rcases h1 with h | h; exact Or.inl h; exact Or.inr (by omega)
    simp only [if_pos h1, if_pos h1']
  · have h1' : ¬ (s.narrowed = true ∨ (s.pre.length : Int) = 0) := by
      intro hc; apply h1; rcases hc with h | h; exact Or.inl h; exact Or.inr (by omega)
    simp only [if_neg h1, if_neg h1']
    by_cases h2 : s.pre.length > val.length
    · have h2' : (s.pre.length : Int) > (val.length : Int) := by omega
      simp only [if_pos h2, if_pos h2']
    · have h2' : ¬ (s.pre.length : Int) > (val.length : Int) := by omega
      have g : ¬ ¬ ((0 : Int) ≤ 0 ∧ (0 : Int) ≤ (s.pre.length : Int) ∧ (s.pre.length : Int) ≤ (val.length : Int)) := by omega
      have hs : slice (ints val) 0 (s.pre.length : Int) = ints (val.take s.pre.length) := by
        have := slice_ints val 0 s.pre.length; simpa using this
      simp only [if_neg h2, if_neg h2', if_neg g, hs, bytesEqual_ints]
      congr 1
      exact dec_beq _ _

/-- `wildcardSearch.checkSuffix` = `Wild.checkSuffix` for values and patterns shorter than 2^62 (the `int` subtraction
`len(val)-len(s.prefix)` does not wrap) -/
theorem c13_t_checkSuffix (s : SV.Pattern.Wild) (val : List Nat) (hv : val.length < 4611686018427387904)
    (hp : s.pre.length < 4611686018427387904) (hsf : s.suf.length < 4611686018427387904) :
    T.wildcardSearch_checkSuffix (ints s.pre) (ints s.suf) (ints val) = some (s.checkSuffix val) := by
  unfold T.wildcardSearch_checkSuffix SV.Pattern.Wild.checkSuffix
  rw [len_ints, len_ints, len_ints]
  by_cases h1 : s.suf.length = 0
  · have h1' : (s.suf.length : Int) = 0 := by omega
    simp only [if_pos h1, if_pos h1']
  · have h1' : ¬ ((s.suf.length : Int) = 0) := by omega
    simp only [if_neg h1, if_neg h1']
    have hw1 : wrapI64 ((val.length : Int) - (s.pre.length : Int)) = (val.length : Int) - (s.pre.length : Int) := by
      unfold wrapI64; omega
    rw [hw1]
    by_cases h2 : val.length < s.suf.length + s.pre.length
    · have h2' : (val.length : Int) - (s.pre.length : Int) < (s.suf.length : Int) := by omega
      simp only [if_pos h2, if_pos h2']
    · have h2' : ¬ ((val.length : Int) - (s.pre.length : Int) < (s.suf.length : Int)) := by omega
      have hw2 : wrapI64 ((val.length : Int) - (s.suf.length : Int)) = ((val.length - s.suf.length : Nat) : Int) := by
        unfold wrapI64; omega
      have g : ¬ ¬ ((0 : Int) ≤ ((val.length - s.suf.length : Nat) : Int) ∧ ((val.length - s.suf.length : Nat) : Int) ≤ (val.length : Int)
          ∧ (val.length : Int) ≤ (val.length : Int)) := by omega
      have hs : slice (ints val) ((val.length - s.suf.length : Nat) : Int) (val.length : Int) = ints (val.drop (val.length - s.suf.length)) := by
        rw [slice_ints]; simp
      simp only [if_neg h2, if_neg h2', hw2, if_neg g, hs, bytesEqual_ints]
      congr 1
      exact dec_beq _ _

/-! ## narrowing to a TID interval -/

/-- `util.BinSearchInRange(lo, P1-1, fn)` (as translated into this module) = `Pattern.binSearch lo P1 q` -/
theorem c13_t_BinSearchInRange (lo P1 : Nat) (fn : Int → Option Bool) (q : Nat → Bool) (hle : lo ≤ P1)
    (hP : P1 < 4611686018427387904) (hfn : ∀ k : Nat, lo ≤ k → k < P1 → fn k = some (q k)) :
    T.BinSearchInRange lo ((P1 : Int) - 1) fn = some (SV.Pattern.binSearch lo P1 q : Int) := by
  unfold T.BinSearchInRange SV.Pattern.binSearch
  have hn : wrapI64 (wrapI64 ((P1 : Int) - 1 - (lo : Int)) + 1) = ((P1 - lo : Nat) : Int) := by unfold wrapI64; omega
  have hs := sortSearch_eq (fun i => (fn (wrapI64 ((lo : Int) + i))).bind fun v0 => some v0)
    (fun i => q (lo + i)) (P1 - lo) (by
      intro i hi'
      have hw : wrapI64 ((lo : Int) + (i : Int)) = ((lo + i : Nat) : Int) := by unfold wrapI64; omega
      simp only [hw, hfn (lo + i) (by omega) (by omega), Option.bind_some])
  simp only [hn, hs, Option.bind_some, Option.some.injEq]
  have hb := SV.searchGo_bounds (fun i => q (lo + i)) 0 (P1 - lo) (by omega)
  generalize SV.searchGo (fun i => q (lo + i)) 0 (P1 - lo) = r at *
  unfold wrapI64; omega

theorem c13_t_bytesCompare (a b : List Nat) :
    bytesCompare (ints a) (ints b) = (match SV.Pattern.bcmp a b with | .lt => -1 | .eq => 0 | .gt => 1) := by
  induction a generalizing b with
  | nil => cases b <;> simp [ints, bytesCompare, SV.Pattern.bcmp]
  | cons x xs ih =>
    cases b with
    | nil => simp [ints, bytesCompare, SV.Pattern.bcmp]
    | cons y ys =>
      have hc : ints (x :: xs) = (x : Int) :: ints xs := by simp [ints]
      have hd : ints (y :: ys) = (y : Int) :: ints ys := by simp [ints]
      rw [hc, hd, bytesCompare, SV.Pattern.bcmp]
      by_cases h1 : x < y
      · have : (x : Int) < (y : Int) := by omega
        simp [h1, this]
      · have h1' : ¬ (x : Int) < (y : Int) := by omega
        by_cases h2 : y < x
        · have : (y : Int) < (x : Int) := by omega
          simp [h1, h1', h2, this]
        · have h2' : ¬ (y : Int) < (x : Int) := by omega
          simp only [if_neg h1, if_neg h1', if_neg h2, if_neg h2']
          exact ih ys

/-- **`literalSearch.Narrow`** = `Pattern.narrowLit`: the token dictionary is the model's provider (`GetToken` is an
uninterpreted parameter of the translated function, instantiated with `tp.getToken`), the interval `[first, last]`
of the code is `[first, lastP1 - 1]` of the model; TIDs are uint32 -/
theorem c13_t_literal_Narrow (tp : SV.Pattern.Provider) (first lastP1 : Nat) (value : List Nat) (nr : Bool)
    (hle : first ≤ lastP1) (h32 : lastP1 < 4294967296) :
    T.literalSearch_Narrow first ((lastP1 : Int) - 1) (ints value) nr (fun t => ints (tp.getToken t.toNat))
      = some (((SV.Pattern.narrowLit tp first lastP1 value).first : Int),
              ((SV.Pattern.narrowLit tp first lastP1 value).lastP1 : Int) - 1, true) := by
  unfold T.literalSearch_Narrow SV.Pattern.narrowLit
  have hb := c13_t_BinSearchInRange first lastP1
    (fun tid => some (decide (bytesCompare ((fun t => ints (tp.getToken t.toNat)) (wrapU32 tid)) (ints value) ≥ 0)))
    (fun tid => SV.Pattern.bcmp (tp.getToken tid) value != .lt) hle (by omega) (by
      intro k _ hk
      have hw : wrapU32 (k : Int) = (k : Int) := by unfold wrapU32; omega
      simp only [hw, Int.toNat_natCast, c13_t_bytesCompare, Option.some.injEq]
      cases SV.Pattern.bcmp (tp.getToken k) value <;> simp)
  simp only [hb, Option.bind_some]
  have hbd : first ≤ SV.Pattern.binSearch first lastP1 (fun tid => SV.Pattern.bcmp (tp.getToken tid) value != .lt)
      ∧ SV.Pattern.binSearch first lastP1 (fun tid => SV.Pattern.bcmp (tp.getToken tid) value != .lt) ≤ lastP1 := by
    unfold SV.Pattern.binSearch
    have := SV.searchGo_bounds (fun i => (fun tid => SV.Pattern.bcmp (tp.getToken tid) value != .lt) (first + i)) 0 (lastP1 - first) (by omega)
    omega
  generalize SV.Pattern.binSearch first lastP1 (fun tid => SV.Pattern.bcmp (tp.getToken tid) value != .lt) = f' at *
  have hw : wrapU32 (f' : Int) = (f' : Int) := by unfold wrapU32; omega
  have hw2 : wrapI64 ((f' : Int) - 1) = (f' : Int) - 1 := by unfold wrapI64; omega
  have hle' : ((f' : Int) ≤ (lastP1 : Int) - 1) ↔ f' < lastP1 := by omega
  simp only [hw, Int.toNat_natCast, bytesEqual_ints, hle', hw2, decide_eq_true_eq]
  by_cases hc : f' < lastP1 ∧ tp.getToken f' = value
  · have hc' : (f' < lastP1 ∧ (tp.getToken f' == value) = true) := ⟨hc.1, by simp [hc.2]⟩
    simp only [if_pos hc, if_pos hc']
    simp
  · have hc' : ¬ (f' < lastP1 ∧ (tp.getToken f' == value) = true) := by
      intro h; apply hc; exact ⟨h.1, by simpa using h.2⟩
    simp only [if_neg hc, if_neg hc']

/-- **`wildcardSearch.Narrow`** = `Pattern.narrowWild`: two binary searches on the prefix-cut tokens -/
theorem c13_t_wildcard_Narrow (tp : SV.Pattern.Provider) (first lastP1 : Nat) (w : SV.Pattern.Wild) (nr : Bool)
    (hle : first ≤ lastP1) (h32 : lastP1 < 4294967296) :
    T.wildcardSearch_Narrow first ((lastP1 : Int) - 1) (ints w.pre) nr (fun t => ints (tp.getToken t.toNat))
      = some (((SV.Pattern.narrowWild tp first lastP1 w).first : Int),
              ((SV.Pattern.narrowWild tp first lastP1 w).lastP1 : Int) - 1, true) := by
  unfold T.wildcardSearch_Narrow SV.Pattern.narrowWild
  rw [len_ints]
  have hcutk : ∀ k : Nat, k < lastP1 →
      T.cut ((fun t => ints (tp.getToken t.toNat)) (wrapU32 (k : Int))) (w.pre.length : Int)
        = some (ints (SV.Pattern.cut (tp.getToken k) w.pre.length)) := by
    intro k hk
    have hw : wrapU32 (k : Int) = (k : Int) := by unfold wrapU32; omega
    simp only [hw, Int.toNat_natCast, c13_t_cut]
  have hb1 := c13_t_BinSearchInRange first lastP1
    (fun tid => (T.cut ((fun t => ints (tp.getToken t.toNat)) (wrapU32 tid)) (w.pre.length : Int)).bind fun v0 =>
      some (decide (bytesCompare v0 (ints w.pre) ≥ 0)))
    (fun tid => SV.Pattern.bcmp (SV.Pattern.cut (tp.getToken tid) w.pre.length) w.pre != .lt) hle (by omega) (by
      intro k _ hk
      simp only [hcutk k hk, Option.bind_some, c13_t_bytesCompare, Option.some.injEq]
      cases SV.Pattern.bcmp (SV.Pattern.cut (tp.getToken k) w.pre.length) w.pre <;> simp)
  simp only [hb1, Option.bind_some]
  have hbd : first ≤ SV.Pattern.binSearch first lastP1 (fun tid => SV.Pattern.bcmp (SV.Pattern.cut (tp.getToken tid) w.pre.length) w.pre != .lt)
      ∧ SV.Pattern.binSearch first lastP1 (fun tid => SV.Pattern.bcmp (SV.Pattern.cut (tp.getToken tid) w.pre.length) w.pre != .lt) ≤ lastP1 := by
    unfold SV.Pattern.binSearch
    have := SV.searchGo_bounds (fun i => (fun tid => SV.Pattern.bcmp (SV.Pattern.cut (tp.getToken tid) w.pre.length) w.pre != .lt) (first + i)) 0 (lastP1 - first) (by omega)
    omega
  generalize SV.Pattern.binSearch first lastP1 (fun tid => SV.Pattern.bcmp (SV.Pattern.cut (tp.getToken tid) w.pre.length) w.pre != .lt) = f' at *
  have hb2 := c13_t_BinSearchInRange f' lastP1
    (fun tid => (T.cut ((fun t => ints (tp.getToken t.toNat)) (wrapU32 tid)) (w.pre.length : Int)).bind fun v2 =>
      some (decide (bytesCompare v2 (ints w.pre) > 0)))
    (fun tid => SV.Pattern.bcmp (SV.Pattern.cut (tp.getToken tid) w.pre.length) w.pre == .gt) hbd.2 (by omega) (by
      intro k _ hk
      simp only [hcutk k hk, Option.bind_some, c13_t_bytesCompare, Option.some.injEq]
      cases SV.Pattern.bcmp (SV.Pattern.cut (tp.getToken k) w.pre.length) w.pre <;> simp)
  simp only [hb2, Option.bind_some, Option.some.injEq, Prod.mk.injEq, true_and, and_true]
  have hbd2 : SV.Pattern.binSearch f' lastP1 (fun tid => SV.Pattern.bcmp (SV.Pattern.cut (tp.getToken tid) w.pre.length) w.pre == .gt) ≤ lastP1 := by
    unfold SV.Pattern.binSearch
    have := SV.searchGo_bounds (fun i => (fun tid => SV.Pattern.bcmp (SV.Pattern.cut (tp.getToken tid) w.pre.length) w.pre == .gt) (f' + i)) 0 (lastP1 - f') (by omega)
    omega
  generalize SV.Pattern.binSearch f' lastP1 (fun tid => SV.Pattern.bcmp (SV.Pattern.cut (tp.getToken tid) w.pre.length) w.pre == .gt) = l' at *
  unfold wrapI64; omega

end SV.Props.C13
