import SeqVerif.Model.KmpProof
import SeqVerif.Extracted.C13T
/-!
# C13 - the KMP model = mechanical translation of `pattern/substring.go`

`SV.Extracted.C13.T` is produced by `extract/cmd/c13t` (translator `extract/xlate`, prelude `Base/GoInt.lean`).
The `for cond {}` fall-back loop is bounded by the explicit `gas` parameter (`none` when it runs out, like a panic);
it is nested in the range loop over the text, so it is a closed function returning the new `curPrefFunc`.
The theorems say: whenever `gas` exceeds the fragment's length (and the fragment is shorter than 2^31, `int32`), the
translated `findSubstring` neither panics nor runs out of gas and returns the model's answer (`-1` for `none`).
-/
namespace SV.Props.C13
open SV.Kmp SV.Go
open SV.Extracted.C13

/-- the fall-back loop ends because its condition fails (not because the model's fuel ran out) -/
def stepDone (val pf : List Nat) (b cur : Nat) : Bool :=
  decide (fallback val pf b cur cur = 0 ∨ b = val.getD (fallback val pf b cur cur) 0)

def findLoopDone (val pf : List Nat) : List Nat → Nat → Bool
  | [], _ => true
  | b :: rest, cur =>
    stepDone val pf b cur &&
      (if kmpStep val pf b cur = val.length then true else findLoopDone val pf rest (kmpStep val pf b cur))

/-- the translated fall-back loop = `Kmp.fallback`, given the model's bounds instrumentation and enough gas -/
theorem c13_t_fallback (val pf : List Nat) (b : Nat) (S : List Int) (I : Int) (hl : val.length < 2147483648) :
    ∀ (fuel cur gas : Nat), fuel < gas → fallbackOK val pf b fuel cur = true →
      fallback val pf b fuel cur < val.length →
      (fallback val pf b fuel cur = 0 ∨ b = val.getD (fallback val pf b fuel cur) 0) →
      T.findSubstring_loop1 S (ints val) (ints pf) I b gas cur = some ((fallback val pf b fuel cur : Nat) : Int) := by
  intro fuel
  induction fuel with
  | zero =>
    intro cur gas hg _ hfin hdone
    obtain ⟨g, rfl⟩ : ∃ g, gas = g + 1 := ⟨gas - 1, by omega⟩
    simp only [fallback] at hfin hdone ⊢
    rw [T.findSubstring_loop1]
    by_cases hc : cur = 0
    · subst hc; simp
    · have hc' : (cur : Int) > 0 := by omega
      have hb : b = val[cur] := by
        rcases hdone with h | h
        · omega
        · rw [getD_of_lt _ _ _ hfin] at h; exact h
      have : ¬ ((b : Int) ≠ (val[cur] : Int)) := by omega
      simp only [if_pos hc', idx_ints _ _ hfin, Option.bind_some, if_neg this]
  | succ fuel ih =>
    intro cur gas hg hok hfin hdone
    obtain ⟨g, rfl⟩ : ∃ g, gas = g + 1 := ⟨gas - 1, by omega⟩
    rw [T.findSubstring_loop1]
    simp only [fallback, fallbackOK] at hok hfin hdone ⊢
    by_cases hc : 0 < cur
    · have hc' : (cur : Int) > 0 := by omega
      simp only [hc, if_true, Bool.and_eq_true, decide_eq_true_eq, true_and] at hok hfin hdone ⊢
      have hlt := hok.1
      rw [getD_of_lt _ _ _ hlt] at hok hfin hdone ⊢
      simp only [if_pos hc', idx_ints _ _ hlt, Option.bind_some]
      by_cases hb : b ≠ val[cur]
      · have hb' : (b : Int) ≠ (val[cur] : Int) := by omega
        simp only [hb, if_true, ne_eq, not_false_eq_true, Bool.and_eq_true, decide_eq_true_eq] at hok hfin hdone ⊢
        have hw : wrapI32 ((cur : Int) - 1) = ((cur - 1 : Nat) : Int) := by unfold wrapI32; omega
        have hp := hok.2.1
        rw [getD_of_lt _ _ _ hp] at hok hfin hdone ⊢
        simp only [if_pos hb', hw, idx_ints _ _ hp, Option.bind_some]
        exact ih _ g (by omega) hok.2.2 hfin hdone
      · have hb' : ¬ ((b : Int) ≠ (val[cur] : Int)) := by omega
        simp only [hb, if_false, if_neg hb']
    · have hc0 : cur = 0 := by omega
      subst hc0
      simp

private theorem wrapI32_succ (c n : Nat) (h : c < n) (hn : n < 2147483648) : wrapI32 ((c : Int) + 1) = ((c + 1 : Nat) : Int) := by
  unfold wrapI32; omega
private theorem wrapI32_nat (n : Nat) (hn : n < 2147483648) : wrapI32 (n : Int) = (n : Int) := by unfold wrapI32; omega
private theorem wrapI64_succ (i k : Nat) (h : i + 1 + k < 4611686018427387904) : wrapI64 ((i : Int) + 1) = ((i + 1 : Nat) : Int) := by
  unfold wrapI64; omega
private theorem len_step (i k : Nat) (h : i + (k + 1) < 4611686018427387904) : i + 1 + k < 4611686018427387904 := by omega

/-- the translated text loop = `Kmp.findLoop` -/
theorem c13_t_findLoop (val pf : List Nat) (S : List Int) (hl : val.length < 2147483648) (gas : Nat) (hg : val.length < gas) :
    ∀ (rest : List Nat) (i cur : Nat), cur < val.length → i + rest.length < 4611686018427387904 →
      findLoopOK val pf rest cur = true → findLoopDone val pf rest cur = true →
      T.findSubstring_loop0 gas S (ints val) (ints pf) (ints rest) cur i
        = some (match findLoop val pf rest i cur with | none => -1 | some e => (e : Int)) := by
  intro rest
  induction rest with
  | nil => intro i cur _ _ _ _; simp [T.findSubstring_loop0, findLoop, ints]
  | cons b rest ih =>
    intro i cur hcur hi hok hdone
    have hi' : i + 1 + rest.length < 4611686018427387904 := len_step i rest.length (by simpa using hi)
    have hwi : wrapI64 ((i : Int) + 1) = ((i + 1 : Nat) : Int) := wrapI64_succ i rest.length hi'
    have hcons : ints (b :: rest) = (b : Int) :: ints rest := by simp [ints]
    rw [hcons, T.findSubstring_loop0]
    simp only [findLoopOK, findLoopDone, kmpStepOK, stepDone, Bool.and_eq_true, decide_eq_true_eq] at hok hdone
    obtain ⟨⟨hfok, hfin⟩, hrest⟩ := hok
    obtain ⟨hd, hdrest⟩ := hdone
    rw [c13_t_fallback val pf b S i hl cur cur gas (by omega) hfok hfin hd]
    simp only [Option.bind_some, idx_ints _ _ hfin, findLoop, kmpStep] at hrest hdrest ⊢
    simp only [getD_of_lt _ _ _ hfin] at hrest hdrest ⊢
    generalize hc : fallback val pf b cur cur = c at *
    have hlen : len (ints val) = (val.length : Int) := len_ints val
    have hwl : wrapI32 (val.length : Int) = (val.length : Int) := wrapI32_nat _ hl
    have hw1 : wrapI32 ((c : Int) + 1) = ((c + 1 : Nat) : Int) := wrapI32_succ c val.length hfin hl
    by_cases hb : b = val[c]
    · have hb' : (b : Int) = (val[c] : Int) := Int.natCast_inj.mpr hb
      simp only [if_pos hb, if_pos hb', hw1, hlen, hwl, hwi] at hrest hdrest ⊢
      by_cases he : c + 1 = val.length
      · have he' : ((c + 1 : Nat) : Int) = (val.length : Int) := Int.natCast_inj.mpr he
        simp only [if_pos he, if_pos he']
      · have he' : ¬ (((c + 1 : Nat) : Int) = (val.length : Int)) := fun h => he (Int.natCast_inj.mp h)
        simp only [if_neg he, if_neg he'] at hrest hdrest ⊢
        have := ih (i + 1) (c + 1) (Nat.lt_of_le_of_ne (Nat.succ_le_of_lt hfin) he) hi' hrest hdrest
        simp only [Int.natCast_add, Int.natCast_one] at this ⊢
        exact this
    · have hb' : ¬ ((b : Int) = (val[c] : Int)) := fun h => hb (Int.natCast_inj.mp h)
      simp only [if_neg hb, if_neg hb', hlen, hwl, hwi] at hrest hdrest ⊢
      have he : ¬ (c = val.length) := Nat.ne_of_lt hfin
      have he' : ¬ ((c : Int) = (val.length : Int)) := fun h => he (Int.natCast_inj.mp h)
      simp only [if_neg he, if_neg he'] at hrest hdrest ⊢
      have := ih (i + 1) c hfin hi' hrest hdrest
      simp only [Int.natCast_add, Int.natCast_one] at this ⊢
      exact this

/-- the fall-back loops of a search with a proper prefix-function table end by their condition -/
theorem c13_t_findLoop_done (p pf : List Nat) (hpf : PfOK p pf p.length) (hpl : p.length ≤ pf.length) :
    ∀ (rest done : List Nat) (cur : Nat), IsMax p done cur → cur < p.length → findLoopDone p pf rest cur = true := by
  intro rest
  induction rest with
  | nil => intro _ _ _ _; rfl
  | cons b rest ih =>
    intro done cur hmax hcl
    obtain ⟨_, _, r3, _, _⟩ := fallback_spec p pf done b p.length hpf hpl cur cur (Nat.le_refl _) hmax.1 hcl (by omega)
      (fun k hk hck _ => by have := hmax.2 k hk; omega)
    have hs := (kmpStep_spec p pf done b p.length cur hpf hpl hmax hcl (by omega)).1
    simp only [findLoopDone, stepDone, Bool.and_eq_true, decide_eq_true_eq]
    refine ⟨?_, ?_⟩
    · rcases r3 with h | h
      · exact Or.inl h
      · exact Or.inr h.symm
    · split
      · rfl
      · rename_i hne
        have hle : kmpStep p pf b cur ≤ p.length := hs.1.1.1
        exact ih (done ++ [b]) _ hs.1 (by omega)

/-- **`findSubstring`** for every non-empty fragment `p` shorter than 2^31 with its prefix function, every text
`s` (shorter than 2^62) and any `gas > len(p)`: no panic, no exhaustion, the model's result (`-1` = not found) -/
theorem c13_t_findSubstring (p s : List Nat) (hp : p ≠ []) (hl : p.length < 2147483648)
    (hs : s.length < 4611686018427387904) (gas : Nat) (hg : p.length < gas) :
    T.findSubstring gas (ints s) (ints p) (ints (calcPrefFunc p))
      = some (match Kmp.findSubstring s ⟨p, calcPrefFunc p⟩ with | none => -1 | some e => (e : Int)) := by
  have hall := calcPrefFunc_all p hp
  have hpos : 0 < p.length := List.length_pos_iff.mpr hp
  have hok := (kmp_in_range p hp).2 s
  have hdone := c13_t_findLoop_done p (calcPrefFunc p) hall.1 (by rw [hall.2.1]; exact Nat.le_refl _) s [] 0 (IsMax_nil p) hpos
  have := c13_t_findLoop p (calcPrefFunc p) (ints s) hl gas hg s 0 0 hpos (by omega) hok hdone
  unfold T.findSubstring Kmp.findSubstring
  simpa using this

/-- a fragment as `newSubstringPattern` builds it: non-empty, shorter than 2^31, with its prefix function -/
def PatOK (t : SubPat) : Prop := t.val ≠ [] ∧ t.val.length < 2147483648 ∧ t.pf = calcPrefFunc t.val

private theorem find_le (s : List Nat) (t : SubPat) (ht : PatOK t) (e : Nat) (h : Kmp.findSubstring s t = some e) :
    e ≤ s.length := by
  obtain ⟨hne, _, hpf⟩ := ht
  have ht' : t = ⟨t.val, calcPrefFunc t.val⟩ := by cases t; simp_all
  rw [ht', kmp_first_occurrence _ s hne] at h
  obtain ⟨⟨x, hx, he⟩, _⟩ := Greedy.findEnd_some t.val s e h
  have := congrArg List.length hx
  simp only [List.length_append] at this
  omega

private theorem wrapI64_succ' (c n : Nat) (h : c < n) (hn : n < 4611686018427387904) : wrapI64 ((c : Int) + 1) = ((c + 1 : Nat) : Int) := by
  unfold wrapI64; omega

/-- the loop of `findSequence` = `Kmp.findSequence` on the remaining fragments -/
theorem c13_t_findSequence_loop (pats : List SubPat) (hp : ∀ t, t ∈ pats → PatOK t) (gas : Nat)
    (hg : ∀ t, t ∈ pats → t.val.length < gas) (hn : pats.length < 4611686018427387904) :
    ∀ (fuel cur : Nat) (s : List Nat), cur + fuel = pats.length → s.length < 4611686018427387904 →
      T.findSequence_loop0 gas pats (fun t => ints t.pf) (fun t => ints t.val) fuel (ints s) cur
        = some ((cur + Kmp.findSequence s (pats.drop cur) : Nat) : Int) := by
  intro fuel
  induction fuel with
  | zero =>
    intro cur s hc _
    have : pats.drop cur = [] := List.drop_of_length_le (by omega)
    rw [T.findSequence_loop0, this]
    have hz : Kmp.findSequence s [] = 0 := by cases s <;> rfl
    simp only [len, hz]
    congr 1; omega
  | succ fuel ih =>
    intro cur s hc hs
    have hlt : cur < pats.length := by omega
    have hlt' : (cur : Int) < len pats := by unfold len; omega
    have hd : pats.drop cur = pats[cur] :: pats.drop (cur + 1) := (List.drop_eq_getElem_cons hlt)
    have hok := hp _ (List.getElem_mem hlt)
    have hgas := hg _ (List.getElem_mem hlt)
    obtain ⟨hne, hl31, hpf⟩ := hok
    rw [T.findSequence_loop0, hd]
    simp only [if_pos hlt', idx_natCast, List.getElem?_eq_getElem hlt, Option.bind_some, hpf]
    rw [c13_t_findSubstring _ s hne hl31 hs gas hgas]
    have ht' : pats[cur] = ⟨pats[cur].val, calcPrefFunc pats[cur].val⟩ := by
      cases h : pats[cur]; rw [h] at hpf; simp_all
    simp only [Option.bind_some]
    cases hf : Kmp.findSubstring s ⟨pats[cur].val, calcPrefFunc pats[cur].val⟩ with
    | none =>
      have hm : Kmp.findSequence s (pats[cur] :: pats.drop (cur + 1)) = 0 := by
        rw [ht']; cases s <;> simp [Kmp.findSequence, hf]
      simp only [hm, if_true, Nat.add_zero]
    | some e =>
      have hle : e ≤ s.length := find_le s ⟨pats[cur].val, calcPrefFunc pats[cur].val⟩ ⟨hne, hl31, rfl⟩ e hf
      have hne1 : ¬ ((e : Int) = -1) := by omega
      have hls : len (ints s) = (s.length : Int) := len_ints s
      have g : ¬ ¬ ((0 : Int) ≤ (e : Int) ∧ (e : Int) ≤ len (ints s) ∧ len (ints s) ≤ len (ints s)) := by
        rw [hls]; omega
      have hsl : slice (ints s) (e : Int) (len (ints s)) = ints (s.drop e) := by
        rw [hls, slice_ints]; simp
      have hw := wrapI64_succ' cur pats.length hlt hn
      have hm : Kmp.findSequence s (pats[cur] :: pats.drop (cur + 1)) = 1 + Kmp.findSequence (s.drop e) (pats.drop (cur + 1)) := by
        rw [ht']; cases s <;> simp [Kmp.findSequence, hf]
      simp only [if_neg hne1, if_neg g, hsl, hw, hm]
      rw [ih (cur + 1) (s.drop e) (by omega) (by simp; omega), Nat.add_assoc]

/-- **`findSequence`**: for fragments built by `newSubstringPattern`, any text below 2^62 bytes and `gas` above every
fragment's length: no panic, and the number of fragments found is the model's -/
theorem c13_t_findSequence (pats : List SubPat) (s : List Nat) (hp : ∀ t, t ∈ pats → PatOK t) (gas : Nat)
    (hg : ∀ t, t ∈ pats → t.val.length < gas) (hn : pats.length < 4611686018427387904)
    (hs : s.length < 4611686018427387904) :
    T.findSequence gas (ints s) pats (fun t => ints t.pf) (fun t => ints t.val) = some (Kmp.findSequence s pats : Int) := by
  unfold T.findSequence
  have := c13_t_findSequence_loop pats hp gas hg hn pats.length 0 s (by omega) hs
  simpa [len] using this

end SV.Props.C13
