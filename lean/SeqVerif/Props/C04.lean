import SeqVerif.Model.Chunking
import SeqVerif.Model.FetchIDs
import SeqVerif.Extracted.C04
/-!
# C04 - fetch returns each stored document verbatim; unknown IDs are just "not found"

Only property theorems, extracted-fact obligations and non-vacuity examples live in this file.
The model follows the code *with the two repairs of /verif/fixes/C04-*.patch*; the historical definitions
(`calcChunkSize`, `findLIDs` as first written) are kept together with the witnesses that refute the property on them.
-/
namespace SV.Props.C04
open SV SV.Fetch SV.Chunking

/-- **every chunk size is at least one** (`docsStream.calcChunkSize`, for every `MaxFetchSizeBytes`, every batch of
found / not-found entries and every previous size >= 1): the background loader never divides by zero and never
asks for an empty chunk. -/
theorem c04_calcChunkSize_pos (maxFetch : Nat) (lens : List Nat) (prev : Nat) (hp : 1 ≤ prev) :
    1 ≤ calcFixed maxFetch lens prev := calcFixed_pos maxFetch lens prev hp

/-- historical witness: before the repair, two absent IDs next to a 2-byte document divide by zero -/
theorem c04_calcChunkSize_old_div_zero : calcChunkSize 4194304 [2, 0, 0] 1000 = none := by decide
/-- historical witness: before the repair, an average above `MaxFetchSizeBytes` gives an empty next chunk -/
theorem c04_calcChunkSize_old_zero : calcChunkSize 4194304 [5242880] 1000 = some 0 := by decide

/-- **the ID lookup of a sealed fraction never probes past the ID table** and returns, for IDs in any order,
present or absent, the LID holding the ID or 0. -/
theorem c04_findLIDs_in_table (t : List ID) (hd : Desc t) (hne : 2 ≤ t.length) (ids : List ID) :
    findLIDsFixed t ids = some (ids.map (lidOf t)) := findLIDsFixed_spec t hd hne ids

/-- historical: the loop as first written is correct exactly when no ID is below every stored ID ... -/
theorem c04_findLIDs_old_partial (t : List ID) (hd : Desc t) (hne : 2 ≤ t.length) (ids : List ID)
    (hc : ∀ id, id ∈ ids → Covered t id) : findLIDs t ids = some (ids.map (lidOf t)) :=
  findLIDs_spec t hd hne ids hc
/-- ... and panics (`GetMID(IDsTotal)`) as soon as one is -/
theorem c04_findLIDs_old_panics (t : List ID) (hd : Desc t) (hne : 2 ≤ t.length) (ids : List ID)
    (hc : ∃ id, id ∈ ids ∧ ¬ Covered t id) : findLIDs t ids = none := findLIDs_panics t hd hne ids hc
/-- historical witness: table [system, 5:9, 5:7], absent ID 5:3 (same timestamp as the fraction's `From`) -/
theorem c04_findLIDs_old_witness :
    findLIDs [⟨18446744073709551615, 18446744073709551615⟩, ⟨5, 9⟩, ⟨5, 7⟩] [⟨5, 9⟩, ⟨5, 3⟩] = none := by decide

/-! ## Obligations on facts re-extracted from /repo on every run -/
open SV.Extracted.C04

/-- `calcChunkSize` has the shape `calcFixed` models: sum, early return, guarded average, guarded quotient -/
theorem c04_x_calc_shape :
    calcChunkSizeStmts = ["batchSize := 0", "for doc := range docs { batchSize += len(doc) }",
      "if batchSize == 0 { return prevChunkSize }", "avgDocSize := max(1, batchSize/len(docs))",
      "newChunkSize := max(1, conf.MaxFetchSizeBytes/avgDocSize)", "return newChunkSize"] := by decide

/-- the first chunk size is at least one, so every chunk size is (`c04_calcChunkSize_pos`) -/
theorem c04_x_init_chunk_pos : 1 ≤ initChunkSize ∧ 1 ≤ maxFetchSizeBytes := by decide

/-- `findLIDs` has the shape `findLIDsFixedGo` models, in particular the guarded equality probe -/
theorem c04_x_findLIDs_shape :
    findLIDsOps = ["left := 1", "right := di.idsIndex.Len() - 1", "for i, id := range ids",
      "if i == 0 || !seq.Less(id, ids[i-1])", "left = 1",
      "lid := seq.LID(util.BinSearchInRange(left, right, func { return di.idsIndex.LessOrEqual(seq.LID(lid), id) }))",
      "if int(lid) <= right && id.MID == di.idsIndex.GetMID(lid) && id.RID == di.idsIndex.GetRID(lid)",
      "res[i] = lid", "left = int(lid)"] := by decide

/-! ## Non-vacuity -/

example : Desc [⟨100, 100⟩, ⟨5, 9⟩, ⟨5, 7⟩, ⟨3, 3⟩] := by decide
example : findLIDsFixed [⟨100, 100⟩, ⟨5, 9⟩, ⟨5, 7⟩, ⟨3, 3⟩] [⟨5, 7⟩, ⟨5, 8⟩, ⟨3, 2⟩, ⟨9, 9⟩] = some [2, 0, 0, 0] := by decide
example : Covered [⟨100, 100⟩, ⟨5, 9⟩, ⟨5, 7⟩] ⟨5, 8⟩ ∧ ¬ Covered [⟨100, 100⟩, ⟨5, 9⟩, ⟨5, 7⟩] ⟨5, 3⟩ := by decide
example : calcFixed 4194304 [2, 0, 0] 1000 = 4194304 ∧ calcFixed 4194304 [5242880] 1000 = 1 := by decide

end SV.Props.C04
