import SeqVerif.Model.IDString
import SeqVerif.Model.Chunking
import SeqVerif.Model.FetchIDs
import SeqVerif.Model.FetchIndex
import SeqVerif.Model.FetchDocs
import SeqVerif.Model.FetchDocsSpec
import SeqVerif.Model.FetchFracs
import SeqVerif.Model.FetchStream
import SeqVerif.Model.FetchBytes
import SeqVerif.Model.FetchActive
import SeqVerif.Model.FetchRange
import SeqVerif.Extracted.C04
/-!
# C04 - fetch returns each stored document verbatim; unknown IDs are just "not found"

Model (all in `SV.Fetch`, statement by statement after the Go code):
`fetchStream` = `docsStream.batchLoader` (chunking, `calcChunkSize`) over `fetchDocs` = `Fetcher.FetchDocs`
(`sortIDs`, `groupIDsByFraction`, per-fraction `fracFetch` with panic -> error, re-ordering through `reversPos`)
over `Frac.fetch` = `DataProvider.Fetch` = `IndexFetch` (`GroupDocsOffsets`, one `ReadDocs` per block, scatter) over
`GetDocPos` = sealed: `findLIDs` (windowed binary search) + `getDocPosByLIDs`; active: the positions map.
A result is `(entries, how the stream ended)`; `crash` is the death of the process, `err` a failed request.

Spec: `specDoc fracs ⟨id, hint⟩` = the document held under `id` by the (last) fraction admissible by the hint, or
`none`.  Only property theorems, extracted-fact obligations and non-vacuity examples live in this file.
The model follows the code *with* the two repairs (commits "fix: fetch chunk sizing ..." and "fix: sealed fetch
probed past the ID table ..."); the definitions as first written are kept with the witnesses refuting them.
-/
namespace SV.Props.C04
open SV SV.Fetch SV.Chunking

variable {D : Type}

/-- **C04, one batch.**  For every list of well-formed fractions (sealed or active, any number, overlapping or
not), every non-empty request of distinct IDs in any order, with or without hints, present and absent IDs in any
proportion: `FetchDocs` succeeds and returns, position by position, exactly the document the store holds under
that ID, or the empty entry. -/
theorem c04_fetch_eq_spec (bits : Nat) (P : Frac D → ID → Nat) (fracs : List (Frac D)) (ids : List IDS)
    (hwf : ∀ f, f ∈ fracs → FracWF bits P f) (hnames : (fracs.map (·.name)).Nodup)
    (hne : ids ≠ []) (hnd : (ids.map (·.id)).Nodup) :
    fetchDocs bits fracs ids = .ok (ids.map (specDoc bits P fracs)) :=
  fetchDocs_spec bits P fracs ids hwf hnames hne hnd

/-- **C04, whole request.**  The streamed answer of the store (`batchLoader` with the adaptive chunk size over
`FetchDocs`) is the per-ID spec for the whole request, the stream ends normally: no error, no crash, for every
`MaxFetchSizeBytes`, every initial chunk size >= 1 and all document sizes. -/
theorem c04_stream_eq_spec (bits maxFetch initSize : Nat) (len : D → Nat) (P : Frac D → ID → Nat)
    (fracs : List (Frac D)) (ids : List IDS) (hinit : 1 ≤ initSize)
    (hwf : ∀ f, f ∈ fracs → FracWF bits P f) (hnames : (fracs.map (·.name)).Nodup)
    (hnd : (ids.map (·.id)).Nodup) :
    fetchStream bits maxFetch initSize len fracs ids = (ids.map (specDoc bits P fracs), .done) :=
  fetchStream_spec bits maxFetch initSize len P fracs ids hinit hwf hnames hnd

/-- **an entry depends on its own ID only**: the same request entry gets the same answer in any two requests,
whatever else they contain and wherever it stands (order, mix and proportion of absent IDs are irrelevant). -/
theorem c04_entry_local (bits maxFetch initSize : Nat) (len : D → Nat) (P : Frac D → ID → Nat)
    (fracs : List (Frac D)) (ids ids' : List IDS) (hinit : 1 ≤ initSize)
    (hwf : ∀ f, f ∈ fracs → FracWF bits P f) (hnames : (fracs.map (·.name)).Nodup)
    (hnd : (ids.map (·.id)).Nodup) (hnd' : (ids'.map (·.id)).Nodup)
    (i j : Nat) (hi : i < ids.length) (hj : j < ids'.length) (heq : ids[i] = ids'[j]) :
    (fetchStream bits maxFetch initSize len fracs ids).1[i]? =
      (fetchStream bits maxFetch initSize len fracs ids').1[j]? := by
  rw [c04_stream_eq_spec bits maxFetch initSize len P fracs ids hinit hwf hnames hnd,
    c04_stream_eq_spec bits maxFetch initSize len P fracs ids' hinit hwf hnames hnd']
  simp [hi, hj, heq]

/-- **an ID no admissible fraction holds is just "not found"** -/
theorem c04_absent_not_found (bits : Nat) (P : Frac D → ID → Nat) (fracs : List (Frac D)) (s : IDS)
    (h : ∀ f, f ∈ fracs → hintOK s f = true → holds bits P f s.id = none) : specDoc bits P fracs s = none := by
  induction fracs with
  | nil => rfl
  | cons f t ih =>
    rw [specDoc, ih (fun x hx => h x (by simp [hx]))]
    by_cases hh : hintOK s f = true
    · simp [hh, h f (by simp) hh]
    · simp [hh]

/-- **a stored ID is found**: when exactly one admissible fraction holds the ID the entry is its document -/
theorem c04_present_found (bits : Nat) (P : Frac D → ID → Nat) (pre post : List (Frac D)) (f : Frac D) (s : IDS)
    (d : D) (hh : hintOK s f = true) (hd : holds bits P f s.id = some d)
    (hpost : ∀ g, g ∈ post → hintOK s g = true → holds bits P g s.id = none) :
    specDoc bits P (pre ++ f :: post) s = some d := by
  induction pre with
  | nil =>
    rw [List.nil_append, specDoc, c04_absent_not_found bits P post s hpost]
    simp [hh, hd]
  | cons g t ih => rw [List.cons_append, specDoc, ih]; rfl

/-- **chunking is transparent** for any chunk-size function whose values are at least one -/
theorem c04_chunking_transparent {I : Type} (fetch : List I → Res (List (Option D)))
    (csize : List Nat → Nat → Option Nat) (len : D → Nat) (g : I → Option D) (Q : List I → Prop)
    (hQtake : ∀ l n, Q l → Q (l.take n)) (hQdrop : ∀ l n, Q l → Q (l.drop n))
    (hfetch : ∀ c, c ≠ [] → Q c → fetch c = .ok (c.map g))
    (hcalc : ∀ l s, 1 ≤ s → ∃ n, 1 ≤ n ∧ csize l s = some n)
    (fuel : Nat) (ids : List I) (size : Nat) (hs : 1 ≤ size) (hf : ids.length ≤ fuel) (hq : Q ids) :
    batchLoader fetch csize len fuel ids size = (ids.map g, .done) :=
  batchLoader_transparent fetch csize len g Q hQtake hQdrop hfetch hcalc fuel ids size hs hf hq

/-- **every chunk size is at least one** (`docsStream.calcChunkSize`, for every `MaxFetchSizeBytes`, every batch
of found / not-found entries and every previous size >= 1): the loader never divides by zero and never asks for
an empty chunk. -/
theorem c04_calcChunkSize_pos (maxFetch : Nat) (lens : List Nat) (prev : Nat) (hp : 1 ≤ prev) :
    1 ≤ calcFixed maxFetch lens prev := calcFixed_pos maxFetch lens prev hp

/-- **the ID lookup of a sealed fraction never probes past the ID table** and returns, for IDs in any order,
present or absent, the LID holding the ID or 0. -/
theorem c04_findLIDs_in_table (t : List ID) (hd : Desc t) (hne : 2 ≤ t.length) (ids : List ID) :
    findLIDsFixed t ids = some (ids.map (lidOf t)) := findLIDsFixed_spec t hd hne ids

/-- `IndexFetch` (grouping by block, one read per block, scatter) is the position-wise map -/
theorem c04_indexFetch_eq_map (bits : Nat) (readDoc : Nat → Nat → D) (ps : List Nat) :
    indexFetch bits readDoc ps = ps.map (posDoc bits readDoc) := indexFetch_spec bits readDoc ps

/-- **reading the requested documents of one block in steps changes nothing**: for every step size >= 1 the stepwise
read (each step stores every document at the destination that belongs to its offset) equals the single read of
`IndexFetch`; so any batched implementation must advance offsets and destinations together -/
theorem c04_block_read_batching_independent (readDoc : Nat → Nat → D) (n : Nat) (hn : 1 ≤ n) (res : List (Option D))
    (g : Group) : scatterGroupBatched readDoc n res g = scatterGroup readDoc res g :=
  scatterGroupBatched_eq readDoc n hn res g

/-- a sealed fraction (strictly descending ID table behind the system ID, range filters accepting its own IDs)
satisfies the hypotheses of the theorems above -/
theorem c04_sealed_wf (bits : Nat) (P : Frac D → ID → Nat) (name : Nat) (contains : Nat → Bool)
    (intersects : Nat → Nat → Bool) (t : List ID) (pos : List Nat) (readDoc : Nat → Nat → D)
    (hd : Desc t) (hne : 2 ≤ t.length)
    (hP : P (sealedFrac name contains intersects t pos readDoc) = sealedPosOf t pos)
    (hc : ∀ id, lidOf t id ≠ 0 → contains id.mid = true)
    (hi : ∀ id lo hi, lidOf t id ≠ 0 → lo ≤ id.mid → id.mid ≤ hi → intersects lo hi = true) :
    FracWF bits P (sealedFrac name contains intersects t pos readDoc) :=
  sealedFrac_wf bits P name contains intersects t pos readDoc hd hne hP hc hi

/-- so does an active fraction (positions map) -/
theorem c04_active_wf (bits : Nat) (P : Frac D → ID → Nat) (name : Nat) (contains : Nat → Bool)
    (intersects : Nat → Nat → Bool) (m : List (ID × Nat)) (readDoc : Nat → Nat → D)
    (hP : P (activeFrac name contains intersects m readDoc) = mapGet m)
    (hc : ∀ id, mapGet m id ≠ notFound → contains id.mid = true)
    (hi : ∀ id lo hi, mapGet m id ≠ notFound → lo ≤ id.mid → id.mid ≤ hi → intersects lo hi = true) :
    FracWF bits P (activeFrac name contains intersects m readDoc) :=
  activeFrac_wf bits P name contains intersects m readDoc hP hc hi

/-- `sealedIDsIndex.LessOrEqual` with its `MinBlockIDs` short cuts and the `RID = MaxUint64` short cut is the plain
comparison with the table entry -/
theorem c04_lessOrEqual_blocks (cap : Nat) (minBlock t : List ID) (hcap : 0 < cap) (hd : Desc t)
    (hmin : MinBlocksOK cap minBlock t) (hrid : ∀ x, x ∈ t → x.rid ≤ 18446744073709551615) (lid : Nat) (id : ID) :
    lessOrEqualBlk cap minBlock t lid id = lessOrEqual t lid id :=
  lessOrEqualBlk_eq cap minBlock t hcap hd hmin hrid lid id

/-- reading a position through the per-block tables (`GetParamsBlock`) is reading the flat table -/
theorem c04_positions_by_blocks (cap : Nat) (hcap : 0 < cap) (pos : List Nat) (lid : Nat) :
    posByBlocks cap (chunkN cap pos.length pos) lid = pos.getD lid notFound :=
  posByBlocks_chunk cap hcap pos.length pos (Nat.le_refl _) lid

/-- a document laid down as `len32le ++ bytes` anywhere in a block is read back verbatim -/
theorem c04_extract_verbatim (pre d post : List Nat) (hlen : d.length < 4294967296) :
    extractDoc (pre ++ encDoc d ++ post) pre.length = d := extractDoc_enc pre d post hlen

/-! ## The active fraction, statement level (after "fix: fetch from an active fraction failed for a document whose
block landed after the provider was created") -/

/-- **active fraction, end to end on bytes**: a document laid down by a bulk (`len32le ++ bytes` at `pre.length` of
the bulk's block) under a new ID is answered verbatim by `DocsPositions.Get` + `Unpack` + `GetBlocksOffsets` +
`ReadDocs`, in every later state of the fraction and for a data provider whose copy of the block table was taken at
ANY moment (any prefix `take s` of the live table) - in particular before the bulk's block was appended. -/
theorem c04_active_fetch_verbatim (bits : Nat) (st : Active) (off : Nat) (pre d post : List Nat)
    (entries epre epost : List (ID × Nat)) (id : ID)
    (hnew : (st.positions.find? fun x => x.1 = id) = none)
    (hent : entries = epre ++ (id, pre.length) :: epost) (hfirst : ∀ x, x ∈ epre → x.1 ≠ id)
    (hlen : d.length < 4294967296) (hoff : pre.length < 2 ^ bits) (hblk : st.docBlocks.length < 4294967296)
    (hfit : st.docBlocks.length * 2 ^ bits + pre.length + 1 < 18446744073709551615)
    (st' : Active) (hext : Ext (st.append bits off (pre ++ encDoc d ++ post) entries) st') (s : Nat) :
    mapGet st'.positions id = packDocPos bits st.docBlocks.length pre.length ∧
    mapGet st'.positions id ≠ notFound ∧
    activeReadDoc (st'.docBlocks.take s) st' (unpackDocPos bits (mapGet st'.positions id)).1
      (unpackDocPos bits (mapGet st'.positions id)).2 = some d :=
  active_fetch_verbatim bits st off pre d post entries epre epost id hnew hent hfirst hlen hoff hblk hfit st' hext s

/-- the same in the vocabulary of `c04_fetch_eq_spec`: for the active fraction seen as a `Frac` (`Active.toFrac`,
positions live, provider copy `take s`), the Spec's `holds` of that ID is the ingested bytes -/
theorem c04_active_spec_is_ingested_bytes (bits : Nat) (st : Active) (off : Nat) (pre d post : List Nat)
    (entries epre epost : List (ID × Nat)) (id : ID)
    (hnew : (st.positions.find? fun x => x.1 = id) = none)
    (hent : entries = epre ++ (id, pre.length) :: epost) (hfirst : ∀ x, x ∈ epre → x.1 ≠ id)
    (hlen : d.length < 4294967296) (hoff : pre.length < 2 ^ bits) (hblk : st.docBlocks.length < 4294967296)
    (hfit : st.docBlocks.length * 2 ^ bits + pre.length + 1 < 18446744073709551615)
    (st' : Active) (hext : Ext (st.append bits off (pre ++ encDoc d ++ post) entries) st') (s name : Nat)
    (contains : Nat → Bool) (intersects : Nat → Nat → Bool) (P : Frac (List Nat) → ID → Nat)
    (hP : P (st'.toFrac s name contains intersects) = mapGet st'.positions) :
    holds bits P (st'.toFrac s name contains intersects) id = some d := by
  unfold holds
  rw [hP]
  exact active_toFrac_doc bits st off pre d post entries epre epost id hnew hent hfirst hlen hoff hblk hfit st' hext
    s name contains intersects

/-- later bulks (each at a fresh file offset) only extend the state, so the theorem above applies to every
reachable later state -/
theorem c04_active_append_extends (bits : Nat) (st : Active) (off : Nat) (payload : List Nat)
    (entries : List (ID × Nat)) (hfresh : off ∉ st.docBlocks) : Ext st (st.append bits off payload entries) :=
  Ext.append bits st off payload entries hfresh

/-- `GetBlocksOffsets` never indexes past the table for a block number below the live length, whatever the copy -/
theorem c04_active_blocks_in_table (live : List Nat) (s num : Nat) (h : num < live.length) :
    activeBlocksOffset (live.take s) live num = some live[num] := activeBlocksOffset_prefix live s num h

/-- historical: with the provider's copy alone a block appended after the copy is out of range -/
theorem c04_active_blocks_old_witness : (([10, 20] : List Nat).take 1)[1]? = none := by decide

/-- **the docs-block cache key `uint32(blockOffset)` is sound exactly when no two block offsets of one docs file
agree modulo 2^32** (true for every docs file below 4 GiB, `c04_cache_key_below_4GiB`) ... -/
theorem c04_cache_key_sound (cache : Nat → Option (List Nat)) (file : Nat → List Nat) (offsets : List Nat)
    (hfill : CacheFilledFrom cache file offsets)
    (hinj : ∀ a b, a ∈ offsets → b ∈ offsets → a % 4294967296 = b % 4294967296 → a = b)
    (off : Nat) (hoff : off ∈ offsets) : cachedRead cache file off = file off :=
  cachedRead_sound cache file offsets hfill hinj off hoff

theorem c04_cache_key_below_4GiB (offsets : List Nat) (h : ∀ o, o ∈ offsets → o < 4294967296) :
    ∀ a b, a ∈ offsets → b ∈ offsets → a % 4294967296 = b % 4294967296 → a = b :=
  offsets_below_4GiB_injective offsets h

/-- ... and unsound beyond: blocks at file offsets 0 and 4 GiB share a key, the read of the second returns the first -/
theorem c04_cache_key_collision_witness :
    cachedRead (fun k => if k = 0 then some [1] else none) (fun o => if o = 0 then [1] else [2]) 4294967296 = [1] :=
  cachedRead_collision_witness

/-- **the time range of an active fraction covers every ID it stores, also after a partly retried bulk**: `Filter`
recomputes `MinMID` / `MaxMID` over the IDs that were really appended - in whatever order the bulk lists them, one
new document or many - and `UpdateStats` widens `[From, To]` with them without uncovering anything; this is the
`contains` / `intersects` hypothesis of `FracWF` for the IDs of that bulk. -/
theorem c04_range_covers_appended (range : Nat × Nat) (ids appended : List ID) :
    (∀ i, i ∈ ids → i ∈ appended →
      (updateStats range (filterStats ids appended)).1 ≤ i.mid ∧ i.mid ≤ (updateStats range (filterStats ids appended)).2) ∧
    (∀ m, range.1 ≤ m → m ≤ range.2 →
      (updateStats range (filterStats ids appended)).1 ≤ m ∧ m ≤ (updateStats range (filterStats ids appended)).2) :=
  updateStats_covers range ids appended

theorem c04_filter_stats_cover (ids appended : List ID) (i : ID) (hi : i ∈ ids) (ha : i ∈ appended) :
    (filterStats ids appended).1 ≤ i.mid ∧ i.mid ≤ (filterStats ids appended).2 :=
  filterStats_covers ids appended i hi ha

/-! ## The definitions as first written, and why the property failed on them -/

/-- before the repair, two absent IDs next to a 2-byte document divide by zero (process dies) -/
theorem c04_calcChunkSize_old_div_zero : calcChunkSize 4194304 [2, 0, 0] 1000 = none := by decide
/-- before the repair, an average above `MaxFetchSizeBytes` gives an empty next chunk (`sortIDs` indexes `ids[0]`) -/
theorem c04_calcChunkSize_old_zero : calcChunkSize 4194304 [5242880] 1000 = some 0 := by decide
/-- and the empty chunk is a crash of `FetchDocs`, for any fractions -/
theorem c04_fetchDocs_empty_crashes (bits : Nat) (fracs : List (Frac D)) : fetchDocs bits fracs [] = .crash := rfl

/-- the loop as first written is correct exactly when no ID is below every stored ID ... -/
theorem c04_findLIDs_old_partial (t : List ID) (hd : Desc t) (hne : 2 ≤ t.length) (ids : List ID)
    (hc : ∀ id, id ∈ ids → Covered t id) : findLIDs t ids = some (ids.map (lidOf t)) :=
  findLIDs_spec t hd hne ids hc
/-- ... and panics (`GetMID(IDsTotal)`) as soon as one is -/
theorem c04_findLIDs_old_panics (t : List ID) (hd : Desc t) (hne : 2 ≤ t.length) (ids : List ID)
    (hc : ∃ id, id ∈ ids ∧ ¬ Covered t id) : findLIDs t ids = none := findLIDs_panics t hd hne ids hc
/-- witness: table [system, 5:9, 5:7], absent ID 5:3 (the fraction's oldest timestamp, smaller random part) -/
theorem c04_findLIDs_old_witness :
    findLIDs [⟨18446744073709551615, 18446744073709551615⟩, ⟨5, 9⟩, ⟨5, 7⟩] [⟨5, 9⟩, ⟨5, 3⟩] = none :=
  findLIDs_panics _ (by decide) (by decide) _ ⟨⟨5, 3⟩, by decide, by decide⟩

/-! ## Obligations on facts re-extracted from /repo on every run -/
open SV.Extracted.C04

/-- `calcChunkSize` has the shape `calcFixed` models: sum, early return, guarded average, guarded quotient -/
theorem c04_x_calc_shape :
    calcChunkSizeStmts = ["batchSize := 0", "for doc := range docs { batchSize += len(doc) }",
      "if batchSize == 0 { return prevChunkSize }", "avgDocSize := max(1, batchSize/len(docs))",
      "newChunkSize := max(1, conf.MaxFetchSizeBytes/avgDocSize)", "return newChunkSize"] := by decide

/-- the first chunk size is at least one, so every chunk size is (`c04_calcChunkSize_pos`) -/
theorem c04_x_init_chunk_pos : 1 ≤ initChunkSize ∧ 1 ≤ maxFetchSizeBytes := by decide

/-- `batchLoader` has the shape `SV.Fetch.batchLoader` models: loop while IDs remain, cut `min(len, chunkSize)`,
fetch, send the batch with its error, stop on error, recompute the size from the batch -/
theorem c04_x_batchLoader_shape :
    batchLoaderOps = ["chunkSize := initChunkSize", "for len(d.ids) > 0", "l := min(len(d.ids), chunkSize)",
      "chunk := d.ids[:l]", "d.ids = d.ids[l:]", "docs, err := d.fetcher.FetchDocs(d.ctx, d.fracs, chunk)",
      "d.out <- streamDocsBatch{docs: docs, err: err}", "if err != nil { return }",
      "chunkSize = d.calcChunkSize(docs, chunkSize)"] := by decide

/-- `findLIDs` has the shape `findLIDsFixedGo` models, in particular the guarded equality probe -/
theorem c04_x_findLIDs_shape :
    findLIDsOps = ["left := 1", "right := di.idsIndex.Len() - 1", "for i, id := range ids",
      "if i == 0 || !seq.Less(id, ids[i-1])", "left = 1",
      "lid := seq.LID(util.BinSearchInRange(left, right, func { return di.idsIndex.LessOrEqual(seq.LID(lid), id) }))",
      "if int(lid) <= right && id.MID == di.idsIndex.GetMID(lid) && id.RID == di.idsIndex.GetRID(lid)",
      "res[i] = lid", "left = int(lid)"] := by decide

/-- a panic inside one fraction's fetch is recovered into the batch error (`Res.err` in the model), and
`FetchDocs` groups, fetches, then arranges -/
theorem c04_x_fetch_structure :
    fracFetchRecovers = true ∧ fetchDocsCalls = ["groupIDsByFraction", "f.fetchDocsAsync", "make"] := by decide

/-- **the fraction list handed to `FetchDocs` is never modified**: the batch loader passes the SAME list `d.fracs` to
every chunk (`c04_x_batchLoader_shape`); `groupIDsByFraction` compacts candidates in place, but only inside the list
`FilterInRange` returned, and `FilterInRange` always builds a fresh list (`make`, never the receiver or a reslice of
it).  This is what lets `fetchStream` (`c04_stream_eq_spec`) use one immutable `fracs` for all chunks. -/
theorem c04_x_fraction_list_not_mutated :
    filterInRangeStmts = ["res := make(List, 0)",
      "for f := range l { if f.IsIntersecting(from, to) { res = append(res, f) } }", "return res"] ∧
    groupIDsListWrites = ["fracsOut := fracsIn.FilterInRange(minMID, maxMID)", "fracsOut[l] = f",
      "return fracsOut[:l], idsByFracs"] := by decide

/-- `sortIDs` sorts a copy of the request and takes the time range from the two ends of the SORTED list, as
`SV.Fetch.sortIDs` does (`sortIDs_spec`: the range covers every requested ID) -/
theorem c04_x_sortIDs_shape :
    sortIDsStmts = ["last := len(idsOrig) - 1", "ids := append(seq.IDSources{}, idsOrig...)",
      "if seq.Less(ids[0].ID, ids[last].ID)", "sort.Sort(ids)", "return ids, ids[0].ID.MID, ids[last].ID.MID",
      "sort.Sort(sort.Reverse(ids))", "return ids, ids[last].ID.MID, ids[0].ID.MID"] := by decide

/-- `Filter` compares every appended ID with the minimum AND with the maximum (two independent `if`s), and
`UpdateStats` widens both ends - the shape `filterStats` / `updateStats` model -/
theorem c04_x_range_update_shape :
    filterMinMaxStmts = ["if id.MID < c.MinMID { c.MinMID = id.MID }", "if id.MID > c.MaxMID { c.MaxMID = id.MID }"] ∧
    updateStatsStmts = ["if f.info.From > minMID { f.info.From = minMID }", "if f.info.To < maxMID { f.info.To = maxMID }"] := by
  decide

/-- the pooled field filter carries no state from one fetch to the next: `acquire` overwrites the request's filter
unconditionally and `release` clears it (a fetch without `FieldsFilter` answers the stored bytes) -/
theorem c04_x_filter_state_per_request :
    acquireFilterStmts = ["dp := docFieldsFilterPool.Get().(*docFieldsFilter)",
      "if dp.decoder == nil { dp.decoder = insaneJSON.Spawn() }", "dp.filter = filter", "return dp"] ∧
    releaseFilterStmts = ["dp.filter = nil", "docFieldsFilterPool.Put(dp)"] := by decide

/-- `IndexFetch` reads every block with ONE `ReadDocs` over all its requested offsets and stores `docs[src]` at
`index[i][src]` - the loop `scatterGroup` models -/
theorem c04_x_indexFetch_loop :
    indexFetchLoop = ["for i, docOffsets := range offsets",
      "docs, err := fetchIndex.ReadDocs(fetchIndex.GetBlocksOffsets(blocks[i]), docOffsets)", "if err != nil { return err }",
      "for src, dst := range index[i] { res[dst] = docs[src] }"] := by decide

/-- support code the fetch depends on after a restart.  (1) `ActiveWriter.Write` writes the docs block and the meta
block of a bulk under one lock, so docs offsets and meta blocks come in the same order - `Active.Replay` recomputes
the docs offsets in meta order, and `c04_active_fetch_verbatim` needs the recorded positions to point at the bulk's
own block.  (2) When the sorted docs and the index of a fraction exist, the loader removes a leftover `.meta` AND a
leftover unsorted `.docs` before it loads the fraction as sealed (the sealed fraction's positions refer to `.sdocs`). -/
theorem c04_x_restart_support :
    activeWriterLocks = ["a.mu.Lock()", "defer a.mu.Unlock()"] ∧
    loaderRemovals = ["info.hasSdocs && info.hasIndex && info.hasMeta: removeFile(info.base + consts.MetaFileSuffix)",
      "info.hasSdocs && info.hasIndex && info.hasDocs: removeFile(info.base + consts.DocsFileSuffix)"] := by decide

/-- position packing at the extracted `docOffsetBits`: every (block, offset) the writer can produce is read back,
and never collides with `DocPosNotFound` -/
theorem c04_x_docpos_roundtrip (block off : Nat) (ho : off < 2 ^ docOffsetBits) (hb : block < 4294967296) :
    unpackDocPos docOffsetBits (packDocPos docOffsetBits block off) = (block, off) ∧
      packDocPos docOffsetBits block off ≠ docPosNotFound := by
  have hbits : docOffsetBits = 30 := rfl
  rw [hbits] at ho ⊢
  have h30 : (2 : Nat) ^ 30 = 1073741824 := by decide
  rw [h30] at ho
  refine ⟨unpack_pack 30 block off (by rw [h30]; exact ho) hb (by rw [h30]; omega), ?_⟩
  have := pack_ne_notFound 30 block off (by rw [h30]; omega)
  exact this

/-! ## Non-vacuity: two concrete fractions satisfy the hypotheses, the theorems compute their answers -/

section Example
/-- sealed fraction 1: table [system, 5:9, 5:7, 3:3], positions by LID; active fraction 2: map {6:6, 7:1} -/
def exT : List ID := [⟨100, 100⟩, ⟨5, 9⟩, ⟨5, 7⟩, ⟨3, 3⟩]
def exPos : List Nat := [0, packDocPos 30 0 0, packDocPos 30 0 40, packDocPos 30 1 8]
def exMap : List (ID × Nat) := [(⟨6, 6⟩, packDocPos 30 0 4), (⟨7, 1⟩, packDocPos 30 2 0)]
def exF1 : Frac (Nat × Nat × Nat) :=
  sealedFrac 1 (fun m => 3 ≤ m ∧ m ≤ 5) (fun lo hi => lo ≤ 5 ∧ 3 ≤ hi) exT exPos (fun b o => (1, b, o))
def exF2 : Frac (Nat × Nat × Nat) :=
  activeFrac 2 (fun m => 6 ≤ m ∧ m ≤ 7) (fun lo hi => lo ≤ 7 ∧ 6 ≤ hi) exMap (fun b o => (2, b, o))
def exP (f : Frac (Nat × Nat × Nat)) : ID → Nat := if f.name = 1 then sealedPosOf exT exPos else mapGet exMap

/-- non-vacuity of `c04_sealed_wf` -/
theorem c04_example_sealed_wf : FracWF 30 exP exF1 := by
  apply c04_sealed_wf 30 exP 1 _ _ exT exPos _ (by decide) (by decide) (by rfl)
  · intro id h
    have := lidOf_mem exT id h
    simp only [exT, List.mem_cons, List.not_mem_nil, or_false] at this
    rcases this with rfl | rfl | rfl | rfl
    · exact absurd (by decide) h
    all_goals decide
  · intro id lo hi h h1 h2
    have := lidOf_mem exT id h
    simp only [exT, List.mem_cons, List.not_mem_nil, or_false] at this
    rcases this with rfl | rfl | rfl | rfl
    · exact absurd (by decide) h
    all_goals (simp at h1 h2 ⊢; omega)

/-- non-vacuity of `c04_active_wf` -/
theorem c04_example_active_wf : FracWF 30 exP exF2 := by
  apply c04_active_wf 30 exP 2 _ _ exMap _ (by rfl)
  · intro id h
    have := mapGet_mem exMap id h
    simp only [exMap, List.map_cons, List.map_nil, List.mem_cons, List.not_mem_nil, or_false] at this
    rcases this with rfl | rfl <;> decide
  · intro id lo hi h h1 h2
    have := mapGet_mem exMap id h
    simp only [exMap, List.map_cons, List.map_nil, List.mem_cons, List.not_mem_nil, or_false] at this
    rcases this with rfl | rfl <;> (simp at h1 h2 ⊢; omega)

/-- a request mixing present IDs, an absent ID below everything in fraction 1 (the old crash input), a hinted ID
and an absent one above everything: streamed in chunks of size 2 -/
example :
    fetchStream 30 4194304 2 (fun _ => 2) [exF1, exF2]
      [⟨⟨5, 7⟩, none⟩, ⟨⟨3, 2⟩, none⟩, ⟨⟨7, 1⟩, some 2⟩, ⟨⟨9, 9⟩, none⟩, ⟨⟨3, 3⟩, some 1⟩] =
    ([some (1, 0, 40), none, some (2, 2, 0), none, some (1, 1, 8)], .done) := by
  rw [c04_stream_eq_spec 30 4194304 2 _ exP [exF1, exF2] _ (by decide)
    (by intro f hf; simp only [List.mem_cons, List.not_mem_nil, or_false] at hf; rcases hf with rfl | rfl
        · exact c04_example_sealed_wf
        · exact c04_example_active_wf)
    (by decide) (by decide)]
  decide
end Example

/-- an empty active fraction, a bulk of two documents, a second bulk, a provider copy taken before everything -/
example :
    let st0 : Active := ⟨[], [], fun _ => []⟩
    let st1 := st0.append 30 0 ([] ++ encDoc [97, 98] ++ encDoc [99]) [(⟨7, 1⟩, 0), (⟨7, 2⟩, 6)]
    let st2 := st1.append 30 11 (encDoc [100]) [(⟨8, 1⟩, 0)]
    activeReadDoc (st2.docBlocks.take 0) st2 (unpackDocPos 30 (mapGet st2.positions ⟨7, 1⟩)).1
      (unpackDocPos 30 (mapGet st2.positions ⟨7, 1⟩)).2 = some [97, 98] := by
  intro st0 st1 st2
  exact (c04_active_fetch_verbatim 30 st0 0 [] [97, 98] (encDoc [99]) [(⟨7, 1⟩, 0), (⟨7, 2⟩, 6)] [] [(⟨7, 2⟩, 6)] ⟨7, 1⟩
    rfl rfl (by simp) (by decide) (by decide) (by decide) (by decide) st2
    (c04_active_append_extends 30 st1 11 (encDoc [100]) [(⟨8, 1⟩, 0)] (by decide)) 0).2.2

/-- a retried bulk [9:1 (new), 8:1 (new), 5:1 (already stored)], newest first: the range is raised to 9 -/
example : filterStats [⟨9, 1⟩, ⟨8, 1⟩, ⟨5, 1⟩] [⟨9, 1⟩, ⟨8, 1⟩] = (8, 9) ∧ updateStats (3, 5) (8, 9) = (3, 9) := by decide

example : Desc [⟨100, 100⟩, ⟨5, 9⟩, ⟨5, 7⟩, ⟨3, 3⟩] := by decide
example : findLIDsFixed [⟨100, 100⟩, ⟨5, 9⟩, ⟨5, 7⟩, ⟨3, 3⟩] [⟨5, 7⟩, ⟨5, 8⟩, ⟨3, 2⟩, ⟨9, 9⟩] = some [2, 0, 0, 0] := by
  rw [c04_findLIDs_in_table _ (by decide) (by decide)]; decide
example : Covered [⟨100, 100⟩, ⟨5, 9⟩, ⟨5, 7⟩] ⟨5, 8⟩ ∧ ¬ Covered [⟨100, 100⟩, ⟨5, 9⟩, ⟨5, 7⟩] ⟨5, 3⟩ := by decide
example : calcFixed 4194304 [2, 0, 0] 1000 = 4194304 ∧ calcFixed 4194304 [5242880] 1000 = 1 := by decide
example : MinBlocksOK 2 [⟨5, 9⟩, ⟨3, 3⟩] [⟨100, 100⟩, ⟨5, 9⟩, ⟨5, 7⟩, ⟨3, 3⟩] := by
  intro b hb
  have : b = 0 ∨ b = 1 := by simp at hb; omega
  rcases this with rfl | rfl <;> decide
example : extractDoc ([9, 9] ++ encDoc [97, 98, 99] ++ [1]) 2 = [97, 98, 99] := by decide

/-! ## the textual ID of the public API: what search hands out, fetch parses back -/

/-- **an ID returned by search addresses the same document on fetch**: `seq.FromString (id.String()) = id` for every ID
(`proxyapi` writes `doc.Id = id.ID.String()` into search responses and parses fetch requests with `seq.FromString`) -/
theorem c04_id_string_roundtrip (mid rid : Nat) (hm : mid < 18446744073709551616) (hr : rid < 18446744073709551616) :
    SV.IDStr.fromString (SV.IDStr.idString mid rid) = some (mid, rid) :=
  SV.IDStr.fromString_idString mid rid hm hr

/-- two different documents never share a textual ID; the text is always 33 bytes -/
theorem c04_id_string_injective (m1 r1 m2 r2 : Nat) (h1 : m1 < 18446744073709551616) (h2 : r1 < 18446744073709551616)
    (h3 : m2 < 18446744073709551616) (h4 : r2 < 18446744073709551616)
    (h : SV.IDStr.idString m1 r1 = SV.IDStr.idString m2 r2) : m1 = m2 ∧ r1 = r2 :=
  SV.IDStr.idString_injective m1 r1 m2 r2 h1 h2 h3 h4 h

theorem c04_id_string_length (mid rid : Nat) : (SV.IDStr.idString mid rid).length = 33 :=
  SV.IDStr.idString_length mid rid

/-- `FromString` is lenient the other way round (not a violation of the property - every accepted text names one ID - but
the map text -> ID is not injective): upper-case digits are accepted and the separator byte is not looked at -/
theorem c04_from_string_lenient_witness :
    SV.IDStr.fromString (SV.IDStr.idString 171 10) = some (171, 10) ∧
    SV.IDStr.fromString ([65, 66] ++ (SV.IDStr.idString 171 10).drop 2) = some (171, 10) ∧
    SV.IDStr.fromString ((SV.IDStr.idString 171 10).set 16 120) = some (171, 10) ∧
    SV.IDStr.fromString ((SV.IDStr.idString 171 10).set 3 103) = none ∧
    SV.IDStr.fromString ((SV.IDStr.idString 171 10).take 32) = none := by decide

/-- **the proxy -> store hop of a fetch is the identity on IDs**: the store's `extractIDs` reads from the request
`Ingestor.makeFetchReq` builds exactly the IDs and hints the proxy was asked for, in order - for every list of IDs -/
theorem c04_fetch_hop_identity (ids : List SV.IDStr.IDSrc)
    (h : ∀ i, i ∈ ids → i.mid < 18446744073709551616 ∧ i.rid < 18446744073709551616) :
    SV.IDStr.extractIDs (SV.IDStr.makeFetchReq ids) = some ids :=
  SV.IDStr.extractIDs_makeFetchReq ids h

/-- a store reading only the un-hinted list (`extractIDsNoHints`) gets the same IDs without hints -/
theorem c04_fetch_hop_no_hints (ids : List SV.IDStr.IDSrc)
    (h : ∀ i, i ∈ ids → i.mid < 18446744073709551616 ∧ i.rid < 18446744073709551616) :
    SV.IDStr.extractNo (SV.IDStr.makeFetchReq ids).ids = some (ids.map fun i => ⟨i.mid, i.rid, []⟩) :=
  SV.IDStr.extractNo_ids ids h

example : SV.IDStr.extractIDs (SV.IDStr.makeFetchReq [⟨5, 7, [97]⟩, ⟨3, 2, []⟩]) = some [⟨5, 7, [97]⟩, ⟨3, 2, []⟩] := by
  decide

/-- **the public Fetch handler asks for what search returned**: the loop of `grpcV1.Fetch` over the request's texts
yields, for the texts a search response carried, exactly those IDs in that order (within `MaxRequestedDocuments`) -/
theorem c04_api_fetch_ids (maxReq : Nat) (ids : List (Nat × Nat))
    (h : ∀ i, i ∈ ids → i.1 < 18446744073709551616 ∧ i.2 < 18446744073709551616)
    (hmax : maxReq = 0 ∨ ids.length ≤ maxReq) :
    SV.IDStr.apiFetchIDs maxReq (ids.map fun i => SV.IDStr.idString i.1 i.2) = some ids :=
  SV.IDStr.apiFetchIDs_within maxReq ids h hmax

/-- a malformed text in the request is skipped without disturbing the other IDs -/
theorem c04_api_fetch_skips_malformed (a b : List (List Nat)) (bad : List Nat) (hbad : SV.IDStr.fromString bad = none) :
    SV.IDStr.apiParse (a ++ bad :: b) = SV.IDStr.apiParse a ++ SV.IDStr.apiParse b :=
  SV.IDStr.apiParse_skips_malformed a b bad hbad

example : SV.IDStr.fromString [120] = none := by decide

/-- the handler has the shape the model follows: parse, skip on error, append otherwise; every document sent carries
`doc.ID.String()` -/
theorem c04_x_api_fetch_ids :
    SV.Extracted.C04.apiFetchIDLoop =
      ["seqID, err := seq.FromString(id)", "if err != nil { appends: } else { ids = append(ids, seqID) }"] ∧
    SV.Extracted.C04.apiFetchSentID = ["doc.ID.String()"] := by decide

/-- the hypothesis of `c04_api_fetch_ids` ("the texts a search response carried") is what the code produces: every
document of a search, complex-search or export response gets `ID.String()` of its ID as its text -/
theorem c04_x_api_response_id_texts :
    SV.Extracted.C04.apiResponseIDTexts = ["makeProtoDocs: id.ID.String()", "Export: doc.ID.String()"] := by decide

/-- whatever text `FromString` accepts (either digit case, any separator byte) names a 64-bit ID, and `String()` of that
ID is a canonical text that parses to the same ID - so the proxy's re-encoding of a client's ID for the store
(`makeFetchReq` after `FromString`) never changes which document is meant -/
theorem c04_from_string_range_canonical (x : List Nat) (m r : Nat) (h : SV.IDStr.fromString x = some (m, r)) :
    m < 18446744073709551616 ∧ r < 18446744073709551616 ∧
      SV.IDStr.fromString (SV.IDStr.idString m r) = some (m, r) :=
  ⟨(SV.IDStr.fromString_range x m r h).1, (SV.IDStr.fromString_range x m r h).2, SV.IDStr.fromString_canonical x m r h⟩

end SV.Props.C04
