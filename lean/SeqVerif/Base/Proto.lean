/-!
Line-protocol helpers shared by all drivers (`Drv/Cxx.lean`).
Only parsing / printing lives here; no model logic.  Conventions (DESIGN appendix A):
fields separated by one space, lists comma separated, `-` is the empty list,
byte strings hex encoded (`-` = empty), responses `ok ...` / `err ...` / `panic ...` / `bad-op`.
-/
namespace SV.Proto

def fields (line : String) : List String :=
  (line.trimAscii.toString.splitOn " ").filter (· ≠ "")

def splitList (s : String) (sep : String := ",") : List String :=
  if s = "-" ∨ s = "" then [] else s.splitOn sep

def natList? (s : String) (sep : String := ",") : Option (List Nat) :=
  (splitList s sep).mapM String.toNat?

def intList? (s : String) (sep : String := ",") : Option (List Int) :=
  (splitList s sep).mapM String.toInt?

def fmtList {α} (f : α → String) (xs : List α) (sep : String := ",") : String :=
  if xs.isEmpty then "-" else sep.intercalate (xs.map f)

def fmtNats (xs : List Nat) : String := fmtList toString xs
def fmtInts (xs : List Int) : String := fmtList toString xs

def bool? (s : String) : Option Bool :=
  if s = "1" ∨ s = "true" then some true else if s = "0" ∨ s = "false" then some false else none

def fmtBool (b : Bool) : String := if b then "1" else "0"

def hexVal? (c : Char) : Option Nat :=
  if '0' ≤ c ∧ c ≤ '9' then some (c.toNat - '0'.toNat)
  else if 'a' ≤ c ∧ c ≤ 'f' then some (c.toNat - 'a'.toNat + 10)
  else if 'A' ≤ c ∧ c ≤ 'F' then some (c.toNat - 'A'.toNat + 10)
  else none

def hexGo : List Char → Option (List Nat)
  | [] => some []
  | [_] => none
  | a :: b :: rest => do
    let x ← hexVal? a
    let y ← hexVal? b
    let r ← hexGo rest
    pure ((x * 16 + y) :: r)

/-- hex string → bytes as `Nat`s < 256 (`-` = empty) -/
def hex? (s : String) : Option (List Nat) :=
  if s = "-" then some [] else hexGo s.toList

def hexDigit (n : Nat) : Char :=
  if n < 10 then Char.ofNat ('0'.toNat + n) else Char.ofNat ('a'.toNat + n - 10)

def fmtHex (bs : List Nat) : String :=
  if bs.isEmpty then "-" else
  String.ofList (bs.flatMap fun b => [hexDigit (b / 16 % 16), hexDigit (b % 16)])

partial def loop (h : IO.FS.Stream) (out : IO.FS.Stream) (step : String → String) : IO Unit := do
  let line ← h.getLine
  if line.isEmpty then return ()
  out.putStrLn (step line)
  out.flush
  loop h out step

/-- stateless driver main loop: one response line per request line -/
def main (step : String → String) : IO Unit := do
  loop (← IO.getStdin) (← IO.getStdout) step

partial def loopS {σ} (h : IO.FS.Stream) (out : IO.FS.Stream) (step : σ → String → σ × String) (s : σ) : IO Unit := do
  let line ← h.getLine
  if line.isEmpty then return ()
  let (s', r) := step s line
  out.putStrLn r
  out.flush
  loopS h out step s'

/-- stateful driver main loop -/
def mainS {σ} (step : σ → String → σ × String) (init : σ) : IO Unit := do
  loopS (← IO.getStdin) (← IO.getStdout) step init

end SV.Proto
