namespace SV

/-- Go's sort.Search loop on the half-open interval [i, j). -/
def searchGo (f : Nat → Bool) (i j : Nat) : Nat :=
  if h : i < j then
    let m := (i + j) / 2
    if f m then searchGo f i m else searchGo f (m + 1) j
  else i
termination_by j - i
decreasing_by all_goals omega

/-- `f` is monotone (false…false true…true) on [lo, hi). -/
def Mono (f : Nat → Bool) (lo hi : Nat) : Prop :=
  ∀ a b, lo ≤ a → a ≤ b → b < hi → f a = true → f b = true

theorem searchGo_bounds (f : Nat → Bool) (i j : Nat) (hij : i ≤ j) :
    i ≤ searchGo f i j ∧ searchGo f i j ≤ j := by
  fun_induction searchGo f i j with
  | case1 i j h m hf ih => have := ih (by omega); omega
  | case2 i j h m hf ih => have := ih (by omega); omega
  | case3 i j h => omega

theorem searchGo_spec (f : Nat → Bool) (lo hi : Nat) (hm : Mono f lo hi) (i j : Nat)
    (hlo : lo ≤ i) (hij : i ≤ j) (hhi : j ≤ hi)
    (hbelow : ∀ k, lo ≤ k → k < i → f k = false)
    (habove : ∀ k, j ≤ k → k < hi → f k = true) :
    (∀ k, lo ≤ k → k < searchGo f i j → f k = false) ∧
    (∀ k, searchGo f i j ≤ k → k < hi → f k = true) := by
  fun_induction searchGo f i j with
  | case1 i j h m hf ih =>
    apply ih hlo (by omega) (by omega) hbelow
    intro k hk1 hk2
    exact hm m k (by omega) hk1 hk2 hf
  | case2 i j h m hf ih =>
    apply ih (by omega) (by omega) hhi _ habove
    intro k hk1 hk2
    cases hfk : f k with
    | false => rfl
    | true =>
      have := hm k m hk1 (by omega) (by omega) hfk
      simp [this] at hf
  | case3 i j h =>
    have : i = j := by omega
    subst this
    exact ⟨hbelow, habove⟩

/-- util.BinSearchInRange(from, to, fn): least index in [from, to+1] with fn true. -/
def binSearchInRange (lo hi : Nat) (f : Nat → Bool) : Nat :=
  lo + searchGo (fun i => f (lo + i)) 0 (hi + 1 - lo)

end SV
