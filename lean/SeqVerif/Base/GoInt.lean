import SeqVerif.Base.Search
/-!
# Go fixed-width integers, slices and `time` values over `Int` / `List` (core-only)

Prelude of the mechanical Go -> Lean translator (`/verif/extract/xlate`).  Every Go integer value is an `Int` that
lies in the range of its declared type; each operator that can leave the range is followed by the wrap of that
type (`wrapU64 (a + b)`, `wrapI64 (a * b)` ...).  Signed `/` and `%` are `Int.tdiv` / `Int.tmod` (truncation),
unsigned ones are `/` and `%` (equal on non-negative operands).  `x >> n` is the floor quotient `x / 2^n` for both
signednesses, `x << n` is `wrap (x * 2^n)`.  Bitwise operators are defined for non-negative operands (unsigned
types) through `Nat`.  A slice is a `List`; an index outside it panics (`idx .. = none`).  A `time.Time` is an
`Int` number of nanoseconds since the Unix epoch (exact over everything reachable from `time.UnixMilli(int64)`),
`Time.Sub` saturates like Go's.

All definitions unfold to literals so that `simp only [..]` followed by `omega` closes range goals.
-/
namespace SV.Go

def wrapU8 (x : Int) : Int := x % 256
def wrapU16 (x : Int) : Int := x % 65536
def wrapU32 (x : Int) : Int := x % 4294967296
def wrapU64 (x : Int) : Int := x % 18446744073709551616
def wrapI8 (x : Int) : Int := (x + 128) % 256 - 128
def wrapI16 (x : Int) : Int := (x + 32768) % 65536 - 32768
def wrapI32 (x : Int) : Int := (x + 2147483648) % 4294967296 - 2147483648
def wrapI64 (x : Int) : Int := (x + 9223372036854775808) % 18446744073709551616 - 9223372036854775808

/-- range predicates, for the hypotheses of the `cxx_t_*` theorems -/
def U8 (x : Int) : Prop := 0 ≤ x ∧ x < 256
def U16 (x : Int) : Prop := 0 ≤ x ∧ x < 65536
def U32 (x : Int) : Prop := 0 ≤ x ∧ x < 4294967296
def U64 (x : Int) : Prop := 0 ≤ x ∧ x < 18446744073709551616
def I64 (x : Int) : Prop := -9223372036854775808 ≤ x ∧ x < 9223372036854775808

theorem wrapU8_id {x : Int} (h : U8 x) : wrapU8 x = x := by unfold U8 at h; unfold wrapU8; omega
theorem wrapU16_id {x : Int} (h : U16 x) : wrapU16 x = x := by unfold U16 at h; unfold wrapU16; omega
theorem wrapU32_id {x : Int} (h : U32 x) : wrapU32 x = x := by unfold U32 at h; unfold wrapU32; omega
theorem wrapU64_id {x : Int} (h : U64 x) : wrapU64 x = x := by unfold U64 at h; unfold wrapU64; omega
theorem wrapI64_id {x : Int} (h : I64 x) : wrapI64 x = x := by unfold I64 at h; unfold wrapI64; omega

theorem wrapU8_range (x : Int) : U8 (wrapU8 x) := by unfold U8 wrapU8; omega
theorem wrapU16_range (x : Int) : U16 (wrapU16 x) := by unfold U16 wrapU16; omega
theorem wrapU32_range (x : Int) : U32 (wrapU32 x) := by unfold U32 wrapU32; omega
theorem wrapU64_range (x : Int) : U64 (wrapU64 x) := by unfold U64 wrapU64; omega
theorem wrapI64_range (x : Int) : I64 (wrapI64 x) := by unfold I64 wrapI64; omega

theorem wrapU64_natCast {n : Nat} (h : n < 18446744073709551616) : wrapU64 (n : Int) = n := by
  unfold wrapU64; omega
theorem wrapI64_natCast {n : Nat} (h : n < 9223372036854775808) : wrapI64 (n : Int) = n := by
  unfold wrapI64; omega

/-- truncated quotient / remainder of non-negative operands are the ones `omega` knows -/
theorem tdiv_nonneg {a : Int} (b : Int) (h : 0 ≤ a) : Int.tdiv a b = a / b := Int.tdiv_eq_ediv_of_nonneg h
theorem tmod_nonneg {a : Int} (b : Int) (h : 0 ≤ a) : Int.tmod a b = a % b := Int.tmod_eq_emod_of_nonneg h
theorem tdiv_natCast (a b : Nat) : Int.tdiv (a : Int) (b : Int) = ((a / b : Nat) : Int) := by
  rw [tdiv_nonneg _ (Int.natCast_nonneg a)]; rfl
theorem tmod_natCast (a b : Nat) : Int.tmod (a : Int) (b : Int) = ((a % b : Nat) : Int) := by
  rw [tmod_nonneg _ (Int.natCast_nonneg a)]; rfl

/-! ## shifts and bitwise operators -/

/-- `x << n` before the wrap of the result type (`n ≥ 0`; a negative count panics in Go and is guarded) -/
def shl (x n : Int) : Int := x * 2 ^ n.toNat
/-- `x >> n`: floor quotient (logical for unsigned, arithmetic for signed operands) -/
def shr (x n : Int) : Int := x / 2 ^ n.toNat
/-- `x & y`, `x | y`, `x ^ y` for non-negative operands -/
def band (x y : Int) : Int := ((x.toNat &&& y.toNat : Nat) : Int)
def bor (x y : Int) : Int := ((x.toNat ||| y.toNat : Nat) : Int)
def bxor (x y : Int) : Int := ((x.toNat ^^^ y.toNat : Nat) : Int)

theorem shl_natCast (x n : Nat) : shl (x : Int) (n : Int) = ((x <<< n : Nat) : Int) := by
  simp [shl, Nat.shiftLeft_eq]
theorem shr_natCast (x n : Nat) : shr (x : Int) (n : Int) = ((x >>> n : Nat) : Int) := by
  simp only [shr, Int.toNat_natCast, Nat.shiftRight_eq_div_pow]; norm_cast
theorem band_natCast (x y : Nat) : band (x : Int) (y : Int) = ((x &&& y : Nat) : Int) := by simp [band]
theorem bor_natCast (x y : Nat) : bor (x : Int) (y : Int) = ((x ||| y : Nat) : Int) := by simp [bor]
theorem bxor_natCast (x y : Nat) : bxor (x : Int) (y : Int) = ((x ^^^ y : Nat) : Int) := by simp [bxor]

/-- `x & (2^k - 1) = x % 2^k` -/
theorem band_mask {x : Int} (k : Nat) (h : 0 ≤ x) : band x (2 ^ k - 1) = x % 2 ^ k := by
  obtain ⟨n, rfl⟩ := Int.eq_ofNat_of_zero_le h
  have e : ((2 : Int) ^ k - 1).toNat = 2 ^ k - 1 := by
    have h1 : 1 ≤ 2 ^ k := Nat.one_le_two_pow
    have : ((2 : Int) ^ k - 1) = ((2 ^ k - 1 : Nat) : Int) := by
      rw [Int.natCast_sub h1]; norm_cast
    rw [this, Int.toNat_natCast]
  simp only [band, Int.toNat_natCast, e, Nat.and_two_pow_sub_one_eq_mod]
  norm_cast

/-- `(a * 2^k) | b = a * 2^k + b` when `b < 2^k` (packing two fields into one word) -/
theorem bor_shl {a b : Int} (k : Nat) (ha : 0 ≤ a) (hb : 0 ≤ b) (hlt : b < 2 ^ k) :
    bor (a * 2 ^ k) b = a * 2 ^ k + b := by
  obtain ⟨m, rfl⟩ := Int.eq_ofNat_of_zero_le ha
  obtain ⟨n, rfl⟩ := Int.eq_ofNat_of_zero_le hb
  have hn : n < 2 ^ k := by exact_mod_cast hlt
  have e : ((m : Int) * 2 ^ k).toNat = 2 ^ k * m := by
    have : ((m : Int) * 2 ^ k) = ((2 ^ k * m : Nat) : Int) := by push_cast; exact Int.mul_comm _ _
    rw [this, Int.toNat_natCast]
  simp only [bor, e, Int.toNat_natCast, ← Nat.two_pow_add_eq_or_of_lt hn m]
  push_cast; rw [Int.mul_comm]

/-! ## slices -/

/-- `xs[i]`: `none` = index out of range panic -/
def idx {α : Type} (xs : List α) (i : Int) : Option α := if i < 0 then none else xs[i.toNat]?
/-- `len(xs)` -/
def len {α : Type} (xs : List α) : Int := (xs.length : Int)
/-- `xs[a:b]` with `0 ≤ a ≤ b ≤ len(xs)` (guarded by the translator; Go allows `b ≤ cap(xs)`, the translator does not) -/
def slice {α : Type} (xs : List α) (a b : Int) : List α := (xs.take b.toNat).drop a.toNat

theorem idx_natCast {α : Type} (xs : List α) (i : Nat) : idx xs (i : Int) = xs[i]? := by
  have : ¬ ((i : Int) < 0) := by omega
  simp [idx, this]
theorem idx_neg {α : Type} (xs : List α) {i : Int} (h : i < 0) : idx xs i = none := by simp [idx, h]
theorem idx_map {α β : Type} (f : α → β) (xs : List α) (i : Int) : idx (xs.map f) i = (idx xs i).map f := by
  unfold idx; split <;> simp
theorem len_nonneg {α : Type} (xs : List α) : 0 ≤ len xs := by unfold len; omega
theorem slice_from {α : Type} (xs : List α) (a : Nat) : slice xs (a : Int) (len xs) = xs.drop a := by
  simp [slice, len]
theorem slice_to {α : Type} (xs : List α) (b : Nat) : slice xs 0 (b : Int) = xs.take b := by
  simp [slice]

/-- `xs[i] = v` (the translator guards `0 ≤ i < len(xs)`) -/
def set {α : Type} (xs : List α) (i : Int) (v : α) : List α := xs.set i.toNat v

theorem set_natCast {α : Type} (xs : List α) (i : Nat) (v : α) : set xs (i : Int) v = xs.set i v := by simp [set]

/-! ## encoding/binary.LittleEndian on byte slices -/

/-- the `k` little-endian bytes of `v` (`PutUintN`) -/
def leBytes : Nat → Int → List Int
  | 0, _ => []
  | k + 1, v => v % 256 :: leBytes k (v / 256)

/-- `UintN(xs)`: the first `k` bytes as a number (the translator guards `k ≤ len(xs)`) -/
def leRead : Nat → List Int → Int
  | 0, _ => 0
  | _ + 1, [] => 0
  | k + 1, b :: bs => b + 256 * leRead k bs

/-- `PutUintN(xs[off:], v)`: the `k` bytes at `off` replaced (the translator guards `0 ≤ off`, `off + k ≤ len(xs)`) -/
def lePut (k : Nat) (xs : List Int) (off v : Int) : List Int :=
  xs.take off.toNat ++ leBytes k v ++ xs.drop (off.toNat + k)

theorem leBytes_length (k : Nat) (v : Int) : (leBytes k v).length = k := by
  induction k generalizing v with
  | zero => rfl
  | succ k ih => simp [leBytes, ih]

/-! ## sort.Search -/

/-- the loop of `sort.Search(n, p)`: `for i < j { h := int(uint(i+j) >> 1); if !p(h) { i = h + 1 } else { j = h } }`
with a predicate that may panic -/
def searchLoop (p : Int → Option Bool) : Nat → Int → Int → Option Int
  | 0, i, _ => some i
  | fuel + 1, i, j =>
    if i < j then
      (p ((i + j) / 2)).bind fun b => if b then searchLoop p fuel i ((i + j) / 2) else searchLoop p fuel ((i + j) / 2 + 1) j
    else some i

/-- `sort.Search(n, p)` (at most `n` halvings are needed) -/
def sortSearch (n : Int) (p : Int → Option Bool) : Option Int := searchLoop p n.toNat 0 n

theorem searchLoop_eq (p : Int → Option Bool) (q : Nat → Bool) (n : Nat) (h : ∀ i : Nat, i < n → p i = some (q i)) :
    ∀ (fuel i j : Nat), j - i ≤ fuel → j ≤ n → searchLoop p fuel i j = some ((SV.searchGo q i j : Nat) : Int) := by
  intro fuel
  induction fuel with
  | zero =>
    intro i j hf hj
    have : ¬ i < j := by omega
    rw [searchLoop, SV.searchGo]; simp [this]
  | succ fuel ih =>
    intro i j hf hj
    rw [searchLoop, SV.searchGo]
    by_cases hij : i < j
    · have hij' : (i : Int) < (j : Int) := by omega
      have hm : ((i : Int) + (j : Int)) / 2 = (((i + j) / 2 : Nat) : Int) := by omega
      simp only [hij, hij', if_true, dif_pos, hm]
      rw [h ((i + j) / 2) (by omega)]
      simp only [Option.bind_some]
      cases hq : q ((i + j) / 2) with
      | true =>
        simp only [if_true]
        exact ih i ((i + j) / 2) (by omega) (by omega)
      | false =>
        have e : (((i + j) / 2 : Nat) : Int) + 1 = (((i + j) / 2 + 1 : Nat) : Int) := by omega
        simp only [Bool.false_eq_true, if_false, e]
        exact ih ((i + j) / 2 + 1) j (by omega) hj
    · have hij' : ¬ (i : Int) < (j : Int) := by omega
      simp [hij, hij']

/-- when the predicate does not panic on `[0, n)` the result is `SV.searchGo` (the hand models' binary search) -/
theorem sortSearch_eq (p : Int → Option Bool) (q : Nat → Bool) (n : Nat) (h : ∀ i : Nat, i < n → p i = some (q i)) :
    sortSearch n p = some ((SV.searchGo q 0 n : Nat) : Int) := by
  unfold sortSearch
  have := searchLoop_eq p q n h n 0 n (by omega) (by omega)
  simpa using this

theorem sortSearch_neg (p : Int → Option Bool) {n : Int} (h : n ≤ 0) : sortSearch n p = some 0 := by
  unfold sortSearch
  cases hn : n.toNat with
  | zero => rfl
  | succ k => omega

/-- `bytes.Equal` and `bytes.Compare` (-1, 0, +1; lexicographic on unsigned bytes) -/
def bytesEqual (a b : List Int) : Bool := decide (a = b)
def bytesCompare : List Int → List Int → Int
  | [], [] => 0
  | [], _ :: _ => -1
  | _ :: _, [] => 1
  | a :: as, b :: bs => if a < b then -1 else if b < a then 1 else bytesCompare as bs

/-- a `[]uintN` whose elements are given as naturals, as the translated functions see it -/
def ints (xs : List Nat) : List Int := xs.map Int.ofNat

theorem idx_ints (xs : List Nat) (i : Nat) (h : i < xs.length) : idx (ints xs) (i : Int) = some (xs[i] : Int) := by
  unfold ints; rw [idx_natCast]; simp [h]
theorem idx_ints_none (xs : List Nat) (i : Nat) (h : xs.length ≤ i) : idx (ints xs) (i : Int) = none := by
  unfold ints; rw [idx_natCast]; simp [h]
theorem len_ints (xs : List Nat) : len (ints xs) = (xs.length : Int) := by simp [len, ints]
theorem getD_of_lt {α : Type} (xs : List α) (i : Nat) (d : α) (h : i < xs.length) : xs.getD i d = xs[i] := by
  simp [List.getD_eq_getElem?_getD, h]
theorem max_one_cast (q : Nat) : max (1 : Int) (q : Int) = ((max 1 q : Nat) : Int) := by omega

theorem ints_inj {a b : List Nat} : ints a = ints b ↔ a = b := by
  constructor
  · intro h
    induction a generalizing b with
    | nil => cases b with
      | nil => rfl
      | cons y ys => simp [ints] at h
    | cons x xs ih => cases b with
      | nil => simp [ints] at h
      | cons y ys =>
        simp only [ints, List.map_cons, List.cons.injEq] at h
        have hx : x = y := by have := h.1; simp only [Int.ofNat_eq_natCast] at this; omega
        rw [hx, ih (b := ys) (by simpa [ints] using h.2)]
  · intro h; rw [h]
theorem bytesEqual_ints (a b : List Nat) : bytesEqual (ints a) (ints b) = decide (a = b) := by
  unfold bytesEqual; simp [ints_inj]
theorem ints_append (a b : List Nat) : ints (a ++ b) = ints a ++ ints b := by simp [ints]
theorem ints_take (a : List Nat) (n : Nat) : ints (a.take n) = (ints a).take n := by simp [ints, List.map_take]
theorem ints_drop (a : List Nat) (n : Nat) : ints (a.drop n) = (ints a).drop n := by simp [ints, List.map_drop]
theorem ints_length (a : List Nat) : (ints a).length = a.length := by simp [ints]
theorem slice_ints (a : List Nat) (lo hi : Nat) : slice (ints a) (lo : Int) (hi : Int) = ints ((a.take hi).drop lo) := by
  simp [slice, ints, List.map_take, List.map_drop]
theorem set_ints (a : List Nat) (i v : Nat) : set (ints a) (i : Int) (v : Int) = ints (a.set i v) := by
  simp [set, ints, List.map_set]

/-- `leBytes` / `leRead` on naturals (the shape the hand models use) -/
def leBytesN : Nat → Nat → List Nat
  | 0, _ => []
  | k + 1, n => n % 256 :: leBytesN k (n / 256)
def leReadN : Nat → List Nat → Nat
  | 0, _ => 0
  | _ + 1, [] => 0
  | k + 1, b :: bs => b + 256 * leReadN k bs

theorem leBytes_natCast (k n : Nat) : leBytes k (n : Int) = ints (leBytesN k n) := by
  induction k generalizing n with
  | zero => rfl
  | succ k ih =>
    have h1 : (n : Int) % 256 = ((n % 256 : Nat) : Int) := by omega
    have h2 : (n : Int) / 256 = ((n / 256 : Nat) : Int) := by omega
    simp only [leBytes, leBytesN, h1, h2, ih]
    simp [ints]
theorem leRead_ints (k : Nat) (bs : List Nat) : leRead k (ints bs) = ((leReadN k bs : Nat) : Int) := by
  induction k generalizing bs with
  | zero => rfl
  | succ k ih =>
    cases bs with
    | nil => rfl
    | cons b bs =>
      have : ints (b :: bs) = (b : Int) :: ints bs := by simp [ints]
      rw [this]
      simp only [leRead, leReadN, ih]
      omega
theorem lePut_ints (k : Nat) (a : List Nat) (off v : Nat) :
    lePut k (ints a) (off : Int) (v : Int) = ints (a.take off ++ leBytesN k v ++ a.drop (off + k)) := by
  simp [lePut, leBytes_natCast, ints_append, ints_take, ints_drop]

/-! ## package `time` (trusted reading of the standard library) -/

/-- `time.UnixMilli(ms)` as nanoseconds since the epoch -/
def timeUnixMilli (ms : Int) : Int := ms * 1000000
/-- `t.UnixNano()` (int64; wraps outside the representable range) -/
def timeUnixNano (t : Int) : Int := wrapI64 t
/-- `t.UnixMilli()` -/
def timeToUnixMilli (t : Int) : Int := t / 1000000
/-- `t.Add(d)` (exact: `time.Time` covers far more than the int64 nanosecond range) -/
def timeAdd (t d : Int) : Int := t + d
/-- `t.Sub(u)`: the difference saturated to the `time.Duration` range -/
def timeSub (t u : Int) : Int :=
  if t - u > 9223372036854775807 then 9223372036854775807
  else if t - u < -9223372036854775808 then -9223372036854775808 else t - u

end SV.Go
