import SeqVerif.Props.C16
import SeqVerif.Model.Replica
import SeqVerif.Model.ActiveReach
import SeqVerif.Model.ActiveIndexProofs
import SeqVerif.Model.BulkCompose
import SeqVerif.Model.WPIndexLemmas
import SeqVerif.Spec.StoreLemmas
/-!
# Whole pipeline, ingest to read: how the per-property theorems fit together (`sys_*`)

Read side (fully composed, `sys_read`): C16 ∘ C05 ∘ C02/C03 against `Spec.search`, with soundness ("nothing that is not
stored is returned") and completeness ("every stored matching document is in the ordered list the page is cut from").
Write side: C09 (acknowledged => a full replica set of a hot shard took the payload) is composed formally; the step
"a store that took the payload serves its documents at read time" is the interface `I1`, whose content is proved on
each side in that side's own model (`sys_i1_*`: C01 durability over every crash history, C17/C02 the reachable active
index = Spec over the delivered metas, C10/C11 the metas carry the indexer's tokens) but whose representation changes
(C01's byte-level index <-> C02's `Index` view <-> C05's `FracIdx`) are not composed here.  The main statement is
therefore `sys_acked_found_partial`; DESIGN section 15 lists the interfaces.  Core-only.
**Restriction:** every theorem here that takes `DistinctBulks` / `NonEmptyDocs` covers bulks WITHOUT nested metas only
(`cons_sys_hd_hs_false_for_nested_witness`, Consistency/SysHyps.lean; see the header of Proofs/SystemClosed.lean).
-/
namespace SV.Sys
open SV SV.Spec SV.ProxySearch SV.ProxyCompose SV.ProxyE2E

/-! ## the Spec, unfolded once -/

/-- the ordered, duplicate-free list of the IDs of the documents matching `q` inside the window -/
def fullList (docs : List Doc) (q : Query) (from_ to_ : Nat) (asc : Bool) : List Spec.ID :=
  dedupAdj (sortBy (orderLe asc) ((hits docs q from_ to_).map (·.id)))

theorem sys_spec_ids (docs : List Doc) (q : Query) (from_ to_ : Nat) (asc : Bool) (L : Nat) (wt : Bool) :
    (Spec.search docs q from_ to_ asc L wt).ids = (fullList docs q from_ to_ asc).take L := rfl

theorem sys_mem_fullList (docs : List Doc) (q : Query) (from_ to_ : Nat) (asc : Bool) (i : Spec.ID) :
    i ∈ fullList docs q from_ to_ asc ↔
      ∃ d ∈ docs, d.id = i ∧ inWindow from_ to_ d = true ∧ docMatches q d = true := by
  unfold fullList
  rw [Spec.mem_dedupAdj, (Spec.sortBy_perm _ _).mem_iff]
  simp only [hits, List.mem_map, List.mem_filter, Bool.and_eq_true]
  constructor
  · rintro ⟨d, ⟨hd, h1, h2⟩, rfl⟩; exact ⟨d, hd, rfl, h1, h2⟩
  · rintro ⟨d, hd, rfl, h1, h2⟩; exact ⟨d, ⟨hd, h1, h2⟩, rfl⟩

/-- **findable by own content (Spec level).**  A document that carries the token `(field, value)` matches the query
`field:value` (the literal without wildcards).  Which query text yields that literal for a token the indexer emitted
is C11 (`c11_text`, `c11_keyword`, `c11_path`) and C12 (`c12_toQuery_docMatches`). -/
theorem sys_token_findable (d : Doc) (f v : Bytes) (h : (f, v) ∈ d.tokens) :
    docMatches (.leaf (.lit f [.text v])) d = true := by
  simp only [docMatches, Doc.hasLeaf, List.any_eq_true]
  refine ⟨(f, v), h, ?_⟩
  have hp : v.isPrefixOf v = true := by
    induction v with
    | nil => rfl
    | cons a as ih => simp [List.isPrefixOf]
  simp [Leaf.field, Leaf.valMatch, globMatch, hp, List.isEmpty]

/-! ## read side: C16 ∘ C05 ∘ C02/C03 -/

/-- all documents stored by the fraction indexes of the shards `0 .. n-1` -/
def allDocs (n : Nat) (fracs : Nat → List Merge.FracIdx) : List Doc := storedDocs ((List.range n).flatMap fracs)

theorem sys_mem_allDocs (n : Nat) (fracs : Nat → List Merge.FracIdx) (s : Nat) (hs : s < n) (d : Doc)
    (hd : d ∈ storedDocs (fracs s)) : d ∈ allDocs n fracs := by
  unfold allDocs storedDocs at *
  obtain ⟨f, hf, hdf⟩ := List.mem_flatMap.mp hd
  exact List.mem_flatMap.mpr ⟨f, List.mem_flatMap.mpr ⟨s, List.mem_range.mpr hs, hf⟩, hdf⟩

/-- **sys_read.**  Hypotheses exactly those of `c16_e2e_spec_complete` (C02: `FracIdx.OK` = WF, SortedDesc, RID bound,
zero-ID side condition; C05: bounds, MaxFractionHits; C16: any arrival order, every shard answers, no `int` wrap; link:
an answering replica responds with `SearchDocs` of its fraction indexes).  Then `Search` returns a complete, unflagged
result whose IDs are the page `[offset, offset+size)` of `fullList` over the documents of all shards, and
* **nothing that is not stored is returned**: every returned ID is the ID of a stored document that matches `q` inside
  the window;
* **nothing stored is lost**: every stored document matching `q` inside the window is in `fullList`, each once, so it is
  in the page exactly when its rank falls into it - in particular always when the page covers the list. -/
theorem sys_read (c : Merge.Cfg) (q : Query) (from_ to_ : Nat) (hot : List (List Call))
    (hotArr coldArr : List (Nat × ShardRes)) (hh : hotArr.Perm (indexed 0 (hot.map searchShard)))
    (offset size : Nat) (hlim : limitWraps offset size = false) (rev : Bool) (hdesc : c.desc = !rev)
    (fracs : Nat → List Merge.FracIdx)
    (hok : ∀ s, ∀ f ∈ fracs s, f.OK from_)
    (hmax : ∀ s, c.maxHits = 0 ∨ (Merge.filterInRange (storeFracs (fracs s) q from_ to_) from_ to_).length ≤ c.maxHits)
    (hne : hot ≠ []) (hall : ∀ calls ∈ hot, (searchShard calls).isOk = true)
    (hans : ∀ s calls rep ids t e, hot[s]? = some calls → searchShard calls = .ok rep ids t e →
      (∀ i ∈ ids, i.2 < Merge.R) ∧
      ∃ r, Merge.searchDocs c (storeFracs (fracs s) q from_ to_) from_ to_ (offset + size) = some r ∧
        r.ids = ids.map keyOf) :
    ∃ ids t e, search hotArr coldArr offset size rev = .ok ids t e false false ∧
      ids.map (fun x => toSpecID x.1) =
        (((fullList (allDocs hot.length fracs) q from_ to_ rev).take (offset + size)).drop offset).take size ∧
      (ids.map (fun x => toSpecID x.1)).Nodup ∧
      (∀ x ∈ ids, ∃ d ∈ allDocs hot.length fracs, d.id = toSpecID x.1 ∧ inWindow from_ to_ d = true ∧
        docMatches q d = true) ∧
      (∀ d ∈ allDocs hot.length fracs, inWindow from_ to_ d = true → docMatches q d = true →
        d.id ∈ fullList (allDocs hot.length fracs) q from_ to_ rev) ∧
      (offset = 0 → (fullList (allDocs hot.length fracs) q from_ to_ rev).length ≤ size →
        ∀ d ∈ allDocs hot.length fracs, inWindow from_ to_ d = true → docMatches q d = true →
          ∃ x ∈ ids, toSpecID x.1 = d.id) := by
  obtain ⟨ids, t, e, h1, h2, h3⟩ := SV.Props.C16.c16_e2e_spec_complete c q from_ to_ hot hotArr coldArr hh offset size
    hlim rev hdesc fracs hok hmax hne hall hans
  rw [sys_spec_ids] at h2
  have hcompl : ∀ d ∈ allDocs hot.length fracs, inWindow from_ to_ d = true → docMatches q d = true →
      d.id ∈ fullList (allDocs hot.length fracs) q from_ to_ rev :=
    fun d hd hw hm => (sys_mem_fullList _ q from_ to_ rev d.id).mpr ⟨d, hd, rfl, hw, hm⟩
  refine ⟨ids, t, e, h1, h2, h3, ?_, hcompl, ?_⟩
  · intro x hx
    have : toSpecID x.1 ∈ ids.map (fun x => toSpecID x.1) := List.mem_map_of_mem hx
    rw [h2] at this
    have := List.mem_of_mem_take (List.mem_of_mem_drop (List.mem_of_mem_take this))
    exact (sys_mem_fullList _ q from_ to_ rev _).mp this
  · intro h0 hlen d hd hw hm
    have hmem := hcompl d hd hw hm
    subst h0
    have hpage : (((fullList (allDocs hot.length fracs) q from_ to_ rev).take (0 + size)).drop 0).take size =
        fullList (allDocs hot.length fracs) q from_ to_ rev := by
      simp only [Nat.zero_add, List.drop_zero, List.take_take, Nat.min_self]
      exact List.take_of_length_le hlen
    have h2' : ids.map (fun x => toSpecID x.1) = fullList (allDocs hot.length fracs) q from_ to_ rev := h2.trans hpage
    rw [← h2'] at hmem
    obtain ⟨x, hx, hxe⟩ := List.mem_map.mp hmem
    exact ⟨x, hx, hxe⟩

/-! ## write side: the pieces, each in its own model -/

/-- **C09 (instance).**  An acknowledged bulk has a hot shard all of whose replicas returned success for it. -/
theorem sys_ack_full_set (coldT hotT : Replica.Tier)
    (oracle : List (List (Nat × Replica.Call) × List (Nat × Replica.Call)))
    (hack : (Replica.storeDocuments coldT hotT oracle Replica.init).1 = true) (hS : hotT.S ≠ 0) :
    ∃ s, ∀ r, r < hotT.R → (s, r) ∈ (Replica.storeDocuments coldT hotT oracle Replica.init).2.hotLog := by
  rcases (Replica.ack_sound coldT hotT oracle Replica.init (Replica.good_init coldT hotT) hack).2 with h | h
  · exact absurd h hS
  · exact h

/-- **I1, durability half (C01).**  After ANY history of bulks, crashes at any byte of either file write and restarts,
every document of every acknowledged bulk (the list `ds` its two blocks decode to) is fetched byte for byte by its ID
and is among the documents each of its tokens leads to - in C01's byte-level store (`SV.WPath`). -/
theorem sys_i1_durable (cd : WPath.IdxCodec) (hcd : cd.ExtFree) (h : List WPath.Ev) (hwf : ∀ e ∈ h, e.WF)
    (hnd : (WPath.bulkIDs cd (WPath.completeOf h)).Nodup) (d m : WPath.Blk) (hb : (d, m) ∈ WPath.ackedOf h)
    (ds : List WPath.LDoc) (hdocs : cd.docsRaw (WPath.enc d) = some (WPath.rawDocs ds))
    (hmeta : cd.metaDocs (WPath.enc m) = WPath.metasOf ds)
    (hsz : ∀ x ∈ ds, 0 < x.body.length ∧ x.body.length < 256 ^ 4) :
    ∀ x ∈ ds, WPath.fetch cd (WPath.run true WPath.init h).docs (WPath.buildIndex cd (WPath.run true WPath.init h).idx) x.id
        = some x.body ∧
      ∀ t ∈ x.tokens, x.id ∈ WPath.search (WPath.buildIndex cd (WPath.run true WPath.init h).idx) t := by
  have hinv := WPath.run_fixed h WPath.init [] WPath.inv_init hwf
  simp only [List.nil_append] at hinv
  exact WPath.inv_docs_served cd hcd _ _ [] [] hinv hnd d m (WPath.ackedOf_sub_completeOf h _ hb) ds hdocs hmeta hsz

/-- **I1, index half (C17 ∘ C02).**  After any history of bulks of metas handed to the append pipeline (ids distinct
inside a bulk, re-deliveries allowed, uint64 ids) the active fraction answers every query with `Spec.search` over its
arrival documents, whose IDs are those of the metas kept (first delivery of each id), in that order. -/
theorem sys_i1_indexed (h : List (List Collector.Meta)) (hd : Collector.DistinctBulks h)
    (hs : Collector.NonEmptyDocs h) (hg : ActiveReach.GoodIDs h) (q : Query) (from_ to_ : Nat) (asc : Bool)
    (limit : Nat) (wt : Bool) :
    ActiveIndex.search (ActiveReach.toActive (Collector.run Collector.Active.empty h)) q from_ to_ asc limit wt =
      Spec.search (ActiveIndex.arrivalDocs (ActiveReach.toActive (Collector.run Collector.Active.empty h)))
        q from_ to_ asc limit wt ∧
    (ActiveIndex.arrivalDocs (ActiveReach.toActive (Collector.run Collector.Active.empty h))).map (·.id) =
      (ActiveReach.keptRun Collector.Active.empty h).map (fun m => ActiveReach.toID m.id) :=
  ⟨ActiveReach.reachable_search_eq_spec h hd hs hg q from_ to_ asc limit wt, (ActiveReach.reachable_docs h hd hs).1⟩

/-! ## ingest side: what the store is handed (C10 read through `toCollector`) -/

/-- a token `key:value` whose key has no ':' is split back into `(key, value)` by the store's reading of the meta -/
theorem sys_splitTok_join (k val : Bytes) (hk : ∀ b ∈ k, b ≠ 58) : ActiveReach.splitTok (k ++ 58 :: val) = (k, val) := by
  unfold ActiveReach.splitTok
  have h1 : (k ++ 58 :: val).takeWhile (· != 58) = k := by
    induction k with
    | nil => simp
    | cons a as ih =>
      have ha : a ≠ 58 := hk a (by simp)
      simp only [List.cons_append, List.takeWhile_cons, bne_iff_ne, ne_eq, ha, not_false_eq_true, if_true]
      rw [ih (fun b hb => hk b (by simp [hb]))]
  have h2 : (k ++ 58 :: val).dropWhile (· != 58) = 58 :: val := by
    clear h1
    induction k with
    | nil => simp
    | cons a as ih =>
      have ha : a ≠ 58 := hk a (by simp)
      simp only [List.cons_append, List.dropWhile_cons, bne_iff_ne, ne_eq, ha, not_false_eq_true, if_true]
      exact ih (fun b hb => hk b (by simp [hb]))
  rw [h1, h2]; rfl

/-- **C10 -> C17.**  The bulk the store is handed for the accepted documents `S` of a request (`mk` = C10's `metasFor`:
ID by the time rule, tokens by C11's `indexField` - `c10_stored_metas`) contains, for every document, every meta of
it, and every token `(key, value)` of that meta (key without ':') is read back by the store as `(key, value)`. -/
theorem sys_ingest_bulk_metas (mk : Bulk.Bytes → List Bulk.Meta) (S : List Bulk.Bytes) (d : Bulk.Bytes) (hd : d ∈ S)
    (mm : Bulk.Meta) (hmm : mm ∈ mk d) (t : Bulk.Bytes × Bulk.Bytes) (ht : t ∈ mm.tokens) (hk : ∀ b ∈ t.1, b ≠ 58) :
    ∃ m ∈ (S.flatMap mk).map Bulk.toCollector, m.id = (mm.mid, mm.rid) ∧
      ∃ tok ∈ m.tokens, ActiveReach.splitTok tok.bytes = (t.1, t.2) := by
  refine ⟨Bulk.toCollector mm, List.mem_map_of_mem (List.mem_flatMap.mpr ⟨d, hd, hmm⟩), rfl, ⟨t.1, t.2⟩, ?_, ?_⟩
  · simp only [Bulk.toCollector, List.mem_map]
    exact ⟨t, ht, rfl⟩
  · exact sys_splitTok_join t.1 t.2 hk

/-! ## I1 discharged for the active fraction (no crash, not sealed): C10/C17 metas -> C02 index -> C05 `FracIdx` -/

/-- the active fraction as the searcher holds it (C05's view): the search index `toIndex` with `Info().From/To` -/
def activeFrac (a : ActiveIndex.Active) : Merge.FracIdx := ⟨ActiveIndex.toIndex a, ActiveIndex.minMid a, ActiveIndex.maxMid a⟩

/-- a well-formed active state satisfies everything C02 and C05 ask of a fraction index -/
theorem sys_active_frac_ok (a : ActiveIndex.Active) (hwf : ActiveIndex.AWF a) (from_ : Nat) : (activeFrac a).OK from_ := by
  refine ⟨ActiveIndex.toIndex_wf a hwf, ActiveIndex.toIndex_sortedDesc a, (ActiveIndex.toIndex_bounds a hwf).1,
    Or.inr (ActiveIndex.toIndex_bounds a hwf).2, ?_⟩
  intro id hid
  simp only [activeFrac, ActiveIndex.toIndex_ids] at hid
  obtain ⟨v, hv, rfl⟩ := List.mem_map.mp hid
  have := (ActiveIndex.mem_mapping a hwf.nonempty v).mp hv
  exact ActiveIndex.mid_in_range a v this.1 this.2

/-- the store that serves the active fraction the append pipeline reached from the bulks `h` it was handed -/
abbrev reached (h : List (List Collector.Meta)) : ActiveIndex.Active :=
  ActiveReach.toActive (Collector.run Collector.Active.empty h)

/-- **I1 for the active fraction.**  Bulks of metas `h` (ids distinct inside a bulk, re-deliveries allowed, uint64 ids):
the fraction index the store serves is well formed in C02's and C05's sense, and for every meta `m` that was a first
delivery (`keptRun`; later copies of an id are dropped - C17) there is a stored document with `m`'s ID carrying, for
every token `field:value` of `m`, the token `(field, value)`. -/
theorem sys_i1_active (h : List (List Collector.Meta)) (hd : Collector.DistinctBulks h) (hs : Collector.NonEmptyDocs h)
    (hg : ActiveReach.GoodIDs h) (from_ : Nat) :
    (activeFrac (reached h)).OK from_ ∧
    ∀ m ∈ ActiveReach.keptRun Collector.Active.empty h,
      ∃ d ∈ storedDocs [activeFrac (reached h)], d.id = ActiveReach.toID m.id ∧
        ∀ tok ∈ m.tokens, ActiveReach.splitTok tok.bytes ∈ d.tokens := by
  have hawf := ActiveReach.reachable_awf h hd hs hg
  refine ⟨sys_active_frac_ok _ hawf from_, ?_⟩
  intro m hm
  obtain ⟨hids, htoks⟩ := ActiveReach.reachable_docs h hd hs
  obtain ⟨i, hi, hget⟩ := List.getElem_of_mem hm
  have hlen : (ActiveIndex.arrivalDocs (reached h)).length = (ActiveReach.keptRun Collector.Active.empty h).length := by
    have := congrArg List.length hids
    simpa using this
  have hlen' : (reached h).ids.length - 1 = (ActiveReach.keptRun Collector.Active.empty h).length := by
    simpa [ActiveIndex.arrivalDocs] using hlen
  have hmemArr : ActiveIndex.arrivalDoc (reached h) (1 + i) ∈ ActiveIndex.arrivalDocs (reached h) := by
    unfold ActiveIndex.arrivalDocs
    refine List.mem_map.mpr ⟨1 + i, ?_, rfl⟩
    rw [List.mem_range'_1]; omega
  refine ⟨ActiveIndex.arrivalDoc (reached h) (1 + i), ?_, ?_, ?_⟩
  · simp only [storedDocs, List.flatMap_cons, List.flatMap_nil, List.append_nil, activeFrac]
    exact (ActiveIndex.docsOf_toIndex_perm (reached h) hawf).mem_iff.mpr hmemArr
  · -- the i-th arrival document has the i-th kept meta's ID
    have h1 : ((ActiveIndex.arrivalDocs (reached h)).map (·.id))[i]? =
        ((ActiveReach.keptRun Collector.Active.empty h).map fun m => ActiveReach.toID m.id)[i]? := by
      rw [show (ActiveIndex.arrivalDocs (reached h)).map (·.id) = _ from hids]
    have h2 : (ActiveIndex.arrivalDocs (reached h))[i]? = some (ActiveIndex.arrivalDoc (reached h) (1 + i)) := by
      unfold ActiveIndex.arrivalDocs
      rw [List.getElem?_map, List.getElem?_range' (by omega)]
      simp
    simp only [List.getElem?_map, h2, List.getElem?_eq_getElem hi, Option.map_some, Option.some.injEq, hget] at h1
    exact h1
  · intro tok htok
    exact (htoks i hi _).mpr ⟨tok, by rw [hget]; exact htok, rfl⟩

/-! ## the composition -/

/-- **sys_acked_found_partial - ingest to read.**

Full statement aimed at: *for every sequence of bulk requests, every fault / crash history of the stores within the
models' alphabets and every query `q`: every document of an acknowledged bulk whose tokens satisfy `q` is in the
complete proxy answer within the limit semantics, its bytes verbatim on fetch, and nothing that was never ingested is
returned.*

Proved here, from
* **C09** (formal): `hack` - the replica client acknowledged the bulk (`storeDocuments`, any visiting orders, outcomes,
  circuit states, retries);
* **C16 ∘ C05 ∘ C02/C03** (formal, `sys_read`): the read hypotheses - at read time shard `s` serves the fraction
  indexes `fracs s` (well formed), every shard has an answering replica, whose response is `SearchDocs`;
* **interface I1** (hypothesis; both halves proved in their own models, `sys_i1_durable`, `sys_i1_indexed`, and the
  token content by C10's `c10_stored_metas` / `c10_c17_collector_view` over C11's `indexField`): a store whose `Bulk`
  call for this payload returned success is one of the shards read, and serves every document of the bulk - read as
  `Spec.Doc`: ID by C10's time rule, tokens by C11's `indexField` - in its fraction indexes at read time, whatever
  crashed, sealed or was re-delivered in between.
Conclusion: the answer is complete and unflagged; every document of the acknowledged bulk that matches `q` inside the
window is in the ordered duplicate-free list the page is cut from (hence in the page when the page covers the list);
every returned ID belongs to a stored matching document.
Missing for the full statement: I1 as a theorem (the representation changes C01 `WPath.Index` <-> C02 `Index` /
C03 sealed view <-> C05 `FracIdx`, and "stored documents = union over acknowledged bulks" for the *only ingested*
direction), the parser step from query text to the literal (C12), and the fetch bytes (`sys_fetch_verbatim_partial`). -/
theorem sys_acked_found_partial (c : Merge.Cfg) (q : Query) (from_ to_ : Nat) (hot : List (List Call))
    (hotArr coldArr : List (Nat × ShardRes)) (hh : hotArr.Perm (indexed 0 (hot.map searchShard)))
    (offset size : Nat) (hlim : limitWraps offset size = false) (rev : Bool) (hdesc : c.desc = !rev)
    (fracs : Nat → List Merge.FracIdx)
    (hok : ∀ s, ∀ f ∈ fracs s, f.OK from_)
    (hmax : ∀ s, c.maxHits = 0 ∨ (Merge.filterInRange (storeFracs (fracs s) q from_ to_) from_ to_).length ≤ c.maxHits)
    (hne : hot ≠ []) (hall : ∀ calls ∈ hot, (searchShard calls).isOk = true)
    (hans : ∀ s calls rep ids t e, hot[s]? = some calls → searchShard calls = .ok rep ids t e →
      (∀ i ∈ ids, i.2 < Merge.R) ∧
      ∃ r, Merge.searchDocs c (storeFracs (fracs s) q from_ to_) from_ to_ (offset + size) = some r ∧
        r.ids = ids.map keyOf)
    -- C09
    (coldT hotT : Replica.Tier) (oracle : List (List (Nat × Replica.Call) × List (Nat × Replica.Call)))
    (hack : (Replica.storeDocuments coldT hotT oracle Replica.init).1 = true) (hS : hotT.S ≠ 0)
    -- the documents of the acknowledged bulk, as the Spec sees them
    (bulk : List Doc)
    -- interface I1
    (I1 : ∀ s, (∀ r, r < hotT.R → (s, r) ∈ (Replica.storeDocuments coldT hotT oracle Replica.init).2.hotLog) →
      s < hot.length ∧ ∀ d ∈ bulk, d ∈ storedDocs (fracs s)) :
    ∃ ids t e, search hotArr coldArr offset size rev = .ok ids t e false false ∧
      ids.map (fun x => toSpecID x.1) =
        (((fullList (allDocs hot.length fracs) q from_ to_ rev).take (offset + size)).drop offset).take size ∧
      (∀ d ∈ bulk, inWindow from_ to_ d = true → docMatches q d = true →
        d.id ∈ fullList (allDocs hot.length fracs) q from_ to_ rev) ∧
      (offset = 0 → (fullList (allDocs hot.length fracs) q from_ to_ rev).length ≤ size →
        ∀ d ∈ bulk, inWindow from_ to_ d = true → docMatches q d = true → ∃ x ∈ ids, toSpecID x.1 = d.id) ∧
      (∀ x ∈ ids, ∃ d ∈ allDocs hot.length fracs, d.id = toSpecID x.1 ∧ inWindow from_ to_ d = true ∧
        docMatches q d = true) := by
  obtain ⟨ids, t, e, h1, h2, _, hsound, hcompl, hpage⟩ := sys_read c q from_ to_ hot hotArr coldArr hh offset size hlim
    rev hdesc fracs hok hmax hne hall hans
  obtain ⟨s, hs⟩ := sys_ack_full_set coldT hotT oracle hack hS
  obtain ⟨hlt, hdocs⟩ := I1 s hs
  have hin : ∀ d ∈ bulk, d ∈ allDocs hot.length fracs := fun d hd => sys_mem_allDocs _ fracs s hlt d (hdocs d hd)
  exact ⟨ids, t, e, h1, h2, fun d hd hw hm => hcompl d (hin d hd) hw hm,
    fun h0 hlen d hd hw hm => hpage h0 hlen d (hin d hd) hw hm, hsound⟩

/-- the same for one token of one document: the query `field:value` for a token the indexer emitted finds it -/
theorem sys_acked_token_found_partial (c : Merge.Cfg) (f v : Bytes) (from_ to_ : Nat) (hot : List (List Call))
    (hotArr coldArr : List (Nat × ShardRes)) (hh : hotArr.Perm (indexed 0 (hot.map searchShard)))
    (offset size : Nat) (hlim : limitWraps offset size = false) (rev : Bool) (hdesc : c.desc = !rev)
    (fracs : Nat → List Merge.FracIdx)
    (hok : ∀ s, ∀ fr ∈ fracs s, fr.OK from_)
    (hmax : ∀ s, c.maxHits = 0 ∨
      (Merge.filterInRange (storeFracs (fracs s) (.leaf (.lit f [.text v])) from_ to_) from_ to_).length ≤ c.maxHits)
    (hne : hot ≠ []) (hall : ∀ calls ∈ hot, (searchShard calls).isOk = true)
    (hans : ∀ s calls rep ids t e, hot[s]? = some calls → searchShard calls = .ok rep ids t e →
      (∀ i ∈ ids, i.2 < Merge.R) ∧
      ∃ r, Merge.searchDocs c (storeFracs (fracs s) (.leaf (.lit f [.text v])) from_ to_) from_ to_ (offset + size) = some r ∧
        r.ids = ids.map keyOf)
    (coldT hotT : Replica.Tier) (oracle : List (List (Nat × Replica.Call) × List (Nat × Replica.Call)))
    (hack : (Replica.storeDocuments coldT hotT oracle Replica.init).1 = true) (hS : hotT.S ≠ 0)
    (bulk : List Doc)
    (I1 : ∀ s, (∀ r, r < hotT.R → (s, r) ∈ (Replica.storeDocuments coldT hotT oracle Replica.init).2.hotLog) →
      s < hot.length ∧ ∀ d ∈ bulk, d ∈ storedDocs (fracs s))
    (d : Doc) (hd : d ∈ bulk) (htok : (f, v) ∈ d.tokens) (hw : inWindow from_ to_ d = true) :
    ∃ ids t e, search hotArr coldArr offset size rev = .ok ids t e false false ∧
      d.id ∈ fullList (allDocs hot.length fracs) (.leaf (.lit f [.text v])) from_ to_ rev ∧
      (offset = 0 → (fullList (allDocs hot.length fracs) (.leaf (.lit f [.text v])) from_ to_ rev).length ≤ size →
        ∃ x ∈ ids, toSpecID x.1 = d.id) := by
  obtain ⟨ids, t, e, h1, _, h3, h4, _⟩ := sys_acked_found_partial c (.leaf (.lit f [.text v])) from_ to_ hot hotArr
    coldArr hh offset size hlim rev hdesc fracs hok hmax hne hall hans coldT hotT oracle hack hS bulk I1
  have hm := sys_token_findable d f v htok
  exact ⟨ids, t, e, h1, h3 d hd hw hm, fun h0 hlen => h4 h0 hlen d hd hw hm⟩

/-- **sys_ingest_to_read_active - the chain with I1 discharged** for stores that serve the active fraction their append
pipeline reached (no crash, nothing sealed yet).  `hist s` = the bulks of metas shard `s`'s store was handed, in order
(C10: `toCollector` of `metasFor` of the accepted documents - `c10_stored_metas`, `c10_c17_collector_view`); the shard
serves `activeFrac (reached (hist s))`.  Hypotheses by origin: C17/C02 - `hd hs hg` (ids distinct inside a bulk, no
nested metas, uint64 ids); C05 - `hmax`; C16 - `hh hlim hne hall`; link C16-C05 - `hans`, `hdesc`; C09 - `hack hS`;
junction **J** (the store's `Bulk` handler, not modelled) - for the shard all of whose replicas returned success (C09's
full set) `s` is one of the shards read and the serving store's pipeline was handed the bulk `B`; `hfirst` - the documents of `B`
are first deliveries there (re-deliveries are dropped, `c17_idempotent`).
Conclusion: for every meta `m` of the acknowledged bulk and every token `field:value` the indexer emitted for it, with
the document's MID inside the window, the query `field:value` gets a complete unflagged answer whose ordered list
contains `m`'s ID (and whose page contains it when the page covers the list), and every returned ID belongs to a
stored document matching the query. -/
theorem sys_ingest_to_read_active (c : Merge.Cfg) (f v : Bytes) (from_ to_ : Nat) (hot : List (List Call))
    (hotArr coldArr : List (Nat × ShardRes)) (hh : hotArr.Perm (indexed 0 (hot.map searchShard)))
    (offset size : Nat) (hlim : limitWraps offset size = false) (rev : Bool) (hdesc : c.desc = !rev)
    (hist : Nat → List (List Collector.Meta))
    (hd : ∀ s, Collector.DistinctBulks (hist s)) (hs : ∀ s, Collector.NonEmptyDocs (hist s))
    (hg : ∀ s, ActiveReach.GoodIDs (hist s))
    (hmax : ∀ s, c.maxHits = 0 ∨ (Merge.filterInRange
      (storeFracs [activeFrac (reached (hist s))] (.leaf (.lit f [.text v])) from_ to_) from_ to_).length ≤ c.maxHits)
    (hne : hot ≠ []) (hall : ∀ calls ∈ hot, (searchShard calls).isOk = true)
    (hans : ∀ s calls rep ids t e, hot[s]? = some calls → searchShard calls = .ok rep ids t e →
      (∀ i ∈ ids, i.2 < Merge.R) ∧
      ∃ r, Merge.searchDocs c (storeFracs [activeFrac (reached (hist s))] (.leaf (.lit f [.text v])) from_ to_)
        from_ to_ (offset + size) = some r ∧ r.ids = ids.map keyOf)
    (coldT hotT : Replica.Tier) (oracle : List (List (Nat × Replica.Call) × List (Nat × Replica.Call)))
    (hack : (Replica.storeDocuments coldT hotT oracle Replica.init).1 = true) (hS : hotT.S ≠ 0)
    (B : List Collector.Meta)
    (J : ∀ s, (∀ r, r < hotT.R → (s, r) ∈ (Replica.storeDocuments coldT hotT oracle Replica.init).2.hotLog) →
      s < hot.length ∧ B ∈ hist s)
    (hfirst : ∀ s, B ∈ hist s → ∀ m ∈ B, m ∈ ActiveReach.keptRun Collector.Active.empty (hist s))
    (m : Collector.Meta) (hm : m ∈ B) (tok : Collector.MetaToken) (htok : tok ∈ m.tokens)
    (hfv : ActiveReach.splitTok tok.bytes = (f, v)) (hwin : from_ ≤ m.id.1 ∧ m.id.1 ≤ to_) :
    ∃ ids t e, search hotArr coldArr offset size rev = .ok ids t e false false ∧
      ActiveReach.toID m.id ∈ fullList (allDocs hot.length fun s => [activeFrac (reached (hist s))])
        (.leaf (.lit f [.text v])) from_ to_ rev ∧
      (offset = 0 → (fullList (allDocs hot.length fun s => [activeFrac (reached (hist s))])
          (.leaf (.lit f [.text v])) from_ to_ rev).length ≤ size → ∃ x ∈ ids, toSpecID x.1 = ActiveReach.toID m.id) ∧
      (∀ x ∈ ids, ∃ d ∈ allDocs hot.length (fun s => [activeFrac (reached (hist s))]), d.id = toSpecID x.1 ∧
        inWindow from_ to_ d = true ∧ docMatches (.leaf (.lit f [.text v])) d = true) := by
  have hok : ∀ s, ∀ fr ∈ (fun s => [activeFrac (reached (hist s))]) s, fr.OK from_ := by
    intro s fr hfr
    simp only [List.mem_singleton] at hfr
    subst hfr
    exact (sys_i1_active (hist s) (hd s) (hs s) (hg s) from_).1
  obtain ⟨ids, t, e, h1, _, _, hsound, hcompl, hpage⟩ := sys_read c (.leaf (.lit f [.text v])) from_ to_ hot hotArr
    coldArr hh offset size hlim rev hdesc (fun s => [activeFrac (reached (hist s))]) hok hmax hne hall hans
  obtain ⟨s, hsFull⟩ := sys_ack_full_set coldT hotT oracle hack hS
  obtain ⟨hlt, hB⟩ := J s hsFull
  obtain ⟨d, hdIn, hdid, hdtok⟩ := (sys_i1_active (hist s) (hd s) (hs s) (hg s) from_).2 m (hfirst s hB m hm)
  have hdAll : d ∈ allDocs hot.length (fun s => [activeFrac (reached (hist s))]) := sys_mem_allDocs _ _ s hlt d hdIn
  have hmatch : docMatches (.leaf (.lit f [.text v])) d = true :=
    sys_token_findable d f v (by rw [← hfv]; exact hdtok tok htok)
  have hw : inWindow from_ to_ d = true := by
    simp only [inWindow, hdid, ActiveReach.toID, Bool.and_eq_true, decide_eq_true_eq]
    exact hwin
  refine ⟨ids, t, e, h1, by rw [← hdid]; exact hcompl d hdAll hw hmatch, ?_, hsound⟩
  intro h0 hlen
  obtain ⟨x, hx, hxe⟩ := hpage h0 hlen d hdAll hw hmatch
  exact ⟨x, hx, by rw [hxe, hdid]⟩

/-- **bytes on fetch (partial).**  Interface I2 (C04 `c04_fetch_eq_spec` / C01 `sys_i1_durable`, not composed): every
block a store sends for an ID carries the stored document's bytes (`bodyOf id`, an opaque token in the C16 model).  Then
in a successful `Search` with fetch the i-th document is the i-th ID's and its bytes are empty or exactly the stored
ones.  (That they are non-empty when the store delivers in order is `c16_docs_complete`.) -/
theorem sys_fetch_verbatim_partial (hot cold : List (Nat × ShardRes)) (offset size : Nat) (rev : Bool) (hint : Nat)
    (order : List Nat) (behav : Nat → Option (List DocsMerge.Ev)) (bodyOf : ProxySearch.ID → Nat)
    (I2 : ∀ src evs id data, behav src = some evs → DocsMerge.Ev.doc id data ∈ evs → data = 0 ∨ data = bodyOf id)
    (ids : List (ProxySearch.ID × Src)) (t e : Nat) (p c : Bool) (docs : List DocsMerge.Doc)
    (h : ProxyRead.searchAndFetch hot cold offset size rev hint true order behav = .ok ids t e p c docs) :
    docs = [] ∨ (docs.length = ids.length ∧
      ∀ (i : Nat) (x : ProxySearch.ID × Src) (d : DocsMerge.Doc), ids[i]? = some x → docs[i]? = some d →
        d.id = x.1 ∧ (d.data = 0 ∨ d.data = bodyOf x.1)) := by
  rcases SV.Props.C16.c16_response_aligned hot cold offset size rev hint true order behav ids t e p c docs h with h0 | ⟨hl, hp⟩
  · exact Or.inl h0
  · refine Or.inr ⟨hl, ?_⟩
    intro i x d hx hd
    obtain ⟨a, _, b⟩ := hp i x d hx hd
    refine ⟨a, ?_⟩
    rcases b with b | ⟨evs, hb, he⟩
    · exact Or.inl b
    · exact I2 _ evs _ _ hb he

/-! ## non-vacuity -/

/-- two bulks as the store is handed them (the second re-delivers a document): the hypotheses of `sys_i1_active` /
`sys_ingest_to_read_active` on the history are met, and the token `a:x` of the first document is read back as
`(a, x)` -/
example :
    let h : List (List Collector.Meta) :=
      [[⟨(7, 1), 10, [⟨[95, 97, 108, 108, 95], []⟩, ⟨[97], [120]⟩], 1⟩, ⟨(5, 9), 8, [⟨[95, 97, 108, 108, 95], []⟩], 2⟩],
       [⟨(7, 1), 10, [⟨[95, 97, 108, 108, 95], []⟩, ⟨[97], [120]⟩], 1⟩,
        ⟨(7, 2), 9, [⟨[95, 97, 108, 108, 95], []⟩, ⟨[97], [120]⟩], 3⟩]]
    Collector.DistinctBulks h ∧ Collector.NonEmptyDocs h ∧ ActiveReach.GoodIDs h ∧
      ActiveReach.splitTok (Collector.MetaToken.bytes ⟨[97], [120]⟩) = ([97], [120]) := by
  intro h
  refine ⟨?_, ?_, ?_, by decide⟩
  · intro b hb; simp [h] at hb; rcases hb with rfl | rfl <;> decide
  · intro b hb m hm; simp [h] at hb; rcases hb with rfl | rfl <;> simp at hm <;> rcases hm with rfl | rfl <;> decide
  · intro b hb m hm; simp [h] at hb
    rcases hb with rfl | rfl <;> simp at hm <;> rcases hm with rfl | rfl <;> simp [Borders.maxU64]

/-- an acknowledged bulk: one hot shard with two replicas, the first attempt half-fails, the second completes -/
example :
    (Replica.storeDocuments ⟨0, 0⟩ ⟨1, 2⟩
      [([], [(0, .exec [true, false] false)]), ([], [(0, .exec [false, true] false)])] Replica.init).1 = true := by decide

end SV.Sys
