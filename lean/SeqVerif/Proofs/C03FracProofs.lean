import SeqVerif.Model.C03Frac
import SeqVerif.Proofs.C03Posting
import SeqVerif.Proofs.C03IdsProofs
import SeqVerif.Proofs.C03TokensProofs
/-!
# C03 proofs: the sealed index answers every index-interface call like the active index it was sealed from
-/
namespace SV.C03

/-- the state of an active fraction that is no longer written (what `Seal` and the data provider see) -/
structure Quiescent (a : Active) : Prop where
  lens : a.rids.length = a.mids.length
  all : a.allDocs.length + 1 = a.mids.length      -- every LID 1..n is in the all-documents list
  nodup : a.allDocs.Nodup
  inrange : ∀ l, l ∈ a.allDocs → l < a.mids.length
  bounded : ∀ x, x ∈ sealedIDs a → x.1 < 18446744073709551616 ∧ x.2 < 18446744073709551616
  desc : DescIDs (sealedIDs a)
  posts : ∀ fl, fl ∈ a.fields → ∀ t, t ∈ fl → t.post ≠ [] ∧ t.post.Sublist a.allDocs

theorem getD_set_self (arr : List Nat) (v x : Nat) (h : v < arr.length) : (arr.set v x).getD v 0 = x := by
  simp [List.getD, List.getElem?_set, h]

theorem getD_set_ne (arr : List Nat) (v w x : Nat) (h : w ≠ v) : (arr.set v x).getD w 0 = arr.getD w 0 := by
  simp [List.getD, List.getElem?_set, Ne.symm h]

theorem buildGo_spec : ∀ (vs : List Nat) (i : Nat) (arr : List Nat), vs.Nodup → (∀ v, v ∈ vs → v < arr.length) →
    (buildGo vs i arr).length = arr.length ∧
    (∀ k (hk : k < vs.length), (buildGo vs i arr).getD vs[k] 0 = i + k + 1) ∧
    (∀ x, x ∉ vs → (buildGo vs i arr).getD x 0 = arr.getD x 0) := by
  intro vs
  induction vs with
  | nil => intro i arr _ _; exact ⟨rfl, by intro k hk; simp at hk, by intro x _; rfl⟩
  | cons v vs ih =>
    intro i arr hnd hr
    have hnd' := List.nodup_cons.mp hnd
    have hv : v < arr.length := hr v (by simp)
    obtain ⟨h1, h2, h3⟩ := ih (i + 1) (arr.set v (i + 1)) hnd'.2 (by intro w hw; simpa using hr w (List.mem_cons_of_mem _ hw))
    simp only [buildGo]
    refine ⟨by simpa using h1, ?_, ?_⟩
    · intro k hk
      cases k with
      | zero =>
        simp only [List.getElem_cons_zero]
        rw [h3 v hnd'.1, getD_set_self arr v _ hv]
      | succ k =>
        simp only [List.getElem_cons_succ]
        rw [h2 k (by simpa using hk)]
        omega
    · intro x hx
      have hx' : x ≠ v ∧ x ∉ vs := by simpa using hx
      rw [h3 x hx'.2, getD_set_ne arr v x _ hx'.1]

theorem newLID_at (a : Active) (h : Quiescent a) (k : Nat) (hk : k < a.allDocs.length) :
    a.newLID a.allDocs[k] = k + 1 ∧ a.index.length = a.mids.length := by
  have := buildGo_spec a.allDocs 0 (List.replicate a.mids.length 0) h.nodup (by intro v hv; simpa using h.inrange v hv)
  refine ⟨?_, by simpa [Active.index, buildIndex] using this.1⟩
  have h2 := this.2.1 k hk
  simpa [Active.newLID, Active.index, buildIndex] using h2

theorem newLID_sorted (a : Active) (h : Quiescent a) : Sorted (a.allDocs.map a.newLID) := by
  apply List.pairwise_iff_getElem.mpr
  intro i j hi hj hij
  simp only [List.length_map] at hi hj
  simp only [List.getElem_map]
  rw [(newLID_at a h i hi).1, (newLID_at a h j hj).1]
  omega

theorem post_facts (a : Active) (h : Quiescent a) (post : List Nat) (hs : post.Sublist a.allDocs) :
    Sorted (post.map a.newLID) ∧ ∀ v, v ∈ post → v < a.index.length ∧ a.newLID v > 0 := by
  refine ⟨(newLID_sorted a h).sublist (hs.map _), ?_⟩
  intro v hv
  have hmem := hs.subset hv
  obtain ⟨k, hk, hvk⟩ := List.getElem_of_mem hmem
  have := newLID_at a h k hk
  rw [hvk] at this
  rw [this.2]
  exact ⟨h.inrange v hmem, by omega⟩

theorem inverseLIDs_eq (inv : List Nat) (post : List Nat) (minL maxL : Nat)
    (h : ∀ v, v ∈ post → v < inv.length ∧ inv.getD v 0 > 0) :
    inverseLIDs inv post minL maxL = (post.map (fun v => inv.getD v 0)).filter (inWin minL maxL) := by
  induction post with
  | nil => rfl
  | cons v vs ih =>
    have hv := h v (by simp)
    have ih' := ih (fun w hw => h w (List.mem_cons_of_mem _ hw))
    simp only [inverseLIDs, List.filterMap_cons, List.map_cons, List.filter_cons] at ih' ⊢
    by_cases hw : minL ≤ inv.getD v 0 ∧ inv.getD v 0 ≤ maxL
    · have hc : v < inv.length ∧ inv.getD v 0 > 0 ∧ minL ≤ inv.getD v 0 ∧ inv.getD v 0 ≤ maxL := ⟨hv.1, hv.2, hw.1, hw.2⟩
      have hin : inWin minL maxL (inv.getD v 0) = true := by
        unfold inWin; rw [decide_eq_true hw.1, decide_eq_true hw.2]; rfl
      simp only [hc, and_self, if_true, hin]
      rw [ih']
    · have hc : ¬ (v < inv.length ∧ inv.getD v 0 > 0 ∧ minL ≤ inv.getD v 0 ∧ inv.getD v 0 ≤ maxL) := by
        intro hc; exact hw ⟨hc.2.2.1, hc.2.2.2⟩
      have hin : inWin minL maxL (inv.getD v 0) = false := by
        simp only [inWin, Bool.and_eq_false_iff, decide_eq_false_iff_not]
        by_cases h1 : minL ≤ inv.getD v 0
        · right; intro h2; exact hw ⟨h1, h2⟩
        · left; exact h1
      simp only [hc, if_false, hin]
      rw [ih']
      rfl

/-- what the active fraction's posting node yields for a token whose posting list is part of the all-documents list -/
theorem activeNode_eq (a : Active) (h : Quiescent a) (post : List Nat) (hs : post.Sublist a.allDocs) (minL maxL : Nat) (rev : Bool) :
    activeNode a post minL maxL rev =
      (if rev then ((post.map a.newLID).filter (inWin minL maxL)).reverse else (post.map a.newLID).filter (inWin minL maxL)) := by
  unfold activeNode
  rw [inverseLIDs_eq a.index post minL maxL (fun v hv => by
    have := (post_facts a h post hs).2 v hv
    exact ⟨this.1, this.2⟩)]
  rfl

/-! ### the ID side -/

theorem sealedIDs_eq (a : Active) (h : Quiescent a) :
    sealedIDs a = (a.mids.getD 0 0, a.rids.getD 0 0) :: a.allDocs.map (fun l => (a.mids.getD l 0, a.rids.getD l 0)) := by
  have : a.mids.length - (a.allDocs.length + 1) = 0 := by have := h.all; omega
  simp [sealedIDs, this]

theorem sealedIDs_length (a : Active) (h : Quiescent a) : (sealedIDs a).length = a.allDocs.length + 1 := by
  simp [sealedIDs_eq a h]

theorem sealedIDs_get (a : Active) (h : Quiescent a) (lid : Nat) (h1 : 1 ≤ lid) (h2 : lid ≤ a.allDocs.length) :
    ∃ (hl : lid < (sealedIDs a).length) (m r : Nat), (sealedIDs a)[lid] = (m, r) ∧
      activeGetMID a lid = some m ∧ activeGetRID a lid = some r := by
  have hl : lid < (sealedIDs a).length := by rw [sealedIDs_length a h]; omega
  have hk : lid - 1 < a.allDocs.length := by omega
  have hin := h.inrange _ (List.getElem_mem hk)
  refine ⟨hl, a.mids[a.allDocs[lid - 1]], a.rids[a.allDocs[lid - 1]]'(by rw [h.lens]; exact hin), ?_, ?_, ?_⟩
  · obtain ⟨k, rfl⟩ : ∃ k, lid = k + 1 := ⟨lid - 1, by omega⟩
    simp only [sealedIDs_eq a h, List.getElem_cons_succ, List.getElem_map, Nat.add_sub_cancel]
    simp only [Nat.add_sub_cancel] at hin
    have hin2 : a.allDocs[k] < a.rids.length := by rw [h.lens]; exact hin
    simp [List.getD, List.getElem?_eq_getElem hin, List.getElem?_eq_getElem hin2]
  · have h0 : ¬ (lid = 0) := by omega
    simp [activeGetMID, h0, List.getElem?_eq_getElem hk, List.getElem?_eq_getElem hin]
  · have h0 : ¬ (lid = 0) := by omega
    have hin2 : a.allDocs[lid - 1] < a.rids.length := by rw [h.lens]; exact hin
    simp [activeGetRID, h0, List.getElem?_eq_getElem hk, List.getElem?_eq_getElem hin2]

theorem flatten_map_map {α β} (f : α → β) (l : List (List α)) : (l.map (·.map f)).flatten = l.flatten.map f := by
  rw [List.map_flatten]

/-- what both index forms have to agree on -/
structure IndexAgree (a : Active) (s : Sealed) : Prop where
  len : sealedLen s = activeLen a
  ids : ∀ lid, 1 ≤ lid → lid < activeLen a →
    sealedGetMID s lid = activeGetMID a lid ∧ sealedGetRID s lid = activeGetRID a lid ∧
    ∀ id, sealedLessOrEqual s lid id = activeLessOrEqual a lid id
  beyond : ∀ lid id, activeLen a ≤ lid → sealedLessOrEqual s lid id = some true
  tokens : ∀ tid (h1 : 1 ≤ tid) (h2 : tid ≤ a.fields.flatten.length),
    sealedTokenVal s tid = some (a.fields.flatten[tid - 1]'(by omega)).val ∧
    ∀ minL maxL rev, sealedNode s tid minL maxL rev =
      .ok (activeNode a (a.fields.flatten[tid - 1]'(by omega)).post minL maxL rev)

/-- **sealing preserves every answer of the index interface** -/
theorem seal_agrees (size cap rbs base : Nat) (posOf : ID → Nat) (a : Active) (h : Quiescent a) (hsize : 1 ≤ size) (hcap : 1 ≤ cap) :
    ∃ s, sealFrac size size cap rbs base posOf a = .ok s ∧ IndexAgree a s := by
  obtain ⟨tblocks, htb, htc, hta⟩ := genTokenBlocks_spec bsNew rbs bsNew_pos (a.fields.map (·.map (·.val)))
  simp only [sealFrac, htb]
  refine ⟨_, rfl, ?_⟩
  have hin : IDsInput size (sealedIDs a) := ⟨hsize, h.bounded⟩
  refine ⟨by simp [sealedLen, idsTableOf, sealedIDs_length a h, activeLen], ?_, ?_, ?_⟩
  · intro lid h1 h2
    obtain ⟨hl, m, r, hid, hm, hr⟩ := sealedIDs_get a h lid h1 (by simp [activeLen] at h2; omega)
    have gm := getMID_spec size (sealedIDs a) posOf hin lid hl
    have gr := getRID_spec size (sealedIDs a) posOf hin lid hl
    rw [hid] at gm gr
    refine ⟨by simpa [sealedGetMID, hm] using gm, by simpa [sealedGetRID, hr] using gr, ?_⟩
    intro id
    have := lessOrEqual_spec size (sealedIDs a) posOf hin h.desc lid id
    simp only [hl, dite_true, hid] at this
    simp only [sealedLessOrEqual, this, activeLessOrEqual, hm, hr, Option.map_some, idLE]
    split <;> rfl
  · intro lid id hge
    have := lessOrEqual_spec size (sealedIDs a) posOf hin h.desc lid id
    have hl : ¬ (lid < (sealedIDs a).length) := by rw [sealedIDs_length a h]; simp [activeLen] at hge; omega
    simpa [sealedLessOrEqual, hl] using this
  · intro tid h1 h2
    have hlt : tid - 1 < a.fields.flatten.length := by omega
    constructor
    · have := getValByTID_spec rbs base tblocks htc tid h1 (by rw [hta, flatten_map_map, List.length_map]; exact h2)
      rw [hta, flatten_map_map, List.getElem?_map, List.getElem?_eq_getElem hlt] at this
      simpa [sealedTokenVal] using this
    · intro minL maxL rev
      have hmem : a.fields.flatten[tid - 1] ∈ a.fields.flatten := List.getElem_mem _
      obtain ⟨fl, hfl, htf⟩ := List.mem_flatten.mp hmem
      have hp := h.posts fl hfl _ htf
      have hpost : ((a.fields.map (·.map (·.post))).flatten[tid - 1]?).getD [] = (a.fields.flatten[tid - 1]).post := by
        rw [flatten_map_map, List.getElem?_map, List.getElem?_eq_getElem hlt]; rfl
      have hpi : PostingInput cap a.newLID (a.fields.map (·.map (·.post))) tid := by
        refine ⟨hcap, ?_, h1, by rw [flatten_map_map, List.length_map]; exact h2, by rw [hpost]; exact (post_facts a h _ hp.2).1⟩
        intro fl' hfl' p hp'
        obtain ⟨fl0, hfl0, rfl⟩ := List.mem_map.mp hfl'
        obtain ⟨t0, ht0, rfl⟩ := List.mem_map.mp hp'
        exact (h.posts fl0 hfl0 t0 ht0).1
      rw [activeNode_eq a h _ hp.2]
      unfold sealedNode
      cases rev with
      | false =>
        simp only [Bool.false_eq_true, if_false]
        rw [← hpost]
        exact lidsBlocks_iterDesc_eq_filter cap a.newLID _ tid minL maxL hpi
      | true =>
        simp only [if_true]
        rw [← hpost]
        exact lidsBlocks_iterAsc_eq_filter cap a.newLID _ tid minL maxL hpi

end SV.C03
