import SeqVerif.Model.C03Tokens
/-!
# C03 proofs: `token.Table.SelectEntries` never drops the entry that holds a token starting with the hint
-/
namespace SV.C03

theorem lexLT_irrefl (a : List Nat) : lexLT a a = false := by
  induction a with
  | nil => rfl
  | cons x xs ih => simp [lexLT, ih]

theorem lexLT_trans : ∀ (a b c : List Nat), lexLT a b = true → lexLT b c = true → lexLT a c = true := by
  intro a
  induction a with
  | nil =>
    intro b c h1 h2
    cases c with
    | nil => cases b <;> simp [lexLT] at h2
    | cons z zs => rfl
  | cons x xs ih =>
    intro b c h1 h2
    cases b with
    | nil => simp [lexLT] at h1
    | cons y ys =>
      cases c with
      | nil => simp [lexLT] at h2
      | cons z zs =>
        simp only [lexLT] at h1 h2 ⊢
        by_cases hxy : x < y
        · by_cases hyz : y < z
          · have : x < z := by omega
            simp [this]
          · by_cases hzy : z < y
            · simp [hyz, hzy] at h2
            · have : y = z := by omega
              subst this
              simp [hxy]
        · by_cases hyx : y < x
          · simp [hxy, hyx] at h1
          · have : x = y := by omega
            subst this
            simp only [hxy, if_false] at h1
            by_cases hxz : x < z
            · simp [hxz]
            · by_cases hzx : z < x
              · simp [hxz, hzx] at h2
              · simp only [hxz, hzx, if_false] at h2 ⊢
                exact ih ys zs h1 h2

theorem lexLT_asymm (a b : List Nat) (h : lexLT a b = true) : lexLT b a = false := by
  cases hv : lexLT b a with
  | false => rfl
  | true => have := lexLT_trans a b a h hv; rw [lexLT_irrefl] at this; simp at this

theorem lexLT_total : ∀ (a b : List Nat), lexLT a b = false → lexLT b a = false → a = b := by
  intro a
  induction a with
  | nil => intro b h1 _; cases b with
    | nil => rfl
    | cons y ys => simp [lexLT] at h1
  | cons x xs ih =>
    intro b h1 h2
    cases b with
    | nil => simp [lexLT] at h2
    | cons y ys =>
      simp only [lexLT] at h1 h2
      by_cases hxy : x < y
      · simp [hxy] at h1
      · by_cases hyx : y < x
        · simp [hyx] at h2
        · have : x = y := by omega
          subst this
          simp only [hxy, if_false] at h1 h2
          rw [ih ys h1 h2]

/-- a <= b < c -/
theorem lexLE_LT_trans (a b c : List Nat) (h1 : lexLT b a = false) (h2 : lexLT b c = true) : lexLT a c = true := by
  cases hv : lexLT a b with
  | true => exact lexLT_trans a b c hv h2
  | false => rw [lexLT_total a b hv h1]; exact h2

/-- a < b <= c -/
theorem lexLT_LE_trans (a b c : List Nat) (h1 : lexLT a b = true) (h2 : lexLT c b = false) : lexLT a c = true := by
  cases hv : lexLT b c with
  | true => exact lexLT_trans a b c h1 hv
  | false => rw [← lexLT_total b c hv h2]; exact h1

/-- a <= b <= c -/
theorem lexLE_trans (a b c : List Nat) (h1 : lexLT b a = false) (h2 : lexLT c b = false) : lexLT c a = false := by
  cases hv : lexLT c a with
  | false => rfl
  | true => have := lexLT_LE_trans c a b hv h1; rw [this] at h2; simp at h2

/-- truncation is monotone: if the truncated strings are strictly ordered, so are the strings -/
theorem cut_lt : ∀ (k : Nat) (a b : List Nat), lexLT (cut a k) (cut b k) = true → lexLT a b = true := by
  intro k
  induction k with
  | zero => intro a b h; simp [cut, lexLT] at h
  | succ k ih =>
    intro a b h
    cases a with
    | nil =>
      cases b with
      | nil => simp [cut, lexLT] at h
      | cons y ys => rfl
    | cons x xs =>
      cases b with
      | nil => simp [cut, lexLT] at h
      | cons y ys =>
        simp only [cut, List.take_succ_cons, lexLT] at h ⊢
        by_cases hxy : x < y
        · simp [hxy]
        · by_cases hyx : y < x
          · simp [hxy, hyx] at h
          · simp only [hxy, hyx, if_false] at h ⊢
            exact ih xs ys h

theorem cut_le (k : Nat) (a b : List Nat) (h : lexLT b a = false) : lexLT (cut b k) (cut a k) = false := by
  cases hv : lexLT (cut b k) (cut a k) with
  | false => rfl
  | true => rw [cut_lt k b a hv] at h; simp at h

/-- the dictionary of one field as the table sees it: `maxVals` ascending, `minVal` below every token -/
structure SelectInput (hint minVal : Tok) (maxVals : List Tok) (v : Tok) (i : Nat) : Prop where
  hint_ne : hint ≠ []
  sorted : ∀ a b, a ≤ b → b < maxVals.length → lexLT (maxVals.getD b []) (maxVals.getD a []) = false
  min_le : lexLT v minVal = false
  idx : i < maxVals.length
  le_max : lexLT (maxVals.getD i []) v = false             -- v <= MaxVal of entry i
  gt_prev : ∀ j, j < i → lexLT (maxVals.getD j []) v = true  -- v above the MaxVal of every earlier entry
  pref : cut v hint.length = hint                          -- v starts with the hint

/-- **`SelectEntries` keeps the entry of every token that starts with the hint** -/
theorem select_sound (hint minVal : Tok) (maxVals : List Tok) (v : Tok) (i : Nat) (h : SelectInput hint minVal maxVals v i) :
    (selectEntries hint minVal maxVals).1 ≤ i ∧ i < (selectEntries hint minVal maxVals).2 := by
  unfold selectEntries
  simp only [h.hint_ne, if_false]
  -- the check against MinVal
  have hmin' : lexLT hint (cut minVal hint.length) = false := by
    cases hv : lexLT hint (cut minVal hint.length) with
    | false => rfl
    | true =>
      have h1 : lexLT (cut v hint.length) (cut minVal hint.length) = true := by rw [h.pref]; exact hv
      have := cut_lt _ _ _ h1
      rw [h.min_le] at this; simp at this
  simp only [hmin', Bool.false_eq_true, if_false]
  have hn := h.idx
  -- right border
  let g1 : Nat → Bool := fun k => lexLT hint (cut (maxVals.getD k []) hint.length)
  have hmono1 : Mono g1 0 (maxVals.length - 1) := by
    intro a b _ hab hb ha
    exact lexLT_LE_trans _ _ _ ha (cut_le _ _ _ (h.sorted a b hab (by omega)))
  have hb1 := searchGo_bounds g1 0 (maxVals.length - 1) (by omega)
  have hs1 := searchGo_spec g1 0 (maxVals.length - 1) hmono1 0 (maxVals.length - 1) (by omega) (by omega) (by omega)
    (by intro k _ hk; omega) (by intro k h1 h2; omega)
  have hi_le : i ≤ searchGo g1 0 (maxVals.length - 1) := by
    rcases Nat.lt_or_ge (searchGo g1 0 (maxVals.length - 1)) i with hlt | hge
    · have hg := hs1.2 _ (Nat.le_refl _) (by omega)
      have hprev := h.gt_prev _ hlt
      have := cut_le hint.length _ _ (lexLT_asymm _ _ hprev)
      rw [h.pref] at this
      simp only [g1] at hg
      rw [hg] at this; simp at this
    · exact hge
  -- left border
  let g2 : Nat → Bool := fun k => lexLE hint (cut (maxVals.getD k []) hint.length)
  generalize hr : 1 + searchGo g1 0 (maxVals.length - 1) = r at *
  have hrn : r ≤ maxVals.length := by omega
  have hmono2 : Mono g2 0 r := by
    intro a b _ hab hb ha
    simp only [g2, lexLE, Bool.not_eq_true'] at ha ⊢
    exact lexLE_trans _ _ _ ha (cut_le _ _ _ (h.sorted a b hab (by omega)))
  have hb2 := searchGo_bounds g2 0 r (by omega)
  have hs2 := searchGo_spec g2 0 r hmono2 0 r (by omega) (by omega) (by omega)
    (by intro k _ hk; omega) (by intro k h1 h2; omega)
  have hl_le : searchGo g2 0 r ≤ i := by
    rcases Nat.lt_or_ge i (searchGo g2 0 r) with hlt | hge
    · have hg := hs2.1 i (by omega) hlt
      simp only [g2, lexLE, Bool.not_eq_false'] at hg
      have := cut_le hint.length _ _ h.le_max
      rw [h.pref] at this
      rw [hg] at this; simp at this
    · exact hge
  exact ⟨hl_le, by omega⟩

end SV.C03
