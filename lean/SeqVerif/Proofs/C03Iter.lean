import SeqVerif.Proofs.C03Narrow
/-!
# C03 proofs, part 2: well-formed block lists and the iterators

`WF bs` is the *local* description of what the generator emits (every block consistent with its chunk count, every
chunk non-empty, adjacent blocks linked by "next adjusted MinTID = MaxTID (+1 when the posting list ended)").
`postOf tid bs` is the declarative content of the block list for a token.  The two theorems at the end say that the
iterators started by `GetFirst/LastBlockIndexForTID` yield exactly `postOf tid bs` cut to the LID window.
-/
namespace SV.C03

def Block.adj (b : Block) : Nat := if b.isContinued then b.minTID - 1 else b.minTID

def BlockOK (b : Block) : Prop :=
  (∀ c, c ∈ b.chunks → c ≠ []) ∧ b.maxTID + 1 = b.adj + b.chunks.length ∧ b.chunks ≠ []

def Link (b b' : Block) : Prop := b'.adj = if b.isLastLID then b.maxTID + 1 else b.maxTID

def Linked : List Block → Prop
  | [] => True
  | [_] => True
  | b :: b' :: rest => Link b b' ∧ Linked (b' :: rest)

def WF (bs : List Block) : Prop := (∀ b, b ∈ bs → BlockOK b) ∧ Linked bs

/-- the chunk of `tid` inside block `b`, if `b` covers `tid` -/
def chunkOf (tid : Nat) (b : Block) : Option (List Nat) :=
  if b.adj ≤ tid ∧ tid ≤ b.maxTID then b.chunks[tid - b.adj]? else none

def chunksOf (tid : Nat) (bs : List Block) : List (List Nat) := bs.filterMap (chunkOf tid)

/-- all postings of `tid` stored in the block list, in block order -/
def postOf (tid : Nat) (bs : List Block) : List Nat := (chunksOf tid bs).flatten

theorem BlockOK.adj_le {b : Block} (h : BlockOK b) : b.adj ≤ b.maxTID := by
  have h2 := h.2.1
  have : b.chunks.length ≠ 0 := by
    intro h0; exact h.2.2 (List.length_eq_zero_iff.mp h0)
  omega

theorem Linked.tail {b : Block} {bs : List Block} (h : Linked (b :: bs)) : Linked bs := by
  cases bs with
  | nil => trivial
  | cons b' r => exact h.2

theorem Linked.append_right : ∀ (l1 : List Block) {l2 : List Block}, Linked (l1 ++ l2) → Linked l2
  | [], _, h => h
  | _ :: l1, _, h => Linked.append_right l1 (Linked.tail h)

theorem Linked.append_left : ∀ (l1 : List Block) {l2 : List Block}, Linked (l1 ++ l2) → Linked l1
  | [], _, _ => trivial
  | [_], _, _ => trivial
  | a :: b :: l1, l2, h => by
    have h' : Link a b ∧ Linked (b :: (l1 ++ l2)) := h
    exact ⟨h'.1, Linked.append_left (b :: l1) h'.2⟩

theorem Linked.link_mid (l1 : List Block) (a b : Block) (l2 : List Block) (h : Linked (l1 ++ a :: b :: l2)) : Link a b :=
  (Linked.append_right l1 h).1

/-- along a linked list of consistent blocks, later blocks start at or after the MaxTID of earlier ones -/
theorem linked_adj_ge (b : Block) (rest : List Block) (hok : ∀ x, x ∈ b :: rest → BlockOK x) (hl : Linked (b :: rest)) :
    ∀ x, x ∈ rest → b.maxTID ≤ x.adj := by
  induction rest generalizing b with
  | nil => intro x hx; simp at hx
  | cons b' r ih =>
    intro x hx
    have hlink : Link b b' := hl.1
    have h1 : b.maxTID ≤ b'.adj := by
      unfold Link at hlink; split at hlink <;> omega
    rcases List.mem_cons.mp hx with rfl | hx
    · exact h1
    · have := ih b' (fun y hy => hok y (List.mem_cons_of_mem _ hy)) hl.2 x hx
      have := (hok b' (by simp)).adj_le
      omega

theorem maxTIDs_sorted (bs : List Block) (h : WF bs) : (bs.map (·.maxTID)).Pairwise (· ≤ ·) := by
  induction bs with
  | nil => simp
  | cons b rest ih =>
    simp only [List.map_cons, List.pairwise_cons]
    refine ⟨?_, ih ⟨fun x hx => h.1 x (List.mem_cons_of_mem _ hx), Linked.tail h.2⟩⟩
    intro m hm
    rcases List.mem_map.mp hm with ⟨x, hx, rfl⟩
    have := linked_adj_ge b rest h.1 h.2 x hx
    have := (h.1 x (List.mem_cons_of_mem _ hx)).adj_le
    omega

theorem adjs_sorted (bs : List Block) (h : WF bs) : (bs.map (·.adj)).Pairwise (· ≤ ·) := by
  induction bs with
  | nil => simp
  | cons b rest ih =>
    simp only [List.map_cons, List.pairwise_cons]
    refine ⟨?_, ih ⟨fun x hx => h.1 x (List.mem_cons_of_mem _ hx), Linked.tail h.2⟩⟩
    intro m hm
    rcases List.mem_map.mp hm with ⟨x, hx, rfl⟩
    have := linked_adj_ge b rest h.1 h.2 x hx
    have := (h.1 b (by simp)).adj_le
    omega

/-! ### table look-ups in terms of the blocks -/

theorem getD_map_mid {α} (f : Block → α) (d : α) (pre : List Block) (b : Block) (post : List Block) :
    ((pre ++ b :: post).map f).getD pre.length d = f b := by
  simp [List.getD]

theorem table_adj (pre : List Block) (b : Block) (post : List Block) :
    (tableOf (pre ++ b :: post)).adjMin pre.length = b.adj := by
  simp only [Table.adjMin, tableOf, getD_map_mid, Block.adj]

theorem table_max (pre : List Block) (b : Block) (post : List Block) :
    (tableOf (pre ++ b :: post)).maxTIDs.getD pre.length 0 = b.maxTID := by
  simp only [tableOf, getD_map_mid]

theorem table_adj_idx (bs : List Block) (i : Nat) (hi : i < bs.length) :
    (tableOf bs).adjMin i = (bs.map (·.adj)).getD i 0 ∧ (tableOf bs).maxTIDs.getD i 0 = (bs.map (·.maxTID)).getD i 0 := by
  have hsplit : bs = bs.take i ++ bs[i] :: bs.drop (i + 1) := by
    rw [List.getElem_cons_drop]; simp
  have hlen : (bs.take i).length = i := by simp; omega
  constructor
  · have h1 := table_adj (bs.take i) bs[i] (bs.drop (i + 1))
    have h2 := getD_map_mid (·.adj) 0 (bs.take i) bs[i] (bs.drop (i + 1))
    rw [← hsplit, hlen] at h1 h2
    rw [h1, h2]
  · rfl

/-! ### loading the chunk of a covered tid -/

theorem loadChunk_ok (pre : List Block) (b : Block) (post : List Block) (tid : Nat)
    (hok : BlockOK b) (h1 : b.adj ≤ tid) (h2 : tid ≤ b.maxTID) :
    ∃ lids, chunkOf tid b = some lids ∧ lids ≠ [] ∧
      loadChunk (pre ++ b :: post) (tableOf (pre ++ b :: post)) tid pre.length = .ok lids := by
  have hidx : tid - b.adj < b.chunks.length := by have := hok.2.1; omega
  refine ⟨b.chunks[tid - b.adj], ?_, hok.1 _ (List.getElem_mem _), ?_⟩
  · simp [chunkOf, h1, h2, List.getElem?_eq_getElem hidx]
  · unfold loadChunk
    have hget : (pre ++ b :: post)[pre.length]? = some b := by simp
    rw [hget]
    simp only [Table.chunksCount, table_adj, table_max]
    have hcnt : ¬ (b.chunks.length ≠ b.maxTID - b.adj + 1) := by have := hok.2.1; omega
    have hlt : ¬ (tid < b.adj) := by omega
    simp only [hcnt, hlt, if_false, List.getElem?_eq_getElem hidx]
    have hne := hok.1 _ (List.getElem_mem hidx)
    cases hc : b.chunks[tid - b.adj] with
    | nil => exact absurd hc hne
    | cons a t => rfl

theorem chunksOf_none_of_adj_gt (tid : Nat) (b : Block) (rest : List Block) (hok : ∀ x, x ∈ b :: rest → BlockOK x)
    (hl : Linked (b :: rest)) (h : tid < b.adj) : chunksOf tid (b :: rest) = [] := by
  unfold chunksOf
  rw [List.filterMap_eq_nil_iff]
  intro x hx
  have hadj : tid < x.adj := by
    rcases List.mem_cons.mp hx with rfl | hx
    · exact h
    · have := linked_adj_ge b rest hok hl x hx
      have := (hok b (by simp)).adj_le
      omega
  simp only [chunkOf]
  have : ¬ (x.adj ≤ tid ∧ tid ≤ x.maxTID) := by omega
  simp [this]

theorem chunksOf_none_of_max_lt (tid : Nat) (bs : List Block) (h : ∀ x, x ∈ bs → x.maxTID < tid) : chunksOf tid bs = [] := by
  unfold chunksOf
  rw [List.filterMap_eq_nil_iff]
  intro x hx
  have := h x hx
  simp only [chunkOf]
  have : ¬ (x.adj ≤ tid ∧ tid ≤ x.maxTID) := by omega
  simp [this]

theorem postOf_snoc (tid : Nat) (l : List Block) (b : Block) (lids : List Nat) (hc : chunkOf tid b = some lids) :
    postOf tid (l ++ [b]) = postOf tid l ++ lids := by
  unfold postOf chunksOf
  rw [List.filterMap_append, List.flatten_append]
  simp [List.filterMap_cons, hc]

theorem descLoop_false (bs : List Block) (t : Table) (tid minL maxL fuel bi : Nat) :
    descLoop bs t tid minL maxL fuel bi false = .ok [] := by
  cases fuel <;> simp [descLoop]

theorem ascLoop_false (bs : List Block) (t : Table) (tid minL maxL fuel bi : Nat) :
    ascLoop bs t tid minL maxL fuel bi false = .ok [] := by
  cases fuel <;> simp [ascLoop]

theorem hasNext_last (pre : List Block) (b : Block) (tid : Nat) :
    (tableOf (pre ++ [b])).hasNext pre.length tid = false := by
  simp [Table.hasNext, tableOf]

theorem hasNext_mid (pre : List Block) (b b' : Block) (rest : List Block) (tid : Nat) :
    (tableOf (pre ++ b :: b' :: rest)).hasNext pre.length tid = (b'.adj == tid) := by
  have h1 : ¬ ((tableOf (pre ++ b :: b' :: rest)).minTIDs.length - 1 = pre.length) := by
    simp [tableOf] <;> omega
  have h2 := table_adj (pre ++ [b]) b' rest
  simp only [List.append_assoc, List.cons_append, List.nil_append, List.length_append, List.length_cons, List.length_nil] at h2
  simp only [Table.hasNext, h1, if_false]
  rw [show pre.length + 1 = pre.length + (0 + 1) by omega, h2]

/-- filtering a sorted continuation beyond the window's end yields nothing -/
theorem filter_after (minL maxL : Nat) (lids more : List Nat) (hs : Sorted (lids ++ more)) (hne : lids ≠ [])
    (h : maxL ≤ lids.getLastD 0) : more.filter (inWin minL maxL) = [] := by
  apply filter_none
  intro y hy
  have hp := List.pairwise_append.mp hs
  have hlast : lids.getLastD 0 ∈ lids := by
    cases lids with
    | nil => exact absurd rfl hne
    | cons a t => simp only [List.getLastD_cons]; exact List.getLastD_mem_cons ..
  have := hp.2.2 _ hlast _ hy
  simp [inWin]; omega

theorem filter_before (minL maxL : Nat) (earlier lids : List Nat) (hs : Sorted (earlier ++ lids)) (hne : lids ≠ [])
    (h : minL > lids.headD 0) : earlier.filter (inWin minL maxL) = [] := by
  apply filter_none
  intro y hy
  have hp := List.pairwise_append.mp hs
  have hhead : lids.headD 0 ∈ lids := by
    cases lids with
    | nil => exact absurd rfl hne
    | cons a t => simp
  have := hp.2.2 _ hy _ hhead
  simp [inWin]; omega

/-- main induction for `IteratorDesc`: from a block that covers `tid`, walking forward -/
theorem descLoop_spec (bs : List Block) (tid minL maxL : Nat) :
    ∀ (rest pre : List Block) (b : Block), bs = pre ++ b :: rest → (∀ x, x ∈ b :: rest → BlockOK x) → Linked (b :: rest) →
      b.adj ≤ tid → tid ≤ b.maxTID → Sorted (postOf tid (b :: rest)) → ∀ fuel, rest.length + 1 ≤ fuel →
      descLoop bs (tableOf bs) tid minL maxL fuel pre.length true = .ok ((postOf tid (b :: rest)).filter (inWin minL maxL)) := by
  intro rest
  induction rest with
  | nil =>
    intro pre b hbs hok _ h1 h2 hs fuel hf
    obtain ⟨lids, hc, hne, hload⟩ := loadChunk_ok pre b [] tid (hok b (by simp)) h1 h2
    cases fuel with
    | zero => omega
    | succ fuel =>
      subst hbs
      have hpost : postOf tid [b] = lids := by simp [postOf, chunksOf, hc]
      rw [hpost] at hs ⊢
      simp only [descLoop, Bool.not_true, Bool.false_eq_true, if_false, hload, hasNext_last]
      have hn := narrowDesc_spec minL maxL lids false hs
      have h2' : (narrowDesc minL maxL lids false).2 = false := by
        cases hv : (narrowDesc minL maxL lids false).2 with
        | false => rfl
        | true => have := hn.2.1 hv; simp at this
      rw [h2', descLoop_false, hn.1]
      try simp
  | cons b' rest ih =>
    intro pre b hbs hok hl h1 h2 hs fuel hf
    obtain ⟨lids, hc, hne, hload⟩ := loadChunk_ok pre b (b' :: rest) tid (hok b (by simp)) h1 h2
    cases fuel with
    | zero => omega
    | succ fuel =>
      subst hbs
      have hpost : postOf tid (b :: b' :: rest) = lids ++ postOf tid (b' :: rest) := by
        simp [postOf, chunksOf, hc]
      rw [hpost] at hs ⊢
      have hp := List.pairwise_append.mp hs
      have hok' : ∀ x, x ∈ b' :: rest → BlockOK x := fun x hx => hok x (List.mem_cons_of_mem _ hx)
      simp only [descLoop, Bool.not_true, Bool.false_eq_true, if_false, hload, hasNext_mid]
      rw [List.filter_append]
      by_cases hadj : b'.adj = tid
      · -- the posting list continues in the next block
        have hbeq : (b'.adj == tid) = true := by simp [hadj]
        rw [hbeq]
        have hn := narrowDesc_spec minL maxL lids true hp.1
        have hrec := ih (pre ++ [b]) b' (by simp) hok' hl.2 (by omega) (by have := (hok' b' (by simp)).adj_le; omega) hp.2.1
          fuel (by simp at hf; omega)
        simp only [List.length_append, List.length_cons, List.length_nil, Nat.zero_add] at hrec
        cases hv : (narrowDesc minL maxL lids true).2 with
        | true =>
          rw [hrec, hn.1]
        | false =>
          rw [descLoop_false, hn.1, filter_after minL maxL lids _ hs hne (hn.2.2 rfl hv)]
      · have hlink : Link b b' := hl.1
        have hgt : tid < b'.adj := by
          unfold Link at hlink; split at hlink <;> omega
        have hbeq : (b'.adj == tid) = false := by simp [hadj]
        rw [hbeq]
        have hnone : postOf tid (b' :: rest) = [] := by
          simp [postOf, chunksOf_none_of_adj_gt tid b' rest hok' hl.2 hgt]
        have hn := narrowDesc_spec minL maxL lids false hp.1
        have h2' : (narrowDesc minL maxL lids false).2 = false := by
          cases hv : (narrowDesc minL maxL lids false).2 with
          | false => rfl
          | true => have := hn.2.1 hv; simp at this
        rw [h2', descLoop_false, hn.1, hnone]
        try simp

/-- main induction for `IteratorAsc`: from a block that covers `tid`, walking backward (`revpre` = earlier blocks reversed) -/
theorem ascLoop_spec (bs : List Block) (tid minL maxL : Nat) :
    ∀ (revpre : List Block) (b : Block) (post : List Block), bs = revpre.reverse ++ b :: post →
      (∀ x, x ∈ revpre.reverse ++ [b] → BlockOK x) → Linked (revpre.reverse ++ [b]) →
      b.adj ≤ tid → tid ≤ b.maxTID → Sorted (postOf tid (revpre.reverse ++ [b])) → ∀ fuel, revpre.length + 1 ≤ fuel →
      ascLoop bs (tableOf bs) tid minL maxL fuel revpre.length true =
        .ok ((postOf tid (revpre.reverse ++ [b])).filter (inWin minL maxL)).reverse := by
  intro revpre
  induction revpre with
  | nil =>
    intro b post hbs hok _ h1 h2 hs fuel hf
    obtain ⟨lids, hc, hne, hload⟩ := loadChunk_ok [] b post tid (hok b (by simp)) h1 h2
    cases fuel with
    | zero => omega
    | succ fuel =>
      simp only [List.reverse_nil, List.nil_append] at hbs hs ⊢
      subst hbs
      have hpost : postOf tid [b] = lids := by simp [postOf, chunksOf, hc]
      rw [hpost] at hs ⊢
      simp only [List.length_nil, List.nil_append] at hload ⊢
      simp only [ascLoop, Bool.not_true, Bool.false_eq_true, if_false, hload, Table.hasPrev, if_true]
      have hn := narrowAsc_spec minL maxL lids false hs
      have h2' : (narrowAsc minL maxL lids false).2 = false := by
        cases hv : (narrowAsc minL maxL lids false).2 with
        | false => rfl
        | true => have := hn.2.1 hv; simp at this
      rw [h2', ascLoop_false, hn.1]
      simp
  | cons b0 rp ih =>
    intro b post hbs hok hl h1 h2 hs fuel hf
    have hsplit : (b0 :: rp).reverse ++ b :: post = (rp.reverse ++ [b0]) ++ b :: post := by simp
    have hlen : (rp.reverse ++ [b0]).length = (b0 :: rp).length := by simp
    obtain ⟨lids, hc, hne, hload⟩ := loadChunk_ok (rp.reverse ++ [b0]) b post tid (hok b (by simp)) h1 h2
    rw [hlen, ← hsplit, ← hbs] at hload
    cases fuel with
    | zero => omega
    | succ fuel =>
      have hview : (b0 :: rp).reverse ++ [b] = (rp.reverse ++ [b0]) ++ [b] := by simp
      rw [hview] at hok hl hs ⊢
      have hpost : postOf tid ((rp.reverse ++ [b0]) ++ [b]) = postOf tid (rp.reverse ++ [b0]) ++ lids :=
        postOf_snoc tid _ b lids hc
      rw [hpost] at hs ⊢
      have hp := List.pairwise_append.mp hs
      have hok' : ∀ x, x ∈ rp.reverse ++ [b0] → BlockOK x := fun x hx => hok x (List.mem_append_left _ hx)
      have hl' : Linked (rp.reverse ++ [b0]) := Linked.append_left _ hl
      have hlink : Link b0 b := by
        have : Linked (rp.reverse ++ b0 :: b :: []) := by simpa using hl
        exact Linked.link_mid rp.reverse b0 b [] this
      have hprevmax : (tableOf bs).maxTIDs.getD rp.length 0 = b0.maxTID := by
        have := table_max rp.reverse b0 (b :: post)
        simp only [List.length_reverse] at this
        rw [hbs]
        simpa using this
      have hnz : ¬ ((b0 :: rp).length = 0) := by simp
      simp only [ascLoop, Bool.not_true, Bool.false_eq_true, if_false, hload, Table.hasPrev, hnz]
      simp only [List.length_cons, Nat.add_sub_cancel, hprevmax]
      rw [List.filter_append, List.reverse_append]
      by_cases hmax : b0.maxTID = tid
      · have hbeq : (b0.maxTID == tid) = true := by simp [hmax]
        rw [hbeq]
        have hn := narrowAsc_spec minL maxL lids true hp.2.1
        have hbs0 : bs = rp.reverse ++ b0 :: (b :: post) := by rw [hbs]; simp
        have hrec := ih b0 (b :: post) hbs0 hok' hl' (by have := (hok' b0 (by simp)).adj_le; omega) (by omega) hp.1
          fuel (by simp at hf; omega)
        cases hv : (narrowAsc minL maxL lids true).2 with
        | true => rw [hrec, hn.1]
        | false =>
          rw [ascLoop_false, hn.1]
          rcases hn.2.2 rfl hv with hgt | hnil
          · rw [filter_before minL maxL _ lids hs hne hgt]; simp
          · exact absurd hnil hne
      · have hlt : b0.maxTID < tid := by
          unfold Link at hlink; split at hlink <;> omega
        have hbeq : (b0.maxTID == tid) = false := by simp [hmax]
        rw [hbeq]
        have hnone : postOf tid (rp.reverse ++ [b0]) = [] := by
          have hsorted := maxTIDs_sorted (rp.reverse ++ [b0]) ⟨hok', hl'⟩
          rw [List.map_append, List.pairwise_append] at hsorted
          have : chunksOf tid (rp.reverse ++ [b0]) = [] := by
            apply chunksOf_none_of_max_lt
            intro x hx
            rcases List.mem_append.mp hx with hx | hx
            · have := hsorted.2.2 x.maxTID (List.mem_map.mpr ⟨x, hx, rfl⟩) b0.maxTID (by simp)
              omega
            · simp at hx; subst hx; exact hlt
          simp [postOf, this]
        have hn := narrowAsc_spec minL maxL lids false hp.2.1
        have h2' : (narrowAsc minL maxL lids false).2 = false := by
          cases hv : (narrowAsc minL maxL lids false).2 with
          | false => rfl
          | true => have := hn.2.1 hv; simp at this
        rw [h2', ascLoop_false, hn.1, hnone]
        simp

end SV.C03
