import SeqVerif.Proofs.C03Iter
/-!
# C03 proofs, part 4: the LID block generator emits a well-formed block list that stores every posting list

`pairs bs` is the flat list of (tid, lid) pairs stored in a block list; the generator's loop invariant says that the
pairs pushed so far plus the pairs of the block being filled are exactly the pairs of the tokens consumed so far.
-/
namespace SV.C03

def chunkPairs : Nat → List (List Nat) → List (Nat × Nat)
  | _, [] => []
  | t, c :: cs => c.map (fun l => (t, l)) ++ chunkPairs (t + 1) cs

def blockPairs (b : Block) : List (Nat × Nat) := chunkPairs b.adj b.chunks

def pairs (bs : List Block) : List (Nat × Nat) := bs.flatMap blockPairs

def sel (tid : Nat) (ps : List (Nat × Nat)) : List Nat := (ps.filter (fun p => p.1 == tid)).map (·.2)

/-- adjusted MinTID of the block that `newBlockFn` would create now -/
def Gen.adjG (g : Gen) : Nat := if g.isContinued then g.lastMaxTID else g.lastMaxTID + 1

def pairsG (f : Nat → Nat) (g : Gen) : List (Nat × Nat) :=
  pairs g.out ++ chunkPairs g.adjG (g.cur.map (·.map f))

theorem chunkPairs_append (t : Nat) (a b : List (List Nat)) :
    chunkPairs t (a ++ b) = chunkPairs t a ++ chunkPairs (t + a.length) b := by
  induction a generalizing t with
  | nil => simp [chunkPairs]
  | cons c cs ih =>
    simp only [List.cons_append, chunkPairs, ih, List.append_assoc, List.length_cons]
    rw [show t + 1 + cs.length = t + (cs.length + 1) by omega]

theorem sel_append (tid : Nat) (a b : List (Nat × Nat)) : sel tid (a ++ b) = sel tid a ++ sel tid b := by
  simp [sel]

theorem sel_map_same (tid : Nat) (c : List Nat) : sel tid (c.map (fun l => (tid, l))) = c := by
  induction c with
  | nil => rfl
  | cons a t ih =>
    simp only [sel, List.map_cons, List.filter_cons, beq_self_eq_true, if_true] at ih ⊢
    rw [ih]

theorem sel_map_other (tid t : Nat) (c : List Nat) (h : t ≠ tid) : sel tid (c.map (fun l => (t, l))) = [] := by
  induction c with
  | nil => rfl
  | cons a r ih =>
    have : (t == tid) = false := by simp [h]
    simp only [sel, List.map_cons, List.filter_cons, this] at ih ⊢
    simpa using ih

theorem sel_chunkPairs (tid : Nat) (cs : List (List Nat)) :
    ∀ t, sel tid (chunkPairs t cs) = if t ≤ tid then (cs[tid - t]?).getD [] else [] := by
  induction cs with
  | nil => intro t; simp [chunkPairs, sel]
  | cons c cs ih =>
    intro t
    simp only [chunkPairs, sel_append, ih (t + 1)]
    by_cases h1 : t = tid
    · subst h1
      have : ¬ (t + 1 ≤ t) := by omega
      simp [sel_map_same, this]
    · rw [sel_map_other tid t c h1]
      by_cases h2 : t ≤ tid
      · have h3 : t + 1 ≤ tid := by omega
        have h4 : tid - t = (tid - (t + 1)) + 1 := by omega
        simp only [h2, h3, if_true, List.nil_append]
        rw [h4, List.getElem?_cons_succ]
      · have h3 : ¬ (t + 1 ≤ tid) := by omega
        simp [h2, h3]

theorem chunkOf_eq_sel (tid : Nat) (b : Block) (hok : BlockOK b) :
    (chunkOf tid b).getD [] = sel tid (blockPairs b) := by
  unfold chunkOf blockPairs
  rw [sel_chunkPairs]
  by_cases h1 : b.adj ≤ tid
  · by_cases h2 : tid ≤ b.maxTID
    · simp [h1, h2]
    · have : b.chunks.length ≤ tid - b.adj := by have := hok.2.1; omega
      simp [h1, h2, List.getElem?_eq_none this]
  · simp [h1]

theorem postOf_eq_sel (tid : Nat) (bs : List Block) (hok : ∀ b, b ∈ bs → BlockOK b) :
    postOf tid bs = sel tid (pairs bs) := by
  induction bs with
  | nil => rfl
  | cons b rest ih =>
    have hb := chunkOf_eq_sel tid b (hok b (by simp))
    have hr := ih (fun x hx => hok x (List.mem_cons_of_mem _ hx))
    have hcons : postOf tid (b :: rest) = (chunkOf tid b).getD [] ++ postOf tid rest := by
      simp only [postOf, chunksOf, List.filterMap_cons]
      cases chunkOf tid b <;> simp
    rw [hcons, hb, hr]
    simp [pairs, sel_append]

/-! ### structural invariant of the generator state -/

structure GInv (cap : Nat) (g : Gen) : Prop where
  ok : ∀ b, b ∈ g.out → BlockOK b
  linked : Linked g.out
  book : match g.out.getLast? with
    | none => g.lastMaxTID = 0 ∧ g.isContinued = false
    | some b => g.lastMaxTID = b.maxTID ∧ g.isContinued = !b.isLastLID
  curne : ∀ c, c ∈ g.cur → c ≠ []
  room : g.curLen < cap

theorem Linked.snoc (out : List Block) (b : Block) (hl : Linked out)
    (h : ∀ last, out.getLast? = some last → Link last b) : Linked (out ++ [b]) := by
  induction out with
  | nil => trivial
  | cons a rest ih =>
    cases rest with
    | nil => exact ⟨h a rfl, trivial⟩
    | cons a' rest' =>
      refine ⟨hl.1, ?_⟩
      apply ih hl.2
      intro last hlast
      apply h
      simpa [List.getLast?_cons_cons] using hlast

theorem newBlock_adj (f : Nat → Nat) (isLast : Bool) (g : Gen) :
    ∀ b, (newBlock f isLast g).out.getLast? = some b → b.adj = g.adjG ∧ b.maxTID = g.maxTID ∧ b.isLastLID = isLast ∧
      b.chunks = g.cur.map (·.map f) := by
  intro b hb
  simp only [newBlock, List.getLast?_append, List.getLast?_singleton, Option.some_or, Option.some.injEq] at hb
  subst hb
  refine ⟨?_, rfl, rfl, rfl⟩
  simp only [Block.adj, Gen.adjG]
  split <;> omega

theorem newBlock_inv (cap : Nat) (f : Nat → Nat) (isLast : Bool) (g : Gen) (hcap : 0 < cap)
    (hok : ∀ b, b ∈ g.out → BlockOK b) (hl : Linked g.out)
    (hbook : match g.out.getLast? with
      | none => g.lastMaxTID = 0 ∧ g.isContinued = false
      | some b => g.lastMaxTID = b.maxTID ∧ g.isContinued = !b.isLastLID)
    (hcurne : ∀ c, c ∈ g.cur → c ≠ []) (hne : g.cur ≠ []) (hcnt : g.adjG + g.cur.length = g.maxTID + 1) :
    GInv cap (newBlock f isLast g) ∧ pairsG f (newBlock f isLast g) = pairsG f g ∧
    (newBlock f isLast g).maxTID = g.maxTID ∧ (newBlock f isLast g).cur = [] ∧
    (newBlock f isLast g).adjG = (if isLast then g.maxTID + 1 else g.maxTID) := by
  have hlastb : (newBlock f isLast g).out.getLast? = some
      { minTID := g.lastMaxTID + 1, maxTID := g.maxTID, isContinued := g.isContinued, chunks := g.cur.map (·.map f), isLastLID := isLast } := by
    simp [newBlock]
  obtain ⟨hadj, -, -, -⟩ := newBlock_adj f isLast g _ hlastb
  refine ⟨⟨?_, ?_, ?_, ?_, ?_⟩, ?_, rfl, rfl, ?_⟩
  · intro b hb
    simp only [newBlock, List.mem_append, List.mem_singleton] at hb
    rcases hb with hb | rfl
    · exact hok b hb
    · refine ⟨?_, ?_, ?_⟩
      · intro c hc
        simp only [List.mem_map] at hc
        obtain ⟨c0, hc0, rfl⟩ := hc
        have := hcurne c0 hc0
        simpa using this
      · rw [hadj]; simp; omega
      · simpa using hne
  · apply Linked.snoc _ _ hl
    intro last hlast
    rw [hlast] at hbook
    unfold Link
    rw [hadj]
    simp only [Gen.adjG, hbook.1, hbook.2]
    cases last.isLastLID <;> simp
  · rw [hlastb]
    simp [newBlock]
  · intro c hc; simp [newBlock] at hc
  · simpa [newBlock, Gen.curLen] using hcap
  · simp only [pairsG, newBlock, pairs, List.flatMap_append, List.flatMap_cons, List.flatMap_nil, List.append_nil,
      List.map_nil, chunkPairs, blockPairs]
    rw [hadj]
  · simp only [newBlock, Gen.adjG]
    cases isLast <;> simp

theorem curLen_snoc (g : Gen) (c : List Nat) : ({ g with cur := g.cur ++ [c] } : Gen).curLen = g.curLen + c.length := by
  simp [Gen.curLen]

/-- the inner loop over one token's LIDs -/
theorem tokenLoop_inv (cap : Nat) (f : Nat → Nat) (hcap : 0 < cap) :
    ∀ (fuel : Nat) (rem : List Nat) (g : Gen), rem.length ≤ fuel → GInv cap g →
      (rem ≠ [] → g.adjG + g.cur.length = g.maxTID) → (rem = [] → g.adjG + g.cur.length = g.maxTID + 1) →
      GInv cap (tokenLoop cap f fuel rem g) ∧
      (tokenLoop cap f fuel rem g).adjG + (tokenLoop cap f fuel rem g).cur.length = (tokenLoop cap f fuel rem g).maxTID + 1 ∧
      (tokenLoop cap f fuel rem g).maxTID = g.maxTID ∧
      pairsG f (tokenLoop cap f fuel rem g) = pairsG f g ++ rem.map (fun l => (g.maxTID, f l)) := by
  intro fuel
  induction fuel with
  | zero =>
    intro rem g hlen hinv _ h2
    have hrem : rem = [] := List.length_eq_zero_iff.mp (by omega)
    subst hrem
    simp only [tokenLoop]
    refine ⟨hinv, h2 rfl, ?_, ?_⟩ <;> simp
  | succ fuel ih =>
    intro rem g hlen hinv h1 h2
    by_cases hrem : rem = []
    · subst hrem
      simp only [tokenLoop, if_true]
      refine ⟨hinv, h2 rfl, ?_, ?_⟩ <;> simp
    · simp only [tokenLoop, hrem, if_false]
      have hcnt := h1 hrem
      have hroom := hinv.room
      have hpos : 0 < rem.length := List.length_pos_iff.mpr hrem
      generalize hright : min (cap - g.curLen) rem.length = right
      have hr1 : 1 ≤ right := by omega
      have hr2 : right ≤ rem.length := by omega
      have hchunk : rem.take right ≠ [] := by
        intro h0
        have h3 : (rem.take right).length = 0 := by rw [h0]; rfl
        rw [List.length_take] at h3
        omega
      have hlen1 : ({ g with cur := g.cur ++ [rem.take right] } : Gen).curLen = g.curLen + right := by
        rw [curLen_snoc]; simp; omega
      have hpairs1 : pairsG f ({ g with cur := g.cur ++ [rem.take right] } : Gen) =
          pairsG f g ++ (rem.take right).map (fun l => (g.maxTID, f l)) := by
        simp only [pairsG, Gen.adjG, List.map_append, List.map_cons, List.map_nil, chunkPairs_append, chunkPairs,
          List.append_nil, List.length_map, List.append_assoc, List.map_map]
        have : (if g.isContinued then g.lastMaxTID else g.lastMaxTID + 1) + g.cur.length = g.maxTID := hcnt
        rw [this]
        rfl
      have hcurne1 : ∀ c, c ∈ g.cur ++ [rem.take right] → c ≠ [] := by
        intro c hc
        rcases List.mem_append.mp hc with hc | hc
        · exact hinv.curne c hc
        · simp at hc; subst hc; exact hchunk
      have hmap : rem.map (fun l => (g.maxTID, f l)) =
          (rem.take right).map (fun l => (g.maxTID, f l)) ++ (rem.drop right).map (fun l => (g.maxTID, f l)) := by
        rw [← List.map_append, List.take_append_drop]
      by_cases hfull : ({ g with cur := g.cur ++ [rem.take right] } : Gen).curLen = cap
      · simp only [hfull, if_true]
        have hnb := newBlock_inv cap f (rem.drop right).isEmpty ({ g with cur := g.cur ++ [rem.take right] } : Gen) hcap
          hinv.ok hinv.linked hinv.book hcurne1 (by simp)
          (by simp only [Gen.adjG, List.length_append, List.length_cons, List.length_nil] at hcnt ⊢; omega)
        obtain ⟨hginv, hp, hmax, hcur, hadj⟩ := hnb
        have hrec := ih (rem.drop right) _ (by simp; omega) hginv
          (by intro hne
              rw [hcur, hadj, hmax]
              have : (rem.drop right).isEmpty = false := by simpa using hne
              simp [this])
          (by intro he
              rw [hcur, hadj, hmax]
              simp [he])
        obtain ⟨r1, r2, r3, r4⟩ := hrec
        refine ⟨r1, r2, by rw [r3, hmax], ?_⟩
        rw [r4, hp, hpairs1, hmax, hmap, List.append_assoc]
      · simp only [hfull, if_false]
        have hlt : g.curLen + right < cap := by rw [hlen1] at hfull; omega
        have hrest : rem.drop right = [] := by
          apply List.drop_eq_nil_of_le; omega
        rw [hrest]
        have hginv : GInv cap ({ g with cur := g.cur ++ [rem.take right] } : Gen) :=
          ⟨hinv.ok, hinv.linked, hinv.book, hcurne1, by rw [hlen1]; exact hlt⟩
        have hrec := ih [] _ (by simp) hginv (by intro h; exact absurd rfl h)
          (by intro _
              simp only [Gen.adjG, List.length_append, List.length_cons, List.length_nil] at hcnt ⊢; omega)
        obtain ⟨r1, r2, r3, r4⟩ := hrec
        refine ⟨r1, r2, by rw [r3], ?_⟩
        rw [r4, hpairs1, hmap, hrest]
        simp

/-- state between tokens: structural invariant, chunk count bookkeeping -/
structure TInv (cap : Nat) (g : Gen) : Prop where
  inv : GInv cap g
  cnt : g.adjG + g.cur.length = g.maxTID + 1

theorem genToken_inv (cap : Nat) (f : Nat → Nat) (hcap : 0 < cap) (g : Gen) (post : List Nat) (hpost : post ≠ [])
    (h : TInv cap g) :
    TInv cap (genToken cap f g post) ∧ (genToken cap f g post).maxTID = g.maxTID + 1 ∧
    pairsG f (genToken cap f g post) = pairsG f g ++ post.map (fun l => (g.maxTID + 1, f l)) := by
  unfold genToken
  have hg0 : GInv cap ({ g with maxTID := g.maxTID + 1 } : Gen) :=
    ⟨h.inv.ok, h.inv.linked, h.inv.book, h.inv.curne, h.inv.room⟩
  have := tokenLoop_inv cap f hcap post.length post _ (Nat.le_refl _) hg0
    (by intro _; have := h.cnt; simpa [Gen.adjG] using this) (by intro he; exact absurd he hpost)
  obtain ⟨r1, r2, r3, r4⟩ := this
  exact ⟨⟨r1, r2⟩, r3, by rw [r4]; rfl⟩

theorem genTokens_inv (cap : Nat) (f : Nat → Nat) (hcap : 0 < cap) :
    ∀ (toks : List (List Nat)) (g : Gen), (∀ p, p ∈ toks → p ≠ []) → TInv cap g →
      TInv cap (toks.foldl (genToken cap f) g) ∧ (toks.foldl (genToken cap f) g).maxTID = g.maxTID + toks.length ∧
      pairsG f (toks.foldl (genToken cap f) g) = pairsG f g ++ chunkPairs (g.maxTID + 1) (toks.map (·.map f)) := by
  intro toks
  induction toks with
  | nil => intro g _ h; exact ⟨h, rfl, by simp [chunkPairs]⟩
  | cons p toks ih =>
    intro g hne h
    obtain ⟨t1, t2, t3⟩ := genToken_inv cap f hcap g p (hne p (by simp)) h
    obtain ⟨r1, r2, r3⟩ := ih (genToken cap f g p) (fun q hq => hne q (List.mem_cons_of_mem _ hq)) t1
    simp only [List.foldl_cons]
    refine ⟨r1, by rw [r2, t2]; simp; omega, ?_⟩
    rw [r3, t3, t2]
    simp [chunkPairs, List.map_map, Function.comp_def]

theorem cur_nil_of_curLen (g : Gen) (hne : ∀ c, c ∈ g.cur → c ≠ []) (h : ¬ g.curLen > 0) : g.cur = [] := by
  cases hc : g.cur with
  | nil => rfl
  | cons c cs =>
    have hcne := hne c (by simp [hc])
    have : 0 < c.length := List.length_pos_iff.mpr hcne
    have h3 : g.curLen = c.length + cs.flatten.length := by simp [Gen.curLen, hc]
    omega

theorem genField_inv (cap : Nat) (f : Nat → Nat) (hcap : 0 < cap) (toks : List (List Nat)) (g : Gen)
    (hne : ∀ p, p ∈ toks → p ≠ []) (h : TInv cap g) :
    TInv cap (genField cap f g toks) ∧ (genField cap f g toks).cur = [] ∧
    (genField cap f g toks).maxTID = g.maxTID + toks.length ∧
    pairsG f (genField cap f g toks) = pairsG f g ++ chunkPairs (g.maxTID + 1) (toks.map (·.map f)) := by
  obtain ⟨r1, r2, r3⟩ := genTokens_inv cap f hcap toks g hne h
  unfold genField
  simp only
  by_cases hlen : (toks.foldl (genToken cap f) g).curLen > 0
  · simp only [hlen, if_true]
    have hcne : (toks.foldl (genToken cap f) g).cur ≠ [] := by
      intro h0; simp [Gen.curLen, h0] at hlen
    obtain ⟨n1, n2, n3, n4, n5⟩ := newBlock_inv cap f true _ hcap r1.inv.ok r1.inv.linked r1.inv.book r1.inv.curne hcne r1.cnt
    refine ⟨⟨n1, by rw [n4, n5, n3]; simp⟩, n4, by rw [n3, r2], by rw [n2, r3]⟩
  · simp only [hlen, if_false]
    exact ⟨r1, cur_nil_of_curLen _ r1.inv.curne hlen, r2, r3⟩

theorem genFields_inv (cap : Nat) (f : Nat → Nat) (hcap : 0 < cap) :
    ∀ (fields : List (List (List Nat))) (g : Gen), (∀ fl, fl ∈ fields → ∀ p, p ∈ fl → p ≠ []) → TInv cap g → g.cur = [] →
      TInv cap (fields.foldl (genField cap f) g) ∧ (fields.foldl (genField cap f) g).cur = [] ∧
      pairsG f (fields.foldl (genField cap f) g) = pairsG f g ++ chunkPairs (g.maxTID + 1) (fields.flatten.map (·.map f)) := by
  intro fields
  induction fields with
  | nil => intro g _ h hc; exact ⟨h, hc, by simp [chunkPairs]⟩
  | cons fl fields ih =>
    intro g hne h hc
    obtain ⟨t1, t2, t3, t4⟩ := genField_inv cap f hcap fl g (hne fl (by simp)) h
    obtain ⟨r1, r2, r3⟩ := ih (genField cap f g fl) (fun x hx => hne x (List.mem_cons_of_mem _ hx)) t1 t2
    simp only [List.foldl_cons]
    refine ⟨r1, r2, ?_⟩
    rw [r3, t4, t3]
    simp only [List.flatten_cons, List.map_append, chunkPairs_append, List.length_map, List.append_assoc]
    rw [show g.maxTID + 1 + fl.length = g.maxTID + fl.length + 1 by omega]

theorem init_TInv (cap : Nat) (hcap : 0 < cap) : TInv cap Gen.init :=
  ⟨⟨by intro b hb; simp [Gen.init] at hb, trivial, by simp [Gen.init], by intro c hc; simp [Gen.init] at hc,
    by simpa [Gen.init, Gen.curLen] using hcap⟩, by simp [Gen.init, Gen.adjG]⟩

/-- **the generator's output is well formed and stores exactly the input posting lists (after LID re-assignment)** -/
theorem genBlocks_spec (cap : Nat) (f : Nat → Nat) (hcap : 1 ≤ cap) (fields : List (List (List Nat)))
    (hne : ∀ fl, fl ∈ fields → ∀ p, p ∈ fl → p ≠ []) :
    WF (genBlocks cap f fields) ∧
    ∀ tid, postOf tid (genBlocks cap f fields) =
      if 1 ≤ tid then ((fields.flatten.map (·.map f))[tid - 1]?).getD [] else [] := by
  obtain ⟨r1, r2, r3⟩ := genFields_inv cap f (by omega) fields Gen.init hne (init_TInv cap (by omega)) rfl
  have hwf : WF (genBlocks cap f fields) := ⟨r1.inv.ok, r1.inv.linked⟩
  refine ⟨hwf, ?_⟩
  intro tid
  rw [postOf_eq_sel tid _ hwf.1]
  have hp : pairs (genBlocks cap f fields) = chunkPairs 1 (fields.flatten.map (·.map f)) := by
    have h3 : pairsG f (fields.foldl (genField cap f) Gen.init) = pairs (genBlocks cap f fields) := by
      simp [pairsG, r2, chunkPairs, genBlocks]
    rw [← h3, r3]
    simp [pairsG, Gen.init, pairs, chunkPairs]
  rw [hp, sel_chunkPairs]

theorem covered_of_postOf_ne (tid : Nat) (bs : List Block) (h : postOf tid bs ≠ []) :
    ∃ c, c ∈ bs ∧ c.adj ≤ tid ∧ tid ≤ c.maxTID := by
  have hne : chunksOf tid bs ≠ [] := by
    intro h0; simp [postOf, h0] at h
  obtain ⟨x, hx⟩ := List.exists_mem_of_ne_nil _ hne
  simp only [chunksOf, List.mem_filterMap] at hx
  obtain ⟨b, hb, hcb⟩ := hx
  refine ⟨b, hb, ?_⟩
  unfold chunkOf at hcb
  split at hcb
  · assumption
  · simp at hcb

end SV.C03
