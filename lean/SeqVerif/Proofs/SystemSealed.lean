import SeqVerif.Proofs.SystemCompose
import SeqVerif.Proofs.C03C02
import SeqVerif.Model.C17Compose
import SeqVerif.Consistency.ActiveLids
/-!
# Whole pipeline, gap (1) of I1: the SEALED form (`sys_*`)

C17's state after the append pipeline, read by `viewC03` (the concrete reading C17 composes with C03), is C03's quiescent
`Active`; C03 seals it (`sealFrac`: id / lid / token blocks and tables) and reads it back as C02's index
(`sealedView = activeView`, `Proofs/C03C02.lean`).  Here that index is shown to be a `FracIdx` in C05's sense
(`FracIdx.OK`) storing, for every first-delivered meta, a document with the meta's ID and its tokens - so `sys_read`
applies to stores serving sealed fractions exactly as to stores serving active ones (`sys_ingest_to_read_sealed`).
**Restriction:** every theorem here that takes `DistinctBulks` / `NonEmptyDocs` covers bulks WITHOUT nested metas only
(`cons_sys_hd_hs_false_for_nested_witness`, Consistency/SysHyps.lean; see the header of Proofs/SystemClosed.lean).
-/
namespace SV.Sys
open SV SV.Spec SV.ProxySearch SV.ProxyCompose SV.ProxyE2E

/-- the sealed fraction as the searcher holds it: the index read back from the sealed structures, `Info().From/To` -/
def sealedFrac (names : List Bytes) (a : C03.Active) (s : C03.Sealed) (fr to : Nat) : Merge.FracIdx :=
  ⟨C03.sealedView names a s, fr, to⟩

/-- **sealed form -> `FracIdx.OK`, same documents.**  Sealing a quiescent active fraction succeeds, the fraction read
back from the sealed structures satisfies everything C02 and C05 ask of a fraction index (`From/To` any bounds of the
MIDs, no `0:0` ID), and it stores exactly the documents of the active fraction (`activeDocs`: IDs and tokens by LID). -/
theorem sys_sealed_frac_ok (names : List Bytes) (size cap rbs base : Nat) (posOf : C03.ID → Nat) (a : C03.Active)
    (hq : C03.Quiescent a) (hsize : 1 ≤ size) (hcap : 1 ≤ cap) (fr to : Nat)
    (hb : ∀ l ∈ a.allDocs, fr ≤ a.mids.getD l 0 ∧ a.mids.getD l 0 ≤ to)
    (hz : ∀ l ∈ a.allDocs, (⟨a.mids.getD l 0, a.rids.getD l 0⟩ : Spec.ID) ≠ ⟨0, 0⟩) (from_ : Nat) :
    ∃ s, C03.sealFrac size size cap rbs base posOf a = .ok s ∧ (sealedFrac names a s fr to).OK from_ ∧
      storedDocs [sealedFrac names a s fr to] = C03.activeDocs names a := by
  obtain ⟨s, hs, hag⟩ := C03.seal_agrees size cap rbs base posOf a hq hsize hcap
  obtain ⟨hwf, hsd, hr⟩ := C03.activeView_wf names a hq
  have hview := C03.sealedView_eq names a s hq hag
  refine ⟨s, hs, ?_, ?_⟩
  · refine ⟨?_, ?_, ?_, Or.inr ?_, ?_⟩ <;> simp only [sealedFrac, hview]
    · exact hwf
    · exact hsd
    · exact hr
    · intro id hid
      simp only [C03.activeView, List.mem_map] at hid
      obtain ⟨l, hl, rfl⟩ := hid
      exact hz l hl
    · intro id hid
      simp only [C03.activeView, List.mem_map] at hid
      obtain ⟨l, hl, rfl⟩ := hid
      exact hb l hl
  · simp only [storedDocs, List.flatMap_cons, List.flatMap_nil, List.append_nil, sealedFrac, hview]
    exact C03.docsOf_activeView names a hq

/-! ## the C17 state read as C03's active fraction -/

theorem sys_mem_tagFields (names : List Bytes) (fields : List (List C03.ATok)) (j : Nat) (fl : List C03.ATok)
    (hj : fields[j]? = some fl) (t : C03.ATok) (ht : t ∈ fl) :
    ((names.drop j).headD [], t) ∈ C03.tagFields names fields := by
  induction fields generalizing names j with
  | nil => simp at hj
  | cons f rest ih =>
    cases j with
    | zero =>
      simp only [List.getElem?_cons_zero, Option.some.injEq] at hj
      subst hj
      simp only [C03.tagFields, List.mem_append, List.mem_map, List.drop_zero]
      exact Or.inl ⟨t, ht, rfl⟩
    | succ j =>
      simp only [List.getElem?_cons_succ] at hj
      simp only [C03.tagFields, List.mem_append]
      right
      have := ih names.tail j hj
      rwa [List.drop_tail] at this

/-- the token table `U` the sealer reads (per sorted field its sorted tokens) lists the token `bytes` under a field
named like its key with its value -/
def Covers (names : List Bytes) (U : List (List (Bytes × C03.Tok))) (bytes : Bytes) : Prop :=
  ∃ j fl tv, U[j]? = some fl ∧ tv ∈ fl ∧ tv.1 = bytes ∧ (names.drop j).headD [] = (ActiveReach.splitTok bytes).1 ∧
    tv.2 = (ActiveReach.splitTok bytes).2

/-- the queues of the reached C17 state: LID `1 + i` is queued under `t` iff the i-th kept meta carries `t` -/
theorem sys_queue_reached (h : List (List Collector.Meta)) (hd : Collector.DistinctBulks h) (hs : Collector.NonEmptyDocs h)
    (t : Bytes) (v : Nat) :
    v ∈ Collector.queue (Collector.run Collector.Active.empty h) t ↔
      ∃ i, ∃ (hi : i < (ActiveReach.keptRun Collector.Active.empty h).length), v = 1 + i ∧
        t ∈ ((ActiveReach.keptRun Collector.Active.empty h)[i]).tokens.map Collector.MetaToken.bytes := by
  obtain ⟨_, hq⟩ := ActiveReach.run_spec Collector.Active.empty h Collector.ainv_empty hd hs
  rw [hq t]
  have h0 : Collector.queue Collector.Active.empty t = [] := by
    unfold Collector.queue Collector.Active.empty
    simp only [List.lookup]
    split <;> rfl
  have hlen : (Collector.toksOf (ActiveReach.keptRun Collector.Active.empty h)).length =
      (ActiveReach.keptRun Collector.Active.empty h).length := by simp [Collector.toksOf]
  have e : List.range' Collector.Active.empty.ids.length (ActiveReach.keptRun Collector.Active.empty h).length =
      List.range' 1 (Collector.toksOf (ActiveReach.keptRun Collector.Active.empty h)).length := by rw [hlen]; rfl
  rw [h0, List.nil_append, e, ActiveReach.mem_postingsT]
  simp only [Collector.toksOf, List.getElem_map, List.length_map]

theorem sys_mem_c17_getLIDs (ids : List Collector.ID) (q : List Nat) (v : Nat) : v ∈ C17Compose.getLIDs ids q ↔ v ∈ q := by
  rw [Consistency.cons_getLIDs_c17compose_eq_activeindex, ActiveIndex.mem_getLIDs]

/-- the C17 state after the bulks `h`, as the sealer and the sealed data provider read it -/
abbrev readC03 (U : List (List (Bytes × C03.Tok))) (h : List (List Collector.Meta)) : C03.Active :=
  C17Compose.viewC03 U (Collector.run Collector.Active.empty h).ids (Collector.queue (Collector.run Collector.Active.empty h))

/-- **I1 for the sealed fraction (documents and tokens).**  Every first-delivered meta `m` carrying the `_all_` token
(all of C10's metas do, `c10_stored_metas`) has, among the documents of the fraction sealed from the reached state, one
with `m`'s ID that carries `(key, value)` for every token `key:value` of `m` the token table covers. -/
theorem sys_sealed_docs (names : List Bytes) (U : List (List (Bytes × C03.Tok))) (h : List (List Collector.Meta))
    (hd : Collector.DistinctBulks h) (hs : Collector.NonEmptyDocs h)
    (m : Collector.Meta) (hm : m ∈ ActiveReach.keptRun Collector.Active.empty h)
    (hall : Collector.allToken ∈ m.tokens.map Collector.MetaToken.bytes) :
    ∃ d ∈ C03.activeDocs names (readC03 U h), d.id = ActiveReach.toID m.id ∧
      ∀ tok ∈ m.tokens, Covers names U tok.bytes → ActiveReach.splitTok tok.bytes ∈ d.tokens := by
  obtain ⟨i, hi, hget⟩ := List.getElem_of_mem hm
  obtain ⟨hids, _⟩ := ActiveReach.run_spec Collector.Active.empty h Collector.ainv_empty hd hs
  have hids' : (Collector.run Collector.Active.empty h).ids =
      Collector.systemID :: (ActiveReach.keptRun Collector.Active.empty h).map (·.id) := by
    simpa [Collector.Active.empty] using hids
  have hlid : 1 + i ∈ (readC03 U h).allDocs := by
    simp only [readC03, C17Compose.viewC03]
    rw [sys_mem_c17_getLIDs, sys_queue_reached h hd hs]
    exact ⟨i, hi, rfl, by rw [hget]; exact hall⟩
  refine ⟨_, List.mem_map.mpr ⟨1 + i, hlid, rfl⟩, ?_, ?_⟩
  · simp only [readC03, C17Compose.viewC03, hids', List.map_cons, List.map_map, ActiveReach.toID]
    have e : 1 + i = i + 1 := by omega
    simp only [e, List.getD, List.getElem?_cons_succ, List.getElem?_map, List.getElem?_eq_getElem hi, hget,
      Option.map_some, Option.getD_some, Function.comp]
  · intro tok htok ⟨j, fl, tv, hU, htv, hb, hname, hval⟩
    -- the ATok of this token in field j
    have hq1 : 1 + i ∈ Collector.queue (Collector.run Collector.Active.empty h) tv.1 := by
      rw [hb, sys_queue_reached h hd hs]
      exact ⟨i, hi, rfl, by rw [hget]; exact List.mem_map_of_mem htok⟩
    have hne : Collector.queue (Collector.run Collector.Active.empty h) tv.1 ≠ [] := by
      intro he; rw [he] at hq1; cases hq1
    let at_ : C03.ATok := ⟨tv.2, C17Compose.getLIDs (Collector.run Collector.Active.empty h).ids
      (Collector.queue (Collector.run Collector.Active.empty h) tv.1)⟩
    have hfield : (readC03 U h).fields[j]? = some (fl.filterMap fun tv =>
        if Collector.queue (Collector.run Collector.Active.empty h) tv.1 = [] then none
        else some ⟨tv.2, C17Compose.getLIDs (Collector.run Collector.Active.empty h).ids
          (Collector.queue (Collector.run Collector.Active.empty h) tv.1)⟩) := by
      simp only [readC03, C17Compose.viewC03, List.getElem?_map, hU, Option.map_some]
    have hat : at_ ∈ fl.filterMap (fun tv =>
        if Collector.queue (Collector.run Collector.Active.empty h) tv.1 = [] then none
        else some (⟨tv.2, C17Compose.getLIDs (Collector.run Collector.Active.empty h).ids
          (Collector.queue (Collector.run Collector.Active.empty h) tv.1)⟩ : C03.ATok)) := by
      refine List.mem_filterMap.mpr ⟨tv, htv, ?_⟩
      rw [if_neg hne]
    have htag := sys_mem_tagFields names (readC03 U h).fields j _ hfield at_ hat
    simp only [List.mem_map, List.mem_filter]
    refine ⟨((names.drop j).headD [], at_), ⟨htag, ?_⟩, ?_⟩
    · simp only [List.contains_iff_mem, at_]
      rw [sys_mem_c17_getLIDs]; exact hq1
    · simp only [at_, hname, hval]

theorem sys_storedDocs_mono (fs : List Merge.FracIdx) (f : Merge.FracIdx) (hf : f ∈ fs) (d : Doc)
    (hd : d ∈ storedDocs [f]) : d ∈ storedDocs fs := by
  simp only [storedDocs, List.flatMap_cons, List.flatMap_nil, List.append_nil] at hd
  exact List.mem_flatMap.mpr ⟨f, hf, hd⟩

/-- **sys_i1_sealed.**  A store that serves the fraction sealed from the state its append pipeline reached from the
bulks `h` (quiescent in C03's sense, as in `c17_sealed_once`): the fraction is well formed for C02/C05, and every
first-delivered meta has a stored document with its ID and every covered token - the sealed counterpart of
`sys_i1_active`. -/
theorem sys_i1_sealed (names : List Bytes) (U : List (List (Bytes × C03.Tok))) (size cap rbs base : Nat)
    (posOf : C03.ID → Nat) (h : List (List Collector.Meta)) (hd : Collector.DistinctBulks h)
    (hs : Collector.NonEmptyDocs h) (hq : C03.Quiescent (readC03 U h)) (hsize : 1 ≤ size) (hcap : 1 ≤ cap)
    (sl : C03.Sealed) (hseal : C03.sealFrac size size cap rbs base posOf (readC03 U h) = .ok sl) (fr to : Nat)
    (hb : ∀ l ∈ (readC03 U h).allDocs, fr ≤ (readC03 U h).mids.getD l 0 ∧ (readC03 U h).mids.getD l 0 ≤ to)
    (hz : ∀ l ∈ (readC03 U h).allDocs,
      (⟨(readC03 U h).mids.getD l 0, (readC03 U h).rids.getD l 0⟩ : Spec.ID) ≠ ⟨0, 0⟩) (from_ : Nat) :
    (sealedFrac names (readC03 U h) sl fr to).OK from_ ∧
    ∀ m ∈ ActiveReach.keptRun Collector.Active.empty h,
      Collector.allToken ∈ m.tokens.map Collector.MetaToken.bytes →
      ∃ d ∈ storedDocs [sealedFrac names (readC03 U h) sl fr to], d.id = ActiveReach.toID m.id ∧
        ∀ tok ∈ m.tokens, Covers names U tok.bytes → ActiveReach.splitTok tok.bytes ∈ d.tokens := by
  obtain ⟨s', hs', hok, hdocs⟩ := sys_sealed_frac_ok names size cap rbs base posOf (readC03 U h) hq hsize hcap fr to hb hz from_
  have : s' = sl := by rw [hs'] at hseal; exact Except.ok.inj hseal
  subst this
  refine ⟨hok, fun m hm hall => ?_⟩
  rw [hdocs]
  exact sys_sealed_docs names U h hd hs m hm hall

/-- **found, given a serving store** - the read side and C09 composed once, for one document ID and one token: if every
store that took the acknowledged payload is a shard that is read and serves a document with ID `i` carrying `(f, v)`,
then the query `f:v` (window containing `i.mid`) is answered completely and `i` is in the ordered list (in the page when
the page covers it); every returned ID belongs to a stored matching document. -/
theorem sys_served_found (c : Merge.Cfg) (f v : Bytes) (from_ to_ : Nat) (hot : List (List Call))
    (hotArr coldArr : List (Nat × ShardRes)) (hh : hotArr.Perm (indexed 0 (hot.map searchShard)))
    (offset size : Nat) (hlim : limitWraps offset size = false) (rev : Bool) (hdesc : c.desc = !rev)
    (fracs : Nat → List Merge.FracIdx) (hok : ∀ s, ∀ fr ∈ fracs s, fr.OK from_)
    (hmax : ∀ s, c.maxHits = 0 ∨
      (Merge.filterInRange (storeFracs (fracs s) (.leaf (.lit f [.text v])) from_ to_) from_ to_).length ≤ c.maxHits)
    (hne : hot ≠ []) (hall : ∀ calls ∈ hot, (searchShard calls).isOk = true)
    (hans : ∀ s calls rep ids t e, hot[s]? = some calls → searchShard calls = .ok rep ids t e →
      (∀ i ∈ ids, i.2 < Merge.R) ∧
      ∃ r, Merge.searchDocs c (storeFracs (fracs s) (.leaf (.lit f [.text v])) from_ to_) from_ to_ (offset + size) = some r ∧
        r.ids = ids.map keyOf)
    (coldT hotT : Replica.Tier) (oracle : List (List (Nat × Replica.Call) × List (Nat × Replica.Call)))
    (hack : (Replica.storeDocuments coldT hotT oracle Replica.init).1 = true) (hS : hotT.S ≠ 0)
    (i : Spec.ID) (hwin : from_ ≤ i.mid ∧ i.mid ≤ to_)
    (serve : ∀ s, (∀ r, r < hotT.R → (s, r) ∈ (Replica.storeDocuments coldT hotT oracle Replica.init).2.hotLog) →
      s < hot.length ∧ ∃ d ∈ storedDocs (fracs s), d.id = i ∧ (f, v) ∈ d.tokens) :
    ∃ ids t e, search hotArr coldArr offset size rev = .ok ids t e false false ∧
      i ∈ fullList (allDocs hot.length fracs) (.leaf (.lit f [.text v])) from_ to_ rev ∧
      (offset = 0 → (fullList (allDocs hot.length fracs) (.leaf (.lit f [.text v])) from_ to_ rev).length ≤ size →
        ∃ x ∈ ids, toSpecID x.1 = i) ∧
      (∀ x ∈ ids, ∃ d ∈ allDocs hot.length fracs, d.id = toSpecID x.1 ∧ inWindow from_ to_ d = true ∧
        docMatches (.leaf (.lit f [.text v])) d = true) := by
  obtain ⟨ids, t, e, h1, _, _, hsound, hcompl, hpage⟩ := sys_read c (.leaf (.lit f [.text v])) from_ to_ hot hotArr
    coldArr hh offset size hlim rev hdesc fracs hok hmax hne hall hans
  obtain ⟨s, hsFull⟩ := sys_ack_full_set coldT hotT oracle hack hS
  obtain ⟨hlt, d, hdIn, hdid, hdtok⟩ := serve s hsFull
  have hdAll : d ∈ allDocs hot.length fracs := sys_mem_allDocs _ fracs s hlt d hdIn
  have hmatch := sys_token_findable d f v hdtok
  have hw : inWindow from_ to_ d = true := by
    simp only [inWindow, hdid, Bool.and_eq_true, decide_eq_true_eq]; exact hwin
  refine ⟨ids, t, e, h1, by rw [← hdid]; exact hcompl d hdAll hw hmatch, ?_, hsound⟩
  intro h0 hlen
  obtain ⟨x, hx, hxe⟩ := hpage h0 hlen d hdAll hw hmatch
  exact ⟨x, hx, by rw [hxe, hdid]⟩

/-- what a store that took the bulk `B` serves at read time (no crash): the fraction `B` went into is still active, or
it has been sealed (C03) from the state the pipeline reached -/
inductive Holds (names : List Bytes) (from_ : Nat) (fs : List Merge.FracIdx) (B : List Collector.Meta) : Prop
  | active (h : List (List Collector.Meta)) (hB : B ∈ h) (hd : Collector.DistinctBulks h) (hs : Collector.NonEmptyDocs h)
      (hg : ActiveReach.GoodIDs h) (hfirst : ∀ m ∈ B, m ∈ ActiveReach.keptRun Collector.Active.empty h)
      (hin : activeFrac (reached h) ∈ fs) : Holds names from_ fs B
  | sealed (h : List (List Collector.Meta)) (hB : B ∈ h) (hd : Collector.DistinctBulks h) (hs : Collector.NonEmptyDocs h)
      (hfirst : ∀ m ∈ B, m ∈ ActiveReach.keptRun Collector.Active.empty h)
      (U : List (List (Bytes × C03.Tok))) (size cap rbs base : Nat) (posOf : C03.ID → Nat)
      (hq : C03.Quiescent (readC03 U h)) (hsize : 1 ≤ size) (hcap : 1 ≤ cap) (sl : C03.Sealed)
      (hseal : C03.sealFrac size size cap rbs base posOf (readC03 U h) = .ok sl) (fr to : Nat)
      (hb : ∀ l ∈ (readC03 U h).allDocs, fr ≤ (readC03 U h).mids.getD l 0 ∧ (readC03 U h).mids.getD l 0 ≤ to)
      (hz : ∀ l ∈ (readC03 U h).allDocs,
        (⟨(readC03 U h).mids.getD l 0, (readC03 U h).rids.getD l 0⟩ : Spec.ID) ≠ ⟨0, 0⟩)
      (hcov : ∀ m ∈ B, Collector.allToken ∈ m.tokens.map Collector.MetaToken.bytes ∧
        ∀ tok ∈ m.tokens, Covers names U tok.bytes)
      (hin : sealedFrac names (readC03 U h) sl fr to ∈ fs) : Holds names from_ fs B

/-- **sys_i1_mixed.**  A store in either state serves, for every meta of the bulk, a document with its ID and tokens. -/
theorem sys_i1_mixed (names : List Bytes) (from_ : Nat) (fs : List Merge.FracIdx) (B : List Collector.Meta)
    (H : Holds names from_ fs B) (m : Collector.Meta) (hm : m ∈ B) :
    ∃ d ∈ storedDocs fs, d.id = ActiveReach.toID m.id ∧ ∀ tok ∈ m.tokens, ActiveReach.splitTok tok.bytes ∈ d.tokens := by
  cases H with
  | active h hB hd hs hg hfirst hin =>
    obtain ⟨d, hdIn, hdid, hdtok⟩ := (sys_i1_active h hd hs hg from_).2 m (hfirst m hm)
    exact ⟨d, sys_storedDocs_mono fs _ hin d hdIn, hdid, hdtok⟩
  | «sealed» h hB hd hs hfirst U size cap rbs base posOf hq hsize hcap sl hseal fr to hb hz hcov hin =>
    obtain ⟨d, hdIn, hdid, hdtok⟩ := (sys_i1_sealed names U size cap rbs base posOf h hd hs hq hsize hcap sl hseal fr to
      hb hz from_).2 m (hfirst m hm) (hcov m hm).1
    exact ⟨d, sys_storedDocs_mono fs _ hin d hdIn, hdid, fun tok htok => hdtok tok htok ((hcov m hm).2 tok htok)⟩

/-- **sys_ingest_to_read_sealed** (any mix of active and sealed fractions, no crash).  Shard `s` serves the fraction
indexes `fracs s`, all well formed (`hok`: per fraction by `sys_active_frac_ok` / `sys_sealed_frac_ok`); the shard
all of whose replicas took the acknowledged bulk `B` (C09's full set) is a shard that is read and its serving store `Holds` it - in a fraction that is still active or was
sealed from the pipeline's state.  Then for every meta of `B` and every token `field:value` of it (MID inside the
window) the query `field:value` is answered completely, the meta's ID is in the ordered list (in the page when the page
covers it), and every returned ID belongs to a stored matching document. -/
theorem sys_ingest_to_read_sealed (names : List Bytes) (c : Merge.Cfg) (f v : Bytes) (from_ to_ : Nat)
    (hot : List (List Call)) (hotArr coldArr : List (Nat × ShardRes))
    (hh : hotArr.Perm (indexed 0 (hot.map searchShard)))
    (offset size : Nat) (hlim : limitWraps offset size = false) (rev : Bool) (hdesc : c.desc = !rev)
    (fracs : Nat → List Merge.FracIdx) (hok : ∀ s, ∀ fr ∈ fracs s, fr.OK from_)
    (hmax : ∀ s, c.maxHits = 0 ∨
      (Merge.filterInRange (storeFracs (fracs s) (.leaf (.lit f [.text v])) from_ to_) from_ to_).length ≤ c.maxHits)
    (hne : hot ≠ []) (hall : ∀ calls ∈ hot, (searchShard calls).isOk = true)
    (hans : ∀ s calls rep ids t e, hot[s]? = some calls → searchShard calls = .ok rep ids t e →
      (∀ i ∈ ids, i.2 < Merge.R) ∧
      ∃ r, Merge.searchDocs c (storeFracs (fracs s) (.leaf (.lit f [.text v])) from_ to_) from_ to_ (offset + size) = some r ∧
        r.ids = ids.map keyOf)
    (coldT hotT : Replica.Tier) (oracle : List (List (Nat × Replica.Call) × List (Nat × Replica.Call)))
    (hack : (Replica.storeDocuments coldT hotT oracle Replica.init).1 = true) (hS : hotT.S ≠ 0)
    (B : List Collector.Meta)
    (J : ∀ s, (∀ r, r < hotT.R → (s, r) ∈ (Replica.storeDocuments coldT hotT oracle Replica.init).2.hotLog) →
      s < hot.length ∧ Holds names from_ (fracs s) B)
    (m : Collector.Meta) (hm : m ∈ B) (tok : Collector.MetaToken) (htok : tok ∈ m.tokens)
    (hfv : ActiveReach.splitTok tok.bytes = (f, v)) (hwin : from_ ≤ m.id.1 ∧ m.id.1 ≤ to_) :
    ∃ ids t e, search hotArr coldArr offset size rev = .ok ids t e false false ∧
      ActiveReach.toID m.id ∈ fullList (allDocs hot.length fracs) (.leaf (.lit f [.text v])) from_ to_ rev ∧
      (offset = 0 → (fullList (allDocs hot.length fracs) (.leaf (.lit f [.text v])) from_ to_ rev).length ≤ size →
        ∃ x ∈ ids, toSpecID x.1 = ActiveReach.toID m.id) ∧
      (∀ x ∈ ids, ∃ d ∈ allDocs hot.length fracs, d.id = toSpecID x.1 ∧ inWindow from_ to_ d = true ∧
        docMatches (.leaf (.lit f [.text v])) d = true) := by
  apply sys_served_found c f v from_ to_ hot hotArr coldArr hh offset size hlim rev hdesc fracs hok hmax hne hall hans
    coldT hotT oracle hack hS (ActiveReach.toID m.id) hwin
  intro s hsr
  obtain ⟨hlt, H⟩ := J s hsr
  obtain ⟨d, hdIn, hdid, hdtok⟩ := sys_i1_mixed names from_ (fracs s) B H m hm
  exact ⟨hlt, d, hdIn, hdid, by rw [← hfv]; exact hdtok tok htok⟩

end SV.Sys
