import SeqVerif.Proofs.SystemClosed
import SeqVerif.Consistency.SysJunction
/-!
# Whole pipeline - the junction between C09's log and C01's stores (`sys_*`)

The junction hypothesis of the `sys_ingest_to_read*` theorems is stated over the shard ALL of whose replicas succeeded
(`sysJprimeFull`): the per-(shard, replica) form over every logged success is false for `R ≥ 2` replicas
(`cons_sys_Jprime_false_two_replicas_witness`, Consistency/SysJunction.lean - a shard abandoned after a partial failure keeps
its successes in the log).  Here it is discharged from the transport premise `SysTransport` (gRPC delivers the client's
payload to replica `(s, r)`'s `Bulk` handler and returns its answer) with C01's handler model
(`c01_bulk_handler_junction`, re-proved at model level in SysJunction as `sysJunction_call_acked`):
stores are per (shard, replica), `items s r` = what happened to that store, `rho s` = the replica that serves shard `s`'s
reads.  Restriction as everywhere: bulks without nested metas (header of Proofs/SystemClosed.lean).
-/
namespace SV.Sys
open SV SV.Spec SV.ProxySearch SV.ProxyCompose SV.ProxyE2E SV.Consistency

/-- part (iii) of `c01_bulk_handler_junction`, at model level: the history of a store is well formed when the payloads are -/
theorem sys_histOf_wf (items : List BulkH.Item)
    (hwf : ∀ it ∈ items, match it with
      | .call _ d m _ _ => d.WF ∧ m.WF
      | .crashed d m _ => d.WF ∧ m.WF
      | .restart => True) : ∀ ev ∈ BulkH.histOf items, ev.WF := by
  intro ev hev
  simp only [BulkH.histOf, List.mem_flatMap] at hev
  obtain ⟨it, hit, hev⟩ := hev
  have := hwf it hit
  cases it with
  | call count d m e fuel =>
    simp only [BulkH.effect] at hev
    split at hev
    · simp only [List.mem_singleton] at hev; subst hev; exact this
    · simp at hev
  | crashed d m pt => simp only [BulkH.effect, List.mem_singleton] at hev; subst hev; exact this
  | restart => simp only [BulkH.effect, List.mem_singleton] at hev; subst hev; trivial

/-- **the junction, derived.**  From the transport premise: for the shard whose whole replica set succeeded, the store of
the replica that serves its reads acknowledged exactly the payload's blocks, and that shard is one of the shards read. -/
theorem sys_junction (items : Nat → Nat → List BulkH.Item) (coldT hotT : Replica.Tier)
    (oracle : List (List (Nat × Replica.Call) × List (Nat × Replica.Call))) (n : Nat) (blk : WPath.Blk × WPath.Blk)
    (deliver : ∀ s r, (s, r) ∈ (Replica.storeDocuments coldT hotT oracle Replica.init).2.hotLog →
      ∃ count e fuel, BulkH.Item.call count blk.1 blk.2 e fuel ∈ items s r ∧
        BulkH.answersOK (BulkH.doBulk fuel count e) = true)
    (hvis : ∀ a ∈ oracle, ∀ v ∈ a.2, v.1 < n) (rho : Nat → Nat) (hrho : ∀ s, rho s < hotT.R) :
    ∀ s, (∀ r, r < hotT.R → (s, r) ∈ (Replica.storeDocuments coldT hotT oracle Replica.init).2.hotLog) →
      s < n ∧ blk ∈ WPath.ackedOf (BulkH.histOf (items s (rho s))) := by
  have T : SysTransport items (Replica.storeDocuments coldT hotT oracle Replica.init).2.hotLog n blk :=
    ⟨deliver, fun s r hsr =>
      cons_sys_hotLog_shards_visited coldT hotT oracle n hvis Replica.init (by simp [Replica.init]) (s, r) hsr⟩
  exact cons_sys_junction_fullSet items hotT.R _ n blk T rho hrho

/-- **sys_ingest_to_read_transport - the closed form with the junction discharged.**  Stores are per (shard, replica);
`items s r` is everything that happened to the store of replica `r` of shard `s` (handler calls, crashes, restarts);
`rho s < R` is the replica that serves the reads of shard `s`.  Compared with `sys_ingest_to_read` the junction J' is replaced
by
* `deliver` (transport): a success C09 logged for `(s, r)` is the OK answer of a `Bulk` handler call on that store whose
  request carried exactly the payload's blocks;
* `hvis` (topology): the client only visits hot shards `< hot.length` (the shard list the search fans out to);
* `hitems`: the payloads handed to the stores are well-formed blocks.
Everything else as in `sys_ingest_to_read` (R, the C12 literal, the shape of the histories - no nested metas -, the read-time
facts, C09's acknowledgement). -/
theorem sys_ingest_to_read_transport (c : Merge.Cfg) (f v : Bytes) (from_ to_ : Nat) (hot : List (List Call))
    (hotArr coldArr : List (Nat × ShardRes)) (hh : hotArr.Perm (indexed 0 (hot.map searchShard)))
    (offset size : Nat) (hlim : limitWraps offset size = false) (rev : Bool) (hdesc : c.desc = !rev)
    (items : Nat → Nat → List BulkH.Item) (rho : Nat → Nat)
    (hitems : ∀ s, ∀ it ∈ items s (rho s), match it with
      | .call _ d m _ _ => d.WF ∧ m.WF
      | .crashed d m _ => d.WF ∧ m.WF
      | .restart => True)
    (hd : ∀ s, Collector.DistinctBulks (handed sysDecC10 (BulkH.histOf (items s (rho s)))))
    (hs : ∀ s, Collector.NonEmptyDocs (handed sysDecC10 (BulkH.histOf (items s (rho s)))))
    (hg : ∀ s, ActiveReach.GoodIDs (handed sysDecC10 (BulkH.histOf (items s (rho s)))))
    (hmax : ∀ s, c.maxHits = 0 ∨ (Merge.filterInRange
      (storeFracs [activeFrac (reached (handed sysDecC10 (BulkH.histOf (items s (rho s)))))] (.leaf (.lit f [.text v]))
        from_ to_) from_ to_).length ≤ c.maxHits)
    (hne : hot ≠ []) (hall : ∀ calls ∈ hot, (searchShard calls).isOk = true)
    (hans : ∀ s calls rep ids t e, hot[s]? = some calls → searchShard calls = .ok rep ids t e →
      (∀ i ∈ ids, i.2 < Merge.R) ∧
      ∃ r, Merge.searchDocs c (storeFracs [activeFrac (reached (handed sysDecC10 (BulkH.histOf (items s (rho s)))))]
        (.leaf (.lit f [.text v])) from_ to_) from_ to_ (offset + size) = some r ∧ r.ids = ids.map keyOf)
    (coldT hotT : Replica.Tier) (oracle : List (List (Nat × Replica.Call) × List (Nat × Replica.Call)))
    (hack : (Replica.storeDocuments coldT hotT oracle Replica.init).1 = true) (hS : hotT.S ≠ 0)
    (hrho : ∀ s, rho s < hotT.R)
    (blk : WPath.Blk × WPath.Blk)
    (deliver : ∀ s r, (s, r) ∈ (Replica.storeDocuments coldT hotT oracle Replica.init).2.hotLog →
      ∃ count e fuel, BulkH.Item.call count blk.1 blk.2 e fuel ∈ items s r ∧
        BulkH.answersOK (BulkH.doBulk fuel count e) = true)
    (hvis : ∀ a ∈ oracle, ∀ v ∈ a.2, v.1 < hot.length)
    (m : Collector.Meta) (hm : m ∈ sysDecC10 (WPath.enc blk.2))
    (R : ∀ s, ∀ b ∈ handed sysDecC10 (BulkH.histOf (items s (rho s))), (∃ m' ∈ b, m'.id = m.id) →
      b = sysDecC10 (WPath.enc blk.2))
    (tok : Collector.MetaToken) (htok : tok ∈ m.tokens)
    (hfv : ActiveReach.splitTok tok.bytes = (f, v)) (hwin : from_ ≤ m.id.1 ∧ m.id.1 ≤ to_) :
    ∃ ids t e, search hotArr coldArr offset size rev = .ok ids t e false false ∧
      ActiveReach.toID m.id ∈ fullList
        (allDocs hot.length fun s => [activeFrac (reached (handed sysDecC10 (BulkH.histOf (items s (rho s)))))])
        (.leaf (.lit f [.text v])) from_ to_ rev ∧
      (offset = 0 → (fullList
          (allDocs hot.length fun s => [activeFrac (reached (handed sysDecC10 (BulkH.histOf (items s (rho s)))))])
          (.leaf (.lit f [.text v])) from_ to_ rev).length ≤ size → ∃ x ∈ ids, toSpecID x.1 = ActiveReach.toID m.id) ∧
      (∀ x ∈ ids, ∃ d ∈ allDocs hot.length
          (fun s => [activeFrac (reached (handed sysDecC10 (BulkH.histOf (items s (rho s)))))]),
        d.id = toSpecID x.1 ∧ inWindow from_ to_ d = true ∧ docMatches (.leaf (.lit f [.text v])) d = true) := by
  obtain ⟨ids, t, e, h1, h2, h3, h4⟩ := sys_ingest_to_read c f v from_ to_ hot hotArr coldArr hh offset size hlim rev hdesc
    (fun s => BulkH.histOf (items s (rho s))) (fun s => sys_histOf_wf _ (hitems s)) hd hs hg hmax hne hall hans
    coldT hotT oracle hack hS blk
    (sys_junction items coldT hotT oracle hot.length blk deliver hvis rho hrho) m hm R tok htok hfv hwin
  exact ⟨ids, t, e, h1, h2, h3, fun x hx => by
    obtain ⟨d, a, b, c', d', _⟩ := h4 x hx; exact ⟨d, a, b, c', d'⟩⟩

/-- the per-success form of the junction (the old J') implies the form used, for any `R ≥ 1`; it is itself derivable only
when every logged shard's serving replica is logged (`cons_sys_Jprime_of_servingLogged`), e.g. `R = 1` -/
theorem sys_junction_of_per_success (coldT hotT : Replica.Tier)
    (oracle : List (List (Nat × Replica.Call) × List (Nat × Replica.Call))) (n : Nat) (Hst : Nat → List WPath.Ev)
    (blk : WPath.Blk × WPath.Blk) (hR : 0 < hotT.R)
    (J' : ∀ s r, (s, r) ∈ (Replica.storeDocuments coldT hotT oracle Replica.init).2.hotLog →
      s < n ∧ blk ∈ WPath.ackedOf (Hst s)) :
    ∀ s, (∀ r, r < hotT.R → (s, r) ∈ (Replica.storeDocuments coldT hotT oracle Replica.init).2.hotLog) →
      s < n ∧ blk ∈ WPath.ackedOf (Hst s) :=
  fun s hs => J' s 0 (hs 0 hR)

/-! ## non-vacuity with R = 2: a concrete run meets the junction hypotheses -/

/-- **R = 2, two hot shards** (the world of `cons_sys_Jprime_false_two_replicas_witness`): shard 0 is tried first, its
replica 1 fails, shard 1 takes the payload on both replicas; the bulk is acknowledged; `deliver` and `hvis` hold for the
stores `sysWorld`; whichever replica serves the reads (`rho`), the derived junction gives: the full-set shard is shard 1, it
is one of the two shards read, and its serving store acknowledged the blocks - although the per-success form is false there. -/
example :
    (Replica.storeDocuments ⟨0, 0⟩ ⟨2, 2⟩ sysOracle Replica.init).1 = true ∧
    (∀ s r, (s, r) ∈ (Replica.storeDocuments ⟨0, 0⟩ ⟨2, 2⟩ sysOracle Replica.init).2.hotLog →
      ∃ count e fuel, BulkH.Item.call count sysBlkD sysBlkM e fuel ∈ sysWorld s r ∧
        BulkH.answersOK (BulkH.doBulk fuel count e) = true) ∧
    (∀ a ∈ sysOracle, ∀ v ∈ a.2, v.1 < 2) ∧
    (∀ r, r < 2 → (1, r) ∈ (Replica.storeDocuments ⟨0, 0⟩ ⟨2, 2⟩ sysOracle Replica.init).2.hotLog) ∧
    (∀ rho : Nat → Nat, (∀ s, rho s < 2) →
      (sysBlkD, sysBlkM) ∈ WPath.ackedOf (BulkH.histOf (sysWorld 1 (rho 1)))) := by
  have hw := cons_sys_Jprime_false_two_replicas_witness
  have hlog : (Replica.storeDocuments ⟨0, 0⟩ ⟨2, 2⟩ sysOracle Replica.init).2.hotLog = [(1, 1), (1, 0), (0, 0)] := hw.2.1
  have hdel : ∀ s r, (s, r) ∈ (Replica.storeDocuments ⟨0, 0⟩ ⟨2, 2⟩ sysOracle Replica.init).2.hotLog →
      ∃ count e fuel, BulkH.Item.call count sysBlkD sysBlkM e fuel ∈ sysWorld s r ∧
        BulkH.answersOK (BulkH.doBulk fuel count e) = true := by
    intro s r h; rw [hlog] at h; exact hw.2.2.1.deliver s r h
  refine ⟨hw.1, hdel, by decide, ?_, ?_⟩
  · intro r hr; rw [hlog]
    have : r = 0 ∨ r = 1 := by omega
    rcases this with rfl | rfl <;> simp
  · intro rho hrho
    have hfull : ∀ r, r < 2 → (1, r) ∈ (Replica.storeDocuments ⟨0, 0⟩ ⟨2, 2⟩ sysOracle Replica.init).2.hotLog := by
      intro r hr; rw [hlog]
      have : r = 0 ∨ r = 1 := by omega
      rcases this with rfl | rfl <;> simp
    exact (sys_junction sysWorld ⟨0, 0⟩ ⟨2, 2⟩ sysOracle 2 (sysBlkD, sysBlkM) hdel (by decide) rho hrho 1 hfull).2

/-! ## non-vacuity of the capstone: a concrete run (R = 2) meets EVERY hypothesis of `sys_ingest_to_read_transport` -/

/-- one document `7:1` with the tokens `_all_` and `a:x`, as the marshalled meta record of the payload -/
def sysExRec : Bulk.MetaRec := ⟨7, 1, 3, [⟨[95, 97, 108, 108, 95], []⟩, ⟨[97], [120]⟩]⟩
def sysExD : WPath.Blk := ⟨0, 3, 0, 0, [1, 2, 3]⟩
def sysExM : WPath.Blk := ⟨0, (Bulk.encodeMetas [sysExRec]).length, 0, 0, Bulk.encodeMetas [sysExRec]⟩
/-- two shards x two replicas; replica (0,1) never got the payload (its call failed), every other store served one `Bulk` call -/
def sysExWorld (s r : Nat) : List BulkH.Item := if (s, r) = (0, 1) then [] else [.call 1 sysExD sysExM sysEnvOk 4]
def sysExMeta : Collector.Meta := ⟨(7, 1), 3, [⟨[95, 97, 108, 108, 95], []⟩, ⟨[97], [120]⟩], 0⟩
def sysExHot : List (List Call) := [[.resp .none [(7, 1)] 0 0], [.resp .none [(7, 1)] 0 0]]

theorem sysEx_world0 (s : Nat) : sysExWorld s 0 = [.call 1 sysExD sysExM sysEnvOk 4] := by simp [sysExWorld]

theorem sysEx_handed : handed sysDecC10 (BulkH.histOf [.call 1 sysExD sysExM sysEnvOk 4]) = [[sysExMeta]] := by
  decide +kernel

/-- **the capstone applied to a concrete run with two replicas per shard**: C09 tries shard 0 first (its replica 1 fails),
then shard 1 takes the payload on both replicas and the bulk is acknowledged; the stores decode the meta block with
`sysDecC10`; both shards answer the search `a:x` with `SearchDocs` of the fraction their serving replica (replica 0) rebuilt.
Every hypothesis of `sys_ingest_to_read_transport` is proved for this run, and its conclusion follows: a complete unflagged
answer whose ordered list contains `7:1`. -/
theorem sys_transport_example :
    ∃ ids t e, search (indexed 0 (sysExHot.map searchShard)) [] 0 2 false = .ok ids t e false false ∧
      ActiveReach.toID sysExMeta.id ∈ fullList
        (allDocs sysExHot.length fun s => [activeFrac (reached (handed sysDecC10 (BulkH.histOf (sysExWorld s 0))))])
        (.leaf (.lit [97] [.text [120]])) 0 100 false := by
  have hsd : Merge.searchDocs ⟨true, false, 0, false, 0, 0⟩
      (storeFracs [activeFrac (reached [[sysExMeta]])] (.leaf (.lit [97] [.text [120]])) 0 100) 0 100 (0 + 2) =
      some ⟨[(7, 1)].map keyOf, 0, some []⟩ := by decide +kernel
  have hdec : sysDecC10 (WPath.enc sysExM) = [sysExMeta] := by decide +kernel
  have hH : ∀ s, handed sysDecC10 (BulkH.histOf (sysExWorld s ((fun _ => 0) s))) = [[sysExMeta]] := by
    intro s; simp only [sysEx_world0, sysEx_handed]
  obtain ⟨ids, t, e, h1, h2, _, _⟩ := sys_ingest_to_read_transport ⟨true, false, 0, false, 0, 0⟩ [97] [120] 0 100 sysExHot
    (indexed 0 (sysExHot.map searchShard)) [] (List.Perm.refl _) 0 2 (by decide) false rfl sysExWorld (fun _ => 0)
    (by intro s it hit; rw [sysEx_world0] at hit; simp only [List.mem_singleton] at hit; subst hit
        exact ⟨⟨by decide, by decide, by decide⟩, ⟨by decide +kernel, by decide, by decide⟩⟩)
    (by intro s; rw [hH s]; intro b hb; simp only [List.mem_singleton] at hb; subst hb; decide)
    (by intro s; rw [hH s]; intro b hb mm hmm; simp only [List.mem_singleton] at hb; subst hb
        simp only [List.mem_singleton] at hmm; subst hmm; decide)
    (by intro s; rw [hH s]; intro b hb mm hmm; simp only [List.mem_singleton] at hb; subst hb
        simp only [List.mem_singleton] at hmm; subst hmm; simp [sysExMeta, Borders.maxU64])
    (fun _ => Or.inl rfl) (by decide) (by decide)
    (by intro s calls rep ids t e hs hok
        rw [hH s]
        have hcalls : calls = [Call.resp .none [(7, 1)] 0 0] := by
          match s, hs with
          | 0, hs => simpa [sysExHot] using hs.symm
          | 1, hs => simpa [sysExHot] using hs.symm
          | n + 2, hs => simp [sysExHot] at hs
        subst hcalls
        have : searchShard [Call.resp .none [(7, 1)] 0 0] = .ok 0 [(7, 1)] 0 0 := by decide
        rw [this] at hok
        injection hok with a b c d
        subst a b c d
        exact ⟨by decide, _, hsd, rfl⟩)
    ⟨0, 0⟩ ⟨2, 2⟩ [([], [(0, .exec [true, false] false), (1, .exec [true, true] false)])] (by decide) (by decide)
    (fun _ => by decide) (sysExD, sysExM)
    (by intro s r hsr
        have hlog : (Replica.storeDocuments ⟨0, 0⟩ ⟨2, 2⟩
            [([], [(0, .exec [true, false] false), (1, .exec [true, true] false)])] Replica.init).2.hotLog =
            [(1, 1), (1, 0), (0, 0)] := by decide
        rw [hlog] at hsr
        simp only [List.mem_cons, Prod.mk.injEq, List.not_mem_nil, or_false] at hsr
        refine ⟨1, sysEnvOk, 4, ?_, by decide⟩
        rcases hsr with ⟨rfl, rfl⟩ | ⟨rfl, rfl⟩ | ⟨rfl, rfl⟩ <;> simp [sysExWorld])
    (by decide) sysExMeta (by rw [hdec]; simp)
    (by intro s b hb _; rw [hH s] at hb; simp only [List.mem_singleton] at hb; rw [hb, hdec])
    ⟨[97], [120]⟩ (by simp [sysExMeta]) (by decide) (by decide)
  exact ⟨ids, t, e, h1, h2⟩

end SV.Sys
