import SeqVerif.Proofs.C03DocsProofs
import SeqVerif.Proofs.C03IdsProofs
/-!
# C03 proofs: fetching one ID from the sealed form (findLIDs round, position block, new doc blocks) returns the
bytes the active form returns (positions map, old doc blocks)
-/
namespace SV.C03

theorem idLE_antisymm (a b : ID) (h1 : idLE a b = true) (h2 : idLE b a = true) : a = b := by
  rw [idLE_iff] at h1 h2
  have : a.1 = b.1 ∧ a.2 = b.2 := by omega
  exact Prod.ext this.1 this.2

/-- `findLIDs` (one round from `left = 1`) finds a LID holding the ID iff some LID >= 1 holds it -/
theorem findOne_spec (size : Nat) (ids : List ID) (posOf : ID → Nat) (h : IDsInput size ids) (hd : DescIDs ids) (id : ID) :
    let l := findOne size (idsTableOf (writeIDs size ids posOf) ids.length) (writeIDs size ids posOf) id
    ((∃ k, ∃ (hk : k < ids.length), 1 ≤ k ∧ ids[k] = id) → ∃ (hl : l < ids.length), 1 ≤ l ∧ ids[l] = id) ∧
    ((¬ ∃ k, ∃ (hk : k < ids.length), 1 ≤ k ∧ ids[k] = id) → l = 0) := by
  intro l
  let T := idsTableOf (writeIDs size ids posOf) ids.length
  let B := writeIDs size ids posOf
  have hf : ∀ x, (lessOrEqual size T B x id).getD false = (if hx : x < ids.length then idLE ids[x] id else true) := by
    intro x
    simp only [T, B, lessOrEqual_spec size ids posOf h hd x id, Option.getD_some]
  let g : Nat → Bool := fun i => (lessOrEqual size T B (1 + i) id).getD false
  have hright : T.idsTotal - 1 = ids.length - 1 := by simp [T, idsTableOf]
  have hmono : Mono g 0 (ids.length - 1 + 1 - 1) := by
    intro a b _ hab hb ha
    simp only [g, hf] at ha ⊢
    have h1 : 1 + a < ids.length := by omega
    have h2 : 1 + b < ids.length := by omega
    simp only [h1, h2, dite_true] at ha ⊢
    rcases Nat.lt_or_ge a b with hlt | hge
    · exact idLE_trans _ _ _ (desc_index ids hd (1 + a) (1 + b) (by omega) h2) ha
    · have : a = b := by omega
      subst this; exact ha
  have hb := searchGo_bounds g 0 (ids.length - 1 + 1 - 1) (by omega)
  have hs := searchGo_spec g 0 (ids.length - 1 + 1 - 1) hmono 0 (ids.length - 1 + 1 - 1) (by omega) (by omega) (by omega)
    (by intro k _ hk; omega) (by intro k h1 h2; omega)
  have hl : l = (if (1 + searchGo g 0 (ids.length - 1 + 1 - 1)) ≤ ids.length - 1 ∧
      getMID size B (1 + searchGo g 0 (ids.length - 1 + 1 - 1)) = some id.1 ∧
      getRID size B (1 + searchGo g 0 (ids.length - 1 + 1 - 1)) = some id.2 then 1 + searchGo g 0 (ids.length - 1 + 1 - 1) else 0) := by
    simp only [l, findOne, hright, binSearchInRange]
    rfl
  generalize hgs : searchGo g 0 (ids.length - 1 + 1 - 1) = s at *
  constructor
  · rintro ⟨k, hk, hk1, hkid⟩
    have hgk : g (k - 1) = true := by
      simp only [g, hf]
      have : 1 + (k - 1) = k := by omega
      simp only [this, hk, dite_true, hkid, idLE_refl]
    have hsk : s ≤ k - 1 := by
      rcases Nat.lt_or_ge (k - 1) s with hlt | hge
      · have := hs.1 (k - 1) (by omega) hlt; rw [hgk] at this; simp at this
      · exact hge
    have hlt : 1 + s < ids.length := by omega
    have hgs' : idLE ids[1 + s] id = true := by
      have := hs.2 s (Nat.le_refl _) (by omega)
      simp only [g, hf, hlt, dite_true] at this
      exact this
    have hge : idLE id ids[1 + s] = true := by
      rcases Nat.lt_or_ge (1 + s) k with h1 | h1
      · have := desc_index ids hd (1 + s) k h1 hk
        rw [hkid] at this; exact this
      · have : 1 + s = k := by omega
        subst this; rw [hkid]; exact idLE_refl _
    have heq : ids[1 + s] = id := idLE_antisymm _ _ hgs' hge
    have hm := getMID_spec size ids posOf h (1 + s) hlt
    have hr := getRID_spec size ids posOf h (1 + s) hlt
    have hcond : (1 + s) ≤ ids.length - 1 ∧ getMID size B (1 + s) = some id.1 ∧ getRID size B (1 + s) = some id.2 := by
      refine ⟨by omega, ?_, ?_⟩
      · simp only [B, hm, heq]
      · simp only [B, hr, heq]
    rw [hl, if_pos hcond]
    exact ⟨hlt, by omega, heq⟩
  · intro hno
    rw [hl]
    split
    · rename_i hc
      exfalso
      have hlt : 1 + s < ids.length := by omega
      have hm := getMID_spec size ids posOf h (1 + s) hlt
      have hr := getRID_spec size ids posOf h (1 + s) hlt
      have e1 : ids[1 + s].1 = id.1 := by
        have := hc.2.1; simp only [B, hm, Option.some.injEq] at this; exact this
      have e2 : ids[1 + s].2 = id.2 := by
        have := hc.2.2; simp only [B, hr, Option.some.injEq] at this; exact this
      exact hno ⟨1 + s, hlt, by omega, Prod.ext e1 e2⟩
    · rfl

/-- **fetch of one ID: sealed = active.**  `apos` / `aoffs` / `afile` are the active fraction's positions map, doc
block offsets and docs file; the sealed fraction is built by `writeSortedDocs` (new blocks, offsets, positions) and
`writeIDs` over the new positions.  For every requested ID (stored or not) both forms return the same bytes or nil. -/
theorem fetch_one_same (clen : Nat → List Nat → Nat) (hclen : ∀ i p, 0 < clen i p) (minBS size : Nat)
    (apos : List (ID × Nat)) (aoffs : List Nat) (afile : List (Nat × List Nat)) (ids : List ID) (w : DW)
    (hin : IDsInput size ids) (hd : DescIDs ids) (hn : ids.length < 4294967296)
    (hkeys : ∀ id, (lookupPos apos id).isSome ↔ ∃ k, ∃ (hk : k < ids.length), 1 ≤ k ∧ ids[k] = id)
    (hreadable : ∀ id p, lookupPos apos id = some p → p ≠ docPosNotFound ∧ ∃ d, readAt aoffs afile p = some d ∧ d.length < 4294967296)
    (hnz : ∀ id, id ∈ ids.tail → id ≠ (0, 0))
    (hw : writeSortedDocs clen minBS (fun id => fetchAt aoffs afile (activeDocPos apos id)) ids = some w)
    (hposb : ∀ id p, lookupPos w.positions id = some p → p < W64 ∧ p ≠ docPosNotFound) (id : ID) :
    let posOf := fun x => (lookupPos w.positions x).getD docPosNotFound
    fetchAt w.blockOffsets w.file (sealedDocPos size (idsTableOf (writeIDs size ids posOf) ids.length) (writeIDs size ids posOf) id) =
      fetchAt aoffs afile (activeDocPos apos id) := by
  intro posOf
  let oldRead : ID → Option DocB := fun id => fetchAt aoffs afile (activeDocPos apos id)
  have hsize : ∀ x d, oldRead x = some d → d.length < 4294967296 := by
    intro x d hx
    simp only [oldRead, fetchAt, activeDocPos] at hx
    cases hp : lookupPos apos x with
    | none => simp [hp, docPosNotFound] at hx
    | some p =>
      obtain ⟨h1, d', h2, h3⟩ := hreadable x p hp
      simp only [hp, Option.getD_some, h1, if_false, h2, Option.some.injEq] at hx
      subst hx; exact h3
  obtain ⟨s1, s2⟩ := sortedDocs_fetch_same clen hclen minBS oldRead hsize ids w hn hw
  obtain ⟨f1, f2⟩ := findOne_spec size ids posOf hin hd id
  by_cases hex : ∃ k, ∃ (hk : k < ids.length), 1 ≤ k ∧ ids[k] = id
  · obtain ⟨hl, hl1, hlid⟩ := f1 hex
    have hmem : id ∈ ids.tail := by
      obtain ⟨k, hk, hk1, hkid⟩ := hex
      rw [← hkid]
      cases ids with
      | nil => simp at hk
      | cons x xs =>
        obtain ⟨j, rfl⟩ : ∃ j, k = j + 1 := ⟨k - 1, by omega⟩
        simp only [List.getElem_cons_succ, List.tail_cons]
        exact List.getElem_mem _
    obtain ⟨p, hp⟩ := s2 id hmem (hnz id hmem)
    have hposlt : ∀ x, x ∈ ids → posOf x < W64 := by
      intro x _
      simp only [posOf]
      cases hx : lookupPos w.positions x with
      | none => simp [docPosNotFound, W64]
      | some q => exact (hposb x q hx).1
    have hgp := getPos_spec size ids posOf hin hposlt _ hl
    have hl0 : ¬ (findOne size (idsTableOf (writeIDs size ids posOf) ids.length) (writeIDs size ids posOf) id = 0) := by omega
    simp only [sealedDocPos, hl0, if_false, hgp, Option.getD_some, hlid]
    have hpe : posOf id = p := by simp only [posOf, hp, Option.getD_some]
    rw [hpe]
    have hnf := (hposb id p hp).2
    simp only [fetchAt, hnf, if_false]
    rw [s1 id p hp]
    rfl
  · have hl0 := f2 hex
    simp only [sealedDocPos, hl0, if_true]
    have hnone : lookupPos apos id = none := by
      cases hv : lookupPos apos id with
      | none => rfl
      | some q => exact absurd ((hkeys id).mp (by simp [hv])) hex
    simp [fetchAt, activeDocPos, hnone]

end SV.C03
