import SeqVerif.Model.C03Lids
/-!
# C03 proofs, part 1: `sort.Search` cuts and `narrowLIDsRange` on strictly increasing chunks
-/
namespace SV.C03

abbrev Sorted (l : List Nat) : Prop := l.Pairwise (· < ·)

theorem getD_cons_succ (x : Nat) (xs : List Nat) (i : Nat) : (x :: xs).getD (i + 1) 0 = xs.getD i 0 := by
  simp [List.getD]

/-- in a sorted list elements grow with the index -/
theorem sorted_getD_le (xs : List Nat) (hs : xs.Pairwise (· ≤ ·)) :
    ∀ i j, i ≤ j → j < xs.length → xs.getD i 0 ≤ xs.getD j 0 := by
  induction xs with
  | nil => intro i j _ hj; simp at hj
  | cons x xs ih =>
    intro i j hij hj
    rw [List.pairwise_cons] at hs
    cases j with
    | zero =>
      have : i = 0 := by omega
      subst this; exact Nat.le_refl _
    | succ j =>
      cases i with
      | zero =>
        simp only [getD_cons_succ]
        have hmem : xs.getD j 0 ∈ xs := by
          have hj' : j < xs.length := by simpa using hj
          simp [List.getD, List.getElem?_eq_getElem hj']
        simpa [List.getD] using hs.1 _ hmem
      | succ i =>
        simp only [getD_cons_succ]
        exact ih hs.2 i j (by omega) (by simpa using hj)

/-- a cut index that separates `p`-false from `p`-true elements gives `filter` -/
theorem cut_eq_filter (xs : List Nat) (p : Nat → Bool) :
    ∀ k, k ≤ xs.length →
      (∀ i, i < k → p (xs.getD i 0) = false) →
      (∀ i, k ≤ i → i < xs.length → p (xs.getD i 0) = true) →
      xs.drop k = xs.filter p ∧ xs.take k = xs.filter (fun x => !p x) := by
  induction xs with
  | nil => intro k _ _ _; simp
  | cons x xs ih =>
    intro k hk hlo hhi
    cases k with
    | zero =>
      have hx : p x = true := by simpa [List.getD] using hhi 0 (by omega) (by simp)
      have := ih 0 (by omega) (by intro i hi; omega)
        (by intro i _ hi; simpa [getD_cons_succ] using hhi (i + 1) (by omega) (by simpa using hi))
      simp only [List.drop_zero, List.take_zero] at this ⊢
      simp [hx, ← this.1, ← this.2]
    | succ k =>
      have hx : p x = false := by simpa [List.getD] using hlo 0 (by omega)
      have := ih k (by simpa using hk)
        (by intro i hi; simpa [getD_cons_succ] using hlo (i + 1) (by omega))
        (by intro i h1 h2; simpa [getD_cons_succ] using hhi (i + 1) (by omega) (by simpa using h2))
      simp [hx, this.1, this.2]

/-- `sort.Search` over a sorted list with an upward closed predicate cuts the list like `filter` -/
theorem search_cut (xs : List Nat) (hs : xs.Pairwise (· ≤ ·)) (p : Nat → Bool)
    (hp : ∀ a b, a ≤ b → p a = true → p b = true) :
    xs.drop (searchGo (fun i => p (xs.getD i 0)) 0 xs.length) = xs.filter p ∧
    xs.take (searchGo (fun i => p (xs.getD i 0)) 0 xs.length) = xs.filter (fun x => !p x) := by
  have hmono : Mono (fun i => p (xs.getD i 0)) 0 xs.length := by
    intro a b _ hab hb ha
    exact hp _ _ (sorted_getD_le xs hs a b hab hb) ha
  have hb := searchGo_bounds (fun i => p (xs.getD i 0)) 0 xs.length (by omega)
  have hsp := searchGo_spec (fun i => p (xs.getD i 0)) 0 xs.length hmono 0 xs.length (by omega) (by omega) (by omega)
    (by intro k _ hk; omega) (by intro k h1 h2; omega)
  exact cut_eq_filter xs p _ hb.2 (fun i hi => hsp.1 i (by omega) hi) (fun i h1 h2 => hsp.2 i h1 h2)

theorem sorted_le (xs : List Nat) (hs : Sorted xs) : xs.Pairwise (· ≤ ·) :=
  List.Pairwise.imp (fun h => Nat.le_of_lt h) hs

theorem cutLeft_eq (minL : Nat) (lids : List Nat) (hs : Sorted lids) :
    cutLeft minL lids = lids.filter (fun x => decide (minL ≤ x)) := by
  unfold cutLeft
  have := (search_cut lids (sorted_le lids hs) (fun x => decide (x ≥ minL))
    (by intro a b hab ha; simp at ha ⊢; omega)).1
  simpa using this

theorem cutRight_eq (maxL : Nat) (lids : List Nat) (hs : Sorted lids) :
    cutRight maxL lids = lids.filter (fun x => decide (x ≤ maxL)) := by
  unfold cutRight
  have := (search_cut lids (sorted_le lids hs) (fun x => decide (x > maxL))
    (by intro a b hab ha; simp at ha ⊢; omega)).2
  rw [this]
  apply List.filter_congr
  intro x _
  by_cases h : maxL < x
  · have h' : ¬ x ≤ maxL := by omega
    simp [h, h']
  · have h' : x ≤ maxL := by omega
    simp [h, h']

/-- first element is the minimum, last the maximum of a sorted non-empty list -/
theorem sorted_bounds (lids : List Nat) (hs : Sorted lids) (x : Nat) (hx : x ∈ lids) :
    lids.headD 0 ≤ x ∧ x ≤ lids.getLastD 0 := by
  induction lids with
  | nil => simp at hx
  | cons a t ih =>
    have hs := List.pairwise_cons.mp hs
    simp only [List.headD_cons]
    rcases List.mem_cons.mp hx with rfl | hx
    · refine ⟨Nat.le_refl _, ?_⟩
      cases t with
      | nil => simp
      | cons b t' =>
        have hl : (b :: t').getLastD 0 ∈ b :: t' := by
          simp only [List.getLastD_cons]
          exact List.getLastD_mem_cons ..
        have := hs.1 _ hl
        simp only [List.getLastD_cons] at this ⊢
        omega
    · have h1 := hs.1 x hx
      have h2 := (ih hs.2 hx).2
      refine ⟨by omega, ?_⟩
      cases t with
      | nil => simp at hx
      | cons b t' => simpa using h2

theorem filter_window (minL maxL : Nat) (lids : List Nat) :
    (lids.filter (fun x => decide (minL ≤ x))).filter (fun x => decide (x ≤ maxL)) = lids.filter (inWin minL maxL) := by
  rw [List.filter_filter]
  apply List.filter_congr
  intro x _
  simp [inWin, Bool.and_comm]

theorem filter_all (p : Nat → Bool) (l : List Nat) (h : ∀ x, x ∈ l → p x = true) : l.filter p = l := by
  rw [List.filter_eq_self]; exact h

theorem filter_none (p : Nat → Bool) (l : List Nat) (h : ∀ x, x ∈ l → p x = false) : l.filter p = [] := by
  rw [List.filter_eq_nil_iff]; intro x hx; simp [h x hx]

/-- the list part of both `narrowLIDsRange` variants is the window filter -/
theorem narrow_core (minL maxL : Nat) (lids : List Nat) (hs : Sorted lids)
    (h1 : ¬ maxL < lids.headD 0) (h2 : ¬ minL > lids.getLastD 0) :
    (if maxL ≤ lids.getLastD 0 then cutRight maxL (if minL > lids.headD 0 then cutLeft minL lids else lids)
     else (if minL > lids.headD 0 then cutLeft minL lids else lids)) = lids.filter (inWin minL maxL) := by
  have hl1 : (if minL > lids.headD 0 then cutLeft minL lids else lids) = lids.filter (fun x => decide (minL ≤ x)) := by
    split
    · exact cutLeft_eq minL lids hs
    · rw [filter_all]
      intro x hx
      have := (sorted_bounds lids hs x hx).1
      simp; omega
  rw [hl1]
  have hs1 : Sorted (lids.filter (fun x => decide (minL ≤ x))) := List.Pairwise.filter _ hs
  split
  · rw [cutRight_eq maxL _ hs1, filter_window]
  · rw [← filter_window minL maxL, filter_all (fun x => decide (x ≤ maxL))]
    intro x hx
    have := (sorted_bounds lids hs x (List.mem_filter.mp hx).1).2
    simp; omega

theorem narrowDesc_spec (minL maxL : Nat) (lids : List Nat) (tn : Bool) (hs : Sorted lids) :
    (narrowDesc minL maxL lids tn).1 = lids.filter (inWin minL maxL) ∧
    ((narrowDesc minL maxL lids tn).2 = true → tn = true) ∧
    (tn = true → (narrowDesc minL maxL lids tn).2 = false → maxL ≤ lids.getLastD 0) := by
  unfold narrowDesc
  simp only
  by_cases h1 : maxL < lids.headD 0
  · simp only [h1, if_true]
    refine ⟨?_, by simp, ?_⟩
    · rw [filter_none]
      intro x hx
      have := (sorted_bounds lids hs x hx).1
      simp [inWin]; omega
    · intro _ _
      cases lids with
      | nil => simp at h1
      | cons a t =>
        have := (sorted_bounds (a :: t) hs a (by simp)).2
        simp only [List.headD_cons] at h1
        omega
  · simp only [h1, if_false]
    by_cases h2 : minL > lids.getLastD 0
    · simp only [h2, if_true]
      refine ⟨?_, by simp, by intro a b; simp [a] at b⟩
      rw [filter_none]
      intro x hx
      have := (sorted_bounds lids hs x hx).2
      simp [inWin]; omega
    · simp only [h2, if_false]
      have hc := narrow_core minL maxL lids hs h1 h2
      by_cases h3 : maxL ≤ lids.getLastD 0
      · simp only [h3, if_true] at hc ⊢
        exact ⟨hc, by simp, fun _ _ => by first | trivial | exact h3⟩
      · simp only [h3, if_false] at hc ⊢
        exact ⟨hc, by simp, by intro a b; simp [a] at b⟩

theorem narrowAsc_spec (minL maxL : Nat) (lids : List Nat) (tn : Bool) (hs : Sorted lids) :
    (narrowAsc minL maxL lids tn).1 = lids.filter (inWin minL maxL) ∧
    ((narrowAsc minL maxL lids tn).2 = true → tn = true) ∧
    (tn = true → (narrowAsc minL maxL lids tn).2 = false → minL > lids.headD 0 ∨ lids = []) := by
  unfold narrowAsc
  simp only
  by_cases h1 : maxL < lids.headD 0
  · simp only [h1, if_true]
    refine ⟨?_, by simp, by intro a b; simp [a] at b⟩
    rw [filter_none]
    intro x hx
    have := (sorted_bounds lids hs x hx).1
    simp [inWin]; omega
  · simp only [h1, if_false]
    by_cases h2 : minL > lids.getLastD 0
    · simp only [h2, if_true]
      refine ⟨?_, by simp, ?_⟩
      · rw [filter_none]
        intro x hx
        have := (sorted_bounds lids hs x hx).2
        simp [inWin]; omega
      · intro _ _
        cases lids with
        | nil => right; rfl
        | cons a t =>
          left
          have := (sorted_bounds (a :: t) hs a (by simp)).2
          simp only [List.headD_cons]
          omega
    · simp only [h2, if_false]
      have hc := narrow_core minL maxL lids hs h1 h2
      by_cases h4 : minL > lids.headD 0
      · have htn : (if minL > lids.headD 0 then false else tn) = false := if_pos h4
        rw [htn]
        by_cases h3 : maxL ≤ lids.getLastD 0
        · simp only [h3, if_true] at hc ⊢
          exact ⟨hc, by simp, fun _ _ => Or.inl h4⟩
        · simp only [h3, if_false] at hc ⊢
          exact ⟨hc, by simp, fun _ _ => Or.inl h4⟩
      · have htn : (if minL > lids.headD 0 then false else tn) = tn := if_neg h4
        rw [htn]
        by_cases h3 : maxL ≤ lids.getLastD 0
        · simp only [h3, if_true] at hc ⊢
          exact ⟨hc, by simp, by intro a b; simp [a] at b⟩
        · simp only [h3, if_false] at hc ⊢
          exact ⟨hc, by simp, by intro a b; simp [a] at b⟩

end SV.C03
