import SeqVerif.Model.C03TokenTable
import SeqVerif.Proofs.C03DocsProofs
/-!
# C03 proofs: the token table re-read from the file equals the table kept from sealing
-/
namespace SV.C03

def U32 (n : Nat) : Prop := n < 4294967296

theorem getU32_le32 (n : Nat) (r : List Nat) (h : U32 n) : getU32 (le32 n ++ r) = (n, r) := by
  unfold getU32
  rw [unle32_le32 n r h]
  simp [le32]

theorem getBinary_putStr (s r : List Nat) (h : U32 s.length) : getBinary (putStr s ++ r) = (s, r) := by
  unfold getBinary putStr
  rw [List.append_assoc, unle32_le32 _ _ h]
  simp [le32]

structure EntryOK (e : TEntry) : Prop where
  a : U32 e.startTID
  b : U32 e.valCount
  c : U32 e.startIndex
  d : U32 e.blockIndex
  mn : U32 (e.minVal.getD []).length
  mx : U32 e.maxVal.length

structure FieldOK (f : FieldEntries) : Prop where
  name : U32 f.name.length
  cnt : U32 f.entries.length
  ents : ∀ e, e ∈ f.entries → EntryOK e

def keptEntry (e : TEntry) : LEntry :=
  { startIndex := e.startIndex, startTID := e.startTID, blockIndex := e.blockIndex, valCount := e.valCount, maxVal := e.maxVal }

theorem parseEntry_pack (e : TEntry) (r : List Nat) (h : EntryOK e) :
    parseEntry (packEntry e ++ r) = ((keptEntry e, e.minVal.getD []), r) := by
  unfold parseEntry packEntry
  simp only [List.append_assoc]
  rw [getU32_le32 _ _ h.a]
  simp only
  rw [getU32_le32 _ _ h.b]
  simp only
  rw [getU32_le32 _ _ h.c]
  simp only
  rw [getU32_le32 _ _ h.d]
  simp only
  rw [getBinary_putStr _ _ h.mn]
  simp only
  rw [getBinary_putStr _ _ h.mx]
  rfl

theorem parseEntries_pack (es : List TEntry) (r : List Nat) (h : ∀ e, e ∈ es → EntryOK e) :
    parseEntries es.length (es.flatMap packEntry ++ r) = (es.map fun e => (keptEntry e, e.minVal.getD []), r) := by
  induction es with
  | nil => rfl
  | cons e es ih =>
    simp only [List.length_cons, parseEntries, List.flatMap_cons, List.append_assoc]
    rw [parseEntry_pack e _ (h e (by simp))]
    simp only
    rw [ih (fun x hx => h x (List.mem_cons_of_mem _ hx))]
    rfl

theorem parseField_pack (f : FieldEntries) (r : List Nat) (h : FieldOK f) :
    parseField (packFieldBlock f ++ r) = (keptField f, r) := by
  unfold parseField packFieldBlock
  simp only [List.append_assoc]
  rw [getBinary_putStr _ _ h.name]
  simp only
  rw [getU32_le32 _ _ h.cnt]
  simp only
  rw [parseEntries_pack f.entries r h.ents]
  simp only [keptField, List.map_map, List.head?_map, Option.map_map]
  congr 1

theorem packFieldBlock_ne (f : FieldEntries) : packFieldBlock f ≠ [] := by
  simp [packFieldBlock, putStr, le32]

def packAll (fs : List FieldEntries) : List Nat := fs.flatMap packFieldBlock

theorem parseBlock_packAll (fs : List FieldEntries) (h : ∀ f, f ∈ fs → FieldOK f) :
    ∀ fuel, fs.length ≤ fuel → parseBlock fuel (packAll fs) = fs.map keptField := by
  induction fs with
  | nil => intro fuel _; cases fuel <;> simp [parseBlock, packAll]
  | cons f fs ih =>
    intro fuel hf
    cases fuel with
    | zero => simp at hf
    | succ fuel =>
      have hne : packAll (f :: fs) ≠ [] := by
        simp only [packAll, List.flatMap_cons]
        intro h0
        exact packFieldBlock_ne f (List.append_eq_nil_iff.mp h0).1
      simp only [parseBlock, hne, if_false]
      have hp : packAll (f :: fs) = packFieldBlock f ++ packAll fs := by simp [packAll]
      rw [hp, parseField_pack f _ (h f (by simp))]
      simp only [List.map_cons]
      rw [ih (fun x hx => h x (List.mem_cons_of_mem _ hx)) fuel (by simpa using hf)]

theorem length_le_packAll (fs : List FieldEntries) : fs.length ≤ (packAll fs).length := by
  induction fs with
  | nil => simp [packAll]
  | cons f fs ih =>
    have : 0 < (packFieldBlock f).length := List.length_pos_iff.mpr (packFieldBlock_ne f)
    simp only [packAll, List.flatMap_cons, List.length_append, List.length_cons] at ih ⊢
    omega

theorem loadTable_writeTable (rbs : Nat) :
    ∀ (fs pre : List FieldEntries), (∀ f, f ∈ pre ++ fs → FieldOK f) →
      loadTable (writeTable rbs fs (packAll pre)) = (pre ++ fs).map keptField := by
  intro fs
  induction fs with
  | nil =>
    intro pre h
    simp only [writeTable, List.append_nil]
    by_cases hp : packAll pre = []
    · have : pre = [] := by
        cases pre with
        | nil => rfl
        | cons f r =>
          simp only [packAll, List.flatMap_cons] at hp
          exact absurd (List.append_eq_nil_iff.mp hp).1 (packFieldBlock_ne f)
      subst this
      simp [hp, loadTable]
    · simp only [hp, if_false, loadTable, List.flatMap_cons, List.flatMap_nil, List.append_nil]
      exact parseBlock_packAll pre (fun f hf => h f (by simpa using hf)) _ (length_le_packAll pre)
  | cons f fs ih =>
    intro pre h
    have hpk : packAll pre ++ packFieldBlock f = packAll (pre ++ [f]) := by simp [packAll]
    simp only [writeTable, hpk]
    split
    · simp only [loadTable, List.flatMap_cons]
      rw [parseBlock_packAll (pre ++ [f]) (fun x hx => h x (by
          rcases List.mem_append.mp hx with hx | hx
          · exact List.mem_append_left _ hx
          · simp at hx; subst hx; simp)) _ (length_le_packAll _)]
      have := ih [] (fun x hx => h x (by simp at hx ⊢; right; right; exact hx))
      simp only [packAll, List.flatMap_nil, List.nil_append, loadTable] at this
      rw [this]
      simp
    · have := ih (pre ++ [f]) (fun x hx => h x (by simpa using hx))
      rw [this]
      simp

/-- **the token table loaded from the index file equals the table kept from sealing** (any block size) -/
theorem tokenTable_loaded_eq_preloaded (rbs : Nat) (fs : List FieldEntries) (h : ∀ f, f ∈ fs → FieldOK f) :
    loadTable (writeTable rbs fs []) = fs.map keptField := by
  have := loadTable_writeTable rbs fs [] (by simpa using h)
  simpa [packAll] using this

end SV.C03
