import SeqVerif.Model.Lifecycle
import SeqVerif.Proofs.SealCrash
/-!
The invariant `Inv` of Model/Lifecycle.lean is kept by every procedure at every prefix (used by Props/C15.lean).
-/
namespace SV.Lifecycle
open SV.FileSet SV.SealOps

/-- `P` holds for the files after every prefix of `ops` -/
def AllPre (P : FileSet → Prop) (ops : List Op) (fs : FileSet) : Prop :=
  ∀ pre, pre <+: ops → P (run pre fs)

theorem allPre_iff (P : FileSet → Prop) (ops : List Op) (fs : FileSet) (u : List Suffix) :
    Along (fun st => P st.fs) (fun _ _ => True) ops ⟨fs, u⟩ → AllPre P ops fs := by
  intro h pre hp
  have key : ∀ (ops : List Op) (st st' : St), st.fs = st'.fs → (applyOps ops st).fs = (applyOps ops st').fs := by
    intro ops
    induction ops with
    | nil => intro st st' h; exact h
    | cons o r ih =>
      intro st st' h
      simp only [applyOps, List.foldl_cons]
      apply ih
      cases o <;> simp [step, h] <;> split <;> simp [h]
  have := ((along_iff _ _ ops ⟨fs, u⟩).mp h).1 pre hp
  unfold run
  rw [key pre ⟨fs, []⟩ ⟨fs, u⟩ rfl]
  exact this

theorem not_del {fs : FileSet} (h : ¬ Del fs) : fs.docsDel = .absent ∧ fs.sdocsDel = .absent ∧ fs.indexDel = .absent := by
  unfold Del at h
  refine ⟨?_, ?_, ?_⟩ <;> (apply Classical.byContradiction; intro hn; exact h (by simp [hn]))

/-! ### a known shape starts, and serves all or nothing -/

theorem del_cleaned (fs : FileSet) (h : Del fs) : classify fs = .cleaned := by
  obtain ⟨docs, docsDel, sdocs, sdocsTmp, sdocsDel, index, indexTmp, indexDel, metaF⟩ := fs
  unfold Del at h
  simp only [classify, classifyInfo, makeInfo, Info.known, Content.has] at *
  rcases h with h | h | h <;> cases docsDel <;> cases sdocsDel <;> cases indexDel <;> simp_all

theorem disk_ok (c : Cfg) (fs : FileSet) (h : Disk c fs) :
    (startup false fs).1 ≠ .down ∧ (served false fs = .all ∨ served false fs = .none) := by
  by_cases hd : Del fs
  · simp [startup, served, del_cleaned fs hd]
  obtain ⟨d1, d2, d3⟩ := not_del hd
  obtain ⟨docs, docsDel, sdocs, sdocsTmp, sdocsDel, index, indexTmp, indexDel, metaF⟩ := fs
  obtain ⟨skip, keep⟩ := c
  simp only at d1 d2 d3
  subst d1 d2 d3
  unfold Disk at h
  rcases h with h | h | h | h | h | h
  · exact absurd h hd
  · obtain ⟨h1, h2⟩ := h
    simp only at h1 h2
    subst h1 h2
    cases index <;> cases metaF <;>
      simp [startup, served, classify, classifyInfo, makeInfo, Info.known, Content.has]
  · obtain ⟨h1, h2⟩ := h
    simp only at h1 h2
    subst h1 h2
    cases docs <;> cases sdocs <;>
      simp [startup, served, classify, classifyInfo, makeInfo, Info.known, Content.has]
  · obtain ⟨h1, h2, h3, h4⟩ := h
    simp only at h1 h2 h3 h4
    subst h1 h2 h3 h4
    simp [startup, served, classify, classifyInfo, makeInfo, Info.known, Content.has]
  · obtain ⟨h1, h2, h3, h4⟩ := h
    simp only at h1 h2 h3 h4
    subst h1 h2
    cases skip
    · have := h3 rfl; subst this
      cases sdocs <;>
        simp [startup, served, classify, classifyInfo, makeInfo, Info.known, Content.has]
    · obtain ⟨h5, h6⟩ := h4 rfl
      subst h5
      rcases h6 with h6 | h6 <;> subst h6 <;>
        simp [startup, served, classify, classifyInfo, makeInfo, Info.known, Content.has]
  · obtain ⟨h1, h2⟩ := h
    simp only at h1 h2
    subst h1
    rcases h2 with ⟨h2, h3, h4⟩ | ⟨h2, h3, h4⟩
    · subst h2
      rcases h3 with h3 | h3 <;> rcases h4 with h4 | h4 <;> subst h3 h4 <;>
        simp [startup, served, loadEffect, classify, classifyInfo, makeInfo, Info.known, Content.has, FileSet.get]
    · subst h2 h3
      rcases h4 with h4 | ⟨h4, -⟩ <;> subst h4 <;>
        simp [startup, served, loadEffect, classify, classifyInfo, makeInfo, Info.known, Content.has, FileSet.get]

/-! ### every procedure keeps the invariant at every prefix -/

theorem newActive_inv (c : Cfg) :
    AllPre (Disk c) newActiveOps {} ∧ Inv c .active (run newActiveOps {}) := by
  refine ⟨allPre_iff _ _ _ [] ?_, ?_⟩
  · simp [newActiveOps, Along, step, FileSet.set, FileSet.get, Disk, ShapeN, ShapeG, ShapeE]
  · simp [newActiveOps, run, applyOps, step, FileSet.set, FileSet.get, Inv, Disk, Del, ShapeE]

theorem fill_inv (c : Cfg) (fs : FileSet) (hd : ¬ Del fs) (h : ShapeE fs ∨ ShapeA c fs) :
    AllPre (Disk c) [.fill] fs ∧ Inv c .active (run [.fill] fs) := by
  obtain ⟨d1, d2, d3⟩ := not_del hd
  obtain ⟨docs, docsDel, sdocs, sdocsTmp, sdocsDel, index, indexTmp, indexDel, metaF⟩ := fs
  obtain ⟨skip, keep⟩ := c
  simp only at d1 d2 d3
  subst d1 d2 d3
  rcases h with ⟨h1, h2, h3, h4⟩ | ⟨h1, h2, h3, h4⟩ <;> simp only at h1 h2 h3 h4
  · subst h1 h2 h3 h4
    refine ⟨allPre_iff _ _ _ [] ?_, ?_⟩
    · simp [Along, step, Disk, ShapeE, ShapeA]
    · simp [run, applyOps, step, Inv, Disk, Del, ShapeA]
  · subst h1 h2
    refine ⟨allPre_iff _ _ _ [] ?_, ?_⟩
    · have hA : Disk ⟨skip, keep⟩ ⟨.full, .absent, sdocs, sdocsTmp, .absent, index, indexTmp, .absent, .full⟩ :=
        .inr (.inr (.inr (.inr (.inl ⟨rfl, rfl, h3, h4⟩))))
      simp only [Along, step]
      exact ⟨hA, trivial, hA⟩
    · simp only [run, applyOps, List.foldl, step, Inv, Del]
      exact ⟨.inr (.inr (.inr (.inr (.inl ⟨rfl, rfl, h3, h4⟩)))), fun _ => ⟨by simp, .inr ⟨rfl, rfl, h3, h4⟩⟩, fun h => by cases h⟩

theorem activeSuicide_inv (c : Cfg) (fs : FileSet) (hd : ¬ Del fs) (h : ShapeE fs ∨ ShapeA c fs) :
    AllPre (Disk c) activeSuicideOps fs ∧ Inv c .none (run activeSuicideOps fs) := by
  obtain ⟨d1, d2, d3⟩ := not_del hd
  obtain ⟨docs, docsDel, sdocs, sdocsTmp, sdocsDel, index, indexTmp, indexDel, metaF⟩ := fs
  obtain ⟨skip, keep⟩ := c
  simp only at d1 d2 d3
  subst d1 d2 d3
  rcases h with ⟨h1, h2, h3, h4⟩ | ⟨h1, h2, h3, h4⟩ <;> simp only at h1 h2 h3 h4
  · subst h1 h2 h3 h4
    refine ⟨allPre_iff _ _ _ [] ?_, ?_⟩
    · simp [activeSuicideOps, Along, step, FileSet.set, Disk, ShapeE, ShapeG, ShapeN]
    · simp [activeSuicideOps, run, applyOps, step, FileSet.set, Inv, Disk, ShapeN]
  · subst h1 h2
    cases skip
    · have := h3 rfl; subst this
      refine ⟨allPre_iff _ _ _ [] ?_, ?_⟩
      · simp [activeSuicideOps, Along, step, FileSet.set, Disk, ShapeA, ShapeG]
      · simp [activeSuicideOps, run, applyOps, step, FileSet.set, Inv, Disk, ShapeG]
    · obtain ⟨h5, h6⟩ := h4 rfl
      subst h5
      rcases h6 with h6 | h6 <;> subst h6 <;> refine ⟨allPre_iff _ _ _ [] ?_, ?_⟩ <;>
        simp [activeSuicideOps, Along, run, applyOps, step, FileSet.set, Inv, Disk, ShapeA, ShapeG, ShapeN, ShapeS]

theorem sealedSuicide_inv (c : Cfg) (fs : FileSet) (hd : ¬ Del fs) (h : ShapeS c fs) :
    AllPre (Disk c) sealedSuicideOps fs ∧ Inv c .none (run sealedSuicideOps fs) := by
  obtain ⟨d1, d2, d3⟩ := not_del hd
  obtain ⟨docs, docsDel, sdocs, sdocsTmp, sdocsDel, index, indexTmp, indexDel, metaF⟩ := fs
  obtain ⟨skip, keep⟩ := c
  simp only at d1 d2 d3
  subst d1 d2 d3
  obtain ⟨h1, h2⟩ := h
  simp only at h1 h2
  subst h1
  rcases h2 with ⟨h2, h3, h4⟩ | ⟨h2, h3, h4⟩
  · subst h2
    rcases h3 with h3 | h3 <;> rcases h4 with h4 | h4 <;> subst h3 h4 <;> refine ⟨allPre_iff _ _ _ [] ?_, ?_⟩ <;>
      simp [sealedSuicideOps, Along, run, applyOps, step, FileSet.set, FileSet.get, Inv, Disk, Del, ShapeS, ShapeN]
  · subst h2 h3
    rcases h4 with h4 | ⟨h4, h5⟩
    · subst h4
      refine ⟨allPre_iff _ _ _ [] ?_, ?_⟩ <;>
        simp [sealedSuicideOps, Along, run, applyOps, step, FileSet.set, FileSet.get, Inv, Disk, Del, ShapeS, ShapeN]
    · subst h4
      have h5' : skip = true := h5
      subst h5'
      refine ⟨allPre_iff _ _ _ [] ?_, ?_⟩ <;>
        simp [sealedSuicideOps, Along, run, applyOps, step, FileSet.set, FileSet.get, Inv, Disk, Del, ShapeS, ShapeN, ShapeA]

theorem roleAfter_startup (c : Cfg) (f : Facts) (o : Bool) (fs : FileSet) :
    Proc.roleAfter c f o fs .startup =
      match (startup o fs).1 with | .none => .none | .active => .active | .sealed => .sealed | .down => .crashed := rfl

theorem startup_inv (c : Cfg) (f : Facts) (fs : FileSet) (h : Disk c fs) :
    AllPre (Disk c) (startupOps false fs) fs ∧
      Inv c (Proc.roleAfter c f false fs .startup) (run (startupOps false fs) fs) := by
  rw [roleAfter_startup]
  by_cases hd : Del fs
  · have hc := del_cleaned fs hd
    obtain ⟨docs, docsDel, sdocs, sdocsTmp, sdocsDel, index, indexTmp, indexDel, metaF⟩ := fs
    have hd' : docsDel ≠ .absent ∨ sdocsDel ≠ .absent ∨ indexDel ≠ .absent := hd
    simp only [startupOps, startup, hc]
    refine ⟨allPre_iff _ _ _ [] ?_, ?_⟩
    · simp only [removeFractionFilesOps, Along, step, FileSet.set, true_and]
      refine ⟨.inl hd, .inl hd', .inl hd', .inl hd', .inl hd', ?_, ?_, ?_⟩
      · by_cases h1 : docsDel = .absent <;> by_cases h2 : sdocsDel = .absent <;> simp [Disk, Del, ShapeN, h1, h2]
      · by_cases h2 : sdocsDel = .absent <;> simp [Disk, Del, ShapeN, h2]
      · simp [Disk, ShapeN]
    · simp [removeFractionFilesOps, run, applyOps, step, FileSet.set, Inv, Disk, ShapeN]
  obtain ⟨d1, d2, d3⟩ := not_del hd
  obtain ⟨docs, docsDel, sdocs, sdocsTmp, sdocsDel, index, indexTmp, indexDel, metaF⟩ := fs
  obtain ⟨skip, keep⟩ := c
  simp only at d1 d2 d3
  subst d1 d2 d3
  unfold Disk at h
  rcases h with h | h | h | h | h | h
  · exact absurd h hd
  · obtain ⟨h1, h2⟩ := h
    simp only at h1 h2
    subst h1 h2
    cases index <;> cases metaF <;> refine ⟨allPre_iff _ _ _ [] ?_, ?_⟩ <;>
      simp [startupOps, startup, classify, classifyInfo, makeInfo, Info.known, Content.has, Along, run, applyOps,
        Inv, Disk, ShapeN]
  · obtain ⟨h1, h2⟩ := h
    simp only at h1 h2
    subst h1 h2
    cases docs <;> cases sdocs <;> refine ⟨allPre_iff _ _ _ [] ?_, ?_⟩ <;>
      simp [startupOps, startup, classify, classifyInfo, makeInfo, Info.known, Content.has, Along, run, applyOps,
        removeFractionFilesOps, step, FileSet.set, Inv, Disk, ShapeN, ShapeG]
  · obtain ⟨h1, h2, h3, h4⟩ := h
    simp only at h1 h2 h3 h4
    subst h1 h2 h3 h4
    refine ⟨allPre_iff _ _ _ [] ?_, ?_⟩ <;>
      simp [startupOps, startup, classify, classifyInfo, makeInfo, Info.known, Content.has, Along, run, applyOps,
        newActiveOps, removeFractionFilesOps, step, FileSet.set, FileSet.get, Inv, Disk, ShapeN, ShapeE]
  · obtain ⟨h1, h2, h3, h4⟩ := h
    simp only at h1 h2 h3 h4
    subst h1 h2
    cases skip
    · have := h3 rfl; subst this
      cases sdocs <;> refine ⟨allPre_iff _ _ _ [] ?_, ?_⟩ <;>
        simp [startupOps, startup, classify, classifyInfo, makeInfo, Info.known, Content.has, Along, run, applyOps,
          newActiveOps, step, FileSet.set, FileSet.get, Inv, Disk, Del, ShapeA]
    · obtain ⟨h5, h6⟩ := h4 rfl
      subst h5
      rcases h6 with h6 | h6 <;> subst h6 <;> refine ⟨allPre_iff _ _ _ [] ?_, ?_⟩ <;>
        simp [startupOps, startup, classify, classifyInfo, makeInfo, Info.known, Content.has, Along, run, applyOps,
          newActiveOps, step, FileSet.set, FileSet.get, Inv, Disk, Del, ShapeA]
  · obtain ⟨h1, h2⟩ := h
    simp only at h1 h2
    subst h1
    rcases h2 with ⟨h2, h3, h4⟩ | ⟨h2, h3, h4⟩
    · subst h2
      rcases h3 with h3 | h3 <;> rcases h4 with h4 | h4 <;> subst h3 h4 <;> refine ⟨allPre_iff _ _ _ [] ?_, ?_⟩ <;>
        simp [startupOps, startup, loadEffect, classify, classifyInfo, makeInfo, Info.known, Content.has, Along, run,
          applyOps, step, FileSet.set, FileSet.get, Inv, Disk, Del, ShapeS]
    · subst h2 h3
      rcases h4 with h4 | ⟨h4, h5⟩
      · subst h4
        refine ⟨allPre_iff _ _ _ [] ?_, ?_⟩ <;>
          simp [startupOps, startup, loadEffect, classify, classifyInfo, makeInfo, Info.known, Content.has, Along, run,
            applyOps, step, FileSet.set, FileSet.get, Inv, Disk, Del, ShapeS]
      · subst h4
        have h5' : skip = true := h5
        subst h5'
        refine ⟨allPre_iff _ _ _ [] ?_, ?_⟩ <;>
          simp [startupOps, startup, loadEffect, classify, classifyInfo, makeInfo, Info.known, Content.has, Along, run,
            applyOps, newActiveOps, step, FileSet.set, FileSet.get, Inv, Disk, Del, ShapeS, ShapeA]

/-! ### sealing keeps the invariant (the proof of `crash_safe` with the shape predicate in place of `Safe`) -/

/-- during sealing and release the directory is an active fraction with documents or a sealed one -/
def SealShape (c : Cfg) (st : St) : Prop := ¬ Del st.fs ∧ (ShapeA c st.fs ∨ ShapeS c st.fs)

theorem sealShape_sdocsTorn (c : Cfg) (st : St) : SealShape c (sdocsTorn st) ↔ SealShape c st := Iff.rfl

theorem along_sdocs_writes' (P : St → Prop) (hP : ∀ st, P (sdocsTorn st) ↔ P st) (n : Nat) (rest : List Op) (st : St)
    (h : st.fs.sdocsTmp = .empty ∨ st.fs.sdocsTmp = .torn) :
    Along P (fun _ _ => True) (List.replicate n (.write .sdocsTmp) ++ rest) st ↔
      Along P (fun _ _ => True) rest (if n = 0 then st else sdocsTorn st) := by
  induction n generalizing st with
  | zero => simp
  | succ n ih =>
    simp only [List.replicate_succ, List.cons_append, Along, step_write_sdocsTmp st h, Nat.succ_ne_zero, if_false]
    rw [ih (sdocsTorn st) (.inr rfl)]
    have e : (if n = 0 then sdocsTorn st else sdocsTorn (sdocsTorn st)) = sdocsTorn st := by
      split <;> rfl
    rw [e]
    exact ⟨fun h => h.2.2, fun h => ⟨(hP st).mp (along_head h), trivial, h⟩⟩

theorem along_sdocs_prefix' (P : St → Prop) (hP : ∀ st, P (sdocsTorn st) ↔ P st) (n : Nat) (rest : List Op) (st : St) :
    Along P (fun _ _ => True) (.create .indexTmp :: .create .sdocsTmp :: (List.replicate n (.write .sdocsTmp) ++ rest)) st ↔
      P st ∧ P (step (.create .indexTmp) st) ∧
        Along P (fun _ _ => True) rest
          (if n = 0 then step (.create .sdocsTmp) (step (.create .indexTmp) st)
           else sdocsTorn (step (.create .sdocsTmp) (step (.create .indexTmp) st))) := by
  simp only [Along]
  rw [along_sdocs_writes' P hP _ _ _ (by simp [step, FileSet.set])]
  constructor
  · rintro ⟨h1, -, h2, -, h3⟩; exact ⟨h1, h2, h3⟩
  · rintro ⟨h1, h2, h3⟩; exact ⟨h1, trivial, h2, trivial, h3⟩

theorem seal_along (c : Cfg) (f : Facts) (p : Plan) (oi os : List Bool) (fs0 : FileSet) (u : List Suffix)
    (hf : f.all = true) (hd : ¬ Del fs0) (h0 : ShapeA c fs0) :
    Along (SealShape c) (fun _ _ => True) (sealTrace c f p oi os).2 ⟨fs0, u⟩ := by
  obtain ⟨d1, d2, d3⟩ := not_del hd
  obtain ⟨docs, docsDel, sdocs, sdocsTmp, sdocsDel, index, indexTmp, indexDel, metaF⟩ := fs0
  obtain ⟨h1, h2, h3, h7⟩ := h0
  simp only at h1 h2 h3 h7 d1 d2 d3
  subst h1 h2 d1 d2 d3
  have hl := writeIndex_lost f p hf { oracle := oi }
  simp only at hl
  obtain ⟨skip, keep⟩ := c
  unfold sealTrace
  generalize hr : writeIndex f p { oracle := oi } = r at hl
  cases skip
  · have h3' := h3 rfl
    subst h3'
    obtain ⟨k, hk, -⟩ := sdocsWrites_spec p.sdocs os
    simp only [sortedDocsOps, Bool.false_eq_true, if_false, hk]
    cases hs : (sdocsWrites p.sdocs os).1
    · simp only [Bool.false_and, Bool.false_eq_true, if_false, List.append_nil, List.cons_append]
      have := along_sdocs_prefix' (SealShape ⟨false, keep⟩) (sealShape_sdocsTorn _) k []
      simp only [List.append_nil] at this
      rw [this]
      by_cases hk0 : k = 0 <;>
        simp [hk0, Along, step, sdocsTorn, FileSet.set, SealShape, Del, ShapeA]
    · cases hr1 : r.1 <;> by_cases hc : r.2.calls = 0 <;> cases keep <;> by_cases hk0 : k = 0 <;>
        simp only [Bool.and_true, Bool.and_false, Bool.false_eq_true, if_false, if_true, List.cons_append,
          List.append_assoc, List.nil_append, List.append_nil,
          along_sdocs_prefix' (SealShape _) (sealShape_sdocsTorn _)] <;>
        simp [hk0, Along, indexOps, releaseOps, hl, hc, step, sdocsTorn, FileSet.set, FileSet.get, SealShape, Del, ShapeA, ShapeS]
  · obtain ⟨h7', h8⟩ := h7 rfl
    subst h7'
    rcases h8 with h8 | h8 <;> subst h8 <;>
    cases hr1 : r.1 <;> by_cases hc : r.2.calls = 0 <;> cases keep <;>
      simp [Along, indexOps, releaseOps, hl, hc, hr1, step, FileSet.set, FileSet.get, SealShape, Del, ShapeA, ShapeS]

theorem applyOps_sdocs_writes (n : Nat) (rest : List Op) (st : St)
    (h : st.fs.sdocsTmp = .empty ∨ st.fs.sdocsTmp = .torn) :
    applyOps (List.replicate n (.write .sdocsTmp) ++ rest) st = applyOps rest (if n = 0 then st else sdocsTorn st) := by
  induction n generalizing st with
  | zero => simp
  | succ n ih =>
    simp only [List.replicate_succ, List.cons_append, applyOps, List.foldl_cons, step_write_sdocsTmp st h,
      Nat.succ_ne_zero, if_false]
    have := ih (sdocsTorn st) (.inr rfl)
    simp only [applyOps] at this
    rw [this]
    split <;> rfl

/-- a successful seal ends in a sealed fraction -/
theorem seal_final (c : Cfg) (f : Facts) (p : Plan) (oi os : List Bool) (fs0 : FileSet)
    (hf : f.all = true) (hd : ¬ Del fs0) (h0 : ShapeA c fs0) (hok : (sealTrace c f p oi os).1 = true) :
    ¬ Del (run (sealTrace c f p oi os).2 fs0) ∧ ShapeS c (run (sealTrace c f p oi os).2 fs0) := by
  obtain ⟨d1, d2, d3⟩ := not_del hd
  obtain ⟨docs, docsDel, sdocs, sdocsTmp, sdocsDel, index, indexTmp, indexDel, metaF⟩ := fs0
  obtain ⟨h1, h2, h3, h7⟩ := h0
  simp only at h1 h2 h3 h7 d1 d2 d3
  subst h1 h2 d1 d2 d3
  have hl := writeIndex_lost f p hf { oracle := oi }
  simp only at hl
  obtain ⟨skip, keep⟩ := c
  rw [sealTrace_ok, Bool.and_eq_true] at hok
  obtain ⟨hok1, hok2⟩ := hok
  unfold sealTrace run
  generalize hr : writeIndex f p { oracle := oi } = r at hl hok2
  cases skip
  · have h3' := h3 rfl
    subst h3'
    simp only [Bool.false_or] at hok1
    have hs : (sdocsWrites p.sdocs os).1 = true := hok1
    obtain ⟨k, hk, -⟩ := sdocsWrites_spec p.sdocs os
    simp only [sortedDocsOps, Bool.false_eq_true, if_false, hk, hs, hok2, Bool.and_self, if_true, List.cons_append,
      List.append_assoc, applyOps, List.foldl_cons]
    have e := applyOps_sdocs_writes k
    simp only [applyOps] at e
    rw [e _ _ (by simp [step, FileSet.set])]
    by_cases hc : r.2.calls = 0 <;> cases keep <;> by_cases hk0 : k = 0 <;>
      simp [hk0, indexOps, releaseOps, hl, hc, step, sdocsTorn, FileSet.set, FileSet.get, Del, ShapeS]
  · obtain ⟨h7', h8⟩ := h7 rfl
    subst h7'
    rcases h8 with h8 | h8 <;> subst h8 <;> by_cases hc : r.2.calls = 0 <;> cases keep <;>
      simp [applyOps, indexOps, releaseOps, hl, hc, hok2, step, FileSet.set, FileSet.get, Del, ShapeS]

/-- `SealShape` is a `Disk` shape -/
theorem sealShape_disk (c : Cfg) (st : St) (h : SealShape c st) : Disk c st.fs := by
  rcases h.2 with h | h
  · exact .inr (.inr (.inr (.inr (.inl h))))
  · exact .inr (.inr (.inr (.inr (.inr h))))

/-- a state inside a seal that a restart replays as an active fraction is again a start state of sealing -/
theorem sealShape_active_start (c : Cfg) (st : St) (h : SealShape c st) (ha : classify st.fs = .active) :
    Start c st.fs := by
  obtain ⟨hd, hs⟩ := h
  obtain ⟨d1, d2, d3⟩ := not_del hd
  rcases hs with ⟨h1, h2, h3, h4⟩ | hS
  · exact ⟨h1, h2, h3, d1, d2, d3, fun hsk => (h4 hsk).1⟩
  · obtain ⟨fs, u⟩ := st
    obtain ⟨docs, docsDel, sdocs, sdocsTmp, sdocsDel, index, indexTmp, indexDel, metaF⟩ := fs
    obtain ⟨skip, keep⟩ := c
    simp only at d1 d2 d3 ha
    subst d1 d2 d3
    obtain ⟨h1, h2⟩ := hS
    simp only at h1 h2
    subst h1
    rcases h2 with ⟨h2, h3, h4⟩ | ⟨h2, h3, h4⟩
    · subst h2
      rcases h3 with h3 | h3 <;> rcases h4 with h4 | h4 <;> subst h3 h4 <;>
        simp [classify, classifyInfo, makeInfo, Info.known, Content.has] at ha
    · subst h2 h3
      rcases h4 with h4 | ⟨h4, h5⟩
      · subst h4; simp [classify, classifyInfo, makeInfo, Info.known, Content.has] at ha
      · -- .docs + .meta + .index with SkipSortDocs: replayed as active, and a start state of sealing
        subst h4
        have h5' : skip = true := h5
        subst h5'
        simp [Start]

/-- one procedure from an invariant state: every prefix has a known shape, the end state satisfies the invariant -/
theorem proc_inv (c : Cfg) (f : Facts) (hf : f.all = true) (r : Role) (fs : FileSet) (hI : Inv c r fs)
    (proc : Proc) (hen : proc.enabled r fs) :
    AllPre (Disk c) (proc.ops c f false fs) fs ∧
      Inv c (proc.roleAfter c f false fs) (run (proc.ops c f false fs) fs) := by
  cases proc with
  | newActive =>
    obtain ⟨-, hfs⟩ := hen
    subst hfs
    exact newActive_inv c
  | fill =>
    have hr : r = .active := hen
    obtain ⟨hd, hs⟩ := hI.2.1 hr
    exact fill_inv c fs hd hs
  | activeSuicide =>
    have hr : r = .active := hen
    obtain ⟨hd, hs⟩ := hI.2.1 hr
    exact activeSuicide_inv c fs hd hs
  | sealedSuicide =>
    have hr : r = .sealed := hen
    obtain ⟨hd, hs⟩ := hI.2.2 hr
    exact sealedSuicide_inv c fs hd hs
  | startup => exact startup_inv c f fs hI.1
  | sealing p oi os =>
    obtain ⟨hr, hdocs⟩ := hen
    obtain ⟨hd, hs⟩ := hI.2.1 hr
    have hA : ShapeA c fs := by
      rcases hs with hs | hs
      · rw [hs.1] at hdocs; cases hdocs
      · exact hs
    have hal := seal_along c f p oi os fs [] hf hd hA
    refine ⟨fun pre hp => ?_, ?_⟩
    · exact sealShape_disk c _ (((along_iff _ _ _ _).mp hal).1 pre hp)
    · have hlast := sealShape_disk c _ (((along_iff _ _ _ _).mp hal).1 _ (List.prefix_refl _))
      show Inv c (if (sealTrace c f p oi os).1 = true then Role.sealed else Role.crashed) (run (sealTrace c f p oi os).2 fs)
      cases hok : (sealTrace c f p oi os).1
      · exact ⟨hlast, (fun h => by cases h), (fun h => by cases h)⟩
      · exact ⟨hlast, (fun h => by cases h), fun _ => seal_final c f p oi os fs hf hd hA hok⟩

/-- the invariant holds in every reachable state (repaired loader: orphans are removed) -/
theorem reach_inv (c : Cfg) (f : Facts) (hf : f.all = true) (r : Role) (fs : FileSet)
    (h : Reach c f false r fs) : Inv c r fs := by
  induction h with
  | birth => exact ⟨.inr (.inl ⟨rfl, rfl⟩), (fun h => by cases h), (fun h => by cases h)⟩
  | crash proc pre _ hen hp ih =>
    exact ⟨(proc_inv c f hf _ _ ih proc hen).1 pre hp, (fun h => by cases h), (fun h => by cases h)⟩
  | done proc _ hen ih => exact (proc_inv c f hf _ _ ih proc hen).2

/-! ### deletion, retention, cache -/

/-- once `Sealed.Suicide` changed anything on disk, the fraction serves nothing and the next start removes what is
left of its documents and index -/
theorem sealedSuicide_finishes (c : Cfg) (o : Bool) (fs : FileSet) (hd : ¬ Del fs) (h : ShapeS c fs)
    (pre : List Op) (hp : pre <+: sealedSuicideOps) (hne : run pre fs ≠ fs) :
    served o (run pre fs) = .none ∧
      ((startup o (run pre fs)).2.docs = .absent ∧ (startup o (run pre fs)).2.sdocs = .absent ∧
        (startup o (run pre fs)).2.index = .absent ∧ ¬ Del (startup o (run pre fs)).2) := by
  obtain ⟨d1, d2, d3⟩ := not_del hd
  obtain ⟨docs, docsDel, sdocs, sdocsTmp, sdocsDel, index, indexTmp, indexDel, metaF⟩ := fs
  simp only at d1 d2 d3
  subst d1 d2 d3
  obtain ⟨h1, h2⟩ := h
  simp only at h1 h2
  subst h1
  -- the prefixes of a six-element list
  have hpre : pre = [] ∨ pre = sealedSuicideOps.take 1 ∨ pre = sealedSuicideOps.take 2 ∨ pre = sealedSuicideOps.take 3 ∨
      pre = sealedSuicideOps.take 4 ∨ pre = sealedSuicideOps.take 5 ∨ pre = sealedSuicideOps.take 6 := by
    have hl := hp.length_le
    have := List.prefix_iff_eq_take.mp hp
    simp only [sealedSuicideOps, List.length_cons, List.length_nil] at hl
    rcases Nat.lt_or_ge pre.length 1 with h | h
    · left; exact List.eq_nil_of_length_eq_zero (by omega)
    · right
      have : pre.length = 1 ∨ pre.length = 2 ∨ pre.length = 3 ∨ pre.length = 4 ∨ pre.length = 5 ∨ pre.length = 6 := by omega
      rcases this with e | e | e | e | e | e <;> rw [e] at this <;> simp [this]
  rcases h2 with ⟨h2, h3, h4⟩ | ⟨h2, h3, h4⟩
  · subst h2
    rcases h3 with h3 | h3 <;> rcases h4 with h4 | h4 <;> subst h3 h4 <;>
      rcases hpre with e | e | e | e | e | e | e <;> subst e <;>
      simp [sealedSuicideOps, run, applyOps, step, FileSet.set, FileSet.get] at hne ⊢ <;>
      simp [served, startup, removeFractionFiles, classify, classifyInfo, makeInfo, Info.known, Content.has, Del]
  · subst h2 h3
    rcases h4 with h4 | ⟨h4, -⟩ <;> subst h4 <;>
      rcases hpre with e | e | e | e | e | e | e <;> subst e <;>
      simp [sealedSuicideOps, run, applyOps, step, FileSet.set, FileSet.get] at hne ⊢ <;>
      simp [served, startup, removeFractionFiles, classify, classifyInfo, makeInfo, Info.known, Content.has, Del]

/-- once `Active.Suicide` removed `.meta` the fraction serves nothing any more - provided no `.index` of an earlier
seal is lying around (with one, see `c15_active_delete_reappears`) -/
theorem activeSuicide_finishes (c : Cfg) (fs : FileSet) (hd : ¬ Del fs) (h : ShapeE fs ∨ ShapeA c fs)
    (hi : fs.index = .absent) (pre : List Op) (hp : pre <+: activeSuicideOps) (hne : pre ≠ []) :
    served false (run pre fs) = .none ∧ (startup false (run pre fs)).1 = .none ∧
      (startup false (run pre fs)).2.docs = .absent ∧ (startup false (run pre fs)).2.sdocs = .absent := by
  obtain ⟨d1, d2, d3⟩ := not_del hd
  obtain ⟨docs, docsDel, sdocs, sdocsTmp, sdocsDel, index, indexTmp, indexDel, metaF⟩ := fs
  simp only at d1 d2 d3 hi
  subst d1 d2 d3 hi
  have hpre : pre = activeSuicideOps.take 1 ∨ pre = activeSuicideOps.take 2 := by
    have hl := hp.length_le
    have := List.prefix_iff_eq_take.mp hp
    simp only [activeSuicideOps, List.length_cons, List.length_nil] at hl
    have hpos : pre.length ≠ 0 := fun h0 => hne (List.eq_nil_of_length_eq_zero h0)
    have : pre.length = 1 ∨ pre.length = 2 := by omega
    rcases this with e | e <;> rw [e] at this <;> simp [this]
  rcases h with ⟨h1, h2, -, h4⟩ | ⟨h1, h2, -, -⟩ <;> simp only at h1 h2 <;> subst h1 h2
  · simp only at h4
    subst h4
    rcases hpre with e | e <;> subst e <;>
      simp [activeSuicideOps, run, applyOps, step, FileSet.set, served, startup, removeFractionFiles, classify,
        classifyInfo, makeInfo, Info.known, Content.has]
  · rcases hpre with e | e <;> subst e <;> cases sdocs <;>
      simp [activeSuicideOps, run, applyOps, step, FileSet.set, served, startup, removeFractionFiles, classify,
        classifyInfo, makeInfo, Info.known, Content.has]

/-- the operations of a cancelled start-up are a prefix of those of a complete one (so `Reach.crash .startup` covers it) -/
theorem cancelledStartOps_prefix (o : Bool) (fs : FileSet) : cancelledStartOps o fs <+: startupOps o fs := by
  unfold cancelledStartOps startupOps
  cases classify fs <;> first | exact List.prefix_refl _ | exact List.prefix_append _ _

theorem classifyInfo_active_meta (i : Info) (h : classifyInfo i = .active) : i.hasMeta = true := by
  obtain ⟨a, b, c, d, e, f, g⟩ := i
  revert h
  cases a <;> cases b <;> cases c <;> cases d <;> cases e <;> cases f <;> cases g <;> simp [classifyInfo, Info.known]

/-- a cancelled start-up leaves the files of an unsealed fraction exactly as they were -/
theorem cancelledStart_unchanged (o : Bool) (fs : FileSet) (h : classify fs = .active) (hd : fs.docs ≠ .absent) :
    run (cancelledStartOps o fs) fs = fs := by
  have hm : fs.metaF ≠ .absent := by
    have := classifyInfo_active_meta (makeInfo fs) h
    intro hm
    simp [makeInfo, Content.has, hm] at this
  obtain ⟨docs, docsDel, sdocs, sdocsTmp, sdocsDel, index, indexTmp, indexDel, metaF⟩ := fs
  simp only [ne_eq] at hd hm
  simp [cancelledStartOps, h, newActiveOps, run, applyOps, step, FileSet.get, hd, hm]

/-- when every unsealed fraction is newer than every sealed one (always, except right after a crash that interrupted a
background seal - the open finding) the loader's order is the age order -/
theorem loadOrder_age (fr : List (Nat × Bool)) (hs : (fr.map (·.1)).Pairwise (· < ·))
    (h : ∀ x ∈ fr, ∀ y ∈ fr, x.2 = false → y.2 = true → x.1 < y.1) : loadOrder fr = fr.map (·.1) := by
  unfold loadOrder
  induction fr with
  | nil => rfl
  | cons x r ih =>
    have hs' : (r.map (·.1)).Pairwise (· < ·) := (List.pairwise_cons.mp hs).2
    have hx : ∀ y ∈ r, x.1 < y.1 := fun y hy => (List.pairwise_cons.mp hs).1 y.1 (List.mem_map.mpr ⟨y, hy, rfl⟩)
    have ih' := ih hs' (fun a ha b hb => h a (List.mem_cons_of_mem _ ha) b (List.mem_cons_of_mem _ hb))
    cases hx2 : x.2
    · simp only [List.filter_cons, hx2, Bool.not_false, if_true, Bool.false_eq_true, if_false, List.map_cons, List.cons_append]
      rw [ih']
    · -- x is unsealed: nothing sealed can follow it
      have hall : ∀ y ∈ r, y.2 = true := by
        intro y hy
        cases hy2 : y.2
        · have := h y (List.mem_cons_of_mem _ hy) x (List.mem_cons_self) hy2 hx2
          have := hx y hy
          omega
        · rfl
      have f1 : r.filter (fun z => !z.2) = [] := by
        apply List.filter_eq_nil_iff.mpr
        intro y hy; simp [hall y hy]
      have f2 : r.filter (fun z => z.2) = r := by
        apply List.filter_eq_self.mpr
        intro y hy; exact hall y hy
      simp [List.filter_cons, hx2, f1, f2]

theorem shrink_spec (limit : Nat) (sizes : List Nat) :
    (shrink limit sizes).1 ++ (shrink limit sizes).2 = sizes ∧
      ((shrink limit sizes).2.sum ≤ limit) ∧
      (∀ k, k < (shrink limit sizes).1.length → (sizes.drop k).sum > limit) := by
  induction sizes with
  | nil => simp [shrink]
  | cons s rest ih =>
    unfold shrink
    split
    · rename_i hgt
      obtain ⟨h1, h2, h3⟩ := ih
      refine ⟨by simp [h1], h2, fun k hk => ?_⟩
      cases k with
      | zero => simpa using hgt
      | succ k => simpa using h3 k (by simpa using hk)
    · rename_i hle
      exact ⟨by simp, by simpa using Nat.le_of_not_gt hle, fun k hk => by simp at hk⟩

/-- in every known shape a fraction that is loaded as sealed has a complete index, so the cache plays no role -/
theorem startupCached_irrelevant (c : Cfg) (o : Bool) (fs : FileSet) (h : Disk c fs) (cached : Bool) :
    startupCached cached o fs = startup o fs := by
  unfold startupCached
  cases hc : classify fs <;> try rfl
  rename_i src
  have hfull : fs.index ≠ .empty := by
    by_cases hd : Del fs
    · rw [del_cleaned fs hd] at hc; cases hc
    obtain ⟨d1, d2, d3⟩ := not_del hd
    obtain ⟨docs, docsDel, sdocs, sdocsTmp, sdocsDel, index, indexTmp, indexDel, metaF⟩ := fs
    simp only at d1 d2 d3
    subst d1 d2 d3
    obtain ⟨skip, keep⟩ := c
    intro he
    simp only at he
    subst he
    revert hc
    unfold Disk at h
    rcases h with h | h | h | h | h | h
    · exact absurd h hd
    · obtain ⟨h1, h2⟩ := h; simp only at h1 h2; subst h1 h2
      cases metaF <;> simp [classify, classifyInfo, makeInfo, Info.known, Content.has]
    · obtain ⟨-, h2⟩ := h; simp at h2
    · obtain ⟨-, -, h3, -⟩ := h; simp at h3
    · obtain ⟨h1, h2, h3, h4⟩ := h
      simp only at h1 h2 h3 h4
      subst h1 h2
      cases skip
      · have := h3 rfl; simp at this
      · obtain ⟨-, h6⟩ := h4 rfl
        rcases h6 with h6 | h6 <;> simp at h6
    · obtain ⟨h1, -⟩ := h; simp at h1
  simp [startup, hc, hfull]

end SV.Lifecycle
