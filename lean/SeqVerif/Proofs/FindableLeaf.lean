import SeqVerif.Props.C11
import SeqVerif.Model.PatternTop
/-!
# C11 into C13: the term a query builder makes of a word selects that word's token in the dictionary

C11 proves that the term the SeqQL / legacy builders make of a word of a text field is, UTF-8 encoded, the very token
the indexer stored (`c11_text`); C13 proves that `pattern.Search` over a dictionary returns the TIDs of the tokens
matching the term list as a glob (`c13_search_eq_glob`).  This module joins them at the only interface between the two
models - a query term (code points) becomes a pattern term (bytes, `parser.Term.Data` is a Go string) - and states
findability at the level of the token search: the TID of the indexed token is in the answer of the searcher built from
the word's own term, and nothing but tokens byte-equal to it is.  Core-only; counted as obligations of `./check C11`.
-/
namespace SV.FindableLeaf
open SV.Parser SV.Tok SV.Pattern SV.Props.C11

/-- `parser.Term` as `pattern` reads it: `TermSymbol` is `*`, `TermText` carries the UTF-8 of its code points -/
def toPat (enc : Nat → List Nat) (t : SV.Parser.Term) : SV.Pattern.Term :=
  if t.sym then .star else .text (termBytes enc t.data)

/-- a single text term matches exactly the byte-equal token -/
theorem fl_glob_single (d v : Bytes) : Glob [.text d] v ↔ v = d := by
  rw [glob_text_iff]
  constructor
  · rintro ⟨w, rfl, hw⟩
    rw [(glob_nil_iff w).mp hw, List.append_nil]
  · rintro rfl
    exact ⟨[], by simp, (glob_nil_iff []).mpr rfl⟩

theorem fl_single_wf (d : Bytes) : SV.Pattern.WF [.text d] := by
  unfold SV.Pattern.WF wfB noAdj middleTerms
  simp

/-- the searcher built from one text term returns exactly the TIDs of the byte-equal dictionary entries -/
theorem fl_search_single (pf : Bytes → Option Int) (maxKey : Int) (d : Bytes) (base : Nat) (dict : List Bytes)
    (tid : Nat) :
    ∃ r, search pf maxKey (.literal [.text d]) ⟨base, dict, false⟩ = some r ∧
      (tid ∈ r ↔ base ≤ tid ∧ tid < base + dict.length ∧ dict.getD (tid - base) [] = d) := by
  refine ⟨_, search_eq_globTids pf maxKey [.text d] (fl_single_wf d) base dict, ?_⟩
  unfold globTids
  rw [List.mem_filter, List.mem_range'_1, globB_iff, fl_glob_single]
  constructor
  · rintro ⟨⟨h1, h2⟩, h3⟩; exact ⟨h1, h2, h3⟩
  · rintro ⟨h1, h2, h3⟩; exact ⟨⟨h1, h2⟩, h3⟩

/-- **findable at the token search**: for every text value that is indexed at all and every word of it within the token
size limit, the searcher built from the term `parseSeqQLText` makes of that word finds, in any dictionary that holds the
field's tokens, the TID of the token the indexer stored for the word - and only TIDs of tokens byte-equal to it -/
theorem fl_text_word_found (enc : Nat → List Nat) (c : TokCfg) (fieldMax : Nat) (value w : List TRn)
    (hidx : ¬ (blen value > effMax fieldMax c.maxFieldValueLength ∧ c.partialIdx = false)) (hne : blen value ≠ 0)
    (hw : w ∈ textWords [] (truncRunes value (min (blen value) (effMax fieldMax c.maxFieldValueLength))))
    (hwne : w ≠ []) (hlen : blen w ≤ c.maxTokenSize) (hwf : ∀ r, r ∈ w → SV.Tok.WF enc r)
    (pf : Bytes → Option Int) (maxKey : Int) (base : Nat) (dict : List Bytes)
    (hdict : ∀ t, t ∈ textTokens c fieldMax value → t ∈ dict) :
    ∃ terms r i, seqqlText c.cs (w.map (·.r)) = [terms] ∧
      search pf maxKey (.literal (terms.map (toPat enc))) ⟨base, dict, false⟩ = some r ∧
      i < dict.length ∧ dict[i]? = some (lowerIfCI c.cs c.norm w) ∧ base + i ∈ r ∧
      ∀ tid, tid ∈ r → dict.getD (tid - base) [] = lowerIfCI c.cs c.norm w := by
  obtain ⟨hmem, hq, _, hbytes⟩ := c11_text enc c fieldMax value w hidx hne hw hwne hlen hwf
  obtain ⟨i, hi, hget⟩ := List.mem_iff_getElem.mp (hdict _ hmem)
  have hterms : ([⟨false, lowerIf c.cs (w.map (·.r))⟩] : List SV.Parser.Term).map (toPat enc) =
      [.text (lowerIfCI c.cs c.norm w)] := by
    simp [toPat, hbytes]
  obtain ⟨r, hr, _⟩ := fl_search_single pf maxKey (lowerIfCI c.cs c.norm w) base dict 0
  refine ⟨_, r, i, hq, by rw [hterms]; exact hr, hi, by simp [hi, hget], ?_, ?_⟩
  · obtain ⟨r', hr', hiff⟩ := fl_search_single pf maxKey (lowerIfCI c.cs c.norm w) base dict (base + i)
    rw [hr] at hr'
    cases hr'
    apply hiff.mpr
    refine ⟨Nat.le_add_right _ _, by omega, ?_⟩
    simp [hi, hget]
  · intro tid htid
    obtain ⟨r', hr', hiff⟩ := fl_search_single pf maxKey (lowerIfCI c.cs c.norm w) base dict tid
    rw [hr] at hr'
    cases hr'
    exact (hiff.mp htid).2.2

/-- the common step: a dictionary entry byte-equal to the single text term is found, and nothing else is -/
theorem fl_found_of_mem (pf : Bytes → Option Int) (maxKey : Int) (tok : Bytes) (base : Nat) (dict : List Bytes)
    (hmem : tok ∈ dict) :
    ∃ r i, search pf maxKey (.literal [.text tok]) ⟨base, dict, false⟩ = some r ∧
      i < dict.length ∧ dict[i]? = some tok ∧ base + i ∈ r ∧ ∀ tid, tid ∈ r → dict.getD (tid - base) [] = tok := by
  obtain ⟨i, hi, hget⟩ := List.mem_iff_getElem.mp hmem
  obtain ⟨r, hr, _⟩ := fl_search_single pf maxKey tok base dict 0
  refine ⟨r, i, hr, hi, by simp [hi, hget], ?_, ?_⟩
  · obtain ⟨r', hr', hiff⟩ := fl_search_single pf maxKey tok base dict (base + i)
    rw [hr] at hr'
    cases hr'
    apply hiff.mpr
    refine ⟨Nat.le_add_right _ _, by omega, ?_⟩
    simp [hi, hget]
  · intro tid htid
    obtain ⟨r', hr', hiff⟩ := fl_search_single pf maxKey tok base dict tid
    rw [hr] at hr'
    cases hr'
    exact (hiff.mp htid).2.2

/-- **keyword fields**: the searcher built from the term `parseSeqQLKeyword` makes of the whole value (any bytes within
the size limit, no wildcard rune) finds the TID of the one token the indexer stored for the value -/
theorem fl_keyword_found (enc : Nat → List Nat) (mts : Nat) (cs partialIdx : Bool) (mfl fieldMax : Nat) (value : List TRn)
    (hlim : blen value ≤ effMax fieldMax mts) (hne : value ≠ [])
    (hwf : ∀ r, r ∈ value → SV.Tok.WF enc r) (hnw : ∀ r, r ∈ value → r.r.cp ≠ wildcardCp)
    (pf : Bytes → Option Int) (maxKey : Int) (base : Nat) (dict : List Bytes)
    (hdict : ∀ t, t ∈ keywordTokens ⟨mts, cs, partialIdx, mfl, SV.Extracted.C11.csNormalizesInvalid⟩ fieldMax value →
      t ∈ dict) :
    ∃ r i, search pf maxKey (.literal ((seqqlKeyword cs (value.map (·.r))).map (toPat enc))) ⟨base, dict, false⟩ = some r ∧
      i < dict.length ∧ dict[i]? = some (lowerIfCI cs SV.Extracted.C11.csNormalizesInvalid value) ∧ base + i ∈ r ∧
      ∀ tid, tid ∈ r → dict.getD (tid - base) [] = lowerIfCI cs SV.Extracted.C11.csNormalizesInvalid value := by
  obtain ⟨htoks, hq, _, hbytes⟩ := c11_keyword enc mts cs partialIdx mfl fieldMax value hlim hne hwf hnw
  have hmem : lowerIfCI cs SV.Extracted.C11.csNormalizesInvalid value ∈ dict := hdict _ (by rw [htoks]; simp)
  have hterms : (seqqlKeyword cs (value.map (·.r))).map (toPat enc) =
      [.text (lowerIfCI cs SV.Extracted.C11.csNormalizesInvalid value)] := by
    rw [hq]; simp [toPat, hbytes]
  rw [hterms]
  exact fl_found_of_mem pf maxKey _ base dict hmem

/-- **path fields**: every leading path cut right before a separator, queried as a keyword, finds the TID of the token
the indexer stored for that leading path -/
theorem fl_path_found (enc : Nat → List Nat) (mts : Nat) (cs partialIdx : Bool) (mfl fieldMax : Nat)
    (value p rest : List TRn) (sep : TRn)
    (hlim : blen value ≤ effMax fieldMax mts) (hsep : sep.r.cp = 47 ∧ sep.r.bytes = [47])
    (hv : value = p ++ sep :: rest) (hp : p ≠ [])
    (hwf : ∀ r, r ∈ p → SV.Tok.WF enc r) (hnw : ∀ r, r ∈ p → r.r.cp ≠ wildcardCp)
    (pf : Bytes → Option Int) (maxKey : Int) (base : Nat) (dict : List Bytes)
    (hdict : ∀ t, t ∈ pathTokens ⟨mts, cs, partialIdx, mfl, SV.Extracted.C11.csNormalizesInvalid⟩ fieldMax value →
      t ∈ dict) :
    ∃ r i, search pf maxKey (.literal ((seqqlKeyword cs (p.map (·.r))).map (toPat enc))) ⟨base, dict, false⟩ = some r ∧
      i < dict.length ∧ dict[i]? = some (lowerIfCI cs SV.Extracted.C11.csNormalizesInvalid p) ∧ base + i ∈ r ∧
      ∀ tid, tid ∈ r → dict.getD (tid - base) [] = lowerIfCI cs SV.Extracted.C11.csNormalizesInvalid p := by
  obtain ⟨hq, hbytes⟩ := c11_path_query enc cs p hp hwf hnw
  have hmem := hdict _ (c11_path ⟨mts, cs, partialIdx, mfl, SV.Extracted.C11.csNormalizesInvalid⟩ fieldMax value p rest sep
    hlim hsep hv hp).1
  have hterms : (seqqlKeyword cs (p.map (·.r))).map (toPat enc) =
      [.text (lowerIfCI cs SV.Extracted.C11.csNormalizesInvalid p)] := by
    rw [hq]; simp [toPat, hbytes]
  rw [hterms]
  exact fl_found_of_mem pf maxKey _ base dict hmem

/-! ## the parser step: the leaf `parseFulltextSearchFilter` builds for `field:word` carries that very term -/

/-- text field: a composite token made of word runes becomes the single leaf `field:[term of the word]` -/
theorem fl_parser_leaf_text (dp cs : Bool) (field : List Nat) (toks rest : List LTok) (ws : List Rn)
    (hc : compositeToken toks = .ok (ws, rest)) (hne : ws ≠ []) (hword : ∀ r, r ∈ ws → isWordRune r = true) :
    fulltextFilter dp field .text cs toks = .ok (.leaf (.lit field [⟨false, lowerIf cs ws⟩]), rest) := by
  unfold fulltextFilter
  rw [hc]
  simp [PRes.bind, seqqlText_word cs ws hne hword, buildAndTree]

/-- keyword and path fields: a composite token without a wildcard rune becomes the leaf `field:[term of the value]` -/
theorem fl_parser_leaf_keyword (dp cs : Bool) (field : List Nat) (t : FT) (ht : t = .keyword ∨ t = .path)
    (toks rest : List LTok) (vs : List Rn)
    (hc : compositeToken toks = .ok (vs, rest)) (hne : vs ≠ []) (hnw : ∀ r, r ∈ vs → r.cp ≠ wildcardCp) :
    fulltextFilter dp field t cs toks = .ok (.leaf (.lit field [⟨false, lowerIf cs vs⟩]), rest) := by
  unfold fulltextFilter
  rw [hc]
  rcases ht with rfl | rfl <;> simp [PRes.bind, seqqlKeyword_plain cs vs hne hnw]

/-- **query text to token search, text fields**: when the lexer hands the parser the word as one composite token, the
leaf `parseFulltextSearchFilter` builds for the text field is `field:terms`, and the searcher built from those terms
finds the TID of the token stored for the word (and only byte-equal tokens) -/
theorem fl_text_query_found (enc : Nat → List Nat) (c : TokCfg) (fieldMax : Nat) (value w : List TRn)
    (hidx : ¬ (blen value > effMax fieldMax c.maxFieldValueLength ∧ c.partialIdx = false)) (hne : blen value ≠ 0)
    (hw : w ∈ textWords [] (truncRunes value (min (blen value) (effMax fieldMax c.maxFieldValueLength))))
    (hwne : w ≠ []) (hlen : blen w ≤ c.maxTokenSize) (hwf : ∀ r, r ∈ w → SV.Tok.WF enc r)
    (pf : Bytes → Option Int) (maxKey : Int) (base : Nat) (dict : List Bytes)
    (hdict : ∀ t, t ∈ textTokens c fieldMax value → t ∈ dict)
    (dp : Bool) (field : List Nat) (toks rest : List LTok) (hc : compositeToken toks = .ok (w.map (·.r), rest)) :
    ∃ terms r i, fulltextFilter dp field .text c.cs toks = .ok (.leaf (.lit field terms), rest) ∧
      search pf maxKey (.literal (terms.map (toPat enc))) ⟨base, dict, false⟩ = some r ∧
      i < dict.length ∧ dict[i]? = some (lowerIfCI c.cs c.norm w) ∧ base + i ∈ r ∧
      ∀ tid, tid ∈ r → dict.getD (tid - base) [] = lowerIfCI c.cs c.norm w := by
  obtain ⟨terms, r, i, hq, hrest⟩ := fl_text_word_found enc c fieldMax value w hidx hne hw hwne hlen hwf pf maxKey base dict hdict
  refine ⟨terms, r, i, ?_, hrest⟩
  unfold fulltextFilter
  rw [hc]
  simp [PRes.bind, hq, buildAndTree]

/-- non-vacuity of `fl_search_single`: token `ab` is entry 1 of a three-token dictionary based at TID 5 -/
example : ∃ r, search (fun _ => none) 100 (.literal [.text [97, 98]]) ⟨5, [[97], [97, 98], [99]], false⟩ = some r ∧
    6 ∈ r ∧ 5 ∉ r := by
  obtain ⟨r, hr, h6⟩ := fl_search_single (fun _ => none) 100 [97, 98] 5 [[97], [97, 98], [99]] 6
  obtain ⟨r', hr', h5⟩ := fl_search_single (fun _ => none) 100 [97, 98] 5 [[97], [97, 98], [99]] 5
  rw [hr] at hr'; cases hr'
  exact ⟨r, hr, h6.mpr (by decide), fun h => absurd (h5.mp h).2.2 (by decide)⟩

end SV.FindableLeaf
