import SeqVerif.Model.C03Docs
/-!
# C03 proofs: the sorted-docs rewriting keeps every document readable at its new position
-/
namespace SV.C03

/-- payload `p` holds document `d` at byte offset `off` -/
def HasDoc (p : List Nat) (off : Nat) (d : DocB) : Prop := ∃ pre rest, p = pre ++ encDoc d ++ rest ∧ pre.length = off

theorem unle32_le32 (n : Nat) (rest : List Nat) (h : n < 4294967296) : unle32 (le32 n ++ rest) = n := by
  simp [unle32, le32, List.getD]
  omega

theorem extract_hasDoc (p : List Nat) (off : Nat) (d : DocB) (h : HasDoc p off d) (hd : d.length < 4294967296) :
    extractDoc p off = d := by
  obtain ⟨pre, rest, rfl, rfl⟩ := h
  unfold extractDoc
  have h1 : (pre ++ encDoc d ++ rest).drop pre.length = le32 d.length ++ (d ++ rest) := by
    simp [encDoc, List.append_assoc]
  rw [h1, unle32_le32 _ _ hd]
  simp [le32]

theorem hasDoc_append (p m : List Nat) (off : Nat) (d : DocB) (h : HasDoc p off d) : HasDoc (p ++ m) off d := by
  obtain ⟨pre, rest, rfl, rfl⟩ := h
  exact ⟨pre, rest ++ m, by simp [List.append_assoc], rfl⟩

theorem not_hasDoc_nil (off : Nat) (d : DocB) : ¬ HasDoc [] off d := by
  rintro ⟨pre, rest, h, _⟩
  have := congrArg List.length h
  simp [encDoc, le32] at this

/-- payloads as the reader will see them once the pending block is closed -/
def DW.blocks (w : DW) : List (List Nat) := w.file.map (·.2) ++ [w.docs]

structure DInv (oldRead : ID → Option DocB) (w : DW) : Prop where
  len : w.blockOffsets.length = w.curBlockIndex
  foffs : w.file.map (·.1) = w.blockOffsets
  incr : (w.blockOffsets ++ [w.currentBlockOffset]).Pairwise (· < ·)
  pos : ∀ id pos, (id, pos) ∈ w.positions → ∃ d payload, oldRead id = some d ∧
    w.blocks[(unpackDocPos pos).1]? = some payload ∧ HasDoc payload (unpackDocPos pos).2 d

theorem init_DInv (oldRead : ID → Option DocB) : DInv oldRead DW.init :=
  ⟨rfl, rfl, by simp [DW.init], by intro id pos h; simp [DW.init] at h⟩

theorem getElem?_append_some' {α} (l m : List α) (i : Nat) (x : α) (h : l[i]? = some x) : (l ++ m)[i]? = some x := by
  have hi : i < l.length := by
    rcases Nat.lt_or_ge i l.length with h' | h'
    · exact h'
    · rw [List.getElem?_eq_none h'] at h; simp at h
  rw [List.getElem?_append_left hi]; exact h

theorem flushBlock_inv (clen : Nat → List Nat → Nat) (hclen : ∀ i p, 0 < clen i p) (oldRead : ID → Option DocB) (w : DW)
    (h : DInv oldRead w) : DInv oldRead (flushBlock clen w) := by
  refine ⟨by simp [flushBlock, h.len], by simp [flushBlock, h.foffs], ?_, ?_⟩
  · simp only [flushBlock]
    rw [List.pairwise_append]
    refine ⟨h.incr, by simp, ?_⟩
    intro a ha b hb
    simp only [List.mem_singleton] at hb
    subst hb
    have hc := hclen w.curBlockIndex w.docs
    rcases List.mem_append.mp ha with ha | ha
    · have := (List.pairwise_append.mp h.incr).2.2 a ha w.currentBlockOffset (by simp)
      omega
    · simp at ha; omega
  · intro id pos hp
    obtain ⟨d, payload, h1, h2, h3⟩ := h.pos id pos hp
    refine ⟨d, payload, h1, ?_, h3⟩
    have : (flushBlock clen w).blocks = w.blocks ++ [[]] := by simp [flushBlock, DW.blocks]
    rw [this]
    exact getElem?_append_some' _ _ _ _ h2

theorem writeDoc_inv (clen : Nat → List Nat → Nat) (hclen : ∀ i p, 0 < clen i p) (minBS : Nat) (oldRead : ID → Option DocB)
    (w w' : DW) (id : ID) (doc : DocB) (h : DInv oldRead w) (hdoc : oldRead id = some doc)
    (hbi : w.curBlockIndex < 4294967296) (hw : writeDoc clen minBS w id doc = some w') :
    DInv oldRead w' ∧ (∀ k, k ∈ w.positions.map (·.1) → k ∈ w'.positions.map (·.1)) ∧ id ∈ w'.positions.map (·.1) := by
  unfold writeDoc at hw
  cases hp : packDocPos w.curBlockIndex w.docs.length with
  | none => rw [hp] at hw; simp at hw
  | some pos =>
    rw [hp] at hw
    simp only [Option.some.injEq] at hw
    have hoff : w.docs.length ≤ 1073741823 := by
      unfold packDocPos at hp
      split at hp
      · simp at hp
      · omega
    have hun : unpackDocPos pos = (w.curBlockIndex, w.docs.length) := by
      have := docpos_roundtrip w.curBlockIndex w.docs.length hbi hoff
      rw [hp] at this
      simpa using this
    have h1 : DInv oldRead { w with positions := (id, pos) :: w.positions, docs := w.docs ++ encDoc doc } := by
      refine ⟨h.len, h.foffs, h.incr, ?_⟩
      intro id' pos' hm
      simp only [List.mem_cons, Prod.mk.injEq] at hm
      rcases hm with ⟨rfl, rfl⟩ | hm
      · refine ⟨doc, w.docs ++ encDoc doc, hdoc, ?_, ⟨w.docs, [], by simp, ?_⟩⟩
        · rw [hun]
          have : w.curBlockIndex = (w.file.map (·.2)).length := by
            rw [← h.len, ← h.foffs]; simp
          simp only [DW.blocks, this, List.getElem?_concat_length]
        · rw [hun]
      · obtain ⟨d, payload, e1, e2, e3⟩ := h.pos id' pos' hm
        simp only [DW.blocks] at e2 ⊢
        rcases Nat.lt_trichotomy (unpackDocPos pos').1 (w.file.map (·.2)).length with hlt | heq | hgt
        · refine ⟨d, payload, e1, ?_, e3⟩
          rw [List.getElem?_append_left hlt] at e2 ⊢; exact e2
        · rw [heq] at e2 ⊢
          simp only [List.getElem?_concat_length, Option.some.injEq] at e2 ⊢
          subst e2
          exact ⟨d, _, e1, rfl, hasDoc_append _ _ _ _ e3⟩
        · have hgt' : w.file.length < (unpackDocPos pos').1 := by simpa using hgt
          rw [List.getElem?_eq_none (by simp; omega)] at e2; simp at e2
    have hkeys : ∀ (x : DW), x.positions = (id, pos) :: w.positions →
        (∀ k, k ∈ w.positions.map (·.1) → k ∈ x.positions.map (·.1)) ∧ id ∈ x.positions.map (·.1) := by
      intro x hx
      rw [hx]
      exact ⟨fun k hk => by simp at hk ⊢; right; exact hk, by simp⟩
    subst hw
    split
    · exact ⟨flushBlock_inv clen hclen oldRead _ h1, hkeys _ rfl⟩
    · exact ⟨h1, hkeys _ rfl⟩

theorem writeDoc_blockIndex (clen : Nat → List Nat → Nat) (minBS : Nat) (w w' : DW) (id : ID) (doc : DocB)
    (hw : writeDoc clen minBS w id doc = some w') : w'.curBlockIndex ≤ w.curBlockIndex + 1 := by
  unfold writeDoc at hw
  cases hp : packDocPos w.curBlockIndex w.docs.length with
  | none => rw [hp] at hw; simp at hw
  | some pos =>
    rw [hp] at hw
    simp only [Option.some.injEq] at hw
    subst hw
    split <;> simp [flushBlock]

theorem sortDocsGo_inv (clen : Nat → List Nat → Nat) (hclen : ∀ i p, 0 < clen i p) (minBS : Nat) (oldRead : ID → Option DocB) :
    ∀ (ids : List ID) (prev : ID) (w w' : DW), DInv oldRead w → w.curBlockIndex + ids.length < 4294967296 →
      sortDocsGo clen minBS oldRead ids prev w = some w' →
      DInv oldRead w' ∧ (∀ k, k ∈ w.positions.map (·.1) → k ∈ w'.positions.map (·.1)) ∧
      ∀ id, id ∈ ids → id = prev ∨ id ∈ w'.positions.map (·.1) := by
  intro ids
  induction ids with
  | nil =>
    intro prev w w' h _ hs
    simp only [sortDocsGo, Option.some.injEq] at hs
    subst hs
    exact ⟨h, fun k hk => hk, by intro id hid; simp at hid⟩
  | cons id rest ih =>
    intro prev w w' h hb hs
    simp only [sortDocsGo] at hs
    by_cases heq : id = prev
    · simp only [heq, if_true] at hs
      obtain ⟨r1, r2, r3⟩ := ih prev w w' h (by simp at hb; omega) hs
      refine ⟨r1, r2, ?_⟩
      intro x hx
      rcases List.mem_cons.mp hx with rfl | hx
      · left; exact heq
      · exact r3 x hx
    · simp only [heq, if_false] at hs
      cases hd : oldRead id with
      | none => rw [hd] at hs; simp at hs
      | some doc =>
        rw [hd] at hs
        simp only at hs
        cases hw : writeDoc clen minBS w id doc with
        | none => rw [hw] at hs; simp at hs
        | some w1 =>
          rw [hw] at hs
          simp only at hs
          obtain ⟨i1, i2, i3⟩ := writeDoc_inv clen hclen minBS oldRead w w1 id doc h hd (by omega) hw
          have hbi := writeDoc_blockIndex clen minBS w w1 id doc hw
          obtain ⟨r1, r2, r3⟩ := ih id w1 w' i1 (by simp at hb; omega) hs
          refine ⟨r1, fun k hk => r2 k (i2 k hk), ?_⟩
          intro x hx
          rcases List.mem_cons.mp hx with rfl | hx
          · right; exact r2 _ i3
          · rcases r3 x hx with rfl | h'
            · right; exact r2 _ i3
            · right; exact h'

theorem find_sorted_fst (file : List (Nat × List Nat)) (hs : (file.map (·.1)).Pairwise (· < ·)) (k : Nat) (hk : k < file.length) :
    lookupFile file file[k].1 = some file[k].2 := by
  induction file generalizing k with
  | nil => simp at hk
  | cons x xs ih =>
    simp only [List.map_cons, List.pairwise_cons] at hs
    cases k with
    | zero => simp [lookupFile]
    | succ k =>
      have hk' : k < xs.length := by simpa using hk
      have hne : (x.1 == xs[k].1) = false := by
        have := hs.1 xs[k].1 (List.mem_map.mpr ⟨xs[k], List.getElem_mem _, rfl⟩)
        simp; omega
      simp only [List.getElem_cons_succ, lookupFile, List.find?_cons, hne]
      exact ih hs.2 k hk'

/-- **sortedDocs_fetch_same**: after `writeSortedDocs`, every position the new `Positions` map holds reads - through the
new `BlockOffsets` table and the new docs file - exactly the document the active fraction stored for that ID; and every
written ID has a position -/
theorem sortedDocs_fetch_same (clen : Nat → List Nat → Nat) (hclen : ∀ i p, 0 < clen i p) (minBS : Nat) (oldRead : ID → Option DocB)
    (hsize : ∀ id d, oldRead id = some d → d.length < 4294967296) (sortedIDs : List ID) (w : DW)
    (hn : sortedIDs.length < 4294967296) (hw : writeSortedDocs clen minBS oldRead sortedIDs = some w) :
    (∀ id pos, lookupPos w.positions id = some pos → readAt w.blockOffsets w.file pos = oldRead id) ∧
    (∀ id, id ∈ sortedIDs.tail → id ≠ (0, 0) → ∃ pos, lookupPos w.positions id = some pos) := by
  unfold writeSortedDocs at hw
  cases hs : sortDocsGo clen (docBlockSizeOf minBS) oldRead sortedIDs.tail (0, 0) DW.init with
  | none => rw [hs] at hw; simp at hw
  | some w0 =>
    rw [hs] at hw
    simp only [Option.map_some, Option.some.injEq] at hw
    obtain ⟨i1, -, i3⟩ := sortDocsGo_inv clen hclen (docBlockSizeOf minBS) oldRead sortedIDs.tail (0, 0) DW.init w0 (init_DInv oldRead)
      (by simp [DW.init]; omega) hs
    have hfin : DInv oldRead w ∧ w.docs = [] ∧ w.positions = w0.positions := by
      subst hw
      unfold flushDW
      split
      · exact ⟨flushBlock_inv clen hclen oldRead w0 i1, rfl, rfl⟩
      · rename_i hlen
        exact ⟨i1, List.length_eq_zero_iff.mp (by omega), rfl⟩
    obtain ⟨hinv, hdocs, hposeq⟩ := hfin
    constructor
    · intro id pos hl
      have hmem : (id, pos) ∈ w.positions := by
        unfold lookupPos at hl
        cases hf : w.positions.find? (fun p => p.1 == id) with
        | none => rw [hf] at hl; simp at hl
        | some p =>
          rw [hf] at hl
          simp only [Option.map_some, Option.some.injEq] at hl
          have h1 := List.find?_some hf
          have h2 := List.mem_of_find?_eq_some hf
          simp at h1
          rw [← hl, ← h1]
          exact h2
      obtain ⟨d, payload, e1, e2, e3⟩ := hinv.pos id pos hmem
      have hflen : w.file.length = w.blockOffsets.length := by rw [← hinv.foffs]; simp
      have hk : (unpackDocPos pos).1 < w.file.length := by
        simp only [DW.blocks, hdocs] at e2
        rcases Nat.lt_trichotomy (unpackDocPos pos).1 (w.file.map (·.2)).length with hlt | heq | hgt
        · simpa using hlt
        · rw [heq] at e2
          simp only [List.getElem?_concat_length, Option.some.injEq] at e2
          subst e2
          exact absurd e3 (not_hasDoc_nil _ _)
        · have hgt' : w.file.length < (unpackDocPos pos).1 := by simpa using hgt
          rw [List.getElem?_eq_none (by simp; omega)] at e2; simp at e2
      have hpay : payload = w.file[(unpackDocPos pos).1].2 := by
        simp only [DW.blocks] at e2
        rw [List.getElem?_append_left (by simpa using hk)] at e2
        simp only [List.getElem?_map, List.getElem?_eq_getElem hk, Option.map_some, Option.some.injEq] at e2
        exact e2.symm
      have hoff : w.blockOffsets[(unpackDocPos pos).1]? = some w.file[(unpackDocPos pos).1].1 := by
        rw [← hinv.foffs]
        simp [List.getElem?_map, List.getElem?_eq_getElem hk]
      have hsorted : (w.file.map (·.1)).Pairwise (· < ·) := by
        rw [hinv.foffs]; exact (List.pairwise_append.mp hinv.incr).1
      unfold readAt
      rw [hoff]
      simp only [find_sorted_fst w.file hsorted _ hk, Option.map_some, e1, ← hpay]
      rw [extract_hasDoc payload _ d e3 (hsize id d e1)]
    · intro id hid hne
      rcases i3 id hid with h0 | hk
      · exact absurd h0 hne
      · rw [hposeq]
        simp only [List.mem_map] at hk
        obtain ⟨p, hp, rfl⟩ := hk
        unfold lookupPos
        cases hf : w0.positions.find? (fun q => q.1 == p.1) with
        | none =>
          have := List.find?_eq_none.mp hf p hp
          simp at this
        | some q => exact ⟨q.2, rfl⟩

end SV.C03
