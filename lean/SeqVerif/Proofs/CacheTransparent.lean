import SeqVerif.Props.C18
import SeqVerif.Model.C03DocsCache
/-!
# C18 under C03: a cache in front of a deterministic loader is the loader

C03's readers of a sealed fraction (`frac/sealed/...`: token table, LID/MID/RID/position blocks) go through
`cache.Cache.Get(key, loader)`; C03's model takes those reads as plain functions of the block index.  This module
justifies that step from C18's small-step model: in every interleaving of any number of caches, threads, releases,
rotations and cleaner rounds, if each successful loader run for `(cache c, key k)` returns `f c k` (reading block `k`
of the immutable index file of `c`), then every value any caller receives - on a hit, after waiting, or from its own
load - is `f c k` for the `(c, k)` it asked for.  Core-only; counted as obligations of `./check C18`.
-/
namespace SV.CacheTransparent
open SV.Cache SV.Props.C18

/-- the loader discipline of one step: a loader that finishes successfully for `(c, k)` returns `f c k` -/
def LoaderIs (f : Nat → Nat → Nat) (s : St) (l : Label) : Prop :=
  ∀ t v sz c k eid, l = .finish t (.ok v sz) → s.pc t = .loading c k eid → v = f c k

/-- states reachable in any interleaving in which the loader is the function `f` (errors and panics of the loader
stay unrestricted: they are other outcomes of `finish`) -/
inductive ReachF (cfg : Cfg) (f : Nat → Nat → Nat) : St → Prop
  | init : ReachF cfg f init
  | step {s s' l o} : ReachF cfg f s → step cfg s l = some (s', o) → LoaderIs f s l → ReachF cfg f s'

theorem ct_reach {cfg : Cfg} {f : Nat → Nat → Nat} {s : St} (h : ReachF cfg f s) : Reach cfg s := by
  induction h with
  | init => exact .init
  | step _ hs _ ih => exact .step ih hs

/-- invariant: the log of loader results is a part of the graph of `f` -/
theorem ct_produced_graph {cfg : Cfg} {f : Nat → Nat → Nat} {s : St} (h : ReachF cfg f s) :
    ∀ c k v, (c, k, v) ∈ s.produced → v = f c k := by
  induction h with
  | init => intro c k v hm; simp [init] at hm
  | @step s s' l o hr hs hl ih =>
    intro c k v hm
    rcases c18_produced_only_by_loader cfg (ct_reach hr) hs with heq | ⟨t, c', k', eid, v', sz, rfl, hpc, hp⟩
    · rw [heq] at hm; exact ih c k v hm
    · rw [hp] at hm
      rcases List.mem_cons.mp hm with h1 | h1
      · simp only [Prod.mk.injEq] at h1
        obtain ⟨rfl, rfl, rfl⟩ := h1
        exact hl t v sz c k eid rfl hpc
      · exact ih c k v h1

/-- **the cache is the loader**: whatever the interleaving, a value handed to a caller is `f c k` for the cache and key
that caller asked for -/
theorem ct_cache_is_loader {cfg : Cfg} {f : Nat → Nat → Nat} {s s' : St} {l : Label} {v : Nat}
    (hr : ReachF cfg f s) (hl : LoaderIs f s l) (hs : step cfg s l = some (s', .value v)) :
    ∃ c k, requested s l = some (c, k) ∧ v = f c k := by
  obtain ⟨c, k, hreq, hmem⟩ := c18_value_of_key cfg (ct_reach hr) hs
  exact ⟨c, k, hreq, ct_produced_graph (.step hr hs hl) c k v hmem⟩

/-- two callers of the same `(c, k)`, at any two moments of any run (before or after evictions, releases and
reloads), receive the same value -/
theorem ct_same_key_same_value {cfg : Cfg} {f : Nat → Nat → Nat} {s1 s1' s2 s2' : St} {l1 l2 : Label} {v1 v2 : Nat}
    {c k : Nat} (h1 : ReachF cfg f s1) (h2 : ReachF cfg f s2) (hl1 : LoaderIs f s1 l1) (hl2 : LoaderIs f s2 l2)
    (hs1 : step cfg s1 l1 = some (s1', .value v1)) (hs2 : step cfg s2 l2 = some (s2', .value v2))
    (hq1 : requested s1 l1 = some (c, k)) (hq2 : requested s2 l2 = some (c, k)) : v1 = v2 := by
  obtain ⟨c1, k1, hr1, e1⟩ := ct_cache_is_loader h1 hl1 hs1
  obtain ⟨c2, k2, hr2, e2⟩ := ct_cache_is_loader h2 hl2 hs2
  rw [hq1] at hr1; rw [hq2] at hr2
  simp only [Option.some.injEq, Prod.mk.injEq] at hr1 hr2
  obtain ⟨rfl, rfl⟩ := hr1
  obtain ⟨rfl, rfl⟩ := hr2
  rw [e1, e2]

/-- **the doc-block cache of `disk.DocsReader` under concurrency** (`r.cache.GetWithError(uint32(blockOffset), load)`,
sequential version: `Model/C03DocsCache.lean`): with the loader reading the block at the offset its key stands for, a
caller that asked cache `c` for the key of block offset `off` below 4 GiB (where the truncated key is the offset) gets
`load c off` - in every interleaving, next to any other caches sharing the cleaner -/
theorem ct_docs_block {cfg : Cfg} {load : Nat → Nat → Nat} {s s' : St} {l : Label} {v c off : Nat}
    (hr : ReachF cfg load s) (hl : LoaderIs load s l) (hs : step cfg s l = some (s', .value v))
    (hq : requested s l = some (c, SV.C03.docsCacheKey off)) (hoff : off < 4294967296) : v = load c off := by
  obtain ⟨c', k', hreq, hv⟩ := ct_cache_is_loader hr hl hs
  rw [hq] at hreq
  simp only [Option.some.injEq, Prod.mk.injEq] at hreq
  obtain ⟨rfl, rfl⟩ := hreq
  rw [hv]
  unfold SV.C03.docsCacheKey
  rw [Nat.mod_eq_of_lt hoff]

/-! ## Non-vacuity: the waiter of the interleaving example of Props/C18 receives `f 0 7` -/
section Example

/-- one step, staying put where the label is not enabled -/
def stepD (cfg : Cfg) (s : St) (l : Label) : St :=
  match step cfg s l with
  | some r => r.1
  | none => s

theorem ct_reach_stepD {cfg : Cfg} {f : Nat → Nat → Nat} {s : St} (l : Label) (h : ReachF cfg f s)
    (hl : LoaderIs f s l) : ReachF cfg f (stepD cfg s l) := by
  unfold stepD
  cases hs : step cfg s l with
  | none => exact h
  | some r => exact .step (o := r.2) h hs hl

def exF (c k : Nat) : Nat := 92 + c + k
def exCfg : Cfg := ⟨1000, 52⟩
def exS3 : St := stepD exCfg (stepD exCfg (stepD exCfg init .newCache) (.get 0 0 7)) (.get 1 0 7)
def exS4 : St := stepD exCfg exS3 (.finish 0 (.ok 99 10))

theorem ct_example_reach : ReachF exCfg exF exS4 := by
  refine ct_reach_stepD _ (ct_reach_stepD _ (ct_reach_stepD _ (ct_reach_stepD _ .init ?_) ?_) ?_) ?_
  · intro t v sz c k eid h; cases h
  · intro t v sz c k eid h; cases h
  · intro t v sz c k eid h; cases h
  · intro t v sz c k eid h hpc
    cases h
    have h0 : exS3.pc 0 = .loading 0 7 0 := by decide
    rw [h0] at hpc
    cases hpc
    rfl

/-- thread 0 loads key 7 of cache 0, thread 1 blocks on it, thread 0 saves, thread 1 wakes up: with `f 0 7` -/
example : ∃ s' c k, step exCfg exS4 (.wake 1) = some (s', .value 99) ∧ requested exS4 (.wake 1) = some (c, k) ∧
    99 = exF c k := by
  have h : (step exCfg exS4 (.wake 1)).map (·.2) = some (.value 99) := by decide
  cases hs : step exCfg exS4 (.wake 1) with
  | none => rw [hs] at h; cases h
  | some r =>
    rw [hs] at h
    simp only [Option.map_some, Option.some.injEq] at h
    obtain ⟨s', o⟩ := r
    simp only at h
    subst h
    obtain ⟨c, k, hq, hv⟩ := ct_cache_is_loader ct_example_reach (by intro t v sz c k eid h; cases h) hs
    exact ⟨s', c, k, rfl, hq, hv⟩

end Example

end SV.CacheTransparent
