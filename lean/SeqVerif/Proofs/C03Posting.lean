import SeqVerif.Proofs.C03IterTop
import SeqVerif.Proofs.C03Gen
/-!
# C03 proofs, part 5: generator + iterators composed
-/
namespace SV.C03

/-- hypotheses shared by the posting theorems: capacity >= 1, every posting list non-empty,
`tid` names a token (TIDs are 1-based, in (field, value) order), its re-assigned list is strictly increasing -/
structure PostingInput (cap : Nat) (f : Nat → Nat) (fields : List (List (List Nat))) (tid : Nat) : Prop where
  cap_pos : 1 ≤ cap
  nonempty : ∀ fl, fl ∈ fields → ∀ p, p ∈ fl → p ≠ []
  tid_pos : 1 ≤ tid
  tid_le : tid ≤ fields.flatten.length
  sorted : Sorted (((fields.flatten[tid - 1]?).getD []).map f)

theorem posting_facts {cap : Nat} {f : Nat → Nat} {fields : List (List (List Nat))} {tid : Nat}
    (h : PostingInput cap f fields tid) :
    WF (genBlocks cap f fields) ∧
    postOf tid (genBlocks cap f fields) = ((fields.flatten[tid - 1]?).getD []).map f ∧
    ∃ c, c ∈ genBlocks cap f fields ∧ c.adj ≤ tid ∧ tid ≤ c.maxTID := by
  obtain ⟨hwf, hpost⟩ := genBlocks_spec cap f h.cap_pos fields h.nonempty
  have hp : postOf tid (genBlocks cap f fields) = ((fields.flatten[tid - 1]?).getD []).map f := by
    rw [hpost tid]
    simp only [h.tid_pos, if_true, List.getElem?_map]
    cases fields.flatten[tid - 1]? <;> simp
  refine ⟨hwf, hp, covered_of_postOf_ne tid _ ?_⟩
  rw [hp]
  have hlt : tid - 1 < fields.flatten.length := by have := h.tid_pos; have := h.tid_le; omega
  rw [List.getElem?_eq_getElem hlt]
  have hmem : fields.flatten[tid - 1] ∈ fields.flatten := List.getElem_mem _
  obtain ⟨fl, hfl, hp2⟩ := List.mem_flatten.mp hmem
  have := h.nonempty fl hfl _ hp2
  simpa using this

theorem lidsBlocks_iterDesc_eq_filter (cap : Nat) (f : Nat → Nat) (fields : List (List (List Nat))) (tid minL maxL : Nat)
    (h : PostingInput cap f fields tid) :
    iterDesc (genBlocks cap f fields) (tableOf (genBlocks cap f fields)) tid minL maxL =
      .ok ((((fields.flatten[tid - 1]?).getD []).map f).filter (inWin minL maxL)) := by
  obtain ⟨hwf, hp, hex⟩ := posting_facts h
  rw [iterDesc_spec _ tid minL maxL hwf hex (by rw [hp]; exact h.sorted), hp]

theorem lidsBlocks_iterAsc_eq_filter (cap : Nat) (f : Nat → Nat) (fields : List (List (List Nat))) (tid minL maxL : Nat)
    (h : PostingInput cap f fields tid) :
    iterAsc (genBlocks cap f fields) (tableOf (genBlocks cap f fields)) tid minL maxL =
      .ok ((((fields.flatten[tid - 1]?).getD []).map f).filter (inWin minL maxL)).reverse := by
  obtain ⟨hwf, hp, hex⟩ := posting_facts h
  rw [iterAsc_spec _ tid minL maxL hwf hex (by rw [hp]; exact h.sorted), hp]

end SV.C03
