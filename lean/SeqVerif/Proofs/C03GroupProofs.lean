import SeqVerif.Model.C03Docs
/-!
# C03 proofs: `GroupDocsOffsets` + the `IndexFetch` loop are transparent - the result is the per-position read
-/
namespace SV.C03

/-- (slot, block, offset) triples held by the groups -/
def entries (g : Groups) : List (Nat × Nat × Nat) := g.flatMap fun p => p.2.map fun x => (x.1, p.1, x.2)

theorem mem_entries_addTo (g : Groups) (b : Nat) (x : Nat × Nat) (e : Nat × Nat × Nat) :
    e ∈ entries (addTo g b x) ↔ e ∈ entries g ∨ e = (x.1, b, x.2) := by
  induction g with
  | nil => simp [addTo, entries]
  | cons p rest ih =>
    obtain ⟨b', xs⟩ := p
    simp only [addTo]
    by_cases hb : b' = b
    · subst hb
      simp only [if_true, entries, List.flatMap_cons, List.map_append, List.mem_append, List.map_cons, List.map_nil,
        List.mem_singleton]
      constructor
      · rintro ((h | h) | h)
        · left; left; exact h
        · right; exact h
        · left; right; exact h
      · rintro ((h | h) | h)
        · left; left; exact h
        · right; exact h
        · left; right; exact h
    · simp only [hb, if_false, entries, List.flatMap_cons, List.mem_append] at ih ⊢
      rw [ih]
      constructor
      · rintro (h | h | h)
        · left; left; exact h
        · left; right; exact h
        · right; exact h
      · rintro ((h | h) | h)
        · left; exact h
        · right; left; exact h
        · right; right; exact h

theorem mem_entries_groupGo (ps : List Nat) :
    ∀ (i : Nat) (g : Groups) (e : Nat × Nat × Nat), e ∈ entries (groupGo ps i g) ↔
      e ∈ entries g ∨ ∃ k, ∃ (hk : k < ps.length), ps[k] ≠ docPosNotFound ∧ e = (i + k, (unpackDocPos ps[k]).1, (unpackDocPos ps[k]).2) := by
  induction ps with
  | nil => intro i g e; simp [groupGo]
  | cons p ps ih =>
    intro i g e
    simp only [groupGo]
    rw [ih]
    constructor
    · rintro (h | ⟨k, hk, hne, he⟩)
      · by_cases hp : p = docPosNotFound
        · simp only [hp, if_true] at h; left; exact h
        · simp only [hp, if_false] at h
          rcases (mem_entries_addTo _ _ _ _).mp h with h | h
          · left; exact h
          · right; exact ⟨0, by simp, by simpa using hp, by simpa using h⟩
      · right
        exact ⟨k + 1, by simpa using hk, by simpa using hne, by simp only [List.getElem_cons_succ]; rw [he]; congr 1; omega⟩
    · rintro (h | ⟨k, hk, hne, he⟩)
      · left
        by_cases hp : p = docPosNotFound
        · simp only [hp, if_true]; exact h
        · simp only [hp, if_false]
          exact (mem_entries_addTo _ _ _ _).mpr (Or.inl h)
      · cases k with
        | zero =>
          left
          simp only [List.getElem_cons_zero] at hne he
          simp only [hne, if_false]
          exact (mem_entries_addTo _ _ _ _).mpr (Or.inr (by simpa using he))
        | succ k =>
          right
          refine ⟨k, by simpa using hk, by simpa using hne, ?_⟩
          simp only [List.getElem_cons_succ] at he
          rw [he]; congr 1; omega

/-- inner loop: setting slots whose value is determined by the slot -/
theorem foldl_set_get (V : Nat → Option DocB) (payload : List Nat) (xs : List (Nat × Nat))
    (hV : ∀ x, x ∈ xs → some (extractDoc payload x.2) = V x.1) :
    ∀ (res : List (Option DocB)) (j : Nat),
      (xs.foldl (fun r x => r.set x.1 (some (extractDoc payload x.2))) res)[j]? =
        if j < res.length ∧ (∃ x, x ∈ xs ∧ x.1 = j) then some (V j) else res[j]? := by
  induction xs with
  | nil => intro res j; simp
  | cons x xs ih =>
    intro res j
    simp only [List.foldl_cons]
    rw [ih (fun y hy => hV y (List.mem_cons_of_mem _ hy))]
    simp only [List.length_set]
    by_cases hj : j < res.length
    · by_cases hx : ∃ y, y ∈ xs ∧ y.1 = j
      · have : ∃ y, y ∈ x :: xs ∧ y.1 = j := by obtain ⟨y, hy, he⟩ := hx; exact ⟨y, List.mem_cons_of_mem _ hy, he⟩
        simp [hj, hx, this]
      · by_cases hxj : x.1 = j
        · have : ∃ y, y ∈ x :: xs ∧ y.1 = j := ⟨x, by simp, hxj⟩
          simp only [hj, hx, this, and_false, and_true, if_false, if_true]
          rw [← hxj, List.getElem?_set_self (by omega), hV x (by simp)]
        · have : ¬ ∃ y, y ∈ x :: xs ∧ y.1 = j := by
            rintro ⟨y, hy, he⟩
            rcases List.mem_cons.mp hy with rfl | hy
            · exact hxj he
            · exact hx ⟨y, hy, he⟩
          simp only [hj, hx, this, and_false, if_false]
          rw [List.getElem?_set_ne hxj]
    · simp only [hj, false_and, if_false]
      rw [List.getElem?_eq_none (by simp; omega), List.getElem?_eq_none (by omega)]

theorem foldl_set_length (payload : List Nat) (xs : List (Nat × Nat)) :
    ∀ (res : List (Option DocB)), (xs.foldl (fun r x => r.set x.1 (some (extractDoc payload x.2))) res).length = res.length := by
  induction xs with
  | nil => intro res; rfl
  | cons x xs ih => intro res; simp only [List.foldl_cons]; rw [ih]; simp

/-- outer loop -/
theorem fetchGroups_get (offsets : List Nat) (file : List (Nat × List Nat)) (V : Nat → Option DocB) :
    ∀ (g : Groups) (res : List (Option DocB)),
      (∀ b xs, (b, xs) ∈ g → ∃ bo payload, offsets[b]? = some bo ∧ lookupFile file bo = some payload ∧
        ∀ x, x ∈ xs → some (extractDoc payload x.2) = V x.1) →
      ∃ out, fetchGroups offsets file g res = some out ∧ out.length = res.length ∧
        ∀ j, out[j]? = if j < res.length ∧ (∃ e, e ∈ entries g ∧ e.1 = j) then some (V j) else res[j]? := by
  intro g
  induction g with
  | nil => intro res _; exact ⟨res, rfl, rfl, by intro j; simp [entries]⟩
  | cons p rest ih =>
    intro res h
    obtain ⟨b, xs⟩ := p
    obtain ⟨bo, payload, h1, h2, h3⟩ := h b xs (by simp)
    simp only [fetchGroups, h1, h2]
    have hlen := foldl_set_length payload xs res
    obtain ⟨out, o1, o2, o3⟩ := ih (xs.foldl (fun r x => r.set x.1 (some (extractDoc payload x.2))) res)
      (fun b' xs' hm => h b' xs' (List.mem_cons_of_mem _ hm))
    refine ⟨out, o1, by rw [o2, hlen], ?_⟩
    intro j
    rw [o3 j, hlen, foldl_set_get V payload xs h3 res j]
    have hent : (∃ e, e ∈ entries ((b, xs) :: rest) ∧ e.1 = j) ↔ (∃ e, e ∈ entries rest ∧ e.1 = j) ∨ (∃ x, x ∈ xs ∧ x.1 = j) := by
      simp only [entries, List.flatMap_cons, List.mem_append, List.mem_map]
      constructor
      · rintro ⟨e, (⟨x, hx, rfl⟩ | he), hj⟩
        · right; exact ⟨x, hx, hj⟩
        · left; exact ⟨e, he, hj⟩
      · rintro (⟨e, he, hj⟩ | ⟨x, hx, hj⟩)
        · exact ⟨e, Or.inr he, hj⟩
        · exact ⟨_, Or.inl ⟨x, hx, rfl⟩, hj⟩
    by_cases hj : j < res.length
    · by_cases hr : ∃ e, e ∈ entries rest ∧ e.1 = j
      · have : ∃ e, e ∈ entries ((b, xs) :: rest) ∧ e.1 = j := hent.mpr (Or.inl hr)
        simp [hj, hr, this]
      · by_cases hx : ∃ x, x ∈ xs ∧ x.1 = j
        · have : ∃ e, e ∈ entries ((b, xs) :: rest) ∧ e.1 = j := hent.mpr (Or.inr hx)
          simp [hj, hr, hx, this]
        · have : ¬ ∃ e, e ∈ entries ((b, xs) :: rest) ∧ e.1 = j := by
            intro hc; rcases hent.mp hc with h' | h'
            · exact hr h'
            · exact hx h'
          simp [hj, hr, hx, this]
    · simp [hj]

theorem groups_blocks (ps : List Nat) :
    ∀ (i : Nat) (g : Groups) b xs, (b, xs) ∈ groupGo ps i g → ∀ x, x ∈ xs → (x.1, b, x.2) ∈ entries (groupGo ps i g) := by
  intro i g b xs hm x hx
  simp only [entries, List.mem_flatMap, List.mem_map]
  exact ⟨(b, xs), hm, x, hx, rfl⟩

/-- **`IndexFetch` = per-position read**: when every found position is readable, grouping by block and reading block by
block returns, in request order, nil for `DocPosNotFound` and the document at the position otherwise -/
theorem indexFetch_eq_map (offsets : List Nat) (file : List (Nat × List Nat)) (ps : List Nat)
    (hread : ∀ p, p ∈ ps → p ≠ docPosNotFound → ∃ bo payload, offsets[(unpackDocPos p).1]? = some bo ∧ lookupFile file bo = some payload) :
    indexFetch offsets file ps = some (ps.map fun p => if p = docPosNotFound then none else readAt offsets file p) := by
  let V : Nat → Option DocB := fun j => if (ps.getD j docPosNotFound) = docPosNotFound then none else readAt offsets file (ps.getD j docPosNotFound)
  have hent := mem_entries_groupGo ps 0 []
  have hg : ∀ b xs, (b, xs) ∈ groupDocsOffsets ps → ∃ bo payload, offsets[b]? = some bo ∧ lookupFile file bo = some payload ∧
      ∀ x, x ∈ xs → some (extractDoc payload x.2) = V x.1 := by
    intro b xs hm
    have hx : ∀ x, x ∈ xs → ∃ k, ∃ (hk : k < ps.length), ps[k] ≠ docPosNotFound ∧ x.1 = k ∧ b = (unpackDocPos ps[k]).1 ∧ x.2 = (unpackDocPos ps[k]).2 := by
      intro x hx
      have := (hent _).mp (groups_blocks ps 0 [] b xs hm x hx)
      rcases this with h | ⟨k, hk, hne, he⟩
      · simp [entries] at h
      · simp only [Nat.zero_add, Prod.mk.injEq] at he
        exact ⟨k, hk, hne, he.1, he.2.1, he.2.2⟩
    -- the group is non-empty in the real run; for an empty group any readable block would do, but groups are only
    -- created together with their first element:
    by_cases hxs : xs = []
    · -- cannot happen; still provide a witness through totality of the hypothesis on members
      subst hxs
      -- an empty group is never produced: show by contradiction through the generator
      exfalso
      have : ∀ (ps : List Nat) (i : Nat) (g : Groups), (∀ b xs, (b, xs) ∈ g → xs ≠ []) → ∀ b xs, (b, xs) ∈ groupGo ps i g → xs ≠ [] := by
        intro ps
        induction ps with
        | nil => intro i g hg b xs hm; exact hg b xs hm
        | cons p ps ih =>
          intro i g hg b xs hm
          simp only [groupGo] at hm
          apply ih (i + 1) _ _ b xs hm
          intro b' xs' hm'
          split at hm'
          · exact hg b' xs' hm'
          · have hadd : ∀ (g : Groups) (b0 : Nat) (x0 : Nat × Nat), (∀ b xs, (b, xs) ∈ g → xs ≠ []) → ∀ b xs, (b, xs) ∈ addTo g b0 x0 → xs ≠ [] := by
              intro g
              induction g with
              | nil => intro b0 x0 _ b xs hm; simp [addTo] at hm; rw [hm.2]; simp
              | cons q rest ihg =>
                intro b0 x0 hg b xs hm
                obtain ⟨qb, qx⟩ := q
                simp only [addTo] at hm
                split at hm
                · rcases List.mem_cons.mp hm with h | h
                  · simp only [Prod.mk.injEq] at h; rw [h.2]; simp
                  · exact hg b xs (List.mem_cons_of_mem _ h)
                · rcases List.mem_cons.mp hm with h | h
                  · exact hg b xs (by rw [h]; simp)
                  · exact ihg b0 x0 (fun b xs hm => hg b xs (List.mem_cons_of_mem _ hm)) b xs h
            exact hadd g _ _ hg b' xs' hm'
      exact this ps 0 [] (by intro b xs hm; simp at hm) b [] hm rfl
    · obtain ⟨x0, hx0⟩ := List.exists_mem_of_ne_nil _ hxs
      obtain ⟨k0, hk0, hne0, _, hb0, _⟩ := hx x0 hx0
      obtain ⟨bo, payload, h1, h2⟩ := hread ps[k0] (List.getElem_mem _) hne0
      refine ⟨bo, payload, by rw [hb0]; exact h1, h2, ?_⟩
      intro x hxm
      obtain ⟨k, hk, hne, e1, e2, e3⟩ := hx x hxm
      have hgd : ps.getD x.1 docPosNotFound = ps[k] := by rw [e1]; simp [List.getD, List.getElem?_eq_getElem hk]
      simp only [V, hgd, hne, if_false, readAt]
      rw [← e2, ← hb0] at *
      rw [h1]
      simp only [h2, Option.map_some, e3]
  obtain ⟨out, o1, o2, o3⟩ := fetchGroups_get offsets file V (groupDocsOffsets ps) (List.replicate ps.length none) hg
  unfold indexFetch
  rw [o1]
  congr 1
  apply List.ext_getElem?
  intro j
  rw [o3 j]
  simp only [List.length_replicate, List.getElem?_map]
  by_cases hj : j < ps.length
  · simp only [List.getElem?_eq_getElem hj, Option.map_some]
    by_cases hnf : ps[j] = docPosNotFound
    · have : ¬ ∃ e, e ∈ entries (groupDocsOffsets ps) ∧ e.1 = j := by
        rintro ⟨e, he, hej⟩
        rcases (hent e).mp he with h | ⟨k, hk, hne, hee⟩
        · simp [entries] at h
        · rw [hee] at hej
          simp only [Nat.zero_add] at hej
          subst hej
          exact hne hnf
      simp [hj, this, hnf]
    · have : ∃ e, e ∈ entries (groupDocsOffsets ps) ∧ e.1 = j :=
        ⟨(j, (unpackDocPos ps[j]).1, (unpackDocPos ps[j]).2), (hent _).mpr (Or.inr ⟨j, hj, hnf, by simp⟩), rfl⟩
      have hgd : ps.getD j docPosNotFound = ps[j] := by simp [List.getD, List.getElem?_eq_getElem hj]
      simp only [hj, this, and_self, if_true, V, hgd, hnf, if_false]
  · simp [hj, List.getElem?_eq_none (show ps.length ≤ j by omega)]

end SV.C03
