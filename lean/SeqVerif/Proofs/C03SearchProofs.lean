import SeqVerif.Model.C03Search
import SeqVerif.Proofs.C03FracProofs
/-!
# C03 proofs: a processor that only sees the index interface gives the same answer on both forms
-/
namespace SV.C03

theorem searchGo_congr (f g : Nat → Bool) (i j : Nat) (h : ∀ k, i ≤ k → k < j → f k = g k) :
    searchGo f i j = searchGo g i j := by
  fun_induction searchGo f i j with
  | case1 i j hij m hf ih =>
    have hg : g ((i + j) / 2) = true := by rw [← h ((i + j) / 2) (by omega) (by omega)]; exact hf
    rw [searchGo.eq_1 g i j]
    simp only [hij, dite_true, hg, if_true]
    exact ih (fun k h1 h2 => h k h1 (by omega))
  | case2 i j hij m hf ih =>
    have hg : g ((i + j) / 2) = false := by rw [← h ((i + j) / 2) (by omega) (by omega)]; simpa using hf
    rw [searchGo.eq_1 g i j]
    simp only [hij, dite_true, hg, Bool.false_eq_true, if_false]
    exact ih (fun k h1 h2 => h k (by omega) h2)
  | case3 i j hij =>
    rw [searchGo.eq_1 g i j]
    simp [hij]

theorem mapM_congr_opt {α β} (f g : α → Option β) (l : List α) (h : ∀ x, x ∈ l → f x = g x) : l.mapM f = l.mapM g := by
  induction l with
  | nil => rfl
  | cons x xs ih =>
    simp only [List.mapM_cons, h x (by simp), ih (fun y hy => h y (List.mem_cons_of_mem _ hy))]

theorem borders_eq (ix : Index) (h : ix.len ≠ 0) (fromMID toMID : Nat) :
    borders ix fromMID toMID =
      (binSearchInRange 1 (ix.len - 1) (fun lid => (ix.lessOrEqual lid (toMID, maxU64)).getD false),
       binSearchInRange (binSearchInRange 1 (ix.len - 1) (fun lid => (ix.lessOrEqual lid (toMID, maxU64)).getD false)) (ix.len - 1)
         (fun lid => (ix.lessOrEqual lid (if fromMID > 0 then (fromMID - 1, maxU64) else (fromMID, 0))).getD false) - 1) := by
  unfold borders
  simp [h]

theorem binSearch_congr (lo hi : Nat) (f g : Nat → Bool) (h : ∀ k, lo ≤ k → k ≤ hi → f k = g k) :
    binSearchInRange lo hi f = binSearchInRange lo hi g := by
  unfold binSearchInRange
  congr 1
  apply searchGo_congr
  intro k _ hk
  exact h (lo + k) (by omega) (by omega)

theorem binSearch_bounds (lo hi : Nat) (f : Nat → Bool) :
    lo ≤ binSearchInRange lo hi f ∧ binSearchInRange lo hi f ≤ max lo (hi + 1) := by
  unfold binSearchInRange
  have := searchGo_bounds (fun i => f (lo + i)) 0 (hi + 1 - lo) (by omega)
  omega

/-- all leaves name tokens of the dictionary -/
def Q.wf (n : Nat) : Q → Prop
  | .leaf t => 1 ≤ t ∧ t ≤ n
  | .and l r => l.wf n ∧ r.wf n
  | .or l r => l.wf n ∧ r.wf n
  | .nand a b => a.wf n ∧ b.wf n

theorem inverseLIDs_window (inv post : List Nat) (minL maxL v : Nat) (h : v ∈ inverseLIDs inv post minL maxL) :
    minL ≤ v ∧ v ≤ maxL := by
  simp only [inverseLIDs, List.mem_filterMap] at h
  obtain ⟨x, _, hx⟩ := h
  split at hx
  · rename_i hc
    simp only [Option.some.injEq] at hx
    subst hx
    exact ⟨hc.2.2.1, hc.2.2.2⟩
  · simp at hx

theorem activeNode_window (a : Active) (post : List Nat) (minL maxL : Nat) (rev : Bool) (v : Nat)
    (h : v ∈ activeNode a post minL maxL rev) : minL ≤ v ∧ v ≤ maxL := by
  unfold activeNode at h
  cases rev with
  | false => exact inverseLIDs_window _ _ _ _ _ (by simpa using h)
  | true => exact inverseLIDs_window _ _ _ _ _ (by simpa using h)

theorem evalQ_agree (a : Active) (s : Sealed) (hag : IndexAgree a s) (minL maxL : Nat) (rev : Bool) :
    ∀ q : Q, q.wf a.fields.flatten.length →
      evalQ (sealedIndex s) minL maxL rev q = evalQ (activeIndex a) minL maxL rev q ∧
      ∀ lids, evalQ (activeIndex a) minL maxL rev q = .ok lids → ∀ v, v ∈ lids → minL ≤ v ∧ v ≤ maxL := by
  intro q
  induction q with
  | leaf t =>
    intro hw
    have hw' : 1 ≤ t ∧ t ≤ a.fields.flatten.length := hw
    have h0 : ¬ (t = 0) := by omega
    have hlt : t - 1 < a.fields.flatten.length := by omega
    have := (hag.tokens t hw'.1 hw'.2).2 minL maxL rev
    simp only [evalQ, sealedIndex, activeIndex, h0, if_false, List.getElem?_eq_getElem hlt]
    refine ⟨this, ?_⟩
    intro lids hl v hv
    simp only [Except.ok.injEq] at hl
    subst hl
    exact activeNode_window a _ minL maxL rev v hv
  | and l r ihl ihr =>
    intro hw
    obtain ⟨e1, m1⟩ := ihl hw.1
    obtain ⟨e2, m2⟩ := ihr hw.2
    simp only [evalQ, e1, e2]
    refine ⟨trivial, ?_⟩
    intro lids hl v hv
    cases h1 : evalQ (activeIndex a) minL maxL rev l with
    | error e => rw [h1] at hl; cases h2 : evalQ (activeIndex a) minL maxL rev r <;> simp [h2] at hl
    | ok x =>
      cases h2 : evalQ (activeIndex a) minL maxL rev r with
      | error e => rw [h1, h2] at hl; simp at hl
      | ok y =>
        rw [h1, h2] at hl
        simp only [Except.ok.injEq] at hl
        subst hl
        exact m1 x h1 v ((andMerge_sublist rev x y).subset hv)
  | or l r ihl ihr =>
    intro hw
    obtain ⟨e1, m1⟩ := ihl hw.1
    obtain ⟨e2, m2⟩ := ihr hw.2
    simp only [evalQ, e1, e2]
    refine ⟨trivial, ?_⟩
    intro lids hl v hv
    cases h1 : evalQ (activeIndex a) minL maxL rev l with
    | error e => rw [h1] at hl; cases h2 : evalQ (activeIndex a) minL maxL rev r <;> simp [h2] at hl
    | ok x =>
      cases h2 : evalQ (activeIndex a) minL maxL rev r with
      | error e => rw [h1, h2] at hl; simp at hl
      | ok y =>
        rw [h1, h2] at hl
        simp only [Except.ok.injEq] at hl
        subst hl
        rcases (mem_orMerge rev x y v).mp hv with hx | hy
        · exact m1 x h1 v hx
        · exact m2 y h2 v hy
  | nand n r ihn ihr =>
    intro hw
    obtain ⟨e1, m1⟩ := ihn hw.1
    obtain ⟨e2, m2⟩ := ihr hw.2
    simp only [evalQ, e1, e2]
    refine ⟨trivial, ?_⟩
    intro lids hl v hv
    cases h1 : evalQ (activeIndex a) minL maxL rev n with
    | error e => rw [h1] at hl; cases h2 : evalQ (activeIndex a) minL maxL rev r <;> simp [h2] at hl
    | ok x =>
      cases h2 : evalQ (activeIndex a) minL maxL rev r with
      | error e => rw [h1, h2] at hl; simp at hl
      | ok y =>
        rw [h1, h2] at hl
        simp only [Except.ok.injEq] at hl
        subst hl
        exact m2 y h2 v ((nandMerge_sublist rev x y).subset hv)

theorem borders_agree (a : Active) (s : Sealed) (hag : IndexAgree a s) (fromMID toMID : Nat) :
    borders (sealedIndex s) fromMID toMID = borders (activeIndex a) fromMID toMID ∧
    1 ≤ (borders (activeIndex a) fromMID toMID).1 ∧
    (borders (activeIndex a) fromMID toMID).2 < activeLen a := by
  have hlen : (sealedIndex s).len = activeLen a := hag.len
  have hal : (activeIndex a).len = activeLen a := rfl
  have hpos : activeLen a ≠ 0 := by simp [activeLen]
  have hle : ∀ id lid, 1 ≤ lid → lid ≤ activeLen a - 1 →
      ((sealedIndex s).lessOrEqual lid id).getD false = ((activeIndex a).lessOrEqual lid id).getD false := by
    intro id lid h1 h2
    have hlt : lid < activeLen a := by omega
    have := (hag.ids lid h1 hlt).2.2 id
    simp only [sealedIndex, activeIndex, this]
  rw [borders_eq (sealedIndex s) (by rw [hlen]; exact hpos), borders_eq (activeIndex a) (by rw [hal]; exact hpos), hlen, hal]
  have e1 := binSearch_congr 1 (activeLen a - 1)
    (fun lid => ((sealedIndex s).lessOrEqual lid (toMID, maxU64)).getD false)
    (fun lid => ((activeIndex a).lessOrEqual lid (toMID, maxU64)).getD false) (fun k h1 h2 => hle _ k h1 h2)
  rw [e1]
  have b1 := binSearch_bounds 1 (activeLen a - 1) (fun lid => ((activeIndex a).lessOrEqual lid (toMID, maxU64)).getD false)
  generalize binSearchInRange 1 (activeLen a - 1) (fun lid => ((activeIndex a).lessOrEqual lid (toMID, maxU64)).getD false) = minLID at *
  have e2 := binSearch_congr minLID (activeLen a - 1)
    (fun lid => ((sealedIndex s).lessOrEqual lid (if fromMID > 0 then (fromMID - 1, maxU64) else (fromMID, 0))).getD false)
    (fun lid => ((activeIndex a).lessOrEqual lid (if fromMID > 0 then (fromMID - 1, maxU64) else (fromMID, 0))).getD false)
    (fun k h1 h2 => hle _ k (by omega) h2)
  rw [e2]
  have b2 := binSearch_bounds minLID (activeLen a - 1)
    (fun lid => ((activeIndex a).lessOrEqual lid (if fromMID > 0 then (fromMID - 1, maxU64) else (fromMID, 0))).getD false)
  refine ⟨rfl, b1.1, ?_⟩
  simp only
  omega

/-- **C03, answers**: every search (any boolean combination of tokens, time window, order, limit, total, histogram)
evaluated through the index interface gives the same answer on the sealed fraction as on the active one -/
theorem search_agree (a : Active) (s : Sealed) (hag : IndexAgree a s) (q : Q) (hq : q.wf a.fields.flatten.length)
    (fromMID toMID : Nat) (rev : Bool) (limit histInterval : Nat) :
    search (sealedIndex s) q fromMID toMID rev limit histInterval = search (activeIndex a) q fromMID toMID rev limit histInterval := by
  obtain ⟨hb, hb1, hb2⟩ := borders_agree a s hag fromMID toMID
  unfold search
  simp only [hb]
  obtain ⟨he, hm⟩ := evalQ_agree a s hag (borders (activeIndex a) fromMID toMID).1 (borders (activeIndex a) fromMID toMID).2 rev q hq
  rw [he]
  cases hl : evalQ (activeIndex a) (borders (activeIndex a) fromMID toMID).1 (borders (activeIndex a) fromMID toMID).2 rev q with
  | error e => rfl
  | ok lids =>
    simp only
    have hmem := hm lids hl
    have hids : lids.mapM (idOf (sealedIndex s)) = lids.mapM (idOf (activeIndex a)) := by
      apply mapM_congr_opt
      intro l hlm
      have hw := hmem l hlm
      have hag' := hag.ids l (by omega) (by omega)
      simp only [idOf, sealedIndex, activeIndex, hag'.1, hag'.2.1]
    rw [hids]

end SV.C03
