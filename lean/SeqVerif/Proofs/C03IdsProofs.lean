import SeqVerif.Model.C03Ids
/-!
# C03 proofs: ID blocks - look-ups return the sealed ID sequence, `LessOrEqual` = direct comparison
-/
namespace SV.C03

theorem idLE_iff (a b : ID) : idLE a b = true ↔ (a.1 < b.1 ∨ (a.1 = b.1 ∧ a.2 ≤ b.2)) := by
  unfold idLE
  split
  · simp; omega
  · simp; omega

theorem idLE_trans (a b c : ID) (h1 : idLE a b = true) (h2 : idLE b c = true) : idLE a c = true := by
  rw [idLE_iff] at *; omega

/-- descending (non-strict) ID order, as produced by `sortSeqIDs` -/
abbrev DescIDs (ids : List ID) : Prop := ids.Pairwise (fun a b => idLE b a = true)

/-! ### the slicing loop -/

theorem chopGo_block {α} (size : Nat) (hs : 1 ≤ size) :
    ∀ (fuel : Nat) (l : List α), l.length ≤ fuel → ∀ bi, bi * size < l.length →
      (chopGo size fuel l)[bi]? = some ((l.drop (bi * size)).take size) := by
  intro fuel
  induction fuel with
  | zero => intro l hl bi hbi; omega
  | succ fuel ih =>
    intro l hl bi hbi
    have hne : l ≠ [] := by intro h; simp [h] at hbi
    simp only [chopGo, hne, if_false]
    cases bi with
    | zero =>
      simp only [List.getElem?_cons_zero, Nat.zero_mul, List.drop_zero, Option.some.injEq]
      by_cases h : size ≤ l.length
      · rw [Nat.min_eq_left h]
      · rw [Nat.min_eq_right (by omega), List.take_of_length_le (by omega), List.take_of_length_le (by omega)]
    | succ bi =>
      have hsz : size ≤ l.length := by
        have : size ≤ (bi + 1) * size := by
          rw [Nat.add_mul]; omega
        omega
      rw [Nat.min_eq_left hsz]
      simp only [List.getElem?_cons_succ]
      rw [ih (l.drop size) (by simp; omega) bi (by simp; rw [Nat.add_mul] at hbi; omega)]
      rw [List.drop_drop]
      congr 3
      rw [Nat.add_mul]; omega

theorem chop_block {α} (size : Nat) (hs : 1 ≤ size) (l : List α) (bi : Nat) (hbi : bi * size < l.length) :
    (chop size l)[bi]? = some ((l.drop (bi * size)).take size) :=
  chopGo_block size hs l.length l (Nat.le_refl _) bi hbi

theorem div_mul_lt (size k : Nat) (hs : 1 ≤ size) : k / size * size ≤ k ∧ k < k / size * size + size := by
  have h1 := Nat.div_add_mod k size
  have h2 := Nat.mod_lt k (show size > 0 by omega)
  have h3 : k / size * size = size * (k / size) := Nat.mul_comm _ _
  constructor <;> omega

/-- element `k` of the sequence sits in slice `k / size` at offset `k - k / size * size` -/
theorem chop_get {α} (size : Nat) (hs : 1 ≤ size) (l : List α) (k : Nat) (hk : k < l.length) :
    ∃ c, (chop size l)[k / size]? = some c ∧ c[k - k / size * size]? = l[k]? ∧
      c = (l.drop (k / size * size)).take size := by
  have hd := div_mul_lt size k hs
  refine ⟨_, chop_block size hs l (k / size) (by omega), ?_, rfl⟩
  rw [List.getElem?_take_of_lt (by omega), List.getElem?_drop]
  congr 1; omega

/-! ### raw little endian RIDs -/

theorem unle64s_pack (rids : List Nat) (h : ∀ r, r ∈ rids → r < 18446744073709551616) :
    unle64s (packRIDs rids) = some rids := by
  induction rids with
  | nil => rfl
  | cons r rs ih =>
    have hr := h r (by simp)
    simp only [packRIDs, List.flatMap_cons, le64, List.cons_append, List.nil_append, unle64s]
    have := ih (fun x hx => h x (List.mem_cons_of_mem _ hx))
    simp only [packRIDs] at this
    rw [this]
    simp only [Option.map_some, Option.some.injEq, List.cons.injEq, and_true]
    omega

/-! ### look-ups on the written blocks -/

structure IDsInput (size : Nat) (ids : List ID) : Prop where
  size_pos : 1 ≤ size
  bounded : ∀ x, x ∈ ids → x.1 < 18446744073709551616 ∧ x.2 < 18446744073709551616

theorem writeIDs_block (size : Nat) (ids : List ID) (posOf : ID → Nat) (k : Nat) (hs : 1 ≤ size) (hk : k < ids.length) :
    ∃ c, (writeIDs size ids posOf)[k / size]? =
        some { mids := packDeltas (c.map (·.1)), rids := packRIDs (c.map (·.2)), pos := packDeltas (c.map posOf),
               ext := c.getLastD (0, 0) } ∧
      c[k - k / size * size]? = ids[k]? ∧ c = (ids.drop (k / size * size)).take size := by
  obtain ⟨c, hc1, hc2, hc3⟩ := chop_get size hs ids k hk
  refine ⟨c, ?_, hc2, hc3⟩
  simp [writeIDs, hc1]

theorem mem_slice {α} (l : List α) (a s : Nat) (x : α) (hx : x ∈ (l.drop a).take s) :
    ∃ j, a ≤ j ∧ j < a + s ∧ l[j]? = some x := by
  obtain ⟨i, hi, hxi⟩ := List.getElem_of_mem hx
  have hi' : i < s ∧ i < l.length - a := by simp [List.length_take, List.length_drop] at hi; omega
  refine ⟨a + i, by omega, by omega, ?_⟩
  rw [← hxi, List.getElem_take, List.getElem_drop, List.getElem?_eq_getElem]

theorem getMID_spec (size : Nat) (ids : List ID) (posOf : ID → Nat) (h : IDsInput size ids) (lid : Nat) (hl : lid < ids.length) :
    getMID size (writeIDs size ids posOf) lid = some ids[lid].1 := by
  obtain ⟨c, hb, hc, hcs⟩ := writeIDs_block size ids posOf lid h.size_pos hl
  unfold getMID
  rw [hb]
  have hbound : ∀ v, v ∈ c.map (·.1) → v < W64 := by
    intro v hv
    obtain ⟨x, hx, rfl⟩ := List.mem_map.mp hv
    rw [hcs] at hx
    exact (h.bounded x (List.mem_of_mem_drop (List.mem_of_mem_take hx))).1
  simp only [deltas_roundtrip _ hbound, List.getElem?_map, hc, List.getElem?_eq_getElem hl, Option.map_some]

theorem getRID_spec (size : Nat) (ids : List ID) (posOf : ID → Nat) (h : IDsInput size ids) (lid : Nat) (hl : lid < ids.length) :
    getRID size (writeIDs size ids posOf) lid = some ids[lid].2 := by
  obtain ⟨c, hb, hc, hcs⟩ := writeIDs_block size ids posOf lid h.size_pos hl
  unfold getRID
  rw [hb]
  have hbound : ∀ v, v ∈ c.map (·.2) → v < 18446744073709551616 := by
    intro v hv
    obtain ⟨x, hx, rfl⟩ := List.mem_map.mp hv
    rw [hcs] at hx
    exact (h.bounded x (List.mem_of_mem_drop (List.mem_of_mem_take hx))).2
  simp only [unle64s_pack _ hbound, List.getElem?_map, hc, List.getElem?_eq_getElem hl, Option.map_some]

theorem getPos_spec (size : Nat) (ids : List ID) (posOf : ID → Nat) (h : IDsInput size ids)
    (hpos : ∀ x, x ∈ ids → posOf x < W64) (lid : Nat) (hl : lid < ids.length) :
    getPos size (writeIDs size ids posOf) lid = some (posOf ids[lid]) := by
  obtain ⟨c, hb, hc, hcs⟩ := writeIDs_block size ids posOf lid h.size_pos hl
  unfold getPos
  rw [hb]
  have hbound : ∀ v, v ∈ c.map posOf → v < W64 := by
    intro v hv
    obtain ⟨x, hx, rfl⟩ := List.mem_map.mp hv
    rw [hcs] at hx
    exact hpos x (List.mem_of_mem_drop (List.mem_of_mem_take hx))
  simp only [deltas_roundtrip _ hbound, List.getElem?_map, hc, List.getElem?_eq_getElem hl, Option.map_some]

theorem desc_index (ids : List ID) (hd : DescIDs ids) (i j : Nat) (hij : i < j) (hj : j < ids.length) :
    idLE ids[j] ids[i] = true := by
  have := List.pairwise_iff_getElem.mp hd i j (by omega) hj hij
  exact this

theorem idLE_refl (a : ID) : idLE a a = true := by rw [idLE_iff]; omega

theorem getLastD_mem {α} (l : List α) (d : α) (h : l ≠ []) : l.getLastD d ∈ l := by
  cases l with
  | nil => exact absurd rfl h
  | cons a t => simp only [List.getLastD_cons]; exact List.getLastD_mem_cons ..

theorem last_le_all (c : List ID) (hd : DescIDs c) (x : ID) (hx : x ∈ c) : idLE (c.getLastD (0, 0)) x = true := by
  induction c with
  | nil => simp at hx
  | cons a t ih =>
    have hp := List.pairwise_cons.mp hd
    cases t with
    | nil =>
      simp at hx; subst hx
      simp [idLE_refl]
    | cons b t' =>
      simp only [List.getLastD_cons]
      have hl : (b :: t').getLastD (0, 0) ∈ b :: t' := getLastD_mem _ _ (by simp)
      simp only [List.getLastD_cons] at hl
      rcases List.mem_cons.mp hx with rfl | hx
      · exact hp.1 _ hl
      · have := ih hp.2 hx
        simp only [List.getLastD_cons] at this ⊢
        exact this

/-- **`LessOrEqual` with its two block-min short cuts equals the direct comparison with the LID's own ID** -/
theorem lessOrEqual_spec (size : Nat) (ids : List ID) (posOf : ID → Nat) (h : IDsInput size ids) (hd : DescIDs ids)
    (lid : Nat) (id : ID) :
    lessOrEqual size (idsTableOf (writeIDs size ids posOf) ids.length) (writeIDs size ids posOf) lid id =
      some (if hl : lid < ids.length then idLE ids[lid] id else true) := by
  unfold lessOrEqual
  by_cases hl : lid < ids.length
  · have hge : ¬ (lid ≥ (idsTableOf (writeIDs size ids posOf) ids.length).idsTotal) := by simp [idsTableOf]; omega
    simp only [hge, if_false, hl, dite_true]
    obtain ⟨c, hb, hc, hcs⟩ := writeIDs_block size ids posOf lid h.size_pos hl
    have hdm := div_mul_lt size lid h.size_pos
    have hmin : (idsTableOf (writeIDs size ids posOf) ids.length).minBlockIDs[lid / size]? = some (c.getLastD (0, 0)) := by
      simp [idsTableOf, hb]
    rw [hmin]
    simp only
    have hcmem : ids[lid] ∈ c := by
      have := hc
      rw [List.getElem?_eq_getElem hl] at this
      exact List.mem_of_getElem? this
    have hcdesc : DescIDs c := by
      rw [hcs]
      exact (hd.sublist (List.drop_sublist _ _)).sublist (List.take_sublist _ _)
    have hlast := last_le_all c hcdesc _ hcmem
    by_cases h1 : idLE (c.getLastD (0, 0)) id = true
    · simp only [h1, Bool.not_true, Bool.false_eq_true, if_false]
      -- second short cut
      by_cases h2 : (decide (lid / size > 0) && prevLE (idsTableOf (writeIDs size ids posOf) ids.length) (lid / size) id) = true
      · simp only [h2, if_true]
        rw [Bool.and_eq_true] at h2
        obtain ⟨hpos, hprev⟩ := h2
        have hpos' : lid / size > 0 := by simpa using hpos
        -- the previous block's minimum is an element with a smaller index
        have hk : (lid / size - 1) * size < ids.length := by
          have : (lid / size - 1) * size ≤ lid / size * size := Nat.mul_le_mul_right _ (by omega)
          omega
        have hprevblock := chop_block size h.size_pos ids (lid / size - 1) hk
        have hpm : (idsTableOf (writeIDs size ids posOf) ids.length).minBlockIDs[lid / size - 1]? =
            some (((ids.drop ((lid / size - 1) * size)).take size).getLastD (0, 0)) := by
          simp [idsTableOf, writeIDs, hprevblock]
        unfold prevLE at hprev
        rw [hpm] at hprev
        have hne : (ids.drop ((lid / size - 1) * size)).take size ≠ [] := by
          intro h0
          have := congrArg List.length h0
          simp [List.length_take, List.length_drop] at this
          omega
        obtain ⟨j, hj1, hj2, hj3⟩ := mem_slice ids _ size _ (getLastD_mem _ (0, 0) hne)
        have hjlt : j < lid := by
          have : (lid / size - 1) * size + size = lid / size * size := by
            have : lid / size = (lid / size - 1) + 1 := by omega
            conv => rhs; rw [this, Nat.add_mul]
            omega
          omega
        have hjl : j < ids.length := by omega
        rw [List.getElem?_eq_getElem hjl] at hj3
        have hle := desc_index ids hd j lid hjlt hl
        simp only [Option.some.injEq] at hj3
        rw [hj3] at hle
        simp [idLE_trans _ _ _ hle hprev]
      · simp only [h2, if_false]
        rw [getMID_spec size ids posOf h lid hl, getRID_spec size ids posOf h lid hl]
        have hrid := (h.bounded ids[lid] (List.getElem_mem _)).2
        by_cases hm : ids[lid].1 = id.1
        · simp only [hm, if_true]
          by_cases hr : id.2 = 18446744073709551615
          · have : idLE ids[lid] id = true := by rw [idLE_iff]; omega
            simp [hr, this]
          · simp only [hr, if_false, Option.map_some]
            unfold idLE
            simp [hm]
        · simp only [hm, if_false]
          unfold idLE
          simp [hm]
    · have h1' : idLE (c.getLastD (0, 0)) id = false := by simpa using h1
      simp only [h1', Bool.not_false, if_true]
      have : idLE ids[lid] id = false := by
        cases hv : idLE ids[lid] id with
        | false => rfl
        | true => rw [idLE_trans _ _ _ hlast hv] at h1'; simp at h1'
      simp [this]
  · have hge : lid ≥ (idsTableOf (writeIDs size ids posOf) ids.length).idsTotal := by simp [idsTableOf]; omega
    simp [hge, hl]

end SV.C03
