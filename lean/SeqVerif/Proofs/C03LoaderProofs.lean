import SeqVerif.Model.C03Loader
/-!
# C03 proofs: the loader's registry walk recovers exactly the sections that were written, for any number of blocks
-/
namespace SV.C03

theorem getElem?_mid {α} (pre : List α) (x : α) (post : List α) : (pre ++ x :: post)[pre.length]? = some x := by simp

theorem idsSection_length (blocks : List (ID × Nat × Nat × Nat)) : (idsSection blocks).length = 3 * blocks.length + 1 := by
  induction blocks with
  | nil => rfl
  | cons b bs ih =>
    simp only [idsSection, List.flatMap_cons, List.length_append, List.length_cons, List.length_nil] at ih ⊢
    omega

theorem lidsSection_length (blocks : List (Block × Nat)) : (lidsSection blocks).length = blocks.length + 1 := by
  simp [lidsSection]

theorem skipSection_spec (sec : List Hdr) (hsec : ∀ h, h ∈ sec → h.len ≠ 0) :
    ∀ (pre post : List Hdr) (fuel : Nat), sec.length + 1 ≤ fuel →
      skipSection fuel (pre ++ sec ++ sepHdr :: post) pre.length = some (pre.length + sec.length + 1) := by
  induction sec with
  | nil =>
    intro pre post fuel hf
    cases fuel with
    | zero => omega
    | succ f =>
      simp only [List.append_nil, skipSection, getElem?_mid]
      simp [sepHdr]
  | cons h sec ih =>
    intro pre post fuel hf
    cases fuel with
    | zero => omega
    | succ f =>
      have hreg : pre ++ (h :: sec) ++ sepHdr :: post = pre ++ h :: (sec ++ sepHdr :: post) := by simp
      simp only [skipSection, hreg, getElem?_mid, hsec h (by simp), if_false]
      have := ih (fun x hx => hsec x (List.mem_cons_of_mem _ hx)) (pre ++ [h]) post f (by simp at hf ⊢; omega)
      simp only [List.length_append, List.length_cons, List.length_nil, List.append_assoc, List.cons_append, List.nil_append] at this
      rw [this]
      simp only [List.length_cons]
      congr 1; omega

theorem probeIDs_spec (blocks : List (ID × Nat × Nat × Nat)) (hlen : ∀ b, b ∈ blocks → b.2.1 ≠ 0) :
    ∀ (pre post : List Hdr) (acc : List ID) (fuel : Nat), blocks.length + 1 ≤ fuel →
      probeIDs fuel (pre ++ idsSection blocks ++ post) pre.length acc =
        some (acc ++ blocks.map (·.1), pre.length + 3 * blocks.length + 1) := by
  induction blocks with
  | nil =>
    intro pre post acc fuel hf
    cases fuel with
    | zero => omega
    | succ f =>
      simp only [idsSection, List.flatMap_nil, List.nil_append, List.append_assoc, List.cons_append, probeIDs, getElem?_mid]
      simp [sepHdr]
  | cons b blocks ih =>
    intro pre post acc fuel hf
    cases fuel with
    | zero => omega
    | succ f =>
      have hreg : pre ++ idsSection (b :: blocks) ++ post =
          pre ++ ⟨b.2.1, b.1.1, b.1.2⟩ :: ⟨b.2.2.1, 0, 0⟩ :: ⟨b.2.2.2, 0, 0⟩ :: (idsSection blocks ++ post) := by
        simp [idsSection]
      have hreg2 : pre ++ idsSection (b :: blocks) ++ post =
          (pre ++ [⟨b.2.1, b.1.1, b.1.2⟩, ⟨b.2.2.1, 0, 0⟩, ⟨b.2.2.2, 0, 0⟩]) ++ idsSection blocks ++ post := by
        simp [idsSection]
      have h0 := hlen b (by simp)
      have g1 : (pre ++ idsSection (b :: blocks) ++ post)[pre.length + 1]? = some ⟨b.2.2.1, 0, 0⟩ := by
        rw [hreg]; simp
      have g2 : (pre ++ idsSection (b :: blocks) ++ post)[pre.length + 2]? = some ⟨b.2.2.2, 0, 0⟩ := by
        rw [hreg]; simp
      have g0 : (pre ++ idsSection (b :: blocks) ++ post)[pre.length]? = some ⟨b.2.1, b.1.1, b.1.2⟩ := by
        rw [hreg]; simp
      simp only [probeIDs, g0, g1, g2, h0, if_false, Option.isNone_some, Bool.false_eq_true, or_self]
      have := ih (fun x hx => hlen x (List.mem_cons_of_mem _ hx))
        (pre ++ [⟨b.2.1, b.1.1, b.1.2⟩, ⟨b.2.2.1, 0, 0⟩, ⟨b.2.2.2, 0, 0⟩]) post (acc ++ [(b.1.1, b.1.2)]) f (by simp at hf ⊢; omega)
      simp only [List.length_append, List.length_cons, List.length_nil] at this
      rw [hreg2, this]
      simp only [List.map_cons, List.append_assoc, List.cons_append, List.nil_append, List.length_cons]
      congr 2
      omega

theorem probeLIDs_spec (blocks : List (Block × Nat)) (hlen : ∀ b, b ∈ blocks → b.2 ≠ 0)
    (htid : ∀ b, b ∈ blocks → b.1.minTID < 4294967296 ∧ b.1.maxTID < 4294967296) :
    ∀ (pre post : List Hdr) (acc : List (Nat × Nat × Bool)) (fuel : Nat), blocks.length + 1 ≤ fuel →
      probeLIDs fuel (pre ++ lidsSection blocks ++ post) pre.length acc =
        some (acc ++ blocks.map (fun b => (b.1.minTID, b.1.maxTID, b.1.isContinued)), pre.length + blocks.length + 1) := by
  induction blocks with
  | nil =>
    intro pre post acc fuel hf
    cases fuel with
    | zero => omega
    | succ f =>
      simp only [lidsSection, List.map_nil, List.nil_append, List.append_assoc, List.cons_append, probeLIDs, getElem?_mid]
      simp [sepHdr]
  | cons b blocks ih =>
    intro pre post acc fuel hf
    cases fuel with
    | zero => omega
    | succ f =>
      have hreg : pre ++ lidsSection (b :: blocks) ++ post =
          pre ++ ⟨b.2, (lidExt b.1.minTID b.1.maxTID b.1.isContinued).1, (lidExt b.1.minTID b.1.maxTID b.1.isContinued).2⟩ ::
            (lidsSection blocks ++ post) := by simp [lidsSection]
      have hreg2 : pre ++ lidsSection (b :: blocks) ++ post =
          (pre ++ [⟨b.2, (lidExt b.1.minTID b.1.maxTID b.1.isContinued).1, (lidExt b.1.minTID b.1.maxTID b.1.isContinued).2⟩]) ++
            lidsSection blocks ++ post := by simp [lidsSection]
      have g0 : (pre ++ lidsSection (b :: blocks) ++ post)[pre.length]? =
          some ⟨b.2, (lidExt b.1.minTID b.1.maxTID b.1.isContinued).1, (lidExt b.1.minTID b.1.maxTID b.1.isContinued).2⟩ := by
        rw [hreg]; simp
      simp only [probeLIDs, g0, hlen b (by simp), if_false]
      have hrt := registry_ext_roundtrip b.1.minTID b.1.maxTID b.1.isContinued (htid b (by simp)).1 (htid b (by simp)).2
      have := ih (fun x hx => hlen x (List.mem_cons_of_mem _ hx)) (fun x hx => htid x (List.mem_cons_of_mem _ hx))
        (pre ++ [⟨b.2, (lidExt b.1.minTID b.1.maxTID b.1.isContinued).1, (lidExt b.1.minTID b.1.maxTID b.1.isContinued).2⟩]) post
        (acc ++ [lidExtLoad ((lidExt b.1.minTID b.1.maxTID b.1.isContinued).1, (lidExt b.1.minTID b.1.maxTID b.1.isContinued).2)]) f
        (by simp at hf ⊢; omega)
      simp only [List.length_append, List.length_cons, List.length_nil] at this
      rw [hreg2, this]
      simp only [hrt, List.map_cons, List.append_assoc, List.cons_append, List.nil_append, List.length_cons]
      congr 2
      omega

/-- **loaded = written for every block count.**  For an index file with any token blocks, any token-table blocks, any
number of ID blocks (so every `IDsTotal`, incl. exact multiples of the block capacity) and any number of LID blocks, the
loader finds the ID section right after the positions block, recovers every `MinBlockID`, finds the LID section right
after the ID separator and recovers every (MinTID, MaxTID, IsContinued) -/
theorem loadTables_spec (info pos : Hdr) (toks tab : List Hdr) (ids : List (ID × Nat × Nat × Nat)) (lids : List (Block × Nat))
    (htoks : ∀ h, h ∈ toks → h.len ≠ 0) (htab : ∀ h, h ∈ tab → h.len ≠ 0)
    (hids : ∀ b, b ∈ ids → b.2.1 ≠ 0) (hlids : ∀ b, b ∈ lids → b.2 ≠ 0)
    (htid : ∀ b, b ∈ lids → b.1.minTID < 4294967296 ∧ b.1.maxTID < 4294967296) :
    loadTables ([info] ++ toks ++ sepHdr :: (tab ++ sepHdr :: (pos :: (idsSection ids ++ lidsSection lids)))) =
      some { idsStart := toks.length + tab.length + 4, minBlockIDs := ids.map (·.1),
             lidsStart := toks.length + tab.length + 4 + 3 * ids.length + 1,
             lids := lids.map fun b => (b.1.minTID, b.1.maxTID, b.1.isContinued) } := by
  unfold loadTables
  generalize hreg : [info] ++ toks ++ sepHdr :: (tab ++ sepHdr :: (pos :: (idsSection ids ++ lidsSection lids))) = reg
  have hlen : reg.length = 1 + toks.length + 1 + tab.length + 1 + 1 + (3 * ids.length + 1) + (lids.length + 1) := by
    rw [← hreg]
    simp only [List.length_append, List.length_cons, List.length_nil, idsSection_length, lidsSection_length]
    omega
  have s1 := skipSection_spec toks htoks [info] (tab ++ sepHdr :: (pos :: (idsSection ids ++ lidsSection lids))) (reg.length + 1) (by omega)
  rw [hreg] at s1
  simp only [List.length_cons, List.length_nil] at s1
  simp only [s1]
  have hreg2 : reg = ([info] ++ toks ++ [sepHdr]) ++ tab ++ sepHdr :: (pos :: (idsSection ids ++ lidsSection lids)) := by
    rw [← hreg]; simp
  have s2 := skipSection_spec tab htab ([info] ++ toks ++ [sepHdr]) (pos :: (idsSection ids ++ lidsSection lids)) (reg.length + 1) (by omega)
  rw [← hreg2] at s2
  simp only [List.length_append, List.length_cons, List.length_nil] at s2
  have e1 : 0 + 1 + toks.length + 1 = 0 + 1 + toks.length + (0 + 1) := by omega
  rw [e1, s2]
  simp only
  have hreg3 : reg = ([info] ++ toks ++ [sepHdr] ++ tab ++ [sepHdr]) ++ pos :: (idsSection ids ++ lidsSection lids) := by
    rw [← hreg]; simp
  have hposidx : 0 + 1 + toks.length + (0 + 1) + tab.length + 1 = ([info] ++ toks ++ [sepHdr] ++ tab ++ [sepHdr]).length := by
    simp; omega
  have gp : reg[0 + 1 + toks.length + (0 + 1) + tab.length + 1]? = some pos := by
    rw [hposidx, hreg3]; exact getElem?_mid _ _ _
  simp only [gp, Option.isNone_some, Bool.false_eq_true, if_false]
  have hreg4 : reg = ([info] ++ toks ++ [sepHdr] ++ tab ++ [sepHdr] ++ [pos]) ++ idsSection ids ++ lidsSection lids := by
    rw [← hreg]; simp
  have s3 := probeIDs_spec ids hids ([info] ++ toks ++ [sepHdr] ++ tab ++ [sepHdr] ++ [pos]) (lidsSection lids) [] (reg.length + 1) (by omega)
  rw [← hreg4] at s3
  have hidx : 0 + 1 + toks.length + (0 + 1) + tab.length + 1 + 1 = ([info] ++ toks ++ [sepHdr] ++ tab ++ [sepHdr] ++ [pos]).length := by
    simp; omega
  rw [hidx, s3]
  simp only [List.nil_append]
  have hreg5 : reg = ([info] ++ toks ++ [sepHdr] ++ tab ++ [sepHdr] ++ [pos] ++ idsSection ids) ++ lidsSection lids ++ [] := by
    rw [← hreg]; simp
  have s4 := probeLIDs_spec lids hlids htid ([info] ++ toks ++ [sepHdr] ++ tab ++ [sepHdr] ++ [pos] ++ idsSection ids) [] [] (reg.length + 1) (by omega)
  rw [← hreg5] at s4
  have hidx2 : ([info] ++ toks ++ [sepHdr] ++ tab ++ [sepHdr] ++ [pos]).length + 3 * ids.length + 1 =
      ([info] ++ toks ++ [sepHdr] ++ tab ++ [sepHdr] ++ [pos] ++ idsSection ids).length := by
    simp only [List.length_append, List.length_cons, List.length_nil, idsSection_length]
    omega
  rw [hidx2, s4]
  simp only [List.nil_append, Option.some.injEq, LoadedTables.mk.injEq, and_true]
  constructor
  · rw [← hidx]; omega
  · refine ⟨trivial, ?_⟩; rw [← hidx2, ← hidx]; omega

end SV.C03
