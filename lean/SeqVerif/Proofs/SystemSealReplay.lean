import SeqVerif.Proofs.SystemReplay
/-!
# Whole pipeline: sealing after a crash history (`sys_*`)

`sys_i1_sealed` (Proofs/SystemSealed.lean) is about the fraction sealed from the state the append pipeline reached from
a list of bulks; `sys_i1_replayed` (Proofs/SystemReplay.lean) shows that after ANY history of bulks, crashes at any byte
of either file write and restarts the index worker holds exactly the state reached from the bulks `handed dec H`, and that
every acknowledged bulk is among them.  DESIGN section 15 listed the combination as "the two halves compose through
`Holds` but no combined theorem is stated"; this module states it: a store that went through any crash/restart history
and then sealed its fraction serves every first-delivered meta of every acknowledged bulk from the sealed form.
**Restriction** as in the two halves: bulks without nested metas (`DistinctBulks` / `NonEmptyDocs`).
-/
namespace SV.Sys
open SV SV.Spec SV.ProxyE2E

/-- **I1 after a crash history, then a seal.**  For every write-path history `H` (bulks, crashes at any byte, restarts)
and every acknowledged bulk `b` of it: the fraction sealed from what the index worker holds after `H` is well formed for
C02/C05, the bulk's metas were handed to the worker, and each of them that is a first delivery (and carries the `_all_`
token every C10 meta carries) has a stored document in the sealed fraction with its ID and every covered token. -/
theorem sys_i1_replayed_sealed (dec : WPath.Bytes → List Collector.Meta) (hdec : ExtBlind dec) (H : List WPath.Ev)
    (hwf : ∀ e ∈ H, e.WF)
    (names : List Bytes) (U : List (List (Bytes × C03.Tok))) (size cap rbs base : Nat) (posOf : C03.ID → Nat)
    (hd : Collector.DistinctBulks (handed dec H)) (hs : Collector.NonEmptyDocs (handed dec H))
    (hq : C03.Quiescent (readC03 U (handed dec H))) (hsize : 1 ≤ size) (hcap : 1 ≤ cap)
    (sl : C03.Sealed) (hseal : C03.sealFrac size size cap rbs base posOf (readC03 U (handed dec H)) = .ok sl) (fr to : Nat)
    (hb : ∀ l ∈ (readC03 U (handed dec H)).allDocs,
      fr ≤ (readC03 U (handed dec H)).mids.getD l 0 ∧ (readC03 U (handed dec H)).mids.getD l 0 ≤ to)
    (hz : ∀ l ∈ (readC03 U (handed dec H)).allDocs,
      (⟨(readC03 U (handed dec H)).mids.getD l 0, (readC03 U (handed dec H)).rids.getD l 0⟩ : Spec.ID) ≠ ⟨0, 0⟩)
    (from_ : Nat) (b : WPath.Blk × WPath.Blk) (hbk : b ∈ WPath.ackedOf H) :
    (sealedFrac names (readC03 U (handed dec H)) sl fr to).OK from_ ∧
    dec (WPath.enc b.2) ∈ handed dec H ∧
    ∀ m ∈ dec (WPath.enc b.2), m ∈ ActiveReach.keptRun Collector.Active.empty (handed dec H) →
      Collector.allToken ∈ m.tokens.map Collector.MetaToken.bytes →
      ∃ d ∈ storedDocs [sealedFrac names (readC03 U (handed dec H)) sl fr to], d.id = ActiveReach.toID m.id ∧
        ∀ tok ∈ m.tokens, Covers names U tok.bytes → ActiveReach.splitTok tok.bytes ∈ d.tokens := by
  obtain ⟨hok, hdocs⟩ := sys_i1_sealed names U size cap rbs base posOf (handed dec H) hd hs hq hsize hcap sl hseal fr to
    hb hz from_
  exact ⟨hok, (sys_i1_replayed dec hdec H hwf).1 b hbk, fun m _ hk hall => hdocs m hk hall⟩

/-- a restart inserted anywhere in the history changes neither the sealed fraction's input nor, therefore, anything
`sys_i1_replayed_sealed` says: the sealed form after `H1 ++ restart :: H2` is sealed from the same state -/
theorem sys_sealed_restart_transparent (dec : WPath.Bytes → List Collector.Meta) (hdec : ExtBlind dec)
    (H1 H2 : List WPath.Ev) (hwf : ∀ e ∈ H1 ++ H2, e.WF) (U : List (List (Bytes × C03.Tok))) :
    readC03 U (handed dec (H1 ++ .restart :: H2)) = readC03 U (handed dec (H1 ++ H2)) := by
  rw [(sys_i1_replayed dec hdec (H1 ++ H2) hwf).2 H1 H2 rfl]

/-! ## rotation: a store serving many fractions, the one that took the bulk having gone through a crash history -/

/-- the fraction that took the acknowledged bulk `b` went through the write-path history `H` and is still active:
the store `Holds` the bulk in the sense of `sys_i1_mixed`, whatever other fractions `fs` lists -/
theorem sys_holds_of_history_active (dec : WPath.Bytes → List Collector.Meta) (hdec : ExtBlind dec) (H : List WPath.Ev)
    (hwf : ∀ e ∈ H, e.WF) (names : List Bytes) (from_ : Nat) (fs : List Merge.FracIdx)
    (b : WPath.Blk × WPath.Blk) (hbk : b ∈ WPath.ackedOf H)
    (hd : Collector.DistinctBulks (handed dec H)) (hs : Collector.NonEmptyDocs (handed dec H))
    (hg : ActiveReach.GoodIDs (handed dec H))
    (hfirst : ∀ m ∈ dec (WPath.enc b.2), m ∈ ActiveReach.keptRun Collector.Active.empty (handed dec H))
    (hin : activeFrac (reached (handed dec H)) ∈ fs) :
    Holds names from_ fs (dec (WPath.enc b.2)) :=
  .active (handed dec H) ((sys_i1_replayed dec hdec H hwf).1 b hbk) hd hs hg hfirst hin

/-- the same fraction, sealed after the history (rotation seals the fraction a full active one leaves behind) -/
theorem sys_holds_of_history_sealed (dec : WPath.Bytes → List Collector.Meta) (hdec : ExtBlind dec) (H : List WPath.Ev)
    (hwf : ∀ e ∈ H, e.WF) (names : List Bytes) (from_ : Nat) (fs : List Merge.FracIdx)
    (b : WPath.Blk × WPath.Blk) (hbk : b ∈ WPath.ackedOf H)
    (hd : Collector.DistinctBulks (handed dec H)) (hs : Collector.NonEmptyDocs (handed dec H))
    (hfirst : ∀ m ∈ dec (WPath.enc b.2), m ∈ ActiveReach.keptRun Collector.Active.empty (handed dec H))
    (U : List (List (Bytes × C03.Tok))) (size cap rbs base : Nat) (posOf : C03.ID → Nat)
    (hq : C03.Quiescent (readC03 U (handed dec H))) (hsize : 1 ≤ size) (hcap : 1 ≤ cap) (sl : C03.Sealed)
    (hseal : C03.sealFrac size size cap rbs base posOf (readC03 U (handed dec H)) = .ok sl) (fr to : Nat)
    (hb : ∀ l ∈ (readC03 U (handed dec H)).allDocs,
      fr ≤ (readC03 U (handed dec H)).mids.getD l 0 ∧ (readC03 U (handed dec H)).mids.getD l 0 ≤ to)
    (hz : ∀ l ∈ (readC03 U (handed dec H)).allDocs,
      (⟨(readC03 U (handed dec H)).mids.getD l 0, (readC03 U (handed dec H)).rids.getD l 0⟩ : Spec.ID) ≠ ⟨0, 0⟩)
    (hcov : ∀ m ∈ dec (WPath.enc b.2), Collector.allToken ∈ m.tokens.map Collector.MetaToken.bytes ∧
      ∀ tok ∈ m.tokens, Covers names U tok.bytes)
    (hin : sealedFrac names (readC03 U (handed dec H)) sl fr to ∈ fs) :
    Holds names from_ fs (dec (WPath.enc b.2)) :=
  .sealed (handed dec H) ((sys_i1_replayed dec hdec H hwf).1 b hbk) hd hs hfirst U size cap rbs base posOf hq hsize hcap sl
    hseal fr to hb hz hcov hin

/-- **I1 for a rotating store after crashes.**  The store serves any list `fs` of fractions; the one that took the
acknowledged bulk went through any crash/restart history and is now active or sealed: every meta of the bulk has a
stored document with its ID and tokens among the documents the store serves. -/
theorem sys_i1_rotated_crash (names : List Bytes) (from_ : Nat) (fs : List Merge.FracIdx)
    (dec : WPath.Bytes → List Collector.Meta) (b : WPath.Blk × WPath.Blk)
    (hh : Holds names from_ fs (dec (WPath.enc b.2))) (m : Collector.Meta) (hm : m ∈ dec (WPath.enc b.2)) :
    ∃ d ∈ storedDocs fs, d.id = ActiveReach.toID m.id ∧ ∀ tok ∈ m.tokens, ActiveReach.splitTok tok.bytes ∈ d.tokens :=
  sys_i1_mixed names from_ fs _ hh m hm

end SV.Sys
