import SeqVerif.Model.C03Tokens
/-!
# C03 proofs: token blocks and token table - `GetValByTID` returns the tid-th token in (field, value) order
-/
namespace SV.C03

/-- consecutive token blocks: non-empty, TIDs numbered consecutively from `cur` -/
def TChain : Nat → List TBlock → Prop
  | _, [] => True
  | cur, b :: r => b.startTID = cur ∧ b.tokens ≠ [] ∧ TChain (cur + b.tokens.length) r

def allTokens (blocks : List TBlock) : List Tok := blocks.flatMap (·.tokens)

theorem TChain_cons (cur : Nat) (b : TBlock) (r : List TBlock) :
    TChain cur (b :: r) ↔ b.startTID = cur ∧ b.tokens ≠ [] ∧ TChain (cur + b.tokens.length) r := Iff.rfl

theorem TChain_append (a b : List TBlock) : ∀ cur, TChain cur a → TChain (cur + (allTokens a).length) b → TChain cur (a ++ b) := by
  induction a with
  | nil => intro cur _ h; simpa [allTokens] using h
  | cons x xs ih =>
    intro cur ha hb
    rw [List.cons_append, TChain_cons]
    refine ⟨ha.1, ha.2.1, ih _ ha.2.2 ?_⟩
    simp only [allTokens, List.flatMap_cons, List.length_append] at hb
    simpa [allTokens, Nat.add_assoc] using hb

/-! ### generator -/

theorem tokenFieldLoop_spec (blockSize fld fieldSize : Nat) (hbs : 1 ≤ blockSize) :
    ∀ (fuel : Nat) (tids : List Tok) (first : Bool) (cur : Nat), tids.length ≤ fuel →
      ∃ blocks, tokenFieldLoop blockSize fld fieldSize fuel tids first cur = .ok (blocks, cur + tids.length) ∧
        TChain cur blocks ∧ allTokens blocks = tids := by
  intro fuel
  induction fuel with
  | zero =>
    intro tids first cur h
    have : tids = [] := List.length_eq_zero_iff.mp (by omega)
    subst this
    exact ⟨[], rfl, trivial, rfl⟩
  | succ fuel ih =>
    intro tids first cur h
    by_cases hnil : tids = []
    · subst hnil
      exact ⟨[], by simp [tokenFieldLoop], trivial, rfl⟩
    · have hpos : 0 < tids.length := List.length_pos_iff.mpr hnil
      simp only [tokenFieldLoop, hnil, if_false]
      generalize hr : min blockSize tids.length = right
      have hr1 : 1 ≤ right := by omega
      have hr2 : right ≤ tids.length := by omega
      have hr0 : ¬ (right = 0) := by omega
      simp only [hr0, if_false]
      obtain ⟨blocks, hb1, hb2, hb3⟩ := ih (tids.drop right) false (cur + right) (by simp; omega)
      rw [hb1]
      refine ⟨{ field := fld, isStart := first, totalSize := fieldSize, startTID := cur, tokens := tids.take right } :: blocks,
        ?_, (TChain_cons _ _ _).mpr ⟨rfl, ?_, ?_⟩, ?_⟩
      · simp only [List.length_drop]
        congr 2
        omega
      · intro h0
        have h3 : (tids.take right).length = 0 := by
          have h0' : tids.take right = [] := h0
          rw [h0']; rfl
        rw [List.length_take] at h3
        omega
      · simp only [List.length_take]
        rw [Nat.min_eq_left hr2]
        exact hb2
      · simp only [allTokens, List.flatMap_cons] at hb3 ⊢
        rw [hb3, List.take_append_drop]

theorem genTokenFields_spec (bs : Nat → Nat → Nat) (rbs : Nat) (hbs : ∀ n c, 1 ≤ bs n c) :
    ∀ (fields : List (List Tok)) (fld cur : Nat),
      ∃ blocks, genTokenFields bs rbs fields fld cur = .ok blocks ∧ TChain cur blocks ∧ allTokens blocks = fields.flatten := by
  intro fields
  induction fields with
  | nil => intro fld cur; exact ⟨[], rfl, trivial, rfl⟩
  | cons toks rest ih =>
    intro fld cur
    obtain ⟨b1, h1, h2, h3⟩ := tokenFieldLoop_spec (bs toks.length (fieldSizeOf toks / rbs + 1)) fld (fieldSizeOf toks) (hbs _ _)
      toks.length toks true cur (Nat.le_refl _)
    obtain ⟨b2, g1, g2, g3⟩ := ih (fld + 1) (cur + toks.length)
    refine ⟨b1 ++ b2, ?_, ?_, ?_⟩
    · simp only [genTokenFields, h1, g1]
    · apply TChain_append _ _ _ h2
      rw [h3]; exact g2
    · simp only [allTokens, List.flatMap_append, List.flatten_cons] at *
      rw [h3, g3]

/-- **the token block generator is total and partitions the sorted dictionary** when the block size rule never yields 0 -/
theorem genTokenBlocks_spec (bs : Nat → Nat → Nat) (rbs : Nat) (hbs : ∀ n c, 1 ≤ bs n c) (fields : List (List Tok)) :
    ∃ blocks, genTokenBlocks bs rbs fields = .ok blocks ∧ TChain 1 blocks ∧ allTokens blocks = fields.flatten :=
  genTokenFields_spec bs rbs hbs fields 0 1

theorem bsNew_pos (n c : Nat) : 1 ≤ bsNew n c := by unfold bsNew; omega

/-! ### writer -/

def TW.view (w : TW) : List (List Tok) := w.phys ++ [w.buf]

def covers (e : TEntry) (tid : Nat) : Prop := e.startTID ≤ tid ∧ tid < e.startTID + e.valCount

def content (base : Nat) (view : List (List Tok)) (e : TEntry) (tid : Nat) : Option Tok :=
  if e.blockIndex < base then none else
  match view[e.blockIndex - base]? with
  | none => none
  | some toks => toks[e.startIndex + tid - e.startTID]?

structure WInv (base cur0 : Nat) (done : List Tok) (w : TW) : Prop where
  idx : w.blockIndex = base + w.phys.length
  sidx : w.startIndex = w.buf.length
  empty : w.bufLen = 0 → w.buf = []
  sound : ∀ e, e ∈ w.entries → ∀ tid, covers e tid →
    cur0 ≤ tid ∧ tid < cur0 + done.length ∧ content base w.view e tid = done[tid - cur0]?
  complete : ∀ tid, cur0 ≤ tid → tid < cur0 + done.length → ∃ e, e ∈ w.entries ∧ covers e tid

theorem getElem?_append_some {α} (l m : List α) (i : Nat) (x : α) (h : l[i]? = some x) : (l ++ m)[i]? = some x := by
  have hi : i < l.length := by
    rcases Nat.lt_or_ge i l.length with h' | h'
    · exact h'
    · rw [List.getElem?_eq_none h'] at h; simp at h
  rw [List.getElem?_append_left hi]; exact h

/-- content that is defined stays the same when the view grows: new tokens appended to the last (pending) block,
or the pending block closed and a new empty one opened -/
theorem content_stable_buf (base : Nat) (phys : List (List Tok)) (buf new : List Tok) (e : TEntry) (tid : Nat) (x : Tok)
    (h : content base (phys ++ [buf]) e tid = some x) : content base (phys ++ [buf ++ new]) e tid = some x := by
  unfold content at h ⊢
  by_cases hb : e.blockIndex < base
  · simp [hb] at h
  · simp only [hb, if_false] at h ⊢
    rcases Nat.lt_trichotomy (e.blockIndex - base) phys.length with hlt | heq | hgt
    · rw [List.getElem?_append_left hlt] at h ⊢; exact h
    · rw [heq] at h ⊢
      simp only [List.getElem?_concat_length] at h ⊢
      exact getElem?_append_some _ _ _ _ h
    · rw [List.getElem?_eq_none (by simp; omega)] at h
      simp at h

theorem content_stable_flush (base : Nat) (phys : List (List Tok)) (buf : List Tok) (e : TEntry) (tid : Nat) (x : Tok)
    (h : content base (phys ++ [buf]) e tid = some x) : content base ((phys ++ [buf]) ++ [[]]) e tid = some x := by
  unfold content at h ⊢
  by_cases hb : e.blockIndex < base
  · simp [hb] at h
  · simp only [hb, if_false] at h ⊢
    cases hv : (phys ++ [buf])[e.blockIndex - base]? with
    | none => rw [hv] at h; simp at h
    | some toks =>
      rw [hv] at h
      rw [getElem?_append_some _ _ _ _ hv]
      exact h

theorem flush_inv (base cur0 : Nat) (done : List Tok) (w : TW) (h : WInv base cur0 done w) :
    WInv base cur0 done { w.flush with startIndex := 0 } ∧ ({ w.flush with startIndex := 0 } : TW).buf = [] ∧
    ({ w.flush with startIndex := 0 } : TW).bufLen = 0 ∧ ({ w.flush with startIndex := 0 } : TW).entries = w.entries := by
  unfold TW.flush
  by_cases h0 : w.bufLen = 0
  · have hb := h.empty h0
    rw [if_pos h0]
    refine ⟨⟨h.idx, by simp [hb], fun _ => hb, h.sound, h.complete⟩, hb, h0, rfl⟩
  · rw [if_neg h0]
    refine ⟨⟨by simp [h.idx]; omega, rfl, fun _ => rfl, ?_, h.complete⟩, rfl, rfl, rfl⟩
    intro e he tid hc
    obtain ⟨s1, s2, s3⟩ := h.sound e he tid hc
    refine ⟨s1, s2, ?_⟩
    have hlt : tid - cur0 < done.length := by omega
    rw [List.getElem?_eq_getElem hlt] at s3 ⊢
    exact content_stable_flush base w.phys w.buf e tid _ s3

theorem pack_inv (base cur0 : Nat) (done : List Tok) (w1 : TW) (toks : List Tok) (e : TEntry) (h1 : WInv base cur0 done w1)
    (he1 : e.startIndex = w1.startIndex) (he2 : e.startTID = cur0 + done.length) (he3 : e.blockIndex = w1.blockIndex)
    (he4 : e.valCount = toks.length) :
    WInv base cur0 (done ++ toks)
      { w1 with entries := w1.entries ++ [e], bufLen := w1.bufLen + packedLen toks, buf := w1.buf ++ toks,
                startIndex := w1.startIndex + toks.length } := by
  rw [h1.sidx] at he1
  rw [h1.idx] at he3
  refine ⟨h1.idx, by simp [h1.sidx], ?_, ?_, ?_⟩
  · intro h0
    simp only [packedLen] at h0
    omega
  · intro e' he' tid hc
    simp only [List.mem_append, List.mem_singleton] at he'
    simp only [TW.view]
    rcases he' with he' | rfl
    · obtain ⟨s1, s2, s3⟩ := h1.sound e' he' tid hc
      refine ⟨s1, by simp; omega, ?_⟩
      have hlt : tid - cur0 < done.length := by omega
      rw [List.getElem?_append_left hlt]
      rw [List.getElem?_eq_getElem hlt] at s3 ⊢
      exact content_stable_buf base w1.phys w1.buf toks e' tid _ s3
    · obtain ⟨c1, c2⟩ := hc
      rw [he2] at c1
      rw [he2, he4] at c2
      refine ⟨by omega, by simp; omega, ?_⟩
      unfold content
      have hnb : ¬ (e'.blockIndex < base) := by omega
      simp only [hnb, if_false, he3, Nat.add_sub_cancel_left, List.getElem?_concat_length, he1, he2]
      have hk1 : w1.buf.length + tid - (cur0 + done.length) = w1.buf.length + (tid - (cur0 + done.length)) := by omega
      have hk2 : tid - cur0 = done.length + (tid - (cur0 + done.length)) := by omega
      rw [hk1, hk2, List.getElem?_append_right (Nat.le_add_right _ _), List.getElem?_append_right (Nat.le_add_right _ _),
        Nat.add_sub_cancel_left, Nat.add_sub_cancel_left]
      have hnb2 : ¬ (base + w1.phys.length < base) := by omega
      simp only [hnb2, if_false]
  · intro tid t1 t2
    simp only [List.length_append] at t2
    by_cases hold : tid < cur0 + done.length
    · obtain ⟨e', he', hc⟩ := h1.complete tid t1 hold
      exact ⟨e', List.mem_append_left _ he', hc⟩
    · exact ⟨e, by simp, by unfold covers; omega⟩

theorem pushBlock_inv (rbs base cur0 : Nat) (done : List Tok) (w : TW) (b : TBlock) (h : WInv base cur0 done w)
    (hstart : b.startTID = cur0 + done.length) (_hne : b.tokens ≠ []) :
    WInv base cur0 (done ++ b.tokens) (pushBlock rbs w b) := by
  have hw1 : ∃ w1 : TW, (if b.isStart && decide (b.totalSize > rbs) then { w.flush with startIndex := 0 } else w) = w1 ∧
      WInv base cur0 done w1 := by
    by_cases hc : (b.isStart && decide (b.totalSize > rbs)) = true
    · exact ⟨_, by rw [if_pos hc], (flush_inv base cur0 done w h).1⟩
    · exact ⟨w, by rw [if_neg hc], h⟩
  obtain ⟨w1, hw1eq, h1⟩ := hw1
  unfold pushBlock
  simp only [hw1eq]
  split
  · exact (flush_inv base cur0 _ _ (pack_inv base cur0 done w1 b.tokens _ h1 rfl hstart rfl rfl)).1
  · exact pack_inv base cur0 done w1 b.tokens _ h1 rfl hstart rfl rfl

theorem writeFold_inv (rbs base : Nat) :
    ∀ (blocks : List TBlock) (cur0 : Nat) (done : List Tok) (w : TW), WInv base cur0 done w → TChain (cur0 + done.length) blocks →
      WInv base cur0 (done ++ allTokens blocks) (blocks.foldl (pushBlock rbs) w) := by
  intro blocks
  induction blocks with
  | nil => intro cur0 done w h _; simpa [allTokens] using h
  | cons b rest ih =>
    intro cur0 done w h hc
    have h1 := pushBlock_inv rbs base cur0 done w b h hc.1 hc.2.1
    have := ih cur0 (done ++ b.tokens) (pushBlock rbs w b) h1 (by simpa [Nat.add_assoc] using hc.2.2)
    simpa [allTokens, List.foldl_cons] using this

theorem init_WInv (base cur0 : Nat) : WInv base cur0 [] (TW.init base) :=
  ⟨rfl, rfl, fun _ => rfl, by intro e he; simp [TW.init] at he, by intro tid h1 h2; simp at h2; omega⟩

/-- **`GetValByTID` over the written token blocks and table returns the tid-th token of the dictionary** -/
theorem getValByTID_spec (rbs base : Nat) (blocks : List TBlock) (hc : TChain 1 blocks) (tid : Nat)
    (h1 : 1 ≤ tid) (h2 : tid ≤ (allTokens blocks).length) :
    getValByTID base (writeTokens rbs base blocks) tid = (allTokens blocks)[tid - 1]? := by
  have hinv := writeFold_inv rbs base blocks 1 [] (TW.init base) (init_WInv base 1) (by simpa using hc)
  simp only [List.nil_append] at hinv
  obtain ⟨hf, -, -, hent⟩ := flush_inv base 1 _ _ hinv
  generalize hw : blocks.foldl (pushBlock rbs) (TW.init base) = w at *
  have hwt : writeTokens rbs base blocks = w.flush := by simp [writeTokens, hw]
  -- the entry found
  obtain ⟨e0, he0, hc0⟩ := hinv.complete tid h1 (by omega)
  unfold getValByTID entryByTID
  have htid : ¬ (tid = 0) := by omega
  simp only [htid, if_false, hwt]
  have hentries : w.flush.entries = w.entries := by
    unfold TW.flush; split <;> rfl
  rw [hentries]
  have hfind : ∃ e, w.entries.find? (fun e => decide (e.startTID ≤ tid) && decide (tid < e.startTID + e.valCount)) = some e ∧
      e ∈ w.entries ∧ covers e tid := by
    cases hfe : w.entries.find? (fun e => decide (e.startTID ≤ tid) && decide (tid < e.startTID + e.valCount)) with
    | none =>
      have := List.find?_eq_none.mp hfe e0 he0
      simp [covers] at hc0 this
      omega
    | some e =>
      have hp := List.find?_some hfe
      have hm := List.mem_of_find?_eq_some hfe
      simp at hp
      exact ⟨e, rfl, hm, hp⟩
  obtain ⟨e, hfe, hem, hce⟩ := hfind
  rw [hfe]
  simp only
  obtain ⟨-, -, s3⟩ := hinv.sound e hem tid hce
  have hlt : tid - 1 < (allTokens blocks).length := by omega
  rw [List.getElem?_eq_getElem hlt] at s3 ⊢
  -- relate the final flushed blocks to the view
  unfold content at s3
  by_cases hb : e.blockIndex < base
  · simp [hb] at s3
  · simp only [hb, if_false] at s3 ⊢
    have hphys : ∀ toks, w.view[e.blockIndex - base]? = some toks → toks ≠ [] → w.flush.phys[e.blockIndex - base]? = some toks := by
      intro toks hv hne
      unfold TW.flush
      by_cases h0 : w.bufLen = 0
      · simp only [h0, if_true]
        have hbuf := hinv.empty h0
        simp only [TW.view, hbuf] at hv
        rcases Nat.lt_or_ge (e.blockIndex - base) w.phys.length with hlt | hge
        · rw [List.getElem?_append_left hlt] at hv; exact hv
        · rcases Nat.eq_or_lt_of_le hge with heq | hgt
          · rw [← heq] at hv; simp at hv; exact absurd hv hne
          · rw [List.getElem?_eq_none (by simp; omega)] at hv; simp at hv
      · simp only [h0, if_false]
        exact hv
    cases hv : w.view[e.blockIndex - base]? with
    | none => rw [hv] at s3; simp at s3
    | some toks =>
      rw [hv] at s3
      simp only at s3
      have hne : toks ≠ [] := by
        intro h0; rw [h0] at s3; simp at s3
      rw [hphys toks hv hne]
      exact s3

end SV.C03
