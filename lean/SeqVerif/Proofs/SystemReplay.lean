import SeqVerif.Proofs.SystemSealed
/-!
# Whole pipeline, gaps (2)-(4) of I1: crash / restart, "only ingested", re-deliveries (`sys_*`)

(2) After ANY history of bulks, crashes at any byte of either file write and restarts (C01's alphabet) the fraction the
index worker holds is `fracOfEntries dec idx` = C17's `run` over the blocks `Replay` hands it (`Model/C17Compose.lean`),
i.e. a *reached* state in the sense of `sys_i1_active`; C01 (`inv_present`) puts the meta block of every acknowledged bulk
among those blocks.  Hence I1 holds after any crash history (`sys_i1_replayed`).
(3) Conversely every block among them is the meta block of a bulk that was attempted and reached the disk completely
(`inv_paired`), and the append pipeline keeps only metas of the bulks it is handed: every stored document carries the ID
of a meta of an attempted bulk (`sys_only_ingested`).
(4) A re-delivered document: the pipeline keeps the first delivery of its ID; when re-deliveries carry the same tokens
the stored document carries them (`sys_i1_redelivered`), so `hfirst` is not needed.
**Restriction:** every theorem here that takes `DistinctBulks` / `NonEmptyDocs` covers bulks WITHOUT nested metas only
(`cons_sys_hd_hs_false_for_nested_witness`, Consistency/SysHyps.lean; see the header of Proofs/SystemClosed.lean).
-/
namespace SV.Sys
open SV SV.Spec SV.ProxyE2E

/-- the bulks of metas the index worker was handed, after the write-path history `H`: every entry of the index,
decoded (`dec` = decompression + record loop of the meta block) -/
def handed (dec : WPath.Bytes → List Collector.Meta) (H : List WPath.Ev) : List (List Collector.Meta) :=
  (WPath.run true WPath.init H).idx.map fun e => dec e.blk

/-- the decoder does not look at the two `ext` header fields (`SetExt1/SetExt2` stamp the docs length and offset) -/
def ExtBlind (dec : WPath.Bytes → List Collector.Meta) : Prop :=
  ∀ b b', WPath.stampMeta b 0 0 = WPath.stampMeta b' 0 0 → dec b = dec b'

/-- any decoder that reads the block with the two `ext` fields cleared is `ExtBlind` (the real one reads only the payload) -/
example (g : WPath.Bytes → List Collector.Meta) : ExtBlind (fun b => g (WPath.stampMeta b 0 0)) :=
  fun _ _ h => by simp only [h]

/-- the fraction held after the history is the pipeline's state over the handed bulks (definitional: C17Compose) -/
theorem sys_replayed_is_reached (dec : WPath.Bytes → List Collector.Meta) (H : List WPath.Ev) :
    C17Compose.fracOfEntries dec (WPath.run true WPath.init H).idx = Collector.run Collector.Active.empty (handed dec H) :=
  rfl

/-- **sys_i1_replayed (C01 -> C17).**  After any history - bulks, crashes at any byte of either write, restarts - the
meta block of every acknowledged bulk, decoded, is among the bulks the index worker was handed; and a restart anywhere
in the history does not change what it is handed. -/
theorem sys_i1_replayed (dec : WPath.Bytes → List Collector.Meta) (hdec : ExtBlind dec) (H : List WPath.Ev)
    (hwf : ∀ e ∈ H, e.WF) :
    (∀ b ∈ WPath.ackedOf H, dec (WPath.enc b.2) ∈ handed dec H) ∧
    ∀ H1 H2, H = H1 ++ H2 → handed dec (H1 ++ .restart :: H2) = handed dec H := by
  constructor
  · intro b hb
    have hinv := WPath.run_fixed H WPath.init [] WPath.inv_init hwf
    simp only [List.nil_append] at hinv
    have hp := WPath.inv_present _ _ _ _ hinv b.1 b.2 (WPath.ackedOf_sub_completeOf H b hb)
    simp only [WPath.present, List.any_eq_true, Bool.and_eq_true, decide_eq_true_eq] at hp
    obtain ⟨e, he, h1, _⟩ := hp
    exact List.mem_map.mpr ⟨e, he, hdec _ _ h1⟩
  · intro H1 H2 hH
    subst hH
    unfold handed
    rw [C17Compose.restart_same_store H1 H2 (fun e he => hwf e (List.mem_append_left _ he))]

/-- **I1 after a crash history.**  A store whose write path went through `H` and whose index worker holds the fraction
rebuilt from it serves, for every meta of every acknowledged bulk that is a first delivery, a document with its ID and
tokens, in a fraction index that is well formed for C02/C05 - `sys_i1_active` at the handed bulks. -/
theorem sys_i1_replayed_active (dec : WPath.Bytes → List Collector.Meta) (hdec : ExtBlind dec) (H : List WPath.Ev)
    (hwf : ∀ e ∈ H, e.WF) (hd : Collector.DistinctBulks (handed dec H)) (hs : Collector.NonEmptyDocs (handed dec H))
    (hg : ActiveReach.GoodIDs (handed dec H)) (from_ : Nat) (b : WPath.Blk × WPath.Blk) (hb : b ∈ WPath.ackedOf H) :
    (activeFrac (reached (handed dec H))).OK from_ ∧ dec (WPath.enc b.2) ∈ handed dec H ∧
    ∀ m ∈ dec (WPath.enc b.2), m ∈ ActiveReach.keptRun Collector.Active.empty (handed dec H) →
      ∃ d ∈ storedDocs [activeFrac (reached (handed dec H))], d.id = ActiveReach.toID m.id ∧
        ∀ tok ∈ m.tokens, ActiveReach.splitTok tok.bytes ∈ d.tokens := by
  obtain ⟨hok, hdocs⟩ := sys_i1_active (handed dec H) hd hs hg from_
  exact ⟨hok, (sys_i1_replayed dec hdec H hwf).1 b hb, fun m _ hk => hdocs m hk⟩

/-! ## (3) only what was ingested -/

theorem sys_keptRun_sub (a : Collector.Active) (h : List (List Collector.Meta)) :
    ∀ m ∈ ActiveReach.keptRun a h, ∃ b ∈ h, m ∈ b := by
  induction h generalizing a with
  | nil => intro m hm; simp [ActiveReach.keptRun] at hm
  | cons b h ih =>
    intro m hm
    simp only [ActiveReach.keptRun, List.mem_append] at hm
    rcases hm with hm | hm
    · exact ⟨b, by simp, (List.mem_filter.mp hm).1⟩
    · obtain ⟨b', hb', hmb⟩ := ih _ m hm
      exact ⟨b', List.mem_cons_of_mem _ hb', hmb⟩

/-- **sys_only_ingested.**  After any crash history every document the store serves (active fraction rebuilt from the
history) carries the ID of a meta of a bulk that was attempted in that history and whose two blocks reached the disk
completely, and each of its tokens is a token of such a meta with that ID (`c01_unacked_atomic` lifted to `Spec.Doc`). -/
theorem sys_only_ingested (dec : WPath.Bytes → List Collector.Meta) (hdec : ExtBlind dec) (H : List WPath.Ev)
    (hwf : ∀ e ∈ H, e.WF) (hd : Collector.DistinctBulks (handed dec H)) (hs : Collector.NonEmptyDocs (handed dec H))
    (hg : ActiveReach.GoodIDs (handed dec H)) :
    ∀ d ∈ storedDocs [activeFrac (reached (handed dec H))],
      ∃ dm ∈ WPath.completeOf H, dm ∈ WPath.attemptedOf H ∧ ∃ m ∈ dec (WPath.enc dm.2),
        d.id = ActiveReach.toID m.id ∧ ∀ fv ∈ d.tokens, ∃ tok ∈ m.tokens, ActiveReach.splitTok tok.bytes = fv := by
  intro d hdIn
  have hawf := ActiveReach.reachable_awf (handed dec H) hd hs hg
  simp only [storedDocs, List.flatMap_cons, List.flatMap_nil, List.append_nil, activeFrac] at hdIn
  have hArr := (ActiveIndex.docsOf_toIndex_perm (reached (handed dec H)) hawf).mem_iff.mp hdIn
  obtain ⟨hids, htoks⟩ := ActiveReach.reachable_docs (handed dec H) hd hs
  unfold ActiveIndex.arrivalDocs at hArr
  obtain ⟨v, hv, rfl⟩ := List.mem_map.mp hArr
  rw [List.mem_range'_1] at hv
  have hlen : (reached (handed dec H)).ids.length - 1 =
      (ActiveReach.keptRun Collector.Active.empty (handed dec H)).length := by
    have := congrArg List.length hids
    simpa [ActiveIndex.arrivalDocs] using this
  obtain ⟨i, rfl⟩ : ∃ i, v = 1 + i := ⟨v - 1, by omega⟩
  have hi : i < (ActiveReach.keptRun Collector.Active.empty (handed dec H)).length := by omega
  -- the kept meta, its bulk, the entry, the complete bulk
  have hk : (ActiveReach.keptRun Collector.Active.empty (handed dec H))[i] ∈
      ActiveReach.keptRun Collector.Active.empty (handed dec H) := List.getElem_mem hi
  obtain ⟨bulk, hbulk, hmb⟩ := sys_keptRun_sub _ _ _ hk
  obtain ⟨e, he, rfl⟩ := List.mem_map.mp hbulk
  have hinv := WPath.run_fixed H WPath.init [] WPath.inv_init hwf
  simp only [List.nil_append] at hinv
  obtain ⟨dd, mm, hcomp, hst, _⟩ := WPath.inv_paired _ _ _ _ hinv e he
  refine ⟨(dd, mm), hcomp, WPath.completeOf_sub_attemptedOf H _ hcomp, _, by rw [← hdec _ _ hst]; exact hmb, ?_, ?_⟩
  · have h1 : ((ActiveIndex.arrivalDocs (reached (handed dec H))).map (·.id))[i]? =
        ((ActiveReach.keptRun Collector.Active.empty (handed dec H)).map fun m => ActiveReach.toID m.id)[i]? := by
      rw [show (ActiveIndex.arrivalDocs (reached (handed dec H))).map (·.id) = _ from hids]
    have h2 : (ActiveIndex.arrivalDocs (reached (handed dec H)))[i]? =
        some (ActiveIndex.arrivalDoc (reached (handed dec H)) (1 + i)) := by
      unfold ActiveIndex.arrivalDocs
      rw [List.getElem?_map, List.getElem?_range' (by omega)]
      simp
    simp only [List.getElem?_map, h2, List.getElem?_eq_getElem hi, Option.map_some, Option.some.injEq] at h1
    exact h1
  · intro fv hfv
    exact (htoks i hi fv).mp hfv

/-! ## (4) re-deliveries -/

/-- every delivered ID is held by the fraction, by a kept meta that was delivered in some bulk -/
theorem sys_kept_of_delivered (h : List (List Collector.Meta)) (hd : Collector.DistinctBulks h) (hs : Collector.NonEmptyDocs h)
    (B : List Collector.Meta) (hB : B ∈ h) (m : Collector.Meta) (hm : m ∈ B) :
    ∃ k ∈ ActiveReach.keptRun Collector.Active.empty h, k.id = m.id ∧ ∃ b ∈ h, k ∈ b := by
  obtain ⟨hids, _⟩ := ActiveReach.run_spec Collector.Active.empty h Collector.ainv_empty hd hs
  obtain ⟨_, hmem⟩ := Collector.run_inv Collector.Active.empty h Collector.ainv_empty hd hs
  have hin : m.id ∈ Collector.docIds (Collector.run Collector.Active.empty h) := by
    rw [hmem]
    right
    exact List.mem_flatMap.mpr ⟨B, hB, List.mem_map_of_mem hm⟩
  have : Collector.docIds (Collector.run Collector.Active.empty h) =
      (ActiveReach.keptRun Collector.Active.empty h).map (·.id) := by
    unfold Collector.docIds
    rw [hids]
    simp [Collector.Active.empty]
  rw [this] at hin
  obtain ⟨k, hk, hkid⟩ := List.mem_map.mp hin
  exact ⟨k, hk, hkid, sys_keptRun_sub _ _ k hk⟩

/-- **sys_i1_redelivered - `hfirst` removed.**  For ANY meta `m` of ANY bulk handed to the pipeline (first delivery or
not): when every delivery of `m`'s ID in the history carries `m`'s tokens (a re-delivered document is the same document
- `c17_idempotent`: repeats change nothing), the active fraction serves a document with `m`'s ID and `m`'s tokens. -/
theorem sys_i1_redelivered (h : List (List Collector.Meta)) (hd : Collector.DistinctBulks h) (hs : Collector.NonEmptyDocs h)
    (hg : ActiveReach.GoodIDs h) (from_ : Nat) (B : List Collector.Meta) (hB : B ∈ h) (m : Collector.Meta) (hm : m ∈ B)
    (hsame : ∀ b ∈ h, ∀ m' ∈ b, m'.id = m.id → m'.tokens = m.tokens) :
    ∃ d ∈ storedDocs [activeFrac (reached h)], d.id = ActiveReach.toID m.id ∧
      ∀ tok ∈ m.tokens, ActiveReach.splitTok tok.bytes ∈ d.tokens := by
  obtain ⟨k, hk, hkid, b, hb, hkb⟩ := sys_kept_of_delivered h hd hs B hB m hm
  obtain ⟨d, hdIn, hdid, hdtok⟩ := (sys_i1_active h hd hs hg from_).2 k hk
  refine ⟨d, hdIn, by rw [hdid, hkid], ?_⟩
  intro tok htok
  exact hdtok tok (by rw [hsame b hb k hkb hkid]; exact htok)

/-! ## the chain over crash histories and re-deliveries -/

open SV.ProxySearch SV.ProxyCompose in
/-- **sys_ingest_to_read_crash.**  Every shard's store went through its own write-path history `Hst s` - bulks, crashes
at any byte of either file write, restarts (C01's alphabet) - and serves the active fraction its index worker rebuilt
(`handed dec (Hst s)`).  Junction **J'** (the store's `Bulk` handler: a successful call is an acknowledged `Active.Append`
of the payload's two blocks, not modelled): for the shard ALL of whose replicas returned success
(C09's full set; the per-success form is false for R >= 2 - Consistency/SysJunction.lean) the serving store's history has
the payload as an acknowledged bulk `blk`, and the shard is one that is read.  Re-deliveries of an ID carry the same tokens.
Then for every meta of the payload (first delivery or not, crash or not) and every token `field:value` of it with the MID
inside the window: the query `field:value` is answered completely and unflagged, the meta's ID is in the ordered list
(in the page when the page covers it), and every returned ID belongs to a stored matching document - which in turn
(`sys_only_ingested`) carries the ID of a meta of a bulk that was attempted and reached the disk completely. -/
theorem sys_ingest_to_read_crash (dec : WPath.Bytes → List Collector.Meta) (hdec : ExtBlind dec)
    (c : Merge.Cfg) (f v : Bytes) (from_ to_ : Nat) (hot : List (List Call))
    (hotArr coldArr : List (Nat × ShardRes)) (hh : hotArr.Perm (indexed 0 (hot.map searchShard)))
    (offset size : Nat) (hlim : limitWraps offset size = false) (rev : Bool) (hdesc : c.desc = !rev)
    (Hst : Nat → List WPath.Ev) (hwf : ∀ s, ∀ e ∈ Hst s, e.WF)
    (hd : ∀ s, Collector.DistinctBulks (handed dec (Hst s))) (hs : ∀ s, Collector.NonEmptyDocs (handed dec (Hst s)))
    (hg : ∀ s, ActiveReach.GoodIDs (handed dec (Hst s)))
    (hmax : ∀ s, c.maxHits = 0 ∨ (Merge.filterInRange
      (storeFracs [activeFrac (reached (handed dec (Hst s)))] (.leaf (.lit f [.text v])) from_ to_) from_ to_).length ≤ c.maxHits)
    (hne : hot ≠ []) (hall : ∀ calls ∈ hot, (searchShard calls).isOk = true)
    (hans : ∀ s calls rep ids t e, hot[s]? = some calls → searchShard calls = .ok rep ids t e →
      (∀ i ∈ ids, i.2 < Merge.R) ∧
      ∃ r, Merge.searchDocs c (storeFracs [activeFrac (reached (handed dec (Hst s)))] (.leaf (.lit f [.text v])) from_ to_)
        from_ to_ (offset + size) = some r ∧ r.ids = ids.map keyOf)
    (coldT hotT : Replica.Tier) (oracle : List (List (Nat × Replica.Call) × List (Nat × Replica.Call)))
    (hack : (Replica.storeDocuments coldT hotT oracle Replica.init).1 = true) (hS : hotT.S ≠ 0)
    (blk : WPath.Blk × WPath.Blk)
    (J' : ∀ s, (∀ r, r < hotT.R → (s, r) ∈ (Replica.storeDocuments coldT hotT oracle Replica.init).2.hotLog) →
      s < hot.length ∧ blk ∈ WPath.ackedOf (Hst s))
    (m : Collector.Meta) (hm : m ∈ dec (WPath.enc blk.2))
    (hsame : ∀ s, ∀ b ∈ handed dec (Hst s), ∀ m' ∈ b, m'.id = m.id → m'.tokens = m.tokens)
    (tok : Collector.MetaToken) (htok : tok ∈ m.tokens)
    (hfv : ActiveReach.splitTok tok.bytes = (f, v)) (hwin : from_ ≤ m.id.1 ∧ m.id.1 ≤ to_) :
    ∃ ids t e, search hotArr coldArr offset size rev = .ok ids t e false false ∧
      ActiveReach.toID m.id ∈ fullList (allDocs hot.length fun s => [activeFrac (reached (handed dec (Hst s)))])
        (.leaf (.lit f [.text v])) from_ to_ rev ∧
      (offset = 0 → (fullList (allDocs hot.length fun s => [activeFrac (reached (handed dec (Hst s)))])
          (.leaf (.lit f [.text v])) from_ to_ rev).length ≤ size → ∃ x ∈ ids, toSpecID x.1 = ActiveReach.toID m.id) ∧
      (∀ x ∈ ids, ∃ d ∈ allDocs hot.length (fun s => [activeFrac (reached (handed dec (Hst s)))]),
        d.id = toSpecID x.1 ∧ inWindow from_ to_ d = true ∧ docMatches (.leaf (.lit f [.text v])) d = true) := by
  have hok : ∀ s, ∀ fr ∈ (fun s => [activeFrac (reached (handed dec (Hst s)))]) s, fr.OK from_ := by
    intro s fr hfr
    simp only [List.mem_singleton] at hfr
    subst hfr
    exact (sys_i1_active _ (hd s) (hs s) (hg s) from_).1
  apply sys_served_found c f v from_ to_ hot hotArr coldArr hh offset size hlim rev hdesc
    (fun s => [activeFrac (reached (handed dec (Hst s)))]) hok hmax hne hall hans coldT hotT oracle hack hS
    (ActiveReach.toID m.id) hwin
  intro s hsr
  obtain ⟨hlt, hacked⟩ := J' s hsr
  have hB := (sys_i1_replayed dec hdec (Hst s) (hwf s)).1 blk hacked
  obtain ⟨d, hdIn, hdid, hdtok⟩ := sys_i1_redelivered _ (hd s) (hs s) (hg s) from_ _ hB m hm (hsame s)
  exact ⟨hlt, d, hdIn, hdid, by rw [← hfv]; exact hdtok tok htok⟩

end SV.Sys
