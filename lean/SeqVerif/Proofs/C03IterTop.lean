import SeqVerif.Proofs.C03Iter
/-!
# C03 proofs, part 3: `GetFirst/LastBlockIndexForTID` + iterators on any well-formed block list
-/
namespace SV.C03

theorem getD_map_idx {α} (g : Block → α) (d : α) (bs : List Block) (k : Nat) (hk : k < bs.length) :
    (bs.map g).getD k d = g bs[k] := by
  simp [List.getD, List.getElem?_eq_getElem, hk]

theorem split_at (bs : List Block) (i : Nat) (hi : i < bs.length) :
    bs = bs.take i ++ bs[i] :: bs.drop (i + 1) ∧ (bs.take i).length = i := by
  refine ⟨?_, by simp; omega⟩
  rw [List.getElem_cons_drop]; simp

theorem mem_take_idx (bs : List Block) (i : Nat) (x : Block) (hx : x ∈ bs.take i) :
    ∃ k, ∃ (_ : k < i) (hk : k < bs.length), bs[k] = x := by
  rcases List.getElem_of_mem hx with ⟨k, hk, hxk⟩
  have hk' : k < i ∧ k < bs.length := by simp [List.length_take] at hk; omega
  refine ⟨k, hk'.1, hk'.2, ?_⟩
  rw [← hxk, List.getElem_take]

theorem mem_drop_idx (bs : List Block) (i : Nat) (x : Block) (hx : x ∈ bs.drop i) :
    ∃ k, ∃ (_ : i ≤ k) (hk : k < bs.length), bs[k] = x := by
  rcases List.getElem_of_mem hx with ⟨k, hk, hxk⟩
  have hk' : i + k < bs.length := by simp [List.length_drop] at hk; omega
  refine ⟨i + k, by omega, hk', ?_⟩
  rw [← hxk, List.getElem_drop]

theorem chunksOf_append (tid : Nat) (l1 l2 : List Block) : chunksOf tid (l1 ++ l2) = chunksOf tid l1 ++ chunksOf tid l2 := by
  simp [chunksOf, List.filterMap_append]

theorem postOf_append (tid : Nat) (l1 l2 : List Block) : postOf tid (l1 ++ l2) = postOf tid l1 ++ postOf tid l2 := by
  simp [postOf, chunksOf_append]

theorem chunksOf_none_of_adj_all (tid : Nat) (bs : List Block) (h : ∀ x, x ∈ bs → tid < x.adj) : chunksOf tid bs = [] := by
  unfold chunksOf
  rw [List.filterMap_eq_nil_iff]
  intro x hx
  have := h x hx
  simp only [chunkOf]
  have : ¬ (x.adj ≤ tid ∧ tid ≤ x.maxTID) := by omega
  simp [this]

theorem WF.sub_left {l1 l2 : List Block} (h : WF (l1 ++ l2)) : WF l1 :=
  ⟨fun x hx => h.1 x (List.mem_append_left _ hx), Linked.append_left l1 h.2⟩

theorem WF.sub_right {l1 l2 : List Block} (h : WF (l1 ++ l2)) : WF l2 :=
  ⟨fun x hx => h.1 x (List.mem_append_right _ hx), Linked.append_right l1 h.2⟩

/-- **IteratorDesc on any well-formed block list** -/
theorem iterDesc_spec (bs : List Block) (tid minL maxL : Nat) (hwf : WF bs)
    (hex : ∃ c, c ∈ bs ∧ c.adj ≤ tid ∧ tid ≤ c.maxTID) (hs : Sorted (postOf tid bs)) :
    iterDesc bs (tableOf bs) tid minL maxL = .ok ((postOf tid bs).filter (inWin minL maxL)) := by
  obtain ⟨c, hc, hc1, hc2⟩ := hex
  obtain ⟨j, hj, hcj⟩ := List.getElem_of_mem hc
  have hn : bs.length ≠ 0 := by omega
  let f : Nat → Bool := fun i => decide ((tableOf bs).maxTIDs.getD i 0 ≥ tid)
  have hfk : ∀ k (hk : k < bs.length), f k = decide (bs[k].maxTID ≥ tid) := by
    intro k hk
    simp only [f, tableOf, getD_map_idx (·.maxTID) 0 bs k hk]
  have hmono : Mono f 0 bs.length := by
    intro a b _ hab hb ha
    rw [hfk a (by omega)] at ha
    rw [hfk b hb]
    have := sorted_getD_le _ (maxTIDs_sorted bs hwf) a b hab (by simpa using hb)
    rw [getD_map_idx (·.maxTID) 0 bs a (by omega), getD_map_idx (·.maxTID) 0 bs b hb] at this
    simp at ha ⊢; omega
  have hbnd := searchGo_bounds f 0 bs.length (by omega)
  have hsp := searchGo_spec f 0 bs.length hmono 0 bs.length (by omega) (by omega) (by omega)
    (by intro k _ hk; omega) (by intro k h1 h2; omega)
  have hfj : f j = true := by rw [hfk j hj, hcj]; simp; omega
  have hi0j : searchGo f 0 bs.length ≤ j := by
    rcases Nat.lt_or_ge j (searchGo f 0 bs.length) with h | h
    · have := hsp.1 j (by omega) h; rw [hfj] at this; simp at this
    · exact h
  have hi0 : searchGo f 0 bs.length < bs.length := by omega
  generalize hgi : searchGo f 0 bs.length = i0 at *
  obtain ⟨hsplit, hlen⟩ := split_at bs i0 hi0
  have hmaxb : tid ≤ bs[i0].maxTID := by
    have := hsp.2 i0 (by omega) hi0
    rw [hfk i0 hi0] at this; simpa using this
  have hadjb : bs[i0].adj ≤ tid := by
    have := sorted_getD_le _ (adjs_sorted bs hwf) i0 j hi0j (by simpa using hj)
    rw [getD_map_idx (·.adj) 0 bs i0 hi0, getD_map_idx (·.adj) 0 bs j hj, hcj] at this
    omega
  have hpre : ∀ x, x ∈ bs.take i0 → x.maxTID < tid := by
    intro x hx
    obtain ⟨k, hk1, hk2, hxk⟩ := mem_take_idx bs i0 x hx
    have := hsp.1 k (by omega) hk1
    rw [hfk k hk2, hxk] at this
    simpa using this
  have hpost : postOf tid bs = postOf tid (bs[i0] :: bs.drop (i0 + 1)) := by
    conv => lhs; rw [hsplit]
    rw [postOf_append]
    simp [postOf, chunksOf_none_of_max_lt tid _ hpre]
  have hwf2 : WF (bs[i0] :: bs.drop (i0 + 1)) := by
    have : WF (bs.take i0 ++ bs[i0] :: bs.drop (i0 + 1)) := by rw [← hsplit]; exact hwf
    exact this.sub_right
  unfold iterDesc Table.firstBlock
  have hlenT : (tableOf bs).maxTIDs.length = bs.length := by simp [tableOf]
  simp only [hlenT, hn, if_false]
  change (match (if searchGo f 0 bs.length = bs.length then none else some (searchGo f 0 bs.length)) with
    | none => _ | some bi => _) = _
  rw [hgi]
  have : ¬ (i0 = bs.length) := by omega
  simp only [this, if_false]
  rw [hpost] at hs ⊢
  have := descLoop_spec bs tid minL maxL (bs.drop (i0 + 1)) (bs.take i0) bs[i0] hsplit hwf2.1 hwf2.2 hadjb hmaxb hs
    (bs.length + 1) (by simp)
  rw [hlen] at this
  exact this

/-- **IteratorAsc on any well-formed block list** -/
theorem iterAsc_spec (bs : List Block) (tid minL maxL : Nat) (hwf : WF bs)
    (hex : ∃ c, c ∈ bs ∧ c.adj ≤ tid ∧ tid ≤ c.maxTID) (hs : Sorted (postOf tid bs)) :
    iterAsc bs (tableOf bs) tid minL maxL = .ok ((postOf tid bs).filter (inWin minL maxL)).reverse := by
  obtain ⟨c, hc, hc1, hc2⟩ := hex
  obtain ⟨j, hj, hcj⟩ := List.getElem_of_mem hc
  have hn : bs.length ≠ 0 := by omega
  let f : Nat → Bool := fun i => decide ((tableOf bs).adjMin i > tid)
  have hfk : ∀ k (hk : k < bs.length), f k = decide (bs[k].adj > tid) := by
    intro k hk
    simp only [f, (table_adj_idx bs k hk).1, getD_map_idx (·.adj) 0 bs k hk]
  have hmono : Mono f 0 bs.length := by
    intro a b _ hab hb ha
    rw [hfk a (by omega)] at ha
    rw [hfk b hb]
    have := sorted_getD_le _ (adjs_sorted bs hwf) a b hab (by simpa using hb)
    rw [getD_map_idx (·.adj) 0 bs a (by omega), getD_map_idx (·.adj) 0 bs b hb] at this
    simp at ha ⊢; omega
  have hbnd := searchGo_bounds f 0 bs.length (by omega)
  have hsp := searchGo_spec f 0 bs.length hmono 0 bs.length (by omega) (by omega) (by omega)
    (by intro k _ hk; omega) (by intro k h1 h2; omega)
  have hfj : f j = false := by rw [hfk j hj, hcj]; simp; omega
  have hjs : j < searchGo f 0 bs.length := by
    rcases Nat.lt_or_ge j (searchGo f 0 bs.length) with h | h
    · exact h
    · have := hsp.2 j h hj; rw [hfj] at this; simp at this
  generalize hgi : searchGo f 0 bs.length = s at *
  have hi : s - 1 < bs.length := by omega
  obtain ⟨hsplit, hlen⟩ := split_at bs (s - 1) hi
  have hadjb : bs[s - 1].adj ≤ tid := by
    have := hsp.1 (s - 1) (by omega) (by omega)
    rw [hfk (s - 1) hi] at this; simpa using this
  have hmaxb : tid ≤ bs[s - 1].maxTID := by
    have := sorted_getD_le _ (maxTIDs_sorted bs hwf) j (s - 1) (by omega) (by simpa using hi)
    rw [getD_map_idx (·.maxTID) 0 bs j hj, getD_map_idx (·.maxTID) 0 bs (s - 1) hi, hcj] at this
    omega
  have hs1 : s - 1 + 1 = s := by omega
  rw [hs1] at hsplit
  have hpostblocks : ∀ x, x ∈ bs.drop s → tid < x.adj := by
    intro x hx
    obtain ⟨k, hk1, hk2, hxk⟩ := mem_drop_idx bs s x hx
    have := hsp.2 k hk1 hk2
    rw [hfk k hk2, hxk] at this
    simpa using this
  have hsplit2 : bs = (bs.take (s - 1) ++ [bs[s - 1]]) ++ bs.drop s := by
    rw [List.append_assoc, List.singleton_append]; exact hsplit
  have hpost : postOf tid bs = postOf tid (bs.take (s - 1) ++ [bs[s - 1]]) := by
    conv => lhs; rw [hsplit2]
    rw [postOf_append]
    simp [postOf, chunksOf_none_of_adj_all tid _ hpostblocks]
  have hwf2 : WF (bs.take (s - 1) ++ [bs[s - 1]]) := by
    have : WF ((bs.take (s - 1) ++ [bs[s - 1]]) ++ bs.drop s) := by rw [← hsplit2]; exact hwf
    exact this.sub_left
  unfold iterAsc Table.lastBlock
  have hlenT : (tableOf bs).maxTIDs.length = bs.length := by simp [tableOf]
  have hlenM : (tableOf bs).minTIDs.length = bs.length := by simp [tableOf]
  simp only [hlenT, hlenM, hn, if_false]
  change (match (if searchGo f 0 bs.length = 0 then none else
      if tid > (tableOf bs).maxTIDs.getD (searchGo f 0 bs.length - 1) 0 then none else some (searchGo f 0 bs.length - 1)) with
    | none => _ | some bi => _) = _
  rw [hgi]
  have h0 : ¬ (s = 0) := by omega
  have hmx : ¬ (tid > (tableOf bs).maxTIDs.getD (s - 1) 0) := by
    simp only [tableOf, getD_map_idx (·.maxTID) 0 bs (s - 1) hi]; omega
  simp only [h0, hmx, if_false]
  rw [hpost] at hs ⊢
  have := ascLoop_spec bs tid minL maxL (bs.take (s - 1)).reverse bs[s - 1] (bs.drop s) (by simpa using hsplit)
    (by simpa using hwf2.1) (by simpa using hwf2.2) hadjb hmaxb (by simpa using hs) (bs.length + 1) (by simp; omega)
  simp only [List.length_reverse, hlen, List.reverse_reverse] at this
  exact this

end SV.C03
