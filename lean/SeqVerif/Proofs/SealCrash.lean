import SeqVerif.Model.SealOps
/-!
Proof of the crash/fault safety of `sealTrace` (used by Props/C08.lean).
-/
namespace SV.SealOps
open SV.FileSet

/-- the state sealing starts from: complete active files, no deletion in progress; leftovers of an earlier
interrupted seal may be present with any contents: `._sdocs`, `._index`, and - when documents are re-sorted - a
`.sdocs` without `.index`, or - when they are not - an `.index` (the fraction was sealed, the crash came before
`.meta` was removed, and the restart replayed it as active again) -/
def Start (c : Cfg) (fs : FileSet) : Prop :=
  fs.docs = .full ∧ fs.metaF = .full ∧ (c.skipSortDocs = false → fs.index = .absent) ∧ fs.docsDel = .absent ∧
    fs.sdocsDel = .absent ∧ fs.indexDel = .absent ∧ (c.skipSortDocs = true → fs.sdocs = .absent)

/-- every document is served after a restart from this state (whatever the loader does with orphans) -/
def Safe (st : St) : Prop := ∀ o, served o st.fs = .all

/-- an original file (.docs / .meta) may be removed only when the sealed copy is complete and its directory entries
are durable -/
def RemoveOk (c : Cfg) (st : St) (o : Op) : Prop :=
  ∀ s, o = .remove s → s = .docs ∨ s = .metaF →
    st.fs.index = .full ∧ Suffix.index ∉ st.unsynced ∧
    (c.skipSortDocs = true ∨ (st.fs.sdocs = .full ∧ Suffix.sdocs ∉ st.unsynced))

theorem set_get_self (fs : FileSet) (s : Suffix) : fs.set s (fs.get s) = fs := by cases s <;> rfl

theorem along_head {P : St → Prop} {Q : St → Op → Prop} {l : List Op} {st : St} (h : Along P Q l st) : P st := by
  cases l with
  | nil => exact h
  | cons o r => exact h.1

theorem removeOk_write (c : Cfg) (st : St) (s : Suffix) : RemoveOk c st (.write s) := by
  intro t ht; cases ht

/-- the state after at least one write to `._sdocs` -/
def sdocsTorn (st : St) : St := { st with fs := { st.fs with sdocsTmp := .torn } }

theorem safe_sdocsTorn (st : St) : Safe (sdocsTorn st) ↔ Safe st := by
  unfold Safe sdocsTorn
  have e : ∀ o, served o { st.fs with sdocsTmp := .torn } = served o st.fs := fun o => served_tmp o st.fs .torn st.fs.indexTmp
  simp only [e]

theorem step_write_sdocsTmp (st : St) (h : st.fs.sdocsTmp = .empty ∨ st.fs.sdocsTmp = .torn) :
    step (.write .sdocsTmp) st = sdocsTorn st := by
  rcases h with h | h <;> simp [step, FileSet.get, FileSet.set, h, sdocsTorn]

theorem along_sdocs_writes (c : Cfg) (n : Nat) (rest : List Op) (st : St)
    (h : st.fs.sdocsTmp = .empty ∨ st.fs.sdocsTmp = .torn) :
    Along Safe (RemoveOk c) (List.replicate n (.write .sdocsTmp) ++ rest) st ↔
      Along Safe (RemoveOk c) rest (if n = 0 then st else sdocsTorn st) := by
  induction n generalizing st with
  | zero => simp
  | succ n ih =>
    simp only [List.replicate_succ, List.cons_append, Along, step_write_sdocsTmp st h, Nat.succ_ne_zero, if_false]
    rw [ih (sdocsTorn st) (.inr rfl)]
    have e : (if n = 0 then sdocsTorn st else sdocsTorn (sdocsTorn st)) = sdocsTorn st := by
      split <;> rfl
    rw [e]
    exact ⟨fun h => h.2.2, fun h => ⟨(safe_sdocsTorn st).mp (along_head h), removeOk_write _ _ _, h⟩⟩

theorem sdocsWrites_spec (n : Nat) (os : List Bool) :
    ∃ k, (sdocsWrites n os).2 = List.replicate k (.write .sdocsTmp) ∧ ((sdocsWrites n os).1 = true → k = n) := by
  induction n generalizing os with
  | zero => exact ⟨0, by simp [sdocsWrites]⟩
  | succ n ih =>
    cases os with
    | nil => exact ⟨n + 1, by simp [sdocsWrites]⟩
    | cons a r =>
      cases a
      · exact ⟨0, by simp [sdocsWrites]⟩
      · obtain ⟨k, h1, h2⟩ := ih r
        refine ⟨k + 1, ?_, fun h => ?_⟩
        · simp [sdocsWrites, h1, List.replicate_succ]
        · simp only [sdocsWrites] at h; rw [h2 h]

theorem sdocsWrites_ok_iff (n : Nat) (os : List Bool) : (sdocsWrites n os).1 = true ↔ false ∉ os.take n := by
  induction n generalizing os with
  | zero => simp [sdocsWrites]
  | succ n ih =>
    cases os with
    | nil => simp [sdocsWrites]
    | cons a r =>
      cases a
      · simp [sdocsWrites]
      · simp [sdocsWrites, ih]

theorem removeOk_create (c : Cfg) (st : St) (s : Suffix) : RemoveOk c st (.create s) := by
  intro t ht; cases ht

/-- the two creates and the writes of the sorted-docs phase touch only temporary files -/
theorem along_sdocs_prefix (c : Cfg) (n : Nat) (rest : List Op) (st : St) :
    Along Safe (RemoveOk c) (.create .indexTmp :: .create .sdocsTmp :: (List.replicate n (.write .sdocsTmp) ++ rest)) st ↔
      Safe st ∧ Safe (step (.create .indexTmp) st) ∧
        Along Safe (RemoveOk c) rest
          (if n = 0 then step (.create .sdocsTmp) (step (.create .indexTmp) st)
           else sdocsTorn (step (.create .sdocsTmp) (step (.create .indexTmp) st))) := by
  simp only [Along]
  rw [along_sdocs_writes _ _ _ _ (by simp [step, FileSet.set])]
  constructor
  · rintro ⟨h1, -, h2, -, h3⟩; exact ⟨h1, h2, h3⟩
  · rintro ⟨h1, h2, h3⟩; exact ⟨h1, removeOk_create _ _ _, h2, removeOk_create _ _ _, h3⟩

theorem crash_safe (c : Cfg) (f : Facts) (p : Plan) (oi os : List Bool) (fs0 : FileSet) (u : List Suffix)
    (hf : f.all = true) (h0 : Start c fs0) :
    Along Safe (RemoveOk c) (sealTrace c f p oi os).2 ⟨fs0, u⟩ := by
  obtain ⟨docs, docsDel, sdocs, sdocsTmp, sdocsDel, index, indexTmp, indexDel, metaF⟩ := fs0
  obtain ⟨h1, h2, h3, h4, h5, h6, h7⟩ := h0
  simp only at h1 h2 h3 h4 h5 h6 h7
  subst h1 h2 h4 h5 h6
  have hl := writeIndex_lost f p hf { oracle := oi }
  simp only at hl
  obtain ⟨skip, keep⟩ := c
  unfold sealTrace
  generalize hr : writeIndex f p { oracle := oi } = r at hl
  cases skip
  · have h3' := h3 rfl
    subst h3'
    obtain ⟨k, hk, -⟩ := sdocsWrites_spec p.sdocs os
    simp only [sortedDocsOps, Bool.false_eq_true, if_false, hk]
    cases hs : (sdocsWrites p.sdocs os).1
    · -- a write of the sorted docs failed: Seal returns the error
      simp only [Bool.false_and, Bool.false_eq_true, if_false, List.append_nil, List.cons_append]
      have := along_sdocs_prefix ⟨false, keep⟩ k []
      simp only [List.append_nil] at this
      rw [this]
      by_cases hk0 : k = 0 <;>
        simp [hk0, Along, step, sdocsTorn, FileSet.set, Safe, served, classify, classifyInfo, makeInfo, Info.known, Content.has]
    · -- all writes of the sorted docs succeeded
      cases hr1 : r.1 <;> by_cases hc : r.2.calls = 0 <;> cases keep <;> by_cases hk0 : k = 0 <;>
        simp only [Bool.and_true, Bool.and_false, Bool.false_eq_true, if_false, if_true, List.cons_append,
          List.append_assoc, List.nil_append, List.append_nil, along_sdocs_prefix] <;>
        simp [hk0, Along, indexOps, releaseOps, hl, hc, step, sdocsTorn, FileSet.set, FileSet.get, Safe, RemoveOk, served,
          classify, classifyInfo, makeInfo, Info.known, Content.has]
  · have h7' := h7 rfl
    subst h7'
    cases hr1 : r.1 <;> by_cases hc : r.2.calls = 0 <;> cases keep <;> cases index <;>
      simp [Along, indexOps, releaseOps, hl, hc, hr1, step, FileSet.set, FileSet.get, Safe, RemoveOk, served,
        classify, classifyInfo, makeInfo, Info.known, Content.has]

/-! ## shape of the trace -/

theorem sortedDocsOps_ok_iff (n : Nat) (os : List Bool) : (sortedDocsOps n os).1 = true ↔ false ∉ os.take n :=
  sdocsWrites_ok_iff n os

theorem sortedDocsOps_no_remove (n : Nat) (os : List Bool) (s : Suffix) : Op.remove s ∉ (sortedDocsOps n os).2 := by
  obtain ⟨k, hk, -⟩ := sdocsWrites_spec n os
  unfold sortedDocsOps
  simp only [hk]
  split <;> simp [List.mem_replicate]

theorem sortedDocsOps_no_index_rename (n : Nat) (os : List Bool) : Op.rename .indexTmp .index ∉ (sortedDocsOps n os).2 := by
  obtain ⟨k, hk, -⟩ := sdocsWrites_spec n os
  unfold sortedDocsOps
  simp only [hk]
  split <;> simp [List.mem_replicate]

theorem sortedDocsOps_fail_no_rename (n : Nat) (os : List Bool) (h : (sortedDocsOps n os).1 = false) (a b : Suffix) :
    Op.rename a b ∉ (sortedDocsOps n os).2 := by
  obtain ⟨k, hk, -⟩ := sdocsWrites_spec n os
  unfold sortedDocsOps at h ⊢
  simp only at h
  simp [hk, h, List.mem_replicate]

theorem indexOps_no_remove (r : Bool × W) (s : Suffix) : Op.remove s ∉ indexOps r := by
  unfold indexOps
  split <;> split <;> simp

theorem sealTrace_ok (c : Cfg) (f : Facts) (p : Plan) (oi os : List Bool) :
    (sealTrace c f p oi os).1 = ((c.skipSortDocs || (sortedDocsOps p.sdocs os).1) && (writeIndex f p { oracle := oi }).1) := by
  unfold sealTrace
  cases c.skipSortDocs <;> simp

theorem indexOps_no_index_rename (r : Bool × W) : Op.rename .indexTmp .index ∉ indexOps r := by
  unfold indexOps
  split <;> split <;> simp

/-- on the failure path the trace consists of the create, (part of) the sorted-docs phase and the index writes -/
theorem sealTrace_fail (c : Cfg) (f : Facts) (p : Plan) (oi os : List Bool) (h : (sealTrace c f p oi os).1 = false) :
    ∀ x, x ∈ (sealTrace c f p oi os).2 → x = .create .indexTmp ∨
      (c.skipSortDocs = false ∧ x ∈ (sortedDocsOps p.sdocs os).2) ∨ x ∈ indexOps (writeIndex f p { oracle := oi }) := by
  intro x hx
  unfold sealTrace at h hx
  simp only at h
  simp only [h, Bool.false_eq_true, if_false, List.append_nil, List.mem_cons, List.mem_append] at hx
  rcases hx with (hx | hx) | hx
  · exact .inl hx
  · cases hc : c.skipSortDocs
    · simp only [hc, Bool.false_eq_true, if_false] at hx; exact .inr (.inl ⟨rfl, hx⟩)
    · simp [hc] at hx
  · by_cases hsd : (if c.skipSortDocs = true then (true, []) else sortedDocsOps p.sdocs os).fst = true
    · rw [if_pos hsd] at hx; exact .inr (.inr hx)
    · rw [if_neg hsd] at hx; cases hx

/-- removals happen only on the success path -/
theorem remove_mem (c : Cfg) (f : Facts) (p : Plan) (oi os : List Bool) (s : Suffix)
    (h : Op.remove s ∈ (sealTrace c f p oi os).2) : (sealTrace c f p oi os).1 = true := by
  cases hok : (sealTrace c f p oi os).1
  · rcases sealTrace_fail c f p oi os hok _ h with h | ⟨-, h⟩ | h
    · cases h
    · exact absurd h (sortedDocsOps_no_remove _ _ _)
    · exact absurd h (indexOps_no_remove _ _)
  · rfl

/-- the index is renamed into place only on the success path -/
theorem rename_index_mem (c : Cfg) (f : Facts) (p : Plan) (oi os : List Bool)
    (h : Op.rename .indexTmp .index ∈ (sealTrace c f p oi os).2) : (sealTrace c f p oi os).1 = true := by
  cases hok : (sealTrace c f p oi os).1
  · rcases sealTrace_fail c f p oi os hok _ h with h | ⟨-, h⟩ | h
    · cases h
    · exact absurd h (sortedDocsOps_no_index_rename _ _)
    · exact absurd h (indexOps_no_index_rename _)
  · rfl

/-- when the sorted-docs phase fails nothing at all is renamed -/
theorem sdocs_fail_no_rename (keep : Bool) (f : Facts) (p : Plan) (oi os : List Bool)
    (h : (sortedDocsOps p.sdocs os).1 = false) (a b : Suffix) :
    Op.rename a b ∉ (sealTrace ⟨false, keep⟩ f p oi os).2 := by
  unfold sealTrace
  simp [h, sortedDocsOps_fail_no_rename _ _ h]

/-! ## write faults -/

/-- `w` is the writer state after `w.calls` calls answered by the environment `oi` -/
def Tracks (oi : List Bool) (w : W) : Prop :=
  w.oracle = oi.drop w.calls ∧ (w.failed = true ↔ false ∈ oi.take w.calls)

theorem tracks_call (oi : List Bool) (w : W) (h : Tracks oi w) : Tracks oi w.call.2 := by
  obtain ⟨h1, h2⟩ := h
  unfold W.call
  cases ho : w.oracle with
  | nil =>
    rw [ho] at h1
    have hlen : oi.length ≤ w.calls := List.drop_eq_nil_iff.mp h1.symm
    refine ⟨?_, ?_⟩
    · exact (List.drop_eq_nil_iff.mpr (by simp only; omega)).symm
    · simp only
      rw [h2, List.take_of_length_le hlen, List.take_of_length_le (by omega)]
  | cons a r =>
    rw [ho] at h1
    have hlt : w.calls < oi.length := by
      rcases Nat.lt_or_ge w.calls oi.length with h | h
      · exact h
      · rw [List.drop_eq_nil_iff.mpr h] at h1; cases h1
    have hd : oi.drop w.calls = oi[w.calls] :: oi.drop (w.calls + 1) := List.drop_eq_getElem_cons hlt
    rw [hd] at h1
    injection h1 with ha hr'
    refine ⟨hr', ?_⟩
    simp only [List.take_succ_eq_append_getElem hlt, List.mem_append, List.mem_singleton, Bool.or_eq_true, h2, ← ha]
    cases a <;> simp

theorem tracks_run (oi : List Bool) (n : Nat) (w : W) (h : Tracks oi w) : Tracks oi (w.run n).2 := by
  induction n generalizing w with
  | zero => exact h
  | succ n ih =>
    unfold W.run
    cases hc : w.call.1
    · simp only [Bool.false_eq_true, if_false]; exact tracks_call oi w h
    · simp only [if_true]; exact ih _ (tracks_call oi w h)

theorem tracks_gen (oi : List Bool) (prop : Bool) (n : Nat) (w : W) (h : Tracks oi w) : Tracks oi (W.gen prop n w).2 := by
  have := tracks_run oi n w h
  unfold W.gen
  cases hr : (w.run n).1 <;> cases prop <;> simpa [Tracks] using this

theorem tracks_andThen (oi : List Bool) {a b : W → Bool × W} (ha : ∀ w, Tracks oi w → Tracks oi (a w).2)
    (hb : ∀ w, Tracks oi w → Tracks oi (b w).2) (w : W) (h : Tracks oi w) : Tracks oi (andThen a b w).2 := by
  unfold andThen
  cases hr : (a w).1
  · simp only [Bool.false_eq_true, if_false]; exact ha w h
  · simp only [if_true]; exact hb _ (ha w h)

theorem tracks_writeIndex (oi : List Bool) (f : Facts) (p : Plan) : Tracks oi (writeIndex f p { oracle := oi }).2 := by
  have r := fun n => tracks_run oi n
  have g := fun b n => tracks_gen oi b n
  unfold writeIndex
  exact tracks_andThen oi (r 2) (tracks_andThen oi (g _ _) (tracks_andThen oi (r _) (tracks_andThen oi (g _ _)
    (tracks_andThen oi (r _) (tracks_andThen oi (r 2) (tracks_andThen oi (g _ _) (tracks_andThen oi (g _ _) (r 4)))))))) _
    ⟨by simp, by simp⟩

/-- with propagating generators: success of `writeIndex` means that exactly the planned calls were issued and none of
them got an error from the environment -/
theorem writeIndex_ok (f : Facts) (p : Plan) (oi : List Bool) (hf : f.all = true)
    (h : (writeIndex f p { oracle := oi }).1 = true) :
    (writeIndex f p { oracle := oi }).2.calls = p.indexCalls ∧ false ∉ oi.take p.indexCalls := by
  have hl := writeIndex_lost f p hf { oracle := oi }
  have hs := ((step_writeIndex f p).sound { oracle := oi } (by simp [W.Sound])).1 h
  have he := (step_writeIndex f p).exact { oracle := oi } h hl
  have ht := tracks_writeIndex oi f p
  simp only [Nat.zero_add] at he
  refine ⟨he.1, fun hm => ?_⟩
  rw [← he.1] at hm
  have := hs (ht.2.mpr hm)
  rw [hl] at this
  cases this

/-- with propagating generators: if any issued call got an error, `writeIndex` reports an error -/
theorem writeIndex_fault (f : Facts) (p : Plan) (oi : List Bool) (hf : f.all = true)
    (h : false ∈ oi.take (writeIndex f p { oracle := oi }).2.calls) : (writeIndex f p { oracle := oi }).1 = false := by
  cases hr : (writeIndex f p { oracle := oi }).1
  · rfl
  · have := writeIndex_ok f p oi hf hr
    rw [this.1] at h
    exact absurd h this.2

/-! ## durable before visible -/

theorem syncedBeforeRename_writes (s : Suffix) (k : Nat) (rest : List Op) (d : Suffix → Bool) (h : d s = true) :
    syncedBeforeRename (List.replicate k (.write s) ++ rest) d = syncedBeforeRename rest d := by
  induction k with
  | zero => simp
  | succ k ih =>
    simp only [List.replicate_succ, List.cons_append, syncedBeforeRename]
    have : (fun x => if x = s then true else d x) = d := by
      funext x; by_cases hx : x = s <;> simp [hx, h]
    rw [this, ih]

theorem syncedBeforeRename_writes_nil (s : Suffix) (k : Nat) (d : Suffix → Bool) (h : d s = true) :
    syncedBeforeRename (List.replicate k (.write s)) d = true := by
  have := syncedBeforeRename_writes s k [] d h
  simpa [syncedBeforeRename] using this

theorem sealTrace_syncedBeforeRename (c : Cfg) (f : Facts) (p : Plan) (oi os : List Bool) :
    syncedBeforeRename (sealTrace c f p oi os).2 (fun _ => true) = true := by
  obtain ⟨skip, keep⟩ := c
  unfold sealTrace
  generalize writeIndex f p { oracle := oi } = r
  obtain ⟨k, hk, -⟩ := sdocsWrites_spec p.sdocs os
  cases skip
  · simp only [sortedDocsOps, Bool.false_eq_true, if_false, hk]
    cases hs : (sdocsWrites p.sdocs os).1 <;> cases hr1 : r.1 <;> by_cases hc : r.2.calls = 0 <;>
      cases hl : r.2.lost <;> cases keep <;>
      simp only [Bool.and_true, Bool.and_false, Bool.false_eq_true, if_false, if_true,
        List.cons_append, List.append_assoc, List.nil_append, List.append_nil, syncedBeforeRename] <;>
      (first | rw [syncedBeforeRename_writes _ _ _ _ (by simp)] | rw [syncedBeforeRename_writes_nil _ _ _ (by simp)]) <;>
      simp [syncedBeforeRename, indexOps, releaseOps, hc, hl]
  · cases hr1 : r.1 <;> by_cases hc : r.2.calls = 0 <;> cases hl : r.2.lost <;> cases keep <;>
      simp [syncedBeforeRename, indexOps, releaseOps, hc, hl, hr1]

/-! ## a seal without faults runs to its end -/

theorem call_nofault (w : W) (h : w.oracle = []) : w.call.1 = true ∧ w.call.2.oracle = [] := by
  unfold W.call; simp [h]

theorem run_nofault (n : Nat) (w : W) (h : w.oracle = []) : (w.run n).1 = true ∧ (w.run n).2.oracle = [] := by
  induction n generalizing w with
  | zero => exact ⟨rfl, h⟩
  | succ n ih =>
    unfold W.run
    rw [if_pos (call_nofault w h).1]
    exact ih _ (call_nofault w h).2

theorem gen_nofault (b : Bool) (n : Nat) (w : W) (h : w.oracle = []) : (W.gen b n w).1 = true ∧ (W.gen b n w).2.oracle = [] := by
  unfold W.gen
  rw [if_pos (run_nofault n w h).1]
  exact run_nofault n w h

theorem andThen_nofault {a b : W → Bool × W} (ha : ∀ w, w.oracle = [] → (a w).1 = true ∧ (a w).2.oracle = [])
    (hb : ∀ w, w.oracle = [] → (b w).1 = true ∧ (b w).2.oracle = []) (w : W) (h : w.oracle = []) :
    (andThen a b w).1 = true ∧ (andThen a b w).2.oracle = [] := by
  unfold andThen
  rw [if_pos (ha w h).1]
  exact hb _ (ha w h).2

theorem writeIndex_nofault (f : Facts) (p : Plan) : (writeIndex f p { oracle := [] }).1 = true := by
  have r := fun n => run_nofault n
  have g := fun b n => gen_nofault b n
  unfold writeIndex
  exact (andThen_nofault (r 2) (andThen_nofault (g _ _) (andThen_nofault (r _) (andThen_nofault (g _ _)
    (andThen_nofault (r _) (andThen_nofault (r 2) (andThen_nofault (g _ _) (andThen_nofault (g _ _) (r 4)))))))) _ rfl).1

/-- creating the temporary files never fails (`os.Create` = create or truncate, whatever is lying around), so with
no failing write the seal succeeds - from any start state -/
theorem sealTrace_nofault (c : Cfg) (f : Facts) (p : Plan) : (sealTrace c f p [] []).1 = true := by
  rw [sealTrace_ok, writeIndex_nofault, Bool.and_true]
  cases c.skipSortDocs
  · simp [(sortedDocsOps_ok_iff p.sdocs []).mpr (by simp)]
  · rfl

end SV.SealOps
