import SeqVerif.Proofs.C03FracProofs
import SeqVerif.Model.SearchSpec
/-!
# C03 x C02: the index read back from the sealed structures is a well-formed C02 index

`sealedView` is what `processor.IndexSearch` can read from the sealed fraction through the accessor models of
Model/C03Frac.lean (`GetMID/GetRID` of every LID, `GetValByTID` and the fully drained posting iterator of every tid),
packed into C02's `EvalTree.Index`.  It equals `activeView`, the same reading of the active fraction, which is
well-formed in C02's sense - so `EvalTree.search_eq_spec` (= `c02_search_eq_spec`) applies to the sealed form.
Field names are not part of `Active` (fields are positional there); `names[i]` names the i-th sorted field.
-/
namespace SV.C03
open SV.Spec (Bytes)

def tagFields : List Bytes → List (List ATok) → List (Bytes × ATok)
  | _, [] => []
  | ns, fl :: rest => fl.map (fun t => (ns.headD [], t)) ++ tagFields ns.tail rest

def mapIdxFrom {α β} (f : Nat → α → β) : Nat → List α → List β
  | _, [] => []
  | k, x :: xs => f k x :: mapIdxFrom f (k + 1) xs

/-- the C02 index as read from the sealed fraction -/
def sealedView (names : List Bytes) (a : Active) (s : Sealed) : EvalTree.Index :=
  { ids := (List.range' 1 (sealedLen s - 1)).map fun lid => ⟨(sealedGetMID s lid).getD 0, (sealedGetRID s lid).getD 0⟩,
    toks := mapIdxFrom (fun i (p : Bytes × ATok) =>
      { field := p.1, val := (sealedTokenVal s i).getD [],
        lids := match sealedNode s i 0 (sealedLen s) false with
          | .ok l => l
          | .error _ => [] }) 1 (tagFields names a.fields) }

/-- the same reading of the active fraction: IDs in all-documents order, posting lists translated by the inverser -/
def activeView (names : List Bytes) (a : Active) : EvalTree.Index :=
  { ids := a.allDocs.map fun l => ⟨a.mids.getD l 0, a.rids.getD l 0⟩,
    toks := (tagFields names a.fields).map fun p => { field := p.1, val := p.2.val, lids := p.2.post.map a.newLID } }

theorem tagFields_snd (names : List Bytes) (fields : List (List ATok)) :
    (tagFields names fields).map (·.2) = fields.flatten := by
  induction fields generalizing names with
  | nil => rfl
  | cons fl rest ih => simp [tagFields, ih, List.map_map, Function.comp_def]

theorem mapIdxFrom_eq_map {α β} (f : Nat → α → β) (g : α → β) :
    ∀ (l : List α) (k : Nat), (∀ i (hi : i < l.length), f (k + i) l[i] = g l[i]) → mapIdxFrom f k l = l.map g := by
  intro l
  induction l with
  | nil => intro _ _; rfl
  | cons x xs ih =>
    intro k h
    simp only [mapIdxFrom, List.map_cons]
    rw [show f k x = g x from h 0 (by simp), ih (k + 1) (fun i hi => by
      have := h (i + 1) (by simpa using hi)
      simpa [Nat.add_assoc, Nat.add_comm 1 i] using this)]

theorem newLID_range (a : Active) (h : Quiescent a) (post : List Nat) (hs : post.Sublist a.allDocs) :
    ∀ v, v ∈ post.map a.newLID → 1 ≤ v ∧ v ≤ a.allDocs.length := by
  intro v hv
  obtain ⟨x, hx, rfl⟩ := List.mem_map.mp hv
  obtain ⟨k, hk, hxk⟩ := List.getElem_of_mem (hs.subset hx)
  have := (newLID_at a h k hk).1
  rw [hxk] at this
  omega

theorem sealedView_eq (names : List Bytes) (a : Active) (s : Sealed) (h : Quiescent a) (hag : IndexAgree a s) :
    sealedView names a s = activeView names a := by
  have hlen : sealedLen s = a.allDocs.length + 1 := by rw [hag.len]; rfl
  unfold sealedView activeView
  congr 1
  · -- ids
    apply List.ext_getElem
    · simp [hlen]
    · intro i h1 h2
      simp only [List.length_map, List.length_range'] at h1 h2
      simp only [List.getElem_map, List.getElem_range']
      have hlid := hag.ids (1 + 1 * i) (by omega) (by simp [activeLen]; omega)
      have hk : 1 + 1 * i - 1 = i := by omega
      have hin := h.inrange _ (List.getElem_mem h2)
      have hin2 : a.allDocs[i] < a.rids.length := by rw [h.lens]; exact hin
      have hm : activeGetMID a (1 + 1 * i) = some a.mids[a.allDocs[i]] := by
        have h0 : ¬ (1 + 1 * i = 0) := by omega
        simp [activeGetMID, h0, hk, List.getElem?_eq_getElem h2, List.getElem?_eq_getElem hin]
      have hr : activeGetRID a (1 + 1 * i) = some a.rids[a.allDocs[i]] := by
        have h0 : ¬ (1 + 1 * i = 0) := by omega
        simp [activeGetRID, h0, hk, List.getElem?_eq_getElem h2, List.getElem?_eq_getElem hin2]
      rw [hlid.1, hlid.2.1, hm, hr]
      simp [List.getD, List.getElem?_eq_getElem hin, List.getElem?_eq_getElem hin2]
  · -- tokens
    apply mapIdxFrom_eq_map
    intro i hi
    have hsnd := tagFields_snd names a.fields
    have hlenT : (tagFields names a.fields).length = a.fields.flatten.length := by rw [← hsnd]; simp
    have hi' : i < a.fields.flatten.length := by omega
    have hget : (tagFields names a.fields)[i].2 = a.fields.flatten[i] := by
      have := congrArg (fun l => l[i]?) hsnd
      simp only [List.getElem?_map, List.getElem?_eq_getElem hi, List.getElem?_eq_getElem hi', Option.map_some,
        Option.some.injEq] at this
      exact this
    obtain ⟨hv, hn⟩ := hag.tokens (1 + i) (by omega) (by omega)
    have hidx : 1 + i - 1 = i := by omega
    simp only [hidx] at hv hn
    rw [hv, hn 0 (sealedLen s) false]
    simp only [Option.getD_some, hget]
    have hmem : a.fields.flatten[i] ∈ a.fields.flatten := List.getElem_mem _
    obtain ⟨fl, hfl, htf⟩ := List.mem_flatten.mp hmem
    have hp := (h.posts fl hfl _ htf).2
    rw [activeNode_eq a h _ hp]
    simp only [Bool.false_eq_true, if_false]
    congr 1
    apply filter_all
    intro v hv
    have := newLID_range a h _ hp v hv
    simp [inWin, hlen]; omega

theorem idLE_eq (x y : ID) : idLE x y = Spec.ID.le ⟨x.1, x.2⟩ ⟨y.1, y.2⟩ := rfl

/-- the active reading is a well-formed C02 index -/
theorem activeView_wf (names : List Bytes) (a : Active) (h : Quiescent a) :
    EvalTree.WF (activeView names a) ∧ Borders.SortedDesc (activeView names a).ids ∧
    (∀ id, id ∈ (activeView names a).ids → id.rid ≤ Borders.maxU64) := by
  refine ⟨⟨?_, ?_⟩, ?_, ?_⟩
  · intro t ht
    simp only [activeView, List.mem_map] at ht
    obtain ⟨p, hp, rfl⟩ := ht
    have hmem : p.2 ∈ a.fields.flatten := by
      rw [← tagFields_snd names a.fields]; exact List.mem_map.mpr ⟨p, hp, rfl⟩
    obtain ⟨fl, hfl, htf⟩ := List.mem_flatten.mp hmem
    have := (post_facts a h _ (h.posts fl hfl _ htf).2).1
    exact List.Pairwise.imp (fun hab => by simp [lessFn]; exact hab) this
  · intro t ht v hv
    simp only [activeView, List.mem_map] at ht
    obtain ⟨p, hp, rfl⟩ := ht
    have hmem : p.2 ∈ a.fields.flatten := by
      rw [← tagFields_snd names a.fields]; exact List.mem_map.mpr ⟨p, hp, rfl⟩
    obtain ⟨fl, hfl, htf⟩ := List.mem_flatten.mp hmem
    have := newLID_range a h _ (h.posts fl hfl _ htf).2 v hv
    simpa [activeView] using this
  · have hd := h.desc
    rw [sealedIDs_eq a h] at hd
    have ht := (List.pairwise_cons.mp hd).2
    simp only [activeView]
    rw [List.pairwise_map] at ht
    apply List.pairwise_map.mpr
    exact List.Pairwise.imp (fun hab => by simpa [idLE_eq] using hab) ht
  · intro id hid
    simp only [activeView, List.mem_map] at hid
    obtain ⟨l, hl, rfl⟩ := hid
    have : (a.mids.getD l 0, a.rids.getD l 0) ∈ sealedIDs a := by
      rw [sealedIDs_eq a h]
      exact List.mem_cons_of_mem _ (List.mem_map.mpr ⟨l, hl, rfl⟩)
    have := (h.bounded _ this).2
    simp only [Borders.maxU64]
    omega

/-- the sealed posting iterator is C02's `narrow` of the view's posting list -/
theorem sealedNode_eq_narrow (names : List Bytes) (a : Active) (s : Sealed) (h : Quiescent a) (hag : IndexAgree a s)
    (tid : Nat) (h1 : 1 ≤ tid) (h2 : tid ≤ a.fields.flatten.length) (lo hi : Nat) (rev : Bool) :
    sealedNode s tid lo hi rev =
      .ok (EvalTree.narrow rev lo hi (((activeView names a).toks[tid - 1]?).map (·.lids) |>.getD [])) := by
  have hlt : tid - 1 < a.fields.flatten.length := by omega
  have hsnd := tagFields_snd names a.fields
  have hlenT : (tagFields names a.fields).length = a.fields.flatten.length := by rw [← hsnd]; simp
  have hget : (tagFields names a.fields)[tid - 1].2 = a.fields.flatten[tid - 1] := by
    have := congrArg (fun l => l[tid - 1]?) hsnd
    simp only [List.getElem?_map, List.getElem?_eq_getElem (show tid - 1 < (tagFields names a.fields).length by omega),
      List.getElem?_eq_getElem hlt, Option.map_some, Option.some.injEq] at this
    exact this
  rw [(hag.tokens tid h1 h2).2 lo hi rev]
  have hmem : a.fields.flatten[tid - 1] ∈ a.fields.flatten := List.getElem_mem _
  obtain ⟨fl, hfl, htf⟩ := List.mem_flatten.mp hmem
  rw [activeNode_eq a h _ (h.posts fl hfl _ htf).2]
  simp only [activeView, List.getElem?_map, List.getElem?_eq_getElem (show tid - 1 < (tagFields names a.fields).length by omega),
    Option.map_some, Option.getD_some, hget, EvalTree.narrow]
  cases rev <;> rfl

/-- the documents of the active fraction, in all-documents order: ID and the tokens whose posting list holds the
document's active LID -/
def activeDocs (names : List Bytes) (a : Active) : List Spec.Doc :=
  a.allDocs.map fun l =>
    { id := ⟨a.mids.getD l 0, a.rids.getD l 0⟩,
      tokens := ((tagFields names a.fields).filter fun p => p.2.post.contains l).map fun p => (p.1, p.2.val) }

theorem contains_newLID (a : Active) (h : Quiescent a) (post : List Nat) (hs : post.Sublist a.allDocs) (k : Nat)
    (hk : k < a.allDocs.length) : (post.map a.newLID).contains (k + 1) = post.contains a.allDocs[k] := by
  rw [Bool.eq_iff_iff]
  simp only [List.contains_iff_mem, List.mem_map]
  constructor
  · rintro ⟨x, hx, hxe⟩
    obtain ⟨j, hj, hxj⟩ := List.getElem_of_mem (hs.subset hx)
    have := (newLID_at a h j hj).1
    rw [hxj, hxe] at this
    have : j = k := by omega
    subst this
    rw [hxj]
    exact hx
  · intro hx
    exact ⟨_, hx, (newLID_at a h k hk).1⟩

theorem docsOf_activeView (names : List Bytes) (a : Active) (h : Quiescent a) :
    EvalTree.docsOf (activeView names a) = activeDocs names a := by
  unfold EvalTree.docsOf activeDocs
  apply List.ext_getElem
  · simp [activeView]
  · intro i h1 h2
    simp only [List.length_map, List.length_range', activeView] at h1
    simp only [List.length_map] at h2
    simp only [List.getElem_map, List.getElem_range', EvalTree.docAt]
    have hid : Borders.idAt (activeView names a).ids (1 + 1 * i) = ⟨a.mids.getD a.allDocs[i] 0, a.rids.getD a.allDocs[i] 0⟩ := by
      rw [Borders.idAt_eq _ _ (by omega) (by simp [activeView]; omega)]
      simp [activeView]
    rw [hid]
    congr 1
    simp only [activeView, List.filter_map, List.map_map]
    congr 1
    apply List.filter_congr
    intro p hp
    have hmem : p.2 ∈ a.fields.flatten := by
      rw [← tagFields_snd names a.fields]; exact List.mem_map.mpr ⟨p, hp, rfl⟩
    obtain ⟨fl, hfl, htf⟩ := List.mem_flatten.mp hmem
    have := contains_newLID a h p.2.post (h.posts fl hfl _ htf).2 i h2
    simpa [Function.comp_def, Nat.add_comm] using this

end SV.C03
