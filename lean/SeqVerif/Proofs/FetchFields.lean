import SeqVerif.Model.FetchStream
import SeqVerif.Model.Fields
import SeqVerif.Model.FetchFracs
import SeqVerif.Props.C20
/-!
# C20 over C04: the store-side fetch stream with a fields filter (`storeapi/grpc_fetch.go: doFetch`)

`doFetch` pulls documents from the batch loader (`docsStream.Next`, C04's `fetchStream`), passes every one through
`docFieldsFilter.FilterDocFields` (C20's `filterFields`) and sends it.  The chunk size of the loader is computed from
the lengths of the *stored* documents (the filter runs after the loader), so the filter cannot change which
documents are read.  This module composes the two models: the filtered stream is, entry by entry and in request
order, the C20 projection of the document that C04's per-ID specification `specDoc` names - for every request,
every fraction list, every chunking parameter.  Core-only; counted as obligations of `./check C20`.
-/
namespace SV.FetchFields
set_option linter.unusedSectionVars false
open SV.Fetch SV.Fields

variable {K V D : Type} [DecidableEq K]

/-- what `doFetch` does to one stream entry: `none` is a not-found entry (sent as an empty document: `len(doc) == 0`),
`dec d = none` is a stored document that does not decode to a JSON object -/
def filterEntry (allowList : Bool) (fields : List K) (isEmpty : D → Bool) (dec : D → Option (List (Fld K V))) :
    Option D → Out K V
  | none => filterFields allowList fields true false []
  | some d => filterFields allowList fields (isEmpty d) (dec d).isSome ((dec d).getD [])

/-- `doFetch`: loader, then the filter on every entry -/
def fetchFiltered (bits maxFetch initSize : Nat) (len : D → Nat) (allowList : Bool) (fields : List K)
    (isEmpty : D → Bool) (dec : D → Option (List (Fld K V))) (fracs : List (Frac D)) (ids : List IDS) :
    List (Out K V) × StreamEnd :=
  ((fetchStream bits maxFetch initSize len fracs ids).1.map (filterEntry allowList fields isEmpty dec),
   (fetchStream bits maxFetch initSize len fracs ids).2)

/-- **the filtered stream is the per-ID projection of the specified documents, in request order, and ends `done`** -/
theorem ff_stream_eq_spec (bits maxFetch initSize : Nat) (len : D → Nat) (P : Frac D → ID → Nat)
    (allowList : Bool) (fields : List K) (isEmpty : D → Bool) (dec : D → Option (List (Fld K V)))
    (fracs : List (Frac D)) (ids : List IDS) (hinit : 1 ≤ initSize)
    (hwf : ∀ f, f ∈ fracs → FracWF bits P f) (hnames : (fracs.map (·.name)).Nodup)
    (hnd : (ids.map (·.id)).Nodup) :
    fetchFiltered bits maxFetch initSize len allowList fields isEmpty dec fracs ids =
      (ids.map fun i => filterEntry allowList fields isEmpty dec (specDoc bits P fracs i), .done) := by
  unfold fetchFiltered
  rw [fetchStream_spec bits maxFetch initSize len P fracs ids hinit hwf hnames hnd]
  simp [List.map_map, Function.comp_def]

/-- the chunking parameters (`MaxFetchSizeBytes`, the initial chunk size, the length measure) are invisible -/
theorem ff_chunking_invisible (bits m1 i1 m2 i2 : Nat) (len1 len2 : D → Nat) (P : Frac D → ID → Nat)
    (allowList : Bool) (fields : List K) (isEmpty : D → Bool) (dec : D → Option (List (Fld K V)))
    (fracs : List (Frac D)) (ids : List IDS) (h1 : 1 ≤ i1) (h2 : 1 ≤ i2)
    (hwf : ∀ f, f ∈ fracs → FracWF bits P f) (hnames : (fracs.map (·.name)).Nodup)
    (hnd : (ids.map (·.id)).Nodup) :
    fetchFiltered bits m1 i1 len1 allowList fields isEmpty dec fracs ids =
      fetchFiltered bits m2 i2 len2 allowList fields isEmpty dec fracs ids := by
  rw [ff_stream_eq_spec bits m1 i1 len1 P allowList fields isEmpty dec fracs ids h1 hwf hnames hnd,
    ff_stream_eq_spec bits m2 i2 len2 P allowList fields isEmpty dec fracs ids h2 hwf hnames hnd]

/-- a not-found entry stays the empty document whatever the filter -/
theorem ff_not_found (allowList : Bool) (fields : List K) (isEmpty : D → Bool) (dec : D → Option (List (Fld K V))) :
    filterEntry allowList fields isEmpty dec none = .verbatim := by
  unfold filterEntry filterFields
  simp

/-- no filter, an empty stored document or a document that is not a JSON object: the stored bytes -/
theorem ff_verbatim (allowList : Bool) (fields : List K) (isEmpty : D → Bool) (dec : D → Option (List (Fld K V)))
    (d : D) (h : fields = [] ∨ isEmpty d = true ∨ dec d = none) :
    filterEntry allowList fields isEmpty dec (some d) = .verbatim := by
  unfold filterEntry filterFields
  rcases h with h | h | h
  · simp [h]
  · simp [h]
  · simp [h]

/-- a found JSON object under a non-empty filter: the re-encoded fields are exactly the stored fields the filter
keeps (allow-list: the listed names; block-list: the others, for unique top-level names), each the stored node -/
theorem ff_projection (allowList : Bool) (fields : List K) (isEmpty : D → Bool) (dec : D → Option (List (Fld K V)))
    (d : D) (doc : List (Fld K V)) (hne : fields ≠ []) (hd : dec d = some doc) (he : isEmpty d = false)
    (htags : (doc.map (·.tag)).Nodup) (hkeys : allowList = false → (doc.map (·.key)).Nodup) :
    ∃ fs, filterEntry allowList fields isEmpty dec (some d) = .encoded fs ∧
      fs.Perm (doc.filter fun f => fields.contains f.key == allowList) := by
  have hemp : fields.isEmpty = false := by
    cases fields with
    | nil => exact absurd rfl hne
    | cons _ _ => rfl
  cases allowList with
  | true =>
    refine ⟨filterAllow fields doc, ?_, ?_⟩
    · unfold filterEntry filterFields
      simp [hd, he, hemp]
    · obtain ⟨hnd, hmem⟩ := filterAllow_spec fields doc htags
      rw [List.perm_ext_iff_of_nodup hnd ((nodup_of_tags htags).filter _)]
      intro x
      rw [hmem x, List.mem_filter]
      simp
  | false =>
    refine ⟨filterExcept fields doc, ?_, ?_⟩
    · unfold filterEntry filterFields
      simp [hd, he, hemp]
    · obtain ⟨hnd, _, hmem⟩ := filterExcept_spec fields doc (nodup_of_tags htags) (hkeys rfl)
      rw [List.perm_ext_iff_of_nodup hnd ((nodup_of_tags htags).filter _)]
      intro x
      rw [hmem x, List.mem_filter]
      simp

/-- **capstone**: position `i` of the answer to a fetch with a fields pipe is the projection of the document stored
under `ids[i]` - the filter neither drops, reorders nor mixes entries, whatever the chunking -/
theorem ff_fetch_entry (bits maxFetch initSize : Nat) (len : D → Nat) (P : Frac D → ID → Nat)
    (allowList : Bool) (fields : List K) (isEmpty : D → Bool) (dec : D → Option (List (Fld K V)))
    (fracs : List (Frac D)) (ids : List IDS) (hinit : 1 ≤ initSize)
    (hwf : ∀ f, f ∈ fracs → FracWF bits P f) (hnames : (fracs.map (·.name)).Nodup)
    (hnd : (ids.map (·.id)).Nodup) (hne : fields ≠ [])
    (i : Nat) (hi : i < ids.length) (d : D) (doc : List (Fld K V))
    (hspec : specDoc bits P fracs ids[i] = some d) (hd : dec d = some doc) (he : isEmpty d = false)
    (htags : (doc.map (·.tag)).Nodup) (hkeys : allowList = false → (doc.map (·.key)).Nodup) :
    (fetchFiltered bits maxFetch initSize len allowList fields isEmpty dec fracs ids).2 = .done ∧
    ∃ fs, (fetchFiltered bits maxFetch initSize len allowList fields isEmpty dec fracs ids).1[i]? = some (.encoded fs) ∧
      fs.Perm (doc.filter fun f => fields.contains f.key == allowList) := by
  rw [ff_stream_eq_spec bits maxFetch initSize len P allowList fields isEmpty dec fracs ids hinit hwf hnames hnd]
  refine ⟨rfl, ?_⟩
  obtain ⟨fs, hfs, hperm⟩ := ff_projection allowList fields isEmpty dec d doc hne hd he htags hkeys
  refine ⟨fs, ?_, hperm⟩
  simp [hi, hspec, hfs]

/-- the answer has one entry per requested ID -/
theorem ff_length (bits maxFetch initSize : Nat) (len : D → Nat) (P : Frac D → ID → Nat)
    (allowList : Bool) (fields : List K) (isEmpty : D → Bool) (dec : D → Option (List (Fld K V)))
    (fracs : List (Frac D)) (ids : List IDS) (hinit : 1 ≤ initSize)
    (hwf : ∀ f, f ∈ fracs → FracWF bits P f) (hnames : (fracs.map (·.name)).Nodup)
    (hnd : (ids.map (·.id)).Nodup) :
    (fetchFiltered bits maxFetch initSize len allowList fields isEmpty dec fracs ids).1.length = ids.length := by
  rw [ff_stream_eq_spec bits maxFetch initSize len P allowList fields isEmpty dec fracs ids hinit hwf hnames hnd]
  simp


/-- **from the query's pipes to the store's answer**: the first `fields` pipe of the query (`| fields a, b` or
`| fields except a, b`, after any pipes of other kinds) decides the filter the proxy sends (`tryParseFieldsFilter`), and
position `i` of the store's filtered stream is that projection of the document stored under `ids[i]` -/
theorem ff_pipe_to_entry (bits maxFetch initSize : Nat) (len : D → Nat) (P : Frac D → ID → Nat)
    (pre post : List (Option (List K × Bool))) (fs : List K) (except : Bool) (hpre : ∀ p, p ∈ pre → p = none)
    (isEmpty : D → Bool) (dec : D → Option (List (Fld K V)))
    (fracs : List (Frac D)) (ids : List IDS) (hinit : 1 ≤ initSize)
    (hwf : ∀ f, f ∈ fracs → FracWF bits P f) (hnames : (fracs.map (·.name)).Nodup)
    (hnd : (ids.map (·.id)).Nodup) (hne : fs ≠ [])
    (i : Nat) (hi : i < ids.length) (d : D) (doc : List (Fld K V))
    (hspec : specDoc bits P fracs ids[i] = some d) (hd : dec d = some doc) (he : isEmpty d = false)
    (htags : (doc.map (·.tag)).Nodup) (hkeys : except = true → (doc.map (·.key)).Nodup) :
    ∃ allow, firstFieldsPipe (pre ++ some (fs, except) :: post) = some (fs, allow) ∧ allow = !except ∧
      ∃ out, (fetchFiltered bits maxFetch initSize len allow fs isEmpty dec fracs ids).1[i]? = some (.encoded out) ∧
        out.Perm (doc.filter fun f => fs.contains f.key == allow) := by
  refine ⟨!except, SV.Props.C20.c20_first_pipe pre fs except post hpre, rfl, ?_⟩
  exact (ff_fetch_entry bits maxFetch initSize len P (!except) fs isEmpty dec fracs ids hinit hwf hnames hnd hne i hi d doc
    hspec hd he htags (fun h => hkeys (by cases except <;> simp_all))).2

/-! ## Non-vacuity: a concrete active fraction of JSON-object documents meets every hypothesis of `ff_fetch_entry` -/
section Example
def exMap : List (ID × Nat) := [(⟨6, 6⟩, packDocPos 30 0 4), (⟨7, 1⟩, packDocPos 30 2 0)]
def exDoc (b o : Nat) : List (Fld String Nat) := [⟨0, "a", b⟩, ⟨1, "b", o⟩, ⟨2, "c", 7⟩]
def exF : Frac (List (Fld String Nat)) :=
  activeFrac 2 (fun m => 6 ≤ m ∧ m ≤ 7) (fun lo hi => lo ≤ 7 ∧ 6 ≤ hi) exMap exDoc
def exP (_ : Frac (List (Fld String Nat))) : ID → Nat := mapGet exMap
def exIds : List IDS := [⟨⟨7, 1⟩, none⟩, ⟨⟨9, 9⟩, none⟩, ⟨⟨6, 6⟩, none⟩]

theorem ff_example_wf : ∀ f, f ∈ [exF] → FracWF 30 exP f := by
  intro f hf
  simp only [List.mem_cons, List.not_mem_nil, or_false] at hf
  subst hf
  apply activeFrac_wf 30 exP 2 _ _ exMap _ (by rfl)
  · intro id h
    have := mapGet_mem exMap id h
    simp only [exMap, List.map_cons, List.map_nil, List.mem_cons, List.not_mem_nil, or_false] at this
    rcases this with rfl | rfl <;> decide
  · intro id lo hi h h1 h2
    have := mapGet_mem exMap id h
    simp only [exMap, List.map_cons, List.map_nil, List.mem_cons, List.not_mem_nil, or_false] at this
    rcases this with rfl | rfl <;> (simp at h1 h2 ⊢; omega)

/-- entry 0 (`7:1`) of a block-list fetch `| fields except b`, chunks of one document: fields `a` and `c` of the stored
document, and entry 1 (absent `9:9`) is the empty document -/
example :
    (∃ fs, (fetchFiltered 30 4194304 1 (fun _ => 2) false ["b"] (fun _ => false) some [exF] exIds).1[0]? = some (.encoded fs) ∧
      fs.Perm [⟨0, "a", 2⟩, ⟨2, "c", 7⟩]) ∧
    specDoc 30 exP [exF] ⟨⟨9, 9⟩, none⟩ = none := by
  refine ⟨?_, by decide⟩
  exact (ff_fetch_entry 30 4194304 1 (fun _ => 2) exP false ["b"] (fun _ => false) some [exF] exIds (by decide)
    ff_example_wf (by decide) (by decide) (by decide) 0 (by decide) (exDoc 2 0) (exDoc 2 0) (by decide) rfl rfl
    (by decide) (fun _ => by decide)).2
end Example

end SV.FetchFields
