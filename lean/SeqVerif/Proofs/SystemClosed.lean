import SeqVerif.Proofs.SystemReplay
import SeqVerif.Consistency.SysHypsB
/-!
# Whole pipeline - closed form (`sys_ingest_to_read`)

The interface hypotheses of `Proofs/SystemReplay.lean` / `SystemSealed.lean` that the consistency layer derived
(`Consistency/SysHyps.lean`, `SysHypsB.lean`, imported read-only) are discharged here:
`ExtBlind dec` (concrete decoder `sysDecC10`: codec byte + payload only), `hsame` (re-deliveries are re-sends of the same
payload), `Quiescent (readC03 U h)`, `hz`, the `_all_` token.  What is left is listed at `sys_ingest_to_read`.

**Restriction (all `sys_i1_*` / `sys_ingest_to_read*` theorems):** bulks WITHOUT nested metas.  `DistinctBulks` /
`NonEmptyDocs` are false on C10's own output for a document with an element in a `nested`-typed field
(`cons_sys_hd_hs_false_for_nested_witness`: a second meta with the same ID and `Size = 0`).  C17 handles such bulks
(`GoodBulks`, `indexBulk_specN`), C02's reachable-state lemmas (`ActiveReach.reachable_awf / reachable_docs / run_spec`) do
not have the nested versions; missing lemma: `reachable_docsN` - the arrival documents of a `GoodBulks` history, one per meta,
several LIDs sharing an ID.
-/
namespace SV.Sys
open SV SV.Spec SV.ProxySearch SV.ProxyCompose SV.ProxyE2E SV.Consistency

/-- the concrete meta-block decoder (codec 0, C10's record framing and `decMeta`) ignores the `ext` header fields -/
theorem sys_extBlind_decC10 : ExtBlind sysDecC10 := cons_sys_extBlind_sysDecC10

/-- re-deliveries that are re-sends of one payload carry the same tokens (`hsame` of `sys_i1_redelivered`) -/
theorem sys_hsame_of_retries (h : List (List Collector.Meta)) (hd : Collector.DistinctBulks h) (B : List Collector.Meta)
    (hB : B ∈ h) (m : Collector.Meta) (hm : m ∈ B) (hretry : ∀ b ∈ h, (∃ m' ∈ b, m'.id = m.id) → b = B) :
    ∀ b ∈ h, ∀ m' ∈ b, m'.id = m.id → m'.tokens = m.tokens :=
  cons_sys_hsame_of_samePayload h B m hm (hd B hB) hretry

/-- **sys_ingest_to_read - closed form** (crash / restart histories, re-deliveries, active fraction rebuilt by replay;
bulks without nested metas - see the header).  Discharged inside: the decoder (`sysDecC10`, `ExtBlind` by
`cons_sys_extBlind_sysDecC10`), `hsame` (`cons_sys_hsame_of_samePayload`), C01 durability and replay, C17 idempotence, the
C02 index, C05's loop, C16's merge / page, C09's acknowledgement, findability at Spec level, soundness.

Hypotheses left, by kind:
* **junction J'** (to be replaced by `c01_bulk_handler_ack` when it lands): for the shard all of whose replicas returned success (C09's full set - the per-success form
  is false for R >= 2, Consistency/SysJunction.lean) the payload's two blocks `blk` are an acknowledged bulk of the serving
  store's history `Hst s`, on a shard that is read; DISCHARGED from the transport premise in `sys_ingest_to_read_transport`;
* **R** (environment): the only bulks that deliver this document's ID are re-sends of this payload (RID non-collision);
* **C12 literal**: the query is the literal `field:value` (from query text: `c12_toQuery_docMatches`, C11 `c11_text/keyword`);
* **shape of the histories** (the nested-meta restriction and well-formed events): `hwf hd hs hg`;
* **read-time facts**: every shard has an answering replica which answers `SearchDocs` of the fraction it serves (`hall hans`),
  `MaxFractionHits` does not reject (`hmax`), any arrival order (`hh`), no `int` wrap (`hlim`), same order (`hdesc`);
* C09: the acknowledgement itself (`hack`, a hot tier with replicas).
(I2, the bytes on fetch, is only needed for `sys_fetch_verbatim_partial`.) -/
theorem sys_ingest_to_read (c : Merge.Cfg) (f v : Bytes) (from_ to_ : Nat) (hot : List (List Call))
    (hotArr coldArr : List (Nat × ShardRes)) (hh : hotArr.Perm (indexed 0 (hot.map searchShard)))
    (offset size : Nat) (hlim : limitWraps offset size = false) (rev : Bool) (hdesc : c.desc = !rev)
    (Hst : Nat → List WPath.Ev) (hwf : ∀ s, ∀ e ∈ Hst s, e.WF)
    (hd : ∀ s, Collector.DistinctBulks (handed sysDecC10 (Hst s)))
    (hs : ∀ s, Collector.NonEmptyDocs (handed sysDecC10 (Hst s)))
    (hg : ∀ s, ActiveReach.GoodIDs (handed sysDecC10 (Hst s)))
    (hmax : ∀ s, c.maxHits = 0 ∨ (Merge.filterInRange
      (storeFracs [activeFrac (reached (handed sysDecC10 (Hst s)))] (.leaf (.lit f [.text v])) from_ to_) from_ to_).length
        ≤ c.maxHits)
    (hne : hot ≠ []) (hall : ∀ calls ∈ hot, (searchShard calls).isOk = true)
    (hans : ∀ s calls rep ids t e, hot[s]? = some calls → searchShard calls = .ok rep ids t e →
      (∀ i ∈ ids, i.2 < Merge.R) ∧
      ∃ r, Merge.searchDocs c (storeFracs [activeFrac (reached (handed sysDecC10 (Hst s)))] (.leaf (.lit f [.text v])) from_ to_)
        from_ to_ (offset + size) = some r ∧ r.ids = ids.map keyOf)
    (coldT hotT : Replica.Tier) (oracle : List (List (Nat × Replica.Call) × List (Nat × Replica.Call)))
    (hack : (Replica.storeDocuments coldT hotT oracle Replica.init).1 = true) (hS : hotT.S ≠ 0)
    (blk : WPath.Blk × WPath.Blk)
    (J' : ∀ s, (∀ r, r < hotT.R → (s, r) ∈ (Replica.storeDocuments coldT hotT oracle Replica.init).2.hotLog) →
      s < hot.length ∧ blk ∈ WPath.ackedOf (Hst s))
    (m : Collector.Meta) (hm : m ∈ sysDecC10 (WPath.enc blk.2))
    (R : ∀ s, ∀ b ∈ handed sysDecC10 (Hst s), (∃ m' ∈ b, m'.id = m.id) → b = sysDecC10 (WPath.enc blk.2))
    (tok : Collector.MetaToken) (htok : tok ∈ m.tokens)
    (hfv : ActiveReach.splitTok tok.bytes = (f, v)) (hwin : from_ ≤ m.id.1 ∧ m.id.1 ≤ to_) :
    ∃ ids t e, search hotArr coldArr offset size rev = .ok ids t e false false ∧
      ActiveReach.toID m.id ∈ fullList (allDocs hot.length fun s => [activeFrac (reached (handed sysDecC10 (Hst s)))])
        (.leaf (.lit f [.text v])) from_ to_ rev ∧
      (offset = 0 → (fullList (allDocs hot.length fun s => [activeFrac (reached (handed sysDecC10 (Hst s)))])
          (.leaf (.lit f [.text v])) from_ to_ rev).length ≤ size → ∃ x ∈ ids, toSpecID x.1 = ActiveReach.toID m.id) ∧
      (∀ x ∈ ids, ∃ d ∈ allDocs hot.length (fun s => [activeFrac (reached (handed sysDecC10 (Hst s)))]),
        d.id = toSpecID x.1 ∧ inWindow from_ to_ d = true ∧ docMatches (.leaf (.lit f [.text v])) d = true ∧
        -- ... and that document was ingested: it carries the ID of a meta of a bulk that was attempted and complete
        ∃ sh, ∃ dm ∈ WPath.completeOf (Hst sh), dm ∈ WPath.attemptedOf (Hst sh) ∧
          ∃ mm ∈ sysDecC10 (WPath.enc dm.2), d.id = ActiveReach.toID mm.id) := by
  have hok : ∀ s, ∀ fr ∈ (fun s => [activeFrac (reached (handed sysDecC10 (Hst s)))]) s, fr.OK from_ := by
    intro s fr hfr
    simp only [List.mem_singleton] at hfr
    subst hfr
    exact (sys_i1_active _ (hd s) (hs s) (hg s) from_).1
  have serve : ∀ s, (∀ r, r < hotT.R → (s, r) ∈ (Replica.storeDocuments coldT hotT oracle Replica.init).2.hotLog) →
      s < hot.length ∧ ∃ d ∈ storedDocs ((fun s => [activeFrac (reached (handed sysDecC10 (Hst s)))]) s),
        d.id = ActiveReach.toID m.id ∧ (f, v) ∈ d.tokens := by
    intro s hsr
    obtain ⟨hlt, hacked⟩ := J' s hsr
    have hB := (sys_i1_replayed sysDecC10 sys_extBlind_decC10 (Hst s) (hwf s)).1 blk hacked
    have hsame := sys_hsame_of_retries _ (hd s) _ hB m hm (R s)
    obtain ⟨d, hdIn, hdid, hdtok⟩ := sys_i1_redelivered _ (hd s) (hs s) (hg s) from_ _ hB m hm hsame
    exact ⟨hlt, d, hdIn, hdid, by rw [← hfv]; exact hdtok tok htok⟩
  obtain ⟨ids, t, e, h1, h2, h3, h4⟩ := sys_served_found c f v from_ to_ hot hotArr coldArr hh offset size hlim rev hdesc
    (fun s => [activeFrac (reached (handed sysDecC10 (Hst s)))]) hok hmax hne hall hans coldT hotT oracle hack hS
    (ActiveReach.toID m.id) hwin serve
  refine ⟨ids, t, e, h1, h2, h3, ?_⟩
  intro x hx
  obtain ⟨d, hdAll, hdid, hw, hmatch⟩ := h4 x hx
  refine ⟨d, hdAll, hdid, hw, hmatch, ?_⟩
  -- which shard's fraction stores it
  unfold allDocs storedDocs at hdAll
  obtain ⟨fr, hfr, hdfr⟩ := List.mem_flatMap.mp hdAll
  obtain ⟨sh, _, hfrs⟩ := List.mem_flatMap.mp hfr
  simp only [List.mem_singleton] at hfrs
  subst hfrs
  have hdin : d ∈ storedDocs [activeFrac (reached (handed sysDecC10 (Hst sh)))] := by
    simp only [storedDocs, List.flatMap_cons, List.flatMap_nil, List.append_nil]; exact hdfr
  obtain ⟨dm, hc, ha, mm, hmm, hid, _⟩ := sys_only_ingested sysDecC10 sys_extBlind_decC10 (Hst sh) (hwf sh) (hd sh) (hs sh)
    (hg sh) d hdin
  exact ⟨sh, dm, hc, ha, mm, hmm, hid⟩

/-! ## closed form for stores serving active and sealed fractions (no crash) -/

theorem sys_eq_of_same_id (b : List Collector.Meta) (hnd : (b.map (·.id)).Nodup) (k m : Collector.Meta)
    (hk : k ∈ b) (hm : m ∈ b) (hid : k.id = m.id) : k = m := by
  induction b with
  | nil => cases hm
  | cons x xs ih =>
    simp only [List.map_cons, List.nodup_cons, List.mem_map] at hnd
    rcases List.mem_cons.mp hm with rfl | hm1
    · rcases List.mem_cons.mp hk with rfl | hk2
      · rfl
      · exact absurd ⟨k, hk2, hid⟩ hnd.1
    · rcases List.mem_cons.mp hk with rfl | hk2
      · exact absurd ⟨m, hm1, hid.symm⟩ hnd.1
      · exact ih hnd.2 hk2 hm1

/-- when the only deliveries of `m`'s ID are re-sends of `m`'s own bulk, `m` itself is the kept (first) delivery -/
theorem sys_kept_of_retries (h : List (List Collector.Meta)) (hd : Collector.DistinctBulks h) (hs : Collector.NonEmptyDocs h)
    (B : List Collector.Meta) (hB : B ∈ h) (m : Collector.Meta) (hm : m ∈ B)
    (hretry : ∀ b ∈ h, (∃ m' ∈ b, m'.id = m.id) → b = B) : m ∈ ActiveReach.keptRun Collector.Active.empty h := by
  obtain ⟨k, hk, hkid, b, hb, hkb⟩ := sys_kept_of_delivered h hd hs B hB m hm
  have hbB := hretry b hb ⟨k, hkb, hkid⟩
  subst hbB
  have : k = m := sys_eq_of_same_id b (hd b hB) k m hkb hm hkid
  rw [← this]; exact hk

/-- what a store that took the bulk `B` serves at read time (no crash) - `Holds` with the derivable hypotheses removed:
the state is quiescent (`cons_sys_quiescent_of_c17_run`), holds no `0:0` ID (`cons_sys_hz_of_goodIDs`), the metas carry
`_all_` (`cons_sys_allToken_of_c10`: `hallTok`), re-deliveries are re-sends (`hretry`, so `m` is a first delivery) -/
inductive HoldsC (names : List Bytes) (fs : List Merge.FracIdx) (B : List Collector.Meta) (m : Collector.Meta) : Prop
  | active (h : List (List Collector.Meta)) (hB : B ∈ h) (hd : Collector.DistinctBulks h) (hs : Collector.NonEmptyDocs h)
      (hg : ActiveReach.GoodIDs h) (hretry : ∀ b ∈ h, (∃ m' ∈ b, m'.id = m.id) → b = B)
      (hin : activeFrac (reached h) ∈ fs) : HoldsC names fs B m
  | sealed (h : List (List Collector.Meta)) (hB : B ∈ h) (hd : Collector.DistinctBulks h) (hs : Collector.NonEmptyDocs h)
      (hg : ActiveReach.GoodIDs h) (hallTok : AllTokEverywhere h)
      (hretry : ∀ b ∈ h, (∃ m' ∈ b, m'.id = m.id) → b = B)
      (U : List (List (Bytes × C03.Tok))) (size cap rbs base : Nat) (posOf : C03.ID → Nat)
      (hsize : 1 ≤ size) (hcap : 1 ≤ cap) (sl : C03.Sealed)
      (hseal : C03.sealFrac size size cap rbs base posOf (readC03 U h) = .ok sl) (fr to : Nat)
      (hb : ∀ l ∈ (readC03 U h).allDocs, fr ≤ (readC03 U h).mids.getD l 0 ∧ (readC03 U h).mids.getD l 0 ≤ to)
      (hcov : ∀ tok ∈ m.tokens, Covers names U tok.bytes)
      (hin : sealedFrac names (readC03 U h) sl fr to ∈ fs) : HoldsC names fs B m

/-- the sealed fraction of a reached state is well formed for C02 / C05 - with `Quiescent` and `hz` derived -/
theorem sys_sealed_ok_closed (names : List Bytes) (U : List (List (Bytes × C03.Tok))) (size cap rbs base : Nat)
    (posOf : C03.ID → Nat) (h : List (List Collector.Meta)) (hd : Collector.DistinctBulks h)
    (hs : Collector.NonEmptyDocs h) (hg : ActiveReach.GoodIDs h) (hallTok : AllTokEverywhere h)
    (hsize : 1 ≤ size) (hcap : 1 ≤ cap) (sl : C03.Sealed)
    (hseal : C03.sealFrac size size cap rbs base posOf (readC03 U h) = .ok sl) (fr to : Nat)
    (hb : ∀ l ∈ (readC03 U h).allDocs, fr ≤ (readC03 U h).mids.getD l 0 ∧ (readC03 U h).mids.getD l 0 ≤ to)
    (from_ : Nat) : (sealedFrac names (readC03 U h) sl fr to).OK from_ :=
  (sys_i1_sealed names U size cap rbs base posOf h hd hs (cons_sys_quiescent_of_c17_run U h hd hs hg hallTok) hsize hcap sl
    hseal fr to hb (cons_sys_hz_of_goodIDs U h hd hs hg hallTok) from_).1

/-- **sys_i1_mixed_closed.**  A store in either state serves a document with `m`'s ID and tokens. -/
theorem sys_i1_mixed_closed (names : List Bytes) (from_ : Nat) (fs : List Merge.FracIdx) (B : List Collector.Meta)
    (m : Collector.Meta) (hm : m ∈ B) (H : HoldsC names fs B m) :
    ∃ d ∈ storedDocs fs, d.id = ActiveReach.toID m.id ∧ ∀ tok ∈ m.tokens, ActiveReach.splitTok tok.bytes ∈ d.tokens := by
  cases H with
  | active h hB hd hs hg hretry hin =>
    obtain ⟨d, hdIn, hdid, hdtok⟩ := (sys_i1_active h hd hs hg from_).2 m (sys_kept_of_retries h hd hs B hB m hm hretry)
    exact ⟨d, sys_storedDocs_mono fs _ hin d hdIn, hdid, hdtok⟩
  | «sealed» h hB hd hs hg hallTok hretry U size cap rbs base posOf hsize hcap sl hseal fr to hb hcov hin =>
    obtain ⟨d, hdIn, hdid, hdtok⟩ := (sys_i1_sealed names U size cap rbs base posOf h hd hs
      (cons_sys_quiescent_of_c17_run U h hd hs hg hallTok) hsize hcap sl hseal fr to hb
      (cons_sys_hz_of_goodIDs U h hd hs hg hallTok) from_).2 m (sys_kept_of_retries h hd hs B hB m hm hretry)
      (hallTok B hB m hm)
    exact ⟨d, sys_storedDocs_mono fs _ hin d hdIn, hdid, fun tok htok => hdtok tok htok (hcov tok htok)⟩

/-- **sys_ingest_to_read_mixed - closed form for any mix of active and sealed fractions (no crash).**  Hypotheses left:
J (a successful replica call => the store is a shard that is read and `HoldsC` the bulk: the fraction it went into is still
active or was sealed from the reached state, with the sealer's token table covering the meta's tokens - `Covers` - and
`Info().From/To` bounding the MIDs - `hb`); re-deliveries are re-sends (inside `HoldsC`); the C12 literal; the shape of the
histories (no nested metas); `hok` for the *other* fractions the shards serve (per fraction by `sys_active_frac_ok` /
`sys_sealed_ok_closed`); the read-time facts and C09's acknowledgement as in `sys_ingest_to_read`. -/
theorem sys_ingest_to_read_mixed (names : List Bytes) (c : Merge.Cfg) (f v : Bytes) (from_ to_ : Nat)
    (hot : List (List Call)) (hotArr coldArr : List (Nat × ShardRes))
    (hh : hotArr.Perm (indexed 0 (hot.map searchShard)))
    (offset size : Nat) (hlim : limitWraps offset size = false) (rev : Bool) (hdesc : c.desc = !rev)
    (fracs : Nat → List Merge.FracIdx) (hok : ∀ s, ∀ fr ∈ fracs s, fr.OK from_)
    (hmax : ∀ s, c.maxHits = 0 ∨
      (Merge.filterInRange (storeFracs (fracs s) (.leaf (.lit f [.text v])) from_ to_) from_ to_).length ≤ c.maxHits)
    (hne : hot ≠ []) (hall : ∀ calls ∈ hot, (searchShard calls).isOk = true)
    (hans : ∀ s calls rep ids t e, hot[s]? = some calls → searchShard calls = .ok rep ids t e →
      (∀ i ∈ ids, i.2 < Merge.R) ∧
      ∃ r, Merge.searchDocs c (storeFracs (fracs s) (.leaf (.lit f [.text v])) from_ to_) from_ to_ (offset + size) = some r ∧
        r.ids = ids.map keyOf)
    (coldT hotT : Replica.Tier) (oracle : List (List (Nat × Replica.Call) × List (Nat × Replica.Call)))
    (hack : (Replica.storeDocuments coldT hotT oracle Replica.init).1 = true) (hS : hotT.S ≠ 0)
    (B : List Collector.Meta) (m : Collector.Meta) (hm : m ∈ B)
    (J : ∀ s, (∀ r, r < hotT.R → (s, r) ∈ (Replica.storeDocuments coldT hotT oracle Replica.init).2.hotLog) →
      s < hot.length ∧ HoldsC names (fracs s) B m)
    (tok : Collector.MetaToken) (htok : tok ∈ m.tokens)
    (hfv : ActiveReach.splitTok tok.bytes = (f, v)) (hwin : from_ ≤ m.id.1 ∧ m.id.1 ≤ to_) :
    ∃ ids t e, search hotArr coldArr offset size rev = .ok ids t e false false ∧
      ActiveReach.toID m.id ∈ fullList (allDocs hot.length fracs) (.leaf (.lit f [.text v])) from_ to_ rev ∧
      (offset = 0 → (fullList (allDocs hot.length fracs) (.leaf (.lit f [.text v])) from_ to_ rev).length ≤ size →
        ∃ x ∈ ids, toSpecID x.1 = ActiveReach.toID m.id) ∧
      (∀ x ∈ ids, ∃ d ∈ allDocs hot.length fracs, d.id = toSpecID x.1 ∧ inWindow from_ to_ d = true ∧
        docMatches (.leaf (.lit f [.text v])) d = true) := by
  apply sys_served_found c f v from_ to_ hot hotArr coldArr hh offset size hlim rev hdesc fracs hok hmax hne hall hans
    coldT hotT oracle hack hS (ActiveReach.toID m.id) hwin
  intro s hsr
  obtain ⟨hlt, H⟩ := J s hsr
  obtain ⟨d, hdIn, hdid, hdtok⟩ := sys_i1_mixed_closed names from_ (fracs s) B m hm H
  exact ⟨hlt, d, hdIn, hdid, by rw [← hfv]; exact hdtok tok htok⟩

/-- `Covers` is met by the table that lists every token of the bulk under its own key (`cons_sys_covers_of_tableOf`) -/
theorem sys_covers_instance (bs : List Collector.Bytes) (b : Collector.Bytes) (hb : b ∈ bs) :
    Covers (sysNamesOf bs) (sysTableOf bs) b := cons_sys_covers_of_tableOf bs b hb

end SV.Sys
