import SeqVerif.Consistency.ActiveLids
import SeqVerif.Consistency.AggCodecCons
import SeqVerif.Consistency.AggSourceCons
import SeqVerif.Consistency.ApiAsyncCons
import SeqVerif.Consistency.ApiSearchCons
import SeqVerif.Consistency.BinSearch
import SeqVerif.Consistency.BinSearchSort
import SeqVerif.Consistency.Borders
import SeqVerif.Consistency.BudgetCons
import SeqVerif.Consistency.BufWriterCons
import SeqVerif.Consistency.BulkConfigCons
import SeqVerif.Consistency.BulkIDCons
import SeqVerif.Consistency.CacheW2
import SeqVerif.Consistency.CancelledStart
import SeqVerif.Consistency.CaseFold
import SeqVerif.Consistency.Collector
import SeqVerif.Consistency.CollectorReuseCons
import SeqVerif.Consistency.CollectorRun
import SeqVerif.Consistency.DigitsVal
import SeqVerif.Consistency.DocBytes
import SeqVerif.Consistency.DocBytesReplay
import SeqVerif.Consistency.DocPos
import SeqVerif.Consistency.DocsCacheKey
import SeqVerif.Consistency.DurableAck
import SeqVerif.Consistency.FetchArrangeCons
import SeqVerif.Consistency.FileSet
import SeqVerif.Consistency.FileSetRetention
import SeqVerif.Consistency.FilterStats
import SeqVerif.Consistency.FracInfoFetch
import SeqVerif.Consistency.FracRange
import SeqVerif.Consistency.GroupIDs
import SeqVerif.Consistency.HandlerRetry
import SeqVerif.Consistency.Handover
import SeqVerif.Consistency.HandoverQueue
import SeqVerif.Consistency.Hist
import SeqVerif.Consistency.IdOrder
import SeqVerif.Consistency.IdsLookup
import SeqVerif.Consistency.IdsLookupActive
import SeqVerif.Consistency.Int64
import SeqVerif.Consistency.InverserPool
import SeqVerif.Consistency.Keywords
import SeqVerif.Consistency.LexerClasses
import SeqVerif.Consistency.LoadOrder
import SeqVerif.Consistency.LoaderCons
import SeqVerif.Consistency.MergeAggsCons
import SeqVerif.Consistency.MergeQPR
import SeqVerif.Consistency.MetaCodec
import SeqVerif.Consistency.Nodes
import SeqVerif.Consistency.NodesC03
import SeqVerif.Consistency.NodesHist
import SeqVerif.Consistency.NumToken
import SeqVerif.Consistency.NumVal
import SeqVerif.Consistency.NumValParser
import SeqVerif.Consistency.PNot
import SeqVerif.Consistency.PageContract
import SeqVerif.Consistency.Paginate
import SeqVerif.Consistency.Positions
import SeqVerif.Consistency.ProtoDocs
import SeqVerif.Consistency.ProxyApiCons
import SeqVerif.Consistency.ProxyFracLife
import SeqVerif.Consistency.ScatterBatched
import SeqVerif.Consistency.SealSync
import SeqVerif.Consistency.Seeds
import SeqVerif.Consistency.SeedsB
import SeqVerif.Consistency.SeedsC
import SeqVerif.Consistency.SeedsD
import SeqVerif.Consistency.ShardCode
import SeqVerif.Consistency.SysHyps
import SeqVerif.Consistency.SysHypsB
import SeqVerif.Consistency.SysJunction
import SeqVerif.Consistency.TimeRule
import SeqVerif.Consistency.TimeRuleBuckets
import SeqVerif.Consistency.TokenTable
import SeqVerif.Consistency.Tokenizer
/-!
# Model consistency (umbrella)

Imports every module of `SeqVerif/Consistency/`: theorems `cons_*` (namespace `SV.Consistency`) proving that the
separately written Lean models of one Go function agree (after an explicit change of representation), or exhibiting
the difference as a `*_witness` theorem.  Built and audited by `/verif/tools/consistency.sh`, which also checks that
no file of the directory is missing here.  Inventory: DESIGN.md / the report of the consistency task.
-/
