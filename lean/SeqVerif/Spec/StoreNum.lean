import SeqVerif.Spec.StoreLemmas
/-!
# The Spec with the numeric reading of token values as a parameter

`Spec/Store.lean` fixes the meaning of numbers in range leaves to `numVal` (decimal integers).  The code asks
`strconv.ParseFloat`; to let the Spec be the reference for any such oracle, the definitions are repeated here with the
reading `num : Bytes → Option Int` as a parameter (integer keys are enough: a monotone key of the parsed float, see
C13's `Model/PatternRange.lean`).  Nothing in `Spec/Store.lean` changes: `valMatch = valMatchWith numVal`,
`docMatches = docMatchesWith numVal`, `hits = hitsWith numVal`, `search = searchWith numVal` (below, by `rfl`).
-/
namespace SV.Spec

def boundIsNumWith (num : Bytes → Option Int) : Option Bytes → Bool
  | none => true
  | some b => (num b).isSome

/-- `Leaf.valMatch` with the numeric reading `num`: a range whose given bounds are both numbers (for `num`) compares
numbers (values that are no numbers never match), any other range compares byte strings -/
def Leaf.valMatchWith (num : Bytes → Option Int) : Leaf → Bytes → Bool
  | .lit _ terms, v => globMatch terms v
  | .range _ lo incLo hi incHi, v =>
    if boundIsNumWith num lo && boundIsNumWith num hi then
      match num v with
      | none => false
      | some x =>
        (match lo.bind num with | none => true | some l => if incLo then decide (l ≤ x) else decide (l < x)) &&
        (match hi.bind num with | none => true | some h => if incHi then decide (x ≤ h) else decide (x < h))
    else
      (match lo with | none => true | some l => if incLo then bytesLe l v else bytesLt l v) &&
      (match hi with | none => true | some h => if incHi then bytesLe v h else bytesLt v h)

def Doc.hasLeafWith (num : Bytes → Option Int) (d : Doc) (l : Leaf) : Bool :=
  d.tokens.any fun t => t.1 == l.field && l.valMatchWith num t.2

def docMatchesWith (num : Bytes → Option Int) : Query → Doc → Bool
  | .leaf l, d => d.hasLeafWith num l
  | .and a b, d => docMatchesWith num a d && docMatchesWith num b d
  | .or a b, d => docMatchesWith num a d || docMatchesWith num b d
  | .not a, d => !docMatchesWith num a d
  | .nand a b, d => !docMatchesWith num a d && docMatchesWith num b d

def hitsWith (num : Bytes → Option Int) (docs : List Doc) (q : Query) (from_ to : Nat) : List Doc :=
  docs.filter fun d => inWindow from_ to d && docMatchesWith num q d

/-- `Spec.search` with the numeric reading `num` -/
def searchWith (num : Bytes → Option Int) (docs : List Doc) (q : Query) (from_ to : Nat) (asc : Bool) (limit : Nat)
    (withTotal : Bool) : Result :=
  let h := hitsWith num docs q from_ to
  { ids := (dedupAdj (sortBy (orderLe asc) (h.map (·.id)))).take limit,
    total := if withTotal then h.length else 0 }

/-! ## the fixed Spec is the instance `num = numVal` -/

theorem boundIsNumWith_numVal (b : Option Bytes) : boundIsNumWith numVal b = boundIsNum b := by
  cases b <;> rfl

theorem valMatchWith_numVal (l : Leaf) (v : Bytes) : l.valMatchWith numVal v = l.valMatch v := by
  cases l with
  | lit f ts => rfl
  | range f lo il hi ih =>
    simp only [Leaf.valMatchWith, Leaf.valMatch, boundIsNumWith_numVal]
    rfl

theorem hasLeafWith_numVal (d : Doc) (l : Leaf) : d.hasLeafWith numVal l = d.hasLeaf l := by
  simp only [Doc.hasLeafWith, Doc.hasLeaf, valMatchWith_numVal]

theorem docMatchesWith_numVal (q : Query) (d : Doc) : docMatchesWith numVal q d = docMatches q d := by
  induction q with
  | leaf l => exact hasLeafWith_numVal d l
  | and a b iha ihb => simp only [docMatchesWith, docMatches, iha, ihb]
  | or a b iha ihb => simp only [docMatchesWith, docMatches, iha, ihb]
  | not a iha => simp only [docMatchesWith, docMatches, iha]
  | nand a b iha ihb => simp only [docMatchesWith, docMatches, iha, ihb]

theorem hitsWith_numVal (docs : List Doc) (q : Query) (from_ to : Nat) : hitsWith numVal docs q from_ to = hits docs q from_ to := by
  simp only [hitsWith, hits, docMatchesWith_numVal]

theorem searchWith_numVal (docs : List Doc) (q : Query) (from_ to : Nat) (asc : Bool) (limit : Nat) (wt : Bool) :
    searchWith numVal docs q from_ to asc limit wt = search docs q from_ to asc limit wt := by
  simp only [searchWith, search, hitsWith_numVal]

/-! ## facts that do not depend on the reading -/

theorem searchWith_perm (num : Bytes → Option Int) (docs docs' : List Doc) (hp : docs'.Perm docs) (q : Query)
    (from_ to : Nat) (asc : Bool) (limit : Nat) (withTotal : Bool) :
    searchWith num docs' q from_ to asc limit withTotal = searchWith num docs q from_ to asc limit withTotal := by
  unfold searchWith hitsWith
  have hf := hp.filter (fun d => inWindow from_ to d && docMatchesWith num q d)
  have hm := hf.map (·.id)
  simp only []
  rw [sortBy_orderLe_eq asc _ (sortBy (orderLe asc) (List.map (·.id) (List.filter _ docs)))
    (sortBy_sorted _ (orderLe_total asc) (fun _ _ _ => orderLe_trans asc) _)
    ((sortBy_perm _ _).trans hm.symm), hf.length_eq]

theorem searchWith_ids_strict (num : Bytes → Option Int) (docs : List Doc) (q : Query) (from_ to : Nat) (asc : Bool)
    (limit : Nat) (wt : Bool) :
    (searchWith num docs q from_ to asc limit wt).ids.Pairwise (fun a b => orderLe asc a b = true ∧ a ≠ b) := by
  unfold searchWith
  simp only []
  exact List.Pairwise.sublist (List.take_sublist _ _)
    (dedupAdj_strict _ (fun _ _ => orderLe_antisymm asc) _
      (sortBy_sorted _ (orderLe_total asc) (fun _ _ _ => orderLe_trans asc) _))

end SV.Spec
