import SeqVerif.Spec.Store
/-!
Facts about the Spec's own definitions (order on IDs, `sortBy`, `dedupAdj`, permutation invariance of
`Spec.search`).  Kept apart from `Spec/Store.lean` so that the Spec itself stays short.
-/
namespace SV.Spec

theorem ID.le_refl (a : ID) : ID.le a a = true := by simp [ID.le]

theorem ID.le_trans {a b c : ID} (h1 : ID.le a b = true) (h2 : ID.le b c = true) : ID.le a c = true := by
  unfold ID.le at *
  split at h1 <;> split at h2 <;> split <;> simp_all <;> omega

theorem ID.le_total (a b : ID) : ID.le a b = true ∨ ID.le b a = true := by
  unfold ID.le
  split <;> split <;> simp_all <;> omega

theorem ID.le_antisymm {a b : ID} (h1 : ID.le a b = true) (h2 : ID.le b a = true) : a = b := by
  unfold ID.le at *
  cases a; cases b
  split at h1 <;> split at h2 <;> simp_all <;> omega

/-- comparing with `(m, R)` where `R` bounds every rid is comparing the mid -/
theorem ID.le_maxRid (a : ID) (m R : Nat) (h : a.rid ≤ R) : ID.le a ⟨m, R⟩ = decide (a.mid ≤ m) := by
  unfold ID.le
  split <;> simp_all <;> omega

theorem orderLe_total (asc : Bool) (a b : ID) : orderLe asc a b = true ∨ orderLe asc b a = true := by
  unfold orderLe; cases asc <;> simp <;> exact ID.le_total _ _

theorem orderLe_trans (asc : Bool) {a b c : ID} (h1 : orderLe asc a b = true) (h2 : orderLe asc b c = true) :
    orderLe asc a c = true := by
  unfold orderLe at *; cases asc <;> simp_all
  · exact ID.le_trans h2 h1
  · exact ID.le_trans h1 h2

theorem orderLe_antisymm (asc : Bool) {a b : ID} (h1 : orderLe asc a b = true) (h2 : orderLe asc b a = true) :
    a = b := by
  unfold orderLe at *; cases asc <;> simp_all
  · exact ID.le_antisymm h2 h1
  · exact ID.le_antisymm h1 h2

/-! ## insertion sort -/

theorem insertBy_perm {α} (le : α → α → Bool) (x : α) (xs : List α) : (insertBy le x xs).Perm (x :: xs) := by
  induction xs with
  | nil => simp [insertBy]
  | cons y ys ih =>
    unfold insertBy
    split
    · exact List.Perm.refl _
    · exact (List.Perm.cons y ih).trans (List.Perm.swap x y ys)

theorem sortBy_perm {α} (le : α → α → Bool) (xs : List α) : (sortBy le xs).Perm xs := by
  induction xs with
  | nil => simp [sortBy]
  | cons x xs ih => exact (insertBy_perm le x _).trans (List.Perm.cons x ih)

theorem insertBy_sorted {α} (le : α → α → Bool) (total : ∀ a b, le a b = true ∨ le b a = true)
    (trans : ∀ a b c, le a b = true → le b c = true → le a c = true) (x : α) (xs : List α)
    (h : xs.Pairwise (fun a b => le a b = true)) : (insertBy le x xs).Pairwise (fun a b => le a b = true) := by
  induction xs with
  | nil => simp [insertBy]
  | cons y ys ih =>
    have h' := List.pairwise_cons.mp h
    unfold insertBy
    split
    · rename_i hxy
      refine List.pairwise_cons.mpr ⟨?_, h⟩
      intro z hz
      rcases List.mem_cons.mp hz with rfl | hz
      · exact hxy
      · exact trans _ _ _ hxy (h'.1 z hz)
    · rename_i hxy
      have hyx : le y x = true := by
        rcases total x y with h1 | h1
        · exact absurd h1 hxy
        · exact h1
      refine List.pairwise_cons.mpr ⟨?_, ih h'.2⟩
      intro z hz
      rcases List.mem_cons.mp ((insertBy_perm le x ys).mem_iff.mp hz) with rfl | hz
      · exact hyx
      · exact h'.1 z hz

theorem sortBy_sorted {α} (le : α → α → Bool) (total : ∀ a b, le a b = true ∨ le b a = true)
    (trans : ∀ a b c, le a b = true → le b c = true → le a c = true) (xs : List α) :
    (sortBy le xs).Pairwise (fun a b => le a b = true) := by
  induction xs with
  | nil => simp [sortBy]
  | cons x xs ih => exact insertBy_sorted le total trans x _ ih

/-- a list that is sorted in the requested direction and a permutation of `xs` *is* the sorted `xs` -/
theorem sortBy_orderLe_eq (asc : Bool) (xs ys : List ID) (hs : ys.Pairwise (fun a b => orderLe asc a b = true))
    (hp : ys.Perm xs) : sortBy (orderLe asc) xs = ys := by
  apply List.Perm.eq_of_pairwise (le := fun a b => orderLe asc a b = true)
  · intro a b _ _ h1 h2; exact orderLe_antisymm asc h1 h2
  · exact sortBy_sorted _ (orderLe_total asc) (fun _ _ _ => orderLe_trans asc) xs
  · exact hs
  · exact (sortBy_perm _ xs).trans hp.symm

/-- **The answer does not depend on the order in which documents were stored.** -/
theorem search_perm (docs docs' : List Doc) (hp : docs'.Perm docs) (q : Query) (from_ to : Nat) (asc : Bool)
    (limit : Nat) (withTotal : Bool) :
    search docs' q from_ to asc limit withTotal = search docs q from_ to asc limit withTotal := by
  unfold search hits
  have hf := hp.filter (fun d => inWindow from_ to d && docMatches q d)
  have hm := hf.map (·.id)
  simp only []
  rw [sortBy_orderLe_eq asc _ (sortBy (orderLe asc) (List.map (·.id) (List.filter _ docs)))
    (sortBy_sorted _ (orderLe_total asc) (fun _ _ _ => orderLe_trans asc) _)
    ((sortBy_perm _ _).trans hm.symm), hf.length_eq]

/-! ## adjacent de-duplication -/

/-- `dedupAdj` with a remembered previous element: the form loops with a `last` variable compute -/
def dedupPrev {α} [DecidableEq α] : Option α → List α → List α
  | _, [] => []
  | prev, x :: rest => if prev = some x then dedupPrev (some x) rest else x :: dedupPrev (some x) rest

theorem dedupPrev_some_cons {α} [DecidableEq α] (x : α) (rest : List α) :
    x :: dedupPrev (some x) rest = dedupAdj (x :: rest) := by
  induction rest generalizing x with
  | nil => simp [dedupPrev, dedupAdj]
  | cons y ys ih =>
    unfold dedupPrev dedupAdj
    by_cases h : x = y
    · subst h; simp [ih]
    · simp [h, ih]

theorem dedupPrev_none {α} [DecidableEq α] (xs : List α) : dedupPrev none xs = dedupAdj xs := by
  cases xs with
  | nil => simp [dedupPrev, dedupAdj]
  | cons x rest => simp [dedupPrev, dedupPrev_some_cons]

end SV.Spec

namespace SV.Spec

/-! ## what `search` promises -/

theorem dedupAdj_sublist {α} [DecidableEq α] (xs : List α) : (dedupAdj xs).Sublist xs := by
  fun_induction dedupAdj xs with
  | case1 => exact List.Sublist.refl _
  | case2 x => exact List.Sublist.refl _
  | case3 x rest ih => exact List.Sublist.cons _ ih
  | case4 x y rest h ih => exact List.Sublist.cons_cons _ ih

theorem mem_dedupAdj {α} [DecidableEq α] (xs : List α) (a : α) : a ∈ dedupAdj xs ↔ a ∈ xs := by
  fun_induction dedupAdj xs with
  | case1 => simp
  | case2 x => simp
  | case3 x rest ih => rw [ih]; simp
  | case4 x y rest h ih => simp only [List.mem_cons] at ih ⊢; rw [ih]

/-- on a list sorted by an antisymmetric order, `dedupAdj` leaves a strictly sorted list -/
theorem dedupAdj_strict {α} [DecidableEq α] (le : α → α → Bool)
    (antisymm : ∀ a b, le a b = true → le b a = true → a = b) (xs : List α)
    (h : xs.Pairwise (fun a b => le a b = true)) :
    (dedupAdj xs).Pairwise (fun a b => le a b = true ∧ a ≠ b) := by
  fun_induction dedupAdj xs with
  | case1 => exact List.Pairwise.nil
  | case2 x => simp
  | case3 x rest ih => exact ih (List.pairwise_cons.mp h).2
  | case4 x y rest hne ih =>
    have h' := List.pairwise_cons.mp h
    have h'' := List.pairwise_cons.mp h'.2
    refine List.pairwise_cons.mpr ⟨?_, ih h'.2⟩
    intro z hz
    have hz' : z ∈ y :: rest := (mem_dedupAdj _ z).mp hz
    refine ⟨h'.1 z hz', ?_⟩
    intro hxz
    subst hxz
    apply hne
    rcases List.mem_cons.mp hz' with rfl | hzr
    · rfl
    · exact antisymm _ _ (h'.1 y (by simp)) (h''.1 _ hzr)

theorem search_ids_strict (docs : List Doc) (q : Query) (from_ to : Nat) (asc : Bool) (limit : Nat) (wt : Bool) :
    (search docs q from_ to asc limit wt).ids.Pairwise (fun a b => orderLe asc a b = true ∧ a ≠ b) := by
  unfold search
  simp only []
  exact List.Pairwise.sublist (List.take_sublist _ _)
    (dedupAdj_strict _ (fun _ _ => orderLe_antisymm asc) _
      (sortBy_sorted _ (orderLe_total asc) (fun _ _ _ => orderLe_trans asc) _))

theorem search_ids_sound (docs : List Doc) (q : Query) (from_ to : Nat) (asc : Bool) (limit : Nat) (wt : Bool) :
    ∀ id ∈ (search docs q from_ to asc limit wt).ids,
      ∃ d ∈ docs, d.id = id ∧ inWindow from_ to d = true ∧ docMatches q d = true := by
  intro id hid
  unfold search at hid
  simp only [] at hid
  have h1 := (mem_dedupAdj _ id).mp (List.mem_of_mem_take hid)
  have h2 := (sortBy_perm _ _).mem_iff.mp h1
  rcases List.mem_map.mp h2 with ⟨d, hd, rfl⟩
  unfold hits at hd
  have := List.mem_filter.mp hd
  simp only [Bool.and_eq_true] at this
  exact ⟨d, this.1, rfl, this.2.1, this.2.2⟩

theorem search_ids_complete (docs : List Doc) (q : Query) (from_ to : Nat) (asc : Bool) (limit : Nat) (wt : Bool) :
    (hits docs q from_ to).length ≤ limit →
      ∀ d ∈ docs, inWindow from_ to d = true → docMatches q d = true →
        d.id ∈ (search docs q from_ to asc limit wt).ids := by
  intro hlen d hd hw hm
  unfold search
  simp only []
  have hl : (dedupAdj (sortBy (orderLe asc) ((hits docs q from_ to).map (·.id)))).length ≤ limit := by
    have h1 := (dedupAdj_sublist (sortBy (orderLe asc) ((hits docs q from_ to).map (·.id)))).length_le
    have h2 := (sortBy_perm (orderLe asc) ((hits docs q from_ to).map (·.id))).length_eq
    simp only [List.length_map] at h2
    omega
  rw [List.take_of_length_le hl, mem_dedupAdj, (sortBy_perm _ _).mem_iff]
  apply List.mem_map.mpr
  refine ⟨d, ?_, rfl⟩
  unfold hits
  exact List.mem_filter.mpr ⟨hd, by simp [hw, hm]⟩

end SV.Spec
