/-!
# The abstract store (shared Spec, core-only, meant to be read in minutes)

What a search over a set of stored documents *means*, independent of fractions, posting lists, LIDs,
merge nodes and binary searches.  Property theorems of the form `Model.search ... = Spec.search ...`
(C02, later C03/C05/C06) refer to these definitions; the drivers evaluate them for the system oracles.

* bytes are `Nat`s below 256 (`SV.Proto.hex?` yields exactly that); a token is `(field, value)`;
* `ID.lt` / `ID.le` are `seq.Less` / `seq.LessOrEqual`: lexicographic on (mid, rid);
* `asc = true` is `seq.DocsOrderAsc` (what the code calls `reverse`), `asc = false` the default newest-first.
-/
namespace SV.Spec

abbrev Bytes := List Nat

structure ID where
  mid : Nat
  rid : Nat
deriving DecidableEq, Repr, Inhabited

/-- seq.Less -/
def ID.lt (a b : ID) : Bool := if a.mid = b.mid then decide (a.rid < b.rid) else decide (a.mid < b.mid)
/-- seq.LessOrEqual -/
def ID.le (a b : ID) : Bool := if a.mid = b.mid then decide (a.rid ≤ b.rid) else decide (a.mid < b.mid)

structure Doc where
  id : ID
  /-- indexed tokens `(field, value)`, a multiset in any order -/
  tokens : List (Bytes × Bytes)
  /-- stored bytes (used by the fetch properties) -/
  body : Bytes := []
deriving Repr, Inhabited

/-- Go's `<` on strings / `bytes.Compare < 0` -/
def bytesLt : Bytes → Bytes → Bool
  | _, [] => false
  | [], _ :: _ => true
  | a :: as, b :: bs => if a < b then true else if b < a then false else bytesLt as bs

def bytesLe (a b : Bytes) : Bool := !bytesLt b a

inductive Term
  | text (b : Bytes)
  | star
deriving DecidableEq, Repr

/-- glob semantics: `star` stands for any (possibly empty) byte string -/
def globMatch : List Term → Bytes → Bool
  | [], v => v.isEmpty
  | .text t :: rest, v => t.isPrefixOf v && globMatch rest (v.drop t.length)
  | .star :: rest, v => (List.range (v.length + 1)).any fun k => globMatch rest (v.drop k)

def digitsVal : List Nat → Option Nat
  | [] => none
  | ds => ds.foldl (fun acc d => acc.bind fun n => if 48 ≤ d ∧ d ≤ 57 then some (n * 10 + (d - 48)) else none) (some 0)

/-- the numeric fragment the Spec gives a meaning to: decimal integers `-?[0-9]+` (the code uses
`strconv.ParseFloat`; users of the Spec record that their numeric tokens stay inside this fragment) -/
def numVal : Bytes → Option Int
  | 45 :: ds => (digitsVal ds).map fun n => -(Int.ofNat n)
  | ds => (digitsVal ds).map Int.ofNat

inductive Leaf
  /-- `field:glob` -/
  | lit (field : Bytes) (terms : List Term)
  /-- `field:[lo TO hi]`, `none` = `*`, `inc..` = closed end -/
  | range (field : Bytes) (lo : Option Bytes) (incLo : Bool) (hi : Option Bytes) (incHi : Bool)
deriving Repr

def Leaf.field : Leaf → Bytes
  | .lit f _ => f
  | .range f _ _ _ _ => f

def boundIsNum : Option Bytes → Bool
  | none => true
  | some b => (numVal b).isSome

/-- does a token value satisfy the leaf.  A range whose given bounds are both numbers compares numbers
(non-numeric values never match), any other range compares byte strings. -/
def Leaf.valMatch : Leaf → Bytes → Bool
  | .lit _ terms, v => globMatch terms v
  | .range _ lo incLo hi incHi, v =>
    if boundIsNum lo && boundIsNum hi then
      match numVal v with
      | none => false
      | some x =>
        (match lo.bind numVal with | none => true | some l => if incLo then decide (l ≤ x) else decide (l < x)) &&
        (match hi.bind numVal with | none => true | some h => if incHi then decide (x ≤ h) else decide (x < h))
    else
      (match lo with | none => true | some l => if incLo then bytesLe l v else bytesLt l v) &&
      (match hi with | none => true | some h => if incHi then bytesLe v h else bytesLt v h)

def Doc.hasLeaf (d : Doc) (l : Leaf) : Bool := d.tokens.any fun t => t.1 == l.field && l.valMatch t.2

/-- `nand a b` = `¬a ∧ b` is the derived form the query parser produces when it pushes negations down -/
inductive Query
  | leaf (l : Leaf)
  | and (a b : Query)
  | or (a b : Query)
  | not (a : Query)
  | nand (a b : Query)
deriving Repr

def docMatches : Query → Doc → Bool
  | .leaf l, d => d.hasLeaf l
  | .and a b, d => docMatches a d && docMatches b d
  | .or a b, d => docMatches a d || docMatches b d
  | .not a, d => !docMatches a d
  | .nand a b, d => !docMatches a d && docMatches b d

def inWindow (from_ to : Nat) (d : Doc) : Bool := decide (from_ ≤ d.id.mid) && decide (d.id.mid ≤ to)

def insertBy {α} (le : α → α → Bool) (x : α) : List α → List α
  | [] => [x]
  | y :: ys => if le x y then x :: y :: ys else y :: insertBy le x ys

/-- insertion sort (structural, so concrete instances reduce by `decide`) -/
def sortBy {α} (le : α → α → Bool) : List α → List α
  | [] => []
  | x :: xs => insertBy le x (sortBy le xs)

/-- drop adjacent repetitions (on a sorted list: all repetitions) -/
def dedupAdj {α} [DecidableEq α] : List α → List α
  | [] => []
  | [x] => [x]
  | x :: y :: rest => if x = y then dedupAdj (y :: rest) else x :: dedupAdj (y :: rest)

/-- the order a search result is delivered in -/
def orderLe (asc : Bool) (a b : ID) : Bool := if asc then ID.le a b else ID.le b a

structure Result where
  ids : List ID
  total : Nat
deriving DecidableEq, Repr

/-- the documents that answer `q` inside `[from, to]` -/
def hits (docs : List Doc) (q : Query) (from_ to : Nat) : List Doc :=
  docs.filter fun d => inWindow from_ to d && docMatches q d

/-- **Search**: matching documents inside the window, ordered by (mid, rid) in the requested direction,
without repeated IDs, cut to `limit`; `total` = number of matching stored documents when requested. -/
def search (docs : List Doc) (q : Query) (from_ to : Nat) (asc : Bool) (limit : Nat) (withTotal : Bool) : Result :=
  let h := hits docs q from_ to
  { ids := (dedupAdj (sortBy (orderLe asc) (h.map (·.id)))).take limit,
    total := if withTotal then h.length else 0 }

end SV.Spec
