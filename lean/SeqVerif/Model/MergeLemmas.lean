import SeqVerif.Model.MergeQPR
/-!
Top-k algebra behind `MergeQPRs` / `SearchDocs` (helper lemmas for C05, C19):
cutting any input of a merge to `M ≥ L` elements does not change the first `L` elements of the result, and a
prefix of the accumulated result that precedes every new element stays in place.
-/
namespace SV.Merge

theorem orMerge_nil_right (desc : Bool) (xs : List Nat) : orMerge desc xs [] = xs := by
  cases xs <;> simp [orMerge]

theorem orMerge_nil_left (desc : Bool) (ys : List Nat) : orMerge desc [] ys = ys := by
  simp [orMerge]

/-- cut of the right input -/
theorem take_orMerge_take_right (desc : Bool) (L M : Nat) (hLM : L ≤ M) (xs ys : List Nat)
    (hx : SortedBy desc xs) (hy : SortedBy desc ys) :
    (orMerge desc xs (ys.take M)).take L = (orMerge desc xs ys).take L := by
  rw [orMerge_comm desc xs (ys.take M) hx (sortedBy_take desc M ys hy), take_orMerge_take desc L M hLM,
    orMerge_comm desc ys xs hy hx]

/-- a prefix that precedes every element of the other input is not disturbed by the merge -/
theorem orMerge_prefix (desc : Bool) (A B Y : List Nat) (h : ∀ a, a ∈ A → ∀ y, y ∈ Y → lessFn desc a y = true) :
    orMerge desc (A ++ B) Y = A ++ orMerge desc B Y := by
  induction A with
  | nil => simp
  | cons a A ih =>
    cases Y with
    | nil => simp [orMerge_nil_right]
    | cons y ys =>
      have hay : lessFn desc a y = true := h a (by simp) y (by simp)
      have : orMerge desc (a :: (A ++ B)) (y :: ys) = a :: orMerge desc (A ++ B) (y :: ys) := by
        rw [orMerge]; simp [hay]
      rw [List.cons_append, this, ih (fun a' ha' => h a' (List.mem_cons_of_mem _ ha')), List.cons_append]

/-- the first `K` distinct IDs of a union are determined by the first `M ≥ K` distinct IDs of each part -/
theorem take_sd_flatten_cut (desc : Bool) (K M : Nat) (hKM : K ≤ M) (ds : List (List Nat)) :
    (sd desc (ds.map (fun d => (sd desc d).take M)).flatten).take K = (sd desc ds.flatten).take K := by
  induction ds with
  | nil => simp
  | cons d ds ih =>
    simp only [List.map_cons, List.flatten_cons]
    rw [sd_append, sd_append, sd_of_sorted desc _ (sortedBy_take desc M _ (sd_sorted desc d)),
      take_orMerge_take desc K M hKM]
    rw [← take_orMerge_take_right desc K K (Nat.le_refl _) _ _ (sd_sorted desc d) (sd_sorted desc _), ih,
      take_orMerge_take_right desc K K (Nat.le_refl _) _ _ (sd_sorted desc d) (sd_sorted desc _)]

theorem sortedBy_append_right (desc : Bool) (A B : List Nat) (h : SortedBy desc (A ++ B)) : SortedBy desc B :=
  List.Pairwise.sublist (List.sublist_append_right A B) h

/-- One merge step of `SearchDocs`.  `T = A ++ B` is the accumulated ID list, `A` precedes every document of the
fractions searched now, each fraction returns only its first `m` IDs and `L ≤ |A| + m`: the first `L` IDs are those
of the uncut union. -/
theorem merge_step_cut (desc : Bool) (L m : Nat) (A B : List Nat) (ds : List (List Nat))
    (hT : SortedBy desc (A ++ B))
    (hA : ∀ a, a ∈ A → ∀ y, y ∈ ds.flatten → lessFn desc a y = true)
    (hm : L ≤ A.length + m) :
    (sd desc ((A ++ B) ++ (ds.map (fun d => (sd desc d).take m)).flatten)).take L
      = (sd desc ((A ++ B) ++ ds.flatten)).take L := by
  have hB := sortedBy_append_right desc A B hT
  have hsub : ∀ y, y ∈ (ds.map (fun d => (sd desc d).take m)).flatten → y ∈ ds.flatten := by
    intro y hy
    simp only [List.mem_flatten, List.mem_map] at hy ⊢
    rcases hy with ⟨l, ⟨d, hd, rfl⟩, hyl⟩
    exact ⟨d, hd, (mem_sd desc y d).mp (List.mem_of_mem_take hyl)⟩
  rw [sd_append desc (A ++ B), sd_append desc (A ++ B), sd_of_sorted desc _ hT]
  rw [orMerge_prefix desc A B _ (fun a ha y hy => hA a ha y (hsub y ((mem_sd desc y _).mp hy))),
    orMerge_prefix desc A B _ (fun a ha y hy => hA a ha y ((mem_sd desc y _).mp hy))]
  rw [List.take_append, List.take_append]
  congr 1
  have hK : L - A.length ≤ m := by omega
  rw [← take_orMerge_take_right desc _ _ (Nat.le_refl _) _ _ hB (sd_sorted desc _),
    take_sd_flatten_cut desc _ m hK,
    take_orMerge_take_right desc _ _ (Nat.le_refl _) _ _ hB (sd_sorted desc _)]

/-- the accumulated list may itself be a cut (`take L`) of what was seen so far -/
theorem take_sd_take_append (desc : Bool) (L : Nat) (P C : List Nat) :
    (sd desc ((sd desc P).take L ++ C)).take L = (sd desc (P ++ C)).take L := by
  rw [sd_append, sd_append, sd_of_sorted desc _ (sortedBy_take desc L _ (sd_sorted desc P)),
    take_orMerge_take desc L L (Nat.le_refl _)]

/-- **merge associativity on IDs**: merging in two steps with an intermediate cut equals merging at once -/
theorem mergeQPRs_ids_assoc (desc : Bool) (dst : QPR) (qs rs : List QPR) (L hi1 hi2 hi3 : Nat) :
    (mergeQPRs desc (mergeQPRs desc dst qs L hi1) rs L hi2).ids = (mergeQPRs desc dst (qs ++ rs) L hi3).ids := by
  simp only [mergeQPRs_ids, allIds, List.flatMap_append]
  rw [take_sd_take_append, List.append_assoc]

/-- the order of the inputs is irrelevant for the IDs -/
theorem mergeQPRs_ids_perm (desc : Bool) (dst : QPR) (qs rs : List QPR) (L hi : Nat) (h : qs.Perm rs) :
    (mergeQPRs desc dst qs L hi).ids = (mergeQPRs desc dst rs L hi).ids := by
  simp only [mergeQPRs_ids, allIds]
  rw [sd_congr desc (dst.ids ++ qs.flatMap (·.ids)) (dst.ids ++ rs.flatMap (·.ids)) (fun v => by
    simp only [List.mem_append, List.mem_flatMap]
    constructor
    · rintro (h1 | ⟨q, hq, hv⟩)
      · exact Or.inl h1
      · exact Or.inr ⟨q, h.mem_iff.mp hq, hv⟩
    · rintro (h1 | ⟨q, hq, hv⟩)
      · exact Or.inl h1
      · exact Or.inr ⟨q, h.mem_iff.mpr hq, hv⟩)]

end SV.Merge
