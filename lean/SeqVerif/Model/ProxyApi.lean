import SeqVerif.Model.ProxyRead
/-!
# C16: the public handlers of `proxyapi` that hand documents to a client

* `Search` / `ComplexSearch` (`SV.ProxyRead.api`): `makeProtoDocs` pairs **by position** - the i-th entry takes its
  `Id` from `qpr.IDs[i]` and its `Data` from the i-th `docs.Next()`.
* `Export`: `doSearch`, then every item of the document stream until its end, `Id` taken **from the document**.
* `Fetch`: `Ingestor.Documents` (`expandIDsBySources`, `FetchDocsStream`, `uniqueIDIterator`), every item until the
  end, `Id` taken **from the document**.
The HTTP API is grpc-gateway in front of the same handlers (`ingestorHandler.ServeHTTP` only routes), so there is no
second response assembly.  Core-only.
-/
namespace SV.ProxyApi
open SV.ProxySearch SV.DocsMerge SV.ProxyRead

/-! ### Export -/

inductive ExportOut
  | status (invalidArgument : Bool)     -- doSearch returned a status error before anything was sent
  | plainErr                            -- `errors.New(sResp.err.Message)` (too many fractions): code Unknown
  | panic
  | stream (docs : List (ProxySearch.ID × Nat)) (endsWithError : Bool)   -- the documents sent, then OK / an error
deriving DecidableEq, Repr

/-- `grpcV1.Export`.  `reportsPartial` = the handler ends the stream with an error when `doSearch` flagged the
    result partial (extracted from the source: `exportReportsPartial`); without it a partial result ends with OK. -/
def apiExport (reportsPartial : Bool) : Full → ExportOut
  | .err .tmf => .plainErr
  | .err .wod => .status true
  | .err _ => .status false
  | .fetchErr => .status false
  | .panic => .panic
  | .ok _ _ nerr p _ docs =>
    if p then .stream (docs.map fun d => (d.id, d.data)) reportsPartial
    else if nerr > 0 then .status false
    else .stream (docs.map fun d => (d.id, d.data)) false

/-- the `conf.MaxRequestedDocuments` guard at the top of `Export` (`size` = `req.Size`) -/
def apiExportReq (maxDocs size : Nat) (reportsPartial : Bool) (f : Full) : ExportOut :=
  if maxDocs > 0 ∧ size > maxDocs then .status true else apiExport reportsPartial f

/-- The cancellation the lazily read document stream of `Export` is subject to.  `doSearch` only *opens* the stores'
    fetch streams; `Export` reads them in its send loop, under the context `doSearch` was given.  When that is the export
    context (`usesExportCtx`, extracted: `exportSearchCtx`) nothing cancels it within `ExportTimeout`; under a shorter-lived
    child (bounded by `SearchTimeout`) the stream is cut after the `k` documents read by then - `mergedStreamIterator.Next`
    answers a done context with `io.EOF`, which the send loop takes for the regular end. -/
def exportCancel (usesExportCtx : Bool) (searchTimeoutAfter : Option Nat) : Option Nat :=
  if usesExportCtx then none else searchTimeoutAfter

/-- `Export` within its `ExportTimeout`, `searchTimeoutAfter = some k`: the `SearchTimeout` elapses after `k` documents -/
def apiExportCtx (usesExportCtx reportsPartial : Bool) (hot cold : List (Nat × ShardRes)) (offset size hint : Nat)
    (order : List Nat) (behav : Nat → Option (List Ev)) (searchTimeoutAfter : Option Nat) : ExportOut :=
  apiExport reportsPartial
    (searchAndFetchC hot cold offset size false hint true order behav (exportCancel usesExportCtx searchTimeoutAfter))

/-! ### the request a store receives -/

/-- `storeapi.SearchRequest`, the two fields that decide how many IDs a store returns: its newest `size + offset` -/
structure StoreReq where
  size : Nat
  offset : Nat
deriving DecidableEq, Repr

def StoreReq.limit (r : StoreReq) : Nat := r.size + r.offset

/-- `SearchRequest.GetAPISearchRequest`: `Size` and `Offset` are copied unchanged (extracted: `storeRequestFields`) -/
def storeRequest (offset size : Nat) : StoreReq := ⟨size, offset⟩

/-- a variant that never asks one store for more than `cap` documents - NOT the code; see `c16_clamp_witness` -/
def storeRequestClamped (cap offset size : Nat) : StoreReq := ⟨if cap > 0 ∧ size > cap then cap else size, offset⟩

/-- a store holding `held` (ordered, newest first for `rev = false`) answers a request with its first `limit` IDs -/
def storeAnswer (held : List ProxySearch.ID) (r : StoreReq) : Call := .resp .none (held.take r.limit) held.length 0

/-! ### Fetch (Ingestor.Documents) -/

/-- `expandIDsBySources`: every ID with every source (the code iterates a map per ID; `srcs` is that order) -/
def expand (orig : List ProxySearch.ID) (srcs : List Nat) : List IDS :=
  orig.flatMap fun id => srcs.map fun s => (⟨id, s, 0⟩ : IDS)

inductive FetchOut
  | internal                            -- `Documents` failed: "can't fetch" (all stores refused the stream)
  | panic
  | docs (l : List (ProxySearch.ID × Nat))
deriving DecidableEq, Repr

/-- `grpcV1.Fetch`: `Documents`, then every item of the unique-ID iterator -/
def apiFetch (orig : List ProxySearch.ID) (srcs order : List Nat) (behav : Nat → Option (List Ev)) : FetchOut :=
  match fetchDocsStream (expand orig srcs) order behav with
  | none => .internal
  | some .panic => .panic
  | some .nofuel => .panic
  | some (.val l) => .docs ((uniq l).map fun d => (d.id, d.data))

end SV.ProxyApi
