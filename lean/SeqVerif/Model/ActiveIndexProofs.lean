import SeqVerif.Model.ActiveIndex
/-!
# The active fraction refines Spec.search  (C02)

`ActiveIndex.search` (arrival LIDs -> `_all_` order -> inverser -> `inverseLIDs` -> `IndexSearch`, window clamped
to the fraction's range) equals `Spec.search` over the documents in arrival order.
-/
namespace SV.ActiveIndex
open SV SV.Spec SV.Borders SV.EvalTree

/-! ## the (mid, rid, lid) order of `SeqIDCmp.compare` -/

theorem keyGe_iff (ids : List ID) (a b : Nat) :
    keyGe ids a b = true ↔
      ((idOf ids a).mid > (idOf ids b).mid ∨ ((idOf ids a).mid = (idOf ids b).mid ∧
        ((idOf ids a).rid > (idOf ids b).rid ∨ ((idOf ids a).rid = (idOf ids b).rid ∧ a ≥ b)))) := by
  unfold keyGe compare
  simp only []
  generalize idOf ids a = x
  generalize idOf ids b = y
  repeat' split
  all_goals simp
  all_goals omega

theorem keyGe_total (ids : List ID) (a b : Nat) : keyGe ids a b = true ∨ keyGe ids b a = true := by
  rw [keyGe_iff, keyGe_iff]; omega

theorem keyGe_trans (ids : List ID) (a b c : Nat) (h1 : keyGe ids a b = true) (h2 : keyGe ids b c = true) :
    keyGe ids a c = true := by
  rw [keyGe_iff] at *; omega

theorem keyGe_antisymm (ids : List ID) (a b : Nat) (h1 : keyGe ids a b = true) (h2 : keyGe ids b a = true) :
    a = b := by
  rw [keyGe_iff] at *; omega

theorem keyGe_idle (ids : List ID) (a b : Nat) (h : keyGe ids a b = true) :
    ID.le (idOf ids b) (idOf ids a) = true := by
  rw [keyGe_iff] at h
  unfold ID.le
  split <;> simp <;> omega

/-! ## `GetLIDs`: strictly sorted by the key, same members -/

abbrev KeySorted (ids : List ID) (l : List Nat) : Prop := l.Pairwise (fun a b => keyGe ids a b = true ∧ a ≠ b)

theorem getLIDs_strict (ids : List ID) (l : List Nat) : KeySorted ids (getLIDs ids l) :=
  dedupAdj_strict (keyGe ids) (keyGe_antisymm ids) _ (sortBy_sorted _ (keyGe_total ids) (keyGe_trans ids) l)

theorem mem_getLIDs (ids : List ID) (l : List Nat) (v : Nat) : v ∈ getLIDs ids l ↔ v ∈ l := by
  unfold getLIDs; rw [mem_dedupAdj, (sortBy_perm _ _).mem_iff]

theorem getLIDs_nodup (ids : List ID) (l : List Nat) : (getLIDs ids l).Nodup :=
  (getLIDs_strict ids l).imp (fun h => h.2)

/-- **inverse_sorted, core**: in a strictly key-sorted list the key order is the position order -/
theorem idxOf_lt (ids : List ID) (m : List Nat) (hm : KeySorted ids m) (a b : Nat) (ha : a ∈ m) (hb : b ∈ m)
    (hab : keyGe ids a b = true) (hne : a ≠ b) : m.idxOf a < m.idxOf b := by
  have hia := List.idxOf_lt_length_iff.mpr ha
  have hib := List.idxOf_lt_length_iff.mpr hb
  have e1 := List.getElem_idxOf hia
  have e2 := List.getElem_idxOf hib
  rcases Nat.lt_trichotomy (m.idxOf a) (m.idxOf b) with h | h | h
  · exact h
  · exfalso; apply hne
    calc a = m[m.idxOf a] := e1.symm
      _ = m[m.idxOf b] := by simp only [h]
      _ = b := e2
  · exfalso
    have := (List.pairwise_iff_getElem.mp hm) (m.idxOf b) (m.idxOf a) hib hia h
    rw [e1, e2] at this
    exact hne (keyGe_antisymm ids a b hab this.1)

/-! ## the inverser -/

theorem inverseOne_some (m : List Nat) (size lo hi v w : Nat) :
    inverseOne m size lo hi v = some w ↔ (v < size ∧ v ∈ m ∧ w = m.idxOf v + 1 ∧ lo ≤ w ∧ w ≤ hi) := by
  unfold inverseOne inverse
  by_cases h1 : v ≥ size
  · simp [h1]; omega
  · by_cases h2 : v ∈ m
    · simp only [h1, h2, if_false, if_true]
      by_cases h3 : lo ≤ m.idxOf v + 1 ∧ m.idxOf v + 1 ≤ hi
      · simp only [h3, and_self, if_true, Option.some.injEq]
        constructor
        · rintro rfl; exact ⟨by omega, trivial, rfl, h3.1, h3.2⟩
        · rintro ⟨_, _, rfl, _, _⟩; rfl
      · simp only [h3, if_false]
        constructor
        · intro h; cases h
        · rintro ⟨_, _, rfl, h4, h5⟩; exact absurd ⟨h4, h5⟩ h3
    · simp [h1, h2]

/-- **inverse_sorted**: a token's list sorted like the mapping is translated into a strictly ascending list of
search LIDs -/
theorem inverseLIDs_sorted (ids : List ID) (m : List Nat) (hm : KeySorted ids m) (size lo hi : Nat) (u : List Nat)
    (hu : KeySorted ids u) : SortedBy false (inverseLIDs m size lo hi u) := by
  unfold inverseLIDs
  refine List.Pairwise.filterMap _ ?_ hu
  intro x y hxy b hb b' hb'
  have h1 := (inverseOne_some m size lo hi x b).mp hb
  have h2 := (inverseOne_some m size lo hi y b').mp hb'
  have := idxOf_lt ids m hm x y h1.2.1 h2.2.1 hxy.1 hxy.2
  simp [lessFn]; omega

theorem mem_inverseLIDs (m : List Nat) (size lo hi : Nat) (u : List Nat) (w : Nat) :
    w ∈ inverseLIDs m size lo hi u ↔ ∃ v ∈ u, v < size ∧ v ∈ m ∧ w = m.idxOf v + 1 ∧ lo ≤ w ∧ w ≤ hi := by
  unfold inverseLIDs
  rw [List.mem_filterMap]
  constructor
  · rintro ⟨v, hv, h⟩; exact ⟨v, hv, (inverseOne_some m size lo hi v w).mp h⟩
  · rintro ⟨v, hv, h⟩; exact ⟨v, hv, (inverseOne_some m size lo hi v w).mpr h⟩

/-! ## well-formed active state -/

structure AWF (a : Active) : Prop where
  /-- the system entry exists -/
  nonempty : 1 ≤ a.ids.length
  /-- tokens refer to appended documents -/
  inRange : ∀ t ∈ a.toks, ∀ v ∈ t.lids, 1 ≤ v ∧ v < a.ids.length
  /-- ids are uint64 pairs; `{0,0}` is excluded (see `c02_borders_zero_id_witness`) -/
  bounded : ∀ v, 1 ≤ v → v < a.ids.length →
    (idOf a.ids v).rid ≤ maxU64 ∧ (idOf a.ids v).mid ≤ maxU64 ∧ idOf a.ids v ≠ ⟨0, 0⟩

theorem mem_mapping (a : Active) (h : 1 ≤ a.ids.length) (v : Nat) :
    v ∈ mapping a ↔ 1 ≤ v ∧ v < a.ids.length := by
  unfold mapping; rw [mem_getLIDs, List.mem_range'_1]; omega

theorem mapping_perm (a : Active) : (mapping a).Perm (List.range' 1 (a.ids.length - 1)) :=
  (List.perm_ext_iff_of_nodup (getLIDs_nodup _ _) (List.nodup_range' (s := 1) (n := a.ids.length - 1))).mpr
    (fun v => mem_getLIDs _ _ v)

theorem toIndex_ids (a : Active) : (toIndex a).ids = (mapping a).map (idOf a.ids) := rfl

theorem toIndex_sortedDesc (a : Active) : SortedDesc (toIndex a).ids := by
  rw [toIndex_ids]
  apply List.pairwise_map.mpr
  exact (getLIDs_strict _ _).imp (fun h => keyGe_idle _ _ _ h.1)

theorem toIndex_wf (a : Active) (_hwf : AWF a) : WF (toIndex a) := by
  constructor
  · intro t' ht'
    simp only [toIndex, List.mem_map] at ht'
    rcases ht' with ⟨t, _, rfl⟩
    exact inverseLIDs_sorted a.ids _ (getLIDs_strict _ _) _ _ _ _ (getLIDs_strict _ _)
  · intro t' ht' w hw
    simp only [toIndex, List.mem_map] at ht'
    rcases ht' with ⟨t, _, rfl⟩
    rcases (mem_inverseLIDs _ _ _ _ _ _).mp hw with ⟨v, _, _, hvm, rfl, _, h5⟩
    simp only [toIndex_ids, List.length_map]
    omega

theorem toIndex_bounds (a : Active) (hwf : AWF a) :
    (∀ id ∈ (toIndex a).ids, id.rid ≤ maxU64) ∧ (∀ id ∈ (toIndex a).ids, id ≠ ⟨0, 0⟩) := by
  constructor <;> intro id hid <;> rw [toIndex_ids] at hid <;> rcases List.mem_map.mp hid with ⟨v, hv, rfl⟩
  · have := (mem_mapping a hwf.nonempty v).mp hv
    exact (hwf.bounded v this.1 this.2).1
  · have := (mem_mapping a hwf.nonempty v).mp hv
    exact (hwf.bounded v this.1 this.2).2.2

/-- the documents the search index stands for are the arrived documents, listed in `_all_` order -/
theorem docsOf_toIndex (a : Active) (hwf : AWF a) : docsOf (toIndex a) = (mapping a).map (arrivalDoc a) := by
  unfold docsOf
  apply List.ext_getElem
  · simp [toIndex_ids]
  · intro i h1 h2
    have hi : i < (mapping a).length := by simpa using h2
    simp only [List.getElem_map, List.getElem_range']
    have hmem : (mapping a)[i] ∈ mapping a := List.getElem_mem hi
    have hrange := (mem_mapping a hwf.nonempty _).mp hmem
    unfold docAt arrivalDoc
    congr 1
    · -- id
      rw [toIndex_ids, idAt_eq _ (1 + 1 * i) (by omega) (by simp; omega)]
      simp
    · -- tokens
      simp only [toIndex]
      rw [List.filter_map, List.map_map]
      congr 1
      apply List.filter_congr
      intro t ht
      simp only [Function.comp]
      rw [Bool.eq_iff_iff, List.contains_iff_mem, List.contains_iff_mem, mem_inverseLIDs]
      constructor
      · rintro ⟨v, hv, _, hvm, hidx, _, _⟩
        have hlt := List.idxOf_lt_length_iff.mpr hvm
        have e := List.getElem_idxOf hlt
        have hi' : (mapping a).idxOf v = i := by omega
        have : (mapping a)[i] = v := by
          calc (mapping a)[i] = (mapping a)[(mapping a).idxOf v] := by simp only [hi']
            _ = v := e
        rw [this]
        exact (mem_getLIDs _ _ v).mp hv
      · intro hv
        have hidx := List.Nodup.idxOf_getElem (show (mapping a).Nodup from getLIDs_nodup _ _) i hi
        exact ⟨(mapping a)[i], (mem_getLIDs _ _ _).mpr hv, hrange.2, hmem, by omega, by omega, by omega⟩

theorem docsOf_toIndex_perm (a : Active) (hwf : AWF a) : (docsOf (toIndex a)).Perm (arrivalDocs a) := by
  rw [docsOf_toIndex a hwf]
  exact (mapping_perm a).map _

/-! ## the window clamp -/

theorem foldl_min_le (l : List ID) (init : Nat) :
    l.foldl (fun acc i => min acc i.mid) init ≤ init ∧ ∀ x ∈ l, l.foldl (fun acc i => min acc i.mid) init ≤ x.mid := by
  induction l generalizing init with
  | nil => simp
  | cons y ys ih =>
    simp only [List.foldl_cons, List.mem_cons]
    have := ih (min init y.mid)
    refine ⟨by omega, ?_⟩
    rintro x (rfl | hx)
    · omega
    · exact this.2 x hx

theorem le_foldl_max (l : List ID) (init : Nat) :
    init ≤ l.foldl (fun acc i => max acc i.mid) init ∧ ∀ x ∈ l, x.mid ≤ l.foldl (fun acc i => max acc i.mid) init := by
  induction l generalizing init with
  | nil => simp
  | cons y ys ih =>
    simp only [List.foldl_cons, List.mem_cons]
    have := ih (max init y.mid)
    refine ⟨by omega, ?_⟩
    rintro x (rfl | hx)
    · omega
    · exact this.2 x hx

theorem idOf_mem_drop (ids : List ID) (v : Nat) (h1 : 1 ≤ v) (h2 : v < ids.length) : idOf ids v ∈ ids.drop 1 := by
  have hlen : v - 1 < (ids.drop 1).length := by simp; omega
  have : (ids.drop 1)[v - 1] = idOf ids v := by
    rw [List.getElem_drop]
    unfold idOf
    simp [List.getD, show 1 + (v - 1) = v by omega, List.getElem?_eq_getElem h2]
  rw [← this]
  exact List.getElem_mem hlen

theorem mid_in_range (a : Active) (v : Nat) (h1 : 1 ≤ v) (h2 : v < a.ids.length) :
    minMid a ≤ (idOf a.ids v).mid ∧ (idOf a.ids v).mid ≤ maxMid a :=
  ⟨(foldl_min_le _ _).2 _ (idOf_mem_drop a.ids v h1 h2), (le_foldl_max _ _).2 _ (idOf_mem_drop a.ids v h1 h2)⟩

/-- clamping the window to the fraction's own [min mid, max mid] does not change the answer -/
theorem search_clamp (a : Active) (hwf : AWF a) (q : Query) (from_ to : Nat) (asc : Bool) (limit : Nat)
    (withTotal : Bool) :
    Spec.search (arrivalDocs a) q (max from_ (minMid a)) (min to (maxMid a)) asc limit withTotal =
      Spec.search (arrivalDocs a) q from_ to asc limit withTotal := by
  have hh : hits (arrivalDocs a) q (max from_ (minMid a)) (min to (maxMid a)) = hits (arrivalDocs a) q from_ to := by
    unfold hits
    apply List.filter_congr
    intro d hd
    unfold arrivalDocs at hd
    rcases List.mem_map.mp hd with ⟨v, hv, rfl⟩
    have hv' := List.mem_range'_1.mp hv
    have := mid_in_range a v hv'.1 (by have := hwf.nonempty; omega)
    congr 1
    unfold inWindow arrivalDoc
    simp only []
    have e1 : decide (max from_ (minMid a) ≤ (idOf a.ids v).mid) = decide (from_ ≤ (idOf a.ids v).mid) :=
      decide_eq_decide.mpr (by omega)
    have e2 : decide ((idOf a.ids v).mid ≤ min to (maxMid a)) = decide ((idOf a.ids v).mid ≤ to) :=
      decide_eq_decide.mpr (by omega)
    rw [e1, e2]
  unfold Spec.search
  simp only [hh]

/-- **The active fraction answers `Spec.search` of the arrived documents.** -/
theorem search_eq_spec (a : Active) (hwf : AWF a) (q : Query) (from_ to : Nat) (asc : Bool) (limit : Nat)
    (withTotal : Bool) :
    search a q from_ to asc limit withTotal = Spec.search (arrivalDocs a) q from_ to asc limit withTotal := by
  unfold search
  have hb := toIndex_bounds a hwf
  rw [EvalTree.search_eq_spec (toIndex a) (toIndex_wf a hwf) (toIndex_sortedDesc a) hb.1 q _ _ (Or.inr hb.2),
    search_perm _ _ (docsOf_toIndex_perm a hwf), search_clamp a hwf]

end SV.ActiveIndex
