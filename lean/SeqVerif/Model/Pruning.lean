import SeqVerif.Model.FracInfo
/-!
# Pruning of fractions by their info (fracmanager/list.go:FilterInRange, searcher.prepareFracs,
fetcher.groupIDsByFraction) against the reference "examine every document of every fraction"

A fraction is its `Info` plus the IDs `(MID, RID)` of its documents.  The reference scan keeps the documents whose
MID lies in `[qf, qt]` (unsigned comparison, as `getLIDsBorders` / `seq.Less` do).
-/
namespace SV.Pruning
open SV.Dist SV.FracInfo

structure Frac where
  info : Info
  docs : List (Nat × Nat)
deriving Repr, DecidableEq

def inRange (qf qt : Nat) (id : Nat × Nat) : Bool := decide (qf ≤ id.1) && decide (id.1 ≤ qt)

/-- `List.FilterInRange(from, to)` -/
def filterInRange (fs : List Frac) (qf qt : Nat) : List Frac :=
  fs.filter fun f => FracInfo.isIntersecting f.info qf qt

/-- reference: every document of every fraction is examined -/
def scanAll (fs : List Frac) (qf qt : Nat) : List (Nat × Nat) :=
  fs.flatMap fun f => f.docs.filter (inRange qf qt)

/-- what the searcher examines: only the fractions kept by `FilterInRange` -/
def scanPruned (fs : List Frac) (qf qt : Nat) : List (Nat × Nat) := scanAll (filterInRange fs qf qt) qf qt

/-- `Fraction.Contains(mid)` = `IsIntersecting(mid, mid)` -/
def contains (f : Frac) (mid : Nat) : Bool := FracInfo.isIntersecting f.info mid mid

/-- reference fetch: the fractions that hold the requested ID -/
def holders (fs : List Frac) (id : Nat × Nat) : List Frac := fs.filter fun f => decide (id ∈ f.docs)

/-- `groupIDsByFraction` for IDs without hints: first `FilterInRange(minMID, maxMID)` over the whole request,
then `Contains(id.MID)` per fraction -/
def candidates (fs : List Frac) (minMID maxMID : Nat) (id : Nat × Nat) : List Frac :=
  (filterInRange fs minMID maxMID).filter fun f => contains f id.1

theorem flatMap_filter_of_empty {α β} (p : α → Bool) (g : α → List β) (xs : List α)
    (h : ∀ x, x ∈ xs → p x = false → g x = []) : (xs.filter p).flatMap g = xs.flatMap g := by
  induction xs with
  | nil => rfl
  | cons x xs ih =>
    have ih' := ih (fun y hy => h y (List.mem_cons_of_mem _ hy))
    by_cases hp : p x = true
    · simp [hp, ih']
    · have hp' : p x = false := by simpa using hp
      simp [hp', ih', h x (List.mem_cons_self) hp']

/-- the info never rejects a range that holds one of the fraction's documents -/
def Sound (f : Frac) : Prop :=
  ∀ id, id ∈ f.docs → ∀ qf qt, qf ≤ id.1 → id.1 ≤ qt → qt < 18446744073709551616 →
    FracInfo.isIntersecting f.info qf qt = true

theorem scanPruned_eq {fs : List Frac} (hs : ∀ f, f ∈ fs → Sound f) {qf qt : Nat}
    (hqt : qt < 18446744073709551616) :
    scanPruned fs qf qt = scanAll fs qf qt := by
  unfold scanPruned scanAll filterInRange
  apply flatMap_filter_of_empty
  intro f hf hp
  rw [List.filter_eq_nil_iff]
  intro id hid hin
  unfold inRange at hin
  simp only [Bool.and_eq_true, decide_eq_true_eq] at hin
  have := hs f hf id hid qf qt hin.1 hin.2 hqt
  rw [this] at hp
  exact absurd hp (by simp)

theorem mem_flatten_map_fst {bulks : List (List (Nat × Nat))} {id : Nat × Nat} (h : id ∈ bulks.flatten) :
    id.1 ∈ (bulks.map (·.map Prod.fst)).flatten := by
  rw [List.mem_flatten] at h ⊢
  rcases h with ⟨b, hb, hid⟩
  exact ⟨b.map Prod.fst, List.mem_map_of_mem hb, List.mem_map_of_mem hid⟩

end SV.Pruning
