import SeqVerif.Model.FileWriter
/-!
# C01 - FileWriter: invariants of every path of the transition system
-/
namespace SV.FWr

/-- request `off` finished with result `ok`, and `sb`, `se` are a `syncBegin` / `syncEnd ok` pair of the trace that
follow a successful `written off` -/
def Covered (tr : List Lbl) (off : Nat) (ok : Bool) (sb se : Nat) : Prop :=
  ∃ tw, tw < sb ∧ sb < se ∧ tr[tw]? = some (.written off true) ∧ tr[sb]? = some .syncBegin ∧
    tr[se]? = some (.syncEnd ok)

structure Core (tr : List Lbl) (st : St) : Prop where
  W : ∀ w ∈ st.ws, ∀ tw, w.pc = .written tw → tr[tw]? = some (.written w.off true)
  Q : ∀ e ∈ st.queue, tr[e.2]? = some (.written e.1 true)
  B1 : ∀ batch, st.syncer = .taken batch → ∀ e ∈ batch, tr[e.2]? = some (.written e.1 true)
  B2 : ∀ batch sb, st.syncer = .syncing batch sb →
    tr[sb]? = some .syncBegin ∧ ∀ e ∈ batch, e.2 < sb ∧ tr[e.2]? = some (.written e.1 true)
  D : ∀ w ∈ st.ws, ∀ ok sb se, (w.pc = .done ok sb se ∨ w.pc = .returned ok sb se) → Covered tr w.off ok sb se

structure Inv (tr : List Lbl) (st : St) : Prop where
  now : st.now = tr.length
  core : Core tr st

theorem get_ext {tr : List Lbl} {i : Nat} {x : Lbl} (l : Lbl) (h : tr[i]? = some x) : (tr ++ [l])[i]? = some x := by
  have hi : i < tr.length := by
    rcases Nat.lt_or_ge i tr.length with h' | h'
    · exact h'
    · rw [List.getElem?_eq_none h'] at h; cases h
  rw [List.getElem?_append_left hi]; exact h

theorem get_last (tr : List Lbl) (l : Lbl) : (tr ++ [l])[tr.length]? = some l := by simp

theorem lt_of_get {tr : List Lbl} {i : Nat} {x : Lbl} (h : tr[i]? = some x) : i < tr.length := by
  rcases Nat.lt_or_ge i tr.length with h' | h'
  · exact h'
  · rw [List.getElem?_eq_none h'] at h; cases h

theorem Covered.ext {tr : List Lbl} {off : Nat} {ok : Bool} {sb se : Nat} (l : Lbl) (h : Covered tr off ok sb se) :
    Covered (tr ++ [l]) off ok sb se := by
  obtain ⟨tw, h1, h2, h3, h4, h5⟩ := h
  exact ⟨tw, h1, h2, get_ext l h3, get_ext l h4, get_ext l h5⟩

theorem Core.ext {tr : List Lbl} {st : St} (l : Lbl) (h : Core tr st) : Core (tr ++ [l]) st where
  W := fun w hw tw hp => get_ext l (h.W w hw tw hp)
  Q := fun e he => get_ext l (h.Q e he)
  B1 := fun b hb e he => get_ext l (h.B1 b hb e he)
  B2 := fun b sb hb => ⟨get_ext l (h.B2 b sb hb).1, fun e he => ⟨((h.B2 b sb hb).2 e he).1, get_ext l ((h.B2 b sb hb).2 e he).2⟩⟩
  D := fun w hw ok sb se hp => (h.D w hw ok sb se hp).ext l

theorem mem_upd {ws : List Wr} {off : Nat} {f : WPc → Option WPc} {w' : Wr} (h : w' ∈ upd ws off f) :
    ∃ w ∈ ws, w'.off = w.off ∧ w'.len = w.len ∧ (w'.pc = w.pc ∨ (w.off = off ∧ f w.pc = some w'.pc)) := by
  simp only [upd, List.mem_map] at h
  obtain ⟨w, hw, rfl⟩ := h
  refine ⟨w, hw, ?_⟩
  by_cases ho : w.off = off
  · cases hf : f w.pc with
    | none => refine ⟨?_, ?_, .inl ?_⟩ <;> simp [ho]
    | some p => refine ⟨?_, ?_, .inr ⟨ho, ?_⟩⟩ <;> simp [ho, hf]
  · refine ⟨?_, ?_, .inl ?_⟩ <;> simp [ho]

theorem writtenAt_spec {ws : List Wr} {off tw : Nat} (h : writtenAt ws off = some tw) :
    ∃ w ∈ ws, w.off = off ∧ w.pc = .written tw := by
  simp only [writtenAt, Option.bind_eq_some_iff] at h
  obtain ⟨w, hf, ht⟩ := h
  have hm := List.mem_of_find?_eq_some hf
  have hp := List.find?_some hf
  simp only [Bool.and_eq_true, decide_eq_true_eq] at hp
  refine ⟨w, hm, hp.1, ?_⟩
  cases hpc : w.pc <;> simp [twOf, hpc] at ht
  subst ht; rfl

/-- a change of pcs that creates no `written` and only turns `done` into `returned` keeps the writer clauses -/
theorem core_upd {tr : List Lbl} {st : St} {off : Nat} {f : WPc → Option WPc} (h : Core tr st)
    (hW : ∀ p q tw, f p = some q → q = .written tw → False)
    (hD : ∀ p q ok sb se, f p = some q → (q = .done ok sb se ∨ q = .returned ok sb se) → p = .done ok sb se) :
    (∀ w ∈ upd st.ws off f, ∀ tw, w.pc = .written tw → tr[tw]? = some (.written w.off true)) ∧
    (∀ w ∈ upd st.ws off f, ∀ ok sb se, (w.pc = .done ok sb se ∨ w.pc = .returned ok sb se) → Covered tr w.off ok sb se) := by
  constructor
  · intro w' hw' tw hp
    obtain ⟨w, hw, ho, _, hpc | ⟨_, hf⟩⟩ := mem_upd hw'
    · rw [ho]; exact h.W w hw tw (by rw [← hpc]; exact hp)
    · exact (hW _ _ tw hf hp).elim
  · intro w' hw' ok sb se hp
    obtain ⟨w, hw, ho, _, hpc | ⟨_, hf⟩⟩ := mem_upd hw'
    · rw [ho]; exact h.D w hw ok sb se (by rw [← hpc]; exact hp)
    · rw [ho]; exact h.D w hw ok sb se (.inl (hD _ _ ok sb se hf hp))

theorem step_inv {tr : List Lbl} {st st' : St} {l : Lbl} (hinv : Inv tr st) (hs : step st l = some st') :
    Inv (tr ++ [l]) st' := by
  have hc := hinv.core.ext l
  have hnow := hinv.now
  cases l with
  | reserve off len =>
    simp only [step] at hs
    split at hs
    · cases hs
      refine ⟨by simp [hnow], ⟨?_, hc.Q, hc.B1, hc.B2, ?_⟩⟩
      · intro w hw tw hp
        simp only [List.mem_append, List.mem_singleton] at hw
        rcases hw with hw | rfl
        · exact hc.W w hw tw hp
        · cases hp
      · intro w hw ok sb se hp
        simp only [List.mem_append, List.mem_singleton] at hw
        rcases hw with hw | rfl
        · exact hc.D w hw ok sb se hp
        · rcases hp with hp | hp <;> cases hp
    · cases hs
  | written off ok =>
    simp only [step] at hs
    split at hs
    · cases hs
      refine ⟨by simp [hnow], ⟨?_, hc.Q, hc.B1, hc.B2, ?_⟩⟩
      · intro w' hw' tw hp
        obtain ⟨w, hw, ho, _, hpc | ⟨hoff, hf⟩⟩ := mem_upd hw'
        · rw [ho]; exact hc.W w hw tw (by rw [← hpc]; exact hp)
        · cases hwp : w.pc <;> simp [fWritten, hwp] at hf
          cases ok
          · simp at hf; rw [← hf] at hp; cases hp
          · simp at hf
            rw [← hf] at hp
            cases hp
            rw [ho, hoff, hnow]
            exact get_last tr _
      · intro w' hw' ok' sb se hp
        obtain ⟨w, hw, ho, _, hpc | ⟨_, hf⟩⟩ := mem_upd hw'
        · rw [ho]; exact hc.D w hw ok' sb se (by rw [← hpc]; exact hp)
        · cases hwp : w.pc <;> simp [fWritten, hwp] at hf
          cases ok <;> simp at hf <;> rw [← hf] at hp <;> rcases hp with hp | hp <;> cases hp
    · cases hs
  | enqueue off size =>
    simp only [step] at hs
    split at hs
    · rename_i tw htw
      split at hs
      · cases hs
        obtain ⟨w0, hw0, ho0, hp0⟩ := writtenAt_spec htw
        have hu := core_upd (off := off) (f := fEnqueue size) hc
          (by intro p q tw hf hq; cases p <;> simp [fEnqueue] at hf; split at hf <;> (subst hf; cases hq))
          (by intro p q ok sb se hf hq; cases p <;> simp [fEnqueue] at hf
              split at hf <;> (subst hf; rcases hq with hq | hq <;> cases hq))
        refine ⟨by simp [hnow], ⟨hu.1, ?_, hc.B1, hc.B2, hu.2⟩⟩
        intro e he
        simp only [List.mem_append, List.mem_singleton] at he
        rcases he with he | rfl
        · exact hc.Q e he
        · have := hc.W w0 hw0 tw hp0
          rw [ho0] at this; exact this
      · cases hs
    · cases hs
  | notify off =>
    simp only [step] at hs
    split at hs
    · cases hs
      have hu := core_upd (off := off) (f := fNotify) hc
        (by intro p q tw hf hq; cases p <;> simp [fNotify] at hf; subst hf; cases hq)
        (by intro p q ok sb se hf hq; cases p <;> simp [fNotify] at hf; subst hf; rcases hq with hq | hq <;> cases hq)
      exact ⟨by simp [hnow], ⟨hu.1, hc.Q, hc.B1, hc.B2, hu.2⟩⟩
    · cases hs
  | wake =>
    simp only [step] at hs
    split at hs
    · cases hs
      refine ⟨by simp [hnow], ⟨hc.W, hc.Q, ?_, ?_, hc.D⟩⟩
      · intro b hb; cases hb
      · intro b sb hb; cases hb
    · cases hs
  | take n =>
    simp only [step] at hs
    split at hs
    · cases hs
      refine ⟨by simp [hnow], ⟨hc.W, ?_, ?_, ?_, hc.D⟩⟩
      · intro e he; cases he
      · intro b hb e he
        cases hb
        exact hc.Q e he
      · intro b sb hb; cases hb
    · cases hs
  | syncBegin =>
    simp only [step] at hs
    split at hs
    · rename_i batch hb
      cases hs
      refine ⟨by simp [hnow], ⟨hc.W, hc.Q, ?_, ?_, hc.D⟩⟩
      · intro b hb'; cases hb'
      · intro b sb hb'
        cases hb'
        refine ⟨by rw [hnow]; exact get_last tr _, fun e he => ?_⟩
        have := hinv.core.B1 batch hb e he
        exact ⟨by rw [hnow]; exact lt_of_get this, get_ext _ this⟩
    · cases hs
  | syncEnd ok =>
    simp only [step] at hs
    split at hs
    · rename_i batch sb hb
      split at hs
      · cases hs
        have hB := hinv.core.B2 batch sb hb
        refine ⟨by simp [hnow], ⟨?_, hc.Q, ?_, ?_, ?_⟩⟩
        · intro w' hw' tw hp
          obtain ⟨w, hw, hweq⟩ := List.mem_map.mp hw'
          by_cases hm : w.off ∈ batch.map (·.1)
          · rw [if_pos hm] at hweq; subst hweq; cases hp
          · rw [if_neg hm] at hweq; subst hweq
            exact hc.W w hw tw hp
        · intro b hb'; cases hb'
        · intro b sb' hb'; cases hb'
        · intro w' hw' ok' sb' se hp
          obtain ⟨w, hw, hweq⟩ := List.mem_map.mp hw'
          by_cases hm : w.off ∈ batch.map (·.1)
          · rw [if_pos hm] at hweq; subst hweq
            have hp' : ok' = ok ∧ sb' = sb ∧ se = st.now := by
              rcases hp with hp | hp
              · cases hp; exact ⟨rfl, rfl, rfl⟩
              · cases hp
            obtain ⟨rfl, rfl, rfl⟩ := hp'
            simp only [List.mem_map] at hm
            obtain ⟨e, he, heo⟩ := hm
            obtain ⟨h1, h2⟩ := hB.2 e he
            refine ⟨e.2, h1, by rw [hnow]; exact lt_of_get hB.1, ?_, get_ext _ hB.1, by rw [hnow]; exact get_last tr _⟩
            rw [← heo]; exact get_ext _ h2
          · rw [if_neg hm] at hweq; subst hweq
            exact hc.D w hw ok' sb' se hp
      · cases hs
    · cases hs
  | ret off ok =>
    simp only [step] at hs
    split at hs
    · cases hs
      have hu := core_upd (off := off) (f := fRet ok) hc
        (by intro p q tw hf hq; cases p <;> simp [fRet] at hf; obtain ⟨_, rfl⟩ := hf; cases hq)
        (by intro p q ok' sb se hf hq
            cases p <;> simp [fRet] at hf
            obtain ⟨rfl, rfl⟩ := hf
            rcases hq with hq | hq <;> cases hq
            rfl)
      exact ⟨by simp [hnow], ⟨hu.1, hc.Q, hc.B1, hc.B2, hu.2⟩⟩
    · cases hs

theorem inv_init (start : Nat) : Inv [] (init start) :=
  ⟨rfl, ⟨fun w hw => by simp [init] at hw, fun e he => by simp [init] at he, fun b hb => by simp [init] at hb,
    fun b sb hb => by simp [init] at hb, fun w hw => by simp [init] at hw⟩⟩

theorem exec_inv (ls : List Lbl) (pre : List Lbl) (st st' : St) (hinv : Inv pre st) (h : exec st ls = some st') :
    Inv (pre ++ ls) st' := by
  induction ls generalizing pre st with
  | nil => simp only [exec] at h; cases h; simpa using hinv
  | cons l ls ih =>
    simp only [exec, Option.bind_eq_some_iff] at h
    obtain ⟨s1, hs, hrest⟩ := h
    have := ih (pre ++ [l]) s1 (step_inv hinv hs) hrest
    simpa [List.append_assoc] using this

theorem exec_append (a b : List Lbl) (st : St) : exec st (a ++ b) = (exec st a).bind fun s => exec s b := by
  induction a generalizing st with
  | nil => simp [exec]
  | cons l a ih =>
    simp only [List.cons_append, exec]
    cases step st l with
    | none => simp
    | some s => simp [ih]

/-! ## offsets -/

theorem Tiled_append_one (start : Nat) (ws : List Wr) (e len : Nat) (h : Tiled start ws e) (hl : 0 < len) :
    Tiled start (ws ++ [⟨e, len, .reserved⟩]) (e + len) := by
  induction ws generalizing start with
  | nil => simp only [Tiled] at h; subst h; simp [Tiled, hl]
  | cons w ws ih =>
    obtain ⟨h1, h2, h3⟩ := h
    exact ⟨h1, h2, ih _ h3⟩

theorem Tiled_congr (start : Nat) (ws ws' : List Wr) (e : Nat) (h : Tiled start ws e)
    (hm : ws'.map (fun w => (w.off, w.len)) = ws.map (fun w => (w.off, w.len))) : Tiled start ws' e := by
  induction ws generalizing start ws' with
  | nil => cases ws' with
    | nil => exact h
    | cons _ _ => simp at hm
  | cons w ws ih =>
    cases ws' with
    | nil => simp at hm
    | cons w' ws' =>
      simp only [List.map_cons, List.cons.injEq, Prod.mk.injEq] at hm
      obtain ⟨h1, h2, h3⟩ := h
      exact ⟨by rw [hm.1.1]; exact h1, by rw [hm.1.2]; exact h2, by rw [hm.1.2]; exact ih _ _ h3 hm.2⟩

theorem upd_offlen (ws : List Wr) (off : Nat) (f : WPc → Option WPc) :
    (upd ws off f).map (fun w => (w.off, w.len)) = ws.map (fun w => (w.off, w.len)) := by
  simp only [upd, List.map_map]
  apply List.map_congr_left
  intro w _
  simp only [Function.comp]
  by_cases ho : w.off = off
  · simp only [ho, if_true]; cases f w.pc <;> simp [ho]
  · simp [ho]

theorem step_tiled {st st' : St} {l : Lbl} (start : Nat) (h : Tiled start st.ws st.offset) (hs : step st l = some st') :
    Tiled start st'.ws st'.offset := by
  cases l with
  | reserve off len =>
    simp only [step] at hs
    split at hs
    · rename_i hc; cases hs
      rw [hc.1]; exact Tiled_append_one start st.ws st.offset len h hc.2
    · cases hs
  | written off ok =>
    simp only [step] at hs
    split at hs
    · cases hs; exact Tiled_congr _ _ _ _ h (upd_offlen _ _ _)
    · cases hs
  | enqueue off size =>
    simp only [step] at hs
    split at hs
    · split at hs
      · cases hs; exact Tiled_congr _ _ _ _ h (upd_offlen _ _ _)
      · cases hs
    · cases hs
  | notify off =>
    simp only [step] at hs
    split at hs
    · cases hs; exact Tiled_congr _ _ _ _ h (upd_offlen _ _ _)
    · cases hs
  | wake => simp only [step] at hs; split at hs <;> cases hs; exact h
  | take n => simp only [step] at hs; split at hs <;> cases hs; exact h
  | syncBegin => simp only [step] at hs; split at hs <;> cases hs; exact h
  | syncEnd ok =>
    simp only [step] at hs
    split at hs
    · split at hs
      · cases hs
        refine Tiled_congr _ _ _ _ h ?_
        simp only [List.map_map]
        apply List.map_congr_left
        intro w _
        simp only [Function.comp]
        split <;> rfl
      · cases hs
    · cases hs
  | ret off ok =>
    simp only [step] at hs
    split at hs
    · cases hs; exact Tiled_congr _ _ _ _ h (upd_offlen _ _ _)
    · cases hs

theorem exec_tiled (ls : List Lbl) (start : Nat) (st st' : St) (h : Tiled start st.ws st.offset)
    (he : exec st ls = some st') : Tiled start st'.ws st'.offset := by
  induction ls generalizing st with
  | nil => simp only [exec] at he; cases he; exact h
  | cons l ls ih =>
    simp only [exec, Option.bind_eq_some_iff] at he
    obtain ⟨s1, hs, hrest⟩ := he
    exact ih s1 (step_tiled start h hs) hrest

end SV.FWr
