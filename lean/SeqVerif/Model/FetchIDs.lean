import SeqVerif.Base.Search
/-!
# C04 - the sealed fraction's ID lookup (`frac/sealed_index.go: sealedFetchIndex.findLIDs`)

The sealed ID table is modelled as the flat list `t : List ID` indexed by LID: `t[0]` is the system ID,
the real IDs follow in strictly descending order (`Desc`), `t.length = IDsTotal`.
`lessOrEqual` is `sealedIDsIndex.LessOrEqual` seen through the flat table (the block-level short cuts of the
real function are modelled in `lessOrEqualBlk` and proved equal to it), `findLIDs` follows the Go loop
statement by statement; a probe `GetMID(lid)` with `lid >= IDsTotal` is the panic (`none`).
-/
namespace SV.Fetch

structure ID where
  mid : Nat
  rid : Nat
deriving DecidableEq, Repr, Inhabited

/-- seq.Less -/
def ID.lt (a b : ID) : Bool := if a.mid = b.mid then decide (a.rid < b.rid) else decide (a.mid < b.mid)
/-- seq.LessOrEqual -/
def ID.le (a b : ID) : Bool := if a.mid = b.mid then decide (a.rid ≤ b.rid) else decide (a.mid < b.mid)

theorem ID.lt_iff (a b : ID) : a.lt b = true ↔ (a.mid < b.mid ∨ (a.mid = b.mid ∧ a.rid < b.rid)) := by
  unfold ID.lt; split <;> simp <;> omega

theorem ID.le_iff (a b : ID) : a.le b = true ↔ (a.mid < b.mid ∨ (a.mid = b.mid ∧ a.rid ≤ b.rid)) := by
  unfold ID.le; split <;> simp <;> omega

theorem ID.eq_iff (a b : ID) : a = b ↔ (a.mid = b.mid ∧ a.rid = b.rid) := by
  cases a; cases b; simp

theorem ID.le_refl (a : ID) : a.le a = true := by rw [ID.le_iff]; omega

theorem ID.le_trans {a b c : ID} (h1 : a.le b = true) (h2 : b.le c = true) : a.le c = true := by
  rw [ID.le_iff] at *; omega

theorem ID.lt_le_trans {a b c : ID} (h1 : a.lt b = true) (h2 : b.le c = true) : a.lt c = true := by
  rw [ID.le_iff] at h2; rw [ID.lt_iff] at *; omega

theorem ID.le_lt_trans {a b c : ID} (h1 : a.le b = true) (h2 : b.lt c = true) : a.lt c = true := by
  rw [ID.le_iff] at h1; rw [ID.lt_iff] at *; omega

theorem ID.lt_trans {a b c : ID} (h1 : a.lt b = true) (h2 : b.lt c = true) : a.lt c = true := by
  rw [ID.lt_iff] at *; omega

theorem ID.lt_irrefl (a : ID) : a.lt a = false := by
  cases h : a.lt a with
  | false => rfl
  | true => rw [ID.lt_iff] at h; omega

theorem ID.le_of_lt {a b : ID} (h : a.lt b = true) : a.le b = true := by
  rw [ID.lt_iff] at h; rw [ID.le_iff]; omega

theorem ID.not_le_iff_lt (a b : ID) : a.le b = false ↔ b.lt a = true := by
  rw [← Bool.not_eq_true, ID.le_iff, ID.lt_iff]; omega

theorem ID.le_antisymm {a b : ID} (h1 : a.le b = true) (h2 : b.le a = true) : a = b := by
  rw [ID.le_iff] at *; rw [ID.eq_iff]; omega

/-- the table is strictly descending: earlier LIDs hold greater IDs -/
def Desc (t : List ID) : Prop := t.Pairwise (fun a b => b.lt a = true)

instance (t : List ID) : Decidable (Desc t) := by unfold Desc; infer_instance

theorem Desc.getElem_lt {t : List ID} (h : Desc t) {i j : Nat} (hi : i < j) (hj : j < t.length) :
    (t[j]).lt (t[i]'(by omega)) = true :=
  (List.pairwise_iff_getElem.mp h) i j (by omega) hj hi

/-- `sealedIDsIndex.LessOrEqual(lid, id)` on the flat table: past the table it answers true -/
def lessOrEqual (t : List ID) (lid : Nat) (id : ID) : Bool :=
  if h : lid < t.length then (t[lid]).le id else true

theorem lessOrEqual_mono (t : List ID) (h : Desc t) (id : ID) (lo hi : Nat) :
    Mono (fun l => lessOrEqual t l id) lo hi := by
  intro a b _ hab _ hfa
  simp only [lessOrEqual] at *
  by_cases hb : b < t.length
  · have ha : a < t.length := by omega
    rw [dif_pos ha] at hfa
    rw [dif_pos hb]
    by_cases hab' : a = b
    · subst hab'; exact hfa
    · exact ID.le_trans (ID.le_of_lt (h.getElem_lt (by omega) hb)) hfa
  · simp [hb]

/-- the binary search of one ID: `util.BinSearchInRange(left, Len()-1, LessOrEqual(., id))` -/
def probe (t : List ID) (left : Nat) (id : ID) : Nat :=
  binSearchInRange left (t.length - 1) (fun l => lessOrEqual t l id)

/-- `if i == 0 || !seq.Less(id, ids[i-1]) { left = 1 }`: the carried border survives only for a descending step -/
def nextLeft (prev : Option ID) (left : Nat) (id : ID) : Nat :=
  match prev with
  | none => 1
  | some p => if id.lt p then left else 1

/-- `findLIDs` as written.  `prev` is `ids[i-1]` (`none` for `i = 0`), `left` the carried search border.
`none` = the equality probe `GetMID(lid)` indexes past the table (run-time panic). -/
def findLIDsGo (t : List ID) : Option ID → Nat → List ID → Option (List Nat)
  | _, _, [] => some []
  | prev, left, id :: rest =>
    let lid := probe t (nextLeft prev left id) id
    if h : lid < t.length then
      let r := if t[lid] = id then lid else 0
      (findLIDsGo t (some id) lid rest).map (r :: ·)
    else none

def findLIDs (t : List ID) (ids : List ID) : Option (List Nat) := findLIDsGo t none 1 ids

/-- `findLIDs` with the proposed repair: the equality probe is guarded by `int(lid) <= right` -/
def findLIDsFixedGo (t : List ID) : Option ID → Nat → List ID → Option (List Nat)
  | _, _, [] => some []
  | prev, left, id :: rest =>
    let lid := probe t (nextLeft prev left id) id
    if lid ≤ t.length - 1 then
      if h : lid < t.length then
        let r := if t[lid] = id then lid else 0
        (findLIDsFixedGo t (some id) lid rest).map (r :: ·)
      else none
    else (findLIDsFixedGo t (some id) lid rest).map (0 :: ·)

def findLIDsFixed (t : List ID) (ids : List ID) : Option (List Nat) := findLIDsFixedGo t none 1 ids

/-- what the lookup means: the LID (>= 1) holding `id`, or 0 -/
def lidOf (t : List ID) (id : ID) : Nat :=
  let i := t.idxOf id
  if 1 ≤ i ∧ i < t.length then i else 0

/-! ## the binary search step -/

theorem probe_spec (t : List ID) (hd : Desc t) (left : Nat) (id : ID) (hl : left ≤ t.length)
    (hne : 1 ≤ t.length) :
    left ≤ probe t left id ∧ probe t left id ≤ t.length ∧
    (∀ k, left ≤ k → k < probe t left id → lessOrEqual t k id = false) ∧
    (∀ k, probe t left id ≤ k → lessOrEqual t k id = true) := by
  unfold probe binSearchInRange
  dsimp only
  generalize hn : t.length - 1 + 1 - left = n
  have hb := searchGo_bounds (fun i => lessOrEqual t (left + i) id) 0 n (by omega)
  have hm : Mono (fun i => lessOrEqual t (left + i) id) 0 n := by
    intro a b h0 hab hbn hfa
    exact lessOrEqual_mono t hd id 0 (left + n) (left + a) (left + b) (by omega) (by omega) (by omega) hfa
  have hs := searchGo_spec (fun i => lessOrEqual t (left + i) id) 0 n hm 0 n (by omega) (by omega) (by omega)
    (by intro k _ h; omega) (by intro k h1 h2; omega)
  refine ⟨by omega, by omega, ?_, ?_⟩
  · intro k h1 h2
    have := hs.1 (k - left) (by omega) (by omega)
    simpa [show left + (k - left) = k by omega] using this
  · intro k h1
    by_cases hk : k < left + n
    · have := hs.2 (k - left) (by omega) (by omega)
      simpa [show left + (k - left) = k by omega] using this
    · have : ¬ k < t.length := by omega
      simp [lessOrEqual, this]


theorem Desc.nodup {t : List ID} (h : Desc t) : t.Nodup := by
  refine List.Pairwise.imp ?_ h
  intro a b hab heq
  subst heq
  simp [ID.lt_irrefl] at hab

/-- everything strictly between LID 0 and `left` is greater than `id` -/
def Above (t : List ID) (left : Nat) (id : ID) : Prop :=
  ∀ k, 1 ≤ k → k < left → lessOrEqual t k id = false

/-- the carried state of the loop: `left` is a sound lower border for every ID below `prev` -/
def LoopInv (t : List ID) (prev : Option ID) (left : Nat) : Prop :=
  1 ≤ left ∧ left ≤ t.length ∧ ∀ p, prev = some p → Above t left p

theorem nextLeft_inv (t : List ID) (hne : 2 ≤ t.length) (prev : Option ID) (left : Nat) (id : ID)
    (h : LoopInv t prev left) :
    1 ≤ nextLeft prev left id ∧ nextLeft prev left id ≤ t.length ∧ Above t (nextLeft prev left id) id := by
  cases prev with
  | none => exact ⟨by simp [nextLeft], by simp [nextLeft]; omega, fun k h1 h2 => by simp [nextLeft] at h2; omega⟩
  | some p =>
    by_cases hlt : id.lt p = true
    · simp only [nextLeft, hlt, if_true]
      refine ⟨h.1, h.2.1, fun k h1 h2 => ?_⟩
      have := h.2.2 p rfl k h1 h2
      unfold lessOrEqual at *
      by_cases hk : k < t.length
      · rw [dif_pos hk] at this ⊢
        rw [ID.not_le_iff_lt] at this ⊢
        exact ID.lt_trans hlt this
      · rw [dif_neg hk] at this; cases this
    · simp only [nextLeft, hlt]
      exact ⟨by simp, by simp; omega, fun k h1 h2 => by simp at h2; omega⟩

/-- one iteration: the binary search lands on the first LID >= 1 whose ID is <= `id` (or on `IDsTotal`) -/
theorem probe_step (t : List ID) (hd : Desc t) (hne : 2 ≤ t.length) (left : Nat) (id : ID)
    (h1 : 1 ≤ left) (h2 : left ≤ t.length) (ha : Above t left id) :
    1 ≤ probe t left id ∧ probe t left id ≤ t.length ∧ Above t (probe t left id) id ∧
    (∀ k, probe t left id ≤ k → lessOrEqual t k id = true) := by
  have hp := probe_spec t hd left id h2 (by omega)
  refine ⟨by omega, hp.2.1, ?_, hp.2.2.2⟩
  intro k hk1 hk2
  by_cases hk : k < left
  · exact ha k hk1 hk
  · exact hp.2.2.1 k (by omega) hk2

/-- the value stored for one ID agrees with `lidOf` -/
theorem probe_result (t : List ID) (hd : Desc t) (lid : Nat) (id : ID) (h1 : 1 ≤ lid)
    (ha : Above t lid id) (hb : ∀ k, lid ≤ k → lessOrEqual t k id = true) :
    (if h : lid < t.length then (if t[lid] = id then lid else 0) else 0) = lidOf t id := by
  unfold lidOf
  dsimp only
  by_cases hl : lid < t.length
  · rw [dif_pos hl]
    by_cases he : t[lid] = id
    · have : t.idxOf id = lid := by rw [← he]; exact List.Nodup.idxOf_getElem hd.nodup lid hl
      rw [if_pos he, this, if_pos ⟨h1, hl⟩]
    · rw [if_neg he]
      by_cases hi : 1 ≤ t.idxOf id ∧ t.idxOf id < t.length
      · exfalso
        have hget : t[t.idxOf id] = id := List.getElem_idxOf hi.2
        have hle : lessOrEqual t (t.idxOf id) id = true := by
          unfold lessOrEqual; rw [dif_pos hi.2, hget]; exact ID.le_refl id
        have hge : lid ≤ t.idxOf id := by
          apply Nat.le_of_not_lt
          intro hlt
          rw [ha _ hi.1 hlt] at hle; cases hle
        have hne : lid ≠ t.idxOf id := by
          intro heq
          apply he
          simp only [heq]
          exact hget
        have hlt := hd.getElem_lt (show lid < t.idxOf id by omega) hi.2
        rw [hget] at hlt
        have hlid := hb lid (Nat.le_refl _)
        unfold lessOrEqual at hlid
        rw [dif_pos hl] at hlid
        have := ID.lt_le_trans hlt hlid
        rw [ID.lt_irrefl] at this; cases this
      · rw [if_neg hi]
  · rw [dif_neg hl]
    by_cases hi : 1 ≤ t.idxOf id ∧ t.idxOf id < t.length
    · exfalso
      have hget : t[t.idxOf id] = id := List.getElem_idxOf hi.2
      have hle : lessOrEqual t (t.idxOf id) id = true := by
        unfold lessOrEqual; rw [dif_pos hi.2, hget]; exact ID.le_refl id
      rw [ha _ hi.1 (by omega)] at hle; cases hle
    · rw [if_neg hi]

/-- **the repaired loop finds exactly `lidOf` for every ID list in any order and never probes past the table** -/
theorem findLIDsFixedGo_spec (t : List ID) (hd : Desc t) (hne : 2 ≤ t.length) (ids : List ID) :
    ∀ prev left, LoopInv t prev left → findLIDsFixedGo t prev left ids = some (ids.map (lidOf t)) := by
  induction ids with
  | nil => intro _ _ _; rfl
  | cons id rest ih =>
    intro prev left hinv
    have hn := nextLeft_inv t hne prev left id hinv
    have hp := probe_step t hd hne (nextLeft prev left id) id hn.1 hn.2.1 hn.2.2
    have hr := probe_result t hd (probe t (nextLeft prev left id) id) id hp.1 hp.2.2.1 hp.2.2.2
    have hnext : LoopInv t (some id) (probe t (nextLeft prev left id) id) :=
      ⟨hp.1, hp.2.1, fun p hpeq => by cases hpeq; exact hp.2.2.1⟩
    have ih' := ih (some id) _ hnext
    unfold findLIDsFixedGo
    change (if probe t (nextLeft prev left id) id ≤ t.length - 1 then _ else _) = _
    by_cases hl : probe t (nextLeft prev left id) id < t.length
    · rw [dif_pos hl] at hr
      rw [if_pos (by omega), dif_pos hl]
      dsimp only
      rw [ih', hr]; rfl
    · rw [dif_neg hl] at hr
      rw [if_neg (by omega), ih']; simp [← hr]

theorem findLIDsFixed_spec (t : List ID) (hd : Desc t) (hne : 2 ≤ t.length) (ids : List ID) :
    findLIDsFixed t ids = some (ids.map (lidOf t)) :=
  findLIDsFixedGo_spec t hd hne ids none 1 ⟨by omega, by omega, fun p h => by cases h⟩

/-- some stored ID (LID >= 1) is `<= id`: the binary search cannot run off the table -/
def Covered (t : List ID) (id : ID) : Prop := lessOrEqual t (t.length - 1) id = true

instance (t : List ID) (id : ID) : Decidable (Covered t id) := by unfold Covered; infer_instance

/-- **the loop as written**: correct on every ID list all of whose members are covered ... -/
theorem findLIDsGo_spec (t : List ID) (hd : Desc t) (hne : 2 ≤ t.length) (ids : List ID)
    (hc : ∀ id, id ∈ ids → Covered t id) :
    ∀ prev left, LoopInv t prev left → findLIDsGo t prev left ids = some (ids.map (lidOf t)) := by
  induction ids with
  | nil => intro _ _ _; rfl
  | cons id rest ih =>
    intro prev left hinv
    have hn := nextLeft_inv t hne prev left id hinv
    have hp := probe_step t hd hne (nextLeft prev left id) id hn.1 hn.2.1 hn.2.2
    have hr := probe_result t hd (probe t (nextLeft prev left id) id) id hp.1 hp.2.2.1 hp.2.2.2
    have hl : probe t (nextLeft prev left id) id < t.length := by
      apply Nat.lt_of_not_le
      intro hge
      have hcov := hc id (by simp)
      unfold Covered at hcov
      rw [hp.2.2.1 (t.length - 1) (by omega) (by omega)] at hcov
      cases hcov
    have hnext : LoopInv t (some id) (probe t (nextLeft prev left id) id) :=
      ⟨hp.1, hp.2.1, fun p hpeq => by cases hpeq; exact hp.2.2.1⟩
    have ih' := ih (fun x hx => hc x (by simp [hx])) (some id) _ hnext
    unfold findLIDsGo
    change (if h : probe t (nextLeft prev left id) id < t.length then _ else _) = _
    rw [dif_pos hl] at hr
    rw [dif_pos hl]
    dsimp only
    rw [ih', hr]; rfl

theorem findLIDs_spec (t : List ID) (hd : Desc t) (hne : 2 ≤ t.length) (ids : List ID)
    (hc : ∀ id, id ∈ ids → Covered t id) : findLIDs t ids = some (ids.map (lidOf t)) :=
  findLIDsGo_spec t hd hne ids hc none 1 ⟨by omega, by omega, fun p h => by cases h⟩

/-- ... and it panics as soon as one ID is below every stored ID -/
theorem findLIDsGo_panics (t : List ID) (hd : Desc t) (hne : 2 ≤ t.length) (ids : List ID)
    (hc : ∃ id, id ∈ ids ∧ ¬ Covered t id) :
    ∀ prev left, LoopInv t prev left → findLIDsGo t prev left ids = none := by
  induction ids with
  | nil => rcases hc with ⟨_, h, _⟩; cases h
  | cons id rest ih =>
    intro prev left hinv
    have hn := nextLeft_inv t hne prev left id hinv
    have hp := probe_step t hd hne (nextLeft prev left id) id hn.1 hn.2.1 hn.2.2
    unfold findLIDsGo
    change (if h : probe t (nextLeft prev left id) id < t.length then _ else _) = _
    by_cases hl : probe t (nextLeft prev left id) id < t.length
    · rw [dif_pos hl]
      dsimp only
      have hcov : Covered t id := hp.2.2.2 (t.length - 1) (by omega)
      have hc' : ∃ x, x ∈ rest ∧ ¬ Covered t x := by
        rcases hc with ⟨x, hx, hnx⟩
        rcases List.mem_cons.mp hx with rfl | hx
        · exact absurd hcov hnx
        · exact ⟨x, hx, hnx⟩
      have hnext : LoopInv t (some id) (probe t (nextLeft prev left id) id) :=
        ⟨hp.1, hp.2.1, fun p hpeq => by cases hpeq; exact hp.2.2.1⟩
      rw [ih hc' (some id) _ hnext]; rfl
    · rw [dif_neg hl]

theorem findLIDs_panics (t : List ID) (hd : Desc t) (hne : 2 ≤ t.length) (ids : List ID)
    (hc : ∃ id, id ∈ ids ∧ ¬ Covered t id) : findLIDs t ids = none :=
  findLIDsGo_panics t hd hne ids hc none 1 ⟨by omega, by omega, fun p h => by cases h⟩

end SV.Fetch
