import SeqVerif.Base.Search
/-!
# C04 - the sealed fraction's ID lookup (`frac/sealed_index.go: sealedFetchIndex.findLIDs`)

The sealed ID table is modelled as the flat list `t : List ID` indexed by LID: `t[0]` is the system ID,
the real IDs follow in strictly descending order (`Desc`), `t.length = IDsTotal`.
`lessOrEqual` is `sealedIDsIndex.LessOrEqual` seen through the flat table (the block-level short cuts of the
real function are modelled in `lessOrEqualBlk` and proved equal to it), `findLIDs` follows the Go loop
statement by statement; a probe `GetMID(lid)` with `lid >= IDsTotal` is the panic (`none`).
-/
namespace SV.Fetch

structure ID where
  mid : Nat
  rid : Nat
deriving DecidableEq, Repr, Inhabited

/-- seq.Less -/
def ID.lt (a b : ID) : Bool := if a.mid = b.mid then decide (a.rid < b.rid) else decide (a.mid < b.mid)
/-- seq.LessOrEqual -/
def ID.le (a b : ID) : Bool := if a.mid = b.mid then decide (a.rid ≤ b.rid) else decide (a.mid < b.mid)

theorem ID.lt_iff (a b : ID) : a.lt b = true ↔ (a.mid < b.mid ∨ (a.mid = b.mid ∧ a.rid < b.rid)) := by
  unfold ID.lt; split <;> simp <;> omega

theorem ID.le_iff (a b : ID) : a.le b = true ↔ (a.mid < b.mid ∨ (a.mid = b.mid ∧ a.rid ≤ b.rid)) := by
  unfold ID.le; split <;> simp <;> omega

theorem ID.eq_iff (a b : ID) : a = b ↔ (a.mid = b.mid ∧ a.rid = b.rid) := by
  cases a; cases b; simp

theorem ID.le_refl (a : ID) : a.le a = true := by rw [ID.le_iff]; omega

theorem ID.le_trans {a b c : ID} (h1 : a.le b = true) (h2 : b.le c = true) : a.le c = true := by
  rw [ID.le_iff] at *; omega

theorem ID.lt_le_trans {a b c : ID} (h1 : a.lt b = true) (h2 : b.le c = true) : a.lt c = true := by
  rw [ID.le_iff] at h2; rw [ID.lt_iff] at *; omega

theorem ID.le_lt_trans {a b c : ID} (h1 : a.le b = true) (h2 : b.lt c = true) : a.lt c = true := by
  rw [ID.le_iff] at h1; rw [ID.lt_iff] at *; omega

theorem ID.lt_trans {a b c : ID} (h1 : a.lt b = true) (h2 : b.lt c = true) : a.lt c = true := by
  rw [ID.lt_iff] at *; omega

theorem ID.lt_irrefl (a : ID) : a.lt a = false := by
  cases h : a.lt a with
  | false => rfl
  | true => rw [ID.lt_iff] at h; omega

theorem ID.le_of_lt {a b : ID} (h : a.lt b = true) : a.le b = true := by
  rw [ID.lt_iff] at h; rw [ID.le_iff]; omega

theorem ID.not_le_iff_lt (a b : ID) : a.le b = false ↔ b.lt a = true := by
  rw [← Bool.not_eq_true, ID.le_iff, ID.lt_iff]; omega

theorem ID.le_antisymm {a b : ID} (h1 : a.le b = true) (h2 : b.le a = true) : a = b := by
  rw [ID.le_iff] at *; rw [ID.eq_iff]; omega

/-- the table is strictly descending: earlier LIDs hold greater IDs -/
def Desc (t : List ID) : Prop := t.Pairwise (fun a b => b.lt a = true)

theorem Desc.getElem_lt {t : List ID} (h : Desc t) {i j : Nat} (hi : i < j) (hj : j < t.length) :
    (t[j]).lt (t[i]'(by omega)) = true :=
  (List.pairwise_iff_getElem.mp h) i j (by omega) hj hi

/-- `sealedIDsIndex.LessOrEqual(lid, id)` on the flat table: past the table it answers true -/
def lessOrEqual (t : List ID) (lid : Nat) (id : ID) : Bool :=
  if h : lid < t.length then (t[lid]).le id else true

theorem lessOrEqual_mono (t : List ID) (h : Desc t) (id : ID) (lo hi : Nat) :
    Mono (fun l => lessOrEqual t l id) lo hi := by
  intro a b _ hab _ hfa
  simp only [lessOrEqual] at *
  by_cases hb : b < t.length
  · have ha : a < t.length := by omega
    rw [dif_pos ha] at hfa
    rw [dif_pos hb]
    by_cases hab' : a = b
    · subst hab'; exact hfa
    · exact ID.le_trans (ID.le_of_lt (h.getElem_lt (by omega) hb)) hfa
  · simp [hb]

/-- the binary search of one ID: `util.BinSearchInRange(left, Len()-1, LessOrEqual(., id))` -/
def probe (t : List ID) (left : Nat) (id : ID) : Nat :=
  binSearchInRange left (t.length - 1) (fun l => lessOrEqual t l id)

/-- `findLIDs` as written.  `prev` is `ids[i-1]` (`none` for `i = 0`), `left` the carried search border.
`none` = the equality probe `GetMID(lid)` indexes past the table (run-time panic). -/
def findLIDsGo (t : List ID) : Option ID → Nat → List ID → Option (List Nat)
  | _, _, [] => some []
  | prev, left, id :: rest =>
    let left' := match prev with
      | none => 1
      | some p => if id.lt p then left else 1
    let lid := probe t left' id
    if h : lid < t.length then
      let r := if t[lid] = id then lid else 0
      (findLIDsGo t (some id) lid rest).map (r :: ·)
    else none

def findLIDs (t : List ID) (ids : List ID) : Option (List Nat) := findLIDsGo t none 1 ids

/-- `findLIDs` with the proposed repair: the equality probe is guarded by `int(lid) <= right` -/
def findLIDsFixedGo (t : List ID) : Option ID → Nat → List ID → Option (List Nat)
  | _, _, [] => some []
  | prev, left, id :: rest =>
    let left' := match prev with
      | none => 1
      | some p => if id.lt p then left else 1
    let lid := probe t left' id
    if lid ≤ t.length - 1 then
      if h : lid < t.length then
        let r := if t[lid] = id then lid else 0
        (findLIDsFixedGo t (some id) lid rest).map (r :: ·)
      else none
    else (findLIDsFixedGo t (some id) lid rest).map (0 :: ·)

def findLIDsFixed (t : List ID) (ids : List ID) : Option (List Nat) := findLIDsFixedGo t none 1 ids

/-- what the lookup means: the LID (>= 1) holding `id`, or 0 -/
def lidOf (t : List ID) (id : ID) : Nat :=
  let i := t.idxOf id
  if 1 ≤ i ∧ i < t.length then i else 0

/-! ## the binary search step -/

theorem probe_spec (t : List ID) (hd : Desc t) (left : Nat) (id : ID) (hl : left ≤ t.length)
    (hne : 1 ≤ t.length) :
    left ≤ probe t left id ∧ probe t left id ≤ t.length ∧
    (∀ k, left ≤ k → k < probe t left id → lessOrEqual t k id = false) ∧
    (∀ k, probe t left id ≤ k → lessOrEqual t k id = true) := by
  unfold probe binSearchInRange
  dsimp only
  generalize hn : t.length - 1 + 1 - left = n
  have hb := searchGo_bounds (fun i => lessOrEqual t (left + i) id) 0 n (by omega)
  have hm : Mono (fun i => lessOrEqual t (left + i) id) 0 n := by
    intro a b h0 hab hbn hfa
    exact lessOrEqual_mono t hd id 0 (left + n) (left + a) (left + b) (by omega) (by omega) (by omega) hfa
  have hs := searchGo_spec (fun i => lessOrEqual t (left + i) id) 0 n hm 0 n (by omega) (by omega) (by omega)
    (by intro k _ h; omega) (by intro k h1 h2; omega)
  refine ⟨by omega, by omega, ?_, ?_⟩
  · intro k h1 h2
    have := hs.1 (k - left) (by omega) (by omega)
    simpa [show left + (k - left) = k by omega] using this
  · intro k h1
    by_cases hk : k < left + n
    · have := hs.2 (k - left) (by omega) (by omega)
      simpa [show left + (k - left) = k by omega] using this
    · have : ¬ k < t.length := by omega
      simp [lessOrEqual, this]

end SV.Fetch
