/-!
The arrange step of `fracmanager/fetcher.go:Fetcher.FetchDocs` for ONE requested id: the fractions that were asked
for the id (in the order `groupIDsByFraction` produced them) each answer with the document or nil; the loop writes an
answer into the result slot only when it is not nil, so the slot ends up with the last non-nil answer.
-/
namespace SV.FetchArrange

/-- the loop as written: `if doc != nil { result[pos] = doc }` -/
def arrange {α} (answers : List (Option α)) : Option α :=
  answers.foldl (fun acc a => match a with | some d => some d | none => acc) none

/-- the loop without the guard: every asked fraction overwrites the slot -/
def arrangeUnguarded {α} (answers : List (Option α)) : Option α :=
  answers.foldl (fun _ a => a) none

theorem foldl_keep {α} (answers : List (Option α)) (acc : Option α) (d : α)
    (h : ∀ x, x ∈ answers → x = none ∨ x = some d) :
    (some d ∈ answers → answers.foldl (fun acc a => match a with | some d => some d | none => acc) acc = some d) ∧
    (some d ∉ answers → answers.foldl (fun acc a => match a with | some d => some d | none => acc) acc = acc) := by
  induction answers generalizing acc with
  | nil => simp
  | cons a as ih =>
    have h' := fun x hx => h x (List.mem_cons_of_mem _ hx)
    simp only [List.foldl_cons]
    rcases h a (List.mem_cons_self ..) with e | e
    · subst e
      refine ⟨fun hm => (ih acc h').1 ?_, fun hm => (ih acc h').2 ?_⟩
      · rcases List.mem_cons.mp hm with e | e
        · cases e
        · exact e
      · exact fun e => hm (List.mem_cons_of_mem _ e)
    · subst e
      refine ⟨fun _ => ?_, fun hm => absurd (List.mem_cons_self ..) hm⟩
      by_cases hm : some d ∈ as
      · exact (ih (some d) h').1 hm
      · exact (ih (some d) h').2 hm

end SV.FetchArrange
