import SeqVerif.Model.Agg
set_option linter.unusedSimpArgs false
set_option linter.unusedVariables false
/-!
Helper lemmas for C06, part 2: the sourced OR tree (`nodeOrAgg` under `TreeFold`) and the lock-step walk of
`SourcedNodeIterator.ConsumeTokenSource`.
-/
namespace SV.Agg

/-- non-strict order of a stream in iteration direction -/
def StreamSorted (rev : Bool) (s : Stream) : Prop := s.Pairwise fun a b => lessFn rev b.1 a.1 = false

/-- strict order of the result LIDs in iteration direction (the eval tree de-duplicates) -/
def LidsSorted (rev : Bool) (l : List Nat) : Prop := l.Pairwise fun a b => lessFn rev a b = true

theorem lessFn_irrefl (rev : Bool) (a : Nat) : lessFn rev a a = false := by
  cases rev <;> simp [lessFn]

theorem lessFn_trans {rev : Bool} {a b c : Nat} (h1 : lessFn rev a b = true) (h2 : lessFn rev b c = true) :
    lessFn rev a c = true := by
  cases rev <;> simp [lessFn] at * <;> omega

theorem lessFn_asymm {rev : Bool} {a b : Nat} (h : lessFn rev a b = true) : lessFn rev b a = false := by
  cases rev <;> simp [lessFn] at * <;> omega

theorem lessFn_total {rev : Bool} {a b : Nat} (h1 : lessFn rev a b = false) (h2 : lessFn rev b a = false) : a = b := by
  cases rev <;> simp [lessFn] at * <;> omega

theorem lessFn_of_le_lt {rev : Bool} {a b c : Nat} (h1 : lessFn rev b a = false) (h2 : lessFn rev b c = true) :
    lessFn rev a c = true := by
  cases rev <;> simp [lessFn] at * <;> omega

theorem lessFn_of_le_le {rev : Bool} {a b c : Nat} (h1 : lessFn rev b a = false) (h2 : lessFn rev c b = false) :
    lessFn rev c a = false := by
  cases rev <;> simp [lessFn] at * <;> omega

theorem lessFn_of_lt_le {rev : Bool} {a b c : Nat} (h1 : lessFn rev a b = true) (h2 : lessFn rev c b = false) :
    lessFn rev a c = true := by
  cases rev <;> simp [lessFn] at * <;> omega

/-! ## nodeOrAgg -/

theorem orAgg_perm (rev : Bool) (l r : Stream) : (orAgg rev l r).Perm (l ++ r) := by
  fun_induction orAgg rev l r with
  | case1 r => simp
  | case2 l hl => simp
  | case3 a l b r h ih => simpa using List.Perm.cons a ih
  | case4 a l b r h ih =>
    have : (b :: orAgg rev (a :: l) r).Perm (b :: (a :: l ++ r)) := List.Perm.cons b ih
    exact this.trans (by simpa using (List.perm_middle (a := b) (l₁ := a :: l) (l₂ := r)).symm)

theorem orAgg_sorted (rev : Bool) (l r : Stream) (hl : StreamSorted rev l) (hr : StreamSorted rev r) :
    StreamSorted rev (orAgg rev l r) := by
  fun_induction orAgg rev l r with
  | case1 r => exact hr
  | case2 l _ => exact hl
  | case3 a l b r h ih =>
    have hl' := List.pairwise_cons.mp hl
    have ih' := ih hl'.2 hr
    refine List.pairwise_cons.mpr ⟨?_, ih'⟩
    intro c hc
    have := (orAgg_perm rev l (b :: r)).mem_iff.mp hc
    rcases List.mem_append.mp this with hc | hc
    · exact hl'.1 c hc
    · have hr' := List.pairwise_cons.mp hr
      rcases List.mem_cons.mp hc with rfl | hc
      · exact lessFn_asymm h
      · exact lessFn_of_le_le (lessFn_asymm h) (hr'.1 c hc)
  | case4 a l b r h ih =>
    have hr' := List.pairwise_cons.mp hr
    have ih' := ih hl hr'.2
    refine List.pairwise_cons.mpr ⟨?_, ih'⟩
    intro c hc
    have hba : lessFn rev a.1 b.1 = false := by simpa using h
    have := (orAgg_perm rev (a :: l) r).mem_iff.mp hc
    rcases List.mem_append.mp this with hc | hc
    · have hl' := List.pairwise_cons.mp hl
      rcases List.mem_cons.mp hc with rfl | hc
      · exact hba
      · exact lessFn_of_le_le hba (hl'.1 c hc)
    · exact hr'.1 c hc

/-! ## TreeFold -/

theorem treeFold_nil {V : Type} (op : V → V → V) (d : V) : treeFold op d [] = d := by
  rw [treeFold]

theorem treeFold_single {V : Type} (op : V → V → V) (d v : V) : treeFold op d [v] = v := by
  rw [treeFold]

theorem treeFold_split {V : Type} (op : V → V → V) (d : V) (vs : List V) (h : 2 ≤ vs.length) :
    treeFold op d vs = op (treeFold op d (vs.take (vs.length / 2))) (treeFold op d (vs.drop (vs.length / 2))) := by
  match vs, h with
  | a :: b :: rest, _ => rw [treeFold]

/-- induction principle for `TreeFold`: a property that holds for the default on `[]`, for `v` on `[v]`, and is
preserved by `op` over concatenation holds for the fold -/
theorem treeFold_ind {V : Type} (op : V → V → V) (d : V) (P : List V → V → Prop)
    (h0 : P [] d) (h1 : ∀ v, P [v] v)
    (h2 : ∀ xs ys a b, P xs a → P ys b → P (xs ++ ys) (op a b)) :
    ∀ vs, P vs (treeFold op d vs) := by
  intro vs
  induction hn : vs.length using Nat.strongRecOn generalizing vs with
  | _ n ih =>
    match vs, hn with
    | [], _ => rw [treeFold_nil]; exact h0
    | [v], _ => rw [treeFold_single]; exact h1 v
    | a :: b :: rest, hn =>
      rw [treeFold_split _ _ _ (by simp)]
      have hlen : (a :: b :: rest).length = n := hn
      have e : (a :: b :: rest) = (a :: b :: rest).take ((a :: b :: rest).length / 2) ++ (a :: b :: rest).drop ((a :: b :: rest).length / 2) :=
        (List.take_append_drop _ _).symm
      conv => lhs; rw [e]
      apply h2
      · exact ih _ (by simp [List.length_take] at *; omega) _ rfl
      · exact ih _ (by simp [List.length_drop] at *; omega) _ rfl

/-- the merged stream of any list of sorted streams is sorted and a permutation of all their entries -/
theorem treeFold_orAgg (rev : Bool) (ss : List Stream) (hs : ∀ s, s ∈ ss → StreamSorted rev s) :
    StreamSorted rev (treeFold (orAgg rev) [] ss) ∧ (treeFold (orAgg rev) [] ss).Perm ss.flatten := by
  have := treeFold_ind (orAgg rev) [] (fun vs r => (∀ s, s ∈ vs → StreamSorted rev s) → StreamSorted rev r ∧ r.Perm vs.flatten)
    (fun _ => ⟨List.Pairwise.nil, by simp⟩)
    (fun v h => ⟨h v (by simp), by simp⟩)
    (fun xs ys a b ha hb h => by
      have ha' := ha (fun s hs => h s (List.mem_append_left _ hs))
      have hb' := hb (fun s hs => h s (List.mem_append_right _ hs))
      refine ⟨orAgg_sorted rev a b ha'.1 hb'.1, ?_⟩
      rw [List.flatten_append]
      exact (orAgg_perm rev a b).trans (List.Perm.append ha'.2 hb'.2))
    ss
  exact this hs

/-! ## ConsumeTokenSource -/

theorem consume_snd (rev : Bool) (s : Stream) (lid : Nat) :
    (consume rev s lid).2 = s.dropWhile (fun p => lessFn rev p.1 lid) := by
  induction s with
  | nil => simp [consume]
  | cons p s ih =>
    obtain ⟨id, src⟩ := p
    unfold consume
    by_cases h : lessFn rev id lid = true
    · simp [h, ih, List.dropWhile_cons]
    · simp only [h]
      by_cases e : id = lid
      · subst e; simp [List.dropWhile_cons, h]
      · simp [e, List.dropWhile_cons, h]

/-- first source carrying `lid` in the stream -/
def sourceOf (s : Stream) (lid : Nat) : Option Nat := (s.find? fun p => p.1 = lid).map (·.2)

theorem consume_fst (rev : Bool) (s : Stream) (lid : Nat) (hs : StreamSorted rev s) :
    (consume rev s lid).1 = sourceOf s lid := by
  induction s with
  | nil => simp [consume, sourceOf]
  | cons p s ih =>
    obtain ⟨id, src⟩ := p
    have hs' := List.pairwise_cons.mp hs
    unfold consume
    by_cases h : lessFn rev id lid = true
    · have hne : id ≠ lid := by intro e; subst e; simp [lessFn_irrefl] at h
      simp only [h, if_true, ih hs'.2]
      simp [sourceOf, List.find?_cons, hne]
    · simp only [h]
      by_cases e : id = lid
      · subst e; simp [sourceOf, List.find?_cons]
      · -- lid is before id in iteration order: nothing later in the stream can equal it
        have hlt : lessFn rev lid id = true := by
          cases hh : lessFn rev lid id with
          | true => rfl
          | false => exact absurd (lessFn_total (by simpa using h) hh) e
        have hnone : s.find? (fun p => p.1 = lid) = none := by
          rw [List.find?_eq_none]
          intro q hq
          have h1 := hs'.1 q hq
          simp only [decide_eq_true_eq]
          intro e2
          rw [e2] at h1
          have := lessFn_asymm hlt
          simp_all
        simp [e, sourceOf, List.find?_cons, hnone]

theorem dropWhile_sorted (rev : Bool) (s : Stream) (lid : Nat) (hs : StreamSorted rev s) :
    StreamSorted rev (s.dropWhile fun p => lessFn rev p.1 lid) :=
  List.Pairwise.sublist (List.dropWhile_sublist _) hs

theorem sourceOf_dropWhile (rev : Bool) (s : Stream) (lid lid' : Nat) (h : lessFn rev lid lid' = true) :
    sourceOf (s.dropWhile fun p => lessFn rev p.1 lid) lid' = sourceOf s lid' := by
  induction s with
  | nil => rfl
  | cons p s ih =>
    by_cases hp : lessFn rev p.1 lid = true
    · have hne : p.1 ≠ lid' := by
        intro e; rw [e] at hp
        have := lessFn_asymm h; simp_all
      simp [List.dropWhile_cons, hp, ih, sourceOf, List.find?_cons, hne] at *
      exact ih
    · simp [List.dropWhile_cons, hp]

/-- **lock-step walk**: for result LIDs in strict iteration order and a sorted sourced stream, the successive
`ConsumeTokenSource` calls return for every LID the source that carries it (or "not exists") -/
theorem walk_eq (rev : Bool) (s : Stream) (lids : List Nat) (hs : StreamSorted rev s) (hl : LidsSorted rev lids) :
    walk rev s lids = lids.map (sourceOf s) := by
  induction lids generalizing s with
  | nil => rfl
  | cons lid lids ih =>
    have hl' := List.pairwise_cons.mp hl
    simp only [walk, List.map_cons]
    rw [consume_fst rev s lid hs, consume_snd, ih _ (dropWhile_sorted rev s lid hs) hl'.2]
    congr 1
    apply List.map_congr_left
    intro l hlm
    exact sourceOf_dropWhile rev s lid l (hl'.1 l hlm)

end SV.Agg

namespace SV.Agg

theorem mem_zipIdxFrom {α : Type} (k : Nat) (l : List α) (i : Nat) (a : α) :
    (i, a) ∈ zipIdxFrom k l ↔ k ≤ i ∧ l[i - k]? = some a := by
  induction l generalizing k with
  | nil => simp [zipIdxFrom]
  | cons b l ih =>
    simp only [zipIdxFrom, List.mem_cons, Prod.mk.injEq, ih]
    constructor
    · rintro (⟨rfl, rfl⟩ | ⟨h1, h2⟩)
      · simp
      · refine ⟨by omega, ?_⟩
        have : i - k = (i - (k + 1)) + 1 := by omega
        rw [this]; simpa using h2
    · rintro ⟨h1, h2⟩
      by_cases e : i = k
      · subst e; left; simpa using h2.symm
      · right
        refine ⟨by omega, ?_⟩
        have : i - k = (i - (k + 1)) + 1 := by omega
        rw [this] at h2; simpa using h2

theorem sourced_sorted (rev : Bool) (i : Nat) (lids : List Nat) (h : lids.Pairwise (· < ·)) :
    StreamSorted rev (sourced rev i lids) := by
  unfold sourced StreamSorted
  rw [List.pairwise_map]
  cases rev
  · simp only [Bool.false_eq_true, if_false]
    exact h.imp (fun {a b} hab => by simp [lessFn]; omega)
  · simp only [if_true]
    rw [List.pairwise_reverse]
    exact h.imp (fun {a b} hab => by simp [lessFn]; omega)

theorem mem_sourced (rev : Bool) (i : Nat) (lids : List Nat) (p : Nat × Nat) :
    p ∈ sourced rev i lids ↔ p.2 = i ∧ p.1 ∈ lids := by
  unfold sourced
  cases rev <;> simp <;> constructor <;> (try rintro ⟨a, ha, rfl⟩; exact ⟨rfl, ha⟩) <;>
    (rintro ⟨h1, h2⟩; exact ⟨p.1, h2, by rw [← h1]⟩)

theorem mem_buildStream (rev : Bool) (postings : List (List Nat)) (p : Nat × Nat)
    (hp : ∀ l, l ∈ postings → l.Pairwise (· < ·)) :
    p ∈ buildStream rev postings ↔ ∃ l, postings[p.2]? = some l ∧ p.1 ∈ l := by
  have hs := treeFold_orAgg rev ((zipIdxFrom 0 postings).map (fun q => sourced rev q.1 q.2)) (by
    intro s hs
    obtain ⟨q, hq, rfl⟩ := List.mem_map.mp hs
    have := (mem_zipIdxFrom 0 postings q.1 q.2).mp hq
    exact sourced_sorted rev _ _ (hp _ (List.mem_of_getElem? this.2)))
  unfold buildStream
  rw [hs.2.mem_iff]
  simp only [List.mem_flatten, List.mem_map]
  constructor
  · rintro ⟨s, ⟨q, hq, rfl⟩, hps⟩
    have h1 := (mem_zipIdxFrom 0 postings q.1 q.2).mp hq
    have h2 := (mem_sourced rev q.1 q.2 p).mp hps
    refine ⟨q.2, ?_, h2.2⟩
    rw [h2.1]; simpa using h1.2
  · rintro ⟨l, hl, hpl⟩
    refine ⟨sourced rev p.2 l, ⟨(p.2, l), ?_, rfl⟩, (mem_sourced rev p.2 l p).mpr ⟨rfl, hpl⟩⟩
    exact (mem_zipIdxFrom 0 postings p.2 l).mpr ⟨Nat.zero_le _, by simpa using hl⟩

theorem buildStream_sorted (rev : Bool) (postings : List (List Nat))
    (hp : ∀ l, l ∈ postings → l.Pairwise (· < ·)) : StreamSorted rev (buildStream rev postings) := by
  unfold buildStream
  refine (treeFold_orAgg rev _ ?_).1
  intro s hs
  obtain ⟨q, hq, rfl⟩ := List.mem_map.mp hs
  have := (mem_zipIdxFrom 0 postings q.1 q.2).mp hq
  exact sourced_sorted rev _ _ (hp _ (List.mem_of_getElem? this.2))

/-- the source reported for a LID is a token whose posting list holds it; "not exists" means no token does -/
theorem buildStream_sourceOf (rev : Bool) (postings : List (List Nat)) (lid : Nat)
    (hp : ∀ l, l ∈ postings → l.Pairwise (· < ·)) :
    (∀ i, sourceOf (buildStream rev postings) lid = some i → ∃ l, postings[i]? = some l ∧ lid ∈ l) ∧
    (sourceOf (buildStream rev postings) lid = none → ∀ (i : Nat) (l : List Nat), postings[i]? = some l → lid ∉ l) := by
  unfold sourceOf
  constructor
  · intro i h
    cases hf : (buildStream rev postings).find? (fun p => p.1 = lid) with
    | none => simp [hf] at h
    | some p =>
      simp [hf] at h
      have hm := List.mem_of_find?_eq_some hf
      have he := List.find?_some hf
      have := (mem_buildStream rev postings p hp).mp hm
      simp at he
      rw [h, he] at this
      exact this
  · intro h i l hl hmem
    have hnone : (buildStream rev postings).find? (fun p => p.1 = lid) = none := by
      cases hf : (buildStream rev postings).find? (fun p => p.1 = lid) with
      | none => rfl
      | some p => simp [hf] at h
    rw [List.find?_eq_none] at hnone
    have := (mem_buildStream rev postings (lid, i) hp).mpr ⟨l, hl, hmem⟩
    have := hnone _ this
    simp at this

end SV.Agg

namespace SV.Agg

/-! ## multi-valued fields: which token of a document the iterator reports -/

theorem sourceOf_none_of_lt (rev : Bool) (a : Nat × Nat) (s : Stream) (lid : Nat)
    (hs : StreamSorted rev s) (h : ∀ b, b ∈ s → lessFn rev lid b.1 = true) : sourceOf s lid = none := by
  unfold sourceOf
  have : s.find? (fun p => p.1 = lid) = none := by
    rw [List.find?_eq_none]
    intro b hb
    simp only [decide_eq_true_eq]
    intro e
    have := h b hb
    rw [e, lessFn_irrefl] at this
    cases this
  simp [this]

/-- `nodeOrAgg` on equal ids lets the right stream go first -/
theorem orAgg_sourceOf (rev : Bool) (l r : Stream) (hl : StreamSorted rev l) (hr : StreamSorted rev r) (lid : Nat) :
    sourceOf (orAgg rev l r) lid = (sourceOf r lid).or (sourceOf l lid) := by
  fun_induction orAgg rev l r with
  | case1 r => simp [sourceOf]
  | case2 l _ => simp [sourceOf]
  | case3 a l b r h ih =>
    have hl' := List.pairwise_cons.mp hl
    have hr' := List.pairwise_cons.mp hr
    by_cases e : a.1 = lid
    · have hnone : sourceOf (b :: r) lid = none := by
        apply sourceOf_none_of_lt rev a _ _ hr
        intro c hc
        rw [← e]
        rcases List.mem_cons.mp hc with rfl | hc
        · exact h
        · exact lessFn_of_lt_le h (hr'.1 c hc)
      rw [hnone]
      simp [sourceOf, List.find?_cons, e]
    · have := ih hl'.2 hr
      simp only [sourceOf, List.find?_cons, e, decide_false] at this ⊢
      exact this
  | case4 a l b r h ih =>
    have hr' := List.pairwise_cons.mp hr
    by_cases e : b.1 = lid
    · simp [sourceOf, List.find?_cons, e]
    · have := ih hl hr'.2
      simp only [sourceOf, List.find?_cons, e, decide_false] at this ⊢
      exact this

/-- the source reported for `lid` by a list of streams merged by the OR tree: the last stream that carries it -/
def lastSrc (lid : Nat) : List Stream → Option Nat
  | [] => none
  | s :: ss => (lastSrc lid ss).or (sourceOf s lid)

theorem lastSrc_append (lid : Nat) (xs ys : List Stream) :
    lastSrc lid (xs ++ ys) = (lastSrc lid ys).or (lastSrc lid xs) := by
  induction xs with
  | nil => simp [lastSrc]
  | cons s xs ih => simp [lastSrc, ih, Option.or_assoc]

theorem treeFold_orAgg_sourceOf (rev : Bool) (ss : List Stream) (hs : ∀ s, s ∈ ss → StreamSorted rev s) (lid : Nat) :
    sourceOf (treeFold (orAgg rev) [] ss) lid = lastSrc lid ss := by
  have := treeFold_ind (orAgg rev) [] (fun vs r => (∀ s, s ∈ vs → StreamSorted rev s) →
      StreamSorted rev r ∧ sourceOf r lid = lastSrc lid vs)
    (fun _ => ⟨List.Pairwise.nil, rfl⟩)
    (fun v h => ⟨h v (by simp), by simp [lastSrc]⟩)
    (fun xs ys a b ha hb h => by
      have ha' := ha (fun s hs => h s (List.mem_append_left _ hs))
      have hb' := hb (fun s hs => h s (List.mem_append_right _ hs))
      refine ⟨orAgg_sorted rev a b ha'.1 hb'.1, ?_⟩
      rw [orAgg_sourceOf rev a b ha'.1 hb'.1, lastSrc_append, ha'.2, hb'.2])
    ss
  exact (this hs).2

theorem sourceOf_sourced (rev : Bool) (i : Nat) (p : List Nat) (lid : Nat) :
    sourceOf (sourced rev i p) lid = if lid ∈ p then some i else none := by
  unfold sourceOf
  by_cases h : lid ∈ p
  · have hm : (lid, i) ∈ sourced rev i p := (mem_sourced rev i p (lid, i)).mpr ⟨rfl, h⟩
    cases hf : (sourced rev i p).find? (fun q => q.1 = lid) with
    | none =>
      rw [List.find?_eq_none] at hf
      have := hf _ hm
      simp at this
    | some q =>
      have hq := (mem_sourced rev i p q).mp (List.mem_of_find?_eq_some hf)
      simp [h, hq.1]
  · have : (sourced rev i p).find? (fun q => q.1 = lid) = none := by
      rw [List.find?_eq_none]
      intro q hq
      have := (mem_sourced rev i p q).mp hq
      simp only [decide_eq_true_eq]
      intro e; rw [e] at this; exact h this.2
    simp [this, h]

theorem lastSrc_zip (rev : Bool) (lid : Nat) (k : Nat) (postings : List (List Nat)) (i : Nat)
    (h : lastSrc lid ((zipIdxFrom k postings).map fun q => sourced rev q.1 q.2) = some i) :
    k ≤ i ∧ (∃ l, postings[i - k]? = some l ∧ lid ∈ l) ∧
    ∀ j l, i < j → postings[j - k]? = some l → lid ∉ l := by
  induction postings generalizing k with
  | nil => simp [zipIdxFrom, lastSrc] at h
  | cons p ps ih =>
    simp only [zipIdxFrom, List.map_cons, lastSrc] at h
    cases hrest : lastSrc lid ((zipIdxFrom (k + 1) ps).map fun q => sourced rev q.1 q.2) with
    | some i' =>
      rw [hrest] at h
      simp at h
      subst h
      have := ih (k + 1) hrest
      refine ⟨by omega, ?_, ?_⟩
      · obtain ⟨l, hl, hm⟩ := this.2.1
        refine ⟨l, ?_, hm⟩
        have e : i' - k = (i' - (k + 1)) + 1 := by omega
        rw [e]; simpa using hl
      · intro j l hj hjl
        have e : j - k = (j - (k + 1)) + 1 := by omega
        rw [e] at hjl
        exact this.2.2 j l hj (by simpa using hjl)
    | none =>
      rw [hrest, sourceOf_sourced] at h
      simp at h
      by_cases hm : lid ∈ p
      · simp [hm] at h
        subst h
        refine ⟨Nat.le_refl _, ⟨p, by simp, hm⟩, ?_⟩
        intro j l hj hjl hmem
        -- a later posting list holding lid would have been reported
        have e : j - k = (j - (k + 1)) + 1 := by omega
        rw [e] at hjl
        have hjl' : ps[j - (k + 1)]? = some l := by simpa using hjl
        have : ∀ (k' : Nat) (ps' : List (List Nat)) (n : Nat) (l' : List Nat), ps'[n]? = some l' → lid ∈ l' →
            lastSrc lid ((zipIdxFrom k' ps').map fun q => sourced rev q.1 q.2) ≠ none := by
          intro k' ps'
          induction ps' generalizing k' with
          | nil => intro n l' h'; simp at h'
          | cons p' ps' ih' =>
            intro n l' h' hmem'
            simp only [zipIdxFrom, List.map_cons, lastSrc]
            cases n with
            | zero =>
              simp at h'; subst h'
              cases hr : lastSrc lid ((zipIdxFrom (k' + 1) ps').map fun q => sourced rev q.1 q.2) with
              | some _ => simp
              | none => simp [sourceOf_sourced, hmem']
            | succ n =>
              have := ih' (k' + 1) n l' (by simpa using h') hmem'
              cases hr : lastSrc lid ((zipIdxFrom (k' + 1) ps').map fun q => sourced rev q.1 q.2) with
              | some _ => simp
              | none => exact absurd hr this
        exact this (k + 1) ps _ l hjl' hmem hrest
      · simp [hm] at h

/-- **multi-valued fields**: when a document carries several tokens of the aggregated field, the iterator reports
exactly one of them for it - the token with the largest index in the field's token order; the document is counted
once, its other values are not aggregated -/
theorem buildStream_last (rev : Bool) (postings : List (List Nat)) (lid i : Nat)
    (hp : ∀ l, l ∈ postings → l.Pairwise (· < ·))
    (h : sourceOf (buildStream rev postings) lid = some i) :
    (∃ l, postings[i]? = some l ∧ lid ∈ l) ∧ ∀ j l, i < j → postings[j]? = some l → lid ∉ l := by
  unfold buildStream at h
  rw [treeFold_orAgg_sourceOf rev _ (by
    intro s hs
    obtain ⟨q, hq, rfl⟩ := List.mem_map.mp hs
    have := (mem_zipIdxFrom 0 postings q.1 q.2).mp hq
    exact sourced_sorted rev _ _ (hp _ (List.mem_of_getElem? this.2)))] at h
  have := lastSrc_zip rev lid 0 postings i h
  simpa using this.2

end SV.Agg
