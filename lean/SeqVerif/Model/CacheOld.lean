import SeqVerif.Model.Cache
/-!
# C18 - the three critical sections of cache.go as they were before /repo commit b331fc5
("fix: cache size accounting leaked when a load overlapped Release, Cleanup or generation rotation").
Kept only for the historical witnesses in Props/C18.lean: with these definitions the accounting clause fails at
fully quiescent points of three interleavings (each was reproduced on the real package before the repair).
-/
namespace SV.Cache

/-- `save` before the repair: the size goes to the generation the entry was created in (or moved to by a waiter) -/
def saveOld (cfg : Cfg) (s : St) (t c k eid v sz : Nat) : St × Out :=
  match s.heap[eid]? with
  | none => (s, .none)
  | some e =>
    (setPc { s with heap := s.heap.set eid { e with val := v, size := (if e.deleted then 0 else cfg.entrySize + sz), st := .valid },
                    gsizeL := addG s.gsizeL e.gen ((if e.deleted then 0 else cfg.entrySize + sz : Nat) : Int),
                    produced := (c, k, v) :: s.produced } t .idle, .value v)

/-- `recover` before the repair: `delete(c.payload, key)` whatever entry is stored under the key -/
def recoverOld (s : St) (t c k eid : Nat) : St :=
  match s.heap[eid]? with
  | none => s
  | some e =>
    setPc { s with heap := (s.heap.set eid { e with st := .abandoned }).map fun x =>
              if x.cache = c ∧ x.key = k then { x with inMap := false } else x } t .idle

/-- `Release` before the repair: entries are not marked deleted -/
def releaseOld (s : St) (c : Nat) : St :=
  { s with gsizeL := relGens c s.heap s.gsizeL,
           heap := s.heap.map (fun e => if e.cache = c then { e with inMap := false } else e),
           relL := mset false s.relL c true }

def stepOld (cfg : Cfg) (s : St) : Label → Option (St × Out)
  | .finish t o =>
    match s.pc t with
    | .loading c k eid =>
      match o with
      | .ok v sz => some (saveOld cfg s t c k eid v sz)
      | .err => some (recoverOld s t c k eid, .err)
      | .panic => some (recoverOld s t c k eid, .panic)
    | _ => none
  | .release c => if c < s.ncaches then some (releaseOld s c, .none) else none
  | l => step cfg s l

def runOld (cfg : Cfg) : St → List Label → Option St
  | s, [] => some s
  | s, l :: ls =>
    match stepOld cfg s l with
    | none => none
    | some (s1, _) => runOld cfg s1 ls

/-! ## what-if: `Cleaner.AddBucket` NOT atomic (generation read and bucket appended under the lock, `SetGeneration`
after the unlock).  Not the code in /repo - used only to show why the model's `newCache` must be, and the source's
`AddBucket` is, one critical section (`c18_addbucket_must_be_atomic`). -/

/-- first half: `gen := c.lastGen; c.buckets = append(c.buckets, b)` -/
def addBucketAppend (s : St) : St × Nat :=
  ({ s with ncaches := s.ncaches + 1, relL := mset false s.relL s.ncaches false, buckets := s.buckets ++ [s.ncaches] },
   s.lastGen)

/-- second half, after the unlock: `b.SetGeneration(gen)` -/
def addBucketSetGen (s : St) (c gen : Nat) : St := { s with curL := mset 0 s.curL c gen }

end SV.Cache
