import SeqVerif.Model.FileSet
/-!
# Sealing as a sequence of file operations, with write faults            (C08)

Go sources modelled: `frac/active_sealer.go` (`Seal`, `syncRename`, `writeSortedDocs`, `writeSealedFraction`),
`frac/disk_blocks_producer.go` (the four block generators), `frac/disk_blocks_writer.go` (the section writers),
`disk/blocks_writer.go` (`WriteBlock` = `Seek` + `Write`, `WriteBlocksRegistry` = `Seek, Write, Seek, Write`),
`fracmanager/proxy_frac.go` (`Seal`: `frac.Seal`, then `active.Release`), `frac/active.go` (`Release`).

Two layers.
* `writeIndex` - the calls issued on the `io.WriteSeeker` that receives the index, section by section.  The
  environment answers every call (`true` = ok); the first failing call ends the section it occurs in.  Whether the
  failure then reaches the caller is a *fact about the source* (`Facts`, re-extracted on every run): a generator that
  `return nil`s on a push error turns the failure into success and the output keeps a hole.
* `sealTrace` - the file operations of `proxyFrac.Seal` in program order.  A crash leaves the state reached by a
  prefix; a returned error ends the trace (the caller `logger.Fatal`s, so the process ends there too).
-/
namespace SV.SealOps
open SV.FileSet

/-! ## layer 1: the index output under write faults -/

/-- which generators hand a push error back to the section writer (`return err`) rather than dropping it -/
structure Facts where
  tokensGen : Bool
  tokenTableGen : Bool
  idsGen : Bool
  lidsGen : Bool
  deriving DecidableEq, Repr

def Facts.all (f : Facts) : Bool := f.tokensGen && f.tokenTableGen && f.idsGen && f.lidsGen

/-- number of `Seek`/`Write` calls each part of `writeSealedFraction` issues on the index output when nothing fails
(`WriteBlock` = 2 calls).  `info`, `positions` and the registry are fixed (2, 2, 4). -/
structure Plan where
  sdocs : Nat            -- `Write` calls reaching the `._sdocs` file (flushes of the 32 MiB buffer)
  tokens : Nat           -- issued while `getTokensBlocksGenerator` runs
  tokensTail : Nat       -- the `FlushForced` after the generator returned
  tokenTable : Nat
  tokenTableTail : Nat
  ids : Nat              -- 6 per ids block (mids, rids, positions)
  lids : Nat             -- 2 per lids block
  deriving DecidableEq, Repr

/-- the `io.WriteSeeker`: remaining answers of the environment (missing = ok) and what happened so far -/
structure W where
  oracle : List Bool
  calls : Nat := 0        -- calls issued
  failed : Bool := false  -- some call returned an error
  lost : Bool := false    -- some error was dropped by a generator
  deriving DecidableEq, Repr

def W.call (w : W) : Bool × W :=
  match w.oracle with
  | [] => (true, { w with calls := w.calls + 1 })
  | a :: r => (a, { w with oracle := r, calls := w.calls + 1, failed := w.failed || !a })

/-- `n` consecutive calls whose errors are returned at once (`if err != nil { return err }`) -/
def W.run : Nat → W → Bool × W
  | 0, w => (true, w)
  | n + 1, w => if w.call.1 then W.run n w.call.2 else (false, w.call.2)

/-- a section driven by a block generator: `prop = false` is `if err := push(b); err != nil { return nil }` -/
def W.gen (prop : Bool) (n : Nat) (w : W) : Bool × W :=
  if (w.run n).1 then w.run n
  else if prop then w.run n
  else (true, { (w.run n).2 with lost := true })

/-- do `b` after `a` unless `a` reported an error -/
def andThen (a b : W → Bool × W) (w : W) : Bool × W :=
  if (a w).1 then b (a w).2 else a w

/-- the index part of `writeSealedFraction`, in source order -/
def writeIndex (f : Facts) (p : Plan) : W → Bool × W :=
  andThen (W.run 2) <|                                   -- writeInfoBlock
  andThen (W.gen f.tokensGen p.tokens) <|                -- writeTokensBlocks: generator ...
  andThen (W.run p.tokensTail) <|                        --   ... and the final FlushForced
  andThen (W.gen f.tokenTableGen p.tokenTable) <|        -- writeTokenTableBlocks
  andThen (W.run p.tokenTableTail) <|
  andThen (W.run 2) <|                                   -- writePositionsBlock
  andThen (W.gen f.idsGen p.ids) <|                      -- writeIDsBlocks
  andThen (W.gen f.lidsGen p.lids) <|                    -- writeLIDsBlocks
  W.run 4                                                -- WriteRegistryBlock

def Plan.indexCalls (p : Plan) : Nat :=
  2 + p.tokens + p.tokensTail + p.tokenTable + p.tokenTableTail + 2 + p.ids + p.lids + 4

/-! ### what a step may do: `Step P` = "reports success only if P-progress", composable -/

/-- the invariant carried through the sections: every failure so far was either reported or dropped by a generator -/
def W.Sound (w : W) : Prop := w.failed = true → w.lost = true

theorem call_spec (w : W) :
    w.call.2.calls = w.calls + 1 ∧ w.call.2.lost = w.lost ∧
    (w.call.1 = true → w.call.2.failed = w.failed) ∧ (w.call.1 = false → w.call.2.failed = true) := by
  unfold W.call
  cases h : w.oracle with
  | nil => simp
  | cons a r => cases a <;> simp

theorem run_spec (n : Nat) (w : W) :
    (w.run n).2.lost = w.lost ∧
    ((w.run n).1 = true → (w.run n).2.failed = w.failed ∧ (w.run n).2.calls = w.calls + n) ∧
    ((w.run n).1 = false → (w.run n).2.failed = true) := by
  induction n generalizing w with
  | zero => simp [W.run]
  | succ n ih =>
    have hc := call_spec w
    unfold W.run
    cases h : w.call.1
    · simp [hc.2.1, hc.2.2.2 h]
    · simp only [if_true]
      have := ih w.call.2
      refine ⟨by rw [this.1, hc.2.1], fun hr => ?_, fun hr => this.2.2 hr⟩
      have := this.2.1 hr
      rw [this.1, this.2, hc.2.2.1 h, hc.1]
      exact ⟨rfl, by omega⟩

/-- a `Step` keeps soundness, and when it reports success without a dropped error it issued exactly `n` calls -/
structure Step (n : Nat) (s : W → Bool × W) : Prop where
  sound : ∀ w, w.Sound → ((s w).1 = true → (s w).2.Sound) ∧ ((s w).1 = false → (s w).2.failed = true)
  exact : ∀ w, (s w).1 = true → (s w).2.lost = false → (s w).2.calls = w.calls + n ∧ w.lost = false ∧ (s w).2.failed = w.failed
  keeps : ∀ w, w.lost = true → (s w).2.lost = true

theorem step_run (n : Nat) : Step n (W.run n) := by
  refine ⟨fun w hw => ⟨fun h => ?_, fun h => (run_spec n w).2.2 h⟩, fun w h hl => ?_, fun w h => ?_⟩
  · intro hf
    have := run_spec n w
    rw [(this.2.1 h).1] at hf
    rw [this.1]; exact hw hf
  · have := run_spec n w
    exact ⟨(this.2.1 h).2, by rw [← this.1]; exact hl, (this.2.1 h).1⟩
  · rw [(run_spec n w).1]; exact h

theorem step_gen (prop : Bool) (n : Nat) : Step n (W.gen prop n) := by
  refine ⟨fun w hw => ⟨fun h => ?_, fun h => ?_⟩, fun w h hl => ?_, fun w h => ?_⟩
  · unfold W.gen at h ⊢
    cases hr : (w.run n).1
    · cases prop
      · simp [W.Sound]
      · simp [hr] at h
    · simp only [if_true]
      exact ((step_run n).sound w hw).1 hr
  · unfold W.gen at h ⊢
    cases hr : (w.run n).1
    · cases prop
      · simp [hr] at h
      · exact (run_spec n w).2.2 hr
    · simp [hr] at h
  · unfold W.gen at h hl ⊢
    cases hr : (w.run n).1
    · cases prop
      · simp [hr] at hl
      · simp [hr] at h
    · simp only [hr, if_true] at hl ⊢
      exact (step_run n).exact w hr hl
  · unfold W.gen
    cases hr : (w.run n).1
    · cases prop
      · simp
      · simp [(run_spec n w).1, h]
    · simp [(run_spec n w).1, h]

theorem step_andThen {n m : Nat} {a b : W → Bool × W} (ha : Step n a) (hb : Step m b) : Step (n + m) (andThen a b) := by
  refine ⟨fun w hw => ?_, fun w h hl => ?_, fun w h => ?_⟩
  · unfold andThen
    cases hr : (a w).1
    · simp only [Bool.false_eq_true, if_false, hr]
      exact ⟨fun h => by simp at h, fun _ => (ha.sound w hw).2 hr⟩
    · simp only [if_true]
      exact hb.sound _ ((ha.sound w hw).1 hr)
  · unfold andThen at h hl ⊢
    cases hr : (a w).1
    · simp [hr] at h
    · simp only [hr, if_true] at h hl ⊢
      have h2 := hb.exact _ h hl
      have h1 := ha.exact w hr h2.2.1
      refine ⟨by rw [h2.1, h1.1]; omega, h1.2.1, by rw [h2.2.2, h1.2.2]⟩
  · unfold andThen
    cases hr : (a w).1
    · simp only [Bool.false_eq_true, if_false]; exact ha.keeps w h
    · simp only [if_true]; exact hb.keeps _ (ha.keeps w h)

theorem step_writeIndex (f : Facts) (p : Plan) : Step p.indexCalls (writeIndex f p) := by
  have := step_andThen (step_run 2) <| step_andThen (step_gen f.tokensGen p.tokens) <|
    step_andThen (step_run p.tokensTail) <| step_andThen (step_gen f.tokenTableGen p.tokenTable) <|
    step_andThen (step_run p.tokenTableTail) <| step_andThen (step_run 2) <|
    step_andThen (step_gen f.idsGen p.ids) <| step_andThen (step_gen f.lidsGen p.lids) (step_run 4)
  have e : p.indexCalls = 2 + (p.tokens + (p.tokensTail + (p.tokenTable + (p.tokenTableTail + (2 + (p.ids + (p.lids + 4))))))) := by
    simp [Plan.indexCalls]; omega
  rw [e]; exact this

/-- generators that propagate never set `lost` -/
theorem gen_true_lost (n : Nat) (w : W) : (W.gen true n w).2.lost = w.lost := by
  unfold W.gen
  cases hr : (w.run n).1 <;> simp [(run_spec n w).1]

theorem andThen_lost {a b : W → Bool × W} (ha : ∀ w, (a w).2.lost = w.lost) (hb : ∀ w, (b w).2.lost = w.lost) (w : W) :
    (andThen a b w).2.lost = w.lost := by
  unfold andThen
  cases hr : (a w).1
  · simp [ha]
  · simp [hb, ha]

theorem writeIndex_lost (f : Facts) (p : Plan) (hf : f.all = true) (w : W) : (writeIndex f p w).2.lost = w.lost := by
  simp only [Facts.all, Bool.and_eq_true] at hf
  obtain ⟨⟨⟨h1, h2⟩, h3⟩, h4⟩ := hf
  unfold writeIndex
  rw [h1, h2, h3, h4]
  have r := fun n w => (run_spec n w).1
  exact andThen_lost (r 2) (andThen_lost (gen_true_lost _) (andThen_lost (r _) (andThen_lost (gen_true_lost _)
    (andThen_lost (r _) (andThen_lost (r 2) (andThen_lost (gen_true_lost _) (andThen_lost (gen_true_lost _) (r 4)))))))) w

/-! ## layer 2: file operations -/

inductive Op
  | touch (s : Suffix)         -- os.OpenFile(O_CREATE|O_RDWR): creates an empty file unless it exists (`mustOpenFile`)
  | fill                       -- an acknowledged bulk: .docs and .meta both hold complete blocks (what C01 establishes)
  | create (s : Suffix)        -- os.Create (truncates): the file exists and is being written
  | write (s : Suffix)         -- some bytes were appended
  | lose (s : Suffix)          -- a write failed and nobody noticed: the file will have a hole
  | sync (s : Suffix)          -- (*os.File).Sync after the last write of the file: what was meant to be there is durable
  | rename (a b : Suffix)      -- os.Rename (atomic replace)
  | syncDir                    -- util.MustSyncPath(parent directory)
  | remove (s : Suffix)        -- os.Remove
  deriving DecidableEq, Repr

/-- directory state: the files, and the names whose directory entry changed (create / rename / remove) since the
last directory sync - those changes are not durable yet -/
structure St where
  fs : FileSet
  unsynced : List Suffix := []
  deriving DecidableEq, Repr

def step (o : Op) (st : St) : St :=
  match o with
  | .touch s => if st.fs.get s = .absent then { fs := st.fs.set s .empty, unsynced := s :: st.unsynced } else st
  | .fill => { st with fs := { st.fs with docs := .full, metaF := .full } }
  | .create s => { fs := st.fs.set s .empty, unsynced := s :: st.unsynced }
  | .write s => { st with fs := st.fs.set s (match st.fs.get s with | .absent => .absent | .holed => .holed | _ => .torn) }
  | .lose s => { st with fs := st.fs.set s (match st.fs.get s with | .absent => .absent | _ => .holed) }
  | .sync s => { st with fs := st.fs.set s (match st.fs.get s with | .torn => .full | .empty => .full | c => c) }
  | .rename a b =>
    if st.fs.get a = .absent then st      -- rename of a missing file fails; nothing changes
    else { fs := (st.fs.set b (st.fs.get a)).set a .absent, unsynced := a :: b :: st.unsynced }
  | .syncDir => { st with unsynced := [] }
  | .remove s => { fs := st.fs.set s .absent, unsynced := s :: st.unsynced }

def applyOps (ops : List Op) (st : St) : St := ops.foldl (fun s o => step o s) st

structure Cfg where
  skipSortDocs : Bool
  keepMetaFile : Bool
  deriving DecidableEq, Repr

/-- `n` `Write` calls on the `._sdocs` output, each answered by the environment (missing = ok); the first error
ends `writeDocsInOrder` -/
def sdocsWrites : Nat → List Bool → Bool × List Op
  | 0, _ => (true, [])
  | n + 1, [] => (true, List.replicate (n + 1) (.write .sdocsTmp))
  | n + 1, true :: os => ((sdocsWrites n os).1, .write .sdocsTmp :: (sdocsWrites n os).2)
  | _ + 1, false :: _ => (false, [])

/-- `writeSortedDocs`: create `._sdocs`, write, then `syncRename` to `.sdocs` -/
def sortedDocsOps (n : Nat) (os : List Bool) : Bool × List Op :=
  ((sdocsWrites n os).1,
    .create .sdocsTmp :: (sdocsWrites n os).2 ++
      (if (sdocsWrites n os).1 then [.sync .sdocsTmp, .rename .sdocsTmp .sdocs] else []))

/-- the file-level view of `writeIndex` -/
def indexOps (r : Bool × W) : List Op :=
  (if r.2.calls = 0 then [] else [.write .indexTmp]) ++ (if r.2.lost then [.lose .indexTmp] else [])

/-- `Active.Release` -/
def releaseOps (c : Cfg) : List Op :=
  (if c.keepMetaFile then [] else [.remove .metaF]) ++ (if c.skipSortDocs then [] else [.remove .docs])

/-- `proxyFrac.Seal`: the operations performed, and whether it returned a sealed fraction.
`oi` / `os` answer the writes to the index / sorted-docs outputs. -/
def sealTrace (c : Cfg) (f : Facts) (p : Plan) (oi os : List Bool) : Bool × List Op :=
  let sd := if c.skipSortDocs then (true, []) else sortedDocsOps p.sdocs os    -- writeSortedDocs; error => return
  let r := writeIndex f p { oracle := oi }                                       -- the index sections; error => return
  let ok := sd.1 && r.1
  (ok, .create .indexTmp :: sd.2 ++ (if sd.1 then indexOps r else [])
        ++ (if ok then [.sync .indexTmp, .rename .indexTmp .index, .syncDir]     -- syncRename + MustSyncPath
                        ++ releaseOps c                                          -- active.Release()
            else []))

/-- durable before visible: scanning the operations with the set of files that were written since their last fsync
(`dirty`), every `rename a b` finds `a` clean - the last thing that happened to `a` was its `sync`.  Every file
starts dirty, so a rename needs an explicit earlier `sync`. -/
def syncedBeforeRename : List Op → (Suffix → Bool) → Bool
  | [], _ => true
  | .create s :: r, d => syncedBeforeRename r (fun x => if x = s then true else d x)
  | .write s :: r, d => syncedBeforeRename r (fun x => if x = s then true else d x)
  | .lose s :: r, d => syncedBeforeRename r (fun x => if x = s then true else d x)
  | .touch s :: r, d => syncedBeforeRename r (fun x => if x = s then true else d x)
  | .sync s :: r, d => syncedBeforeRename r (fun x => if x = s then false else d x)
  | .rename a b :: r, d => !d a && syncedBeforeRename r (fun x => if x = b then false else d x)
  | _ :: r, d => syncedBeforeRename r d

/-- `Q` holds before every operation of the list (state, next operation), `P` holds in every state reached -/
def Along (P : St → Prop) (Q : St → Op → Prop) : List Op → St → Prop
  | [], st => P st
  | o :: r, st => P st ∧ Q st o ∧ Along P Q r (step o st)

theorem along_append (P : St → Prop) (Q : St → Op → Prop) (a b : List Op) (st : St) :
    Along P Q (a ++ b) st ↔ Along (fun _ => True) Q a st ∧ (∀ p, p <+: a → p ≠ a → P (applyOps p st)) ∧ Along P Q b (applyOps a st) := by
  induction a generalizing st with
  | nil => simp [Along, applyOps]
  | cons o r ih =>
    simp only [List.cons_append, Along, ih, applyOps, List.foldl_cons, true_and]
    constructor
    · rintro ⟨h1, h2, h3, h4, h5⟩
      refine ⟨⟨h2, h3⟩, fun p hp hne => ?_, h5⟩
      cases p with
      | nil => exact h1
      | cons x xs =>
        rw [List.cons_prefix_cons] at hp
        obtain ⟨rfl, hp⟩ := hp
        exact h4 xs hp (fun e => hne (by rw [e]))
    · rintro ⟨⟨h2, h3⟩, h4, h5⟩
      refine ⟨h4 [] (List.nil_prefix) (by simp), h2, h3, fun p hp hne => ?_, h5⟩
      have := h4 (o :: p) (by rw [List.cons_prefix_cons]; exact ⟨rfl, hp⟩) (by simpa using hne)
      simpa [applyOps] using this

/-- `Along` says what it should: `P` in the state after every prefix, `Q` at every operation -/
theorem along_iff (P : St → Prop) (Q : St → Op → Prop) (ops : List Op) (st : St) :
    Along P Q ops st ↔ (∀ p, p <+: ops → P (applyOps p st)) ∧ (∀ p o, p ++ [o] <+: ops → Q (applyOps p st) o) := by
  induction ops generalizing st with
  | nil =>
    simp only [Along, List.prefix_nil]
    constructor
    · intro h; exact ⟨fun p hp => by subst hp; exact h, fun p o hp => by simp at hp⟩
    · intro h; exact h.1 [] rfl
  | cons x xs ih =>
    simp only [Along, ih]
    constructor
    · rintro ⟨h1, h2, h3, h4⟩
      refine ⟨fun p hp => ?_, fun p o hp => ?_⟩
      · cases p with
        | nil => exact h1
        | cons y ys =>
          rw [List.cons_prefix_cons] at hp
          obtain ⟨rfl, hp⟩ := hp
          simpa [applyOps] using h3 ys hp
      · cases p with
        | nil =>
          simp only [List.nil_append, List.cons_prefix_cons] at hp
          rw [hp.1]; exact h2
        | cons y ys =>
          simp only [List.cons_append, List.cons_prefix_cons] at hp
          obtain ⟨rfl, hp⟩ := hp
          simpa [applyOps] using h4 ys o hp
    · rintro ⟨h1, h2⟩
      refine ⟨h1 [] List.nil_prefix, ?_, fun p hp => ?_, fun p o hp => ?_⟩
      · exact h2 [] x (by simp [List.cons_prefix_cons])
      · have := h1 (x :: p) (by rw [List.cons_prefix_cons]; exact ⟨rfl, hp⟩)
        simpa [applyOps] using this
      · have := h2 (x :: p) o (by simpa [List.cons_prefix_cons] using hp)
        simpa [applyOps] using this

end SV.SealOps
