import SeqVerif.Model.PatternRange
/-!
# Numeric ranges over plain decimal tokens of ANY length follow the unbounded value (no wrap-around)  (C13)

`digitsNat` is the value of an all-digit string as an unbounded natural.  The only thing assumed about the
`strconv.ParseFloat` oracle on such strings is that it is monotone in that value (`DigitsMono`: correct rounding to
float64 never reverses an order; two different integers may round to the same float).  Then, for digit-string ends and
a digit-string token: every token inside the closed interval is accepted, and every token accepted by the open
interval lies strictly inside - whatever the number of digits (2^63, 2^64, 10^38 ... are not special).
-/
namespace SV.Pattern

/-- value of a non-empty all-digit string (`none` otherwise); leading zeros allowed -/
def digitsNat : Bytes → Option Nat
  | [] => none
  | ds => ds.foldl (fun acc d => acc.bind fun n => if 48 ≤ d ∧ d ≤ 57 then some (n * 10 + (d - 48)) else none) (some 0)

/-- the ParseFloat oracle never reverses the order of two decimal integers -/
def DigitsMono (pf : Bytes → Option Int) : Prop :=
  ∀ s t a b x y, digitsNat s = some a → digitsNat t = some b → pf s = some x → pf t = some y → a ≤ b → x ≤ y

theorem DigitsMono.lt_of_key_lt {pf : Bytes → Option Int} (h : DigitsMono pf) {s t : Bytes} {a b : Nat} {x y : Int}
    (hs : digitsNat s = some a) (ht : digitsNat t = some b) (h1 : pf s = some x) (h2 : pf t = some y) (hxy : x < y) :
    a < b := by
  by_cases hba : b ≤ a
  · have := h t s b a y x ht hs h2 h1 hba; omega
  · omega

/-- closed interval `[lo TO hi]`: no member is lost, however long the digit strings are -/
theorem digits_range_closed (pf : Bytes → Option Int) (maxKey : Int)
    (hb : ∀ b x, pf b = some x → -maxKey ≤ x ∧ x ≤ maxKey) (hm : DigitsMono pf)
    (lo hi v : Bytes) (a b n : Nat) (x y z : Int)
    (hlo : digitsNat lo = some a) (hhi : digitsNat hi = some b) (hv : digitsNat v = some n)
    (plo : pf lo = some x) (phi : pf hi = some y) (pv : pf v = some z) (h1 : a ≤ n) (h2 : n ≤ b) :
    rangeCheck pf maxKey ⟨some lo, some hi, true, true⟩ v = true := by
  rw [range_iff pf maxKey hb]
  left
  refine ⟨⟨fun f hf => by cases hf; simp [plo], fun t ht => by cases ht; simp [phi]⟩, z, pv, ?_, ?_⟩
  · intro f fx hf hpf
    cases hf
    rw [plo] at hpf; cases hpf
    simp only [if_true]
    exact hm lo v a n x z hlo hv plo pv h1
  · intro t tx ht hpt
    cases ht
    rw [phi] at hpt; cases hpt
    simp only [if_true]
    exact hm v hi n b z y hv hhi pv phi h2

/-- open interval `(lo TO hi)`: nothing outside is accepted -/
theorem digits_range_open (pf : Bytes → Option Int) (maxKey : Int)
    (hb : ∀ b x, pf b = some x → -maxKey ≤ x ∧ x ≤ maxKey) (hm : DigitsMono pf)
    (lo hi v : Bytes) (a b n : Nat) (x y : Int)
    (hlo : digitsNat lo = some a) (hhi : digitsNat hi = some b) (hv : digitsNat v = some n)
    (plo : pf lo = some x) (phi : pf hi = some y)
    (h : rangeCheck pf maxKey ⟨some lo, some hi, false, false⟩ v = true) : a < n ∧ n < b := by
  rw [range_iff pf maxKey hb] at h
  rcases h with ⟨⟨e1, e2⟩, z, pv, h1, h2⟩ | ⟨hne, ht⟩
  · have k1 := h1 lo x rfl plo
    have k2 := h2 hi y rfl phi
    simp only [Bool.false_eq_true, if_false] at k1 k2
    exact ⟨hm.lt_of_key_lt hlo hv plo pv k1, hm.lt_of_key_lt hv hhi pv phi k2⟩
  · -- text branch: impossible, both ends are numbers for the oracle (a digit string too long for a finite float64
    -- - more than 308 digits - is NOT a number for ParseFloat and such a range is textual: excluded by plo/phi)
    exfalso
    exact hne ⟨fun f hf => by cases hf; simp [plo], fun t ht => by cases ht; simp [phi]⟩

end SV.Pattern
