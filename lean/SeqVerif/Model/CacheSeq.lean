import SeqVerif.Model.CacheAcc
import SeqVerif.Model.CacheVal
/-!
# C18 - every sequential public call preserves the quiescent invariant `QInv`
-/
namespace SV.Cache

theorem set_append_last {α} (l : List α) (a b : α) : (l ++ [a]).set l.length b = l ++ [b] := by
  induction l with
  | nil => rfl
  | cons x xs ih => simp [ih]

theorem entry_clear_inMap (e : Entry) (h : e.inMap = false) : { e with inMap := false } = e := by
  cases e; simp_all

theorem unmap_noop {h : List Entry} {c k : Nat} (hl : lookup h c k = none) : unmap h c k = h := by
  unfold lookup at hl
  rw [List.findIdx?_eq_none_iff] at hl
  unfold unmap
  conv => rhs; rw [← List.map_id h]
  apply List.map_congr_left
  intro e he
  split
  · rename_i hck
    have := hl e he
    simp only [matchKey, hck.1, hck.2, beq_self_eq_true, Bool.and_true, Bool.and_eq_false_imp] at this
    have hin : e.inMap = false := by
      cases hm : e.inMap
      · rfl
      · simp [hm] at this
    simp [entry_clear_inMap e hin]
  · rfl

theorem quiet_setPc {s : St} (h : ∀ t, s.pc t = .idle) (t0 : Nat) : ∀ t, (setPc s t0 .idle).pc t = .idle := by
  intro t; rw [setPc_pc]; split <;> simp [h t]

/-! ## Get / GetWithError -/

theorem qinv_updGen {cfg : Cfg} {s : St} (q : QInv cfg s) {eid : Nat} {e : Entry} (he : s.heap[eid]? = some e)
    (hin : e.inMap = true) : QInv cfg (updGen s eid s.lastGen) := by
  have hmem : e ∈ s.heap := List.mem_of_getElem? he
  have hlive := q.live e hmem hin
  unfold updGen
  rw [he]
  simp only
  split
  · exact q
  · rename_i hne
    refine ⟨q.quiet, ?_, q.gl, ?_, ?_, q.managed⟩
    · intro a ha hain
      rcases List.mem_or_eq_of_mem_set ha with ha | rfl
      · exact q.live a ha hain
      · exact ⟨hlive.1, hlive.2.1, q.lastGen_mem, hlive.2.2.2⟩
    · intro g hg
      show mget 0 (addG (addG s.gsizeL e.gen (-(e.size : Int))) s.lastGen e.size) g = genLive (s.heap.set eid _) g
      rw [genLive_set _ _ _ _ _ he, addG_get, addG_get, addG_get]
      have hacc := q.acc g hg
      simp only [St.gsize] at hacc
      simp only [contrib, hin, true_and]
      by_cases h1 : g = s.lastGen
      · subst h1
        have h2 : ¬ e.gen = s.lastGen := fun h => hne h.symm
        simp [h2, hne]; omega
      · by_cases h2 : g = e.gen
        · subst h2; simp [h1, hne]; omega
        · have h3 : ¬ e.gen = g := fun h => h2 h.symm
          have h4 : ¬ s.lastGen = g := fun h => h1 h.symm
          simp [h1, h2, h3, h4]; omega
    · intro g hg
      have := q.fresh g hg
      have hlt : s.lastGen < s.ngens := (q.gl.2.1 _ q.lastGen_mem).1
      have hlt2 : e.gen < s.ngens := (q.gl.2.1 _ hlive.2.2.1).1
      refine ⟨?_, this.2⟩
      show mget 0 (addG (addG s.gsizeL e.gen (-(e.size : Int))) s.lastGen e.size) g = 0
      have hg' : s.ngens ≤ g := hg
      have h1 : ¬ g = s.lastGen := by omega
      have h2 : ¬ g = e.gen := by omega
      simp only [addG_get, h1, h2, if_false]
      exact this.1

theorem qinv_setPc_idle {cfg : Cfg} {s : St} (q : QInv cfg s) (t : Nat) : QInv cfg (setPc s t .idle) :=
  ⟨⟨quiet_setPc q.quiet.1 t, q.quiet.2⟩, q.live, q.gl, q.acc, q.fresh, q.managed⟩

/-- `Get` / `GetWithError` / `Get` with a panicking loader, run to completion -/
theorem qinv_get {cfg : Cfg} (hes : 0 < cfg.entrySize) {s s' : St} {c k : Nat} {oc : Outcome} {o : List Out}
    (q : QInv cfg s) (hs : seqOp cfg s (.get c k oc) = some (s', o)) : QInv cfg s' := by
  simp only [seqOp] at hs
  split at hs
  · rename_i hpre
    obtain ⟨hc, hrel⟩ := hpre
    have hcur : s.cur c = s.lastGen := (q.managed c hc hrel).2
    cases hl : lookup s.heap c k with
    | some eid =>
      obtain ⟨e, he, -, -, hin⟩ := lookup_sound hl
      have hv := (q.live e (List.mem_of_getElem? he) hin).1
      have hacq : acquire s 0 c k = (setPc (updGen s eid s.lastGen) 0 .idle, .value e.val) := by
        unfold acquire; rw [hl]; simp only [he, hcur, hv, if_true]
      rw [hacq] at hs
      simp only [Option.some.injEq, Prod.mk.injEq] at hs
      rw [← hs.1]
      exact qinv_setPc_idle (qinv_updGen q he hin) 0
    | none =>
      have hacq : acquire s 0 c k =
          (setPc { s with heap := s.heap ++ [⟨c, k, .loading, 0, s.cur c, 0, false, true⟩] } 0 (.loading c k s.heap.length),
           .loading) := by
        unfold acquire; rw [hl]
      rw [hacq] at hs
      have hnew : (s.heap ++ [(⟨c, k, .loading, 0, s.cur c, 0, false, true⟩ : Entry)])[s.heap.length]? =
          some ⟨c, k, .loading, 0, s.cur c, 0, false, true⟩ := by
        rw [List.getElem?_append_right (Nat.le_refl _)]; simp
      cases oc with
      | ok v sz =>
        simp only [Option.some.injEq, Prod.mk.injEq] at hs
        rw [← hs.1]
        unfold save
        simp only [setPc, hnew, set_append_last, Bool.false_eq_true, if_false]
        refine ⟨⟨?_, q.quiet.2⟩, ?_, q.gl, ?_, ?_, q.managed⟩
        · intro t
          have := q.quiet.1 t
          simp only [St.pc, mget_mset] at this ⊢
          split <;> simp [this]
        · intro a ha hain
          rcases List.mem_append.mp ha with ha | ha
          · exact q.live a ha hain
          · simp only [List.mem_singleton] at ha; subst ha
            exact ⟨rfl, by show 0 < cfg.entrySize + sz; omega, hcur ▸ q.lastGen_mem, hc, hrel⟩
        · intro g hg
          show mget 0 (addG s.gsizeL (s.cur c) ((cfg.entrySize + sz : Nat) : Int)) g = genLive (s.heap ++ [_]) g
          rw [genLive_append, addG_get]
          have hacc := q.acc g hg
          simp only [St.gsize] at hacc
          simp only [contrib, true_and]
          by_cases h1 : g = s.cur c
          · subst h1; simp; omega
          · have h2 : ¬ s.cur c = g := fun h => h1 h.symm
            simp [h1, h2]; omega
        · intro g hg
          have := q.fresh g hg
          refine ⟨?_, this.2⟩
          show mget 0 (addG s.gsizeL (s.cur c) ((cfg.entrySize + sz : Nat) : Int)) g = 0
          rw [addG_get]
          have hlt : s.lastGen < s.ngens := (q.gl.2.1 _ q.lastGen_mem).1
          have hg' : s.ngens ≤ g := hg
          have h1 : ¬ g = s.cur c := by omega
          simp only [h1, if_false]; exact this.1
      | err =>
        simp only [Option.some.injEq, Prod.mk.injEq] at hs
        rw [← hs.1]
        exact qinv_recover_new q hl
      | panic =>
        simp only [Option.some.injEq, Prod.mk.injEq] at hs
        rw [← hs.1]
        exact qinv_recover_new q hl
  · exact absurd hs (by simp)
where
  qinv_recover_new {cfg : Cfg} {s : St} {c k : Nat} (q : QInv cfg s) (hl : lookup s.heap c k = none) :
      QInv cfg (recover (setPc { s with heap := s.heap ++ [⟨c, k, .loading, 0, s.cur c, 0, false, true⟩] } 0
        (.loading c k s.heap.length)) 0 c k s.heap.length) := by
    have hun : unmap (s.heap ++ [(⟨c, k, .loading, 0, s.cur c, 0, false, true⟩ : Entry)]) c k =
        s.heap ++ [⟨c, k, .loading, 0, s.cur c, 0, false, false⟩] := by
      have := unmap_noop hl
      unfold unmap at this ⊢
      rw [List.map_append, this]; simp
    have hget : (s.heap ++ [(⟨c, k, .loading, 0, s.cur c, 0, false, false⟩ : Entry)])[s.heap.length]? =
        some ⟨c, k, .loading, 0, s.cur c, 0, false, false⟩ := by
      rw [List.getElem?_append_right (Nat.le_refl _)]; simp
    unfold recover
    simp only [setPc, hun, hget, set_append_last]
    refine ⟨⟨?_, q.quiet.2⟩, ?_, q.gl, ?_, q.fresh, q.managed⟩
    · intro t
      have := q.quiet.1 t
      simp only [St.pc, mget_mset] at this ⊢
      split <;> simp [this]
    · intro a ha hain
      rcases List.mem_append.mp ha with ha | ha
      · exact q.live a ha hain
      · simp only [List.mem_singleton] at ha; subst ha; simp at hain
    · intro g hg
      show s.gsize g = genLive (s.heap ++ [_]) g
      rw [genLive_append, q.acc g hg]; simp [contrib]

/-! ## Release -/

theorem qinv_release {cfg : Cfg} {s : St} (q : QInv cfg s) (c : Nat) (hc : c < s.ncaches) : QInv cfg (release s c) := by
  have hm : Managed (release s c) := by
    have : step cfg s (.release c) = some (release s c, .none) := by simp [step, hc]
    exact step_managed cfg q.managed this
  refine ⟨q.quiet, ?_, q.gl, ?_, ?_, hm⟩
  · intro a ha hain
    simp only [release, List.mem_map] at ha
    obtain ⟨e, he, rfl⟩ := ha
    by_cases hne : e.cache = c
    · simp [hne] at hain
    · simp only [hne, if_false] at hain ⊢
      have := q.live e he hain
      refine ⟨this.1, this.2.1, this.2.2.1, this.2.2.2.1, ?_⟩
      show mget false (mset false s.relL c true) e.cache = false
      rw [mget_mset, if_neg hne]; exact this.2.2.2.2
  · intro g hg
    show mget 0 (relGens c s.heap s.gsizeL) g = genLive (s.heap.map _) g
    rw [relGens_get, genLive_release]
    have := q.acc g hg
    simp only [St.gsize] at this
    rw [this]
  · intro g hg
    have := q.fresh g hg
    refine ⟨?_, this.2⟩
    show mget 0 (relGens c s.heap s.gsizeL) g = 0
    rw [relGens_get]
    have hg' : s.ngens ≤ g := hg
    have h0 : relSum c s.heap g = 0 := by
      apply sum_map_zero
      intro e he
      split
      · rename_i h
        have := (q.gl.2.1 _ (q.live e he h.2.1).2.2.1).1
        have := h.2.2
        omega
      · rfl
    have := this.1
    simp only [St.gsize] at this
    rw [this, h0]; rfl

/-! ## Rotate -/

theorem genLive_fresh {cfg : Cfg} {s : St} (q : QInv cfg s) {g : Nat} (hg : s.ngens ≤ g) : genLive s.heap g = 0 := by
  apply sum_map_zero
  intro e he
  unfold contrib
  split
  · rename_i h
    have := (q.gl.2.1 _ (q.live e he h.1).2.2.1).1
    omega
  · rfl

theorem qinv_doRotate {cfg : Cfg} {s : St} (q : QInv cfg s) : QInv cfg (doRotate s) := by
  have hnotin : s.ngens ∉ s.glist := fun h => by have := (q.gl.2.1 _ h).1; omega
  refine ⟨q.quiet, ?_, ⟨?_, ?_, ?_⟩, ?_, ?_, managed_doRotate q.managed⟩
  · intro e he hin
    have := q.live e he hin
    exact ⟨this.1, this.2.1, List.mem_append_left _ this.2.2.1, this.2.2.2⟩
  · show (s.glist ++ [s.ngens]).Nodup
    rw [List.nodup_append]
    refine ⟨q.gl.1, by simp, ?_⟩
    intro a ha b hb
    simp only [List.mem_singleton] at hb; subst hb
    intro h; subst h; exact hnotin ha
  · intro g hg
    show g < s.ngens + 1 ∧ s.stale g = false
    rcases List.mem_append.mp hg with hg | hg
    · have := q.gl.2.1 g hg; exact ⟨by omega, this.2⟩
    · simp only [List.mem_singleton] at hg; subst hg
      exact ⟨by omega, (q.fresh _ (Nat.le_refl _)).2⟩
  · show (s.glist ++ [s.ngens]).getLast? = some s.ngens
    simp
  · intro g hg
    show s.gsize g = genLive s.heap g
    rcases List.mem_append.mp hg with hg | hg
    · exact q.acc g hg
    · simp only [List.mem_singleton] at hg; subst hg
      rw [(q.fresh _ (Nat.le_refl _)).1, genLive_fresh q (Nat.le_refl _)]
  · intro g hg
    show s.gsize g = 0 ∧ s.stale g = false
    exact q.fresh g (by show s.ngens ≤ g; have : s.ngens + 1 ≤ g := hg; omega)

end SV.Cache
