import SeqVerif.Model.FetchIndex
/-!
# C04 - `fracmanager.Fetcher.FetchDocs`: grouping by fraction, per-fraction fetch, re-ordering

A fraction is seen through what the fetch path uses: its name, `Contains`, `IsIntersecting`, the batch position
lookup `GetDocPos` (`none` = run-time panic, recovered by `fracFetch` into the batch error) and `readDoc`.
`sealedGetDocPos` / `activeGetDocPos` are the two real implementations.
-/
namespace SV.Fetch

/-- seq.IDSource: an ID with an optional hint (the name of the fraction that is expected to hold it) -/
structure IDS where
  id : ID
  hint : Option Nat
deriving DecidableEq, Repr

structure Frac (D : Type) where
  name : Nat
  contains : Nat → Bool
  intersects : Nat → Nat → Bool
  getDocPos : List ID → Option (List Nat)
  readDoc : Nat → Nat → D

/-- `sealedFetchIndex.getDocPosByLIDs` on the flat position table (LID 0 = not found) -/
def getDocPosByLIDs (pos : List Nat) (lids : List Nat) : List Nat :=
  lids.map fun lid => if lid = 0 then notFound else pos.getD lid notFound

/-- `sealedFetchIndex.GetDocPos = getDocPosByLIDs (findLIDs ids)` (repaired `findLIDs`) -/
def sealedGetDocPos (t : List ID) (pos : List Nat) (ids : List ID) : Option (List Nat) :=
  (findLIDsFixed t ids).map (getDocPosByLIDs pos)

/-- `DocsPositions.Get`: map lookup, `DocPosNotFound` when absent -/
def mapGet (m : List (ID × Nat)) (id : ID) : Nat :=
  match m.find? (fun e => e.1 = id) with
  | some e => e.2
  | none => notFound

/-- `activeFetchIndex.GetDocPos` -/
def activeGetDocPos (m : List (ID × Nat)) (ids : List ID) : Option (List Nat) := some (ids.map (mapGet m))

/-- `DataProvider.Fetch` under `fracFetch` -/
def Frac.fetch {D : Type} (bits : Nat) (f : Frac D) (ids : List ID) : Option (List (Option D)) :=
  (f.getDocPos ids).map (indexFetch bits f.readDoc)

/-- Go's `sort.Sort(ids)` / `sort.Sort(sort.Reverse(ids))` on distinct IDs -/
def sortAsc (ids : List IDS) : List IDS := ids.mergeSort (fun x y => x.id.le y.id)
def sortDesc (ids : List IDS) : List IDS := ids.mergeSort (fun x y => y.id.le x.id)

/-- `sortIDs`: (sorted ids, minMID, maxMID); `none` = `ids[0]` on an empty request (index out of range) -/
def sortIDs (ids : List IDS) : Option (List IDS × Nat × Nat) :=
  match ids.head?, ids.getLast? with
  | some a, some b =>
    if a.id.lt b.id then
      let s := sortAsc ids
      match s.head?, s.getLast? with
      | some x, some y => some (s, x.id.mid, y.id.mid)
      | _, _ => none
    else
      let s := sortDesc ids
      match s.head?, s.getLast? with
      | some x, some y => some (s, y.id.mid, x.id.mid)
      | _, _ => none
  | _, _ => none

/-- the IDs that go to fraction `f` out of the still unassigned `ids` (`idsBuf`) -/
def takeFor {D : Type} (f : Frac D) (ids : List IDS) : List ID :=
  ids.filterMap fun s =>
    match s.hint with
    | none => if f.contains s.id.mid then some s.id else none
    | some h => if h = f.name then (if f.contains s.id.mid then some s.id else none) else none

/-- the IDs kept for the next fractions (`ids = ids[:i]`) -/
def keepAfter {D : Type} (f : Frac D) (ids : List IDS) : List IDS :=
  ids.filter fun s =>
    match s.hint with
    | none => true
    | some h => h ≠ f.name

/-- the loop of `groupIDsByFraction` over the candidate fractions -/
def groupLoop {D : Type} : List (Frac D) → List IDS → List (Frac D × List ID)
  | [], _ => []
  | f :: rest, ids =>
    if (takeFor f ids).isEmpty then groupLoop rest (keepAfter f ids)
    else (f, takeFor f ids) :: groupLoop rest (keepAfter f ids)

/-- `groupIDsByFraction` -/
def groupIDsByFraction {D : Type} (fracs : List (Frac D)) (ids : List IDS) : Option (List (Frac D × List ID)) :=
  (sortIDs ids).map fun s => groupLoop (fracs.filter fun f => f.intersects s.2.1 s.2.2) s.1

/-- `reversPos[id]`: the map is filled front to back, the last position of an ID wins -/
def reversPos (ids : List ID) (id : ID) : Nat := ids.length - 1 - ids.reverse.idxOf id

inductive Res (α : Type) where
  | ok (a : α)
  | err
  | crash
deriving Repr, DecidableEq

/-- `fetchDocsAsync` (results only): `none` = some fraction panicked, i.e. the batch error -/
def fetchGroups {D : Type} (bits : Nat) : List (Frac D × List ID) → Option (List (List ID × List (Option D)))
  | [] => some []
  | (f, ids) :: rest =>
    match f.fetch bits ids, fetchGroups bits rest with
    | some docs, some r => some ((ids, docs) :: r)
    | _, _ => none

/-- "arrange the result in the original order of ids" -/
def arrange {D : Type} (n : Nat) (rp : ID → Nat) (gs : List (List ID × List (Option D))) : List (Option D) :=
  setAll (gs.flatMap fun g => (g.1.zip g.2).filterMap fun p => p.2.map fun d => (rp p.1, d)) (List.replicate n none)

/-- `Fetcher.FetchDocs` -/
def fetchDocs {D : Type} (bits : Nat) (fracs : List (Frac D)) (ids : List IDS) : Res (List (Option D)) :=
  match groupIDsByFraction fracs ids with
  | none => .crash
  | some groups =>
    match fetchGroups bits groups with
    | none => .err
    | some gs => .ok (arrange ids.length (reversPos (ids.map (·.id))) gs)

/-! ## Spec -/

/-- what fraction `f` holds under `id` -/
def Frac.doc {D : Type} (bits : Nat) (f : Frac D) (posOf : ID → Nat) (id : ID) : Option D :=
  posDoc bits f.readDoc (posOf id)

end SV.Fetch
