import SeqVerif.Model.BulkTime
/-!
# Layout of a document ID (seq.NewID as called by processor.Process)

`id := seq.NewID(docTime, (rand.Uint64()<<16)+p.proxyIndex)`; `NewID(t, randomness) = ID{MID: TimeToMID(t), RID: RID(randomness)}`.
MID = the chosen time in milliseconds, RID = the caller's randomness unchanged: 48 random bits (the low 48 bits of
`rand.Uint64()`, shifted left by 16) over the 16-bit slot of the ingestor index (`IngestorMaxInstances = 1024`).
-/
namespace SV.BulkTime

/-- `(rand.Uint64()<<16) + p.proxyIndex` in uint64 arithmetic -/
def processRandomness (r idx : Nat) : Nat := ((r * 65536) % 18446744073709551616 + idx) % 18446744073709551616

/-- `seq.NewID(t, randomness)`: (MID, RID) -/
def newID (t : Int) (randomness : Nat) : Nat × Nat := (timeToMID t, randomness % 18446744073709551616)

/-- the RID `Process` gives a document from the random draw `r` and the ingestor index `idx` -/
def ridOf (t : Int) (r idx : Nat) : Nat := (newID t (processRandomness r idx)).2

theorem ridOf_eq (t : Int) (r idx : Nat) (hi : idx < 65536) : ridOf t r idx = (r % 281474976710656) * 65536 + idx := by
  unfold ridOf newID processRandomness
  simp only
  omega

/-- **distinct random draws (in their 48 effective bits) give distinct RIDs**, whatever the time, for any two
ingestor indexes; so two documents with the same MID collide only if their 48 random bits AND their ingestor
index coincide -/
theorem rid_injective (t1 t2 : Int) (r1 r2 i1 i2 : Nat) (h1 : i1 < 65536) (h2 : i2 < 65536)
    (h : ridOf t1 r1 i1 = ridOf t2 r2 i2) : r1 % 281474976710656 = r2 % 281474976710656 ∧ i1 = i2 := by
  rw [ridOf_eq t1 r1 i1 h1, ridOf_eq t2 r2 i2 h2] at h
  omega

end SV.BulkTime
