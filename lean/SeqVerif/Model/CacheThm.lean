import SeqVerif.Model.CacheVal
/-!
# C18 - consequences of `VInv`: what a step can return, stability of valid entries, failed loads
-/
namespace SV.Cache

/-- key the thread that takes the step asked for -/
def requested (s : St) : Label → Option (Nat × Nat)
  | .get _ c k => some (c, k)
  | .wake t | .finish t _ =>
    match s.pc t with
    | .waiting c k _ => some (c, k)
    | .loading c k _ => some (c, k)
    | .idle => none
  | _ => none

theorem acquire_produced (s : St) (t c k : Nat) : (acquire s t c k).1.produced = s.produced := by
  unfold acquire
  split
  · split
    · rfl
    · split <;> simp only [setPc] <;> exact updGen_produced _ _ _
  · rfl

theorem acquire_value {s s' : St} {t c k v : Nat} (h : acquire s t c k = (s', .value v)) :
    ∃ (eid : Nat) (e : Entry), s.heap[eid]? = some e ∧ e.cache = c ∧ e.key = k ∧ e.st = .valid ∧ e.val = v := by
  unfold acquire at h
  split at h
  · rename_i eid hl
    obtain ⟨e0, he0, hc0, hk0, -⟩ := lookup_sound hl
    split at h
    · simp at h
    · rename_i e he
      rw [he0] at he; cases he
      split at h
      · rename_i hv
        simp only [Prod.mk.injEq, Out.value.injEq] at h
        exact ⟨eid, e0, he0, hc0, hk0, hv, h.2⟩
      · simp at h
  · simp at h

/-- a value handed to a caller was produced by a loader run for the key the caller asked for -/
theorem value_of_key (cfg : Cfg) {s s' : St} {l : Label} {v : Nat} (hv : VInv s)
    (hs : step cfg s l = some (s', .value v)) :
    ∃ c k, requested s l = some (c, k) ∧ (c, k, v) ∈ s'.produced := by
  cases l with
  | get t c k =>
    simp only [step] at hs
    split at hs
    · simp only [Option.some.injEq] at hs
      obtain ⟨eid, e, he, hc, hk, hst, hval⟩ := acquire_value hs
      refine ⟨c, k, rfl, ?_⟩
      rw [← fst_of_eq hs, acquire_produced, ← hc, ← hk, ← hval]
      exact hv.valid_produced eid e he hst
    · exact absurd hs (by simp)
  | wake t =>
    simp only [step] at hs
    split at hs
    · rename_i c k eid hpc
      split at hs
      · rename_i e he
        split at hs
        · rename_i hst
          simp only [Option.some.injEq, Prod.mk.injEq, Out.value.injEq] at hs
          obtain ⟨rfl, rfl⟩ := hs
          obtain ⟨e', he', hc, hk⟩ := hv.waiting_key t c k eid hpc
          rw [he] at he'; cases he'
          refine ⟨c, k, by simp [requested, hpc], ?_⟩
          have := hv.valid_produced eid e he hst
          rw [hc, hk] at this
          exact this
        · split at hs
          · simp only [Option.some.injEq] at hs
            obtain ⟨eid', e', he', hc, hk, hst, hval⟩ := acquire_value hs
            refine ⟨c, k, by simp [requested, hpc], ?_⟩
            rw [← fst_of_eq hs, acquire_produced, ← hc, ← hk, ← hval]
            exact hv.valid_produced eid' e' he' hst
          · exact absurd hs (by simp)
        · exact absurd hs (by simp)
      · exact absurd hs (by simp)
    · exact absurd hs (by simp)
  | finish t oc =>
    simp only [step] at hs
    split at hs
    · rename_i c k eid hpc
      split at hs
      · rename_i v' sz
        simp only [Option.some.injEq] at hs
        obtain ⟨e, he, -⟩ := hv.loading_own t c k eid hpc
        unfold save at hs
        rw [he] at hs
        simp only at hs
        split at hs <;>
        · simp only [Prod.mk.injEq, Out.value.injEq] at hs
          obtain ⟨rfl, rfl⟩ := hs
          exact ⟨c, k, by simp [requested, hpc], by simp [setPc]⟩
      · simp at hs
      · simp at hs
    · exact absurd hs (by simp)
  | newCache => simp [step] at hs
  | release c => simp only [step] at hs; split at hs <;> simp at hs
  | rotate =>
    simp only [step] at hs
    split at hs
    · unfold rotate at hs; split at hs <;> simp at hs
    · simp at hs
  | cleanupBegin =>
    simp only [step] at hs
    split at hs
    · unfold cleanupBegin at hs; split at hs <;> simp at hs
    · simp at hs
  | cleanupBucket => simp only [step] at hs; split at hs <;> simp at hs
  | cleanEmpty =>
    simp only [step] at hs
    split at hs
    · unfold cleanEmpty at hs; split at hs <;> simp at hs
    · simp at hs
  | releaseBuckets => simp only [step] at hs; split at hs <;> simp at hs

/-! ## valid entries never change their value -/

/-- identity is permanent, a valid entry stays valid with the same value -/
def Stable (h h' : List Entry) : Prop :=
  ∀ (i : Nat) (e : Entry), h[i]? = some e →
    ∃ e', h'[i]? = some e' ∧ e'.cache = e.cache ∧ e'.key = e.key ∧ (e.st = .valid → e'.st = .valid ∧ e'.val = e.val)

theorem Stable.refl (h : List Entry) : Stable h h := fun _ e he => ⟨e, he, rfl, rfl, fun hv => ⟨hv, rfl⟩⟩

theorem Stable.trans {a b c : List Entry} (h1 : Stable a b) (h2 : Stable b c) : Stable a c := by
  intro i e he
  obtain ⟨e1, he1, hc1, hk1, hv1⟩ := h1 i e he
  obtain ⟨e2, he2, hc2, hk2, hv2⟩ := h2 i e1 he1
  exact ⟨e2, he2, hc2.trans hc1, hk2.trans hk1, fun hv => ⟨(hv2 (hv1 hv).1).1, (hv2 (hv1 hv).1).2.trans (hv1 hv).2⟩⟩

theorem Sim.stable {h h' : List Entry} (hs : Sim h h') : Stable h h' := by
  intro i e he
  obtain ⟨e', he', hc, hk, hst, hval, -⟩ := hs.get' he
  exact ⟨e', he', hc, hk, fun hv => ⟨hst.trans hv, hval⟩⟩

theorem stable_acquire (s : St) (t c k : Nat) : Stable s.heap (acquire s t c k).1.heap := by
  unfold acquire
  split
  · split
    · exact Stable.refl _
    · split <;> simp only [setPc] <;> exact (sim_updGen _ _ _).stable
  · intro i e he
    refine ⟨e, ?_, rfl, rfl, fun hv => ⟨hv, rfl⟩⟩
    simp only [setPc]
    rw [List.getElem?_append_left (List.getElem?_eq_some_iff.mp he).1]; exact he

theorem stable_set_nonvalid (h : List Entry) (i : Nat) (e e' : Entry) (hi : h[i]? = some e) (hst : e.st ≠ .valid)
    (hc : e'.cache = e.cache) (hk : e'.key = e.key) : Stable h (h.set i e') := by
  intro j a ha
  by_cases hij : i = j
  · subst hij
    rw [hi] at ha; cases ha
    exact ⟨e', List.getElem?_set_self (List.getElem?_eq_some_iff.mp hi).1, hc, hk, fun hv => absurd hv hst⟩
  · exact ⟨a, (List.getElem?_set_ne hij).trans ha, rfl, rfl, fun hv => ⟨hv, rfl⟩⟩

theorem step_stable (cfg : Cfg) {s s' : St} {l : Label} {o : Out} (hv : VInv s)
    (hs : step cfg s l = some (s', o)) : Stable s.heap s'.heap := by
  cases l with
  | newCache =>
    simp only [step, Option.some.injEq, Prod.mk.injEq] at hs
    obtain ⟨rfl, -⟩ := hs; exact Stable.refl _
  | get t c k =>
    simp only [step] at hs
    split at hs
    · simp only [Option.some.injEq] at hs
      rw [← fst_of_eq hs]; exact stable_acquire s t c k
    · exact absurd hs (by simp)
  | wake t =>
    simp only [step] at hs
    split at hs
    · split at hs
      · split at hs
        · simp only [Option.some.injEq, Prod.mk.injEq] at hs
          obtain ⟨rfl, -⟩ := hs; exact Stable.refl _
        · split at hs
          · simp only [Option.some.injEq] at hs
            rw [← fst_of_eq hs]; exact stable_acquire s t _ _
          · exact absurd hs (by simp)
        · exact absurd hs (by simp)
      · exact absurd hs (by simp)
    · exact absurd hs (by simp)
  | finish t oc =>
    simp only [step] at hs
    split at hs
    · rename_i c k eid hpc
      obtain ⟨e, he, hc, hk, hst⟩ := hv.loading_own t c k eid hpc
      split at hs
      · simp only [Option.some.injEq] at hs
        rw [← fst_of_eq hs]
        unfold save; rw [he]
        simp only
        split <;> exact stable_set_nonvalid _ _ e _ he (by rw [hst]; simp) rfl rfl
      all_goals
        simp only [Option.some.injEq, Prod.mk.injEq] at hs
        obtain ⟨rfl, -⟩ := hs
        unfold recover; rw [he]
        exact stable_set_nonvalid _ _ e _ he (by rw [hst]; simp) rfl rfl
    · exact absurd hs (by simp)
  | release c =>
    simp only [step] at hs
    split at hs
    · simp only [Option.some.injEq, Prod.mk.injEq] at hs
      obtain ⟨rfl, -⟩ := hs; exact (sim_release s c).stable
    · exact absurd hs (by simp)
  | rotate =>
    simp only [step] at hs
    split at hs
    · simp only [Option.some.injEq] at hs
      unfold rotate at hs
      split at hs <;> (simp only [Prod.mk.injEq] at hs; obtain ⟨rfl, -⟩ := hs; exact Stable.refl _)
    · exact absurd hs (by simp)
  | cleanupBegin =>
    simp only [step] at hs
    split at hs
    · simp only [Option.some.injEq] at hs
      unfold cleanupBegin at hs
      split at hs
      · simp only [Prod.mk.injEq] at hs; obtain ⟨rfl, -⟩ := hs; exact Stable.refl _
      · simp only [Prod.mk.injEq] at hs; obtain ⟨rfl, -⟩ := hs
        show Stable s.heap (markStale s _).1.heap
        rw [(markStale_heap s _).1]; exact Stable.refl _
    · exact absurd hs (by simp)
  | cleanupBucket =>
    simp only [step] at hs
    split at hs
    · simp only [Option.some.injEq, Prod.mk.injEq] at hs
      obtain ⟨rfl, -⟩ := hs; exact (sim_cacheCleanup s _).stable
    · exact absurd hs (by simp)
  | cleanEmpty =>
    simp only [step] at hs
    split at hs
    · unfold cleanEmpty at hs
      split at hs
      · exact absurd hs (by simp)
      · simp only [Option.some.injEq, Prod.mk.injEq] at hs
        obtain ⟨rfl, -⟩ := hs; exact Stable.refl _
    · exact absurd hs (by simp)
  | releaseBuckets =>
    simp only [step] at hs
    split at hs
    · simp only [Option.some.injEq, Prod.mk.injEq] at hs
      obtain ⟨rfl, -⟩ := hs; exact Stable.refl _
    · exact absurd hs (by simp)

/-- any number of further steps, any interleaving -/
inductive Steps (cfg : Cfg) : St → St → Prop
  | refl (s) : Steps cfg s s
  | step {s s' s'' l o} : Steps cfg s s' → step cfg s' l = some (s'', o) → Steps cfg s s''

theorem Steps.reach {cfg : Cfg} {s s' : St} (h : Steps cfg s s') (hr : Reach cfg s) : Reach cfg s' := by
  induction h with
  | refl => exact hr
  | step _ hs ih => exact Reach.step ih hs

theorem Steps.stable {cfg : Cfg} {s s' : St} (h : Steps cfg s s') (hr : Reach cfg s) : Stable s.heap s'.heap := by
  induction h with
  | refl => exact Stable.refl _
  | step h1 hs ih => exact ih.trans (step_stable cfg (reach_vinv cfg (h1.reach hr)) hs)

/-! ## failed loads -/

theorem lookup_none_of_forall {h : List Entry} {c k : Nat}
    (hall : ∀ e ∈ h, e.cache = c → e.key = k → e.inMap = false) : lookup h c k = none := by
  unfold lookup
  rw [List.findIdx?_eq_none_iff]
  intro e he
  simp only [matchKey]
  by_cases h1 : e.cache = c
  · by_cases h2 : e.key = k
    · simp [hall e he h1 h2]
    · simp [h2]
  · simp [h1]

/-- after a failed load the loader's own entry is abandoned and in no map; the other entries are untouched -/
theorem recover_heap {s : St} (hv : VInv s) {t c k eid : Nat} (hpc : s.pc t = .loading c k eid) :
    ∃ e, s.heap[eid]? = some e ∧ e.cache = c ∧ e.key = k ∧
      (recover s t c k eid).heap = s.heap.set eid { e with st := .abandoned, inMap := false } := by
  obtain ⟨e, he, hc, hk, -⟩ := hv.loading_own t c k eid hpc
  exact ⟨e, he, hc, hk, by unfold recover; rw [he]; rfl⟩

end SV.Cache
