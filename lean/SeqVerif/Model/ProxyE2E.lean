import SeqVerif.Model.ProxyCompose
import SeqVerif.Model.StoreSearch
/-!
Bridging lemmas for the top of the refinement chain (C16 ∘ C05 ∘ C02): the proxy's answer against `Spec.search` of all
documents of all answering shards.  Three ID representations meet here:
  * C16: pairs `(mid, rid)`                       (`SV.ProxySearch.ID`)
  * Spec / C02: `SV.Spec.ID {mid, rid}`
  * C05: the number `mid * 2^64 + rid`            (`SV.Merge.key`; `ProxyCompose.keyOf` / `Merge.keyOf`)
They are interchangeable when RIDs fit `uint64`.
-/
namespace SV.ProxyE2E
open SV SV.Merge

/-- a C16 ID as a Spec ID -/
def toSpecID (i : ProxySearch.ID) : Spec.ID := ⟨i.1, i.2⟩

theorem keyOf_toSpecID (i : ProxySearch.ID) : Merge.keyOf (toSpecID i) = ProxyCompose.keyOf i := rfl

theorem key_inj (m1 r1 m2 r2 : Nat) (h1 : r1 < R) (h2 : r2 < R) (h : key m1 r1 = key m2 r2) : m1 = m2 ∧ r1 = r2 := by
  unfold key R at *; omega

/-- two ID lists with the same keys are the same list once RIDs fit `uint64` -/
theorem ids_of_keys (l1 : List ProxySearch.ID) (l2 : List Spec.ID) (h1 : ∀ i ∈ l1, i.2 < R)
    (h2 : ∀ i ∈ l2, i.rid ≤ Borders.maxU64) (h : l1.map ProxyCompose.keyOf = l2.map Merge.keyOf) :
    l1.map toSpecID = l2 := by
  induction l1 generalizing l2 with
  | nil => cases l2 with
    | nil => rfl
    | cons b bs => simp at h
  | cons a as ih =>
    cases l2 with
    | nil => simp at h
    | cons b bs =>
      simp only [List.map_cons, List.cons.injEq] at h ⊢
      have hb : b.rid < R := by
        have := h2 b (by simp); unfold Borders.maxU64 at this; unfold R; omega
      have := key_inj a.1 a.2 b.mid b.rid (h1 a (by simp)) hb h.1
      refine ⟨?_, ih bs (fun i hi => h1 i (List.mem_cons_of_mem _ hi)) (fun i hi => h2 i (List.mem_cons_of_mem _ hi)) h.2⟩
      cases b; simp only [toSpecID, Spec.ID.mk.injEq]; exact this

/-- the view `SearchDocs` has of a store for one request -/
def storeFracs (fs : List FracIdx) (q : Spec.Query) (from_ to_ : Nat) : List Frac := fs.map (·.toFrac q from_ to_)

/-- all documents a list of fraction indexes stores -/
def storedDocs (fs : List FracIdx) : List Spec.Doc := fs.flatMap fun f => EvalTree.docsOf f.idx

/-- C05's fraction invariant and visibility follow from C02/C05's `FracIdx.OK` (as inside `storeSearch_eq_spec`) -/
theorem storeFracs_inv (fs : List FracIdx) (q : Spec.Query) (from_ to_ : Nat) (hok : ∀ f ∈ fs, f.OK from_) :
    (∀ g ∈ storeFracs fs q from_ to_, FracInv g) ∧
    (∀ g ∈ storeFracs fs q from_ to_, g.docs ≠ [] → isIntersecting g from_ to_ = true) := by
  have hinv : ∀ g, g ∈ fs.map (·.toFrac q from_ to_) → FracInv g := by
    intro g hg
    rcases List.mem_map.mp hg with ⟨f, hf, rfl⟩
    intro d hd
    simp only [FracIdx.toFrac, List.mem_map] at hd
    rcases hd with ⟨doc, hdoc, rfl⟩
    have hp := hit_props f.idx q from_ to_ doc hdoc
    rw [midOf_keyOf _ ((hok f hf).rid _ hp.1)]
    exact (hok f hf).bounds _ hp.1
  refine ⟨hinv, ?_⟩
  intro g hg hne
  rcases List.mem_map.mp hg with ⟨f, hf, rfl⟩
  obtain ⟨d, hd⟩ := List.exists_mem_of_ne_nil _ hne
  have hd' := hd
  simp only [FracIdx.toFrac, List.mem_map] at hd'
  rcases hd' with ⟨doc, hdoc, rfl⟩
  have hp := hit_props f.idx q from_ to_ doc hdoc
  apply isIntersecting_of_doc _ from_ to_ _ (hinv _ hg) hd
  · rw [midOf_keyOf _ ((hok f hf).rid _ hp.1)]; exact hp.2
  · simp only [FracIdx.toFrac]
    exact Nat.ne_of_gt (List.length_pos_of_mem hp.1)

/-- the ordered duplicate-free key list of the matching documents of several stores is the key image of the IDs
`Spec.search` returns for the union of their documents (before the cut) -/
theorem sd_stores_eq_spec (desc : Bool) (shards : List Nat) (fracs : Nat → List FracIdx) (q : Spec.Query)
    (from_ to_ L : Nat) (wt : Bool) (hok : ∀ s ∈ shards, ∀ f ∈ fracs s, f.OK from_) :
    (sd desc (shards.flatMap fun s => docsOf (storeFracs (fracs s) q from_ to_))).take L =
      (Spec.search (storedDocs (shards.flatMap fracs)) q from_ to_ (!desc) L wt).ids.map Merge.keyOf := by
  have hflat : (shards.flatMap fun s => docsOf (storeFracs (fracs s) q from_ to_)) =
      docsOf (storeFracs (shards.flatMap fracs) q from_ to_) := by
    unfold storeFracs docsOf
    induction shards with
    | nil => simp
    | cons s ss ih =>
      simp only [List.flatMap_cons, List.map_append, List.flatMap_append]
      rw [ih (fun t ht f hf => hok t (List.mem_cons_of_mem _ ht) f hf)]
  rw [hflat]
  unfold storeFracs
  rw [docsOf_toFrac]
  unfold Spec.search storedDocs
  simp only [List.map_take]
  have hr : ∀ id ∈ (Spec.hits ((shards.flatMap fracs).flatMap (fun f => EvalTree.docsOf f.idx)) q from_ to_).map (·.id),
      id.rid ≤ Borders.maxU64 := by
    intro id hid
    rcases List.mem_map.mp hid with ⟨d, hd, rfl⟩
    rw [hits_flatMap] at hd
    rcases List.mem_flatMap.mp hd with ⟨f, hf, hdf⟩
    obtain ⟨s, hs, hfs⟩ := List.mem_flatMap.mp hf
    exact (hok s hs f hfs).rid _ (hit_props f.idx q from_ to_ d hdf).1
  rw [map_keyOf_sorted_dedup _ _ hr, Bool.not_not]

theorem spec_ids_rid (docs : List Spec.Doc) (q : Spec.Query) (from_ to_ L : Nat) (asc wt : Bool)
    (h : ∀ d ∈ docs, d.id.rid ≤ Borders.maxU64) :
    ∀ i ∈ (Spec.search docs q from_ to_ asc L wt).ids, i.rid ≤ Borders.maxU64 := by
  intro i hi
  unfold Spec.search at hi
  have hi' := List.mem_of_mem_take hi
  rw [Spec.mem_dedupAdj, (Spec.sortBy_perm _ _).mem_iff] at hi'
  rcases List.mem_map.mp hi' with ⟨d, hd, rfl⟩
  exact h d (List.mem_filter.mp hd).1

theorem page_of_take {α : Type} (l : List α) (offset size : Nat) :
    ((l.take (offset + size)).drop offset).take size = (l.drop offset).take size := by
  rw [List.drop_take, List.take_take]; congr 1; omega

end SV.ProxyE2E
