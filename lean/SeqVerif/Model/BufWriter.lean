/-!
# bytespool.Writer: the buffered writer under the sorted-docs output                       (C08)

Go source modelled: `bytespool/writer.go` (`Write`, `Flush`, `writeCheckShort`), statement by statement.
`C` is `cap(w.Buf.B)`.  The downstream `io.Writer` is an oracle: every call is answered `none` (all bytes taken,
no error) or `some k` (an error - or a short write, which `writeCheckShort` turns into `io.ErrShortWrite` - after `k`
bytes were taken).  A missing answer is `none`.
-/
namespace SV.BufWriter

structure St where
  buf : List Nat := []                 -- w.Buf.B
  out : List Nat := []                 -- what the downstream writer has received
  oracle : List (Option Nat) := []     -- its remaining answers
  deriving DecidableEq, Repr

/-- `writeCheckShort(d)` -/
def down (d : List Nat) (s : St) : Bool × St :=
  match s.oracle with
  | [] => (true, { s with out := s.out ++ d })
  | none :: r => (true, { s with out := s.out ++ d, oracle := r })
  | some k :: r => (false, { s with out := s.out ++ d.take k, oracle := r })

/-- `Flush`: nothing to do for an empty buffer; the buffer is reset only when the write succeeded -/
def flush (s : St) : Bool × St :=
  if s.buf = [] then (true, s)
  else if (down s.buf s).1 then (true, { (down s.buf s).2 with buf := [] })
  else (false, (down s.buf s).2)

/-- `Write(b)`: returns ((n, err = nil), state) -/
def write (C : Nat) (b : List Nat) (s : St) : (Nat × Bool) × St :=
  if s.buf.length + b.length < C then ((b.length, true), { s with buf := s.buf ++ b })         -- fits into the buffer
  else if s.buf = [] then ((b.length, (down b s).1), (down b s).2)                               -- write directly
  else
    let s1 : St := { s with buf := s.buf ++ b.take (C - s.buf.length) }                          -- fill ...
    if (flush s1).1 then                                                                          -- ... and flush
      let b' := b.drop (C - s.buf.length)
      if b'.length < C then ((b.length, true), { (flush s1).2 with buf := (flush s1).2.buf ++ b' })
      else ((b.length, (down b' (flush s1).2).1), (down b' (flush s1).2).2)
    else ((0, false), (flush s1).2)

inductive Cmd
  | w (b : List Nat)
  | f
  deriving DecidableEq, Repr

def Cmd.data : Cmd → List Nat
  | .w b => b
  | .f => []

/-- a sequence of `Write`s and `Flush`es: the results (`true` = no error) and the final state -/
def exec (C : Nat) : List Cmd → St → List Bool × St
  | [], s => ([], s)
  | .w b :: r, s => (((write C b s).1.2) :: (exec C r (write C b s).2).1, (exec C r (write C b s).2).2)
  | .f :: r, s => (((flush s).1) :: (exec C r (flush s).2).1, (exec C r (flush s).2).2)

/-- everything accepted so far that has not been reported lost: delivered bytes followed by the buffered ones -/
def St.all (s : St) : List Nat := s.out ++ s.buf

/-- the answers consumed between two states were all "ok" -/
def CleanBetween (s s' : St) : Prop :=
  ∃ j, s.oracle = List.replicate j none ++ s'.oracle ∨ (s.oracle = [] ∧ s'.oracle = [])

/-! ## lemmas -/

theorem down_ok (d : List Nat) (s : St) (h : (down d s).1 = true) :
    (down d s).2.out = s.out ++ d ∧ (down d s).2.buf = s.buf ∧ CleanBetween s (down d s).2 := by
  unfold down at h ⊢
  cases ho : s.oracle with
  | nil => exact ⟨rfl, rfl, 0, .inr ⟨ho, rfl⟩⟩
  | cons a r =>
    cases a with
    | none => exact ⟨rfl, rfl, 1, .inl (by simp [ho])⟩
    | some k => simp [ho] at h

theorem cleanBetween_refl (s : St) : CleanBetween s s := ⟨0, .inl (by simp)⟩

theorem cleanBetween_trans {a b c : St} (h1 : CleanBetween a b) (h2 : CleanBetween b c) : CleanBetween a c := by
  obtain ⟨i, h1⟩ := h1
  obtain ⟨j, h2⟩ := h2
  rcases h1 with h1 | ⟨h1, h1'⟩ <;> rcases h2 with h2 | ⟨h2, h2'⟩
  · exact ⟨i + j, .inl (by rw [h1, h2, ← List.append_assoc, List.replicate_append_replicate])⟩
  · exact ⟨i, .inl (by rw [h1, h2, h2'])⟩
  · rw [h1'] at h2
    have : c.oracle = [] := by
      cases j with
      | zero => simpa using h2.symm
      | succ j => simp [List.replicate_succ] at h2
    exact ⟨0, .inr ⟨h1, this⟩⟩
  · exact ⟨0, .inr ⟨h1, h2'⟩⟩

theorem flush_ok (s : St) (h : (flush s).1 = true) :
    (flush s).2.all = s.all ∧ (flush s).2.buf = [] ∧ CleanBetween s (flush s).2 := by
  unfold flush at h ⊢
  by_cases hb : s.buf = []
  · rw [if_pos hb]; exact ⟨rfl, hb, cleanBetween_refl s⟩
  · rw [if_neg hb] at h ⊢
    cases hd : (down s.buf s).1
    · rw [hd] at h; simp at h
    · obtain ⟨h1, -, h3⟩ := down_ok s.buf s hd
      rw [if_pos rfl]
      exact ⟨by simp [St.all, h1], rfl, h3⟩

theorem write_ok (C : Nat) (b : List Nat) (s : St) (h : (write C b s).1.2 = true) :
    (write C b s).2.all = s.all ++ b ∧ (write C b s).1.1 = b.length ∧ CleanBetween s (write C b s).2 := by
  unfold write at h ⊢
  by_cases h1 : s.buf.length + b.length < C
  · rw [if_pos h1]; exact ⟨by simp [St.all], rfl, cleanBetween_refl s⟩
  · rw [if_neg h1] at h ⊢
    by_cases h2 : s.buf = []
    · rw [if_pos h2] at h ⊢
      obtain ⟨a1, a2, a3⟩ := down_ok b s h
      exact ⟨by simp [St.all, a1, a2, h2], rfl, a3⟩
    · rw [if_neg h2] at h ⊢
      simp only at h ⊢
      cases hf : (flush { s with buf := s.buf ++ b.take (C - s.buf.length) }).1
      · rw [hf] at h; simp at h
      · rw [hf] at h
        rw [if_pos rfl] at h ⊢
        obtain ⟨f1, f2, f3⟩ := flush_ok _ hf
        have f3' : CleanBetween s (flush { s with buf := s.buf ++ b.take (C - s.buf.length) }).2 := f3
        simp only [St.all] at f1
        rw [f2, List.append_nil] at f1
        by_cases h3 : (b.drop (C - s.buf.length)).length < C
        · rw [if_pos h3]
          refine ⟨?_, rfl, f3'⟩
          simp only [St.all, f2, List.nil_append]
          rw [f1, List.append_assoc, List.append_assoc, List.take_append_drop, List.append_assoc]
        · rw [if_neg h3] at h ⊢
          obtain ⟨a1, a2, a3⟩ := down_ok _ _ h
          refine ⟨?_, rfl, cleanBetween_trans f3' a3⟩
          simp only [St.all, a1, a2, f2, List.append_nil]
          rw [f1, List.append_assoc, List.append_assoc, List.take_append_drop, List.append_assoc]

/-- **no byte lost, duplicated or reordered; no error dropped.**  If every `Write` and `Flush` of a sequence returned
without error then what was delivered downstream followed by what is still buffered is exactly the concatenation of
the written slices (after what was there before), and every answer of the downstream writer that was consumed was
"ok" - for every buffer capacity, every sequence and every behaviour of the downstream writer. -/
theorem exec_ok (C : Nat) (cmds : List Cmd) (s : St) (h : ∀ r ∈ (exec C cmds s).1, r = true) :
    (exec C cmds s).2.all = s.all ++ (cmds.map Cmd.data).flatten ∧ CleanBetween s (exec C cmds s).2 := by
  induction cmds generalizing s with
  | nil => simp [exec, cleanBetween_refl]
  | cons c r ih =>
    cases c with
    | w b =>
      simp only [exec, List.mem_cons, forall_eq_or_imp] at h ⊢
      obtain ⟨w1, -, w3⟩ := write_ok C b s h.1
      obtain ⟨i1, i2⟩ := ih _ h.2
      exact ⟨by rw [i1, w1]; simp [Cmd.data], cleanBetween_trans w3 i2⟩
    | f =>
      simp only [exec, List.mem_cons, forall_eq_or_imp] at h ⊢
      obtain ⟨f1, -, f3⟩ := flush_ok s h.1
      obtain ⟨i1, i2⟩ := ih _ h.2
      exact ⟨by rw [i1, f1]; simp [Cmd.data], cleanBetween_trans f3 i2⟩

/-- after a final successful `Flush` nothing is left in the buffer: the output is the concatenation -/
theorem exec_flush_ok (C : Nat) (cmds : List Cmd) (s : St) (h : ∀ r ∈ (exec C (cmds ++ [.f]) s).1, r = true) :
    (exec C (cmds ++ [.f]) s).2.buf = [] := by
  induction cmds generalizing s with
  | nil =>
    simp only [List.nil_append, exec, List.mem_cons, List.not_mem_nil, or_false, forall_eq] at h ⊢
    exact (flush_ok s h).2.1
  | cons c r ih =>
    cases c with
    | w b =>
      simp only [List.cons_append, exec, List.mem_cons, forall_eq_or_imp] at h ⊢
      exact ih _ h.2
    | f =>
      simp only [List.cons_append, exec, List.mem_cons, forall_eq_or_imp] at h ⊢
      exact ih _ h.2

end SV.BufWriter
