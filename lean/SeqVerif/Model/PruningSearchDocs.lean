import SeqVerif.Model.SearchDocsTotals
import SeqVerif.Model.Pruning
/-!
# Composition of C14 with C05: `SearchDocs` over the fractions kept by the REAL `Info.IsIntersecting`

C05 (`SV.Merge`, Model/SearchDocs.lean - read only here) models `Searcher.SearchDocs` with `prepareFracs` filtering by
the plain `From/To` test.  `searchOver` is the rest of `SearchDocs` (the `MaxFractionHits` guard, `List.Sort`, the
chunked loop) over an already filtered list, `searchDocsDist` instantiates it with the fractions kept by
`frac.Info.IsIntersecting` including the MIDs distribution (`SV.FracInfo`), each C05 fraction paired with its info.
-/
namespace SV.Merge
open SV.FracInfo

/-- `SearchDocs` after `FilterInRange`: guard, sort, loop -/
def searchOver (c : Cfg) (kept : List Frac) (L : Nat) : Option QPR :=
  if c.maxHits > 0 ∧ kept.length > c.maxHits then none
  else
    match (if c.perIter = 0 then (sortFracs c.desc kept).length else c.perIter) with
    | 0 => some emptyQPR
    | n + 1 => some (searchLoop c n L emptyQPR (sortFracs c.desc kept) L)

/-- C05's `searchDocs` is `searchOver` on C05's filter -/
theorem searchDocs_eq_searchOver (c : Cfg) (fs : List Frac) (from_ to_ L : Nat) :
    searchDocs c fs from_ to_ L = searchOver c (filterInRange fs from_ to_) L := by
  unfold searchDocs prepareFracs searchOver
  by_cases hg : c.maxHits > 0 ∧ (filterInRange fs from_ to_).length > c.maxHits
  · simp only [hg, and_self, if_true]
  · simp only [hg, if_false]; rfl

/-- the real store: a C05 fraction together with its `frac.Info`; kept = `Info.IsIntersecting` with distribution -/
def keptDist (ps : List (Frac × Info)) (qf qt : Nat) : List Frac :=
  (ps.filter fun p => FracInfo.isIntersecting p.2 qf qt).map Prod.fst

def searchDocsDist (c : Cfg) (ps : List (Frac × Info)) (qf qt L : Nat) : Option QPR :=
  searchOver c (keptDist ps qf qt) L

theorem searchOver_ids (c : Cfg) (kept : List Frac) (L : Nat) (hinv : ∀ f, f ∈ kept → FracInv f)
    (hmax : c.maxHits = 0 ∨ kept.length ≤ c.maxHits) :
    ∃ q, searchOver c kept L = some q ∧ q.ids = (sd c.desc (docsOf kept)).take L := by
  have hmem : ∀ v, v ∈ docsOf (sortFracs c.desc kept) ↔ v ∈ docsOf kept := by
    intro v; simp only [mem_docsOf, mem_sortFracs]
  have hinv' : ∀ f, f ∈ sortFracs c.desc kept → FracInv f := by
    intro f hf; rw [mem_sortFracs] at hf; exact hinv f hf
  unfold searchOver
  have hg : ¬ (c.maxHits > 0 ∧ kept.length > c.maxHits) := by omega
  simp only [hg, if_false]
  split
  · rename_i hz
    refine ⟨emptyQPR, rfl, ?_⟩
    have hlen : (sortFracs c.desc kept).length = 0 := by
      split at hz
      · exact hz
      · rename_i hp; omega
    have hnil := List.eq_nil_of_length_eq_zero hlen
    have : sd c.desc (docsOf kept) = sd c.desc [] :=
      sd_congr c.desc _ _ (fun v => by rw [← hmem v, hnil]; simp [docsOf])
    rw [this]; simp [emptyQPR, sd, sortIds, removeRepetitions]
  · rename_i n hn
    refine ⟨_, rfl, ?_⟩
    have := searchLoop_ids c n L emptyQPR (sortFracs c.desc kept) L []
      (by simp [emptyQPR, sd, sortIds, removeRepetitions]) [] [] (by simp [emptyQPR]) (by simp) (by simp)
      (sortFracs_sorted c.desc _) hinv'
    rw [this, List.nil_append, sd_congr c.desc _ _ hmem]

theorem searchOver_total_hist (c : Cfg) (kept : List Frac) (L : Nat)
    (hmax : c.maxHits = 0 ∨ kept.length ≤ c.maxHits) (hnd : (docsOf kept).Nodup) :
    ∃ q, searchOver c kept L = some q ∧
      q.total = (if c.withTotal then (docsOf kept).length else 0) ∧
      ∀ k, histGet q.hist k = if c.hi > 0 then cntBucket c.hi k (docsOf kept) else 0 := by
  have hperm : (docsOf (sortFracs c.desc kept)).Perm (docsOf kept) := docsOf_perm (sortFracs_perm c.desc _)
  unfold searchOver
  have hg : ¬ (c.maxHits > 0 ∧ kept.length > c.maxHits) := by omega
  simp only [hg, if_false]
  split
  · rename_i hz
    have hlen : (sortFracs c.desc kept).length = 0 := by
      split at hz
      · exact hz
      · rename_i hp; omega
    have hnil := List.eq_nil_of_length_eq_zero hlen
    rw [hnil] at hperm
    have hempty : docsOf kept = [] := List.Perm.eq_nil (by simpa [docsOf] using hperm.symm)
    refine ⟨emptyQPR, rfl, ?_, fun k => ?_⟩
    · simp [emptyQPR, hempty]
    · simp [emptyQPR, hempty, histGet, Hist.get, cntBucket]
  · rename_i n hn
    refine ⟨_, rfl, ?_⟩
    have := searchLoop_acc c n L emptyQPR (sortFracs c.desc kept) L [] (acc_empty c)
      (by simpa using hperm.nodup_iff.mpr hnd)
    simp only [List.nil_append] at this
    refine ⟨?_, fun k => ?_⟩
    · rw [this.1, hperm.length_eq]
    · rw [this.2.2 k, cntBucket_perm c.hi k hperm]

/-- dropping only fractions without matching documents does not change the documents seen -/
theorem docsOf_keptDist (ps : List (Frac × Info)) (qf qt : Nat)
    (h : ∀ p, p ∈ ps → p.1.docs ≠ [] → FracInfo.isIntersecting p.2 qf qt = true) :
    docsOf (keptDist ps qf qt) = docsOf (ps.map Prod.fst) := by
  unfold keptDist
  induction ps with
  | nil => rfl
  | cons p ps ih =>
    have ih' := ih (fun q hq => h q (List.mem_cons_of_mem _ hq))
    by_cases hp : FracInfo.isIntersecting p.2 qf qt = true
    · simp only [List.filter_cons, hp, if_true, List.map_cons, docsOf, List.flatMap_cons] at ih' ⊢
      rw [ih']
    · have hp' : FracInfo.isIntersecting p.2 qf qt = false := by simpa using hp
      have hd : p.1.docs = [] := by
        cases hd : p.1.docs with
        | nil => rfl
        | cons d ds =>
          have := h p List.mem_cons_self (by simp [hd])
          rw [hp'] at this; exact absurd this (by simp)
      simp only [List.filter_cons, hp', List.map_cons, docsOf, List.flatMap_cons, hd, List.nil_append] at ih' ⊢
      simpa using ih'

/-- `Info.IsIntersecting = true` implies the plain border test of C05 -/
theorem border_of_isIntersecting {s : Info} {qf qt : Nat} (h : FracInfo.isIntersecting s qf qt = true) :
    s.docsTotal ≠ 0 ∧ ¬ (qt < s.ifrom ∨ s.ito < qf) := by
  unfold FracInfo.isIntersecting at h
  split at h
  · exact absurd h (by simp)
  · split at h
    · exact absurd h (by simp)
    · exact ⟨by assumption, by assumption⟩

theorem length_filter_le_of_imp {α} (p q : α → Bool) (l : List α) (h : ∀ x, x ∈ l → p x = true → q x = true) :
    (l.filter p).length ≤ (l.filter q).length := by
  induction l with
  | nil => simp
  | cons x xs ih =>
    have ih' := ih (fun y hy => h y (List.mem_cons_of_mem _ hy))
    by_cases hp : p x = true
    · have hq := h x List.mem_cons_self hp
      simp only [List.filter_cons, hp, hq, if_true, List.length_cons]; omega
    · have hp' : p x = false := by simpa using hp
      by_cases hq : q x = true
      · simp only [List.filter_cons, hp', hq, if_true, List.length_cons]
        exact Nat.le_succ_of_le (by simpa using ih')
      · have hq' : q x = false := by simpa using hq
        simp only [List.filter_cons, hp', hq']
        simpa using ih'

/-- the IDs of `SearchDocs` over the really kept fractions: the first `L` of the duplicate-free union of ALL matching
documents under the `(MID, RID)` order - ties on MID across fractions included -/
theorem searchDocsDist_ids (c : Cfg) (ps : List (Frac × Info)) (qf qt L : Nat)
    (hinv : ∀ p, p ∈ ps → FracInv p.1)
    (hkeep : ∀ p, p ∈ ps → p.1.docs ≠ [] → FracInfo.isIntersecting p.2 qf qt = true)
    (hmax : c.maxHits = 0 ∨ (keptDist ps qf qt).length ≤ c.maxHits) :
    ∃ q, searchDocsDist c ps qf qt L = some q ∧ q.ids = (sd c.desc (docsOf (ps.map Prod.fst))).take L := by
  have hinv2 : ∀ f, f ∈ keptDist ps qf qt → FracInv f := by
    intro f hf
    rcases List.mem_map.1 hf with ⟨p, hp, rfl⟩
    exact hinv p (List.mem_filter.1 hp).1
  obtain ⟨q, hq, hqi⟩ := searchOver_ids c _ L hinv2 hmax
  exact ⟨q, hq, by rw [hqi, docsOf_keptDist ps qf qt hkeep]⟩

end SV.Merge
