import SeqVerif.Model.EvalTreeWith
import SeqVerif.Model.PatternSpecWith
/-!
# Composition with C02: the TIDs found by the pattern package select exactly `EvalTree.leafTokensWith pf`

C02's model takes the tokens of a leaf as `leafTokensWith num idx l = idx.toks.filter (field == l.field && valMatchWith num)`.
Here: the dictionary of a field is the field's entries of the index in index order; whichever search path is used, the
entries at the returned TIDs are `leafTokensWith pf idx (specLeaf field token)`, syntactically.
-/
namespace SV.Pattern
open SV SV.EvalTree

/-- the field's dictionary entries, in index order (TID `base + i` is entry `i`) -/
def fieldToks (idx : Index) (field : Bytes) : List TokenEntry := idx.toks.filter fun t => t.field == field
def fieldDict (idx : Index) (field : Bytes) : List Bytes := (fieldToks idx field).map (·.val)

/-- the entries at the given TIDs -/
def pick (idx : Index) (field : Bytes) (base : Nat) (tids : List Nat) : List TokenEntry :=
  tids.map fun tid => (fieldToks idx field).getD (tid - base) ⟨[], [], []⟩

theorem specLeaf_field (field : Bytes) (token : Token) : (specLeaf field token).field = field := by
  cases token <;> rfl

theorem pick_specTidsWith (pf : Bytes → Option Int) (idx : Index) (field : Bytes) (token : Token) (base : Nat) :
    pick idx field base (specTidsWith pf (specLeaf field token) base (fieldDict idx field)) =
      leafTokensWith pf idx (specLeaf field token) := by
  simp only [pick, specTidsWith, fieldDict, List.length_map]
  rw [select_positions ((specLeaf field token).valMatchWith pf) (·.val) ⟨[], [], []⟩ (fieldToks idx field) base]
  simp only [fieldToks, leafTokensWith, List.filter_filter, specLeaf_field]
  apply List.filter_congr
  intro t _
  exact Bool.and_comm _ _

end SV.Pattern
