import SeqVerif.Model.TimeRule
/-!
# Time rule of bulk ingestion (C10): `extractDocTime`, `processor.Process` time selection, `seq.TimeToMID`

Times are `Int` nanoseconds since the Unix epoch, unbounded (Go's `time.Time` covers years 0..9999 and far
beyond the int64 nanosecond range); `time.Time.Sub` saturates (`TimeRule.subSat`), `UnixNano` wraps.
`delayed` is the drift test (`documentDelayed`): a parameter, so that the same definitions serve the code as
written, the repaired code and the mechanically extracted translation.
-/
namespace SV.BulkTime
open SV.TimeRule

/-- `extractDocTime`: time fields in the order of `consts.TimeFields`, for each non-empty value the formats in
the order of `consts.TimeFormats`; `vals` = the value of each field as bytes (`[]` when absent), `parse f v` =
does the `f`-th format parse `v`, and to which instant (oracle for `parseESTime` / `time.Parse`) -/
def extractDocTime (nFormats : Nat) (parse : Nat → List Nat → Option Int) (vals : List (List Nat)) : Option Int :=
  vals.findSome? fun v => if v = [] then none else (List.range nFormats).findSome? fun f => parse f v

/-- the instant that goes into the document ID (`processor.Process`) -/
def idTime (delayed : Int → Int → Int → Bool) (doc : Option Int) (req drift fut : Int) : Int :=
  match doc with
  | none => req
  | some t => if delayed (subSat req t) drift fut then req else t

/-- int64 wrap-around of `Time.UnixNano` -/
def wrap64 (x : Int) : Int := (x + 9223372036854775808) % 18446744073709551616 - 9223372036854775808

/-- `seq.TimeToMID`: `MID(t.UnixNano() / int64(time.Millisecond))` - truncating division, conversion to uint64 -/
def timeToMID (t : Int) : Nat := (((wrap64 t).tdiv 1000000) % 18446744073709551616).toNat

/-- MID of the ID given to a document -/
def docMID (delayed : Int → Int → Int → Bool) (doc : Option Int) (req drift fut : Int) : Nat :=
  timeToMID (idTime delayed doc req drift fut)

/-- the rule the property states -/
def ruleTime (doc : Option Int) (req drift fut : Int) : Int :=
  match doc with
  | none => req
  | some t => if -fut ≤ req - t ∧ req - t ≤ drift then t else req

/-- the repaired comparison as Go evaluates it: `docDelay > drift || docDelay < -futureDrift` with the wrapping
unary minus of int64 -/
def documentDelayedRepaired (docDelay drift futureDrift : Int) : Bool :=
  decide (docDelay > drift) || decide (docDelay < negWrap futureDrift)

theorem repaired_eq_fixed (d p f : Int) (hf : 0 ≤ f) :
    documentDelayedRepaired d p f = documentDelayedFixed d p f := by
  have : f ≠ minI := by unfold minI; omega
  simp [documentDelayedRepaired, documentDelayedFixed, negWrap, this]

theorem idTime_fixed (doc : Option Int) (req drift fut : Int)
    (hd : 0 ≤ drift ∧ drift < maxI) (hf : 0 ≤ fut ∧ fut < maxI) :
    idTime documentDelayedFixed doc req drift fut = ruleTime doc req drift fut := by
  cases doc with
  | none => rfl
  | some t =>
    simp only [idTime, ruleTime]
    have := fixed_iff_outside req t drift fut hd hf
    by_cases h : documentDelayedFixed (subSat req t) drift fut = true
    · have h' := this.mp h
      rw [if_pos h, if_neg (by omega)]
    · have h' : ¬ (req - t > drift ∨ req - t < -fut) := fun x => h (this.mpr x)
      rw [if_neg h, if_pos (by omega)]

theorem idTime_written_partial (t req drift fut : Int)
    (hd : 0 ≤ drift ∧ drift < maxI) (hf : 0 ≤ fut ∧ fut ≤ maxI) (hfit : minI < req - t) :
    idTime documentDelayed (some t) req drift fut = ruleTime (some t) req drift fut := by
  simp only [idTime, ruleTime]
  have := delayed_iff_outside_partial req t drift fut hd hf hfit
  by_cases h : documentDelayed (subSat req t) drift fut = true
  · have h' := this.mp h
    rw [if_pos h, if_neg (by omega)]
  · have h' : ¬ (req - t > drift ∨ req - t < -fut) := fun x => h (this.mpr x)
    rw [if_neg h, if_pos (by omega)]

theorem idTime_repaired (doc : Option Int) (req drift fut : Int)
    (hd : 0 ≤ drift ∧ drift < maxI) (hf : 0 ≤ fut ∧ fut < maxI) :
    idTime documentDelayedRepaired doc req drift fut = ruleTime doc req drift fut := by
  rw [← idTime_fixed doc req drift fut hd hf]
  cases doc with
  | none => rfl
  | some t => simp only [idTime, repaired_eq_fixed _ _ _ hf.1]

/-- for instants inside the int64 nanosecond range after the epoch the MID is the millisecond count -/
theorem timeToMID_exact (t : Int) (h0 : 0 ≤ t) (h1 : t ≤ maxI) : (timeToMID t : Int) = t / 1000000 := by
  unfold timeToMID wrap64
  unfold maxI at h1
  have hw : (t + 9223372036854775808) % 18446744073709551616 - 9223372036854775808 = t := by omega
  rw [hw, Int.tdiv_eq_ediv_of_nonneg h0]
  have : 0 ≤ t / 1000000 := Int.ediv_nonneg h0 (by decide)
  have h2 : t / 1000000 < 18446744073709551616 := by omega
  rw [Int.emod_eq_of_lt this h2, Int.toNat_of_nonneg this]

/-- the first field (in field order) with a non-empty value that some format parses wins, with its first
parsing format; unparsable non-empty values fall through to the next field -/
theorem extractDocTime_cons (nFormats : Nat) (parse : Nat → List Nat → Option Int) (v : List Nat) (vs : List (List Nat)) :
    extractDocTime nFormats parse (v :: vs) =
      if v = [] then extractDocTime nFormats parse vs
      else match (List.range nFormats).findSome? fun f => parse f v with
        | some t => some t
        | none => extractDocTime nFormats parse vs := by
  simp only [extractDocTime, List.findSome?_cons]
  by_cases hv : v = []
  · simp [hv]
  · simp only [hv, if_false]
    cases (List.range nFormats).findSome? fun f => parse f v <;> rfl

end SV.BulkTime
