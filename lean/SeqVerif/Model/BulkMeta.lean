import SeqVerif.Model.Bulk
import SeqVerif.Model.BulkTime
import SeqVerif.Model.BulkIndex
/-!
# The metas `processor.Process` returns for a stored document: ID time by the time rule, `Size = len(doc)`,
tokens by `indexer.Index`, one more `Size = 0` meta per nested element
-/
namespace SV.Bulk
open SV.BulkTime SV.BulkIndex

/-- what `Process` needs besides the document: the drift test, the document's own time as found by
`extractDocTime` (oracle: JSON field lookup and `time.Parse`), the request time and the two drifts (ns) -/
structure TimeCfg where
  delayed : Int → Int → Int → Bool
  timeOf : Bytes → Option Int
  req : Int
  drift : Int
  fut : Int

/-- the index side: tokenizer configuration, mapping, the decoded tree of a document (oracle: insane-json) and the
random part of its ID (oracle: `rand.Uint64()<<16 + proxyIndex`) -/
structure IndexCfg where
  c : SV.Tok.TokCfg
  mp : Bytes → MTypes
  tree : Bytes → JV
  ridOf : Bytes → Nat

/-- `id := seq.NewID(docTime, ...)`; `p.indexer.Index(node, id, uint32(len(doc)))`; `return doc, p.indexer.Metas()` -/
def metasFor (T : TimeCfg) (I : IndexCfg) (d : Bytes) : List Meta :=
  docMetas (docMID T.delayed (T.timeOf d) T.req T.drift T.fut) (I.ridOf d) (indexDoc I.c I.mp (I.tree d)) d

end SV.Bulk
