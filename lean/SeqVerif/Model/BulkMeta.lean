import SeqVerif.Model.Bulk
import SeqVerif.Model.BulkTime
/-!
# The meta `processor.Process` attaches to a stored document: ID time by the time rule, `Size = len(doc)`
-/
namespace SV.Bulk
open SV.BulkTime

/-- what `Process` needs besides the document: the drift test, the document's own time as found by
`extractDocTime` (oracle: JSON field lookup and `time.Parse`), the request time and the two drifts (ns) -/
structure TimeCfg where
  delayed : Int → Int → Int → Bool
  timeOf : Bytes → Option Int
  req : Int
  drift : Int
  fut : Int

/-- `id := seq.NewID(docTime, ...)`, `p.indexer.Index(node, id, uint32(len(doc)))` -/
def metaFor (T : TimeCfg) (d : Bytes) : Meta :=
  ⟨docMID T.delayed (T.timeOf d) T.req T.drift T.fut, d.length % 4294967296⟩

end SV.Bulk
