/-!
# DESIGN-PHASE SEED (superseded by `Model/Cache.lean`) - `cache.Cleaner.ReleaseBuckets` (C18)

`releaseBuckets` / `swapLoop` below are the swap-with-last loop as the code was BEFORE the C18 fix (kept for
`releaseBuckets_counterexample`); `releaseBucketsFixed` is the repaired form.  The model used by the C18 theorems is
`SV.Cache.releaseBuckets` (Model/Cache.lean; its `releaseBucketsOld` is the historical form there).  Do not cite this
file as a model of the current code.
Relation, proved in `Consistency/FileSetRetention.lean`: `cons_buckets_seedFixed_eq_c18_releaseBuckets` (seed's fixed
form = C18's model, distinct bucket ids), `cons_buckets_seedOld_eq_fixed_of_none_released`,
`cons_buckets_seedOld_ne_c18_releaseBuckets_witness` ([released, live, released]: old loop keeps the wrong bucket).
-/
namespace SV.Buckets

structure B where
  id : Nat
  released : Bool
deriving DecidableEq, Repr

/-- indices of released buckets, ascending (the `toDelete` slice) -/
def toDelete (bs : List B) : List Nat :=
  (List.range bs.length).filter (fun i => (bs.getD i ⟨0, false⟩).released)

/-- the swap-with-last loop of Cleaner.ReleaseBuckets -/
def swapLoop : List B → List Nat → Nat → List B × Nat
  | bs, [], last => (bs, last)
  | bs, i :: rest, last =>
    let last' := last - 1
    if i ≥ last' then (bs, last')
    else swapLoop (bs.set i (bs.getD last' ⟨0, false⟩)) rest last'

def releaseBuckets (bs : List B) : List B :=
  let del := toDelete bs
  if del.isEmpty then bs
  else
    let r := swapLoop bs del bs.length
    r.1.take r.2

/-- property: every live bucket stays managed, no released one stays -/
def Managed (before after : List B) : Prop :=
  (∀ b, b ∈ before → b.released = false → b ∈ after) ∧ (∀ b, b ∈ after → b.released = false)

/-- the pinned code violates it: [released, live, released] keeps a released bucket and drops the live one -/
theorem releaseBuckets_counterexample :
    releaseBuckets [⟨1, true⟩, ⟨2, false⟩, ⟨3, true⟩] = [⟨3, true⟩] := by decide

theorem not_managed : ¬ Managed [⟨1, true⟩, ⟨2, false⟩, ⟨3, true⟩] (releaseBuckets [⟨1, true⟩, ⟨2, false⟩, ⟨3, true⟩]) := by
  rw [releaseBuckets_counterexample]
  intro h
  have := h.2 ⟨3, true⟩ (by simp)
  simp at this

/-- the repair: stable in-place filter -/
def releaseBucketsFixed (bs : List B) : List B := bs.filter (fun b => !b.released)

theorem fixed_managed (bs : List B) : Managed bs (releaseBucketsFixed bs) := by
  constructor
  · intro b hb hr; simp [releaseBucketsFixed, hb, hr]
  · intro b hb; simp [releaseBucketsFixed] at hb; exact hb.2

end SV.Buckets
