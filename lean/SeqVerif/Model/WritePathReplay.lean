/-!
# DESIGN-PHASE SEED (superseded by `Model/WritePath.lean`, namespace `SV.WPath`) - `Active.Replay` / `ReadDocBlock` (C01)

Abstract prototype (namespace `SV.WP`) with an abstract header `Codec`; no theorem of `Props/` uses it.  The model of
the C01 theorems is the byte-level `SV.WPath.readDocBlock` / `replayGo` / `replay` (Model/WritePath.lean over Model/WPBytes.lean).
This seed has NO counterpart of two behaviours of the real reader: the uint64 wrap of `FullLen = 33 + Len` and the
`make()` panic on an oversized length.  Do not cite it as a model of the current code.
Relation, proved in `Consistency/DocBytesReplay.lean`: `cons_docBytes_seedReadBlock_eq_wpReadDocBlock`,
`cons_docBytes_seedReplay_eq_wpReplayGo`, `cons_docBytes_seedReplay_eq_wpReplay` (equal for codecs matching the real
header layout, bytes < 256, no wrap / panic), `cons_docBytes_seedReadBlock_ne_wpReadDocBlock_witness` (length field
2^64-1: Go and `SV.WPath` return a 32-byte block by wrap-around, the seed cannot).
-/
namespace SV.WP

/-- abstract block: header of fixed length H whose decoded length field is `len`, then payload -/
structure Blk where
  ext1 : Nat
  payload : List Nat
deriving Repr, DecidableEq

/-- header encoding parameters (abstract): H bytes, decode of length/ext1 from a header -/
structure Codec where
  H : Nat
  hdr : Nat → Nat → List Nat          -- len, ext1 ↦ bytes
  hdr_len : ∀ l e, (hdr l e).length = H
  getLen : List Nat → Nat             -- reads first H bytes
  getExt : List Nat → Nat
  getLen_hdr : ∀ l e rest, getLen (hdr l e ++ rest) = l
  getExt_hdr : ∀ l e rest, getExt (hdr l e ++ rest) = e
  H_pos : 0 < H

variable (c : Codec)

def enc (b : Blk) : List Nat := c.hdr b.payload.length b.ext1 ++ b.payload

theorem enc_length (b : Blk) : (enc c b).length = c.H + b.payload.length := by
  simp [enc, c.hdr_len]

/-- one step of ReadDocBlock at the head of `bytes` -/
inductive Step where
  | eof                      -- fewer than H bytes: header unreadable
  | partialBlk               -- header ok, payload truncated
  | full (ext1 : Nat) (payload rest : List Nat)

def readBlock (bytes : List Nat) : Step :=
  if bytes.length < c.H then .eof
  else
    let l := c.getLen bytes
    if bytes.length < c.H + l then .partialBlk
    else .full (c.getExt bytes) ((bytes.drop c.H).take l) (bytes.drop (c.H + l))

/-- Replay: returns list of (ext1, payload, docsOffset) -/
def replay (fuel : Nat) (bytes : List Nat) (docsPos : Nat) : List (Nat × List Nat × Nat) :=
  match fuel with
  | 0 => []
  | fuel + 1 =>
    match readBlock c bytes with
    | .eof => []
    | .partialBlk => []
    | .full e p rest => (e, p, docsPos) :: replay fuel rest (docsPos + e)

def offsets (bs : List Blk) (start : Nat) : List (Nat × List Nat × Nat) :=
  match bs with
  | [] => []
  | b :: bs => (b.ext1, b.payload, start) :: offsets bs (start + b.ext1)

theorem readBlock_enc (b : Blk) (rest : List Nat) :
    readBlock c (enc c b ++ rest) = .full b.ext1 b.payload rest := by
  unfold readBlock
  have hl : (enc c b ++ rest).length = c.H + b.payload.length + rest.length := by
    simp [enc_length]
  have hget : c.getLen (enc c b ++ rest) = b.payload.length := by
    simp [enc, List.append_assoc, c.getLen_hdr]
  have hext : c.getExt (enc c b ++ rest) = b.ext1 := by
    simp [enc, List.append_assoc, c.getExt_hdr]
  rw [if_neg (by omega)]
  simp only [hget, hext]
  rw [if_neg (by omega)]
  have h1 : (enc c b ++ rest).drop c.H = b.payload ++ rest := by
    simp [enc, List.append_assoc]
    rw [List.drop_left' (c.hdr_len _ _)]
  have h2 : (enc c b ++ rest).drop (c.H + b.payload.length) = rest := by
    rw [← List.drop_drop, h1]
    simp
  rw [h1, h2]
  simp

/-- a torn tail: a strict prefix of some block encoding -/
def Torn (t : List Nat) : Prop := ∃ b, t.length < (enc c b).length ∧ t = (enc c b).take t.length

theorem readBlock_torn (t : List Nat) (h : Torn c t) :
    readBlock c t = .eof ∨ readBlock c t = .partialBlk := by
  obtain ⟨b, hlt, htake⟩ := h
  unfold readBlock
  by_cases hH : t.length < c.H
  · simp [hH]
  · right
    rw [if_neg hH]
    -- header is fully present, so getLen t = payload length
    have hsplit : t = c.hdr b.payload.length b.ext1 ++ b.payload.take (t.length - c.H) := by
      have hn : c.H ≤ t.length := by omega
      conv => lhs; rw [htake]
      simp only [enc]
      rw [List.take_append]
      rw [List.take_of_length_le (by rw [c.hdr_len]; exact hn)]
      simp [c.hdr_len]
    have hget : c.getLen t = b.payload.length := by
      rw [hsplit, c.getLen_hdr]
    simp only [hget]
    rw [enc_length] at hlt
    rw [if_pos (by omega)]

theorem replay_concat (bs : List Blk) (t : List Nat) (ht : Torn c t ∨ t = []) (start : Nat) (fuel : Nat)
    (hf : bs.length < fuel) :
    replay c fuel ((bs.map (enc c)).flatten ++ t) start = offsets bs start := by
  induction bs generalizing start fuel with
  | nil =>
    cases fuel with
    | zero => omega
    | succ fuel =>
      simp only [List.map_nil, List.flatten_nil, List.nil_append, replay, offsets]
      rcases ht with ht | ht
      · rcases readBlock_torn c t ht with h | h <;> simp [h]
      · subst ht
        have : readBlock c [] = .eof := by
          unfold readBlock; simp [c.H_pos]
        simp [this]
  | cons b bs ih =>
    cases fuel with
    | zero => omega
    | succ fuel =>
      simp only [List.map_cons, List.flatten_cons, List.append_assoc, replay, offsets]
      rw [readBlock_enc]
      simp only
      rw [ih]
      simp at hf; omega

end SV.WP
