import SeqVerif.Model.ParserCoreLemmas
/-!
# Reference grammar ("documented reading") and completeness of the accumulator parsers (C12)

`G S sep lvl top ts e`: the token list `ts` is a written expression of precedence level `lvl`
(0 = OR chain, 1 = AND chain, 2 = unary: atom, `*`, `not x`, `( ... )`) that denotes the tree `e`:
`not` binds tighter than `and`, `and` tighter than `or`, both associate to the left, parentheses group.
`top` says whether we are outside all parentheses (the `*` query is only accepted there).
`sep t` is the side condition under which token `t` ends a field filter (always true for the abstract tokens;
for lexer tokens: an `and`/`or` glued to the value without a space would be swallowed by the composite token).
-/
namespace SV.Parser

variable {τ α : Type}

/-! ## fuel independence -/

theorem sqSub_indep (S : Skel τ α) (hS : S.Good) {f g : Nat} (toks : List τ) (d n : Nat)
    (hf : 2 * toks.length + 1 ≤ f) (hg : 2 * toks.length + 1 ≤ g) : sqSub S f toks d n = sqSub S g toks d n := by
  have h0 := ((sq_spec S hS (2 * toks.length + 1)).1 toks d n (Nat.le_refl _)).1
  rw [(sq_mono_le S _ f hf).1 toks d n h0, (sq_mono_le S _ g hg).1 toks d n h0]

theorem sqLoop_indep (S : Skel τ α) (hS : S.Good) {f g : Nat} (res : Option (Ast α)) (cur : Ast α) (toks : List τ) (d n : Nat)
    (hr : ∀ x, res = some x → x.NoNand) (hc : cur.NoNand)
    (hf : 2 * toks.length + 1 ≤ f) (hg : 2 * toks.length + 1 ≤ g) :
    sqLoop S f res cur toks d n = sqLoop S g res cur toks d n := by
  have h0 := ((sq_spec S hS (2 * toks.length + 1)).2.2 res cur toks d n (Nat.le_refl _) hr hc).1
  rw [(sq_mono_le S _ f hf).2.2 res cur toks d n h0, (sq_mono_le S _ g hg).2.2 res cur toks d n h0]

/-! ## legacy skeleton = SeqQL skeleton on a token classification without `|` and `*` -/

def Skel.legacy (S : Skel τ α) : Skel τ α :=
  { S with kind := fun t => match S.kind t with | .pipe => .other | .star => .other | k => k }

theorem Skel.legacy_good (S : Skel τ α) (h : S.Good) : S.legacy.Good := ⟨h.1, h.2, h.3⟩

theorem Skel.legacy_kind (S : Skel τ α) (t : τ) :
    S.legacy.kind t = match S.kind t with | .pipe => .other | .star => .other | k => k := rfl
theorem Skel.legacy_rp (S : Skel τ α) (t : τ) : (S.legacy.kind t = .rp) ↔ (S.kind t = .rp) := by
  rw [Skel.legacy_kind]; cases S.kind t <;> simp
@[simp] theorem Skel.legacy_atom (S : Skel τ α) : S.legacy.atom = S.atom := rfl
@[simp] theorem Skel.legacy_star (S : Skel τ α) : S.legacy.star = S.star := rfl
@[simp] theorem Skel.legacy_tooDeep (S : Skel τ α) (n : Nat) : S.legacy.tooDeep n = S.tooDeep n := rfl

theorem lg_eq_sq (S : Skel τ α) : ∀ f,
    (∀ toks d n, lgSub S f toks d n = sqSub S.legacy f toks d n) ∧
    (∀ toks d n, lgExpr S f toks d n = sqFilter S.legacy f toks d n) ∧
    (∀ res cur toks d n, lgLoop S f res cur toks d n = sqLoop S.legacy f res cur toks d n) := by
  intro f
  induction f with
  | zero => simp [lgSub, sqSub, lgExpr, sqFilter, lgLoop, sqLoop]
  | succ f ih =>
    obtain ⟨ihS, ihF, ihL⟩ := ih
    refine ⟨?_, ?_, ?_⟩
    · intro toks d n
      cases toks with
      | nil => simp only [lgSub, sqSub, ite_self]
      | cons t r =>
        simp only [lgSub, sqSub, ihS, ihF, Skel.legacy_rp, Skel.legacy_atom, Skel.legacy_tooDeep]
        have hk' := Skel.legacy_kind S t
        cases hk : S.kind t <;> rw [hk] at hk' <;> simp [hk']
    · intro toks d n
      simp only [lgExpr, sqFilter, ihS, ihL]
    · intro res cur toks d n
      cases toks with
      | nil => simp [lgLoop, sqLoop]
      | cons t r =>
        simp only [lgLoop, sqLoop, ihS, ihL]
        have hk' := Skel.legacy_kind S t
        cases hk : S.kind t <;> rw [hk] at hk' <;> simp [hk']

/-! ## the grammar -/

def Follow (sep : τ → Prop) (rest : List τ) : Prop := rest = [] ∨ ∃ t r, rest = t :: r ∧ sep t

/-- `x` nested sub-expression calls fit under the limit -/
def Skel.fits (S : Skel τ α) (x : Nat) : Prop :=
  match S.maxNest with
  | none => True
  | some mx => x ≤ mx

instance (S : Skel τ α) (x : Nat) : Decidable (S.fits x) :=
  match h : S.maxNest with
  | none => isTrue (by simp [Skel.fits, h])
  | some mx => if hx : x ≤ mx then isTrue (by simp [Skel.fits, h, hx]) else isFalse (by simp [Skel.fits, h, hx])

theorem Skel.fits_mono (S : Skel τ α) {a b : Nat} (h : a ≤ b) (hb : S.fits b) : S.fits a := by
  unfold Skel.fits at *
  cases hm : S.maxNest with
  | none => trivial
  | some mx => rw [hm] at hb; simp only at hb ⊢; omega

theorem Skel.not_tooDeep (S : Skel τ α) {nest : Nat} (h : S.fits (nest + 1)) : S.tooDeep nest = false := by
  unfold Skel.fits at h
  unfold Skel.tooDeep
  cases hm : S.maxNest with
  | none => rfl
  | some mx => rw [hm] at h; simp only at h ⊢; simp; omega

@[simp] theorem Skel.legacy_fits (S : Skel τ α) (x : Nat) : S.legacy.fits x = S.fits x := rfl

/-- `k` bounds the nesting of sub-expressions (`(`, `not`, and the innermost filter count one level each) -/
inductive G (S : Skel τ α) (sep : τ → Prop) : Nat → Bool → Nat → List τ → Ast α → Prop
  /-- a field filter: any token sequence the atom parser turns into the node `a`, whatever (separated) follows -/
  | atom {top : Bool} {k : Nat} {t : τ} {ts : List τ} {a : Ast α} :
      1 ≤ k → S.kind t ≠ .lp → S.kind t ≠ .not → (S.kind t = .star → top = false) → a.NoNand →
      (∀ rest, Follow sep rest → S.atom (t :: ts ++ rest) = .ok (a, rest)) → G S sep 2 top k (t :: ts) a
  | star {k : Nat} {t : τ} : 1 ≤ k → S.kind t = .star → G S sep 2 true k [t] (.leaf S.star)
  | paren {top : Bool} {k k' : Nat} {tl tr : τ} {ts : List τ} {e : Ast α} :
      k' + 1 ≤ k → S.kind tl = .lp → S.kind tr = .rp → sep tr → G S sep 0 false k' ts e →
      G S sep 2 top k (tl :: ts ++ [tr]) e
  | not {top : Bool} {k k' : Nat} {t : τ} {ts : List τ} {e : Ast α} :
      k' + 1 ≤ k → S.kind t = .not → G S sep 2 top k' ts e → G S sep 2 top k (t :: ts) (.not e)
  | up1 {top : Bool} {k : Nat} {ts : List τ} {e : Ast α} : G S sep 2 top k ts e → G S sep 1 top k ts e
  | and {top : Bool} {k : Nat} {t : τ} {ts1 ts2 : List τ} {e1 e2 : Ast α} :
      G S sep 1 top k ts1 e1 → S.kind t = .and → sep t → G S sep 2 top k ts2 e2 →
      G S sep 1 top k (ts1 ++ t :: ts2) (.bin .and e1 e2)
  | up0 {top : Bool} {k : Nat} {ts : List τ} {e : Ast α} : G S sep 1 top k ts e → G S sep 0 top k ts e
  | or {top : Bool} {k : Nat} {t : τ} {ts1 ts2 : List τ} {e1 e2 : Ast α} :
      G S sep 0 top k ts1 e1 → S.kind t = .or → sep t → G S sep 1 top k ts2 e2 →
      G S sep 0 top k (ts1 ++ t :: ts2) (.bin .or e1 e2)

theorem G.noNand {S : Skel τ α} {sep : τ → Prop} {lvl k : Nat} {top : Bool} {ts : List τ} {e : Ast α}
    (h : G S sep lvl top k ts e) : e.NoNand := by
  induction h with
  | atom _ _ _ _ ha _ => exact ha
  | star _ _ => trivial
  | paren _ _ _ _ _ ih => exact ih
  | not _ _ _ ih => exact ih
  | up1 _ ih => exact ih
  | and _ _ _ _ ih1 ih2 => exact ⟨by decide, ih1, ih2⟩
  | up0 _ ih => exact ih
  | or _ _ _ _ ih1 ih2 => exact ⟨by decide, ih1, ih2⟩

theorem G.one_le {S : Skel τ α} {sep : τ → Prop} {lvl k : Nat} {top : Bool} {ts : List τ} {e : Ast α}
    (h : G S sep lvl top k ts e) : 1 ≤ k := by
  induction h with
  | atom h _ _ _ _ _ => exact h
  | star h _ => exact h
  | paren h _ _ _ _ _ => omega
  | not h _ _ _ => omega
  | up1 _ ih => exact ih
  | and _ _ _ _ ih1 _ => exact ih1
  | up0 _ ih => exact ih
  | or _ _ _ _ ih1 _ => exact ih1

/-- weakening of the nesting bound -/
theorem G.mono {S : Skel τ α} {sep : τ → Prop} {lvl k : Nat} {top : Bool} {ts : List τ} {e : Ast α}
    (h : G S sep lvl top k ts e) : ∀ {k' : Nat}, k ≤ k' → G S sep lvl top k' ts e := by
  induction h with
  | atom h1 h2 h3 h4 h5 h6 => intro k' hk; exact .atom (by omega) h2 h3 h4 h5 h6
  | star h1 h2 => intro k' hk; exact .star (by omega) h2
  | paren h1 h2 h3 h4 h5 _ => intro k' hk; exact .paren (by omega) h2 h3 h4 h5
  | not h1 h2 h3 _ => intro k' hk; exact .not (by omega) h2 h3
  | up1 _ ih => intro k' hk; exact .up1 (ih hk)
  | and _ h2 h3 _ ih1 ih2 => intro k' hk; exact .and (ih1 hk) h2 h3 (ih2 hk)
  | up0 _ ih => intro k' hk; exact .up0 (ih hk)
  | or _ h2 h3 _ ih1 ih2 => intro k' hk; exact .or (ih1 hk) h2 h3 (ih2 hk)

/-- `sub` followed by the loop: the state of `parseSeqQLFilter` when it starts a new AND chain with `res` pending -/
def sqStart (S : Skel τ α) (f : Nat) (res : Option (Ast α)) (toks : List τ) (d n : Nat) : PRes (Ast α × List τ) :=
  (sqSub S f toks d n).bind fun p => sqLoop S f res p.1 p.2 d n

/-- where the loop stops successfully at depth `d` -/
def Stop (S : Skel τ α) (d : Nat) (rest : List τ) : Prop :=
  rest = [] ∨ ∃ t r, rest = t :: r ∧ (S.kind t = .pipe ∨ (S.kind t = .rp ∧ d > 0))

theorem sqLoop_stop (S : Skel τ α) (f : Nat) (res : Option (Ast α)) (cur : Ast α) (rest : List τ) (d n : Nat)
    (h : Stop S d rest) : sqLoop S (f+1) res cur rest d n = .ok (joinOr res cur, rest) := by
  rcases h with rfl | ⟨t, r, rfl, hk | ⟨hk, hd⟩⟩
  · simp [sqLoop]
  · simp [sqLoop, hk]
  · simp [sqLoop, hk, hd]

/-- the statement proved by induction over `G`, per level -/
def Motive (S : Skel τ α) (sep : τ → Prop) (lvl : Nat) (top : Bool) (k : Nat) (ts : List τ) (e : Ast α) : Prop :=
  match lvl with
  | 2 => ∀ rest d f n, (top = true ↔ d = 0) → Follow sep rest → S.fits (n + k) → 2 * (ts ++ rest).length + 1 ≤ f →
            sqSub S f (ts ++ rest) d n = .ok (e, rest)
  | 1 => ∀ res rest d f n, (top = true ↔ d = 0) → Follow sep rest → S.fits (n + k) → (∀ x, res = some x → x.NoNand) →
            2 * (ts ++ rest).length + 1 ≤ f →
            sqStart S f res (ts ++ rest) d n = sqLoop S f res e rest d n
  | 0 => ∀ rest d f n, (top = true ↔ d = 0) → Follow sep rest → S.fits (n + k) → 2 * (ts ++ rest).length + 1 ≤ f →
            ∃ res cur, joinOr res cur = e ∧ (∀ x, res = some x → x.NoNand) ∧ cur.NoNand ∧
              sqStart S f none (ts ++ rest) d n = sqLoop S f res cur rest d n
  | _ => True

theorem G.motive {S : Skel τ α} (hS : S.Good) {sep : τ → Prop} {lvl k : Nat} {top : Bool} {ts : List τ} {e : Ast α}
    (h : G S sep lvl top k ts e) : Motive S sep lvl top k ts e := by
  induction h with
  | @atom top k t ts a hk1 h1 h2 h3 _ h4 =>
    intro rest d f n htop hfol hfit hf
    obtain ⟨f, rfl⟩ : ∃ f', f = f' + 1 := ⟨f - 1, by omega⟩
    have hstar : ¬ (S.kind t = .star ∧ d = 0) := by
      rintro ⟨hk, hd⟩
      have := h3 hk
      rw [this] at htop
      exact absurd (htop.2 hd) (by simp)
    have hdeep := S.not_tooDeep (S.fits_mono (by omega) hfit : S.fits (n + 1))
    simp only [List.cons_append, sqSub, hdeep, Bool.false_eq_true, hstar, h1, h2, if_false]
    exact h4 rest hfol
  | @star k t hk1 hk =>
    intro rest d f n htop hfol hfit hf
    obtain ⟨f, rfl⟩ : ∃ f', f = f' + 1 := ⟨f - 1, by omega⟩
    have hd : d = 0 := htop.1 rfl
    have hdeep := S.not_tooDeep (S.fits_mono (by omega) hfit : S.fits (n + 1))
    simp [sqSub, hk, hd, hdeep]
  | @paren top k k' tl tr ts e hkk hl hr hsep hg ih =>
    intro rest d f n htop hfol hfit hf
    simp only [List.cons_append, List.append_assoc, List.length_cons, List.length_append] at hf
    obtain ⟨f, rfl⟩ : ∃ f', f = f' + 1 := ⟨f - 1, by omega⟩
    have hdeep := S.not_tooDeep (S.fits_mono (by omega) hfit : S.fits (n + 1))
    simp only [List.cons_append, List.append_assoc, List.nil_append, sqSub, hl, hdeep]
    simp only [Bool.false_eq_true, reduceCtorEq, false_and, if_false, if_true]
    -- inner filter at depth d+1
    obtain ⟨f, rfl⟩ : ∃ f', f = f' + 1 := ⟨f - 1, by omega⟩
    have hfol' : Follow sep (tr :: rest) := Or.inr ⟨tr, rest, rfl, hsep⟩
    obtain ⟨res, cur, hj, hres, hcur, heq⟩ := ih (tr :: rest) (d+1) f (n+1) (by simp) hfol'
      (S.fits_mono (by omega) hfit)
      (by simp only [List.length_append, List.length_cons, List.length_nil]; omega)
    have hfil : sqFilter S (f+1) (ts ++ (tr :: rest)) (d+1) (n+1) = sqStart S f none (ts ++ (tr :: rest)) (d+1) (n+1) := by
      simp [sqFilter, sqStart]
    rw [hfil, heq]
    obtain ⟨f, rfl⟩ : ∃ f', f = f' + 1 := ⟨f - 1, by
      simp only [List.length_append, List.length_cons, List.length_nil] at hf; omega⟩
    rw [sqLoop_stop S f res cur (tr :: rest) (d+1) (n+1) (Or.inr ⟨tr, rest, rfl, Or.inr ⟨hr, by omega⟩⟩)]
    simp [hr, hj]
  | @not top k k' t ts e hkk hk hg ih =>
    intro rest d f n htop hfol hfit hf
    simp only [List.cons_append, List.length_cons] at hf
    obtain ⟨f, rfl⟩ : ∃ f', f = f' + 1 := ⟨f - 1, by omega⟩
    have hdeep := S.not_tooDeep (S.fits_mono (by omega) hfit : S.fits (n + 1))
    simp only [List.cons_append, sqSub, hk, hdeep]
    simp only [Bool.false_eq_true, reduceCtorEq, false_and, if_false, if_true]
    rw [ih rest d f (n+1) htop hfol (S.fits_mono (by omega) hfit) (by omega)]
    rfl
  | @up1 top k ts e hg ih =>
    intro res rest d f n htop hfol hfit hres hf
    simp only [sqStart]
    rw [ih rest d f n htop hfol hfit hf]
    rfl
  | @and top k t ts1 ts2 e1 e2 hg1 hk hsep hg2 ih1 ih2 =>
    intro res rest d f n htop hfol hfit hres hf
    have hlen : (ts1 ++ t :: ts2 ++ rest).length = ts1.length + (ts2.length + rest.length + 1) := by
      simp only [List.length_append, List.length_cons]; omega
    rw [hlen] at hf
    have e : ts1 ++ t :: ts2 ++ rest = ts1 ++ (t :: (ts2 ++ rest)) := by simp
    rw [e, ih1 res (t :: (ts2 ++ rest)) d f n htop (Or.inr ⟨t, _, rfl, hsep⟩) hfit hres
      (by simp only [List.length_append, List.length_cons]; omega)]
    obtain ⟨f, rfl⟩ : ∃ f', f = f' + 1 := ⟨f - 1, by omega⟩
    have h2 := ih2 rest d f n htop hfol hfit (by simp only [List.length_append]; omega)
    simp only [sqLoop, hk, h2, PRes.bind_ok]
    exact sqLoop_indep S hS (f := f) (g := f + 1) res _ rest d n hres (show (Ast.bin .and e1 e2).NoNand from ⟨by decide, hg1.noNand, hg2.noNand⟩) (by omega) (by omega)
  | @up0 top k ts e hg ih =>
    intro rest d f n htop hfol hfit hf
    exact ⟨none, e, rfl, by simp, hg.noNand, ih none rest d f n htop hfol hfit (by simp) hf⟩
  | @or top k t ts1 ts2 e1 e2 hg1 hk hsep hg2 ih1 ih2 =>
    intro rest d f n htop hfol hfit hf
    have hlen : (ts1 ++ t :: ts2 ++ rest).length = ts1.length + (ts2.length + rest.length + 1) := by
      simp only [List.length_append, List.length_cons]; omega
    rw [hlen] at hf
    have e : ts1 ++ t :: ts2 ++ rest = ts1 ++ (t :: (ts2 ++ rest)) := by simp
    obtain ⟨res, cur, hj, hres, hcur, heq⟩ := ih1 (t :: (ts2 ++ rest)) d f n htop (Or.inr ⟨t, _, rfl, hsep⟩) hfit
      (by simp only [List.length_append, List.length_cons]; omega)
    refine ⟨some e1, e2, rfl, ?_, hg2.noNand, ?_⟩
    · intro x hx; cases hx; exact hg1.noNand
    rw [e, heq]
    obtain ⟨f, rfl⟩ : ∃ f', f = f' + 1 := ⟨f - 1, by omega⟩
    have h2 := ih2 (some (joinOr res cur)) rest d f n htop hfol hfit
      (by intro x hx; cases hx; rw [hj]; exact hg1.noNand) (by simp only [List.length_append]; omega)
    simp only [sqLoop, hk]
    change sqStart S f (some (joinOr res cur)) (ts2 ++ rest) d n = _
    rw [h2, hj]
    exact sqLoop_indep S hS (f := f) (g := f + 1) (some e1) _ rest d n (by intro x hx; cases hx; exact hg1.noNand) hg2.noNand (by omega) (by omega)

/-- **Completeness of `parseSeqQLFilter` w.r.t. the reference grammar**: a written OR-level expression (whose nesting
fits under the limit) followed by a stopper (`end`, `|`, or `)` inside parentheses) is parsed into exactly the tree
it denotes, and the stopper is left. -/
theorem sqFilter_complete {S : Skel τ α} (hS : S.Good) {sep : τ → Prop} {top : Bool} {k : Nat} {ts : List τ} {e : Ast α}
    (h : G S sep 0 top k ts e) (rest : List τ) (d f n : Nat) (htop : top = true ↔ d = 0)
    (hfol : Follow sep rest) (hstop : Stop S d rest) (hfit : S.fits (n + k)) (hf : 2 * (ts ++ rest).length + 2 ≤ f) :
    sqFilter S f (ts ++ rest) d n = .ok (e, rest) := by
  obtain ⟨f, rfl⟩ : ∃ f', f = f' + 1 := ⟨f - 1, by omega⟩
  obtain ⟨res, cur, hj, _, _, heq⟩ := h.motive hS rest d f n htop hfol hfit (by omega)
  have : sqFilter S (f+1) (ts ++ rest) d n = sqStart S f none (ts ++ rest) d n := by simp [sqFilter, sqStart]
  rw [this, heq]
  obtain ⟨f, rfl⟩ : ∃ f', f = f' + 1 := ⟨f - 1, by omega⟩
  rw [sqLoop_stop S f res cur rest d n hstop, hj]

end SV.Parser
