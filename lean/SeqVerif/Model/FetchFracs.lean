import SeqVerif.Model.FetchDocsSpec
/-!
# C04 - the two real fractions seen through `Frac`: sealed (ID table + position table) and active (position map)
-/
namespace SV.Fetch

variable {D : Type}

/-- position of `id` in a sealed fraction: the entry of its LID, `DocPosNotFound` when the table lacks the ID -/
def sealedPosOf (t : List ID) (pos : List Nat) (id : ID) : Nat :=
  if lidOf t id = 0 then notFound else pos.getD (lidOf t id) notFound

theorem sealedGetDocPos_spec (t : List ID) (pos : List Nat) (hd : Desc t) (hne : 2 ≤ t.length) (ids : List ID) :
    sealedGetDocPos t pos ids = some (ids.map (sealedPosOf t pos)) := by
  unfold sealedGetDocPos getDocPosByLIDs
  rw [findLIDsFixed_spec t hd hne ids, Option.map_some, List.map_map]
  rfl

def sealedFrac (name : Nat) (contains : Nat → Bool) (intersects : Nat → Nat → Bool) (t : List ID) (pos : List Nat)
    (readDoc : Nat → Nat → D) : Frac D :=
  ⟨name, contains, intersects, sealedGetDocPos t pos, readDoc⟩

def activeFrac (name : Nat) (contains : Nat → Bool) (intersects : Nat → Nat → Bool) (m : List (ID × Nat))
    (readDoc : Nat → Nat → D) : Frac D :=
  ⟨name, contains, intersects, activeGetDocPos m, readDoc⟩

/-- a sealed fraction with a strictly descending ID table (system ID first) whose time-range filters accept every
stored ID is well-formed, for any `P` that assigns it its table lookup -/
theorem sealedFrac_wf (bits : Nat) (P : Frac D → ID → Nat) (name : Nat) (contains : Nat → Bool)
    (intersects : Nat → Nat → Bool) (t : List ID) (pos : List Nat) (readDoc : Nat → Nat → D)
    (hd : Desc t) (hne : 2 ≤ t.length)
    (hP : P (sealedFrac name contains intersects t pos readDoc) = sealedPosOf t pos)
    (hc : ∀ id, lidOf t id ≠ 0 → contains id.mid = true)
    (hi : ∀ id lo hi, lidOf t id ≠ 0 → lo ≤ id.mid → id.mid ≤ hi → intersects lo hi = true) :
    FracWF bits P (sealedFrac name contains intersects t pos readDoc) := by
  refine ⟨fun ids => ?_, fun id hp => ?_, fun id lo hi' hp h1 h2 => ?_⟩
  · rw [hP]; exact sealedGetDocPos_spec t pos hd hne ids
  · rw [hP] at hp
    apply hc
    intro h0; apply hp; simp [sealedPosOf, h0]
  · rw [hP] at hp
    apply hi id lo hi' _ h1 h2
    intro h0; apply hp; simp [sealedPosOf, h0]

theorem activeFrac_wf (bits : Nat) (P : Frac D → ID → Nat) (name : Nat) (contains : Nat → Bool)
    (intersects : Nat → Nat → Bool) (m : List (ID × Nat)) (readDoc : Nat → Nat → D)
    (hP : P (activeFrac name contains intersects m readDoc) = mapGet m)
    (hc : ∀ id, mapGet m id ≠ notFound → contains id.mid = true)
    (hi : ∀ id lo hi, mapGet m id ≠ notFound → lo ≤ id.mid → id.mid ≤ hi → intersects lo hi = true) :
    FracWF bits P (activeFrac name contains intersects m readDoc) := by
  refine ⟨fun ids => ?_, fun id hp => ?_, fun id lo hi' hp h1 h2 => ?_⟩
  · rw [hP]; rfl
  · rw [hP] at hp; exact hc id hp
  · rw [hP] at hp; exact hi id lo hi' hp h1 h2

theorem lidOf_mem (t : List ID) (id : ID) (h : lidOf t id ≠ 0) : id ∈ t := by
  unfold lidOf at h
  dsimp only at h
  by_cases hc : 1 ≤ t.idxOf id ∧ t.idxOf id < t.length
  · exact List.idxOf_lt_length_iff.mp hc.2
  · rw [if_neg hc] at h; exact absurd rfl h

theorem mapGet_mem (m : List (ID × Nat)) (id : ID) (h : mapGet m id ≠ notFound) : id ∈ m.map (·.1) := by
  unfold mapGet at h
  cases hf : m.find? (fun e => e.1 = id) with
  | none => rw [hf] at h; exact absurd rfl h
  | some e =>
    have h1 := List.mem_of_find?_eq_some hf
    have h2 := List.find?_some hf
    simp only [decide_eq_true_eq] at h2
    exact List.mem_map.mpr ⟨e, h1, h2⟩

/-! ## `sealedIDsIndex.LessOrEqual` with its block short cuts -/

/-- `LessOrEqual(lid, id)` as written: `cap = IDsPerBlock`, `minBlock = IDsTable.MinBlockIDs` -/
def lessOrEqualBlk (cap : Nat) (minBlock : List ID) (t : List ID) (lid : Nat) (id : ID) : Bool :=
  if lid ≥ t.length then true
  else
    let b := lid / cap
    if (minBlock.getD b default).le id = false then false
    else if b > 0 ∧ (minBlock.getD (b - 1) default).le id = true then true
    else
      let c := t.getD lid default
      if c.mid = id.mid then (if id.rid = 18446744073709551615 then true else decide (c.rid ≤ id.rid))
      else decide (c.mid < id.mid)

/-- `MinBlockIDs[b]` is the last (smallest) ID of block `b` -/
def MinBlocksOK (cap : Nat) (minBlock : List ID) (t : List ID) : Prop :=
  ∀ b, b * cap < t.length → minBlock.getD b default = t.getD (min ((b + 1) * cap - 1) (t.length - 1)) default

theorem getD_eq_getElem' (l : List ID) (i : Nat) (h : i < l.length) : l.getD i default = l[i] :=
  (List.getElem_eq_getD default).symm

theorem lessOrEqualBlk_eq (cap : Nat) (minBlock t : List ID) (hcap : 0 < cap) (hd : Desc t)
    (hmin : MinBlocksOK cap minBlock t) (hrid : ∀ x, x ∈ t → x.rid ≤ 18446744073709551615) (lid : Nat) (id : ID) :
    lessOrEqualBlk cap minBlock t lid id = lessOrEqual t lid id := by
  unfold lessOrEqualBlk lessOrEqual
  by_cases hl : lid < t.length
  · rw [if_neg (by omega), dif_pos hl]
    dsimp only
    have hb : lid / cap * cap < t.length := Nat.lt_of_le_of_lt (Nat.div_mul_le_self lid cap) hl
    have hlast := hmin (lid / cap) hb
    -- index of the block's last entry
    have hge : lid ≤ min ((lid / cap + 1) * cap - 1) (t.length - 1) := by
      have : lid < (lid / cap + 1) * cap := by
        rw [Nat.add_mul, Nat.one_mul]; exact Nat.lt_div_mul_add hcap
      omega
    have hidx : min ((lid / cap + 1) * cap - 1) (t.length - 1) < t.length := by omega
    rw [getD_eq_getElem' t _ hidx] at hlast
    rw [getD_eq_getElem' t _ hl]
    by_cases h1 : (minBlock.getD (lid / cap) default).le id = false
    · rw [if_pos h1]
      rw [hlast, ID.not_le_iff_lt] at h1
      symm
      rw [ID.not_le_iff_lt]
      by_cases he : lid = min ((lid / cap + 1) * cap - 1) (t.length - 1)
      · have : t[lid] = t[min ((lid / cap + 1) * cap - 1) (t.length - 1)] := by congr
        rw [this]; exact h1
      · exact ID.lt_trans h1 (hd.getElem_lt (by omega) hidx)
    · rw [if_neg h1]
      by_cases h2 : lid / cap > 0 ∧ (minBlock.getD (lid / cap - 1) default).le id = true
      · rw [if_pos h2]
        have hb' : (lid / cap - 1) * cap < t.length := by
          have : (lid / cap - 1) * cap ≤ lid / cap * cap := Nat.mul_le_mul_right _ (by omega)
          omega
        have hprev := hmin (lid / cap - 1) hb'
        have hsub : lid / cap - 1 + 1 = lid / cap := by omega
        rw [hsub] at hprev
        have hlt : lid / cap * cap - 1 < lid := by
          have := Nat.div_mul_le_self lid cap
          have : 0 < lid / cap * cap := Nat.mul_pos h2.1 hcap
          omega
        have hidx' : min (lid / cap * cap - 1) (t.length - 1) < lid := by omega
        rw [getD_eq_getElem' t _ (by omega)] at hprev
        rw [hprev] at h2
        symm
        exact ID.le_trans (ID.le_of_lt (hd.getElem_lt hidx' hl)) h2.2
      · rw [if_neg h2]
        have hr := hrid t[lid] (List.getElem_mem hl)
        unfold ID.le
        by_cases hm : t[lid].mid = id.mid
        · rw [if_pos hm, if_pos hm]
          by_cases hmax : id.rid = 18446744073709551615
          · rw [if_pos hmax]; symm; simp; omega
          · rw [if_neg hmax]
        · rw [if_neg hm, if_neg hm]
  · rw [if_pos (by omega), dif_neg hl]

/-! ## `getDocPosByLIDs` reads the position blocks -/

/-- `positions = GetParamsBlock(lid / cap); positions[lid - (lid / cap) * cap]` -/
def posByBlocks (cap : Nat) (blocks : List (List Nat)) (lid : Nat) : Nat :=
  (blocks.getD (lid / cap) []).getD (lid - lid / cap * cap) notFound

/-- cutting the flat table into blocks of `cap` entries -/
def chunkN (cap : Nat) : Nat → List Nat → List (List Nat)
  | 0, _ => []
  | _ + 1, [] => []
  | fuel + 1, x :: xs => (x :: xs).take cap :: chunkN cap fuel ((x :: xs).drop cap)

theorem posByBlocks_chunk (cap : Nat) (hcap : 0 < cap) (fuel : Nat) (pos : List Nat) (hf : pos.length ≤ fuel)
    (lid : Nat) : posByBlocks cap (chunkN cap fuel pos) lid = pos.getD lid notFound := by
  induction fuel generalizing pos lid with
  | zero =>
    have : pos = [] := List.eq_nil_of_length_eq_zero (by omega)
    subst this; simp [posByBlocks, chunkN]
  | succ fuel ih =>
    cases pos with
    | nil => simp [posByBlocks, chunkN]
    | cons x xs =>
      unfold chunkN
      by_cases hl : lid < cap
      · have hdiv : lid / cap = 0 := Nat.div_eq_of_lt hl
        simp only [posByBlocks, hdiv, List.getD_cons_zero, Nat.zero_mul, Nat.sub_zero]
        rw [List.getD_eq_getElem?_getD, List.getD_eq_getElem?_getD, List.getElem?_take_of_lt hl]
      · have hge : cap ≤ lid := Nat.le_of_not_lt hl
        have hdiv : lid / cap = (lid - cap) / cap + 1 := by
          rw [← Nat.div_eq_sub_div hcap hge]
        have hlen : ((x :: xs).drop cap).length ≤ fuel := by
          simp only [List.length_drop, List.length_cons] at *; omega
        have := ih ((x :: xs).drop cap) hlen (lid - cap)
        unfold posByBlocks at this ⊢
        rw [hdiv, List.getD_cons_succ]
        have hsub : lid - ((lid - cap) / cap + 1) * cap = lid - cap - (lid - cap) / cap * cap := by
          rw [Nat.add_mul, Nat.one_mul]; omega
        rw [hsub, this]
        rw [List.getD_eq_getElem?_getD, List.getD_eq_getElem?_getD, List.getElem?_drop]
        congr 2; omega

end SV.Fetch
