import SeqVerif.Model.MergeQPR
/-!
# Model of `fracmanager.Searcher.SearchDocs` and of the proxy's merge + pagination (C05)

  * `Frac`                : what `SearchDocs` sees of a fraction: `Info().DocsTotal/From/To` and the answer of its
                            `DataProvider.Search` - here *specified* (`fracSearch`) from the keys `docs` of the
                            fraction's documents that match the query inside the request range (assumption: each
                            fraction answers as C02/C03 state; the system oracle runs real fractions).
  * `isIntersecting`      : `frac.Info.IsIntersecting` without the distribution refinement (C14's subject)
  * `filterInRange`, `sortFracs`, `prepareFracs` : `List.FilterInRange`, `List.Sort`, `Searcher.prepareFracs`
  * `calcEnsured`         : `calcEnsuredIDsCount` (both `sort.Search` forms, through `SV.searchGo`)
  * `searchLoop`, `searchDocs` : the `for len(remainingFracs) > 0 && (scanAll || params.Limit > 0)` loop
  * `paginate`            : `Ingestor.paginateIDs`
  * `proxySearch`         : `Ingestor.Search` = `MergeQPRs` over one answer per shard, then `paginateIDs`
-/
namespace SV.Merge

structure Frac where
  docsTotal : Nat
  from_ : Nat
  to_ : Nat
  /-- keys of the fraction's documents matching the query in the request range (duplicates allowed) -/
  docs : List Nat
deriving Repr, DecidableEq

/-- the request parameters the loop reads (`processor.SearchParams` + `SearcherCfg`) -/
structure Cfg where
  /-- `params.Order.IsDesc()` -/
  desc : Bool
  withTotal : Bool
  /-- `params.HistInterval` -/
  hi : Nat
  /-- `len(params.AggQ) > 0` -/
  hasAgg : Bool
  /-- `cfg.FractionsPerIteration` -/
  perIter : Nat
  /-- `cfg.MaxFractionHits` -/
  maxHits : Nat
deriving Repr

/-- `SearchParams.IsScanAllRequest` -/
def Cfg.scanAll (c : Cfg) : Bool := c.withTotal || c.hasAgg || decide (c.hi > 0)

/-- `histogram[bucket]++` for every matching document -/
def histOf (hi : Nat) (docs : List Nat) : Hist := docs.foldl (fun h d => Hist.upd h (bucket hi d) (· + 1)) []

/-- the answer of one fraction (`IndexSearch`): its first `limit` distinct matching IDs in the requested order, the
number of matching documents when `WithTotal`, the histogram when `HistInterval > 0` -/
def fracSearch (c : Cfg) (f : Frac) (limit : Nat) : QPR :=
  { ids := (sd c.desc f.docs).take limit
    total := if c.withTotal then f.docs.length else 0
    hist := if c.hi > 0 then some (histOf c.hi f.docs) else none }

/-- `Info.IsIntersecting(from, to)` with `Distribution == nil` -/
def isIntersecting (f : Frac) (from_ to_ : Nat) : Bool :=
  if f.docsTotal = 0 then false
  else if to_ < f.from_ ∨ f.to_ < from_ then false
  else true

/-- `List.FilterInRange` -/
def filterInRange (fs : List Frac) (from_ to_ : Nat) : List Frac := fs.filter (isIntersecting · from_ to_)

/-- the comparison of `List.Sort`: `To` descending for desc, `From` ascending for asc -/
def fracBefore (desc : Bool) (a b : Frac) : Bool := if desc then decide (a.to_ > b.to_) else decide (a.from_ < b.from_)

def insertFrac (desc : Bool) (a : Frac) : List Frac → List Frac
  | [] => [a]
  | b :: bs => if fracBefore desc b a then b :: insertFrac desc a bs else a :: b :: bs

/-- `List.Sort(order)`; `sort.Slice` is not stable, so the relative order of fractions with equal keys is
unspecified by the code - the theorems hold for every order sorted by the key (`FracsSorted`) -/
def sortFracs (desc : Bool) : List Frac → List Frac
  | [] => []
  | a :: as => insertFrac desc a (sortFracs desc as)

/-- `Searcher.prepareFracs`; `none` = `ErrTooManyFractionsHit` -/
def prepareFracs (c : Cfg) (fs : List Frac) (from_ to_ : Nat) : Option (List Frac) :=
  if c.maxHits > 0 ∧ (filterInRange fs from_ to_).length > c.maxHits then none
  else some (sortFracs c.desc (filterInRange fs from_ to_))

/-- `calcEnsuredIDsCount(ids, remainingFracs, order)` -/
def calcEnsured (desc : Bool) (ids : List Nat) (rest : List Frac) : Nat :=
  match rest with
  | [] => ids.length
  | f :: _ =>
    if desc then searchGo (fun i => decide (midOf (ids.getD i 0) ≤ f.to_)) 0 ids.length
    else searchGo (fun i => decide (midOf (ids.getD i 0) ≥ f.from_)) 0 ids.length

/-- the loop of `SearchDocs`; `n + 1` = `fracsChunkSize`, `orig` = `origLimit`, `limit` = `params.Limit` -/
def searchLoop (c : Cfg) (n orig : Nat) (total : QPR) (rest : List Frac) (limit : Nat) : QPR :=
  if rest = [] ∨ ¬ (c.scanAll = true ∨ limit > 0) then total
  else
    searchLoop c n orig
      (mergeQPRs c.desc total ((rest.take (n + 1)).map (fracSearch c · limit)) orig c.hi)
      (rest.drop (n + 1))
      (orig - calcEnsured c.desc
        (mergeQPRs c.desc total ((rest.take (n + 1)).map (fracSearch c · limit)) orig c.hi).ids (rest.drop (n + 1)))
termination_by rest.length
decreasing_by
  simp only [List.length_drop]
  have : rest.length ≠ 0 := by
    intro h; simp_all
  omega

/-- `total := &seq.QPR{Histogram: make(map), ...}` -/
def emptyQPR : QPR := { ids := [], total := 0, hist := some [] }

/-- `Searcher.SearchDocs(fracs, params)`: `none` = error from `prepareFracs`.  `fracsChunkSize` is
`FractionsPerIteration`, or the number of fractions when that is 0; it is 0 only when there is no fraction and then
the loop body never runs. -/
def searchDocs (c : Cfg) (fs : List Frac) (from_ to_ limit : Nat) : Option QPR :=
  match prepareFracs c fs from_ to_ with
  | none => none
  | some rem =>
    match (if c.perIter = 0 then rem.length else c.perIter) with
    | 0 => some emptyQPR
    | n + 1 => some (searchLoop c n limit emptyQPR rem limit)

/-- `Ingestor.paginateIDs` -/
def paginate (ids : List Nat) (offset size : Nat) : List Nat × Nat :=
  if ((if ids.length > offset then ids.drop offset else []).length > size) then
    ((if ids.length > offset then ids.drop offset else []).take size, size)
  else
    ((if ids.length > offset then ids.drop offset else []), (if ids.length > offset then ids.drop offset else []).length)

/-- the merge + pagination part of `Ingestor.Search`: one QPR per shard (the answer of its first healthy replica),
`MergeQPRs(qpr, qprs, Offset+Size, Interval, Order)`, then `paginateIDs` -/
def proxyMerge (desc : Bool) (shardAnswers : List QPR) (offset size hi : Nat) : QPR :=
  { mergeQPRs desc emptyQPR shardAnswers (offset + size) hi with
    ids := (paginate (mergeQPRs desc emptyQPR shardAnswers (offset + size) hi).ids offset size).1 }

end SV.Merge
