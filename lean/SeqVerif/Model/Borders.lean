import SeqVerif.Base.Search
import SeqVerif.Spec.StoreLemmas
/-!
# frac/processor/search.go: getLIDsBorders  (C02)

The ids table of a fraction as `IndexSearch` sees it through the `idsIndex` interface:
`tbl[i]` is the ID of LID `i+1` (LID 0 is the unused system entry, so `Len() = tbl.length + 1`),
sorted descending by (mid, rid); equal IDs may repeat (nested documents, re-delivered bulks).
-/
namespace SV.Borders
open SV SV.Spec

/-! ## the table and the interface functions -/

def maxU64 : Nat := 18446744073709551615

/-- `GetMID/GetRID`: the ID stored at a LID (1-based) -/
def idAt (tbl : List ID) (lid : Nat) : ID := tbl.getD (lid - 1) ⟨0, 0⟩

/-- `idsIndex.LessOrEqual(lid, id)`: `seqID(lid) <= id` -/
def lessOrEqual (tbl : List ID) (lid : Nat) (id : ID) : Bool := ID.le (idAt tbl lid) id

/-- `getLIDsBorders(minMID, maxMID, idsIndex)`, statement by statement (`Len() == 0` cannot happen for a table
with the system entry; `to = Len()-1 = tbl.length`) -/
def getLIDsBorders (minMID maxMID : Nat) (tbl : List ID) : Nat × Nat :=
  let minID : ID := if minMID > 0 then ⟨minMID - 1, maxU64⟩ else ⟨minMID, 0⟩
  let maxID : ID := ⟨maxMID, maxU64⟩
  let to := tbl.length
  let minLID := binSearchInRange 1 to (fun lid => lessOrEqual tbl lid maxID)
  let maxLID := binSearchInRange minLID to (fun lid => lessOrEqual tbl lid minID) - 1
  (minLID, maxLID)

/-! ## specification of `util.BinSearchInRange` for a monotone predicate -/

theorem binSearchInRange_spec (lo hi : Nat) (f : Nat → Bool)
    (hm : ∀ a b, lo ≤ a → a ≤ b → b ≤ hi → f a = true → f b = true) :
    lo ≤ binSearchInRange lo hi f ∧ binSearchInRange lo hi f ≤ lo + (hi + 1 - lo) ∧
    (∀ k, lo ≤ k → k < binSearchInRange lo hi f → f k = false) ∧
    (∀ k, binSearchInRange lo hi f ≤ k → k ≤ hi → f k = true) := by
  unfold binSearchInRange
  have hb := searchGo_bounds (fun i => f (lo + i)) 0 (hi + 1 - lo) (by omega)
  have hmono : Mono (fun i => f (lo + i)) 0 (hi + 1 - lo) := by
    intro a b _ hab hb' hfa
    exact hm (lo + a) (lo + b) (by omega) (by omega) (by omega) hfa
  have hs := searchGo_spec (fun i => f (lo + i)) 0 (hi + 1 - lo) hmono 0 (hi + 1 - lo) (by omega) (by omega)
    (by omega) (by intro k _ h; omega) (by intro k h1 h2; omega)
  refine ⟨by omega, by omega, ?_, ?_⟩
  · intro k hk1 hk2
    have := hs.1 (k - lo) (by omega) (by omega)
    simpa [show lo + (k - lo) = k by omega] using this
  · intro k hk1 hk2
    have := hs.2 (k - lo) (by omega) (by omega)
    simpa [show lo + (k - lo) = k by omega] using this

/-! ## the table is sorted descending -/

/-- sorted descending by (mid, rid), repetitions allowed -/
abbrev SortedDesc (tbl : List ID) : Prop := tbl.Pairwise (fun a b => ID.le b a = true)

theorem idAt_eq (tbl : List ID) (lid : Nat) (h1 : 1 ≤ lid) (h2 : lid ≤ tbl.length) :
    idAt tbl lid = tbl[lid - 1]'(by omega) := by
  unfold idAt
  simp [List.getD, List.getElem?_eq_getElem (show lid - 1 < tbl.length by omega)]

theorem idAt_mono (tbl : List ID) (hs : SortedDesc tbl) (a b : Nat) (h1 : 1 ≤ a) (hab : a ≤ b)
    (hb : b ≤ tbl.length) : ID.le (idAt tbl b) (idAt tbl a) = true := by
  rw [idAt_eq tbl a h1 (by omega), idAt_eq tbl b (by omega) hb]
  rcases Nat.lt_or_ge a b with h | h
  · exact (List.pairwise_iff_getElem.mp hs) (a - 1) (b - 1) (by omega) (by omega) (by omega)
  · have : a = b := by omega
    subst this
    exact ID.le_refl _

/-- **borders_exact.**  For an ids table sorted descending (ties on mid and even equal IDs included), every
valid LID lies inside the borders exactly when its mid lies inside `[from, to]`.
Side conditions: rids fit in uint64; and, because the code turns `from = 0` into the bound `ID{0,0}` and
treats "≤ ID{0,0}" as "below the window", no stored ID is `{0,0}` when `from = 0`
(see `getLIDsBorders_zero_id_witness`). -/
theorem getLIDsBorders_exact (from_ to : Nat) (tbl : List ID) (hs : SortedDesc tbl)
    (hr : ∀ id ∈ tbl, id.rid ≤ maxU64) (h0 : 0 < from_ ∨ ∀ id ∈ tbl, id ≠ ⟨0, 0⟩)
    (lid : Nat) (h1 : 1 ≤ lid) (h2 : lid ≤ tbl.length) :
    ((getLIDsBorders from_ to tbl).1 ≤ lid ∧ lid ≤ (getLIDsBorders from_ to tbl).2) ↔
      (from_ ≤ (idAt tbl lid).mid ∧ (idAt tbl lid).mid ≤ to) := by
  have hmem : ∀ k, 1 ≤ k → k ≤ tbl.length → idAt tbl k ∈ tbl := by
    intro k hk1 hk2
    rw [idAt_eq tbl k hk1 hk2]
    exact List.getElem_mem _
  -- first predicate: mid ≤ to
  have f1 : ∀ k, 1 ≤ k → k ≤ tbl.length →
      lessOrEqual tbl k ⟨to, maxU64⟩ = decide ((idAt tbl k).mid ≤ to) := by
    intro k hk1 hk2
    exact ID.le_maxRid _ _ _ (hr _ (hmem k hk1 hk2))
  -- second predicate: mid < from
  have f2 : ∀ k, 1 ≤ k → k ≤ tbl.length →
      lessOrEqual tbl k (if from_ > 0 then ⟨from_ - 1, maxU64⟩ else ⟨from_, 0⟩) = decide ((idAt tbl k).mid < from_) := by
    intro k hk1 hk2
    by_cases hf : from_ > 0
    · simp only [hf, if_true]
      unfold lessOrEqual
      rw [ID.le_maxRid _ _ _ (hr _ (hmem k hk1 hk2))]
      simp only [decide_eq_decide]
      omega
    · have hz : from_ = 0 := by omega
      subst hz
      simp only [Nat.lt_irrefl, gt_iff_lt, if_false, Nat.not_lt_zero, decide_false]
      rcases h0 with h0 | h0
      · omega
      · have hne := h0 _ (hmem k hk1 hk2)
        unfold lessOrEqual
        cases hle : ID.le (idAt tbl k) ⟨0, 0⟩ with
        | false => rfl
        | true =>
          exfalso; apply hne
          unfold ID.le at hle
          generalize idAt tbl k = x at *
          cases x
          split at hle <;> simp_all
  have m1 : ∀ a b, 1 ≤ a → a ≤ b → b ≤ tbl.length →
      lessOrEqual tbl a ⟨to, maxU64⟩ = true → lessOrEqual tbl b ⟨to, maxU64⟩ = true := by
    intro a b ha hab hb hfa
    exact ID.le_trans (idAt_mono tbl hs a b ha hab hb) hfa
  have s1 := binSearchInRange_spec 1 tbl.length _ m1
  have m2 : ∀ (lo : Nat) (id : ID), 1 ≤ lo → ∀ a b, lo ≤ a → a ≤ b → b ≤ tbl.length →
      lessOrEqual tbl a id = true → lessOrEqual tbl b id = true := by
    intro lo id hlo a b ha hab hb hfa
    exact ID.le_trans (idAt_mono tbl hs a b (by omega) hab hb) hfa
  unfold getLIDsBorders
  simp only
  generalize hmin : binSearchInRange 1 tbl.length (fun lid => lessOrEqual tbl lid ⟨to, maxU64⟩) = minLID at *
  have s2 := binSearchInRange_spec minLID tbl.length
    (fun lid => lessOrEqual tbl lid (if from_ > 0 then ⟨from_ - 1, maxU64⟩ else ⟨from_, 0⟩)) (m2 minLID _ s1.1)
  generalize hmax : binSearchInRange minLID tbl.length
    (fun lid => lessOrEqual tbl lid (if from_ > 0 then ⟨from_ - 1, maxU64⟩ else ⟨from_, 0⟩)) = r2 at *
  constructor
  · rintro ⟨ha, hb⟩
    have t1 := s1.2.2.2 lid ha h2
    rw [f1 lid h1 h2] at t1
    have t2 := s2.2.2.1 lid ha (by omega)
    rw [f2 lid h1 h2] at t2
    simp at t1 t2
    omega
  · rintro ⟨ha, hb⟩
    have hge : minLID ≤ lid := by
      rcases Nat.lt_or_ge lid minLID with h | h
      · have t := s1.2.2.1 lid h1 h
        rw [f1 lid h1 h2] at t
        simp at t; omega
      · exact h
    refine ⟨hge, ?_⟩
    rcases Nat.lt_or_ge lid r2 with h | h
    · omega
    · have t := s2.2.2.2 lid h h2
      rw [f2 lid h1 h2] at t
      simp at t; omega

theorem binSearchInRange_bounds (lo hi : Nat) (f : Nat → Bool) :
    lo ≤ binSearchInRange lo hi f ∧ binSearchInRange lo hi f ≤ lo + (hi + 1 - lo) := by
  unfold binSearchInRange
  have hb := searchGo_bounds (fun i => f (lo + i)) 0 (hi + 1 - lo) (by omega)
  omega

/-- the borders never start at the system entry and end inside the table -/
theorem getLIDsBorders_range (from_ to : Nat) (tbl : List ID) :
    1 ≤ (getLIDsBorders from_ to tbl).1 ∧ (getLIDsBorders from_ to tbl).2 ≤ tbl.length := by
  unfold getLIDsBorders
  simp only
  have b1 := binSearchInRange_bounds 1 tbl.length (fun lid => lessOrEqual tbl lid ⟨to, maxU64⟩)
  generalize binSearchInRange 1 tbl.length (fun lid => lessOrEqual tbl lid ⟨to, maxU64⟩) = minLID at *
  have b2 := binSearchInRange_bounds minLID tbl.length
    (fun lid => lessOrEqual tbl lid (if from_ > 0 then ⟨from_ - 1, maxU64⟩ else ⟨from_, 0⟩))
  omega

/-- Witness for the side condition: a document with ID `{0,0}` is outside the borders of the window `[0, 5]`. -/
theorem getLIDsBorders_zero_id_witness : getLIDsBorders 0 5 [⟨0, 0⟩] = (1, 0) := by
  simp [getLIDsBorders, binSearchInRange, searchGo, lessOrEqual, idAt, ID.le, maxU64]

end SV.Borders
