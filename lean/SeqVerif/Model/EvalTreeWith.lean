import SeqVerif.Spec.StoreNum
import SeqVerif.Model.ActiveReach
/-!
# C02 for every numeric reading of token values

`EvalTree`, `SearchSpec`, `ActiveIndexProofs` and `ActiveReach` with `Spec.numVal` replaced by a parameter
`num : Bytes → Option Int` (see `Spec/StoreNum.lean`).  Leaf matching enters the model only through `leafTokens`
(the tokens `GetTIDsByTokenExpr` selects), so the parameter threads through `leafTokens → evalLeaf → evalTree →
search`; borders, merge nodes, the result loop and the whole active layer do not mention it and are reused.
The existing definitions are the instances at `numVal` (`*_numVal` lemmas).
-/
namespace SV.EvalTree
open SV SV.Spec SV.Borders

/-- `GetTIDsByTokenExpr` under the reading `num` -/
def leafTokensWith (num : Bytes → Option Int) (idx : Index) (l : Leaf) : List TokenEntry :=
  idx.toks.filter fun t => t.field == l.field && l.valMatchWith num t.val

def evalLeafWith (num : Bytes → Option Int) (idx : Index) (rev : Bool) (lo hi : Nat) (l : Leaf) : List Nat :=
  treeFold rev ((leafTokensWith num idx l).map fun t => narrow rev lo hi t.lids)

def evalTreeWith (num : Bytes → Option Int) (idx : Index) (rev : Bool) (lo hi : Nat) : Query → List Nat
  | .leaf l => evalLeafWith num idx rev lo hi l
  | .and a b => andMerge rev (evalTreeWith num idx rev lo hi a) (evalTreeWith num idx rev lo hi b)
  | .or a b => orMerge rev (evalTreeWith num idx rev lo hi a) (evalTreeWith num idx rev lo hi b)
  | .nand a b => nandMerge rev (evalTreeWith num idx rev lo hi a) (evalTreeWith num idx rev lo hi b)
  | .not a => notNode rev (evalTreeWith num idx rev lo hi a) lo hi

/-- `IndexSearch` (ids and total) under the reading `num` -/
def searchWith (num : Bytes → Option Int) (idx : Index) (q : Query) (from_ to : Nat) (asc : Bool) (limit : Nat)
    (withTotal : Bool) : Result :=
  let b := getLIDsBorders from_ to idx.ids
  let lids := evalTreeWith num idx asc b.1 b.2 q
  let s := iterate idx.ids limit withTotal lids ⟨0, [], ⟨0, 0⟩⟩
  { ids := s.ids, total := if withTotal then s.total else 0 }

/-! ## the existing model is the instance `num = numVal` -/

theorem leafTokensWith_numVal (idx : Index) (l : Leaf) : leafTokensWith numVal idx l = leafTokens idx l := by
  simp only [leafTokensWith, leafTokens, valMatchWith_numVal]

theorem evalTreeWith_numVal (idx : Index) (rev : Bool) (lo hi : Nat) (q : Query) :
    evalTreeWith numVal idx rev lo hi q = evalTree idx rev lo hi q := by
  induction q with
  | leaf l => simp only [evalTreeWith, evalTree, evalLeafWith, evalLeaf, leafTokensWith_numVal]
  | and a b iha ihb => simp only [evalTreeWith, evalTree, iha, ihb]
  | or a b iha ihb => simp only [evalTreeWith, evalTree, iha, ihb]
  | not a iha => simp only [evalTreeWith, evalTree, iha]
  | nand a b iha ihb => simp only [evalTreeWith, evalTree, iha, ihb]

theorem searchWith_numVal (idx : Index) (q : Query) (from_ to : Nat) (asc : Bool) (limit : Nat) (wt : Bool) :
    searchWith numVal idx q from_ to asc limit wt = search idx q from_ to asc limit wt := by
  simp only [searchWith, search, evalTreeWith_numVal]

/-! ## evalTree_denotes for every reading -/

theorem hasLeafWith_docAt (num : Bytes → Option Int) (idx : Index) (lid : Nat) (l : Leaf) :
    (docAt idx lid).hasLeafWith num l = true ↔ ∃ t ∈ leafTokensWith num idx l, lid ∈ t.lids := by
  unfold Doc.hasLeafWith docAt leafTokensWith
  simp only [List.any_map, List.any_eq_true, List.mem_filter, Function.comp]
  constructor
  · rintro ⟨t, ⟨ht, hc⟩, hm⟩
    exact ⟨t, ⟨ht, hm⟩, by simpa using hc⟩
  · rintro ⟨t, ⟨ht, hm⟩, hc⟩
    exact ⟨t, ⟨ht, by simpa using hc⟩, hm⟩

theorem evalLeafWith_denotes (num : Bytes → Option Int) (idx : Index) (hwf : WF idx) (rev : Bool) (lo hi : Nat)
    (l : Leaf) :
    SortedBy rev (evalLeafWith num idx rev lo hi l) ∧
    ∀ v, v ∈ evalLeafWith num idx rev lo hi l ↔ (lo ≤ v ∧ v ≤ hi ∧ (docAt idx v).hasLeafWith num l = true) := by
  unfold evalLeafWith
  constructor
  · apply treeFold_sorted
    intro x hx
    rcases List.mem_map.mp hx with ⟨t, ht, rfl⟩
    exact narrow_sorted rev lo hi _ (hwf.sorted t (List.mem_filter.mp ht).1)
  · intro v
    rw [mem_treeFold, hasLeafWith_docAt]
    constructor
    · rintro ⟨x, hx, hv⟩
      rcases List.mem_map.mp hx with ⟨t, ht, rfl⟩
      have := (mem_narrow rev lo hi _ v).mp hv
      exact ⟨this.2.1, this.2.2, t, ht, this.1⟩
    · rintro ⟨h1, h2, t, ht, hv⟩
      exact ⟨_, List.mem_map.mpr ⟨t, ht, rfl⟩, (mem_narrow rev lo hi _ v).mpr ⟨hv, h1, h2⟩⟩

theorem evalTreeWith_denotes (num : Bytes → Option Int) (idx : Index) (hwf : WF idx) (rev : Bool) (lo hi : Nat)
    (q : Query) :
    SortedBy rev (evalTreeWith num idx rev lo hi q) ∧
    ∀ v, v ∈ evalTreeWith num idx rev lo hi q ↔
      (lo ≤ v ∧ v ≤ hi ∧ docMatchesWith num q (docAt idx v) = true) := by
  induction q with
  | leaf l => exact evalLeafWith_denotes num idx hwf rev lo hi l
  | and a b iha ihb =>
    refine ⟨andMerge_sorted rev _ _ iha.1, fun v => ?_⟩
    simp only [evalTreeWith, docMatchesWith, mem_andMerge rev _ _ iha.1 ihb.1, iha.2, ihb.2, Bool.and_eq_true]
    constructor
    · rintro ⟨⟨h1, h2, h3⟩, _, _, h4⟩; exact ⟨h1, h2, h3, h4⟩
    · rintro ⟨h1, h2, h3, h4⟩; exact ⟨⟨h1, h2, h3⟩, h1, h2, h4⟩
  | or a b iha ihb =>
    refine ⟨orMerge_sorted rev _ _ iha.1 ihb.1, fun v => ?_⟩
    simp only [evalTreeWith, docMatchesWith, mem_orMerge, iha.2, ihb.2, Bool.or_eq_true]
    constructor
    · rintro (⟨h1, h2, h3⟩ | ⟨h1, h2, h3⟩)
      · exact ⟨h1, h2, Or.inl h3⟩
      · exact ⟨h1, h2, Or.inr h3⟩
    · rintro ⟨h1, h2, h3 | h3⟩
      · exact Or.inl ⟨h1, h2, h3⟩
      · exact Or.inr ⟨h1, h2, h3⟩
  | not a iha =>
    refine ⟨nandMerge_sorted rev _ _ (rangeNode_sorted rev lo hi), fun v => ?_⟩
    simp only [evalTreeWith, notNode, docMatchesWith, mem_nandMerge rev _ _ iha.1 (rangeNode_sorted rev lo hi),
      mem_rangeNode, iha.2, Bool.not_eq_true']
    constructor
    · rintro ⟨⟨h1, h2⟩, h3⟩
      refine ⟨h1, h2, ?_⟩
      cases hm : docMatchesWith num a (docAt idx v) with
      | false => rfl
      | true => exact absurd ⟨h1, h2, hm⟩ h3
    · rintro ⟨h1, h2, h3⟩
      exact ⟨⟨h1, h2⟩, fun h => by simp [h.2.2] at h3⟩
  | nand a b iha ihb =>
    refine ⟨nandMerge_sorted rev _ _ ihb.1, fun v => ?_⟩
    simp only [evalTreeWith, docMatchesWith, mem_nandMerge rev _ _ iha.1 ihb.1, iha.2, ihb.2, Bool.and_eq_true,
      Bool.not_eq_true']
    constructor
    · rintro ⟨⟨h1, h2, h3⟩, h4⟩
      refine ⟨h1, h2, ?_, h3⟩
      cases hm : docMatchesWith num a (docAt idx v) with
      | false => rfl
      | true => exact absurd ⟨h1, h2, hm⟩ h4
    · rintro ⟨h1, h2, h3, h4⟩
      exact ⟨⟨h1, h2, h4⟩, fun h => by simp [h.2.2] at h3⟩

/-! ## IndexSearch = Spec.searchWith -/

def hitLidWith (num : Bytes → Option Int) (idx : Index) (q : Query) (from_ to : Nat) (lid : Nat) : Bool :=
  inWindow from_ to (docAt idx lid) && docMatchesWith num q (docAt idx lid)

theorem evalTreeWith_eq_filter (num : Bytes → Option Int) (idx : Index) (hwf : WF idx) (hs : SortedDesc idx.ids)
    (hr : ∀ id ∈ idx.ids, id.rid ≤ maxU64) (q : Query) (from_ to : Nat)
    (h0 : 0 < from_ ∨ ∀ id ∈ idx.ids, id ≠ ⟨0, 0⟩) (asc : Bool) :
    evalTreeWith num idx asc (getLIDsBorders from_ to idx.ids).1 (getLIDsBorders from_ to idx.ids).2 q =
      (rangeNode asc 1 idx.ids.length).filter (hitLidWith num idx q from_ to) := by
  have hd := evalTreeWith_denotes num idx hwf asc (getLIDsBorders from_ to idx.ids).1
    (getLIDsBorders from_ to idx.ids).2 q
  have hb := getLIDsBorders_range from_ to idx.ids
  apply sortedBy_ext asc _ _ hd.1 (List.Pairwise.filter _ (rangeNode_sorted asc 1 idx.ids.length))
  intro v
  rw [hd.2 v, List.mem_filter, mem_rangeNode]
  unfold hitLidWith inWindow
  simp only [Bool.and_eq_true, docAt_id]
  constructor
  · rintro ⟨h1, h2, h3⟩
    have hv1 : 1 ≤ v := by omega
    have hv2 : v ≤ idx.ids.length := by omega
    have := (getLIDsBorders_exact from_ to idx.ids hs hr h0 v hv1 hv2).mp ⟨h1, h2⟩
    exact ⟨⟨hv1, hv2⟩, ⟨decide_eq_true this.1, decide_eq_true this.2⟩, h3⟩
  · rintro ⟨⟨hv1, hv2⟩, hw, h3⟩
    have := (getLIDsBorders_exact from_ to idx.ids hs hr h0 v hv1 hv2).mpr
      ⟨of_decide_eq_true hw.1, of_decide_eq_true hw.2⟩
    exact ⟨this.1, this.2, h3⟩

theorem hitsWith_ids (num : Bytes → Option Int) (idx : Index) (q : Query) (from_ to : Nat) :
    (hitsWith num (docsOf idx) q from_ to).map (·.id) =
      ((List.range' 1 idx.ids.length).filter (hitLidWith num idx q from_ to)).map (idAt idx.ids) := by
  unfold hitsWith docsOf
  rw [List.filter_map, List.map_map]
  rfl

/-- **IndexSearch = Spec.searchWith** for every numeric reading `num`. -/
theorem searchWith_eq_spec (num : Bytes → Option Int) (idx : Index) (hwf : WF idx) (hs : SortedDesc idx.ids)
    (hr : ∀ id ∈ idx.ids, id.rid ≤ maxU64) (q : Query) (from_ to : Nat)
    (h0 : 0 < from_ ∨ ∀ id ∈ idx.ids, id ≠ ⟨0, 0⟩) (asc : Bool) (limit : Nat) (withTotal : Bool) :
    searchWith num idx q from_ to asc limit withTotal =
      Spec.searchWith num (docsOf idx) q from_ to asc limit withTotal := by
  unfold searchWith Spec.searchWith
  simp only []
  rw [evalTreeWith_eq_filter num idx hwf hs hr q from_ to h0 asc]
  have hic := iterate_correct idx.ids limit withTotal
    ((rangeNode asc 1 idx.ids.length).filter (hitLidWith num idx q from_ to))
  have hX := hitsWith_ids num idx q from_ to
  have hXs := filter_ids_sortedDesc idx.ids hs (hitLidWith num idx q from_ to)
  have hsort : sortBy (orderLe asc) ((hitsWith num (docsOf idx) q from_ to).map (·.id)) =
      ((rangeNode asc 1 idx.ids.length).filter (hitLidWith num idx q from_ to)).map (idAt idx.ids) := by
    apply sortBy_orderLe_eq
    · cases asc
      · rw [rangeNode_asc]
        simpa [orderLe] using hXs
      · rw [rangeNode_desc, List.filter_reverse, List.map_reverse]
        apply List.pairwise_reverse.mpr
        simpa [orderLe] using hXs
    · rw [hX]
      cases asc
      · rw [rangeNode_asc]
      · rw [rangeNode_desc, List.filter_reverse, List.map_reverse]
        exact List.reverse_perm _
  have hlen : (hitsWith num (docsOf idx) q from_ to).length =
      ((rangeNode asc 1 idx.ids.length).filter (hitLidWith num idx q from_ to)).length := by
    have := congrArg List.length hX
    simp only [List.length_map] at this
    rw [this]
    cases asc
    · rw [rangeNode_asc]
    · rw [rangeNode_desc, List.filter_reverse, List.length_reverse]
  rw [hsort, hic.1]
  cases withTotal
  · simp
  · simp [hic.2 rfl, hlen]

end SV.EvalTree

namespace SV.ActiveIndex
open SV SV.Spec SV.Borders SV.EvalTree

/-- `activeDataProvider.Search` under the reading `num` -/
def searchWith (num : Bytes → Option Int) (a : Active) (q : Query) (from_ to : Nat) (asc : Bool) (limit : Nat)
    (withTotal : Bool) : Result :=
  EvalTree.searchWith num (toIndex a) q (max from_ (minMid a)) (min to (maxMid a)) asc limit withTotal

theorem searchWith_numVal (a : Active) (q : Query) (from_ to : Nat) (asc : Bool) (limit : Nat) (wt : Bool) :
    searchWith numVal a q from_ to asc limit wt = search a q from_ to asc limit wt := by
  simp only [searchWith, search, EvalTree.searchWith_numVal]

theorem searchWith_clamp (num : Bytes → Option Int) (a : Active) (hwf : AWF a) (q : Query) (from_ to : Nat)
    (asc : Bool) (limit : Nat) (withTotal : Bool) :
    Spec.searchWith num (arrivalDocs a) q (max from_ (minMid a)) (min to (maxMid a)) asc limit withTotal =
      Spec.searchWith num (arrivalDocs a) q from_ to asc limit withTotal := by
  have hh : hitsWith num (arrivalDocs a) q (max from_ (minMid a)) (min to (maxMid a)) =
      hitsWith num (arrivalDocs a) q from_ to := by
    unfold hitsWith
    apply List.filter_congr
    intro d hd
    unfold arrivalDocs at hd
    rcases List.mem_map.mp hd with ⟨v, hv, rfl⟩
    have hv' := List.mem_range'_1.mp hv
    have := mid_in_range a v hv'.1 (by have := hwf.nonempty; omega)
    congr 1
    unfold inWindow arrivalDoc
    simp only []
    have e1 : decide (max from_ (minMid a) ≤ (idOf a.ids v).mid) = decide (from_ ≤ (idOf a.ids v).mid) :=
      decide_eq_decide.mpr (by omega)
    have e2 : decide ((idOf a.ids v).mid ≤ min to (maxMid a)) = decide ((idOf a.ids v).mid ≤ to) :=
      decide_eq_decide.mpr (by omega)
    rw [e1, e2]
  unfold Spec.searchWith
  simp only [hh]

/-- **The active fraction answers `Spec.searchWith num`** for every numeric reading. -/
theorem searchWith_eq_spec (num : Bytes → Option Int) (a : Active) (hwf : AWF a) (q : Query) (from_ to : Nat)
    (asc : Bool) (limit : Nat) (withTotal : Bool) :
    searchWith num a q from_ to asc limit withTotal =
      Spec.searchWith num (arrivalDocs a) q from_ to asc limit withTotal := by
  unfold searchWith
  have hb := toIndex_bounds a hwf
  rw [EvalTree.searchWith_eq_spec num (toIndex a) (toIndex_wf a hwf) (toIndex_sortedDesc a) hb.1 q _ _ (Or.inr hb.2),
    Spec.searchWith_perm num _ _ (docsOf_toIndex_perm a hwf), searchWith_clamp num a hwf]

end SV.ActiveIndex

namespace SV.ActiveReach
open SV SV.Spec

/-- every reachable active fraction, every numeric reading -/
theorem reachable_searchWith_eq_spec (num : Bytes → Option Int) (h : List (List SV.Collector.Meta))
    (hd : SV.Collector.DistinctBulks h) (hs : SV.Collector.NonEmptyDocs h) (hg : GoodIDs h) (q : Query)
    (from_ to : Nat) (asc : Bool) (limit : Nat) (withTotal : Bool) :
    SV.ActiveIndex.searchWith num (toActive (SV.Collector.run SV.Collector.Active.empty h)) q from_ to asc limit
        withTotal =
      Spec.searchWith num (SV.ActiveIndex.arrivalDocs (toActive (SV.Collector.run SV.Collector.Active.empty h)))
        q from_ to asc limit withTotal :=
  SV.ActiveIndex.searchWith_eq_spec num _ (reachable_awf h hd hs hg) q from_ to asc limit withTotal

end SV.ActiveReach
