import SeqVerif.Model.ProxyFrac
/-!
Inductive invariant of the `proxyFrac` transition system and the lemmas the C07 theorems are corollaries of.
-/
namespace SV.ProxyFrac

/-- what each position of the `Seal` caller implies about the shared fields -/
def SealInv (s : St) : Prop :=
  match s.sealPc with
  | .idle => s.readonly = false ∧ s.sealWg = 0 ∧ s.sealed = false ∧ s.aReleased = s.aSuicided
  | .waitIdle => s.readonly = true ∧ s.sealWg = 1 ∧ s.active = true ∧ s.sealed = false ∧ s.aReleased = false ∧
      s.aSuicided = false
  | .building => s.readonly = true ∧ s.sealWg = 1 ∧ s.active = true ∧ s.sealed = false ∧ s.aReleased = false ∧
      s.aSuicided = false ∧ s.indexWg = 0
  | .built => s.readonly = true ∧ s.sealWg = 1 ∧ s.active = true ∧ s.sealed = false ∧ s.aReleased = false ∧
      s.aSuicided = false ∧ s.indexWg = 0 ∧ s.sealedDocs = s.indexed
  | .published => s.readonly = true ∧ s.sealWg = 1 ∧ s.active = false ∧ s.aReleased = false ∧
      s.aSuicided = false ∧ s.indexWg = 0 ∧ s.sealedDocs = s.indexed
  | .releasing => s.readonly = true ∧ s.sealWg = 0 ∧ s.active = false ∧ s.aReleased = false ∧
      s.aSuicided = false ∧ s.indexWg = 0 ∧ s.sealedDocs = s.indexed
  | .finished => s.readonly = true ∧ s.sealWg = 0 ∧ s.active = false ∧ s.aReleased = true ∧
      s.aSuicided = false ∧ s.indexWg = 0 ∧ s.sealedDocs = s.indexed

/-- what each position of the `Suicide` caller implies -/
def SuInv (s : St) : Prop :=
  match s.suPc with
  | .idle => s.aSuicided = false ∧ s.sSuicided = false
  | .waiting => s.aSuicided = false ∧ s.sSuicided = false ∧ s.readonly = true
  | .woken => s.aSuicided = false ∧ s.sSuicided = false ∧ s.readonly = true ∧ s.sealWg = 0
  | .got a sl => s.active = false ∧ s.sealed = false ∧ (a = true → s.sealPc = .idle ∧ s.aSuicided = false) ∧
      (s.aSuicided = true → a = false) ∧ (s.sSuicided = true → a = false ∧ sl = false) ∧
      (a = false → s.sealPc = .idle → s.aSuicided = true ∨ s.aReleased = false)

structure Inv (fx : Bool) (s : St) : Prop where
  sealI : SealInv s
  suI : SuInv s
  notBoth : s.active = true → s.sealed = false
  sealedRo : s.sealed = true → s.readonly = true
  wg : s.pendW + s.queued + (if fx then 0 else s.failedW) = s.indexWg
  cnt : s.pendW + s.queued + s.indexed + s.failedW = s.begun
  ar : 0 < s.aReaders → s.aReleased = false
  sr : 0 < s.sReaders → s.sSuicided = false
  lost : s.lostWrites = 0
  sw : 0 < s.suicidedWrites → s.aSuicided = true

theorem inv_init (fx : Bool) : Inv fx init := by
  constructor <;> simp [init, SealInv, SuInv]

set_option linter.unusedSimpArgs false

/-- one tactic for every label: split the guard, enumerate both program counters, close by simp/omega -/
macro "pf_label" hs:ident sealPc:ident suPc:ident : tactic => `(tactic| (
  simp only [step] at $hs:ident
  repeat' (split at $hs:ident)
  all_goals (cases $hs:ident)
  all_goals ((try cases $sealPc:ident) <;> (try cases $suPc:ident) <;>
    (try simp_all [SealInv, SuInv, St.isActive, St.isSealing, St.isSuicided, trySet]) <;>
    (try (constructor <;> (try simp_all [SealInv, SuInv, St.isActive, St.isSealing, St.isSuicided, trySet]) <;>
      (try omega))))))

theorem inv_appendBegin (fx : Bool) (s s' : St)  (h : Inv fx s) (hs : step fx s .appendBegin = some s') : Inv fx s' := by
  obtain ⟨hseal, hsu, hnb, hsro, hwg, hcnt, har, hsr, hlost, hsw⟩ := h
  obtain ⟨active, sealed, readonly, indexWg, sealWg, aReaders, aReleased, aSuicided, sReaders, sSuicided, sealPc, suPc,
    fatal, begun, pendW, queued, indexed, failedW, sealedDocs, lostWrites, suicidedWrites⟩ := s
  cases fx <;> pf_label hs sealPc suPc

theorem inv_appendFail (fx : Bool) (s s' : St)  (h : Inv fx s) (hs : step fx s .appendFail = some s') : Inv fx s' := by
  obtain ⟨hseal, hsu, hnb, hsro, hwg, hcnt, har, hsr, hlost, hsw⟩ := h
  obtain ⟨active, sealed, readonly, indexWg, sealWg, aReaders, aReleased, aSuicided, sReaders, sSuicided, sealPc, suPc,
    fatal, begun, pendW, queued, indexed, failedW, sealedDocs, lostWrites, suicidedWrites⟩ := s
  cases fx <;> pf_label hs sealPc suPc

theorem inv_appendWrite (fx : Bool) (s s' : St)  (h : Inv fx s) (hs : step fx s .appendWrite = some s') : Inv fx s' := by
  obtain ⟨hseal, hsu, hnb, hsro, hwg, hcnt, har, hsr, hlost, hsw⟩ := h
  obtain ⟨active, sealed, readonly, indexWg, sealWg, aReaders, aReleased, aSuicided, sReaders, sSuicided, sealPc, suPc,
    fatal, begun, pendW, queued, indexed, failedW, sealedDocs, lostWrites, suicidedWrites⟩ := s
  cases aSuicided <;> cases aReleased <;> pf_label hs sealPc suPc

theorem inv_appendWriteErr (fx : Bool) (s s' : St)  (h : Inv fx s) (hs : step fx s .appendWriteErr = some s') : Inv fx s' := by
  obtain ⟨hseal, hsu, hnb, hsro, hwg, hcnt, har, hsr, hlost, hsw⟩ := h
  obtain ⟨active, sealed, readonly, indexWg, sealWg, aReaders, aReleased, aSuicided, sReaders, sSuicided, sealPc, suPc,
    fatal, begun, pendW, queued, indexed, failedW, sealedDocs, lostWrites, suicidedWrites⟩ := s
  cases fx <;> pf_label hs sealPc suPc

theorem inv_indexDone (fx : Bool) (s s' : St)  (h : Inv fx s) (hs : step fx s .indexDone = some s') : Inv fx s' := by
  obtain ⟨hseal, hsu, hnb, hsro, hwg, hcnt, har, hsr, hlost, hsw⟩ := h
  obtain ⟨active, sealed, readonly, indexWg, sealWg, aReaders, aReleased, aSuicided, sReaders, sSuicided, sealPc, suPc,
    fatal, begun, pendW, queued, indexed, failedW, sealedDocs, lostWrites, suicidedWrites⟩ := s
  cases fx <;> pf_label hs sealPc suPc

theorem inv_sealBegin (fx : Bool) (s s' : St)  (h : Inv fx s) (hs : step fx s .sealBegin = some s') : Inv fx s' := by
  obtain ⟨hseal, hsu, hnb, hsro, hwg, hcnt, har, hsr, hlost, hsw⟩ := h
  obtain ⟨active, sealed, readonly, indexWg, sealWg, aReaders, aReleased, aSuicided, sReaders, sSuicided, sealPc, suPc,
    fatal, begun, pendW, queued, indexed, failedW, sealedDocs, lostWrites, suicidedWrites⟩ := s
  cases fx <;> pf_label hs sealPc suPc

theorem inv_sealFail (fx : Bool) (s s' : St) (su : Bool) (h : Inv fx s) (hs : step fx s (.sealFail su) = some s') : Inv fx s' := by
  obtain ⟨hseal, hsu, hnb, hsro, hwg, hcnt, har, hsr, hlost, hsw⟩ := h
  obtain ⟨active, sealed, readonly, indexWg, sealWg, aReaders, aReleased, aSuicided, sReaders, sSuicided, sealPc, suPc,
    fatal, begun, pendW, queued, indexed, failedW, sealedDocs, lostWrites, suicidedWrites⟩ := s
  cases su <;> pf_label hs sealPc suPc

theorem inv_sealIdle (fx : Bool) (s s' : St)  (h : Inv fx s) (hs : step fx s .sealIdle = some s') : Inv fx s' := by
  obtain ⟨hseal, hsu, hnb, hsro, hwg, hcnt, har, hsr, hlost, hsw⟩ := h
  obtain ⟨active, sealed, readonly, indexWg, sealWg, aReaders, aReleased, aSuicided, sReaders, sSuicided, sealPc, suPc,
    fatal, begun, pendW, queued, indexed, failedW, sealedDocs, lostWrites, suicidedWrites⟩ := s
  cases fx <;> pf_label hs sealPc suPc

theorem inv_sealBuilt (fx : Bool) (s s' : St)  (h : Inv fx s) (hs : step fx s .sealBuilt = some s') : Inv fx s' := by
  obtain ⟨hseal, hsu, hnb, hsro, hwg, hcnt, har, hsr, hlost, hsw⟩ := h
  obtain ⟨active, sealed, readonly, indexWg, sealWg, aReaders, aReleased, aSuicided, sReaders, sSuicided, sealPc, suPc,
    fatal, begun, pendW, queued, indexed, failedW, sealedDocs, lostWrites, suicidedWrites⟩ := s
  cases fx <;> pf_label hs sealPc suPc

theorem inv_sealBuildErr (fx : Bool) (s s' : St)  (h : Inv fx s) (hs : step fx s .sealBuildErr = some s') : Inv fx s' := by
  obtain ⟨hseal, hsu, hnb, hsro, hwg, hcnt, har, hsr, hlost, hsw⟩ := h
  obtain ⟨active, sealed, readonly, indexWg, sealWg, aReaders, aReleased, aSuicided, sReaders, sSuicided, sealPc, suPc,
    fatal, begun, pendW, queued, indexed, failedW, sealedDocs, lostWrites, suicidedWrites⟩ := s
  cases fx <;> pf_label hs sealPc suPc

theorem inv_sealPublish (fx : Bool) (s s' : St)  (h : Inv fx s) (hs : step fx s .sealPublish = some s') : Inv fx s' := by
  obtain ⟨hseal, hsu, hnb, hsro, hwg, hcnt, har, hsr, hlost, hsw⟩ := h
  obtain ⟨active, sealed, readonly, indexWg, sealWg, aReaders, aReleased, aSuicided, sReaders, sSuicided, sealPc, suPc,
    fatal, begun, pendW, queued, indexed, failedW, sealedDocs, lostWrites, suicidedWrites⟩ := s
  cases fx <;> pf_label hs sealPc suPc

theorem inv_sealWgDone (fx : Bool) (s s' : St)  (h : Inv fx s) (hs : step fx s .sealWgDone = some s') : Inv fx s' := by
  obtain ⟨hseal, hsu, hnb, hsro, hwg, hcnt, har, hsr, hlost, hsw⟩ := h
  obtain ⟨active, sealed, readonly, indexWg, sealWg, aReaders, aReleased, aSuicided, sReaders, sSuicided, sealPc, suPc,
    fatal, begun, pendW, queued, indexed, failedW, sealedDocs, lostWrites, suicidedWrites⟩ := s
  cases fx <;> pf_label hs sealPc suPc

theorem inv_sealRelease (fx : Bool) (s s' : St)  (h : Inv fx s) (hs : step fx s .sealRelease = some s') : Inv fx s' := by
  obtain ⟨hseal, hsu, hnb, hsro, hwg, hcnt, har, hsr, hlost, hsw⟩ := h
  obtain ⟨active, sealed, readonly, indexWg, sealWg, aReaders, aReleased, aSuicided, sReaders, sSuicided, sealPc, suPc,
    fatal, begun, pendW, queued, indexed, failedW, sealedDocs, lostWrites, suicidedWrites⟩ := s
  cases fx <;> pf_label hs sealPc suPc

theorem inv_suTry (fx : Bool) (s s' : St) (a sl sg : Bool) (h : Inv fx s) (hs : step fx s (.suTry a sl sg) = some s') : Inv fx s' := by
  obtain ⟨hseal, hsu, hnb, hsro, hwg, hcnt, har, hsr, hlost, hsw⟩ := h
  obtain ⟨active, sealed, readonly, indexWg, sealWg, aReaders, aReleased, aSuicided, sReaders, sSuicided, sealPc, suPc,
    fatal, begun, pendW, queued, indexed, failedW, sealedDocs, lostWrites, suicidedWrites⟩ := s
  cases active <;> cases sealed <;> cases readonly <;> pf_label hs sealPc suPc

theorem inv_suWoken (fx : Bool) (s s' : St)  (h : Inv fx s) (hs : step fx s .suWoken = some s') : Inv fx s' := by
  obtain ⟨hseal, hsu, hnb, hsro, hwg, hcnt, har, hsr, hlost, hsw⟩ := h
  obtain ⟨active, sealed, readonly, indexWg, sealWg, aReaders, aReleased, aSuicided, sReaders, sSuicided, sealPc, suPc,
    fatal, begun, pendW, queued, indexed, failedW, sealedDocs, lostWrites, suicidedWrites⟩ := s
  cases fx <;> pf_label hs sealPc suPc

theorem inv_suRetry (fx : Bool) (s s' : St) (a sl sg : Bool) (h : Inv fx s) (hs : step fx s (.suRetry a sl sg) = some s') : Inv fx s' := by
  obtain ⟨hseal, hsu, hnb, hsro, hwg, hcnt, har, hsr, hlost, hsw⟩ := h
  obtain ⟨active, sealed, readonly, indexWg, sealWg, aReaders, aReleased, aSuicided, sReaders, sSuicided, sealPc, suPc,
    fatal, begun, pendW, queued, indexed, failedW, sealedDocs, lostWrites, suicidedWrites⟩ := s
  cases active <;> cases sealed <;> cases readonly <;> pf_label hs sealPc suPc

theorem inv_suActive (fx : Bool) (s s' : St)  (h : Inv fx s) (hs : step fx s .suActive = some s') : Inv fx s' := by
  obtain ⟨hseal, hsu, hnb, hsro, hwg, hcnt, har, hsr, hlost, hsw⟩ := h
  obtain ⟨active, sealed, readonly, indexWg, sealWg, aReaders, aReleased, aSuicided, sReaders, sSuicided, sealPc, suPc,
    fatal, begun, pendW, queued, indexed, failedW, sealedDocs, lostWrites, suicidedWrites⟩ := s
  cases fx <;> pf_label hs sealPc suPc

theorem inv_suSealed (fx : Bool) (s s' : St)  (h : Inv fx s) (hs : step fx s .suSealed = some s') : Inv fx s' := by
  obtain ⟨hseal, hsu, hnb, hsro, hwg, hcnt, har, hsr, hlost, hsw⟩ := h
  obtain ⟨active, sealed, readonly, indexWg, sealWg, aReaders, aReleased, aSuicided, sReaders, sSuicided, sealPc, suPc,
    fatal, begun, pendW, queued, indexed, failedW, sealedDocs, lostWrites, suicidedWrites⟩ := s
  cases fx <;> pf_label hs sealPc suPc

theorem inv_dpAcquire (fx : Bool) (s s' : St) (k : Dp) (h : Inv fx s) (hs : step fx s (.dpAcquire k) = some s') : Inv fx s' := by
  obtain ⟨hseal, hsu, hnb, hsro, hwg, hcnt, har, hsr, hlost, hsw⟩ := h
  obtain ⟨active, sealed, readonly, indexWg, sealWg, aReaders, aReleased, aSuicided, sReaders, sSuicided, sealPc, suPc,
    fatal, begun, pendW, queued, indexed, failedW, sealedDocs, lostWrites, suicidedWrites⟩ := s
  cases k <;> pf_label hs sealPc suPc

theorem inv_dpRelease (fx : Bool) (s s' : St) (k : Dp) (h : Inv fx s) (hs : step fx s (.dpRelease k) = some s') : Inv fx s' := by
  obtain ⟨hseal, hsu, hnb, hsro, hwg, hcnt, har, hsr, hlost, hsw⟩ := h
  cases k <;> simp only [step] at hs <;> split at hs <;> cases hs
  · refine ⟨by simpa [SealInv] using hseal, by simpa [SuInv] using hsu, hnb, hsro, hwg, hcnt, ?_, hsr, hlost, hsw⟩
    intro _
    apply har
    simp_all
  · refine ⟨by simpa [SealInv] using hseal, by simpa [SuInv] using hsu, hnb, hsro, hwg, hcnt, har, ?_, hlost, hsw⟩
    intro _
    apply hsr
    simp_all
  · exact ⟨hseal, hsu, hnb, hsro, hwg, hcnt, har, hsr, hlost, hsw⟩

theorem inv_step (fx : Bool) (s : St) (l : Label) (s' : St) (h : Inv fx s) (hs : step fx s l = some s') : Inv fx s' := by
  cases l with
  | appendBegin  => exact inv_appendBegin fx s s'  h hs
  | appendFail  => exact inv_appendFail fx s s'  h hs
  | appendWrite  => exact inv_appendWrite fx s s'  h hs
  | appendWriteErr  => exact inv_appendWriteErr fx s s'  h hs
  | indexDone  => exact inv_indexDone fx s s'  h hs
  | sealBegin  => exact inv_sealBegin fx s s'  h hs
  | sealFail su => exact inv_sealFail fx s s' su h hs
  | sealIdle  => exact inv_sealIdle fx s s'  h hs
  | sealBuilt  => exact inv_sealBuilt fx s s'  h hs
  | sealBuildErr  => exact inv_sealBuildErr fx s s'  h hs
  | sealPublish  => exact inv_sealPublish fx s s'  h hs
  | sealWgDone  => exact inv_sealWgDone fx s s'  h hs
  | sealRelease  => exact inv_sealRelease fx s s'  h hs
  | suTry a sl sg => exact inv_suTry fx s s' a sl sg h hs
  | suWoken  => exact inv_suWoken fx s s'  h hs
  | suRetry a sl sg => exact inv_suRetry fx s s' a sl sg h hs
  | suActive  => exact inv_suActive fx s s'  h hs
  | suSealed  => exact inv_suSealed fx s s'  h hs
  | dpAcquire k => exact inv_dpAcquire fx s s' k h hs
  | dpRelease k => exact inv_dpRelease fx s s' k h hs

theorem inv_reachable (fx : Bool) (s : St) (h : Reachable fx s) : Inv fx s :=
  reachable_induct fx (Inv fx) (inv_init fx) (inv_step fx) s h

end SV.ProxyFrac
