import SeqVerif.Model.Cache
/-!
# C18 - invariants of the small-step cache model that hold in every interleaving

* `Managed`: every unreleased cache is in the cleaner's bucket list and follows the cleaner's last generation.
* `VInv`: values of valid entries were produced by a loader run for the entry's key; blocked threads point at
  entries of the key they asked for; every running loader owns a distinct `loading` entry; no abandoned entry
  stays in a map.
-/
namespace SV.Cache

theorem fst_of_eq {α β} {a : α × β} {x : α} {y : β} (h : a = (x, y)) : a.1 = x := by rw [h]
theorem snd_of_eq {α β} {a : α × β} {x : α} {y : β} (h : a = (x, y)) : a.2 = y := by rw [h]

/-! ## finite maps -/

theorem mget_mset {α} (d : α) (l : List α) (i : Nat) (a : α) (j : Nat) :
    mget d (mset d l i a) j = if j = i then a else mget d l j := by
  induction l generalizing i j with
  | nil =>
    induction i generalizing j with
    | zero => cases j <;> simp [mset, mget]
    | succ i ih =>
      cases j with
      | zero => simp [mset, mget]
      | succ j => have := ih j; simp [mset, mget] at this ⊢; exact this
  | cons x xs ih =>
    cases i with
    | zero => cases j <;> simp [mset, mget]
    | succ i =>
      cases j with
      | zero => simp [mset, mget]
      | succ j => have := ih i j; simp [mset, mget] at this ⊢; exact this

theorem mget_foldl_mset (bs : List Nat) (m : List Nat) (v c : Nat) :
    mget 0 (bs.foldl (fun m b => mset 0 m b v) m) c = if c ∈ bs then v else mget 0 m c := by
  induction bs generalizing m with
  | nil => simp
  | cons b bs ih =>
    simp only [List.foldl_cons, ih, mget_mset, List.mem_cons]
    by_cases h1 : c ∈ bs <;> by_cases h2 : c = b <;> simp [h1, h2]

@[simp] theorem setPc_pc (s : St) (t : Nat) (p : Pc) (t' : Nat) :
    (setPc s t p).pc t' = if t' = t then p else s.pc t' := by
  simp [setPc, St.pc, mget_mset]

/-! ## `recreatePayload` keeps the map's content -/

theorem recreate_eq (heap : List Entry) (c : Nat) : recreate heap c = heap := by
  simp [recreate, copied]

theorem cacheCleanup_heap (s : St) (c : Nat) : (cacheCleanup s c).1.heap = evicted s c := by
  simp only [cacheCleanup, recreate_eq, ite_self]

/-! ## what the thread-level primitives leave alone -/

/-- the part of the state that only the maintainer and `NewCache` / `Release` change -/
structure MView where
  ncaches : Nat
  curL : List Nat
  relL : List Bool
  ngens : Nat
  staleL : List Bool
  glist : List Nat
  lastGen : Nat
  buckets : List Nat
  todo : Option (List Nat)

def St.mview (s : St) : MView :=
  ⟨s.ncaches, s.curL, s.relL, s.ngens, s.staleL, s.glist, s.lastGen, s.buckets, s.todo⟩

theorem updGen_mview (s : St) (eid ng : Nat) : (updGen s eid ng).mview = s.mview := by
  unfold updGen; split
  · rfl
  · split <;> rfl

theorem updGen_pcL (s : St) (eid ng : Nat) : (updGen s eid ng).pcL = s.pcL := by
  unfold updGen; split
  · rfl
  · split <;> rfl

theorem updGen_produced (s : St) (eid ng : Nat) : (updGen s eid ng).produced = s.produced := by
  unfold updGen; split
  · rfl
  · split <;> rfl

theorem acquire_mview (s : St) (t c k : Nat) : (acquire s t c k).1.mview = s.mview := by
  unfold acquire
  split
  · split
    · rfl
    · split <;> simp only [setPc] <;> exact updGen_mview _ _ _
  · rfl

theorem save_mview (cfg : Cfg) (s : St) (t c k eid v sz : Nat) : (save cfg s t c k eid v sz).1.mview = s.mview := by
  unfold save; split
  · rfl
  · split <;> rfl

theorem recover_mview (s : St) (t c k eid : Nat) : (recover s t c k eid).mview = s.mview := by
  unfold recover; split <;> rfl

/-! ## `Managed` -/

/-- every unreleased cache is in the cleaner's bucket list and its current generation is the cleaner's last one -/
def Managed (s : St) : Prop :=
  ∀ c, c < s.ncaches → s.released c = false → c ∈ s.buckets ∧ s.cur c = s.lastGen

theorem Managed.of_mview {s s' : St} (h : s'.mview = s.mview) (hm : Managed s) : Managed s' := by
  have h1 : s'.ncaches = s.ncaches := congrArg MView.ncaches h
  have h2 : s'.curL = s.curL := congrArg MView.curL h
  have h3 : s'.relL = s.relL := congrArg MView.relL h
  have h4 : s'.lastGen = s.lastGen := congrArg MView.lastGen h
  have h5 : s'.buckets = s.buckets := congrArg MView.buckets h
  intro c hc hr
  simp only [St.released, St.cur, h1, h2, h3, h4, h5] at hc hr ⊢
  exact hm c hc hr

theorem managed_doRotate {s : St} (hm : Managed s) : Managed (doRotate s) := by
  intro c hc hr
  have := hm c hc hr
  simp [doRotate, St.cur, mget_foldl_mset, this.1]

theorem markStale_managed {s : St} (target : Int) (hm : Managed s) : Managed (markStale s target).1 := by
  unfold markStale
  simp only
  have h1 : Managed { s with staleL := (markLoop s.gsize target s.staleL s.glist 0 0).stale,
                             glist := (markLoop s.gsize target s.staleL s.glist 0 0).glist } := hm
  split
  · have h2 := managed_doRotate h1
    split
    · exact h2
    · exact h2
  · exact h1

theorem step_managed (cfg : Cfg) {s s' : St} {l : Label} {o : Out} (hm : Managed s)
    (hs : step cfg s l = some (s', o)) : Managed s' := by
  cases l with
  | newCache =>
    simp only [step, Option.some.injEq, Prod.mk.injEq] at hs
    obtain ⟨rfl, -⟩ := hs
    intro c hc hr
    simp only [newCache, St.released, St.cur, mget_mset] at hc hr ⊢
    by_cases hcn : c = s.ncaches
    · simp [hcn]
    · have hc' : c < s.ncaches := by omega
      simp only [hcn, if_false] at hr ⊢
      have := hm c hc' hr
      exact ⟨List.mem_append_left _ this.1, this.2⟩
  | get t c k =>
    simp only [step] at hs
    split at hs
    · simp only [Option.some.injEq] at hs
      exact Managed.of_mview (by rw [← fst_of_eq hs]; exact acquire_mview _ _ _ _) hm
    · exact absurd hs (by simp)
  | wake t =>
    simp only [step] at hs
    split at hs
    · split at hs
      · split at hs
        · simp only [Option.some.injEq, Prod.mk.injEq] at hs
          obtain ⟨rfl, -⟩ := hs
          exact Managed.of_mview rfl hm
        · split at hs
          · simp only [Option.some.injEq] at hs
            exact Managed.of_mview (by rw [← fst_of_eq hs]; exact acquire_mview _ _ _ _) hm
          · exact absurd hs (by simp)
        · exact absurd hs (by simp)
      · exact absurd hs (by simp)
    · exact absurd hs (by simp)
  | finish t oc =>
    simp only [step] at hs
    split at hs
    · split at hs
      · simp only [Option.some.injEq] at hs
        exact Managed.of_mview (by rw [← fst_of_eq hs]; exact save_mview _ _ _ _ _ _ _ _) hm
      · simp only [Option.some.injEq, Prod.mk.injEq] at hs
        obtain ⟨rfl, -⟩ := hs
        exact Managed.of_mview (recover_mview _ _ _ _ _) hm
      · simp only [Option.some.injEq, Prod.mk.injEq] at hs
        obtain ⟨rfl, -⟩ := hs
        exact Managed.of_mview (recover_mview _ _ _ _ _) hm
    · exact absurd hs (by simp)
  | release c =>
    simp only [step] at hs
    split at hs
    · simp only [Option.some.injEq, Prod.mk.injEq] at hs
      obtain ⟨rfl, -⟩ := hs
      intro c' hc' hr
      simp only [release, St.released, St.cur, mget_mset] at hc' hr ⊢
      by_cases hcc : c' = c
      · simp [hcc] at hr
      · simp only [hcc, if_false] at hr
        exact hm c' hc' hr
    · exact absurd hs (by simp)
  | rotate =>
    simp only [step] at hs
    split at hs
    · simp only [Option.some.injEq] at hs
      unfold rotate at hs
      split at hs
      · simp only [Prod.mk.injEq] at hs; obtain ⟨rfl, -⟩ := hs; exact hm
      · simp only [Prod.mk.injEq] at hs; obtain ⟨rfl, -⟩ := hs; exact managed_doRotate hm
    · exact absurd hs (by simp)
  | cleanupBegin =>
    simp only [step] at hs
    split at hs
    · simp only [Option.some.injEq] at hs
      unfold cleanupBegin at hs
      split at hs
      · simp only [Prod.mk.injEq] at hs; obtain ⟨rfl, -⟩ := hs; exact hm
      · simp only [Prod.mk.injEq] at hs; obtain ⟨rfl, -⟩ := hs
        exact markStale_managed _ hm
    · exact absurd hs (by simp)
  | cleanupBucket =>
    simp only [step] at hs
    split at hs
    · simp only [Option.some.injEq, Prod.mk.injEq] at hs
      obtain ⟨rfl, -⟩ := hs
      exact hm
    · exact absurd hs (by simp)
  | cleanEmpty =>
    simp only [step] at hs
    split at hs
    · unfold cleanEmpty at hs
      split at hs
      · exact absurd hs (by simp)
      · simp only [Option.some.injEq, Prod.mk.injEq] at hs
        obtain ⟨rfl, -⟩ := hs
        exact hm
    · exact absurd hs (by simp)
  | releaseBuckets =>
    simp only [step] at hs
    split at hs
    · simp only [Option.some.injEq, Prod.mk.injEq] at hs
      obtain ⟨rfl, -⟩ := hs
      intro c hc hr
      have := hm c hc hr
      refine ⟨?_, this.2⟩
      simp only [releaseBuckets, List.mem_filter, Bool.not_eq_true']
      exact ⟨this.1, hr⟩
    · exact absurd hs (by simp)

theorem managed_init : Managed init := by
  intro c hc; simp [init] at hc

theorem reach_managed (cfg : Cfg) {s : St} (h : Reach cfg s) : Managed s := by
  induction h with
  | init => exact managed_init
  | step _ hs ih => exact step_managed cfg ih hs

end SV.Cache
