import SeqVerif.Model.Greedy
/-!
# Model of /repo/pattern/substring.go (C13)

`calcPrefFunc`, `findSubstring`, `findSequence` statement by statement.  Bytes are `Nat`s, `int32` counters are
unbounded `Nat`s (a pattern longer than 2^31 bytes is outside the model).  Slice reads use `getD _ 0`: the
invariants proved in `KmpProof.lean` show every read is in range for a non-empty pattern, and the only reachable
out-of-range access in Go (`s.val[1:]` / `to.val[0]` for an EMPTY pattern) is modelled as an explicit panic
(`newSubstringPattern [] = none`).
-/
namespace SV.Kmp

/-- `for curPrefFunc > 0 && b != val[curPrefFunc] { curPrefFunc = prefFunc[curPrefFunc-1] }`.
The fuel is the starting value of `curPrefFunc` (each iteration strictly decreases it when the table is a
prefix function - proved; with fuel exhausted the loop has reached 0 anyway). -/
def fallback (val pf : List Nat) (b : Nat) : Nat → Nat → Nat
  | 0, cur => cur
  | fuel + 1, cur =>
    if 0 < cur ∧ b ≠ val.getD cur 0 then fallback val pf b fuel (pf.getD (cur - 1) 0) else cur

/-- one loop body shared by `calcPrefFunc` and `findSubstring`: fall back, then `if b == val[cur] { cur++ }` -/
def kmpStep (val pf : List Nat) (b cur : Nat) : Nat :=
  let c := fallback val pf b cur cur
  if b = val.getD c 0 then c + 1 else c

/-- the loop of `calcPrefFunc` over `val[1:]`; state = (i, curPrefFunc, prefFunc); `prefFunc[i+1] = cur` -/
def calcLoop (val : List Nat) : List Nat → Nat → Nat → List Nat → List Nat
  | [], _, _, pf => pf
  | b :: rest, i, cur, pf =>
    let c := kmpStep val pf b cur
    calcLoop val rest (i + 1) c (pf.set (i + 1) c)

/-- `prefFunc: make([]int32, len(str))` then `calcPrefFunc()` (requires a non-empty `val`: `val[1:]`) -/
def calcPrefFunc (val : List Nat) : List Nat :=
  calcLoop val val.tail 0 0 (List.replicate val.length 0)

structure SubPat where
  val : List Nat
  pf : List Nat
deriving Repr, DecidableEq

/-- `newSubstringPattern`; `none` = Go panics (`slice bounds out of range [1:0]`) on an empty fragment -/
def newSubstringPattern (str : List Nat) : Option SubPat :=
  if str = [] then none else some ⟨str, calcPrefFunc str⟩

/-- `newSubstringPattern` for each middle fragment in turn (the loop of `newWildcardSearch`) -/
def newSubstringPatterns : List (List Nat) → Option (List SubPat)
  | [] => some []
  | d :: ds =>
    match newSubstringPattern d, newSubstringPatterns ds with
    | some x, some xs => some (x :: xs)
    | _, _ => none

/-- `findSubstring`'s loop: `i` = index of `b`, returns `i+1` at the first full match, `none` = -1 -/
def findLoop (val pf : List Nat) : List Nat → Nat → Nat → Option Nat
  | [], _, _ => none
  | b :: rest, i, cur =>
    let c := kmpStep val pf b cur
    if c = val.length then some (i + 1) else findLoop val pf rest (i + 1) c

def findSubstring (s : List Nat) (to : SubPat) : Option Nat := findLoop to.val to.pf s 0 0

/-- `findSequence`: number of fragments found, greedily, left to right -/
def findSequence : List Nat → List SubPat → Nat
  | _, [] => 0
  | s, t :: ts =>
    match findSubstring s t with
    | none => 0
    | some e => 1 + findSequence (s.drop e) ts

/-! ## bounds instrumentation: `true` iff every slice access of the Go loops is in range
(the `*OK` functions follow the same recursion as the functions above and only record the index checks that the
Go runtime performs: `val[cur]` is read only when `cur > 0` holds in the loop condition, `prefFunc[cur-1]` in the
loop body, `val[cur]` again in the `if`, `prefFunc[i+1]` is written at the end of a `calcPrefFunc` iteration) -/

def fallbackOK (val pf : List Nat) (b : Nat) : Nat → Nat → Bool
  | 0, _ => true
  | fuel + 1, cur =>
    if 0 < cur then
      decide (cur < val.length) &&
        (if b ≠ val.getD cur 0 then decide (cur - 1 < pf.length) && fallbackOK val pf b fuel (pf.getD (cur - 1) 0)
         else true)
    else true

def kmpStepOK (val pf : List Nat) (b cur : Nat) : Bool :=
  fallbackOK val pf b cur cur && decide (fallback val pf b cur cur < val.length)

def calcLoopOK (val : List Nat) : List Nat → Nat → Nat → List Nat → Bool
  | [], _, _, _ => true
  | b :: rest, i, cur, pf =>
    kmpStepOK val pf b cur && decide (i + 1 < pf.length) &&
      calcLoopOK val rest (i + 1) (kmpStep val pf b cur) (pf.set (i + 1) (kmpStep val pf b cur))

def findLoopOK (val pf : List Nat) : List Nat → Nat → Bool
  | [], _ => true
  | b :: rest, cur =>
    kmpStepOK val pf b cur &&
      (if kmpStep val pf b cur = val.length then true else findLoopOK val pf rest (kmpStep val pf b cur))

end SV.Kmp
