import SeqVerif.Model.SearchDocsTotals
/-!
# Model of the asynchronous search (fracmanager/async_searcher.go) - C19

  * persisted state `St`: the request info (`<id>.info`: fraction names recorded at start, `Done`) and the partial
    results (`<id>.<frac>.qpr`), each written by `mustWriteFileAtomic` (complete or absent; `.tmp` names never match
    the globs) - so a crash leaves a prefix of the sequence of atomic writes;
  * `startSearch`, `doSearch` (processed fractions = existing `.qpr` files, then `Done = true`), `resume`
    (`MustStartAsync`: only requests that are not done are processed again);
  * `fetchFold`: `FetchSearchResult` = `MergeQPRs(&qpr, {file}, math.MaxInt, 1, order)` over the files, starting
    from `seq.QPR{}` (nil histogram map!) - `fetchFoldWith hi` is the same fold with another interval (the repair);
  * the `AggBin` key codec `"<int(MID)>|<token>"`.
-/
namespace SV.Async
open SV SV.Merge

/-! ## FetchSearchResult -/

/-- math.MaxInt -/
def maxInt : Nat := 9223372036854775807

/-- `seq.QPR{}` -/
def zeroQPR : QPR := { ids := [], total := 0, hist := none }

def fetchStepWith (hi : Nat) (desc : Bool) (acc q : QPR) : QPR := mergeQPRs desc acc [q] maxInt hi

def fetchFoldWith (hi : Nat) (desc : Bool) (qs : List QPR) : QPR := qs.foldl (fetchStepWith hi desc) zeroQPR

def fetchPanicsWith (hi : Nat) (desc : Bool) : QPR → List QPR → Bool
  | _, [] => false
  | acc, q :: qs => mergePanics desc acc [q] hi || fetchPanicsWith hi desc (fetchStepWith hi desc acc q) qs

/-- the code as it is: histogram interval 1 whatever the request asked for -/
def fetchFold (desc : Bool) (qs : List QPR) : QPR := fetchFoldWith 1 desc qs
def fetchPanics (desc : Bool) (qs : List QPR) : Bool := fetchPanicsWith 1 desc zeroQPR qs

/-! ## persistence and resumption -/

structure Info where
  fracs : List String
  done : Bool
deriving Repr, DecidableEq

/-- what is on disk -/
structure St where
  info : Option Info
  files : List (String × QPR)
deriving Repr, DecidableEq

inductive Write where
  | info (i : Info)
  | qpr (name : String) (q : QPR)
deriving Repr, DecidableEq

def apply (st : St) : Write → St
  | .info i => { st with info := some i }
  | .qpr n q => { st with files := st.files ++ [(n, q)] }

def processed (st : St) : List String := st.files.map (·.1)

/-- the atomic writes of `StartSearch` followed by `doSearch`, from an empty directory -/
def startWrites (search : String → QPR) (fracs : List String) : List Write :=
  .info ⟨fracs, fracs.isEmpty⟩ ::
    (if fracs.isEmpty then [] else fracs.map (fun n => .qpr n (search n)) ++ [.info ⟨fracs, true⟩])

/-- the atomic writes of `doSearch` from a persisted state (what `MustStartAsync` triggers after a restart) -/
def resumeWrites (search : String → QPR) (st : St) : List Write :=
  match st.info with
  | none => []
  | some i =>
    if i.done then []
    else (i.fracs.filter (fun n => !(processed st).contains n)).map (fun n => .qpr n (search n)) ++ [.info ⟨i.fracs, true⟩]

def run (st : St) (ws : List Write) : St := ws.foldl apply st

def emptySt : St := ⟨none, []⟩

/-- crash after `k` atomic writes of the first run, restart, run to completion -/
def crashAndResume (search : String → QPR) (fracs : List String) (k : Nat) : St :=
  let st := run emptySt ((startWrites search fracs).take k)
  run st (resumeWrites search st)

/-! ## the AggBin key codec -/

/-- `int(tb.MID)` on a 64-bit platform -/
def toI64 (m : Nat) : Int := if m < 9223372036854775808 then (m : Int) else (m : Int) - 18446744073709551616

/-- `MID(mid)` -/
def toU64 (i : Int) : Nat := (i % 18446744073709551616).toNat

/-- `strings.Cut(k, "|")` on bytes (124 = '|') -/
def cutBar : List Nat → Option (List Nat × List Nat)
  | [] => none
  | c :: cs => if c = 124 then some ([], cs) else (cutBar cs).map (fun p => (c :: p.1, p.2))

/-- `AggBin.toKey`, with `render` = `strconv.Itoa` -/
def toKey (render : Int → List Nat) (mid : Nat) (token : List Nat) : List Nat := render (toI64 mid) ++ 124 :: token

/-- `AggBin.fromKey`, with `parse` = `strconv.Atoi`; `none` = one of its two panics -/
def fromKey (parse : List Nat → Option Int) (k : List Nat) : Option (Nat × List Nat) :=
  match cutBar k with
  | none => none
  | some (a, b) => (parse a).map (fun i => (toU64 i, b))

/-- the concrete renderer / parser used by the driver -/
def renderInt (i : Int) : List Nat := (toString i).toList.map Char.toNat
def parseInt (bs : List Nat) : Option Int := (String.ofList (bs.map Char.ofNat)).toInt?

end SV.Async
