import SeqVerif.Model.WritePath
/-!
# C01 - the index an active fraction builds from the blocks handed to the index worker, and fetch / search on it

Follows `frac/active_indexer.go:appendWorker` (one task = one meta block + its docs offset):
`DocBlocks.Append(task.Pos)`, `metaDataCollector.AppendMeta` (document offsets inside the docs block:
`nextDocOffset += Size + 4`, a record with `Size = 0` is a nested document pointing at the previous position),
`DocsPositions.SetMultiple` (first position wins, a repeated ID is dropped together with its tokens), the token
postings; and the fetch path `activeFetchIndex` (`DocsPositions.GetSync` -> `blocksOffsets[block]` ->
`ReadDocBlockPayload` -> `extractDocsFromBlockFunc`: 4-byte little-endian length, then the document).
Decompression and the binary layout of the meta records are parameters (`IdxCodec`).  Tasks are processed in
arrival order (one worker; with several workers the block numbering is a permutation, which fetch and search do
not observe).  `seq.PackDocPos` (30-bit offset) is not modelled: offsets are naturals.  Core-only.
-/
namespace SV.WPath

abbrev DocID := Nat × Nat

/-- a decoded `frac.MetaData` record; a token is the `key:value` byte string the collector builds -/
structure DocMeta where
  id : DocID
  size : Nat
  tokens : List Bytes
deriving DecidableEq, Repr

/-- what the code does to the bytes of a block without looking at the ext fields -/
structure IdxCodec where
  metaDocs : Bytes → List DocMeta        -- DecompressTo + the record loop of appendWorker
  docsRaw : Bytes → Option Bytes         -- ReadDocBlockPayload's DecompressTo

abbrev Pos := Nat × Nat                   -- (block index, offset inside the decompressed docs block)

/-- `metaDataCollector.AppendMeta` over the records of one block (the code panics when a nested record comes
first; the model then points it at offset 0) -/
def docPositions (bi : Nat) : Nat → Option Pos → List DocMeta → List (DocID × Pos)
  | _, _, [] => []
  | off, prev, m :: ms =>
    if m.size = 0 then (m.id, prev.getD (bi, 0)) :: docPositions bi off (some (prev.getD (bi, 0))) ms
    else (m.id, (bi, off)) :: docPositions bi (off + m.size + 4) (some (bi, off)) ms

def lookupPos (ps : List (DocID × Pos)) (id : DocID) : Option Pos := (ps.find? fun p => p.1 = id).map (·.2)

/-- `DocsPositions.SetMultiple`: the new map and, per ID, whether it was appended -/
def setMultiple : List (DocID × Pos) → List (DocID × Pos) → List (DocID × Pos) × List Bool
  | ps, [] => (ps, [])
  | ps, (i, p) :: rest =>
    match lookupPos ps i with
    | none => ((setMultiple (ps ++ [(i, p)]) rest).1, true :: (setMultiple (ps ++ [(i, p)]) rest).2)
    | some q => ((setMultiple ps rest).1, decide (q = p) :: (setMultiple ps rest).2)

/-- the IDs `SetMultiple` reports as appended -/
def appendedIDs : List (DocID × Pos) → List Bool → List DocID
  | p :: ps, f :: fs => if f then p.1 :: appendedIDs ps fs else appendedIDs ps fs
  | _, _ => []

/-- tokens that survive `collector.Filter(appended)`: those of every record of the block whose ID is among the
appended IDs (`getIndexesOfIntercept` compares IDs, so a record repeating an ID appended by an earlier record of the
same block keeps its tokens) -/
def entryPostings (ms : List DocMeta) (app : List DocID) : List (Bytes × DocID) :=
  ms.flatMap fun m => if m.id ∈ app then m.tokens.map fun t => (t, m.id) else []

structure Index where
  blocks : List Nat                    -- Active.DocBlocks
  positions : List (DocID × Pos)       -- Active.DocsPositions
  postings : List (Bytes × DocID)      -- token -> documents (TokenList + LIDs, flattened)
deriving DecidableEq, Repr

def Index.empty : Index := ⟨[], [], []⟩

/-- one task of `appendWorker` -/
def indexEntry (cd : IdxCodec) (ix : Index) (e : Entry) : Index :=
  let metas := cd.metaDocs e.blk
  let new := docPositions ix.blocks.length 0 none metas
  let r := setMultiple ix.positions new
  ⟨ix.blocks ++ [e.pos], r.1, ix.postings ++ entryPostings metas (appendedIDs new r.2)⟩

def buildIndex (cd : IdxCodec) (es : List Entry) : Index := es.foldl (indexEntry cd) Index.empty

/-- `extractDocsFromBlockFunc` for one offset -/
def docAt (raw : Bytes) (off : Nat) : Option Bytes :=
  if raw.length < off + 4 then none
  else if raw.length < off + 4 + rdLE 4 (raw.drop off) then none
  else some ((raw.drop (off + 4)).take (rdLE 4 (raw.drop off)))

/-- `activeDataProvider.Fetch` of one ID -/
def fetch (cd : IdxCodec) (docs : Bytes) (ix : Index) (id : DocID) : Option Bytes :=
  match lookupPos ix.positions id with
  | none => none
  | some p =>
    match ix.blocks[p.1]? with
    | none => none
    | some bo =>
      match readBlockAt docs bo with
      | none => none
      | some blk =>
        match cd.docsRaw blk with
        | none => none
        | some raw => docAt raw p.2

/-- documents a token leads to -/
def search (ix : Index) (tok : Bytes) : List DocID := (ix.postings.filter fun p => p.1 = tok).map (·.2)

/-! ## a bulk as the ingestor builds it -/

structure LDoc where
  id : DocID
  body : Bytes
  tokens : List Bytes
deriving DecidableEq, Repr

/-- uncompressed docs block payload: `DocProvider.appendDoc` -/
def rawDocs (ds : List LDoc) : Bytes := (ds.map fun d => leN 4 d.body.length ++ d.body).flatten
/-- records of the meta block: `DocProvider.appendMeta` -/
def metasOf (ds : List LDoc) : List DocMeta := ds.map fun d => ⟨d.id, d.body.length, d.tokens⟩

end SV.WPath
