/-!
# C04 - documents inside a decompressed docs block (`disk/docs_reader.go: extractDocsFromBlockFunc`,
written by `frac.DocProvider.appendDoc` / the bulk path: 4-byte little-endian length, then the bytes)
-/
namespace SV.Fetch

/-- `binary.LittleEndian.Uint32(block[off:])` -/
def le32 (block : List Nat) (off : Nat) : Nat :=
  match block.drop off with
  | a :: b :: c :: d :: _ => a + 256 * b + 65536 * c + 16777216 * d
  | _ => 0

/-- `size := Uint32(block[offset:]); doc := block[offset+4 : offset+4+size]` -/
def extractDoc (block : List Nat) (off : Nat) : List Nat :=
  (block.drop (off + 4)).take (le32 block off)

/-- `ReadDocs` for the offsets of one block -/
def extractDocs (block : List Nat) (offs : List Nat) : List (List Nat) := offs.map (extractDoc block)

/-- how a document is laid down in a block -/
def encDoc (d : List Nat) : List Nat :=
  [d.length % 256, d.length / 256 % 256, d.length / 65536 % 256, d.length / 16777216 % 256] ++ d

/-- **a document written at offset `pre.length` is read back verbatim**, whatever surrounds it -/
theorem extractDoc_enc (pre d post : List Nat) (hlen : d.length < 4294967296) :
    extractDoc (pre ++ encDoc d ++ post) pre.length = d := by
  unfold extractDoc le32 encDoc
  have h1 : (pre ++ ([d.length % 256, d.length / 256 % 256, d.length / 65536 % 256, d.length / 16777216 % 256] ++ d) ++ post).drop pre.length
      = [d.length % 256, d.length / 256 % 256, d.length / 65536 % 256, d.length / 16777216 % 256] ++ d ++ post := by
    rw [List.append_assoc, List.drop_left]
  have h2 : (pre ++ ([d.length % 256, d.length / 256 % 256, d.length / 65536 % 256, d.length / 16777216 % 256] ++ d) ++ post).drop (pre.length + 4)
      = d ++ post := by
    rw [← List.drop_drop, h1]; rfl
  rw [h1, h2]
  simp only [List.cons_append, List.nil_append]
  have : d.length % 256 + 256 * (d.length / 256 % 256) + 65536 * (d.length / 65536 % 256) +
      16777216 * (d.length / 16777216 % 256) = d.length := by omega
  rw [this, List.take_left]

end SV.Fetch
