import SeqVerif.Base.Search
import SeqVerif.Model.Kmp
/-!
# Model of /repo/pattern/pattern.go and frac/token/table.go:SelectEntries (C13)

Tokens and fragments are `Bytes = List Nat`.  `bcmp` is `bytes.Compare` / Go's string `<`.
A literal token is a list of `Term`s (`text d` = `parser.TermText`, `star` = `parser.TermSymbol "*"`).
The token provider is `(base, dict)`: TIDs `base .. base+dict.length-1`, `GetToken tid = dict[tid-base]`.
`baseSearch.last` is kept as the EXCLUSIVE end `lastP1 = last+1`, so that Go's `s.last = s.first - 1`
("empty range") needs no negative number; Go's `uint32(s.last)` agrees with this as long as `first ≥ 1`
(both providers start TIDs at 1) - recorded as an assumption in props/C13.json.
-/
namespace SV.Pattern
open SV.Kmp

abbrev Bytes := List Nat

/-- `bytes.Compare` -/
def bcmp : Bytes → Bytes → Ordering
  | [], [] => .eq
  | [], _ :: _ => .lt
  | _ :: _, [] => .gt
  | a :: as, b :: bs => if a < b then .lt else if b < a then .gt else bcmp as bs

/-- `cut(b, l) = b[:min(len(b), l)]` -/
def cut (b : Bytes) (l : Nat) : Bytes := b.take l

inductive Term where
  | text (d : Bytes)
  | star
deriving Repr, DecidableEq

def Term.isText : Term → Bool
  | .text _ => true
  | .star => false

def Term.data : Term → Bytes
  | .text d => d
  | .star => []

/-! ## wildcardSearch -/

structure Wild where
  pre : Bytes
  suf : Bytes
  middle : List SubPat
  middleLen : Nat
  narrowed : Bool
deriving Repr

/-- the text terms at positions `1 .. len-2` -/
def middleTerms (terms : List Term) : List Bytes :=
  (terms.tail.dropLast.filter Term.isText).map Term.data

/-- `newWildcardSearch`.  `none` = Go panics: `terms[0]` on an empty list, or `newSubstringPattern("")`. -/
def newWildcardSearch (terms : List Term) : Option Wild :=
  match terms with
  | [] => none
  | t0 :: _ =>
    let pre := if t0.isText then t0.data else []
    let tl := terms.getLast?.getD .star
    let suf := if tl.isText then tl.data else []
    let mids := middleTerms terms
    match newSubstringPatterns mids with
    | none => none
    | some ms => some ⟨pre, suf, ms, (mids.map List.length).sum, false⟩

def Wild.checkPrefix (s : Wild) (val : Bytes) : Bool :=
  if s.narrowed ∨ s.pre.length = 0 then true
  else if s.pre.length > val.length then false
  else s.pre == val.take s.pre.length

/-- `len(val)-len(s.prefix) < len(s.suffix)` is an `int` comparison: stated without subtraction -/
def Wild.checkSuffix (s : Wild) (val : Bytes) : Bool :=
  if s.suf.length = 0 then true
  else if val.length < s.suf.length + s.pre.length then false
  else val.drop (val.length - s.suf.length) == s.suf

def Wild.checkMiddle (s : Wild) (val : Bytes) : Bool :=
  if s.middle.length = 0 then true
  else if val.length < s.middleLen + s.pre.length + s.suf.length then false
  else findSequence ((val.take (val.length - s.suf.length)).drop s.pre.length) s.middle == s.middle.length

def Wild.check (s : Wild) (val : Bytes) : Bool :=
  s.checkPrefix val && s.checkSuffix val && s.checkMiddle val

/-! ## literalSearch -/

structure Lit where
  value : Bytes
  narrowed : Bool
deriving Repr

def Lit.check (s : Lit) (val : Bytes) : Bool :=
  if s.narrowed then s.value.length == val.length else s.value == val

/-! ## ranges -/

/-- `parser.Range`; an end of kind `TermSymbol` (`*`) is `none` -/
structure Range where
  from_ : Option Bytes
  to : Option Bytes
  includeFrom : Bool
  includeTo : Bool
deriving Repr

def Range.checkText (r : Range) (val : Bytes) : Bool :=
  (match r.from_ with
    | none => true
    | some f => if r.includeFrom then bcmp f val != .gt else bcmp f val == .lt) &&
  (match r.to with
    | none => true
    | some t => if r.includeTo then bcmp val t != .gt else bcmp val t == .lt)

/-- `rangeNumberSearch`; numbers are order keys of finite float64s (an `Int` that is strictly monotone in the
float, `+0`/`-0` ↦ 0), supplied by the oracle `pf = strconv.ParseFloat` + `isNaNOrInf` (none = error/NaN/Inf) -/
structure NumRange where
  from_ : Int
  includeFrom : Bool
  to : Int
  includeTo : Bool
deriving Repr

/-- `NewRangeNumberSearch`; `maxKey` = key of `math.MaxFloat64`; `none` = "return nil" (fall back to text) -/
def newRangeNumberSearch (pf : Bytes → Option Int) (maxKey : Int) (r : Range) : Option NumRange :=
  let fr : Option (Int × Bool) :=
    match r.from_ with
    | none => some (-maxKey, true)
    | some f => (pf f).map fun x => (x, r.includeFrom)
  match fr with
  | none => none
  | some (f, fi) =>
    let tr : Option (Int × Bool) :=
      match r.to with
      | none => some (maxKey, true)
      | some t => (pf t).map fun x => (x, r.includeTo)
    match tr with
    | none => none
    | some (t, ti) => some ⟨f, fi, t, ti⟩

def NumRange.check (pf : Bytes → Option Int) (s : NumRange) (rawVal : Bytes) : Bool :=
  match pf rawVal with
  | none => false
  | some val =>
    (if s.includeFrom then decide (s.from_ ≤ val) else decide (s.from_ < val)) &&
    (if s.includeTo then decide (val ≤ s.to) else decide (val < s.to))

/-- order key of `math.MaxFloat64` (its IEEE-754 bit pattern 0x7FEFFFFFFFFFFFFF) -/
def maxFloatKey : Int := 9218868437227405311

/-- the `check` of the searcher that `newSearcher` builds for a literal token (`literalSearch` for a single text
term, `wildcardSearch` otherwise), with the `narrowed` flag as given; `none` = panic -/
def checkTerms (terms : List Term) (narrowed : Bool) (v : Bytes) : Option Bool :=
  match terms with
  | [.text d] => some ((⟨d, narrowed⟩ : Lit).check v)
  | _ => (newWildcardSearch terms).map fun s => ({ s with narrowed := narrowed } : Wild).check v

/-! ## tokens, providers, newSearcher, Search -/

inductive Token where
  | literal (terms : List Term)
  | range (r : Range)
deriving Repr

structure Provider where
  base : Nat
  dict : List Bytes
  ordered : Bool
deriving Repr

def Provider.getToken (tp : Provider) (tid : Nat) : Bytes := tp.dict.getD (tid - tp.base) []
def Provider.firstTID (tp : Provider) : Nat := tp.base
/-- `LastTID()+1` -/
def Provider.lastP1 (tp : Provider) : Nat := tp.base + tp.dict.length

/-- `util.BinSearchInRange(from, to, fn)` with `to = lastP1-1`: `n = to-from+1`, `from + sort.Search(n, ..)` -/
def binSearch (first lastP1 : Nat) (f : Nat → Bool) : Nat :=
  first + SV.searchGo (fun i => f (first + i)) 0 (lastP1 - first)

inductive Kind where
  | lit (s : Lit)
  | wild (s : Wild)
  | rtext (r : Range)
  | rnum (s : NumRange)
deriving Repr

structure Searcher where
  first : Nat
  lastP1 : Nat
  kind : Kind
deriving Repr

/-- `literalSearch.Narrow` -/
def narrowLit (tp : Provider) (first lastP1 : Nat) (value : Bytes) : Searcher :=
  let first' := binSearch first lastP1 fun tid => bcmp (tp.getToken tid) value != .lt
  if first' < lastP1 ∧ tp.getToken first' == value then
    ⟨first', first' + 1, .lit ⟨value, true⟩⟩
  else
    ⟨first', first', .lit ⟨value, true⟩⟩

/-- `wildcardSearch.Narrow` -/
def narrowWild (tp : Provider) (first lastP1 : Nat) (s : Wild) : Searcher :=
  let l := s.pre.length
  let first' := binSearch first lastP1 fun tid => bcmp (cut (tp.getToken tid) l) s.pre != .lt
  let last' := binSearch first' lastP1 fun tid => bcmp (cut (tp.getToken tid) l) s.pre == .gt
  ⟨first', last', .wild { s with narrowed := true }⟩

/-- `newSearcher`; `none` = panic (see `newWildcardSearch`) -/
def newSearcher (pf : Bytes → Option Int) (maxKey : Int) (token : Token) (tp : Provider) : Option Searcher :=
  let first := tp.firstTID
  let lastP1 := tp.lastP1
  match token with
  | .literal [.text d] =>
    if tp.ordered then some (narrowLit tp first lastP1 d) else some ⟨first, lastP1, .lit ⟨d, false⟩⟩
  | .literal terms =>
    match newWildcardSearch terms with
    | none => none
    | some s => if tp.ordered then some (narrowWild tp first lastP1 s) else some ⟨first, lastP1, .wild s⟩
  | .range r =>
    match newRangeNumberSearch pf maxKey r with
    | some s => some ⟨first, lastP1, .rnum s⟩
    | none => some ⟨first, lastP1, .rtext r⟩

def Kind.check (pf : Bytes → Option Int) : Kind → Bytes → Bool
  | .lit s, v => s.check v
  | .wild s, v => s.check v
  | .rtext r, v => r.checkText v
  | .rnum s, v => s.check pf v

/-- the loop of `Search`: `for tid := first; tid <= last; tid++ { if check(GetToken(tid)) { append } }` -/
def Searcher.run (pf : Bytes → Option Int) (s : Searcher) (tp : Provider) : List Nat :=
  (List.range' s.first (s.lastP1 - s.first)).filter fun tid => s.kind.check pf (tp.getToken tid)

/-- `pattern.Search` (context cancellation not modelled); `none` = panic -/
def search (pf : Bytes → Option Int) (maxKey : Int) (token : Token) (tp : Provider) : Option (List Nat) :=
  (newSearcher pf maxKey token tp).map fun s => s.run pf tp

/-! ## the active fraction's path -/

/-- `TokenList.FindPattern` (frac/active_token_list.go): `entries` = the field's `(tid, value)` pairs in arrival
order (`FieldTIDs[field]` resolved through `tidToVal`).  `activeTokenProvider` is unordered, its TIDs are the
positions `1..n` (`GetToken(p) = tidToVal[inverseIndex[p-1]]`), and `inverseTIDs` maps the positions found back to
the real TIDs.  `none` = panic. -/
def activeFind (pf : Bytes → Option Int) (maxKey : Int) (token : Token) (entries : List (Nat × Bytes)) :
    Option (List Nat) :=
  (search pf maxKey token ⟨1, entries.map (·.2), false⟩).map fun ps =>
    ps.map fun p => (entries.getD (p - 1) (0, [])).1

/-! ## token.Provider (frac/token/provider.go): the ordered provider over selected table entries -/

/-- `token.TableEntry` as far as `Provider` uses it (`StartIndex`/`BlockIndex` only locate the run inside a physical
block and are abstracted: `blocks[i]` is the run of entry `i`) -/
structure Entry where
  startTID : Nat
  valCount : Nat
deriving Repr, DecidableEq

/-- `getLastTID`: `StartTID + ValCount - 1` -/
def Entry.lastTID (e : Entry) : Nat := e.startTID + e.valCount - 1

/-- `checkTIDInBlock` -/
def Entry.checkTIDInBlock (e : Entry) (tid : Nat) : Bool :=
  if tid < e.startTID then false else if tid > e.lastTID then false else true

/-- `Provider.findBlock`: fast path on the current block, else `sort.Search` on `getLastTID` -/
def findBlock (es : List Entry) (cur : Option Nat) (tid : Nat) : Nat :=
  let slow := SV.searchGo (fun i => decide (tid ≤ (es.getD i ⟨0, 0⟩).lastTID)) 0 es.length
  match cur with
  | some c => if (es.getD c ⟨0, 0⟩).checkTIDInBlock tid then c else slow
  | none => slow

/-- `Provider.GetToken`: returns the token and the new `curBlockIndex` -/
def providerGetToken (es : List Entry) (blocks : List (List Bytes)) (cur : Option Nat) (tid : Nat) : Bytes × Option Nat :=
  let bi := findBlock es cur tid
  ((blocks.getD bi []).getD (tid - (es.getD bi ⟨0, 0⟩).startTID) [], some bi)

/-- the entries the sealing code writes for consecutive runs starting at TID `base` -/
def mkEntries (base : Nat) : List (List Bytes) → List Entry
  | [] => []
  | b :: bs => ⟨base, b.length⟩ :: mkEntries (base + b.length) bs

/-- a sequence of `GetToken` calls on one provider (it keeps `curBlockIndex` between calls) -/
def providerGetTokens (es : List Entry) (blocks : List (List Bytes)) : Option Nat → List Nat → List Bytes
  | _, [] => []
  | cur, tid :: rest =>
    let r := providerGetToken es blocks cur tid
    r.1 :: providerGetTokens es blocks r.2 rest

/-! ## token.Table.SelectEntries and the sealed path -/

/-- `SelectEntries` on one field's data: `minVal`, the entries' `MaxVal`s; result = `(l, r)` of `Entries[l:r]`
(`Entries[:0]` = `(0,0)`).  Requires at least one entry (Go would panic slicing otherwise). -/
def selectEntries (hint minVal : Bytes) (maxVals : List Bytes) : Nat × Nat :=
  if hint = [] then (0, maxVals.length)
  else
    let hl := hint.length
    if bcmp hint (cut minVal hl) == .lt then (0, 0)
    else
      let r := 1 + SV.searchGo (fun i => bcmp hint (cut (maxVals.getD i []) hl) == .lt) 0 (maxVals.length - 1)
      let l := SV.searchGo (fun i => bcmp hint (cut (maxVals.getD i []) hl) != .gt) 0 r
      (l, r)

/-- `parser.GetHint`; `none` = panic (`t.Terms[0]` on an empty term list) -/
def getHint : Token → Option Bytes
  | .literal [] => none
  | .literal (.text d :: _) => some d
  | _ => some []

/-- `FieldData.MinVal`: the first token of the field's first entry -/
def minValOf (blocks : List (List Bytes)) : Bytes := (blocks.headD []).headD []
/-- the entries' `MaxVal`s: the last token of each entry -/
def maxValsOf (blocks : List (List Bytes)) : List Bytes := blocks.map fun b => b.getLast?.getD []

/-- `sealedTokenIndex.GetTIDsByTokenExpr` on one field: `blocks` = the field's token-table entries (each a
non-empty run of the sorted dictionary), first TID `base`.  `none` = panic. -/
def sealedSearch (pf : Bytes → Option Int) (maxKey : Int) (token : Token) (base : Nat) (blocks : List (List Bytes)) :
    Option (List Nat) :=
  match getHint token with
  | none => none
  | some hint =>
    let lr := selectEntries hint (minValOf blocks) (maxValsOf blocks)
    let sel := (blocks.take lr.2).drop lr.1
    if sel.length = 0 then some []
    else
      let startTID := base + ((blocks.take lr.1).map List.length).sum
      search pf maxKey token ⟨startTID, sel.flatten, true⟩

/-- a sequence of `GetTIDsByTokenExpr` calls served by ONE `sealedTokenIndex` (one search request serves every leaf
of its query through the same index instance).  The index keeps nothing between calls - a new provider over freshly
selected entries per call - so the model of a sequence is the call-by-call map: the answer to a call depends only on
its own token.  Each element names its field by index into `fields` (`(base, blocks)` per field). -/
def sealedSearchSeq (pf : Bytes → Option Int) (maxKey : Int) (fields : List (Nat × List (List Bytes)))
    (calls : List (Nat × Token)) : List (Option (List Nat)) :=
  calls.map fun c =>
    let fb := fields.getD c.1 (0, [])
    sealedSearch pf maxKey c.2 fb.1 fb.2

end SV.Pattern
