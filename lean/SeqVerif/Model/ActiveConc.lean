/-!
# Model of the active fraction's index under concurrent writers and readers (C07)

Shared state = the pieces of `frac.Active` that index workers update one critical section at a time
(`frac/active_indexer.go:appendWorker`) and that data providers read one critical section at a time
(`frac/active.go:createDataProvider`, `frac/active_index.go:getIDsIndex / GetLIDsFromTIDs / Fetch`).

Writer (one per bulk; any number run concurrently, one per index worker):
```
wNew      task taken from the channel
wBlock    blockIndex := DocBlocks.Append(pos)
wPos      DocsPositions.SetMultiple(ids, positions)   (+ collector.Filter when duplicates were dropped)
wIds      lids := AppendIDs(ids)                      (MIDs and RIDs under both locks)
wToks     TokenList.Append(...) ; GroupLIDsByToken    (creates token entries; no LIDs visible yet)
wQueue    one PutLIDsInQueue (addLIDsToTokens walks the tokens in collector order; `_all_` is the first
          token of every document, so it is the first call)
wStats    UpdateStats(min, max, count, size)
wDone     task.Wg.Done()
```
Reader (search): `rInfo` (DocsTotal == 0 -> Empty; else Info() copy), `rBlocks` (DocBlocks.GetVals()),
`rMapping` (allTokenLIDs.GetLIDs), `rMids`, `rRids` (GetVals), one `rLeaf` per query leaf
(`tlids.GetLIDs` then `inverseLIDs`), `rEval` (tree evaluation over the snapshot, range clamped to the
info copy).  Reader (fetch): `rInfo`, `rBlocks`, then `rFetch id` (live `DocsPositions.GetSync`, then
`blocksOffsets[blockIndex]` on the snapshot).

Abstractions: a token's `sorted`+`queue` pair is one list (a reader always merges the queue first); token
values/TIDs are abstract `Nat`s; a position is (block index, index of the document in its bulk); the system
entry at LID 0 and nested documents are not modelled; documents carry their token set as ghost data so
that "satisfies the query" can be stated.
-/
namespace SV.ActiveConc

structure Doc where
  mid : Nat
  rid : Nat
  toks : List Nat
deriving DecidableEq, Repr

abbrev ID := Nat × Nat
def Doc.id (d : Doc) : ID := (d.mid, d.rid)

inductive Query
  | tok (t : Nat)
  | and (a b : Query)
  | or (a b : Query)
  | not (a : Query)
deriving DecidableEq, Repr

def sat : Query → Doc → Bool
  | .tok t, d => d.toks.contains t
  | .and a b, d => sat a d && sat b d
  | .or a b, d => sat a d || sat b d
  | .not a, d => !sat a d

def Query.positive : Query → Bool
  | .tok _ => true
  | .and a b => a.positive && b.positive
  | .or a b => a.positive && b.positive
  | .not _ => false

/-- leaves in the order `buildEvalTree` evaluates them -/
def Query.leaves : Query → List Nat
  | .tok t => [t]
  | .and a b => a.leaves ++ b.leaves
  | .or a b => a.leaves ++ b.leaves
  | .not a => a.leaves

abbrev Range := Option (Nat × Nat)

def inR (r : Range) (m : Nat) : Bool :=
  match r with
  | none => false
  | some (a, b) => a ≤ m && m ≤ b

/-- `UpdateStats`: From = min(From, lo), To = max(To, hi) -/
def widen (r : Range) (lo hi : Nat) : Range :=
  match r with
  | none => some (lo, hi)
  | some (a, b) => some (min a lo, max b hi)

/-- collector.MinMID / MaxMID of the documents that were kept -/
def statsOf (docs : List Doc) : Range := docs.foldl (fun r d => widen r d.mid d.mid) none

def merge (r s : Range) : Range :=
  match s with
  | none => r
  | some (lo, hi) => widen r lo hi

structure Sh where
  blocks : Nat := 0                         -- len(DocBlocks)
  pos : List (ID × (Nat × Nat)) := []       -- DocsPositions
  ids : List Doc := []                      -- MIDs / RIDs, LID = index
  all : List Nat := []                      -- LIDs of `_all_`
  tok : Nat → List Nat := fun _ => []       -- LIDs per token
  created : List Nat := []                  -- tokens whose TokenLIDs object exists (tokenLIDsWorker maps)
  dict : List Nat := []                     -- tokens a reader can find: registered in tidToVal and FieldTIDs
  lock : Bool := false                      -- TokenList.appendMu (repaired code only)
  range : Range := none                     -- info.From / info.To
  docsTotal : Nat := 0
  submitted : List Doc := []                -- ghost: documents of every bulk handed to an index worker

inductive WPc
  | idle | start | block | pos | ids | tokget | queue | stats | done
deriving DecidableEq, Repr

structure W where
  pc : WPc := .idle
  docs : List Doc := []                     -- collector.IDs (after Filter once `pos` is reached)
  blk : Nat := 0
  napp : Nat := 0                           -- len(appendedIDs) = collector.DocsCounter after Filter
  base : Nat := 0                           -- first LID handed out by AppendIDs
  toks : List Nat := []                     -- collector.TokensValues without `_all_` (Filter does not shrink it)
  newToks : List Nat := []                  -- tokens getTokenLIDs reported as new to this Append
  todo : List (Option Nat × List Nat) := [] -- remaining PutLIDsInQueue calls (none = `_all_`)

inductive RPc
  | idle | start | info | blocks | mapping | mids | rids | done
deriving DecidableEq, Repr

inductive FetchRes
  | notFound | found (blk off : Nat) | panic
deriving DecidableEq, Repr

structure R where
  pc : RPc := .idle
  q : Query := .tok 0
  qfrom : Nat := 0
  qto : Nat := 0
  range : Range := none                     -- info copy
  nblocks : Nat := 0                        -- len(blocksOffsets)
  nidsAt : Nat := 0                         -- ghost: len(MIDs) when the blocks snapshot was taken
  mapping : List Nat := []
  nmids : Nat := 0
  nrids : Nat := 0
  todo : List Nat := []                     -- leaves still to read
  got : List (Nat × List Nat) := []         -- leaves read: (token, LIDs that passed inverseLIDs)
  result : List Nat := []                   -- LIDs returned (IDs = ids[lid])
  fetched : List (ID × FetchRes) := []

structure St where
  sh : Sh := {}
  ws : Nat → W := fun _ => {}
  rs : Nat → R := fun _ => {}

def init : St := {}

def setW (ws : Nat → W) (i : Nat) (w : W) : Nat → W := fun j => if j = i then w else ws j
def setR (rs : Nat → R) (i : Nat) (r : R) : Nat → R := fun j => if j = i then r else rs j

/-- `DocsPositions.SetMultiple`: keeps an id when it is new or already stored with the same position -/
def setMultiple (blk : Nat) : List Doc → Nat → List (ID × (Nat × Nat)) → List (ID × (Nat × Nat)) × List Doc
  | [], _, pos => (pos, [])
  | d :: ds, k, pos =>
    match pos.lookup d.id with
    | none =>
      let r := setMultiple blk ds (k + 1) ((d.id, (blk, k)) :: pos)
      (r.1, d :: r.2)
    | some p =>
      if p = (blk, k) then
        let r := setMultiple blk ds (k + 1) pos
        (r.1, d :: r.2)
      else setMultiple blk ds (k + 1) pos

/-- LIDs (base + index) of the documents that carry token `t` -/
def lidsWith (t : Nat) : List Doc → Nat → List Nat
  | [], _ => []
  | d :: ds, l => if d.toks.contains t then l :: lidsWith t ds (l + 1) else lidsWith t ds (l + 1)

def dedup : List Nat → List Nat
  | [] => []
  | x :: xs => x :: (dedup xs).filter (· != x)

/-- collector.TokensValues of a bulk (without `_all_`): every distinct token in order of first appearance -/
def bulkToks (bulk : List Doc) : List Nat := dedup (bulk.flatMap (·.toks))

/-- the PutLIDsInQueue calls of one bulk: every token of the bulk as it arrived (`toks`), each with the LIDs of the
documents that were kept, and `_all_` - first in collector order (the code as first read, `allLast = false`: it is
the first token of every document) or last (`allLast = true`: the repaired loop walks the tokens backwards) -/
def queueCalls (allLast : Bool) (toks : List Nat) (docs : List Doc) (base : Nat) : List (Option Nat × List Nat) :=
  if allLast then toks.reverse.map (fun t => (some t, lidsWith t docs base)) ++ [(none, List.range' base docs.length)]
  else (none, List.range' base docs.length) :: toks.map (fun t => (some t, lidsWith t docs base))

/-- evaluation of the query tree over the leaves that were read (consumed in order) -/
def evalQ : Query → List (Nat × List Nat) → Nat → Bool × List (Nat × List Nat)
  | .tok t, got, l =>
    match got with
    | [] => (false, [])
    | (t', ls) :: rest => (t' == t && ls.contains l, rest)
  | .and a b, got, l =>
    let ra := evalQ a got l
    let rb := evalQ b ra.2 l
    (ra.1 && rb.1, rb.2)
  | .or a b, got, l =>
    let ra := evalQ a got l
    let rb := evalQ b ra.2 l
    (ra.1 || rb.1, rb.2)
  | .not a, got, l =>
    let ra := evalQ a got l
    (!ra.1, ra.2)

inductive Label
  | wNew (i : Nat) (bulk : List Doc)
  | wBlock (i : Nat) | wPos (i : Nat) | wIds (i : Nat) | wTokGet (i : Nat) | wToks (i : Nat) | wQueue (i : Nat)
  | wStats (i : Nat)
  | wDone (i : Nat)
  | rNew (i : Nat) (q : Query) (qfrom qto : Nat)
  | rInfo (i : Nat) | rBlocks (i : Nat) | rMapping (i : Nat) | rMids (i : Nat) | rRids (i : Nat)
  | rLeaf (i : Nat) | rEval (i : Nat) | rFetch (i : Nat) (id : ID) | rClose (i : Nat)
deriving Repr

def putQueue (sh : Sh) (t : Option Nat) (ls : List Nat) : Sh :=
  match t with
  | none => { sh with all := sh.all ++ ls }
  | some t => { sh with tok := fun u => if u = t then sh.tok u ++ ls else sh.tok u }

/-- `GetDocPos` on the live positions, then `GetBlocksOffsets` on the provider's snapshot of `nblocks` entries;
`live = true`: the repaired `GetBlocksOffsets` re-reads `DocBlocks` when the index is past the snapshot -/
def fetchOne (live : Bool) (sh : Sh) (nblocks : Nat) (id : ID) : FetchRes :=
  match sh.pos.lookup id with
  | none => .notFound
  | some (b, off) => if b < nblocks || (live && b < sh.blocks) then .found b off else .panic

/-- what the extractor reads off the code (`SV.Extracted.C07`): is `_all_` queued last, does the fetch index
re-read `DocBlocks` -/
structure Cfg where
  allLast : Bool
  live : Bool
  tlLock : Bool    -- TokenList.Append runs under one mutex (token creation and registration are one critical section)
deriving DecidableEq, Repr

/-- the code as first read -/
def Cfg.asRead : Cfg := ⟨false, false, false⟩

def step (c : Cfg) (s : St) : Label → Option St
  | .wNew i bulk =>
    if (s.ws i).pc = .idle then
      some { s with sh := { s.sh with submitted := s.sh.submitted ++ bulk },
                    ws := setW s.ws i { pc := .start, docs := bulk, toks := bulkToks bulk } }
    else none
  | .wBlock i =>
    let w := s.ws i
    if w.pc = .start then
      some { s with sh := { s.sh with blocks := s.sh.blocks + 1 },
                    ws := setW s.ws i { w with pc := .block, blk := s.sh.blocks } }
    else none
  | .wPos i =>
    let w := s.ws i
    if w.pc = .block then
      let r := setMultiple w.blk w.docs 0 s.sh.pos
      -- collector.Filter keeps every entry whose ID is among the appended ones (getIndexesOfIntercept), so a
      -- second copy of an ID inside the same bulk survives although its own position was refused
      let kept := w.docs.filter fun d => (r.2.map Doc.id).contains d.id
      some { s with sh := { s.sh with pos := r.1 },
                    ws := setW s.ws i { w with pc := .pos, docs := kept, napp := r.2.length } }
    else none
  | .wIds i =>
    let w := s.ws i
    if w.pc = .pos then
      some { s with sh := { s.sh with ids := s.sh.ids ++ w.docs },
                    ws := setW s.ws i { w with pc := .ids, base := s.sh.ids.length } }
    else none
  | .wTokGet i =>
    -- TokenList.Append, first half: getTokenLIDs - the per-hash workers hand out the TokenLIDs objects and report
    -- which tokens they had to create
    let w := s.ws i
    if w.pc = .ids ∧ (c.tlLock = true → s.sh.lock = false) then
      let nw := w.toks.filter fun t => !s.sh.created.contains t
      some { s with sh := { s.sh with created := s.sh.created ++ nw, lock := c.tlLock },
                    ws := setW s.ws i { w with pc := .tokget, newToks := nw } }
    else none
  | .wToks i =>
    -- TokenList.Append, second half: createTIDs + fillFieldTIDs for the tokens this Append created (only now can a
    -- reader's FindPattern see them); then GroupLIDsByToken
    let w := s.ws i
    if w.pc = .tokget then
      some { s with sh := { s.sh with dict := s.sh.dict ++ w.newToks, lock := false },
                    ws := setW s.ws i { w with pc := .queue, todo := queueCalls c.allLast w.toks w.docs w.base } }
    else none
  | .wQueue i =>
    let w := s.ws i
    if w.pc = .queue then
      match w.todo with
      | [] => none
      | (t, ls) :: rest => some { s with sh := putQueue s.sh t ls, ws := setW s.ws i { w with todo := rest } }
    else none
  | .wStats i =>
    let w := s.ws i
    if w.pc = .queue ∧ w.todo = [] then
      some { s with sh := { s.sh with range := merge s.sh.range (statsOf w.docs),
                                      docsTotal := s.sh.docsTotal + w.napp },
                    ws := setW s.ws i { w with pc := .stats } }
    else none
  | .wDone i =>
    let w := s.ws i
    if w.pc = .stats then some { s with ws := setW s.ws i { w with pc := .done } } else none
  | .rNew i q qfrom qto =>
    if (s.rs i).pc = .idle then
      some { s with rs := setR s.rs i { pc := .start, q := q, qfrom := qfrom, qto := qto } }
    else none
  | .rInfo i =>
    let r := s.rs i
    if r.pc = .start then
      if s.sh.docsTotal = 0 then   -- EmptyDataProvider: nothing is read
        some { s with rs := setR s.rs i { pc := .done, q := r.q, qfrom := r.qfrom, qto := r.qto } }
      else some { s with rs := setR s.rs i { r with pc := .info, range := s.sh.range } }
    else none
  | .rBlocks i =>
    let r := s.rs i
    if r.pc = .info then
      some { s with rs := setR s.rs i { r with pc := .blocks, nblocks := s.sh.blocks, nidsAt := s.sh.ids.length } }
    else none
  | .rMapping i =>
    let r := s.rs i
    if r.pc = .blocks then some { s with rs := setR s.rs i { r with pc := .mapping, mapping := s.sh.all } }
    else none
  | .rMids i =>
    let r := s.rs i
    if r.pc = .mapping then some { s with rs := setR s.rs i { r with pc := .mids, nmids := s.sh.ids.length } }
    else none
  | .rRids i =>
    let r := s.rs i
    if r.pc = .mids then
      some { s with rs := setR s.rs i { r with pc := .rids, nrids := s.sh.ids.length, todo := r.q.leaves } }
    else none
  | .rLeaf i =>
    let r := s.rs i
    if r.pc = .rids then
      match r.todo with
      | [] => none
      | t :: rest =>
        -- FindPattern over FieldTIDs: a token that is not registered yet has no TID, hence no list at all
        let ls := if s.sh.dict.contains t then
            (s.sh.tok t).filter (fun l => decide (l < r.nmids) && r.mapping.contains l)   -- inverseLIDs
          else []
        some { s with rs := setR s.rs i { r with todo := rest, got := r.got ++ [(t, ls)] } }
    else none
  | .rEval i =>
    let r := s.rs i
    if r.pc = .rids ∧ r.todo = [] then
      let res := r.mapping.filter fun l =>
        match s.sh.ids[l]? with
        | none => false
        | some d => inR r.range d.mid && decide (r.qfrom ≤ d.mid) && decide (d.mid ≤ r.qto) && (evalQ r.q r.got l).1
      some { s with rs := setR s.rs i { r with pc := .done, result := res } }
    else none
  | .rFetch i id =>
    let r := s.rs i
    if r.pc = .blocks then
      some { s with rs := setR s.rs i { r with fetched := r.fetched ++ [(id, fetchOne c.live s.sh r.nblocks id)] } }
    else none
  | .rClose i =>
    let r := s.rs i
    if r.pc = .blocks then some { s with rs := setR s.rs i { r with pc := .done } } else none

def run (c : Cfg) : St → List Label → Option St
  | s, [] => some s
  | s, l :: ls => match step c s l with
    | some s' => run c s' ls
    | none => none

def firstBad (c : Cfg) : St → List Label → Nat → Option Nat
  | _, [], _ => none
  | s, l :: ls, i => match step c s l with
    | some s' => firstBad c s' ls (i + 1)
    | none => some i

def Reachable (c : Cfg) (s : St) : Prop := ∃ tr, run c init tr = some s

theorem reachable_induct (c : Cfg) (P : St → Prop) (h0 : P init)
    (hstep : ∀ s l s', P s → step c s l = some s' → P s') : ∀ s, Reachable c s → P s := by
  intro s ⟨tr, htr⟩
  have : ∀ (tr : List Label) (a b : St), P a → run c a tr = some b → P b := by
    intro tr
    induction tr with
    | nil => intro a b ha h; simp [run] at h; exact h ▸ ha
    | cons l ls ih =>
      intro a b ha h
      simp only [run] at h
      cases hs : step c a l with
      | none => simp [hs] at h
      | some a' => rw [hs] at h; exact ih a' b (hstep a l a' ha hs) h
  exact this tr init s h0 htr

/-! ### witness schedules (used by the theorems of `Props/C07.lean` and replayed on the real code by the harness) -/

/-- bulk 0 completely indexed; bulk 1 stopped right after its first `PutLIDsInQueue`; a reader for `NOT 5` -/
def witnessNot : List Label :=
  [.wNew 0 [⟨1, 1, [5]⟩], .wBlock 0, .wPos 0, .wIds 0, .wTokGet 0, .wToks 0, .wQueue 0, .wQueue 0, .wStats 0, .wDone 0,
   .wNew 1 [⟨1, 2, [5]⟩], .wBlock 1, .wPos 1, .wIds 1, .wTokGet 1, .wToks 1, .wQueue 1,
   .rNew 0 (.not (.tok 5)) 0 10, .rInfo 0, .rBlocks 0, .rMapping 0, .rMids 0, .rRids 0, .rLeaf 0, .rEval 0]

/-- provider created, then bulk 1 appends its block and positions, then the fetch -/
def witnessFetch : List Label :=
  [.wNew 0 [⟨1, 1, [5]⟩], .wBlock 0, .wPos 0, .wIds 0, .wTokGet 0, .wToks 0, .wQueue 0, .wQueue 0, .wStats 0, .wDone 0,
   .rNew 0 (.tok 5) 0 10, .rInfo 0, .rBlocks 0, .wNew 1 [⟨1, 2, [5]⟩], .wBlock 1, .wPos 1, .rFetch 0 (1, 2)]

/-- token 5 is created by bulk 0 (`wTokGet 0`) but not yet registered when bulk 1, which meets it as "existing", queues
all its LIDs (`_all_` last) - a reader for `NOT 5` finds no such token -/
def witnessDict : List Label :=
  [.wNew 0 [⟨1, 1, [5]⟩], .wBlock 0, .wPos 0, .wIds 0, .wTokGet 0,
   .wNew 1 [⟨1, 2, [5]⟩], .wBlock 1, .wPos 1, .wIds 1, .wTokGet 1, .wToks 1, .wQueue 1, .wQueue 1, .wStats 1, .wDone 1,
   .rNew 0 (.not (.tok 5)) 0 10, .rInfo 0, .rBlocks 0, .rMapping 0, .rMids 0, .rRids 0, .rLeaf 0, .rEval 0]

end SV.ActiveConc
