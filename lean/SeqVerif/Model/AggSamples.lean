set_option linter.unusedSimpArgs false
/-!
# seq.SamplesContainer (seq/qpr.go) in exact arithmetic

`SC` follows the Go struct field by field.  Values are exact integers (`Int`) instead of `float64`
(DESIGN C06 gap: IEEE addition is not associative; the correspondence runs on integer-valued data where
float arithmetic is exact).  `Total` / `NotExists` are counts (`Nat`).

`lim` is `maxHistogramSamples`; `pick` is the slot the container's private PRNG chooses once the reservoir is
full (environment - nothing is claimed about that branch, the property is scoped to `<= lim` samples).
-/
namespace SV.Agg

structure SC where
  min : Int
  max : Int
  sum : Int
  total : Nat
  notExists : Nat
  samples : List Int
deriving DecidableEq, Repr, Inhabited

/-- `float64(math.MaxInt64)`: the conversion of the constant rounds to 2^63 -/
def maxInt64 : Int := 9223372036854775808
def minInt64 : Int := -9223372036854775808

/-- `NewSamplesContainers()` -/
def SC.new : SC := ⟨maxInt64, minInt64, 0, 0, 0, []⟩

/-- the `Samples` slice part of `InsertSample` -/
def insertSampleL (lim : Nat) (pick : List Int → Nat) (s : List Int) (v : Int) : List Int :=
  if s.length < lim then s ++ [v] else s.set (pick s % lim) v

/-- `SamplesContainer.InsertSample` -/
def SC.insertSample (lim : Nat) (pick : List Int → Nat) (h : SC) (v : Int) : SC :=
  { h with samples := insertSampleL lim pick h.samples v }

/-- `SamplesContainer.InsertSampleNTimes` -/
def SC.insertSampleNTimes (lim : Nat) (pick : List Int → Nat) (h : SC) (v : Int) : Nat → SC
  | 0 => h
  | n + 1 => SC.insertSampleNTimes lim pick (h.insertSample lim pick v) v n

/-- `SamplesContainer.InsertNTimes` -/
def SC.insertNTimes (h : SC) (num : Int) (cnt : Nat) : SC :=
  { h with
    min := if h.total = 0 then num else Min.min h.min num
    max := if h.total = 0 then num else Max.max h.max num
    sum := h.sum + num * cnt
    total := h.total + cnt }

/-- `SamplesContainer.Merge` (h.Merge(hist)) -/
def SC.merge (lim : Nat) (pick : List Int → Nat) (h hist : SC) : SC :=
  if hist.total = 0 then { h with notExists := h.notExists + hist.notExists }
  else
    { min := if h.total = 0 then hist.min else Min.min h.min hist.min
      max := if h.total = 0 then hist.max else Max.max h.max hist.max
      sum := h.sum + hist.sum
      total := h.total + hist.total
      notExists := h.notExists + hist.notExists
      samples := hist.samples.foldl (insertSampleL lim pick) h.samples }

/-! ## sorting (slices.Sort on the samples) -/

def insertSorted (a : Int) : List Int → List Int
  | [] => [a]
  | b :: l => if a ≤ b then a :: b :: l else b :: insertSorted a l

def isort : List Int → List Int
  | [] => []
  | a :: l => insertSorted a (isort l)

/-- a float64 value of the result: NaN or an exact rational `n / d` (`d > 0`; `d = 1` for integers) -/
inductive Val
  | nan
  | rat (n : Int) (d : Nat)
deriving DecidableEq, Repr, Inhabited

def Val.int (n : Int) : Val := .rat n 1

/-- index used by `Quantile`: `int(float64(len-1)*q + 0.5)` for `q = qn/qd` -/
def quantileIndex (len qn qd : Nat) : Nat := ((len - 1) * qn * 2 + qd) / (2 * qd)

/-- `SamplesContainer.Quantile(qn/qd)`, `0 <= qn <= qd`, `qd > 0` (range checked by the proxy).
`fixed = false`: the code as found (NaN whenever there are no samples, before the 0 / 1 shortcuts);
`fixed = true`: the repaired order of fixes/C06-quantile-min-max-only.patch (NaN on `Total == 0`, then the 0 / 1
shortcuts, then NaN on no samples).  Which one the source has is re-extracted on every run (`quantileFixed`). -/
def SC.quantile (fixed : Bool) (h : SC) (qn qd : Nat) : Val :=
  if fixed then
    if h.total = 0 then .nan
    else if qn = qd then .int h.max
    else if qn = 0 then .int h.min
    else if h.samples = [] then .nan
    else .int ((isort h.samples).getD (quantileIndex h.samples.length qn qd) 0)
  else
    if h.samples = [] then .nan
    else if qn = qd then .int h.max
    else if qn = 0 then .int h.min
    else .int ((isort h.samples).getD (quantileIndex h.samples.length qn qd) 0)

/-- `Quantile` sorts `h.Samples` in place when it reaches the index computation -/
def SC.afterQuantile (fixed : Bool) (h : SC) (qn qd : Nat) : SC :=
  if (fixed ∧ h.total = 0) ∨ h.samples = [] ∨ qn = qd ∨ qn = 0 then h else { h with samples := isort h.samples }

/-! ## lemmas: sorting -/

theorem insertSorted_perm (a : Int) (l : List Int) : (insertSorted a l).Perm (a :: l) := by
  induction l with
  | nil => simp [insertSorted]
  | cons b l ih =>
    simp only [insertSorted]
    split
    · exact List.Perm.refl _
    · exact (List.Perm.cons b ih).trans (List.Perm.swap a b l)

theorem isort_perm (l : List Int) : (isort l).Perm l := by
  induction l with
  | nil => simp [isort]
  | cons a l ih => exact (insertSorted_perm a (isort l)).trans (List.Perm.cons a ih)

theorem insertSorted_sorted (a : Int) (l : List Int) (h : l.Pairwise (· ≤ ·)) :
    (insertSorted a l).Pairwise (· ≤ ·) := by
  induction l with
  | nil => simp [insertSorted]
  | cons b l ih =>
    have hb := List.pairwise_cons.mp h
    simp only [insertSorted]
    split
    · rename_i hab
      refine List.pairwise_cons.mpr ⟨?_, h⟩
      intro c hc
      rcases List.mem_cons.mp hc with rfl | hc
      · exact hab
      · exact Int.le_trans hab (hb.1 c hc)
    · rename_i hab
      refine List.pairwise_cons.mpr ⟨?_, ih hb.2⟩
      intro c hc
      have := (insertSorted_perm a l).mem_iff.mp hc
      rcases List.mem_cons.mp this with rfl | hc
      · omega
      · exact hb.1 c hc

theorem isort_sorted (l : List Int) : (isort l).Pairwise (· ≤ ·) := by
  induction l with
  | nil => simp [isort]
  | cons a l ih => exact insertSorted_sorted a _ ih

theorem insertSorted_comm (a b : Int) (l : List Int) :
    insertSorted a (insertSorted b l) = insertSorted b (insertSorted a l) := by
  induction l with
  | nil =>
    simp only [insertSorted]
    by_cases h1 : a ≤ b <;> by_cases h2 : b ≤ a <;> simp [insertSorted, h1, h2]
    · omega
    · omega
  | cons c l ih =>
    simp only [insertSorted]
    by_cases hb : b ≤ c <;> by_cases ha : a ≤ c <;> simp only [hb, ha, if_true, if_false, insertSorted]
    · by_cases h1 : a ≤ b <;> by_cases h2 : b ≤ a <;> simp [h1, h2, ha, hb]
      · omega
      · omega
    · have h1 : ¬ a ≤ b := by omega
      have h2 : b ≤ a := by omega
      simp [h1, hb, ha]
    · have h1 : a ≤ b := by omega
      have h2 : ¬ b ≤ a := by omega
      simp [h2, hb, ha]
    · simp [ha, hb, ih]

/-- the sorted sample list depends only on the multiset of samples -/
theorem isort_perm_eq {l₁ l₂ : List Int} (h : l₁.Perm l₂) : isort l₁ = isort l₂ := by
  induction h with
  | nil => rfl
  | cons a _ ih => simp [isort, ih]
  | swap a b l => simp [isort, insertSorted_comm]
  | trans _ _ ih1 ih2 => exact ih1.trans ih2

@[simp] theorem isort_length (l : List Int) : (isort l).length = l.length := (isort_perm l).length_eq

/-! ## lemmas: the reservoir below its limit -/

theorem foldl_insertSampleL_below (lim : Nat) (pick : List Int → Nat) (vs s : List Int)
    (h : s.length + vs.length ≤ lim) : vs.foldl (insertSampleL lim pick) s = s ++ vs := by
  induction vs generalizing s with
  | nil => simp
  | cons v vs ih =>
    simp only [List.foldl_cons, List.length_cons] at *
    have h1 : s.length < lim := by omega
    have : insertSampleL lim pick s v = s ++ [v] := by simp [insertSampleL, h1]
    rw [this, ih]
    · simp
    · simp; omega

theorem insertSampleNTimes_below (lim : Nat) (pick : List Int → Nat) (h : SC) (v : Int) (n : Nat)
    (hl : h.samples.length + n ≤ lim) :
    h.insertSampleNTimes lim pick v n = { h with samples := h.samples ++ List.replicate n v } := by
  induction n generalizing h with
  | zero => simp [SC.insertSampleNTimes]
  | succ n ih =>
    have h1 : h.samples.length < lim := by omega
    simp only [SC.insertSampleNTimes]
    rw [ih]
    · simp [SC.insertSample, insertSampleL, h1, List.replicate_succ]
    · simp [SC.insertSample, insertSampleL, h1]; omega

/-- the number of samples never exceeds the limit once it is below it -/
theorem insertSampleL_length_le (lim : Nat) (pick : List Int → Nat) (s : List Int) (v : Int)
    (h : s.length ≤ lim) : (insertSampleL lim pick s v).length ≤ lim := by
  unfold insertSampleL
  split
  · simp; omega
  · simp; exact h

/-! ## `Rep vals ne collect c`: container `c` summarises exactly the value list `vals` (and `ne` documents
without the field); with `collect` it also holds the values themselves as samples. -/

def IsMin (m : Int) (vs : List Int) : Prop := m ∈ vs ∧ ∀ v, v ∈ vs → m ≤ v
def IsMax (m : Int) (vs : List Int) : Prop := m ∈ vs ∧ ∀ v, v ∈ vs → v ≤ m

structure Rep (vals : List Int) (ne : Nat) (collect : Bool) (c : SC) : Prop where
  total : c.total = vals.length
  notExists : c.notExists = ne
  sum : c.sum = vals.sum
  min : vals ≠ [] → IsMin c.min vals
  max : vals ≠ [] → IsMax c.max vals
  samples : c.samples.Perm (if collect then vals else [])

theorem IsMin.unique {a b : Int} {vs : List Int} (ha : IsMin a vs) (hb : IsMin b vs) : a = b := by
  have := ha.2 b hb.1; have := hb.2 a ha.1; omega

theorem IsMax.unique {a b : Int} {vs : List Int} (ha : IsMax a vs) (hb : IsMax b vs) : a = b := by
  have := ha.2 b hb.1; have := hb.2 a ha.1; omega

theorem IsMin.perm {m : Int} {xs ys : List Int} (h : IsMin m xs) (p : xs.Perm ys) : IsMin m ys :=
  ⟨p.mem_iff.mp h.1, fun v hv => h.2 v (p.mem_iff.mpr hv)⟩

theorem IsMax.perm {m : Int} {xs ys : List Int} (h : IsMax m xs) (p : xs.Perm ys) : IsMax m ys :=
  ⟨p.mem_iff.mp h.1, fun v hv => h.2 v (p.mem_iff.mpr hv)⟩

theorem sum_perm {xs ys : List Int} (p : xs.Perm ys) : xs.sum = ys.sum := by
  induction p with
  | nil => rfl
  | cons a _ ih => simp [ih]
  | swap a b l => simp; omega
  | trans _ _ ih1 ih2 => exact ih1.trans ih2

theorem Rep.new (collect : Bool) : Rep [] 0 collect SC.new := by
  refine ⟨rfl, rfl, rfl, fun h => absurd rfl h, fun h => absurd rfl h, ?_⟩
  cases collect <;> simp [SC.new]

theorem Rep.perm {xs ys : List Int} {ne : Nat} {collect : Bool} {c : SC} (h : Rep xs ne collect c)
    (p : xs.Perm ys) : Rep ys ne collect c := by
  refine ⟨by rw [h.total, p.length_eq], h.notExists, by rw [h.sum, sum_perm p], ?_, ?_, ?_⟩
  · intro hy
    have hx : xs ≠ [] := by intro e; subst e; exact hy (List.Perm.nil_eq p).symm
    exact (h.min hx).perm p
  · intro hy
    have hx : xs ≠ [] := by intro e; subst e; exact hy (List.Perm.nil_eq p).symm
    exact (h.max hx).perm p
  · cases collect
    · simpa using h.samples
    · exact h.samples.trans p

/-- observational equality of two containers: everything `Aggregate` can see -/
structure SC.Eqv (a b : SC) : Prop where
  total : a.total = b.total
  notExists : a.notExists = b.notExists
  sum : a.sum = b.sum
  minmax : a.total ≠ 0 → a.min = b.min ∧ a.max = b.max
  samples : a.samples.Perm b.samples

/-- two containers that summarise the same values are observationally equal -/
theorem Rep.eqv {xs : List Int} {ne : Nat} {collect : Bool} {a b : SC} (ha : Rep xs ne collect a)
    (hb : Rep xs ne collect b) : SC.Eqv a b := by
  refine ⟨by rw [ha.total, hb.total], by rw [ha.notExists, hb.notExists], by rw [ha.sum, hb.sum], ?_,
    ha.samples.trans hb.samples.symm⟩
  intro ht
  have hx : xs ≠ [] := by
    intro e; subst e; exact ht (by simpa using ha.total)
  exact ⟨(ha.min hx).unique (hb.min hx), (ha.max hx).unique (hb.max hx)⟩

theorem isMin_append_left {a b : Int} {xs ys : List Int} (ha : IsMin a xs) (hb : IsMin b ys) :
    IsMin (Min.min a b) (xs ++ ys) := by
  refine ⟨?_, ?_⟩
  · rcases Int.le_total a b with h | h
    · rw [Int.min_eq_left h]; exact List.mem_append_left _ ha.1
    · rw [Int.min_eq_right h]; exact List.mem_append_right _ hb.1
  · intro v hv
    rcases List.mem_append.mp hv with hv | hv
    · exact Int.le_trans (Int.min_le_left a b) (ha.2 v hv)
    · exact Int.le_trans (Int.min_le_right a b) (hb.2 v hv)

theorem isMax_append_left {a b : Int} {xs ys : List Int} (ha : IsMax a xs) (hb : IsMax b ys) :
    IsMax (Max.max a b) (xs ++ ys) := by
  refine ⟨?_, ?_⟩
  · rcases Int.le_total a b with h | h
    · rw [Int.max_eq_right h]; exact List.mem_append_right _ hb.1
    · rw [Int.max_eq_left h]; exact List.mem_append_left _ ha.1
  · intro v hv
    rcases List.mem_append.mp hv with hv | hv
    · exact Int.le_trans (ha.2 v hv) (Int.le_max_left a b)
    · exact Int.le_trans (hb.2 v hv) (Int.le_max_right a b)

theorem sum_append_int (xs ys : List Int) : (xs ++ ys).sum = xs.sum + ys.sum := by
  induction xs with
  | nil => simp
  | cons a xs ih => simp [ih]; omega

/-- **merge is a homomorphism**: merging the summaries of `xs` and `ys` summarises `xs ++ ys`
(below the reservoir limit when samples are collected) -/
theorem Rep.merge {lim : Nat} {pick : List Int → Nat} {xs ys : List Int} {n1 n2 : Nat} {collect : Bool} {a b : SC}
    (ha : Rep xs n1 collect a) (hb : Rep ys n2 collect b)
    (hl : collect = true → xs.length + ys.length ≤ lim) :
    Rep (xs ++ ys) (n1 + n2) collect (SC.merge lim pick a b) := by
  unfold SC.merge
  by_cases hb0 : b.total = 0
  · have hy : ys = [] := by
      have := hb.total; rw [hb0] at this; exact List.eq_nil_of_length_eq_zero this.symm
    subst hy
    simp only [hb0, if_true, List.append_nil]
    exact ⟨ha.total, by simp [ha.notExists, hb.notExists], ha.sum, ha.min, ha.max, ha.samples⟩
  · have hy : ys ≠ [] := by
      intro e; subst e; exact hb0 (by simpa using hb.total)
    simp only [hb0, if_false]
    refine ⟨by simp [ha.total, hb.total], by simp [ha.notExists, hb.notExists],
      by simp [ha.sum, hb.sum, sum_append_int], ?_, ?_, ?_⟩
    · intro _
      by_cases ha0 : a.total = 0
      · have hx : xs = [] := by
          have := ha.total; rw [ha0] at this; exact List.eq_nil_of_length_eq_zero this.symm
        subst hx
        simpa [ha0] using hb.min hy
      · have hx : xs ≠ [] := by
          intro e; subst e; exact ha0 (by simpa using ha.total)
        simpa [ha0] using isMin_append_left (ha.min hx) (hb.min hy)
    · intro _
      by_cases ha0 : a.total = 0
      · have hx : xs = [] := by
          have := ha.total; rw [ha0] at this; exact List.eq_nil_of_length_eq_zero this.symm
        subst hx
        simpa [ha0] using hb.max hy
      · have hx : xs ≠ [] := by
          intro e; subst e; exact ha0 (by simpa using ha.total)
        simpa [ha0] using isMax_append_left (ha.max hx) (hb.max hy)
    · cases collect
      · have h1 : a.samples = [] := by simpa using ha.samples
        have h2 : b.samples = [] := by simpa using hb.samples
        simp [h1, h2]
      · have h1 := ha.samples.length_eq
        have h2 := hb.samples.length_eq
        simp only [if_true] at h1 h2 ⊢
        rw [foldl_insertSampleL_below]
        · exact List.Perm.append ha.samples hb.samples
        · have := hl rfl; omega

/-- `InsertNTimes(num, cnt)` followed (when collecting) by `InsertSampleNTimes(num, cnt)` adds `cnt` copies of `num` -/
theorem Rep.insert {lim : Nat} {pick : List Int → Nat} {xs : List Int} {ne : Nat} {collect : Bool} {c : SC}
    (h : Rep xs ne collect c) (num : Int) (cnt : Nat) (hc : 0 < cnt)
    (hl : collect = true → xs.length + cnt ≤ lim) :
    Rep (xs ++ List.replicate cnt num) ne collect
      (if collect then (c.insertNTimes num cnt).insertSampleNTimes lim pick num cnt else c.insertNTimes num cnt) := by
  have hrep : IsMin num (List.replicate cnt num) ∧ IsMax num (List.replicate cnt num) := by
    refine ⟨⟨?_, ?_⟩, ⟨?_, ?_⟩⟩
    · exact List.mem_replicate.mpr ⟨by omega, rfl⟩
    · intro v hv; rw [(List.mem_replicate.mp hv).2]; exact Int.le_refl _
    · exact List.mem_replicate.mpr ⟨by omega, rfl⟩
    · intro v hv; rw [(List.mem_replicate.mp hv).2]; exact Int.le_refl _
  have hsum : (List.replicate cnt num).sum = num * cnt := by
    clear hrep hl hc
    induction cnt with
    | zero => simp
    | succ n ih => simp [List.replicate_succ, ih, Int.mul_add]; omega
  have core : Rep (xs ++ List.replicate cnt num) ne false { c.insertNTimes num cnt with samples := [] } := by
    refine ⟨by simp [SC.insertNTimes, h.total], by simp [SC.insertNTimes, h.notExists],
      by simp [SC.insertNTimes, h.sum, sum_append_int, hsum], ?_, ?_, by simp⟩
    · intro _
      by_cases h0 : c.total = 0
      · have hx : xs = [] := by
          have := h.total; rw [h0] at this; exact List.eq_nil_of_length_eq_zero this.symm
        subst hx; simpa [SC.insertNTimes, h0] using hrep.1
      · have hx : xs ≠ [] := by
          intro e; subst e; exact h0 (by simpa using h.total)
        simpa [SC.insertNTimes, h0] using isMin_append_left (h.min hx) hrep.1
    · intro _
      by_cases h0 : c.total = 0
      · have hx : xs = [] := by
          have := h.total; rw [h0] at this; exact List.eq_nil_of_length_eq_zero this.symm
        subst hx; simpa [SC.insertNTimes, h0] using hrep.2
      · have hx : xs ≠ [] := by
          intro e; subst e; exact h0 (by simpa using h.total)
        simpa [SC.insertNTimes, h0] using isMax_append_left (h.max hx) hrep.2
  cases collect
  · have hs : c.samples = [] := by simpa using h.samples
    have : c.insertNTimes num cnt = { c.insertNTimes num cnt with samples := [] } := by
      simp [SC.insertNTimes, hs]
    simp only [Bool.false_eq_true, if_false]
    rw [this]; exact core
  · simp only [if_true]
    have hlen := h.samples.length_eq
    simp only [if_true] at hlen
    rw [insertSampleNTimes_below]
    · exact ⟨core.total, core.notExists, core.sum, core.min, core.max, by
        simpa [SC.insertNTimes] using List.Perm.append_right _ h.samples⟩
    · have := hl rfl
      simp [SC.insertNTimes]; omega

/-! ## unconditional facts about the counters (used by count / unique, whose containers carry no values) -/

@[simp] theorem SC.merge_total (lim : Nat) (pick : List Int → Nat) (a b : SC) :
    (SC.merge lim pick a b).total = a.total + b.total := by
  unfold SC.merge; split <;> simp_all

@[simp] theorem SC.merge_notExists (lim : Nat) (pick : List Int → Nat) (a b : SC) :
    (SC.merge lim pick a b).notExists = a.notExists + b.notExists := by
  unfold SC.merge; split <;> simp_all

/-! ## direct algebra on well-formed containers -/

/-- invariant of every container the code builds: an empty container has no sum and no samples -/
def SC.WF (a : SC) : Prop := a.total = 0 → a.sum = 0 ∧ a.samples = []

theorem SC.new_wf : SC.new.WF := fun _ => ⟨rfl, rfl⟩

theorem Rep.wf {xs : List Int} {ne : Nat} {collect : Bool} {c : SC} (h : Rep xs ne collect c) : c.WF := by
  intro h0
  have hx : xs = [] := by
    have := h.total; rw [h0] at this; exact List.eq_nil_of_length_eq_zero this.symm
  subst hx
  refine ⟨by simpa using h.sum, ?_⟩
  have := h.samples
  cases collect <;> simpa using this

theorem SC.Eqv.refl (a : SC) : SC.Eqv a a := ⟨rfl, rfl, rfl, fun _ => ⟨rfl, rfl⟩, List.Perm.refl _⟩

theorem SC.Eqv.symm {a b : SC} (h : SC.Eqv a b) : SC.Eqv b a :=
  ⟨h.total.symm, h.notExists.symm, h.sum.symm,
    fun hb => let r := h.minmax (by rw [h.total]; exact hb); ⟨r.1.symm, r.2.symm⟩, h.samples.symm⟩

theorem SC.Eqv.trans {a b c : SC} (h1 : SC.Eqv a b) (h2 : SC.Eqv b c) : SC.Eqv a c :=
  ⟨h1.total.trans h2.total, h1.notExists.trans h2.notExists, h1.sum.trans h2.sum,
    fun ha => let r := h1.minmax ha; let s := h2.minmax (by rw [← h1.total]; exact ha);
      ⟨r.1.trans s.1, r.2.trans s.2⟩, h1.samples.trans h2.samples⟩

theorem SC.merge_wf (lim : Nat) (pick : List Int → Nat) {a b : SC} (ha : a.WF) : (SC.merge lim pick a b).WF := by
  unfold SC.merge
  split
  · exact ha
  · intro h0; simp at h0; omega

/-- `samples_merge_comm` -/
theorem SC.merge_comm (lim : Nat) (pick : List Int → Nat) {a b : SC} (ha : a.WF) (hb : b.WF)
    (hl : a.samples.length + b.samples.length ≤ lim) :
    SC.Eqv (SC.merge lim pick a b) (SC.merge lim pick b a) := by
  unfold SC.merge
  by_cases h1 : a.total = 0 <;> by_cases h2 : b.total = 0
  · have := ha h1; have := hb h2
    refine ⟨by simp [h1, h2], by simp [h1, h2]; omega, by simp_all, by simp [h1, h2], by simp_all⟩
  · have := ha h1
    refine ⟨by simp [h1, h2], by simp [h1, h2]; omega, by simp_all, by simp [h1, h2], ?_⟩
    simp only [h1, h2, if_true, if_false, this.2]
    rw [foldl_insertSampleL_below _ _ _ _ (by simp; omega)]; simp
  · have := hb h2
    refine ⟨by simp [h1, h2], by simp [h1, h2]; omega, by simp_all, by simp [h1, h2], ?_⟩
    simp only [h1, h2, if_true, if_false, this.2]
    rw [foldl_insertSampleL_below _ _ _ _ (by simp; omega)]; simp
  · refine ⟨by simp [h1, h2]; omega, by simp [h1, h2]; omega, by simp [h1, h2]; omega, ?_, ?_⟩
    · intro _; simp [h1, h2, Int.min_comm, Int.max_comm]
    · simp only [h1, h2, if_false]
      rw [foldl_insertSampleL_below _ _ _ _ (by omega), foldl_insertSampleL_below _ _ _ _ (by omega)]
      exact List.perm_append_comm

end SV.Agg
