import SeqVerif.Model.CollectorLemmas
import SeqVerif.Model.DedupIndex
/-!
Lemmas about `indexBulk` / `run` (C17): `SetMultiple` under fresh positions, the token-list update seen through
`queue`, the extensional description of one `appendWorker` iteration, the invariant of an active fraction.
-/
namespace SV.Collector

/-! ## token list -/

abbrev TL := List (Bytes × List Nat)

def qOf (T : TL) (t : Bytes) : List Nat := (T.lookup t).getD []

theorem lookup_append_new (T : TL) (t k : Bytes) (h : T.lookup k = none) :
    (T ++ [(k, ([] : List Nat))]).lookup t = if t = k then some [] else T.lookup t := by
  rw [List.lookup_append]
  by_cases htk : t = k
  · subst htk; simp [h]
  · have : (t == k) = false := by simpa using htk
    simp [List.lookup, this, htk]

theorem qOf_tokenListAppend (T : TL) (tvs : List Bytes) (t : Bytes) : qOf (tokenListAppend T tvs) t = qOf T t := by
  unfold tokenListAppend
  induction tvs generalizing T with
  | nil => rfl
  | cons k tvs ih =>
    simp only [List.foldl_cons]
    rw [ih]
    by_cases hk : (T.lookup k).isSome
    · simp [hk]
    · have hn : T.lookup k = none := by
        cases h : T.lookup k with
        | none => rfl
        | some v => simp [h] at hk
      simp only [hk, Bool.false_eq_true, if_false, qOf, lookup_append_new T t k hn]
      by_cases htk : t = k
      · subst htk; simp [hn]
      · simp [htk]

theorem mem_keys_tokenListAppend (T : TL) (tvs : List Bytes) (t : Bytes) :
    ((tokenListAppend T tvs).lookup t).isSome ↔ ((T.lookup t).isSome ∨ t ∈ tvs) := by
  unfold tokenListAppend
  induction tvs generalizing T with
  | nil => simp
  | cons k tvs ih =>
    simp only [List.foldl_cons]
    rw [ih]
    by_cases hk : (T.lookup k).isSome
    · simp only [hk, if_true, List.mem_cons]
      constructor
      · rintro (h | h)
        · exact Or.inl h
        · exact Or.inr (Or.inr h)
      · rintro (h | h | h)
        · exact Or.inl h
        · subst h; exact Or.inl hk
        · exact Or.inr h
    · have hn : T.lookup k = none := by
        cases h : T.lookup k with
        | none => rfl
        | some v => simp [h] at hk
      simp only [hk, Bool.false_eq_true, if_false, lookup_append_new T t k hn, List.mem_cons]
      by_cases htk : t = k
      · subst htk; simp
      · simp [htk]

/-- one `PutLIDsInQueue` -/
def put1 (T : TL) (p : Bytes × List Nat) : TL := T.map fun e => if e.1 = p.1 then (e.1, e.2 ++ p.2) else e

theorem lookup_put1 (T : TL) (p : Bytes × List Nat) (t : Bytes) :
    (put1 T p).lookup t = (T.lookup t).map fun q => if t = p.1 then q ++ p.2 else q := by
  induction T with
  | nil => rfl
  | cons e T ih =>
    obtain ⟨k, q⟩ := e
    simp only [put1, List.map_cons] at ih ⊢
    by_cases hk : k = p.1
    · by_cases ht : t = k
      · subst ht; simp [List.lookup, hk]
      · have : (t == k) = false := by simpa using ht
        simp only [hk, if_true, List.lookup] at ih ⊢
        rw [← hk, this]
        simpa [hk] using ih
    · by_cases ht : t = k
      · subst ht; simp [List.lookup, hk]
      · have : (t == k) = false := by simpa using ht
        simp only [hk, if_false, List.lookup, this]
        exact ih

theorem qOf_putLIDs (T : TL) (tvs : List Bytes) (groups : List (List Nat)) (t : Bytes) (hnd : tvs.Nodup)
    (hl : groups.length = tvs.length) (hT : (T.lookup t).isSome ∨ t ∉ tvs) :
    qOf (putLIDs T tvs groups) t = qOf T t ++ (if tvs.idxOf t < tvs.length then groups.getD (tvs.idxOf t) [] else []) := by
  unfold putLIDs
  induction tvs generalizing T groups with
  | nil => simp
  | cons k tvs ih =>
    cases groups with
    | nil => simp at hl
    | cons g groups =>
      simp only [List.zip_cons_cons, List.foldl_cons]
      have hnd' := (List.nodup_cons.mp hnd).2
      have hk := (List.nodup_cons.mp hnd).1
      have hT' : ((put1 T (k, g)).lookup t).isSome ∨ t ∉ tvs := by
        rcases hT with h | h
        · left; rw [lookup_put1]; simpa using h
        · right; exact fun hm => h (List.mem_cons_of_mem _ hm)
      have := ih (put1 T (k, g)) groups hnd' (by simpa using hl) hT'
      show qOf (List.foldl _ (put1 T (k, g)) (tvs.zip groups)) t = _
      rw [this]
      simp only [qOf, lookup_put1]
      by_cases htk : t = k
      · subst htk
        have : List.idxOf t tvs = tvs.length := List.idxOf_eq_length hk
        cases hlk : T.lookup t with
        | none =>
          rcases hT with h | h
          · simp [hlk] at h
          · simp at h
        | some q => simp [this, List.idxOf_cons_self]
      · have hne : (k == t) = false := by simpa using (fun h => htk h.symm)
        simp only [htk, if_false, List.idxOf_cons, hne, cond_false, List.length_cons, Nat.add_lt_add_iff_right]
        cases hlk : T.lookup t with
        | none => simp
        | some q => simp

/-- the token-list part of one `appendWorker` iteration, seen through the queues: every token gets the postings of
the collected documents appended, nothing else changes -/
theorem queue_step (c : Collector) (lids : List Nat) (h : CInv c) (hl : lids.length = c.ids.length) (T : TL) (t : Bytes) :
    qOf (putLIDs (tokenListAppend T c.tokensValues) c.tokensValues (groupLIDsByToken c lids)) t
      = qOf T t ++ postings (rview c) lids t := by
  have hT : ((tokenListAppend T c.tokensValues).lookup t).isSome ∨ t ∉ c.tokensValues := by
    by_cases hm : t ∈ c.tokensValues
    · left; exact (mem_keys_tokenListAppend T c.tokensValues t).mpr (Or.inr hm)
    · right; exact hm
  rw [qOf_putLIDs _ _ _ t h.2.1 (groupLIDsByToken_length c lids) hT, qOf_tokenListAppend]
  congr 1
  by_cases hm : t ∈ c.tokensValues
  · have hj : c.tokensValues.idxOf t < c.tokensValues.length := List.idxOf_lt_length_iff.mpr hm
    have hg := group_spec c lids h hl _ hj
    simp only [hj, if_true, List.getD, hg, Option.getD_some]
    congr 1
    exact List.getElem_idxOf hj
  · have hj : ¬ c.tokensValues.idxOf t < c.tokensValues.length := fun hh => hm (List.idxOf_lt_length_iff.mp hh)
    simp only [hj, if_false]
    symm
    apply postings_not_mem
    intro d hd ht
    exact hm (rview_tokens_mem c h d hd t ht)

/-! ## `SetMultiple` when every offered position differs from the saved one -/

theorem lookup_cons_ne (dp : DocsPositions) (k id : ID) (p : DocPos) (h : id ≠ k) :
    List.lookup id ((k, p) :: dp) = dp.lookup id := by
  have : (id == k) = false := by simpa using h
  simp [List.lookup, this]

theorem lookup_cons_self (dp : DocsPositions) (k : ID) (p : DocPos) : List.lookup k ((k, p) :: dp) = some p := by
  simp [List.lookup]

/-- `SetMultiple` on a list in which every occurrence of an id carries the same position (a document and its nested
metas), when `good id` says whether the offered position of `id` is acceptable for the map as it is *now*: absent, or
saved with exactly that position.  Every occurrence of a good id is appended, no occurrence of another one. -/
theorem setMultiple_spec (good : ID → Bool) (dp : DocsPositions) (ids : List ID) (ps : List DocPos)
    (hl : ps.length = ids.length)
    (hfun : ∀ id p p', (id, p) ∈ ids.zip ps → (id, p') ∈ ids.zip ps → p = p')
    (hgood : ∀ id p, (id, p) ∈ ids.zip ps →
      (dp.lookup id = none → good id = true) ∧ (∀ q, dp.lookup id = some q → (q = p ↔ good id = true))) :
    (setMultiple dp ids ps).2 = ids.filter good ∧
    ∀ id, (setMultiple dp ids ps).1.lookup id = (dp.lookup id).or ((ids.zip ps).lookup id) := by
  induction ids generalizing dp ps with
  | nil => simp [setMultiple]
  | cons k ids ih =>
    cases ps with
    | nil => simp at hl
    | cons p ps =>
      have hl' : ps.length = ids.length := by simpa using hl
      have hfun' : ∀ id p1 p2, (id, p1) ∈ ids.zip ps → (id, p2) ∈ ids.zip ps → p1 = p2 := by
        intro id p1 p2 h1 h2
        exact hfun id p1 p2 (List.mem_cons_of_mem _ h1) (List.mem_cons_of_mem _ h2)
      have hk := hgood k p (by simp)
      cases hlk : dp.lookup k with
      | none =>
        have hgk : good k = true := hk.1 hlk
        have hg' : ∀ id p', (id, p') ∈ ids.zip ps →
            (List.lookup id ((k, p) :: dp) = none → good id = true) ∧
            (∀ q, List.lookup id ((k, p) :: dp) = some q → (q = p' ↔ good id = true)) := by
          intro id p' hm
          by_cases hne : id = k
          · subst hne
            have hpp : p = p' := hfun id p p' (by simp) (List.mem_cons_of_mem _ hm)
            rw [lookup_cons_self]
            refine ⟨by simp, ?_⟩
            intro q hq
            simp only [Option.some.injEq] at hq
            subst hq
            simp [hpp, hgk]
          · rw [lookup_cons_ne dp k id p hne]
            exact hgood id p' (List.mem_cons_of_mem _ hm)
        obtain ⟨i1, i2⟩ := ih ((k, p) :: dp) ps hl' hfun' hg'
        simp only [setMultiple, hlk]
        refine ⟨by simp [i1, List.filter_cons, hgk], ?_⟩
        intro id
        rw [i2 id]
        by_cases hne : id = k
        · subst hne
          simp [lookup_cons_self, hlk, List.lookup]
        · rw [lookup_cons_ne dp k id p hne]
          have : (id == k) = false := by simpa using hne
          simp [List.lookup, this]
      | some q =>
        have hg' : ∀ id p', (id, p') ∈ ids.zip ps →
            (dp.lookup id = none → good id = true) ∧ (∀ q, dp.lookup id = some q → (q = p' ↔ good id = true)) :=
          fun id p' hm => hgood id p' (List.mem_cons_of_mem _ hm)
        obtain ⟨i1, i2⟩ := ih dp ps hl' hfun' hg'
        have hlook : ∀ id, (dp.lookup id).or (((k :: ids).zip (p :: ps)).lookup id) = (dp.lookup id).or ((ids.zip ps).lookup id) := by
          intro id
          by_cases hne : id = k
          · subst hne; simp [hlk]
          · have : (id == k) = false := by simpa using hne
            simp [List.lookup, this]
        by_cases hqp : q = p
        · have hgk : good k = true := (hk.2 q hlk).mp hqp
          simp only [setMultiple, hlk, hqp, if_true]
          refine ⟨by simp [i1, List.filter_cons, hgk], ?_⟩
          intro id
          rw [i2 id, hlook id]
        · have hgk : good k = false := by
            cases hg : good k with
            | false => rfl
            | true => exact absurd ((hk.2 q hlk).mpr hg) hqp
          simp only [setMultiple, hlk, hqp, if_false]
          refine ⟨by simp [i1, List.filter_cons, hgk], ?_⟩
          intro id
          rw [i2 id, hlook id]

/-! ## facts about the specification view `docsOf` -/

theorem docsFrom_ids (b : Nat) (ms : List Meta) (off : Nat) (last : DocPos) :
    (docsFrom b ms off last).map (·.1) = ms.map (·.id) := by
  induction ms generalizing off last with
  | nil => rfl
  | cons m ms ih => simp [docsFrom, ih]

theorem docsFrom_block (b : Nat) (ms : List Meta) (off : Nat) (last : DocPos) (hs : ∀ m ∈ ms, m.size ≠ 0) :
    ∀ d ∈ docsFrom b ms off last, d.2.1.1 = b := by
  induction ms generalizing off last with
  | nil => simp [docsFrom]
  | cons m ms ih =>
    have hm : m.size ≠ 0 := hs m (by simp)
    intro d hd
    simp only [docsFrom, hm, if_false, List.mem_cons] at hd
    rcases hd with hd | hd
    · subst hd; rfl
    · exact ih _ _ (fun m hm => hs m (List.mem_cons_of_mem _ hm)) d hd

/-- the first meta of the bulk is a document, not a nested meta (otherwise `AppendMeta` panics) -/
def FirstReal : List Meta → Prop
  | [] => True
  | m :: _ => m.size ≠ 0

theorem docsFrom_block' (b : Nat) (ms : List Meta) (off : Nat) (last : DocPos) (h : last.1 = b ∨ FirstReal ms) :
    ∀ d ∈ docsFrom b ms off last, d.2.1.1 = b := by
  induction ms generalizing off last with
  | nil => simp [docsFrom]
  | cons m ms ih =>
    intro d hd
    by_cases hm : m.size = 0
    · have hl : last.1 = b := by
        rcases h with h | h
        · exact h
        · exact absurd hm h
      simp only [docsFrom, hm, if_true, List.mem_cons] at hd
      rcases hd with hd | hd
      · subst hd; exact hl
      · exact ih _ _ (Or.inl hl) d hd
    · simp only [docsFrom, hm, if_false, List.mem_cons] at hd
      rcases hd with hd | hd
      · subst hd; rfl
      · exact ih _ _ (Or.inl rfl) d hd

theorem nestedOK_firstReal (seen : List ID) (ms : List Meta) (h : NestedOK seen none ms) : FirstReal ms := by
  cases ms with
  | nil => trivial
  | cons m ms =>
    intro hm
    have := h.1
    simp [hm] at this

/-- in a well-nested bulk all metas of one id sit at one position -/
theorem docsFrom_functional (b : Nat) (ms : List Meta) (seen : List ID) (cur : Option ID) (off : Nat) (last : DocPos)
    (h : NestedOK seen cur ms) :
    (∀ d ∈ docsFrom b ms off last, d.1 ∈ seen → cur = some d.1 ∧ d.2.1 = last) ∧
    (∀ d ∈ docsFrom b ms off last, ∀ d' ∈ docsFrom b ms off last, d.1 = d'.1 → d.2.1 = d'.2.1) := by
  induction ms generalizing seen cur off last with
  | nil => simp [docsFrom]
  | cons m ms ih =>
    obtain ⟨h1, h2⟩ := h
    by_cases hm : m.size = 0
    · simp only [hm, if_true] at h1
      obtain ⟨i1, i2⟩ := ih (m.id :: seen) (some m.id) off last h2
      simp only [docsFrom, hm, if_true]
      refine ⟨?_, ?_⟩
      · intro d hd hs
        rcases List.mem_cons.mp hd with rfl | hd
        · exact ⟨h1, rfl⟩
        · have := i1 d hd (List.mem_cons_of_mem _ hs)
          exact ⟨by rw [h1, this.1], this.2⟩
      · intro d hd d' hd' hdd
        rcases List.mem_cons.mp hd with rfl | hd <;> rcases List.mem_cons.mp hd' with rfl | hd'
        · rfl
        · have := i1 d' hd' (by rw [← hdd]; simp)
          exact this.2.symm
        · have := i1 d hd (by rw [hdd]; simp)
          exact this.2
        · exact i2 d hd d' hd' hdd
    · simp only [hm, if_false] at h1
      obtain ⟨i1, i2⟩ := ih (m.id :: seen) (some m.id) (off + m.size + 4) (b, off) h2
      simp only [docsFrom, hm, if_false]
      refine ⟨?_, ?_⟩
      · intro d hd hs
        rcases List.mem_cons.mp hd with rfl | hd
        · exact absurd hs h1
        · have := (i1 d hd (List.mem_cons_of_mem _ hs)).1
          simp only [Option.some.injEq] at this
          exact absurd (this ▸ hs) h1
      · intro d hd d' hd' hdd
        rcases List.mem_cons.mp hd with rfl | hd <;> rcases List.mem_cons.mp hd' with rfl | hd'
        · rfl
        · have := i1 d' hd' (by rw [← hdd]; simp)
          exact this.2.symm
        · have := i1 d hd (by rw [hdd]; simp)
          exact this.2
        · exact i2 d hd d' hd' hdd

theorem mem_zip_map {α β γ} (f : α → β) (g : α → γ) (l : List α) (x : β) (y : γ) (h : (x, y) ∈ (l.map f).zip (l.map g)) :
    ∃ d ∈ l, f d = x ∧ g d = y := by
  induction l with
  | nil => simp at h
  | cons a l ih =>
    simp only [List.map_cons, List.zip_cons_cons, List.mem_cons, Prod.mk.injEq] at h
    rcases h with ⟨h1, h2⟩ | h
    · exact ⟨a, by simp, h1.symm, h2.symm⟩
    · obtain ⟨d, hd, hh⟩ := ih h
      exact ⟨d, List.mem_cons_of_mem _ hd, hh⟩

/-- pairwise distinct ids and non-empty documents: the bulk is well nested (it has no nested metas at all) -/
theorem nestedOK_of_distinct (ms : List Meta) (seen : List ID) (cur : Option ID) (hnd : (ms.map (·.id)).Nodup)
    (hs : ∀ m ∈ ms, m.size ≠ 0) (hseen : ∀ m ∈ ms, m.id ∉ seen) : NestedOK seen cur ms := by
  induction ms generalizing seen cur with
  | nil => trivial
  | cons m ms ih =>
    simp only [List.map_cons, List.nodup_cons] at hnd
    refine ⟨by simp [hs m (by simp), hseen m (by simp)], ?_⟩
    apply ih _ _ hnd.2 (fun x hx => hs x (List.mem_cons_of_mem _ hx))
    intro x hx hmem
    rcases List.mem_cons.mp hmem with h | h
    · exact hnd.1 (h ▸ List.mem_map_of_mem hx)
    · exact hseen x (List.mem_cons_of_mem _ hx) h

theorem bulkOK_of_distinct (ms : List Meta) (hnd : (ms.map (·.id)).Nodup) (hs : ∀ m ∈ ms, m.size ≠ 0) : BulkOK ms :=
  nestedOK_of_distinct ms [] none hnd hs (by simp)

/-- restricting the specification view by a predicate on ids = the view of the restricted bulk, as far as ids and
tokens are concerned (positions are those of the full bulk) -/
theorem docsFrom_filter (b : Nat) (ms : List Meta) (off : Nat) (last : DocPos) (q : ID → Bool) (off' : Nat) (last' : DocPos) :
    ((docsFrom b ms off last).filter (fun d => q d.1)).map (fun d => (d.1, d.2.2))
      = (docsFrom b (ms.filter (fun m => q m.id)) off' last').map (fun d => (d.1, d.2.2)) := by
  induction ms generalizing off last off' last' with
  | nil => rfl
  | cons m ms ih =>
    by_cases hq : q m.id = true
    · simp only [docsFrom, List.filter_cons, hq, if_true, List.map_cons]
      congr 1
      exact ih _ _ _ _
    · simp only [docsFrom, List.filter_cons, hq, Bool.false_eq_true, if_false]
      exact ih _ _ _ _

/-- postings over bare token lists -/
def postingsT (toks : List (List Bytes)) (lids : List Nat) (t : Bytes) : List Nat :=
  (toks.zip lids).flatMap fun x => List.replicate (x.1.count t) x.2

theorem postings_eq_T (docs : List (ID × DocPos × List Bytes)) (lids : List Nat) (t : Bytes) :
    postings docs lids t = postingsT (docs.map (·.2.2)) lids t := by
  unfold postings postingsT
  rw [List.zip_map_left, List.flatMap_map]
  rfl

theorem postings_congr (docs docs' : List (ID × DocPos × List Bytes)) (lids : List Nat) (t : Bytes)
    (h : docs.map (fun d => (d.1, d.2.2)) = docs'.map (fun d => (d.1, d.2.2))) :
    postings docs lids t = postings docs' lids t := by
  rw [postings_eq_T, postings_eq_T]
  have : ∀ l : List (ID × DocPos × List Bytes), l.map (·.2.2) = (l.map (fun d => (d.1, d.2.2))).map (·.2) := by
    intro l; simp
  rw [this docs, this docs', h]

theorem rview_positions (c : Collector) (h : WF c) : (rview c).map (·.2.1) = c.positions := by
  rw [rview_eq, ← view_positions c h]
  simp [res]

theorem rview_ids (c : Collector) (h : WF c) : (rview c).map (·.1) = c.ids := by
  rw [rview_eq, ← view_ids c h]
  simp [res]

/-! ## one `appendWorker` iteration -/

/-- the documents of a bulk the fraction does not hold yet -/
def kept (a : Active) (ms : List Meta) : List Meta := ms.filter fun m => decide (m.id ∉ docIds a)

/-- invariant of the index state of an active fraction (nested metas allowed: an id may own several LIDs) -/
structure AInvN (a : Active) : Prop where
  dom : ∀ id, (a.dp.lookup id).isSome ↔ id ∈ docIds a
  blk : ∀ id p, a.dp.lookup id = some p → p.1 < a.blocks.length
  total : a.docsTotal = (docIds a).length
  ids1 : 1 ≤ a.ids.length

/-- ... and, when no bulk carried nested metas, every id owns exactly one LID -/
structure AInv (a : Active) : Prop extends AInvN a where
  nodup : (docIds a).Nodup

theorem ainvN_empty : AInvN Active.empty := by
  refine ⟨?_, ?_, ?_, ?_⟩ <;> simp [Active.empty, docIds]

theorem ainv_empty : AInv Active.empty := ⟨ainvN_empty, by simp [Active.empty, docIds]⟩

theorem lookup_zip_isSome (ids : List ID) (ps : List DocPos) (id : ID) (hl : ps.length = ids.length) :
    ((ids.zip ps).lookup id).isSome ↔ id ∈ ids := by
  induction ids generalizing ps with
  | nil => simp
  | cons k ids ih =>
    cases ps with
    | nil => simp at hl
    | cons p ps =>
      by_cases h : id = k
      · subst h; simp
      · have : (id == k) = false := by simpa using h
        simp only [List.zip_cons_cons, List.lookup, this, List.mem_cons, h, false_or]
        exact ih ps (by simpa using hl)

theorem lookup_zip_mem (ids : List ID) (ps : List DocPos) (id : ID) (p : DocPos)
    (h : (ids.zip ps).lookup id = some p) : p ∈ ps := by
  induction ids generalizing ps with
  | nil => simp at h
  | cons k ids ih =>
    cases ps with
    | nil => simp at h
    | cons p' ps =>
      by_cases hk : id = k
      · subst hk
        simp at h
        subst h; simp
      · have : (id == k) = false := by simpa using hk
        simp only [List.zip_cons_cons, List.lookup, this] at h
        exact List.mem_cons_of_mem _ (ih ps h)

/-- `Filter`'s and `collect`'s min/max are the fold over the ids they hold -/
def MinMaxOk (c : Collector) : Prop :=
  c.minMID = c.ids.foldl (fun m id => if id.1 < m then id.1 else m) maxU64 ∧
  c.maxMID = c.ids.foldl (fun m id => if id.1 > m then id.1 else m) 0

theorem minmax_collect (b : Nat) (ms : List Meta) : MinMaxOk (collect b ms) := by
  obtain ⟨-, -, h3, -, -, h6, h7⟩ := foldl_appendMeta_spec b ms (init b) (cinv_init b) rfl
  unfold MinMaxOk collect
  rw [h6, h7, h3]
  simp [init, List.foldl_map]

theorem minmax_filter (c : Collector) (app : List ID) : MinMaxOk (filter c app) := by
  unfold MinMaxOk filter
  simp [List.foldl_map]

theorem dedupCollector_spec (a : Active) (ms : List Meta) (hA : AInvN a) (hb : BulkOK ms) :
    CInv (dedupCollector a ms).1 ∧
    (rview (dedupCollector a ms).1).map (fun d => (d.1, d.2.2))
      = (docsOf a.blocks.length (kept a ms)).map (fun d => (d.1, d.2.2)) ∧
    (dedupCollector a ms).1.ids = (kept a ms).map (·.id) ∧
    (dedupCollector a ms).1.docsCounter = (kept a ms).length ∧
    MinMaxOk (dedupCollector a ms).1 ∧
    (∀ id, (dedupCollector a ms).2.lookup id
      = (a.dp.lookup id).or (((ms.map (·.id)).zip ((docsOf a.blocks.length ms).map (·.2.1))).lookup id)) := by
  have hc := collect_spec a.blocks.length ms
  obtain ⟨hcinv, hrv, hids, hcnt, -⟩ := hc
  have hpos : (collect a.blocks.length ms).positions = (docsOf a.blocks.length ms).map (·.2.1) := by
    rw [← hrv, rview_positions _ hcinv.1]
  have hids' : (collect a.blocks.length ms).ids = (docsOf a.blocks.length ms).map (·.1) := by
    rw [hids, docsOf, docsFrom_ids]
  have hblk := docsFrom_block' a.blocks.length ms 0 (0, 0) (Or.inr (nestedOK_firstReal [] ms hb))
  have hfn := (docsFrom_functional a.blocks.length ms [] none 0 (0, 0) hb).2
  have hfun : ∀ id p p', (id, p) ∈ (collect a.blocks.length ms).ids.zip (collect a.blocks.length ms).positions →
      (id, p') ∈ (collect a.blocks.length ms).ids.zip (collect a.blocks.length ms).positions → p = p' := by
    intro id p p' h1 h2
    rw [hids', hpos] at h1 h2
    obtain ⟨d, hd, e1, e2⟩ := mem_zip_map _ _ _ _ _ h1
    obtain ⟨d', hd', e1', e2'⟩ := mem_zip_map _ _ _ _ _ h2
    rw [← e2, ← e2']
    exact hfn d hd d' hd' (e1.trans e1'.symm)
  have hgood : ∀ id p, (id, p) ∈ (collect a.blocks.length ms).ids.zip (collect a.blocks.length ms).positions →
      (a.dp.lookup id = none → (a.dp.lookup id).isNone = true) ∧
      (∀ q, a.dp.lookup id = some q → (q = p ↔ (a.dp.lookup id).isNone = true)) := by
    intro id p hm
    refine ⟨fun h => by simp [h], ?_⟩
    intro q hq
    have hp : p ∈ (collect a.blocks.length ms).positions := (List.of_mem_zip hm).2
    rw [hpos] at hp
    obtain ⟨d, hd, rfl⟩ := List.mem_map.mp hp
    have h1 := hblk d hd
    have h2 := hA.blk id q hq
    simp only [hq, Option.isNone_some, Bool.false_eq_true, iff_false]
    intro hqp
    subst hqp
    omega
  have hset := setMultiple_spec (fun id => (a.dp.lookup id).isNone) a.dp (collect a.blocks.length ms).ids
    (collect a.blocks.length ms).positions hcinv.1.1 hfun hgood
  obtain ⟨happ, hlook⟩ := hset
  -- the appended ids are the new ones
  have happ' : (setMultiple a.dp (collect a.blocks.length ms).ids (collect a.blocks.length ms).positions).2
      = (ms.map (·.id)).filter (fun id => decide (id ∉ docIds a)) := by
    rw [happ, hids]
    apply List.filter_congr
    intro id _
    have := hA.dom id
    cases hl : a.dp.lookup id <;> simp [hl] at this ⊢ <;> exact this
  have hkept_ids : (kept a ms).map (·.id) = (ms.map (·.id)).filter (fun id => decide (id ∉ docIds a)) := by
    unfold kept
    rw [List.filter_map]
    rfl
  have hlook' : ∀ id, (setMultiple a.dp (collect a.blocks.length ms).ids (collect a.blocks.length ms).positions).1.lookup id
      = (a.dp.lookup id).or (((ms.map (·.id)).zip ((docsOf a.blocks.length ms).map (·.2.1))).lookup id) := by
    intro id
    rw [hlook id, hids, hpos]
  unfold dedupCollector
  simp only []
  by_cases hlen : (setMultiple a.dp (collect a.blocks.length ms).ids (collect a.blocks.length ms).positions).2.length
      ≠ (collect a.blocks.length ms).ids.length
  · -- something was rejected: Filter
    rw [if_pos hlen]
    have hf := filter_view (collect a.blocks.length ms)
      (setMultiple a.dp (collect a.blocks.length ms).ids (collect a.blocks.length ms).positions).2 hcinv.1
    have hproj : rview (filter (collect a.blocks.length ms)
        (setMultiple a.dp (collect a.blocks.length ms).ids (collect a.blocks.length ms).positions).2)
        = (docsOf a.blocks.length ms).filter (fun d => decide (d.1 ∉ docIds a)) := by
      rw [rview_eq, hf.1, hf.2.2, ← hrv, rview_eq, List.filter_map]
      congr 1
      apply List.filter_congr
      intro d hd
      have hdi : d.1 ∈ ms.map (·.id) := by
        rw [← hids, ← view_ids _ hcinv.1]
        exact List.mem_map_of_mem hd
      show decide (d.1 ∈ _) = decide (d.1 ∉ docIds a)
      rw [happ']
      simp [List.mem_filter, hdi]
    have hfinv : CInv (filter (collect a.blocks.length ms)
        (setMultiple a.dp (collect a.blocks.length ms).ids (collect a.blocks.length ms).positions).2) := by
      refine ⟨hf.2.1, ?_, ?_⟩
      · rw [hf.2.2]; exact hcinv.2.1
      · intro k hk
        rw [hf.2.2]
        have : k ∈ (collect a.blocks.length ms).tokensIndex := by
          simp only [filter, List.mem_flatMap] at hk
          obtain ⟨i, -, hk⟩ := hk
          exact List.mem_of_mem_drop (List.mem_of_mem_take hk)
        exact hcinv.2.2 k this
    refine ⟨hfinv, ?_, ?_, ?_, minmax_filter _ _, hlook'⟩
    · rw [hproj]
      exact docsFrom_filter a.blocks.length ms 0 (0, 0) (fun id => decide (id ∉ docIds a)) 0 (0, 0)
    · rw [← rview_ids _ hf.2.1, hproj, hkept_ids, ← docsFrom_ids a.blocks.length ms 0 (0, 0), List.filter_map]
      rfl
    · show (setMultiple a.dp (collect a.blocks.length ms).ids (collect a.blocks.length ms).positions).2.length = _
      rw [happ', ← hkept_ids]; simp
  · -- nothing rejected: every id is new
    have hlen' : (setMultiple a.dp (collect a.blocks.length ms).ids (collect a.blocks.length ms).positions).2.length
        = (collect a.blocks.length ms).ids.length := by
      by_cases h : (setMultiple a.dp (collect a.blocks.length ms).ids (collect a.blocks.length ms).positions).2.length
        = (collect a.blocks.length ms).ids.length
      · exact h
      · exact absurd h hlen
    rw [if_neg hlen]
    have hall : ∀ id ∈ ms.map (·.id), decide (id ∉ docIds a) = true := by
      rw [happ', hids] at hlen'
      exact List.length_filter_eq_length_iff.mp hlen'
    have hk : kept a ms = ms := by
      unfold kept
      apply List.filter_eq_self.mpr
      intro m hm
      exact hall m.id (List.mem_map_of_mem hm)
    rw [hk]
    exact ⟨hcinv, by rw [hrv], hids, hcnt, minmax_collect _ _, hlook'⟩

theorem docsFrom_toks (b : Nat) (ms : List Meta) (off : Nat) (last : DocPos) :
    (docsFrom b ms off last).map (·.2.2) = ms.map (fun m => m.tokens.map MetaToken.bytes) := by
  induction ms generalizing off last with
  | nil => rfl
  | cons m ms ih => simp [docsFrom, ih]

theorem docIds_append (a : Active) (xs : List ID) (h : 1 ≤ a.ids.length) : (a.ids ++ xs).drop 1 = docIds a ++ xs := by
  unfold docIds
  rw [List.drop_append_of_le_length h]

/-- token lists of a bulk's metas -/
def toksOf (ms : List Meta) : List (List Bytes) := ms.map fun m => m.tokens.map MetaToken.bytes

def minOf (ids : List ID) : Nat := ids.foldl (fun m id => if id.1 < m then id.1 else m) maxU64
def maxOf (ids : List ID) : Nat := ids.foldl (fun m id => if id.1 > m then id.1 else m) 0

/-- **one `appendWorker` iteration, extensionally**: on a fraction satisfying the invariant a well-nested bulk has
exactly the effect of its not-yet-known documents (with their nested metas); the invariant is kept -/
theorem indexBulk_specN (a : Active) (ms : List Meta) (hA : AInvN a) (hb : BulkOK ms) :
    (indexBulk a ms).ids = a.ids ++ (kept a ms).map (·.id) ∧
    (∀ t, queue (indexBulk a ms) t
        = queue a t ++ postingsT (toksOf (kept a ms)) (List.range' a.ids.length (kept a ms).length) t) ∧
    (indexBulk a ms).docsTotal = a.docsTotal + (kept a ms).length ∧
    (indexBulk a ms).from_ = (if a.from_ > minOf ((kept a ms).map (·.id)) then minOf ((kept a ms).map (·.id)) else a.from_) ∧
    (indexBulk a ms).to = (if a.to < maxOf ((kept a ms).map (·.id)) then maxOf ((kept a ms).map (·.id)) else a.to) ∧
    (indexBulk a ms).blocks = a.blocks ++ [docBlock ms 0] ∧
    (∀ id, (indexBulk a ms).dp.lookup id
      = (a.dp.lookup id).or (((ms.map (·.id)).zip ((docsOf a.blocks.length ms).map (·.2.1))).lookup id)) ∧
    AInvN (indexBulk a ms) := by
  obtain ⟨hcinv, hrv, hids, hcnt, hmm, hdp⟩ := dedupCollector_spec a ms hA hb
  have hidsEq : (indexBulk a ms).ids = a.ids ++ (kept a ms).map (·.id) := by
    show a.ids ++ (dedupCollector a ms).1.ids = _
    rw [hids]
  have hzl : ((docsOf a.blocks.length ms).map (·.2.1)).length = (ms.map (·.id)).length := by
    have := congrArg List.length (docsFrom_ids a.blocks.length ms 0 (0, 0))
    simpa [docsOf] using this
  have hdp' : ∀ id, (indexBulk a ms).dp.lookup id
      = (a.dp.lookup id).or (((ms.map (·.id)).zip ((docsOf a.blocks.length ms).map (·.2.1))).lookup id) := hdp
  refine ⟨hidsEq, ?_, ?_, ?_, ?_, rfl, hdp, ?_⟩
  · intro t
    show qOf (putLIDs (tokenListAppend a.tokens (dedupCollector a ms).1.tokensValues) (dedupCollector a ms).1.tokensValues
      (groupLIDsByToken (dedupCollector a ms).1 (List.range' a.ids.length (dedupCollector a ms).1.ids.length))) t = _
    rw [queue_step _ _ hcinv (by simp)]
    show qOf a.tokens t ++ _ = qOf a.tokens t ++ _
    congr 1
    rw [hids, List.length_map, postings_eq_T]
    congr 1
    have : ∀ l : List (ID × DocPos × List Bytes), l.map (·.2.2) = (l.map (fun d => (d.1, d.2.2))).map (·.2) := by
      intro l; simp
    rw [this, hrv, ← this, docsOf, docsFrom_toks]
    rfl
  · show a.docsTotal + (dedupCollector a ms).1.docsCounter = _
    rw [hcnt]
  · show (if a.from_ > (dedupCollector a ms).1.minMID then (dedupCollector a ms).1.minMID else a.from_) = _
    rw [hmm.1, hids]; rfl
  · show (if a.to < (dedupCollector a ms).1.maxMID then (dedupCollector a ms).1.maxMID else a.to) = _
    rw [hmm.2, hids]; rfl
  · have hdoc : docIds (indexBulk a ms) = docIds a ++ (kept a ms).map (·.id) := by
      show (indexBulk a ms).ids.drop 1 = _
      rw [hidsEq, docIds_append a _ hA.ids1]
    have hkm : ∀ id, id ∈ (kept a ms).map (·.id) ↔ id ∈ ms.map (·.id) ∧ id ∉ docIds a := by
      intro id
      simp only [kept, List.mem_map, List.mem_filter, decide_eq_true_eq]
      constructor
      · rintro ⟨m, ⟨hm, hn⟩, rfl⟩; exact ⟨⟨m, hm, rfl⟩, hn⟩
      · rintro ⟨⟨m, hm, rfl⟩, hn⟩; exact ⟨m, ⟨hm, hn⟩, rfl⟩
    refine ⟨?_, ?_, ?_, ?_⟩
    · intro id
      rw [hdp' id, hdoc, List.mem_append, hkm]
      have h2 := lookup_zip_isSome (ms.map (·.id)) ((docsOf a.blocks.length ms).map (·.2.1)) id hzl
      have h3 := hA.dom id
      cases hl : a.dp.lookup id with
      | some q => simp [hl] at h3 ⊢; exact Or.inl h3
      | none =>
        simp only [hl, Option.none_or, Option.isSome_none, Bool.false_eq_true, false_iff] at h3 ⊢
        rw [h2]
        constructor
        · intro hm; exact Or.inr ⟨hm, h3⟩
        · rintro (h | h)
          · exact absurd h h3
          · exact h.1
    · intro id p hp
      rw [hdp' id] at hp
      show p.1 < (a.blocks ++ [docBlock ms 0]).length
      rw [List.length_append]
      cases hl : a.dp.lookup id with
      | some q =>
        simp only [hl, Option.some_or, Option.some.injEq] at hp
        subst hp
        have := hA.blk id q hl
        omega
      | none =>
        simp only [hl, Option.none_or] at hp
        have hm := lookup_zip_mem _ _ _ _ hp
        obtain ⟨d, hd, rfl⟩ := List.mem_map.mp hm
        have := docsFrom_block' a.blocks.length ms 0 (0, 0) (Or.inr (nestedOK_firstReal [] ms hb)) d hd
        simp only [List.length_cons, List.length_nil]
        omega
    · show a.docsTotal + (dedupCollector a ms).1.docsCounter = _
      rw [hcnt, hdoc, hA.total]; simp
    · rw [hidsEq, List.length_append]
      have := hA.ids1
      omega

/-- the same for bulks with pairwise distinct ids and no nested metas: additionally every id keeps a single LID -/
theorem indexBulk_spec (a : Active) (ms : List Meta) (hA : AInv a) (h1 : (ms.map (·.id)).Nodup)
    (hs : ∀ m ∈ ms, m.size ≠ 0) :
    (indexBulk a ms).ids = a.ids ++ (kept a ms).map (·.id) ∧
    (∀ t, queue (indexBulk a ms) t
        = queue a t ++ postingsT (toksOf (kept a ms)) (List.range' a.ids.length (kept a ms).length) t) ∧
    (indexBulk a ms).docsTotal = a.docsTotal + (kept a ms).length ∧
    (indexBulk a ms).from_ = (if a.from_ > minOf ((kept a ms).map (·.id)) then minOf ((kept a ms).map (·.id)) else a.from_) ∧
    (indexBulk a ms).to = (if a.to < maxOf ((kept a ms).map (·.id)) then maxOf ((kept a ms).map (·.id)) else a.to) ∧
    (indexBulk a ms).blocks = a.blocks ++ [docBlock ms 0] ∧
    (∀ id, (indexBulk a ms).dp.lookup id
      = (a.dp.lookup id).or (((ms.map (·.id)).zip ((docsOf a.blocks.length ms).map (·.2.1))).lookup id)) ∧
    AInv (indexBulk a ms) := by
  obtain ⟨e1, e2, e3, e4, e5, e6, e7, e8⟩ := indexBulk_specN a ms hA.toAInvN (bulkOK_of_distinct ms h1 hs)
  refine ⟨e1, e2, e3, e4, e5, e6, e7, e8, ?_⟩
  have hdoc : docIds (indexBulk a ms) = docIds a ++ (kept a ms).map (·.id) := by
    show (indexBulk a ms).ids.drop 1 = _
    rw [e1, docIds_append a _ hA.ids1]
  rw [hdoc, List.nodup_append]
  refine ⟨hA.nodup, ?_, ?_⟩
  · have : ((kept a ms).map (·.id)).Sublist (ms.map (·.id)) := by
      unfold kept
      exact List.Sublist.map _ List.filter_sublist
    exact List.Nodup.sublist this h1
  · intro x hx y hy hxy
    subst hxy
    simp only [kept, List.mem_map, List.mem_filter, decide_eq_true_eq] at hy
    obtain ⟨m, ⟨-, hn⟩, rfl⟩ := hy
    exact hn hx

/-! ## histories -/

/-- every document of the history is non-empty (`Size > 0`: not a nested meta) -/
def NonEmptyDocs (h : List (List Meta)) : Prop := ∀ b ∈ h, ∀ m ∈ b, m.size ≠ 0

theorem run_inv (a : Active) (h : List (List Meta)) (hA : AInv a) (hd : DistinctBulks h) (hs : NonEmptyDocs h) :
    AInv (run a h) ∧ ∀ id, id ∈ docIds (run a h) ↔ (id ∈ docIds a ∨ id ∈ allIds h) := by
  induction h generalizing a with
  | nil => simp [run, allIds, hA]
  | cons b h ih =>
    have hb := indexBulk_spec a b hA (hd b (by simp)) (hs b (by simp))
    obtain ⟨hids, -, -, -, -, -, -, hA'⟩ := hb
    obtain ⟨i1, i2⟩ := ih (indexBulk a b) hA' (fun b' hb' => hd b' (List.mem_cons_of_mem _ hb'))
      (fun b' hb' => hs b' (List.mem_cons_of_mem _ hb'))
    refine ⟨i1, ?_⟩
    intro id
    show id ∈ docIds (run (indexBulk a b) h) ↔ _
    rw [i2 id]
    have hdoc : docIds (indexBulk a b) = docIds a ++ (kept a b).map (·.id) := by
      show (indexBulk a b).ids.drop 1 = _
      rw [hids, docIds_append a _ hA.ids1]
    rw [hdoc]
    simp only [allIds, List.flatMap_cons, List.mem_append, kept, List.mem_map, List.mem_filter, decide_eq_true_eq]
    constructor
    · rintro ((h1 | ⟨m, ⟨hm, -⟩, rfl⟩) | h3)
      · exact Or.inl h1
      · exact Or.inr (Or.inl ⟨m, hm, rfl⟩)
      · exact Or.inr (Or.inr h3)
    · rintro (h1 | ⟨m, hm, rfl⟩ | h3)
      · exact Or.inl (Or.inl h1)
      · by_cases hn : m.id ∈ docIds a
        · exact Or.inl (Or.inl hn)
        · exact Or.inl (Or.inr ⟨m, ⟨hm, hn⟩, rfl⟩)
      · exact Or.inr h3

/-- two index states that no search, total, histogram or aggregation can tell apart: same ids in the same LID
order, same postings for every token, same counters and range -/
def Same (a a' : Active) : Prop :=
  a.ids = a'.ids ∧ (∀ t, queue a t = queue a' t) ∧ a.docsTotal = a'.docsTotal ∧ a.from_ = a'.from_ ∧ a.to = a'.to ∧
  a.blocks.length = a'.blocks.length

theorem run_norepFrom (a a' : Active) (seen : List ID) (h : List (List Meta)) (hA : AInv a) (hA' : AInv a')
    (hsame : Same a a') (hseen : ∀ id, id ∈ seen ↔ id ∈ docIds a) (hd : DistinctBulks h) (hs : NonEmptyDocs h) :
    Same (run a h) (run a' (norepFrom seen h)) := by
  induction h generalizing a a' seen with
  | nil => simpa [run, norepFrom] using hsame
  | cons b h ih =>
    have hdb := hd b (by simp)
    have hsb := hs b (by simp)
    -- the repeat-free bulk
    have hb' : b.filter (fun m => decide (m.id ∉ seen)) = kept a b := by
      unfold kept
      apply List.filter_congr
      intro m _
      simp [hseen m.id]
    have hdoc' : docIds a' = docIds a := by unfold docIds; rw [hsame.1]
    have hk' : kept a' (kept a b) = kept a b := by
      unfold kept
      rw [hdoc', List.filter_filter]
      apply List.filter_congr
      intro m _
      simp
    have hdb' : ((kept a b).map (·.id)).Nodup :=
      List.Nodup.sublist (List.Sublist.map _ List.filter_sublist) hdb
    have hsb' : ∀ m ∈ kept a b, m.size ≠ 0 := fun m hm => hsb m (List.mem_filter.mp hm).1
    obtain ⟨e1, e2, e3, e4, e5, e6, -, e8⟩ := indexBulk_spec a b hA hdb hsb
    obtain ⟨f1, f2, f3, f4, f5, f6, -, f8⟩ := indexBulk_spec a' (kept a b) hA' hdb' hsb'
    rw [hk'] at f1 f2 f3 f4 f5
    obtain ⟨s1, s2, s3, s4, s5, s6⟩ := hsame
    have hsame' : Same (indexBulk a b) (indexBulk a' (kept a b)) := by
      refine ⟨by rw [e1, f1, s1], ?_, by rw [e3, f3, s3], by rw [e4, f4, s4], by rw [e5, f5, s5], by rw [e6, f6]; simp [s6]⟩
      intro t
      rw [e2 t, f2 t, s2 t, s1]
    have hseen' : ∀ id, id ∈ seen ++ b.map (·.id) ↔ id ∈ docIds (indexBulk a b) := by
      intro id
      have hdoc : docIds (indexBulk a b) = docIds a ++ (kept a b).map (·.id) := by
        show (indexBulk a b).ids.drop 1 = _
        rw [e1, docIds_append a _ hA.ids1]
      rw [hdoc]
      simp only [List.mem_append, hseen id, kept, List.mem_map, List.mem_filter, decide_eq_true_eq]
      constructor
      · rintro (h1 | ⟨m, hm, rfl⟩)
        · exact Or.inl h1
        · by_cases hn : m.id ∈ docIds a
          · exact Or.inl hn
          · exact Or.inr ⟨m, ⟨hm, hn⟩, rfl⟩
      · rintro (h1 | ⟨m, ⟨hm, -⟩, rfl⟩)
        · exact Or.inl h1
        · exact Or.inr ⟨m, hm, rfl⟩
    have := ih (indexBulk a b) (indexBulk a' (kept a b)) (seen ++ b.map (·.id)) e8 f8 hsame' hseen'
      (fun b' hb' => hd b' (List.mem_cons_of_mem _ hb')) (fun b' hb' => hs b' (List.mem_cons_of_mem _ hb'))
    simp only [run, norepFrom, List.foldl_cons, hb'] at this ⊢
    exact this

/-! ## histories with nested metas -/

theorem nestedOK_of_none (seen : List ID) (c : Option ID) (ms : List Meta) (h : NestedOK seen none ms) :
    NestedOK seen c ms := by
  cases ms with
  | nil => trivial
  | cons m ms =>
    refine ⟨?_, h.2⟩
    have h1 := h.1
    by_cases hm : m.size = 0
    · simp [hm] at h1
    · simpa [hm] using h1

/-- dropping whole documents (a predicate on ids) keeps a bulk well nested -/
theorem nestedOK_filter (q : ID → Bool) (seen seen' : List ID) (cur : Option ID) (ms : List Meta)
    (hsub : ∀ x ∈ seen', x ∈ seen) (h : NestedOK seen cur ms) :
    NestedOK seen' (cur.filter q) (ms.filter fun m => q m.id) := by
  induction ms generalizing seen seen' cur with
  | nil => trivial
  | cons m ms ih =>
    obtain ⟨h1, h2⟩ := h
    by_cases hq : q m.id = true
    · simp only [List.filter_cons, hq, if_true]
      have ih' := ih (m.id :: seen) (m.id :: seen') (some m.id)
        (by intro x hx; rcases List.mem_cons.mp hx with rfl | hx
            · simp
            · exact List.mem_cons_of_mem _ (hsub x hx)) h2
      have e : (some m.id).filter q = some m.id := by simp [Option.filter, hq]
      rw [e] at ih'
      refine ⟨?_, ih'⟩
      by_cases hm : m.size = 0
      · simp only [hm, if_true] at h1 ⊢
        rw [h1]; simp [Option.filter, hq]
      · simp only [hm, if_false] at h1 ⊢
        exact fun hx => h1 (hsub _ hx)
    · simp only [List.filter_cons, hq, Bool.false_eq_true, if_false]
      have ih' := ih (m.id :: seen) seen' (some m.id) (fun x hx => List.mem_cons_of_mem _ (hsub x hx)) h2
      have e : (some m.id).filter q = none := by simp [Option.filter, hq]
      rw [e] at ih'
      exact nestedOK_of_none _ _ _ ih'

theorem bulkOK_kept (a : Active) (b : List Meta) (hb : BulkOK b) : BulkOK (kept a b) := by
  have := nestedOK_filter (fun id => decide (id ∉ docIds a)) [] [] none b (by simp) hb
  simpa [BulkOK, kept, Option.filter] using this

theorem run_invN (a : Active) (h : List (List Meta)) (hA : AInvN a) (hg : GoodBulks h) : AInvN (run a h) := by
  induction h generalizing a with
  | nil => simpa [run] using hA
  | cons b h ih =>
    have hb := indexBulk_specN a b hA (hg b (by simp))
    exact ih (indexBulk a b) hb.2.2.2.2.2.2.2 (fun b' hb' => hg b' (List.mem_cons_of_mem _ hb'))

/-- the lock-step argument of `run_norepFrom` for well-nested bulks (an id may own several LIDs: one per meta) -/
theorem run_norepFromN (a a' : Active) (seen : List ID) (h : List (List Meta)) (hA : AInvN a) (hA' : AInvN a')
    (hsame : Same a a') (hseen : ∀ id, id ∈ seen ↔ id ∈ docIds a) (hg : GoodBulks h) :
    Same (run a h) (run a' (norepFrom seen h)) ∧
    docIds (run a h) = docIds a ++ allIds (norepFrom seen h) := by
  induction h generalizing a a' seen with
  | nil => simpa [run, norepFrom, allIds] using hsame
  | cons b h ih =>
    have hgb := hg b (by simp)
    have hb' : b.filter (fun m => decide (m.id ∉ seen)) = kept a b := by
      unfold kept
      apply List.filter_congr
      intro m _
      simp [hseen m.id]
    have hdoc' : docIds a' = docIds a := by unfold docIds; rw [hsame.1]
    have hk' : kept a' (kept a b) = kept a b := by
      unfold kept
      rw [hdoc', List.filter_filter]
      apply List.filter_congr
      intro m _
      simp
    obtain ⟨e1, e2, e3, e4, e5, e6, -, e8⟩ := indexBulk_specN a b hA hgb
    obtain ⟨f1, f2, f3, f4, f5, f6, -, f8⟩ := indexBulk_specN a' (kept a b) hA' (bulkOK_kept a b hgb)
    rw [hk'] at f1 f2 f3 f4 f5
    obtain ⟨s1, s2, s3, s4, s5, s6⟩ := hsame
    have hsame' : Same (indexBulk a b) (indexBulk a' (kept a b)) := by
      refine ⟨by rw [e1, f1, s1], ?_, by rw [e3, f3, s3], by rw [e4, f4, s4], by rw [e5, f5, s5], by rw [e6, f6]; simp [s6]⟩
      intro t
      rw [e2 t, f2 t, s2 t, s1]
    have hdoc : docIds (indexBulk a b) = docIds a ++ (kept a b).map (·.id) := by
      show (indexBulk a b).ids.drop 1 = _
      rw [e1, docIds_append a _ hA.ids1]
    have hseen' : ∀ id, id ∈ seen ++ b.map (·.id) ↔ id ∈ docIds (indexBulk a b) := by
      intro id
      rw [hdoc]
      simp only [List.mem_append, hseen id, kept, List.mem_map, List.mem_filter, decide_eq_true_eq]
      constructor
      · rintro (h1 | ⟨m, hm, rfl⟩)
        · exact Or.inl h1
        · by_cases hn : m.id ∈ docIds a
          · exact Or.inl hn
          · exact Or.inr ⟨m, ⟨hm, hn⟩, rfl⟩
      · rintro (h1 | ⟨m, ⟨hm, -⟩, rfl⟩)
        · exact Or.inl h1
        · exact Or.inr ⟨m, hm, rfl⟩
    obtain ⟨i1, i2⟩ := ih (indexBulk a b) (indexBulk a' (kept a b)) (seen ++ b.map (·.id)) e8 f8 hsame' hseen'
      (fun b' hb' => hg b' (List.mem_cons_of_mem _ hb'))
    simp only [run, norepFrom, List.foldl_cons, hb'] at i1 i2 ⊢
    refine ⟨i1, ?_⟩
    rw [i2, hdoc, List.append_assoc]
    simp [allIds]

theorem goodBulks_of_distinct (h : List (List Meta)) (hd : DistinctBulks h) (hs : NonEmptyDocs h) : GoodBulks h :=
  fun b hb => bulkOK_of_distinct b (hd b hb) (hs b hb)

/-! ## fetch -/

theorem zip_lookup_docBlock (b : Nat) (ms : List Meta) (off : Nat) (last : DocPos)
    (hnd : (ms.map (·.id)).Nodup) (hs : ∀ m ∈ ms, m.size ≠ 0) (m : Meta) (hm : m ∈ ms) :
    ∃ o, ((ms.map (·.id)).zip ((docsFrom b ms off last).map (·.2.1))).lookup m.id = some (b, o) ∧ off ≤ o ∧
      (docBlock ms off).lookup o = some m.doc := by
  induction ms generalizing off last with
  | nil => simp at hm
  | cons k ms ih =>
    have hk : k.size ≠ 0 := hs k (by simp)
    simp only [List.map_cons, List.nodup_cons] at hnd
    simp only [docsFrom, docBlock, hk, if_false, List.map_cons, List.zip_cons_cons]
    rcases List.mem_cons.mp hm with rfl | hm'
    · exact ⟨off, by simp [List.lookup], Nat.le_refl _, by simp [List.lookup]⟩
    · obtain ⟨o, h1, h2, h3⟩ := ih (off + k.size + 4) (b, off) hnd.2 (fun m hm => hs m (List.mem_cons_of_mem _ hm)) hm'
      have hne : m.id ≠ k.id := fun h => hnd.1 (h ▸ List.mem_map_of_mem hm')
      have hne' : (m.id == k.id) = false := by simpa using hne
      have ho : (o == off) = false := by
        have : o ≠ off := by omega
        simpa using this
      exact ⟨o, by simp only [List.lookup, hne']; exact h1, by omega, by simp only [List.lookup, ho]; exact h3⟩

theorem firstMeta_cons_mem (b : List Meta) (h : List (List Meta)) (m : Meta) (hm : m ∈ b) (hnd : (b.map (·.id)).Nodup) :
    firstMeta (b :: h) m.id = some m := by
  unfold firstMeta
  rw [List.flatten_cons, List.find?_append]
  have : b.find? (fun x => x.id == m.id) = some m := by
    induction b with
    | nil => simp at hm
    | cons k b ih =>
      simp only [List.map_cons, List.nodup_cons] at hnd
      rcases List.mem_cons.mp hm with rfl | hm'
      · simp [List.find?]
      · have hne : k.id ≠ m.id := fun h => hnd.1 (h ▸ List.mem_map_of_mem hm')
        have : (k.id == m.id) = false := by simpa using hne
        simp only [List.find?, this]
        exact ih hm' hnd.2
  simp [this]

theorem firstMeta_cons_not_mem (b : List Meta) (h : List (List Meta)) (i : ID) (hn : i ∉ b.map (·.id)) :
    firstMeta (b :: h) i = firstMeta h i := by
  unfold firstMeta
  rw [List.flatten_cons, List.find?_append]
  have : b.find? (fun x => x.id == i) = none := by
    rw [List.find?_eq_none]
    intro x hx hxi
    exact hn (List.mem_map.mpr ⟨x, hx, by simpa using hxi⟩)
  simp [this]

theorem fetch_run (a : Active) (h : List (List Meta)) (hA : AInv a) (hd : DistinctBulks h) (hs : NonEmptyDocs h) (i : ID) :
    fetch (run a h) i = if (a.dp.lookup i).isSome then fetch a i else (firstMeta h i).map (·.doc) := by
  induction h generalizing a with
  | nil =>
    cases hl : a.dp.lookup i with
    | none => simp [run, fetch, hl, firstMeta]
    | some q => simp [run]
  | cons b h ih =>
    have hdb := hd b (by simp)
    have hsb := hs b (by simp)
    obtain ⟨-, -, -, -, -, e6, e7, e8⟩ := indexBulk_spec a b hA hdb hsb
    have := ih (indexBulk a b) e8 (fun b' hb' => hd b' (List.mem_cons_of_mem _ hb')) (fun b' hb' => hs b' (List.mem_cons_of_mem _ hb'))
    show fetch (run (indexBulk a b) h) i = _
    rw [this, e7 i]
    cases hl : a.dp.lookup i with
    | some q =>
      have hq := hA.blk i q hl
      simp only [Option.some_or, Option.isSome_some, if_true, fetch, e7 i, hl, e6]
      rw [List.getD_eq_getElem?_getD, List.getD_eq_getElem?_getD, List.getElem?_append_left hq]
    | none =>
      simp only [Option.none_or, Option.isSome_none, Bool.false_eq_true, if_false]
      by_cases hm : i ∈ b.map (·.id)
      · obtain ⟨m, hmb, rfl⟩ := List.mem_map.mp hm
        obtain ⟨o, h1, -, h3⟩ := zip_lookup_docBlock a.blocks.length b 0 (0, 0) hdb hsb m hmb
        have h1' : ((b.map (·.id)).zip ((docsOf a.blocks.length b).map (·.2.1))).lookup m.id = some (a.blocks.length, o) := h1
        rw [h1', firstMeta_cons_mem b h m hmb hdb]
        simp only [Option.isSome_some, if_true, fetch, e7 m.id, hl, Option.none_or, h1', e6, Option.map_some]
        rw [List.getD_eq_getElem?_getD]
        simp [h3]
      · have hz : ((b.map (·.id)).zip ((docsOf a.blocks.length b).map (·.2.1))).lookup i = none := by
          have hzl : ((docsOf a.blocks.length b).map (·.2.1)).length = (b.map (·.id)).length := by
            have := congrArg List.length (docsFrom_ids a.blocks.length b 0 (0, 0))
            simpa [docsOf] using this
          have := lookup_zip_isSome (b.map (·.id)) _ i hzl
          cases hh : ((b.map (·.id)).zip ((docsOf a.blocks.length b).map (·.2.1))).lookup i with
          | none => rfl
          | some v => rw [hh] at this; exact absurd (this.mp rfl) hm
        rw [hz, firstMeta_cons_not_mem b h i hm]
        simp

end SV.Collector
