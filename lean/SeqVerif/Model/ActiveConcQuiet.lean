import SeqVerif.Model.ActiveConcFull
/-!
Third layer: what is true once the writers are idle.  Every LID belongs to the bulk of some index worker that got
past `AppendIDs`; a worker that has published its stats has queued `_all_` for all its documents and its documents'
MIDs are inside the published range.  Hence in a quiescent state `_all_` lists every document.
-/
namespace SV.ActiveConc

def afterIds (pc : WPc) : Prop := pc = .ids ∨ pc = .tokget ∨ pc = .queue ∨ pc = .stats ∨ pc = .done
def finished (pc : WPc) : Prop := pc = .stats ∨ pc = .done

theorem inR_statsOf_aux (docs : List Doc) (r : Range) :
    (∀ m, inR r m = true → inR (docs.foldl (fun r d => widen r d.mid d.mid) r) m = true) ∧
    (∀ d, d ∈ docs → inR (docs.foldl (fun r d => widen r d.mid d.mid) r) d.mid = true) := by
  induction docs generalizing r with
  | nil => exact ⟨fun _ h => h, fun _ h => by cases h⟩
  | cons x xs ih =>
    obtain ⟨i1, i2⟩ := ih (widen r x.mid x.mid)
    refine ⟨fun m hm => i1 m (inR_widen r _ _ m hm), ?_⟩
    intro d hd
    rcases List.mem_cons.mp hd with rfl | hd
    · apply i1
      cases r with
      | none => simp [widen, inR]
      | some p => obtain ⟨a, b⟩ := p; simp only [widen, inR, Bool.and_eq_true, decide_eq_true_eq]; omega
    · exact i2 d hd

theorem inR_merge_right (r s : Range) (m : Nat) (h : inR s m = true) : inR (merge r s) m = true := by
  cases s with
  | none => simp [inR] at h
  | some p =>
    obtain ⟨lo, hi⟩ := p
    cases r with
    | none => simpa [merge, widen] using h
    | some q =>
      obtain ⟨a, b⟩ := q
      simp only [merge, widen, inR, Bool.and_eq_true, decide_eq_true_eq] at *
      omega

structure Inv3 (s : St) : Prop where
  owner : ∀ l, l < s.sh.ids.length → ∃ i k, afterIds (s.ws i).pc ∧ (s.ws i).base + k = l ∧ k < (s.ws i).docs.length
  allQ : ∀ i, (s.ws i).pc = .queue →
    (none, List.range' (s.ws i).base (s.ws i).docs.length) ∈ (s.ws i).todo ∨
    ∀ k, k < (s.ws i).docs.length → (s.ws i).base + k ∈ s.sh.all
  allDone : ∀ i, finished (s.ws i).pc → ∀ k, k < (s.ws i).docs.length → (s.ws i).base + k ∈ s.sh.all
  rangeDone : ∀ i, finished (s.ws i).pc → ∀ d, d ∈ (s.ws i).docs → inR s.sh.range d.mid = true

theorem inv3_init : Inv3 init := by
  constructor <;> simp [init, finished]

/-- a step of a reader, or any step that leaves `ids`, `all`, `range` and the writers alone -/
theorem inv3_same (s s' : St) (h : Inv3 s) (h1 : s'.sh.ids = s.sh.ids) (h2 : s'.sh.all = s.sh.all)
    (h3 : s'.sh.range = s.sh.range) (h4 : s'.ws = s.ws) : Inv3 s' :=
  ⟨by rw [h1, h4]; exact h.owner, by rw [h2, h4]; exact h.allQ, by rw [h2, h4]; exact h.allDone,
    by rw [h3, h4]; exact h.rangeDone⟩

/-- a writer step that changes neither `docs` nor `base` of the acting writer, keeps it among / outside the owners,
and only grows `ids`, `all`, `range` -/
theorem inv3_writer (s : St) (i : Nat) (sh' : Sh) (w' : W) (h : Inv3 s)
    (hids : sh'.ids = s.sh.ids) (hall : ∀ l, l ∈ s.sh.all → l ∈ sh'.all)
    (hrange : ∀ m, inR s.sh.range m = true → inR sh'.range m = true)
    (hdocs : afterIds (s.ws i).pc → w'.docs = (s.ws i).docs ∧ w'.base = (s.ws i).base ∧ afterIds w'.pc)
    (hq : w'.pc = .queue → (none, List.range' w'.base w'.docs.length) ∈ w'.todo ∨
      ∀ k, k < w'.docs.length → w'.base + k ∈ sh'.all)
    (hd : finished w'.pc → (∀ k, k < w'.docs.length → w'.base + k ∈ sh'.all) ∧
      ∀ d, d ∈ w'.docs → inR sh'.range d.mid = true) :
    Inv3 { s with sh := sh', ws := setW s.ws i w' } := by
  refine ⟨?_, ?_, ?_, ?_⟩
  · intro l hl
    rw [hids] at hl
    obtain ⟨j, k, a1, a2, a3⟩ := h.owner l hl
    refine ⟨j, k, ?_⟩
    simp only [setW]
    split
    · rename_i e
      subst e
      obtain ⟨b1, b2, b3⟩ := hdocs a1
      rw [b1, b2]; exact ⟨b3, a2, a3⟩
    · exact ⟨a1, a2, a3⟩
  · intro j
    simp only [setW]
    split
    · exact hq
    · intro hp
      rcases h.allQ j hp with h' | h'
      · exact Or.inl h'
      · exact Or.inr (fun k hk => hall _ (h' k hk))
  · intro j
    simp only [setW]
    split
    · exact fun hf => (hd hf).1
    · intro hf k hk; exact hall _ (h.allDone j hf k hk)
  · intro j
    simp only [setW]
    split
    · exact fun hf => (hd hf).2
    · intro hf d hdd; exact hrange _ (h.rangeDone j hf d hdd)

theorem inv3_step (c : Cfg) (s : St) (l : Label) (s' : St) (h : Inv3 s) (hs : step c s l = some s') : Inv3 s' := by
  cases l with
  | wNew i b =>
    simp only [step] at hs
    split at hs <;> cases hs
    rename_i hpc
    exact inv3_writer s i _ _ h rfl (fun _ h => h) (fun _ h => h) (by simp [afterIds, hpc]) (by simp) (by simp [finished])
  | wBlock i =>
    simp only [step] at hs
    split at hs <;> cases hs
    rename_i hpc
    exact inv3_writer s i _ _ h rfl (fun _ h => h) (fun _ h => h) (by simp [afterIds, hpc]) (by simp) (by simp [finished])
  | wPos i =>
    simp only [step] at hs
    split at hs <;> cases hs
    rename_i hpc
    exact inv3_writer s i _ _ h rfl (fun _ h => h) (fun _ h => h) (by simp [afterIds, hpc]) (by simp) (by simp [finished])
  | wIds i =>
    simp only [step] at hs
    split at hs <;> cases hs
    rename_i hpc
    refine ⟨?_, ?_, ?_, ?_⟩
    · intro l hl
      simp only [List.length_append] at hl
      by_cases hlt : l < s.sh.ids.length
      · obtain ⟨j, k, a1, a2, a3⟩ := h.owner l hlt
        refine ⟨j, k, ?_⟩
        have : j ≠ i := by
          intro e; subst e; simp [afterIds, hpc] at a1
        simp only [setW, this, if_false]
        exact ⟨a1, a2, a3⟩
      · refine ⟨i, l - s.sh.ids.length, ?_⟩
        simp only [setW, if_true, afterIds, true_or, true_and]
        omega
    · intro j
      simp only [setW]
      split
      · simp
      · exact h.allQ j
    · intro j
      simp only [setW]
      split
      · simp [finished]
      · exact h.allDone j
    · intro j
      simp only [setW]
      split
      · simp [finished]
      · exact h.rangeDone j
  | wTokGet i =>
    simp only [step] at hs
    split at hs <;> cases hs
    exact inv3_writer s i _ _ h rfl (fun _ h => h) (fun _ h => h) (by simp [afterIds]) (by simp) (by simp [finished])
  | wToks i =>
    simp only [step] at hs
    split at hs <;> cases hs
    refine inv3_writer s i _ _ h rfl (fun _ h => h) (fun _ h => h) (by simp [afterIds]) ?_ (by simp [finished])
    intro _
    left
    cases c.allLast <;> simp [queueCalls]
  | wQueue i =>
    simp only [step] at hs
    split at hs
    · rename_i hpc
      split at hs
      · cases hs
      · rename_i t0 ls rest htodo
        cases hs
        have hall : ∀ l, l ∈ s.sh.all → l ∈ (putQueue s.sh t0 ls).all := by
          intro l hl
          cases t0 with
          | none => exact List.mem_append_left _ hl
          | some u => exact hl
        refine inv3_writer s i _ _ h (by cases t0 <;> rfl) hall (fun _ h => by cases t0 <;> simpa [putQueue] using h)
          (by simp [afterIds, hpc]) ?_ (by simp [finished, hpc])
        intro _
        rcases h.allQ i hpc with h' | h'
        · rw [htodo] at h'
          rcases List.mem_cons.mp h' with h' | h'
          · right
            simp only [Prod.mk.injEq] at h'
            obtain ⟨rfl, rfl⟩ := h'
            intro k hk
            have hk' : k < (s.ws i).docs.length := hk
            simp only [putQueue]
            apply List.mem_append_right
            rw [List.mem_range'_1]
            show (s.ws i).base ≤ (s.ws i).base + k ∧ (s.ws i).base + k < (s.ws i).base + (s.ws i).docs.length
            omega
          · exact Or.inl h'
        · exact Or.inr (fun k hk => hall _ (h' k hk))
    · cases hs
  | wStats i =>
    simp only [step] at hs
    split at hs <;> cases hs
    rename_i hpc
    refine inv3_writer s i _ _ h rfl (fun _ h => h) (fun m hm => inR_merge _ _ m hm) (by simp [afterIds]) (by simp) ?_
    intro _
    constructor
    · rcases h.allQ i hpc.1 with h' | h'
      · rw [hpc.2] at h'; cases h'
      · exact h'
    · intro d hd
      exact inR_merge_right _ _ _ ((inR_statsOf_aux _ none).2 d hd)
  | wDone i =>
    simp only [step] at hs
    split at hs <;> cases hs
    rename_i hpc
    have hf : finished (s.ws i).pc := Or.inl hpc
    have := inv3_writer s i s.sh { s.ws i with pc := .done } h rfl (fun _ h => h) (fun _ h => h) (by simp [afterIds])
      (by simp) (fun _ => ⟨h.allDone i hf, h.rangeDone i hf⟩)
    exact this
  | rNew i q a b => simp only [step] at hs; split at hs <;> cases hs; exact inv3_same _ _ h rfl rfl rfl rfl
  | rInfo i =>
    simp only [step] at hs
    split at hs
    · split at hs <;> cases hs <;> exact inv3_same _ _ h rfl rfl rfl rfl
    · cases hs
  | rBlocks i => simp only [step] at hs; split at hs <;> cases hs; exact inv3_same _ _ h rfl rfl rfl rfl
  | rMapping i => simp only [step] at hs; split at hs <;> cases hs; exact inv3_same _ _ h rfl rfl rfl rfl
  | rMids i => simp only [step] at hs; split at hs <;> cases hs; exact inv3_same _ _ h rfl rfl rfl rfl
  | rRids i => simp only [step] at hs; split at hs <;> cases hs; exact inv3_same _ _ h rfl rfl rfl rfl
  | rLeaf i =>
    simp only [step] at hs
    split at hs
    · split at hs
      · cases hs
      · cases hs; exact inv3_same _ _ h rfl rfl rfl rfl
    · cases hs
  | rEval i => simp only [step] at hs; split at hs <;> cases hs; exact inv3_same _ _ h rfl rfl rfl rfl
  | rFetch i id => simp only [step] at hs; split at hs <;> cases hs; exact inv3_same _ _ h rfl rfl rfl rfl
  | rClose i => simp only [step] at hs; split at hs <;> cases hs; exact inv3_same _ _ h rfl rfl rfl rfl

theorem inv3_reachable (c : Cfg) (s : St) (h : Reachable c s) : Inv3 s :=
  reachable_induct c Inv3 inv3_init (inv3_step c) s h

end SV.ActiveConc
