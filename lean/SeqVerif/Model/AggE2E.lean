import SeqVerif.Model.AggRun4
import SeqVerif.Model.AggOut
set_option linter.unusedSimpArgs false
set_option linter.unusedVariables false
/-!
Helper lemmas for C06, part 9: from per-fraction aggregator runs to the merged result, at the level of token
values (sources are fraction-local indices; bins are keyed by the token string).
-/
namespace SV.Agg

/-- a matching document at token level: time bin, group token, parsed field value -/
structure TDoc where
  bin : Nat
  g : Option String
  v : Option Int
deriving DecidableEq, Repr

def toTDoc (gval : Nat → String) (fv : Nat → Int) (ev : Ev) : TDoc := ⟨ev.bin, ev.g.map gval, ev.f.map fv⟩

/-- field values of the documents of time bin `k.mid` and group token `k.token` -/
def groupVals (k : Bin) (ds : List TDoc) : List Int :=
  ds.filterMap fun d => if d.bin = k.mid ∧ d.g = some k.token then d.v else none

/-- documents of group token `k.token` that lack the field and are tallied under the bin `k.mid`
(`pb = false`: all under the bin without time; `pb = true`: under their own time bin) -/
def groupMissing (pb : Bool) (k : Bin) (ds : List TDoc) : Nat :=
  (ds.filter fun d => missingBin pb d.bin = k.mid ∧ d.g = some k.token ∧ d.v.isNone).length

def groupPres (pb : Bool) (k : Bin) (ds : List TDoc) : Bool :=
  decide (groupVals k ds ≠ [] ∨ groupMissing pb k ds ≠ 0)

theorem groupVals_append (k : Bin) (xs ys : List TDoc) : groupVals k (xs ++ ys) = groupVals k xs ++ groupVals k ys := by
  simp [groupVals, List.filterMap_append]

theorem groupMissing_append (pb : Bool) (k : Bin) (xs ys : List TDoc) :
    groupMissing pb k (xs ++ ys) = groupMissing pb k xs + groupMissing pb k ys := by
  unfold groupMissing
  simp [List.filter_append]

theorem groupVals_eq (gval : Nat → String) (fv : Nat → Int) (hinj : ∀ a b, gval a = gval b → a = b)
    (m g : Nat) (evs : List Ev) :
    groupVals ⟨m, gval g⟩ (evs.map (toTDoc gval fv)) = evVals fv (twoDocs m g evs) := by
  unfold groupVals twoDocs evVals
  induction evs with
  | nil => rfl
  | cons ev evs ih =>
    simp only [List.map_cons, List.filterMap_cons, List.filter_cons]
    cases hg : ev.g with
    | none => simp [toTDoc, hg]; simpa [toTDoc] using ih
    | some g' =>
      cases hf : ev.f with
      | none =>
        by_cases h1 : ev.bin = m <;> by_cases h2 : g' = g <;> simp [toTDoc, hg, hf, h1, h2] <;>
          (try simpa [toTDoc] using ih)
      | some f' =>
        by_cases h1 : ev.bin = m
        · by_cases h2 : g' = g
          · subst h2; simp [toTDoc, hg, hf, h1]; simpa [toTDoc] using ih
          · have : gval g' ≠ gval g := fun e => h2 (hinj _ _ e)
            simp [toTDoc, hg, hf, h1, h2, this]; simpa [toTDoc] using ih
        · simp [toTDoc, hg, hf, h1]; simpa [toTDoc] using ih

theorem groupMissing_eq (pb : Bool) (gval : Nat → String) (fv : Nat → Int) (hinj : ∀ a b, gval a = gval b → a = b)
    (m g : Nat) (evs : List Ev) :
    groupMissing pb ⟨m, gval g⟩ (evs.map (toTDoc gval fv)) = twoMissing pb m g evs := by
  unfold groupMissing twoMissing
  induction evs with
  | nil => rfl
  | cons ev evs ih =>
    simp only [List.map_cons, List.filter_cons]
    cases hg : ev.g with
    | none => simpa [toTDoc, hg] using ih
    | some g' =>
      cases hf : ev.f with
      | none =>
        by_cases h1 : missingBin pb ev.bin = m
        · by_cases h2 : g' = g
          · subst h2; simp [toTDoc, hg, hf, h1]; simpa [toTDoc] using ih
          · have : gval g' ≠ gval g := fun e => h2 (hinj _ _ e)
            simp [toTDoc, hg, hf, h1, h2, this]; simpa [toTDoc] using ih
        · simp [toTDoc, hg, hf, h1]; simpa [toTDoc] using ih
      | some f' => simp [toTDoc, hg, hf]; simpa [toTDoc] using ih

end SV.Agg

namespace SV.Agg

theorem foldl_upsert_nodup {ε : Type} (key : ε → Bin) (upd : ε → SC → SC) (es : List ε) (bs : Bins)
    (h : KeysNodup bs) : KeysNodup (es.foldl (fun bs e => upsert (key e) (upd e) bs) bs) := by
  induction es generalizing bs with
  | nil => exact h
  | cons e es ih => exact ih _ (upsert_nodup _ _ _ h)

/-- **TwoSourceAggregator at token level**: every bin `(time bin, group token)` of a fraction's result exists
exactly when the fraction has a matching document for it, and summarises exactly those documents -/
theorem twoRun_tok (pb : Bool) (lim : Nat) (pick : List Int → Nat) (collect : Bool) (gval : Nat → String)
    (fval : Nat → Option Int) (evs : List Ev)
    (hinj : ∀ a b, gval a = gval b → a = b) (hp : ParseOk fval evs)
    (hl : collect = true → ∀ k, (groupVals k (evs.map (toTDoc gval fun s => (fval s).getD 0))).length ≤ lim) :
    ∃ a, twoRun pb lim pick collect gval fval evs = some a ∧ KeysNodup a.bins ∧
      a.notExists = ((evs.map (toTDoc gval fun s => (fval s).getD 0)).filter fun d => d.g.isNone && d.v.isSome).length ∧
      ∀ k, ORep (groupPres pb k (evs.map (toTDoc gval fun s => (fval s).getD 0)))
                (groupVals k (evs.map (toTDoc gval fun s => (fval s).getD 0)))
                (groupMissing pb k (evs.map (toTDoc gval fun s => (fval s).getD 0))) collect (a.get k) := by
  have hl' : collect = true → ∀ m g, (twoDocs m g evs).length ≤ lim := by
    intro hc m g
    have := hl hc ⟨m, gval g⟩
    rw [groupVals_eq gval _ hinj] at this
    rwa [evVals_length _ _ (fun ev hev => by
      have := (List.mem_filter.mp hev).2
      simp only [decide_eq_true_eq] at this
      exact this.2.2)] at this
  obtain ⟨a, ha, hne, hspec⟩ := twoRun_spec pb lim pick collect gval fval evs hinj hp hl'
  refine ⟨a, ha, ?_, ?_, ?_⟩
  · have := twoRun_eq pb lim pick collect gval fval evs hp
    rw [ha] at this
    have e := Option.some.inj this
    rw [e]
    exact foldl_upsert_nodup _ _ _ _ (foldl_upsert_nodup _ _ _ _ (by simp [KeysNodup]))
  · rw [hne, List.filter_map]
    simp only [List.length_map]
    congr 1
    apply List.filter_congr
    intro ev _
    cases hg : ev.g <;> cases hf : ev.f <;> simp [toTDoc, hg, hf]
  · intro k
    by_cases hk : ∃ g, gval g = k.token
    · obtain ⟨g, hg⟩ := hk
      have ek : k = ⟨k.mid, gval g⟩ := by cases k; simp at hg; simp [hg]
      rw [ek]
      rcases hspec k.mid g with ⟨h1, h2, h3⟩ | ⟨c, h1, h2, h3⟩
      · have hv : groupVals ⟨k.mid, gval g⟩ (evs.map (toTDoc gval fun s => (fval s).getD 0)) = [] := by
          rw [groupVals_eq gval _ hinj, h2]; rfl
        have hm : groupMissing pb ⟨k.mid, gval g⟩ (evs.map (toTDoc gval fun s => (fval s).getD 0)) = 0 := by
          rw [groupMissing_eq pb gval _ hinj]; exact h3
        refine ⟨fun _ => ⟨h1, hv, hm⟩, fun hpres => ?_⟩
        simp [groupPres, hv, hm] at hpres
      · have hv := groupVals_eq gval (fun s => (fval s).getD 0) hinj k.mid g evs
        have hm := groupMissing_eq pb gval (fun s => (fval s).getD 0) hinj k.mid g evs
        refine ⟨fun hpres => ?_, fun _ => ⟨c, h1, by rw [hv, hm]; exact h3⟩⟩
        exfalso
        simp only [groupPres, decide_eq_false_iff_not, not_or, Decidable.not_not] at hpres
        rcases h2 with h2 | h2'
        · have hlen := evVals_length (fun s => (fval s).getD 0) (twoDocs k.mid g evs) (fun ev hev => by
            have := (List.mem_filter.mp hev).2
            simp only [decide_eq_true_eq] at this
            exact this.2.2)
          rw [← hv, hpres.1] at hlen
          exact h2 (List.eq_nil_of_length_eq_zero hlen.symm)
        · rw [hm] at hpres
          exact h2' hpres.2
    · have hk' : ∀ g, gval g ≠ k.token := fun g e => hk ⟨g, e⟩
      obtain ⟨a', ha', hnone⟩ := twoRun_absent pb lim pick collect gval fval evs hp k hk'
      rw [ha] at ha'
      have e := Option.some.inj ha'
      subst e
      have hnog : ∀ d, d ∈ evs.map (toTDoc gval fun s => (fval s).getD 0) → d.g ≠ some k.token := by
        intro d hd
        obtain ⟨ev, _, rfl⟩ := List.mem_map.mp hd
        cases hg : ev.g with
        | none => simp [toTDoc, hg]
        | some g => simp [toTDoc, hg]; exact hk' g
      have hv : groupVals k (evs.map (toTDoc gval fun s => (fval s).getD 0)) = [] := by
        unfold groupVals
        rw [List.filterMap_eq_nil_iff]
        intro d hd
        have := hnog d hd
        simp [this]
      have hm : groupMissing pb k (evs.map (toTDoc gval fun s => (fval s).getD 0)) = 0 := by
        unfold groupMissing
        rw [List.length_eq_zero_iff, List.filter_eq_nil_iff]
        intro d hd
        have := hnog d hd
        simp [this]
      refine ⟨fun _ => ⟨hnone, hv, hm⟩, fun hpres => ?_⟩
      simp [groupPres, hv, hm] at hpres

end SV.Agg

namespace SV.Agg

/-- one fraction as the aggregation sees it: its token tables and the matching documents -/
structure Frac where
  gval : Nat → String
  fval : Nat → Option Int
  evs : List Ev

def Frac.tdocs (f : Frac) : List TDoc := f.evs.map (toTDoc f.gval fun s => (f.fval s).getD 0)

/-- the fraction's group-by + field result as a leaf of a merge tree -/
def Frac.groupLeaf (pb : Bool) (lim : Nat) (pick : List Int → Nat) (collect : Bool) (f : Frac) : ALeaf :=
  ⟨(twoRun pb lim pick collect f.gval f.fval f.evs).getD AS.empty,
    fun k => groupPres pb k f.tdocs, fun k => groupVals k f.tdocs, fun k => groupMissing pb k f.tdocs⟩

def MTree.map {α β : Type} (g : α → β) : MTree α → MTree β
  | .leaf a => .leaf (g a)
  | .node l r => .node (l.map g) (r.map g)

theorem MTree.leaves_map {α β : Type} (g : α → β) (t : MTree α) : (t.map g).leaves = t.leaves.map g := by
  induction t with
  | leaf a => rfl
  | node l r ihl ihr => simp [MTree.map, MTree.leaves, ihl, ihr]

theorem groupVals_flatMap {α : Type} (k : Bin) (ls : List α) (g : α → List TDoc) :
    groupVals k (ls.flatMap g) = ls.flatMap fun l => groupVals k (g l) := by
  induction ls with
  | nil => rfl
  | cons a ls ih => simp [List.flatMap_cons, groupVals_append, ih]

theorem groupMissing_flatMap {α : Type} (pb : Bool) (k : Bin) (ls : List α) (g : α → List TDoc) :
    groupMissing pb k (ls.flatMap g) = (ls.map fun l => groupMissing pb k (g l)).sum := by
  induction ls with
  | nil => simp [groupMissing]
  | cons a ls ih => simp [List.flatMap_cons, groupMissing_append, ih]

theorem groupPres_flatMap {α : Type} (pb : Bool) (k : Bin) (ls : List α) (g : α → List TDoc) :
    groupPres pb k (ls.flatMap g) = ls.any fun l => groupPres pb k (g l) := by
  induction ls with
  | nil => simp [groupPres, groupVals, groupMissing]
  | cons a ls ih =>
    simp only [List.flatMap_cons, List.any_cons, ← ih]
    simp only [groupPres, groupVals_append, groupMissing_append]
    by_cases h1 : groupVals k (g a) = [] <;> by_cases h2 : groupMissing pb k (g a) = 0 <;>
      by_cases h3 : groupVals k (ls.flatMap g) = [] <;> by_cases h4 : groupMissing pb k (ls.flatMap g) = 0 <;>
      simp [h1, h2, h3, h4]

theorem length_le_flatMap {α β : Type} (ls : List α) (g : α → List β) (a : α) (h : a ∈ ls) :
    (g a).length ≤ (ls.flatMap g).length := by
  induction ls with
  | nil => cases h
  | cons b ls ih =>
    simp only [List.flatMap_cons, List.length_append]
    rcases List.mem_cons.mp h with rfl | h
    · omega
    · have := ih h; omega

/-- **group-by + field, end to end in the model**: run the TwoSourceAggregator on every fraction (each with its
own token tables), combine the results by any tree of `Merge` calls - the final bin `(time bin, group token)`
exists exactly when some matching document of any fraction belongs to it, and summarises exactly the field values
of all those documents; `NotExists` counts the matching documents that carry the field but no group. -/
theorem group_stats_merged (pb : Bool) (lim : Nat) (pick : List Int → Nat) (collect : Bool) (t : MTree Frac)
    (hok : ∀ f, f ∈ t.leaves → (∀ a b, f.gval a = f.gval b → a = b) ∧ ParseOk f.fval f.evs)
    (hl : collect = true → ∀ k, (groupVals k (t.leaves.flatMap Frac.tdocs)).length ≤ lim) :
    (((t.map (Frac.groupLeaf pb lim pick collect)).eval (mergeLeaf lim pick)).a.notExists =
        ((t.leaves.flatMap Frac.tdocs).filter fun d => d.g.isNone && d.v.isSome).length) ∧
    ∀ k, ORep (groupPres pb k (t.leaves.flatMap Frac.tdocs)) (groupVals k (t.leaves.flatMap Frac.tdocs))
      (groupMissing pb k (t.leaves.flatMap Frac.tdocs)) collect
      (((t.map (Frac.groupLeaf pb lim pick collect)).eval (mergeLeaf lim pick)).a.get k) := by
  have hleafspec : ∀ f, f ∈ t.leaves →
      KeysNodup (Frac.groupLeaf pb lim pick collect f).a.bins ∧
      (Frac.groupLeaf pb lim pick collect f).a.notExists = (f.tdocs.filter fun d => d.g.isNone && d.v.isSome).length ∧
      ∀ k, ORep (groupPres pb k f.tdocs) (groupVals k f.tdocs) (groupMissing pb k f.tdocs) collect
        ((Frac.groupLeaf pb lim pick collect f).a.get k) := by
    intro f hf
    obtain ⟨hinj, hp⟩ := hok f hf
    obtain ⟨a, ha, h1, h2, h3⟩ := twoRun_tok pb lim pick collect f.gval f.fval f.evs hinj hp (by
      intro hc k
      have h := hl hc k
      rw [groupVals_flatMap] at h
      exact Nat.le_trans (length_le_flatMap t.leaves (fun l => groupVals k l.tdocs) f hf) h)
    simp only [Frac.groupLeaf, ha, Option.getD_some]
    exact ⟨h1, h2, h3⟩
  have hrep := ATree.rep lim pick collect (t.map (Frac.groupLeaf pb lim pick collect))
    (by
      intro l hl'
      rw [MTree.leaves_map] at hl'
      obtain ⟨f, hf, rfl⟩ := List.mem_map.mp hl'
      have := hleafspec f hf
      exact ⟨this.1, this.2.2⟩)
    (by
      intro hc k
      rw [MTree.leaves_map]
      have h := hl hc k
      rw [groupVals_flatMap] at h
      simpa [binVals, List.flatMap_map, Frac.groupLeaf] using h)
  refine ⟨?_, fun k => ?_⟩
  · rw [hrep.2.1, MTree.leaves_map, List.map_map]
    have : ∀ ls : List Frac, (∀ f, f ∈ ls → f ∈ t.leaves) →
        (ls.map ((fun l : ALeaf => l.a.notExists) ∘ Frac.groupLeaf pb lim pick collect)).sum =
        ((ls.flatMap Frac.tdocs).filter fun d => d.g.isNone && d.v.isSome).length := by
      intro ls
      induction ls with
      | nil => intro _; rfl
      | cons f ls ih =>
        intro hsub
        simp only [List.map_cons, List.sum_cons, List.flatMap_cons, List.filter_append, List.length_append,
          Function.comp]
        rw [(hleafspec f (hsub f (by simp))).2.1, ih (fun f' hf' => hsub f' (List.mem_cons_of_mem _ hf'))]
    exact this t.leaves (fun _ h => h)
  · have := (hrep.2.2 k).1
    rw [MTree.leaves_map] at this
    have e1 : binVals (t.leaves.map (Frac.groupLeaf pb lim pick collect)) k = groupVals k (t.leaves.flatMap Frac.tdocs) := by
      rw [groupVals_flatMap]; simp [binVals, List.flatMap_map, Frac.groupLeaf]
    have e2 : binNe (t.leaves.map (Frac.groupLeaf pb lim pick collect)) k = groupMissing pb k (t.leaves.flatMap Frac.tdocs) := by
      rw [groupMissing_flatMap]; simp only [binNe, List.map_map]; rfl
    have e3 : binPres (t.leaves.map (Frac.groupLeaf pb lim pick collect)) k = groupPres pb k (t.leaves.flatMap Frac.tdocs) := by
      rw [groupPres_flatMap]; simp only [binPres, List.any_map]; rfl
    rw [e1, e2, e3] at this
    exact this

end SV.Agg

namespace SV.Agg

/-! ## field without group-by (SingleSourceHistogramAggregator) across fractions -/

def binDocs (k : Bin) (evs : List Ev) : List Ev := if k.token = "" then evs.filter fun ev => ev.bin = k.mid else []

def fieldVals (fv : Nat → Int) (k : Bin) (evs : List Ev) : List Int := evVals fv (binDocs k evs)
def fieldMissing (k : Bin) (evs : List Ev) : Nat := evNe (binDocs k evs)
def fieldPres (k : Bin) (evs : List Ev) : Bool := decide (binDocs k evs ≠ [])

/-- **SingleSourceHistogramAggregator, every bin** -/
theorem histAggRun_tok (lim : Nat) (pick : List Int → Nat) (collect : Bool) (fval : Nat → Option Int) (evs : List Ev)
    (hp : ParseOk fval evs)
    (hl : collect = true → ∀ k, (fieldVals (fun s => (fval s).getD 0) k evs).length ≤ lim) :
    ∃ a, histAggRun lim pick collect fval evs = some a ∧ KeysNodup a.bins ∧ a.notExists = 0 ∧
      ∀ k, ORep (fieldPres k evs) (fieldVals (fun s => (fval s).getD 0) k evs) (fieldMissing k evs) collect (a.get k) := by
  obtain ⟨a, ha, h0, htok, hb⟩ := histAggRun_spec lim pick collect fval evs hp (by
    intro hc b
    simpa [fieldVals, binDocs] using hl hc ⟨b, ""⟩)
  refine ⟨a, ha, ?_, h0, fun k => ?_⟩
  · have : histAggRun lim pick collect fval evs = some
        ⟨evs.foldl (fun bs ev => upsert ⟨ev.bin, ""⟩ (histUpd lim pick collect (fun s => (fval s).getD 0) ev) bs) [], 0⟩ := by
      unfold histAggRun; rw [histAgg_fold _ _ _ _ _ hp]; rfl
    rw [ha] at this
    rw [Option.some.inj this]
    exact foldl_upsert_nodup _ _ _ _ (by simp [KeysNodup])
  · by_cases hk : k.token = ""
    · have ek : k = ⟨k.mid, ""⟩ := by cases k; simp at hk; simp [hk]
      have hbk := hb k.mid
      rw [← ek] at hbk
      by_cases hd : evs.filter (fun ev => ev.bin = k.mid) = []
      · have hbd : binDocs k evs = [] := by simp [binDocs, hk, hd]
        refine ⟨fun _ => ⟨hbk.1 hd, by simp [fieldVals, hbd, evVals], by simp [fieldMissing, hbd, evNe]⟩, fun hpres => ?_⟩
        simp [fieldPres, hbd] at hpres
      · obtain ⟨c, hc1, hc2⟩ := hbk.2 hd
        have hbd : binDocs k evs = evs.filter (fun ev => ev.bin = k.mid) := by simp [binDocs, hk]
        refine ⟨fun hpres => ?_, fun _ => ⟨c, hc1, by simpa [fieldVals, fieldMissing, hbd] using hc2⟩⟩
        simp [fieldPres, hbd, hd] at hpres
    · have hbd : binDocs k evs = [] := by simp [binDocs, hk]
      refine ⟨fun _ => ⟨htok k hk, by simp [fieldVals, hbd, evVals], by simp [fieldMissing, hbd, evNe]⟩, fun hpres => ?_⟩
      simp [fieldPres, hbd] at hpres

/-- the fraction's field-only result as a leaf of a merge tree -/
def Frac.fieldLeaf (lim : Nat) (pick : List Int → Nat) (collect : Bool) (f : Frac) : ALeaf :=
  ⟨(histAggRun lim pick collect f.fval f.evs).getD AS.empty,
    fun k => fieldPres k f.evs, fun k => fieldVals (fun s => (f.fval s).getD 0) k f.evs, fun k => fieldMissing k f.evs⟩

/-- **field statistics per time bin, end to end in the model**: any tree of `Merge` calls over the per-fraction
results gives for every time bin a container that exists exactly when some fraction has a matching document in
the bin, summarising the field values of all such documents of all fractions and counting those without the field -/
theorem field_stats_merged (lim : Nat) (pick : List Int → Nat) (collect : Bool) (t : MTree Frac)
    (hok : ∀ f, f ∈ t.leaves → ParseOk f.fval f.evs)
    (hl : collect = true → ∀ k, (t.leaves.flatMap fun f => fieldVals (fun s => (f.fval s).getD 0) k f.evs).length ≤ lim) :
    ((t.map (Frac.fieldLeaf lim pick collect)).eval (mergeLeaf lim pick)).a.notExists = 0 ∧
    ∀ k, ORep (t.leaves.any fun f => fieldPres k f.evs)
      (t.leaves.flatMap fun f => fieldVals (fun s => (f.fval s).getD 0) k f.evs)
      ((t.leaves.map fun f => fieldMissing k f.evs).sum) collect
      (((t.map (Frac.fieldLeaf lim pick collect)).eval (mergeLeaf lim pick)).a.get k) := by
  have hleafspec : ∀ f, f ∈ t.leaves →
      KeysNodup (Frac.fieldLeaf lim pick collect f).a.bins ∧ (Frac.fieldLeaf lim pick collect f).a.notExists = 0 ∧
      ∀ k, ORep (fieldPres k f.evs) (fieldVals (fun s => (f.fval s).getD 0) k f.evs) (fieldMissing k f.evs) collect
        ((Frac.fieldLeaf lim pick collect f).a.get k) := by
    intro f hf
    obtain ⟨a, ha, h1, h2, h3⟩ := histAggRun_tok lim pick collect f.fval f.evs (hok f hf) (by
      intro hc k
      exact Nat.le_trans (length_le_flatMap t.leaves (fun l => fieldVals (fun s => (l.fval s).getD 0) k l.evs) f hf) (hl hc k))
    simp only [Frac.fieldLeaf, ha, Option.getD_some]
    exact ⟨h1, h2, h3⟩
  have hrep := ATree.rep lim pick collect (t.map (Frac.fieldLeaf lim pick collect))
    (by
      intro l hl'
      rw [MTree.leaves_map] at hl'
      obtain ⟨f, hf, rfl⟩ := List.mem_map.mp hl'
      have := hleafspec f hf
      exact ⟨this.1, this.2.2⟩)
    (by
      intro hc k
      rw [MTree.leaves_map]
      simpa [binVals, List.flatMap_map, Frac.fieldLeaf] using hl hc k)
  refine ⟨?_, fun k => ?_⟩
  · rw [hrep.2.1, MTree.leaves_map, List.map_map]
    have : ∀ ls : List Frac, (∀ f, f ∈ ls → f ∈ t.leaves) →
        (ls.map ((fun l : ALeaf => l.a.notExists) ∘ Frac.fieldLeaf lim pick collect)).sum = 0 := by
      intro ls
      induction ls with
      | nil => intro _; rfl
      | cons f ls ih =>
        intro hsub
        simp only [List.map_cons, List.sum_cons, Function.comp]
        rw [(hleafspec f (hsub f (by simp))).2.1, ih (fun f' hf' => hsub f' (List.mem_cons_of_mem _ hf'))]
    exact this t.leaves (fun _ h => h)
  · have := (hrep.2.2 k).1
    rw [MTree.leaves_map] at this
    have e1 : binVals (t.leaves.map (Frac.fieldLeaf lim pick collect)) k =
        t.leaves.flatMap fun f => fieldVals (fun s => (f.fval s).getD 0) k f.evs := by
      simp [binVals, List.flatMap_map, Frac.fieldLeaf]
    have e2 : binNe (t.leaves.map (Frac.fieldLeaf lim pick collect)) k = (t.leaves.map fun f => fieldMissing k f.evs).sum := by
      simp only [binNe, List.map_map]; rfl
    have e3 : binPres (t.leaves.map (Frac.fieldLeaf lim pick collect)) k = t.leaves.any fun f => fieldPres k f.evs := by
      simp only [binPres, List.any_map]; rfl
    rw [e1, e2, e3] at this
    exact this

end SV.Agg
