import SeqVerif.Model.BulkFrame
/-!
# The processing loop on top of the reader, the docs payload codec, and bodies built from entries
-/
namespace SV.Bulk

/-- the processing loop applied to the documents the reader yields (`ds`) and the way the reader ends (`e`) -/
def procList (kind : Bytes → Kind) (mk : Bytes → List Meta) : St → List Bytes → End → PR
  | st, [], .done => .ok st
  | _, [], .err e => .err e
  | st, d :: ds, e =>
    match kind d with
    | .invalid => .err .badJSON
    | .nonObject => procList kind mk st ds e
    | .object => procList kind mk (st.push mk d) ds e

/-- the interleaved loop of `processDocsToCompressor` is the list processing of what the reader yields -/
theorem processDocs_eq (E : Env) (checkN : Nat) (kind : Bytes → Kind) (mk : Bytes → List Meta) :
    ∀ (f n : Nat) (s : Bytes) (st : St),
      processDocs E checkN kind mk f n s st =
        procList kind mk st (readAllF E checkN f n s).1 (readAllF E checkN f n s).2 := by
  intro f
  induction f with
  | zero => intro n s st; rfl
  | succ f ih =>
    intro n s st
    simp only [processDocs, readAllF]
    cases readDoc E checkN n s with
    | done => rfl
    | err e => rfl
    | doc d rest n' =>
      simp only [procList]
      cases kind d with
      | invalid => rfl
      | nonObject => exact ih n' rest st
      | object => exact ih n' rest (st.push mk d)

/-- last part of `ProcessDocuments`: empty bulk -> no store call; otherwise exactly one `StoreDocuments` -/
def finish (storeOk : Bool) : PR → Result
  | .err e => ⟨.error e, none⟩
  | .ok st =>
    if st.total = 0 then ⟨.ok 0, none⟩
    else if storeOk then ⟨.ok st.total, some (st.total, st.docs, st.metas)⟩
    else ⟨.error .store, some (st.total, st.docs, st.metas)⟩

theorem processDocuments_eq (E : Env) (checkN : Nat) (kind : Bytes → Kind) (mk : Bytes → List Meta) (storeOk : Bool)
    (body : Bytes) :
    processDocuments E checkN kind mk storeOk body =
      finish storeOk (procList kind mk St.init (readAll E checkN body).1 (readAll E checkN body).2) := by
  simp only [processDocuments, processDocs_eq, readAll, finish]
  cases procList kind mk St.init _ _ <;> rfl

theorem processDocuments_render (E : Env) (hB : 2 ≤ E.B) (checkN : Nat) (kind : Bytes → Kind) (mk : Bytes → List Meta)
    (storeOk : Bool) (ls : List Bytes) (h : NoNL ls) :
    processDocuments E checkN kind mk storeOk (render ls) =
      finish storeOk (procList kind mk St.init (frame E checkN [] .action 0 ls).1 (frame E checkN [] .action 0 ls).2) := by
  rw [processDocuments_eq, readAll_render E hB checkN ls h]

theorem processDocuments_render_tail (E : Env) (hB : 2 ≤ E.B) (checkN : Nat) (kind : Bytes → Kind) (mk : Bytes → List Meta)
    (storeOk : Bool) (ls : List Bytes) (tail : Bytes) (h : NoNL ls) (htail : 10 ∉ tail) :
    processDocuments E checkN kind mk storeOk (render ls ++ tail) =
      finish storeOk (procList kind mk St.init (frame E checkN tail .action 0 ls).1
        (frame E checkN tail .action 0 ls).2) := by
  rw [processDocuments_eq, readAll_render_tail E hB checkN ls tail h htail]

/-! ## list processing -/

def objects (kind : Bytes → Kind) (ds : List Bytes) : List Bytes := ds.filter fun d => kind d = .object

theorem procList_done (kind : Bytes → Kind) (mk : Bytes → List Meta) :
    ∀ (ds : List Bytes) (st : St), (∀ d, d ∈ ds → kind d ≠ .invalid) →
      procList kind mk st ds .done = .ok ((objects kind ds).foldl (St.push mk) st) := by
  intro ds
  induction ds with
  | nil => intro st _; rfl
  | cons d ds ih =>
    intro st h
    have hd := h d (by simp)
    have ih := fun st => ih st (fun x hx => h x (by simp [hx]))
    simp only [procList, objects, List.filter]
    cases hk : kind d with
    | invalid => exact absurd hk hd
    | nonObject => simpa [objects] using ih st
    | object => simpa [objects] using ih (st.push mk d)

theorem procList_err (kind : Bytes → Kind) (mk : Bytes → List Meta) (e : Err) :
    ∀ (ds : List Bytes) (st : St), ∃ e', procList kind mk st ds (.err e) = .err e' := by
  intro ds
  induction ds with
  | nil => intro st; exact ⟨e, rfl⟩
  | cons d ds ih =>
    intro st
    simp only [procList]
    cases kind d with
    | invalid => exact ⟨_, rfl⟩
    | nonObject => exact ih st
    | object => exact ih (st.push mk d)

theorem procList_invalid (kind : Bytes → Kind) (mk : Bytes → List Meta) :
    ∀ (ds : List Bytes) (st : St) (e : End), (∃ d, d ∈ ds ∧ kind d = .invalid) →
      ∃ e', procList kind mk st ds e = .err e' := by
  intro ds
  induction ds with
  | nil => intro st e h; obtain ⟨d, hd, _⟩ := h; cases hd
  | cons d ds ih =>
    intro st e h
    simp only [procList]
    cases hk : kind d with
    | invalid => exact ⟨_, rfl⟩
    | nonObject =>
      obtain ⟨x, hx, hxk⟩ := h
      rcases List.mem_cons.mp hx with rfl | hx
      · rw [hk] at hxk; cases hxk
      · exact ih st e ⟨x, hx, hxk⟩
    | object =>
      obtain ⟨x, hx, hxk⟩ := h
      rcases List.mem_cons.mp hx with rfl | hx
      · rw [hk] at hxk; cases hxk
      · exact ih (st.push mk d) e ⟨x, hx, hxk⟩

/-! ## payload codec -/

def enc1 (d : Bytes) : Bytes := le32 d.length ++ d

theorem foldl_appendDoc (ds : List Bytes) : ∀ acc : Bytes, ds.foldl appendDoc acc = acc ++ ds.flatMap enc1 := by
  induction ds with
  | nil => intro acc; simp
  | cons d ds ih => intro acc; simp [ih, appendDoc, enc1]

theorem encodeDocs_eq (ds : List Bytes) : encodeDocs ds = ds.flatMap enc1 := by
  simp [encodeDocs, foldl_appendDoc]

theorem foldl_push (mk : Bytes → List Meta) (ds : List Bytes) : ∀ st : St,
    ds.foldl (St.push mk) st = ⟨st.total + ds.length, st.docs ++ ds.flatMap enc1, st.metas ++ ds.flatMap mk⟩ := by
  induction ds with
  | nil => intro st; simp
  | cons d ds ih =>
    intro st
    simp only [List.foldl_cons, ih, St.push, appendDoc, enc1, List.length_cons, List.flatMap_cons]
    congr 1
    · omega
    · simp
    · simp

theorem decodeDocs_step (d rest : Bytes) (f : Nat) (hd : d.length < 4294967296) :
    decodeDocs (f + 1) (enc1 d ++ rest) = (decodeDocs f rest).map (fun ds => d :: ds) := by
  have hn : d.length % 256 + 256 * (d.length / 256 % 256) + 65536 * (d.length / 65536 % 256)
          + 16777216 * (d.length / 16777216 % 256) = d.length := by omega
  simp only [enc1, le32, List.cons_append, List.nil_append, decodeDocs, hn]
  have h1 : ¬ (d ++ rest).length < d.length := by simp
  simp only [h1, if_false, List.drop_left, List.take_left]

theorem decodeDocs_flatMap : ∀ (ds : List Bytes) (f : Nat), ds.length ≤ f →
    (∀ d, d ∈ ds → d.length < 4294967296) → decodeDocs f (ds.flatMap enc1) = some ds := by
  intro ds
  induction ds with
  | nil => intro f _ _; cases f <;> rfl
  | cons d ds ih =>
    intro f hf hlen
    cases f with
    | zero => simp at hf
    | succ f =>
      rw [List.flatMap_cons, decodeDocs_step d _ f (hlen d (by simp)),
        ih f (by simpa using hf) (fun x hx => hlen x (by simp [hx]))]
      rfl

/-- **payload round trip**: the length-prefixed docs payload decodes to exactly the documents appended
(each shorter than 2^32 bytes, the range of Go's `uint32(len(doc))`) -/
theorem decode_encode (ds : List Bytes) (h : ∀ d, d ∈ ds → d.length < 4294967296) :
    decodeDocs (encodeDocs ds).length (encodeDocs ds) = some ds := by
  rw [encodeDocs_eq]
  apply decodeDocs_flatMap ds _ _ h
  induction ds with
  | nil => simp
  | cons d ds ih =>
    have := ih (fun x hx => h x (by simp [hx]))
    simp only [List.flatMap_cons, List.length_append, List.length_cons, enc1, le32] at *
    omega

/-! ## bodies built from entries: blank lines, an action line, a document line -/

structure Entry where
  blanks : List Bytes
  action : Bytes
  doc : Bytes
  deriving Repr, DecidableEq

def Entry.lines (e : Entry) : List Bytes := e.blanks ++ [e.action, e.doc]

/-- a line the reader treats as blank at an action position -/
def Blank (B : Nat) (c : Bytes) : Prop := fits B c = true ∧ dropCR c = []

instance (B : Nat) (c : Bytes) : Decidable (Blank B c) := by unfold Blank; infer_instance

/-- the entry is accepted by the protocol checks when its action line is the `n`-th one -/
structure Entry.WF (E : Env) (checkN n : Nat) (e : Entry) : Prop where
  blanks : ∀ b, b ∈ e.blanks → Blank E.B b
  actionFits : fits E.B e.action = true
  actionNonBlank : dropCR e.action ≠ []
  actionKnown : unknownAction checkN n (dropCR e.action) = false
  docNonEmpty : fits E.B e.doc = true → dropCR e.doc ≠ []

def WFFrom (E : Env) (checkN : Nat) : Nat → List Entry → Prop
  | _, [] => True
  | n, e :: es => e.WF E checkN n ∧ WFFrom E checkN (n + 1) es

/-- the document lines within the size limit, terminator removed, in order -/
def docsOf (B : Nat) (es : List Entry) : List Bytes :=
  es.filterMap fun e => if fits B e.doc then some (dropCR e.doc) else none

theorem frame_blanks (E : Env) (checkN n : Nat) (tail : Bytes) (ls : List Bytes) :
    ∀ bs : List Bytes, (∀ b, b ∈ bs → Blank E.B b) →
      frame E checkN tail .action n (bs ++ ls) = frame E checkN tail .action n ls := by
  intro bs
  induction bs with
  | nil => intro _; rfl
  | cons b bs ih =>
    intro h
    have hb := h b (by simp)
    simp only [List.cons_append, frame, hb.1, hb.2, Bool.not_true, Bool.false_eq_true, if_false, if_true]
    exact ih (fun x hx => h x (by simp [hx]))

/-- entries followed by any further lines `rest` (and remainder `tail`): the entries' in-limit documents are
yielded, then the reader continues at an action position with `n + es.length` action lines read -/
theorem frame_entries_then (E : Env) (checkN : Nat) (tail : Bytes) (rest : List Bytes) :
    ∀ (es : List Entry) (n : Nat), WFFrom E checkN n es →
      frame E checkN tail .action n (es.flatMap Entry.lines ++ rest) =
        (docsOf E.B es ++ (frame E checkN tail .action (n + es.length) rest).1,
          (frame E checkN tail .action (n + es.length) rest).2) := by
  intro es
  induction es with
  | nil => intro n _; simp [docsOf]
  | cons e es ih =>
    intro n hwf
    obtain ⟨he, hes⟩ := hwf
    have ih := ih (n + 1) hes
    have hn : n + 1 + es.length = n + (es.length + 1) := by omega
    simp only [List.flatMap_cons, Entry.lines, List.append_assoc, List.length_cons]
    rw [frame_blanks E checkN n tail _ e.blanks he.blanks]
    simp only [List.cons_append, List.nil_append, frame, he.actionFits, he.actionNonBlank, he.actionKnown,
      Bool.not_true, Bool.false_eq_true, if_false]
    by_cases hf : fits E.B e.doc = true
    · simp only [hf, Bool.not_true, Bool.false_eq_true, if_false, he.docNonEmpty hf, ih, docsOf,
        List.filterMap_cons, if_true, hn, List.cons_append]
    · simp only [hf, Bool.not_false, if_true, ih, docsOf, List.filterMap_cons, hn]
      simp

theorem frame_entries (E : Env) (checkN : Nat) (trail : List Bytes) (ht : ∀ b, b ∈ trail → Blank E.B b) :
    ∀ (es : List Entry) (n : Nat), WFFrom E checkN n es →
      frame E checkN [] .action n (es.flatMap Entry.lines ++ trail) = (docsOf E.B es, endOf E) := by
  intro es n hwf
  rw [frame_entries_then E checkN [] trail es n hwf]
  have := frame_blanks E checkN (n + es.length) [] [] trail ht
  simp only [List.append_nil] at this
  simp [this, frame_nil_nil]

/-- converse of `frame_entries`: a body of terminated lines on which the reader ends normally IS a sequence of
well-formed entries followed by blank lines - the entry description loses no accepted request -/
theorem frame_done_entries (E : Env) (checkN : Nat) :
    ∀ (k : Nat) (ls : List Bytes), ls.length ≤ k → ∀ (n : Nat) (ds : List Bytes),
      frame E checkN [] .action n ls = (ds, .done) →
      ∃ es trail, ls = es.flatMap Entry.lines ++ trail ∧ WFFrom E checkN n es ∧ ∀ b, b ∈ trail → Blank E.B b := by
  intro k
  induction k with
  | zero =>
    intro ls hl n ds _
    have : ls = [] := List.length_eq_zero_iff.mp (by omega)
    subst this
    exact ⟨[], [], rfl, trivial, fun b hb => by cases hb⟩
  | succ k ih =>
    intro ls hl n ds h
    cases ls with
    | nil => exact ⟨[], [], rfl, trivial, fun b hb => by cases hb⟩
    | cons c ls =>
      simp only [frame] at h
      by_cases h1 : fits E.B c = true
      · simp only [h1, Bool.not_true, Bool.false_eq_true, if_false] at h
        by_cases h2 : dropCR c = []
        · -- a blank line: joins the next entry's blanks, or the trailing blanks
          simp only [h2, if_true] at h
          obtain ⟨es, trail, hls, hwf, ht⟩ := ih ls (by simp at hl; omega) n ds h
          cases es with
          | nil =>
            refine ⟨[], c :: trail, by simp [hls], trivial, ?_⟩
            intro b hb
            rcases List.mem_cons.mp hb with rfl | hb
            · exact ⟨h1, h2⟩
            · exact ht b hb
          | cons e es =>
            refine ⟨⟨c :: e.blanks, e.action, e.doc⟩ :: es, trail, ?_, ⟨?_, hwf.2⟩, ht⟩
            · simp [hls, Entry.lines]
            · exact ⟨fun b hb => by
                rcases List.mem_cons.mp hb with rfl | hb
                · exact ⟨h1, h2⟩
                · exact hwf.1.blanks b hb,
                hwf.1.actionFits, hwf.1.actionNonBlank, hwf.1.actionKnown, hwf.1.docNonEmpty⟩
        · simp only [h2, if_false] at h
          by_cases h3 : unknownAction checkN n (dropCR c) = true
          · simp [h3] at h
          · simp only [h3] at h
            cases ls with
            | nil => simp [frame, tailDoc] at h
            | cons d ls =>
              simp only [frame] at h
              have hlen : ls.length ≤ k := by simp at hl; omega
              by_cases h4 : fits E.B d = true
              · simp only [h4, Bool.not_true, Bool.false_eq_true, if_false] at h
                by_cases h5 : dropCR d = []
                · simp [h5] at h
                · simp only [h5, if_false, Prod.mk.injEq] at h
                  obtain ⟨es, trail, hls, hwf, ht⟩ := ih ls hlen (n + 1) _ (Prod.ext rfl h.2)
                  refine ⟨⟨[], c, d⟩ :: es, trail, by simp [hls, Entry.lines], ⟨?_, hwf⟩, ht⟩
                  exact ⟨fun b hb => (by cases hb), h1, h2, (by simpa using h3), fun _ => h5⟩
              · simp only [h4, Bool.not_false, if_true] at h
                obtain ⟨es, trail, hls, hwf, ht⟩ := ih ls hlen (n + 1) ds h
                refine ⟨⟨[], c, d⟩ :: es, trail, by simp [hls, Entry.lines], ⟨?_, hwf⟩, ht⟩
                exact ⟨fun b hb => (by cases hb), h1, h2, (by simpa using h3), fun hf => absurd hf h4⟩
      · simp [h1] at h

theorem procList_err_inv (kind : Bytes → Kind) (mk : Bytes → List Meta) :
    ∀ (ds : List Bytes) (e : End) (st : St) (x : Err), procList kind mk st ds e = .err x → x = .badJSON ∨ e = .err x := by
  intro ds
  induction ds with
  | nil =>
    intro e st x h
    cases e with
    | done => cases h
    | err y => injection h with h; right; rw [h]
  | cons d ds ih =>
    intro e st x h
    simp only [procList] at h
    cases hk : kind d with
    | invalid => rw [hk] at h; injection h with h; left; exact h.symm
    | nonObject => rw [hk] at h; exact ih e st x h
    | object => rw [hk] at h; exact ih e _ x h

/-- the line-level description never mentions the fuel artefact -/
theorem frame_no_fuel (E : Env) (checkN : Nat) (tail : Bytes) :
    ∀ (ls : List Bytes) (p : Pos) (n : Nat), (frame E checkN tail p n ls).2 ≠ .err .fuel := by
  intro ls
  induction ls with
  | nil =>
    intro p n
    cases p
    · simp only [frame]
      unfold tailAct endNext
      by_cases h1 : tail = [] <;> by_cases h2 : fitsTail E tail = true <;>
        by_cases h3 : unknownAction checkN n tail = true <;> cases hc : E.clean <;> simp [h1, h2, h3]
    · simp only [frame]
      unfold tailDoc endNext endOf
      by_cases h1 : tail = [] <;> by_cases h2 : fitsTail E tail = true <;>
        by_cases h3 : tailSkipOk E tail = true <;> cases hc : E.clean <;> simp [h1, h2, h3]
  | cons c ls ih =>
    intro p n
    cases p
    · simp only [frame]
      split
      · simp
      · split
        · exact ih .action n
        · split
          · simp
          · exact ih .doc n
    · simp only [frame]
      split
      · exact ih .action (n + 1)
      · split
        · simp
        · exact ih .action (n + 1)

theorem procList_ok_inv (kind : Bytes → Kind) (mk : Bytes → List Meta) (ds : List Bytes) (e : End) (st st' : St)
    (h : procList kind mk st ds e = .ok st') : e = .done ∧ ∀ d, d ∈ ds → kind d ≠ .invalid := by
  constructor
  · cases e with
    | done => rfl
    | err x =>
      obtain ⟨e', he'⟩ := procList_err kind mk x ds st
      rw [he'] at h; cases h
  · intro d hd hk
    obtain ⟨e', he'⟩ := procList_invalid kind mk ds st e ⟨d, hd, hk⟩
    rw [he'] at h; cases h

/-- shape of the answer of an accepted request that must store `S` -/
def acceptedWith (mk : Bytes → List Meta) (S : List Bytes) : Result :=
  ⟨.ok S.length, if S = [] then none else some (S.length, encodeDocs S, S.flatMap mk)⟩

theorem finish_done (kind : Bytes → Kind) (mk : Bytes → List Meta) (ds : List Bytes)
    (h : ∀ d, d ∈ ds → kind d ≠ .invalid) :
    finish true (procList kind mk St.init ds .done) = acceptedWith mk (objects kind ds) := by
  rw [procList_done kind mk ds St.init h, foldl_push]
  simp only [finish, St.init, acceptedWith, encodeDocs_eq, List.nil_append, Nat.zero_add]
  cases hS : objects kind ds with
  | nil => simp
  | cons d S => simp


end SV.Bulk
